import ErgVerif.C21.Proofs
import ErgVerif.C21.TsortProofs
/-!
# C21 — `sort`: connecting the `tsort` theorems (over node lists) with the reference graph, and the
one-step / history theorems that need every operation
-/
namespace ErgVerif.C21
open ErgVerif.Graph

/-! ## list-level graph notions = reference-graph notions under the invariant -/

theorem GE_iff {s : MG} (h : Inv s) (a b : Path) : GE s.graph a b ↔ (abs s).edges a b := by
  constructor
  · rintro ⟨n, hl, hb⟩
    obtain ⟨hn, e⟩ := look_some hl
    exact ⟨n, hn, e, hb⟩
  · rintro ⟨n, hn, e, hb⟩
    exact ⟨n, by rw [← e]; exact look_of_nodup (ids_nodup h) hn, hb⟩

theorem GR1_iff {s : MG} (h : Inv s) (a b : Path) : GR1 s.graph a b ↔ (abs s).Reach1 a b := by
  constructor
  · intro r
    induction r with
    | edge e => exact .edge ((GE_iff h _ _).mp e)
    | step e _ ih => exact .step ((GE_iff h _ _).mp e) ih
  · intro r
    induction r with
    | edge e => exact .edge ((GE_iff h _ _).mpr e)
    | step e _ ih => exact .step ((GE_iff h _ _).mpr e) ih

theorem GAcyclic_iff {s : MG} (h : Inv s) : GAcyclic s.graph ↔ (abs s).Acyclic := by
  constructor
  · intro hg x r; exact hg x ((GR1_iff h x x).mpr r)
  · intro hg x r; exact hg x ((GR1_iff h x x).mp r)

theorem GClosed_iff (s : MG) : GClosed s.graph ↔ (abs s).Closed := by
  constructor
  · intro hg a b ⟨n, hn, _, hb⟩; exact hg n hn b hb
  · intro hg n hn d hd; exact hg n.id d ⟨n, hn, rfl, hd⟩

/-! ## `sorted` / `sort` -/

/-- the listing property of a successful sort: every node comes after all nodes it depends on -/
def DepsFirst (g : List Node) : Prop :=
  ∀ pre n post, g = pre ++ n :: post → ∀ d ∈ n.deps, ∃ m ∈ pre, m.id = d

theorem sorted_spec {s : MG} (h : Inv s) :
    (∃ s', s.sorted = .ok s' ∧ Inv s' ∧ s'.graph.Perm s.graph ∧ DepsFirst s'.graph ∧ abs s' = abs s ∧
        (abs s).Closed ∧ (abs s).Acyclic) ∨
    (s.sorted = .error .cycle ∧ ¬ (abs s).Acyclic) ∨
    (s.sorted = .error .keyNotFound ∧ ¬ (abs s).Closed) := by
  unfold MG.sorted
  have hnd := ids_nodup h
  cases ht : tsort s.graph with
  | error e =>
    cases e with
    | cycle => exact Or.inr (Or.inl ⟨rfl, fun hac => tsort_cycle_sound _ ht ((GAcyclic_iff h).mpr hac)⟩)
    | keyNotFound => exact Or.inr (Or.inr ⟨rfl, fun hc => tsort_knf_sound _ ht ((GClosed_iff s).mpr hc)⟩)
    | fuel => exact absurd ht (tsort_total s.graph).1
    | crash => exact absurd ht (tsort_total s.graph).2
  | ok g' =>
    left
    obtain ⟨hperm, hord⟩ := tsort_sound s.graph g' hnd ht
    obtain ⟨hcl, hac⟩ := tsort_ok_closed_acyclic s.graph g' hnd ht
    have hnd' : (g'.map (·.id)).Nodup := (List.Perm.map _ hperm).nodup_iff.mpr hnd
    refine ⟨_, rfl, ⟨?_, ?_⟩, hperm, hord, ?_, (GClosed_iff s).mp hcl, (GAcyclic_iff h).mp hac⟩
    · intro q i
      show dget ((g'.map (·.id)).zipIdx.foldl _ []) q = some i ↔ _
      rw [rebuilt_index_ok _ hnd' q i, List.getElem?_map]
    · intro n hn; exact h.nodup n (hperm.mem_iff.mp hn)
    · apply RG.ext'
      · intro x
        simp only [abs]
        exact ⟨fun ⟨n, hn, e⟩ => ⟨n, hperm.mem_iff.mp hn, e⟩, fun ⟨n, hn, e⟩ => ⟨n, hperm.mem_iff.mpr hn, e⟩⟩
      · intro x y
        simp only [abs]
        exact ⟨fun ⟨n, hn, e⟩ => ⟨n, hperm.mem_iff.mp hn, e⟩, fun ⟨n, hn, e⟩ => ⟨n, hperm.mem_iff.mpr hn, e⟩⟩

/-! ## one step, and histories -/

/-- every operation keeps the invariant, refines the reference graph, reports the reference result,
    and never crashes -/
theorem step_spec {s : MG} (h : Inv s) (op : Op) :
    Inv (step s op).1 ∧ abs (step s op).1 = Spec.step (abs s) op ∧ Spec.res (abs s) op (step s op).2 := by
  cases op with
  | add p => exact ⟨add_inv h p, add_abs h p, rfl⟩
  | inc a b =>
    obtain ⟨s', r, hr, inv', habs, hres⟩ := incRef_spec h a b
    simp only [step, hr]
    cases r with
    | true =>
      refine ⟨inv', habs, Or.inr ⟨?_, rfl⟩⟩
      intro hc; have := hres.mpr hc; cases this
    | false =>
      obtain ⟨h1, h2⟩ := hres.mp rfl
      exact ⟨inv', habs, Or.inl ⟨h1, h2, rfl⟩⟩
  | remove p =>
    obtain ⟨s', hr, inv', habs⟩ := remove_spec h p
    simp only [step, hr]
    exact ⟨inv', habs, rfl⟩
  | rename o n =>
    obtain ⟨s', hr, inv', habs⟩ := rename_spec h o n
    simp only [step, hr]
    exact ⟨inv', habs, rfl⟩
  | sort =>
    rcases sorted_spec h with ⟨s', hs, inv', _, _, habs, hcl, hac⟩ | ⟨hs, hac⟩ | ⟨hs, hcl⟩
    · simp only [step, MG.sort, hs]
      exact ⟨inv', habs, Or.inl ⟨hcl, hac, rfl⟩⟩
    · simp only [step, MG.sort, hs]
      refine ⟨h, rfl, ?_⟩
      by_cases hcl : (abs s).Closed
      · exact Or.inr (Or.inl ⟨hcl, hac, rfl⟩)
      · exact Or.inr (Or.inr (Or.inr ⟨hcl, hac, Or.inr rfl⟩))
    · simp only [step, MG.sort, hs]
      refine ⟨h, rfl, ?_⟩
      by_cases hac : (abs s).Acyclic
      · exact Or.inr (Or.inr (Or.inl ⟨hcl, hac, rfl⟩))
      · exact Or.inr (Or.inr (Or.inr ⟨hcl, hac, Or.inl rfl⟩))

theorem res_ne_crash (g : RG) (op : Op) (r : OpRes) (h : Spec.res g op r) : ∀ e, r ≠ .crash e := by
  intro e he
  subst he
  cases op <;> simp [Spec.res] at h

theorem run_spec {s : MG} (h : Inv s) (ops : List Op) :
    Inv (run s ops) ∧ abs (run s ops) = Spec.run (abs s) ops := by
  induction ops generalizing s with
  | nil => exact ⟨h, rfl⟩
  | cons op ops ih =>
    obtain ⟨inv', habs, _⟩ := step_spec h op
    have := ih inv'
    simp only [run, Spec.run, List.foldl_cons] at this ⊢
    rw [← habs]
    exact this

theorem abs_new : abs MG.new = RG.empty := by
  apply RG.ext'
  · intro x; simp [abs, MG.new, RG.empty]
  · intro x y; simp [abs, MG.new, RG.empty]

theorem spec_run_acyclic (g : RG) (hac : g.Acyclic) (ops : List Op) (hop : ∀ op ∈ ops, ∀ o n, op ≠ .rename o n) :
    (Spec.run g ops).Acyclic := by
  induction ops generalizing g with
  | nil => exact hac
  | cons op ops ih =>
    simp only [Spec.run, List.foldl_cons]
    exact ih _ (spec_step_acyclic g hac op (hop op (by simp))) (fun op' h' => hop op' (by simp [h']))

end ErgVerif.C21
