import ErgVerif.Shared.Graph
/-!
Proofs about `ErgVerif.Graph.tsort` (the transcription of `crates/erg_common/tsort.rs`):
totality (no fuel exhaustion, no `unwrap` panic), soundness of the produced order, soundness of both error
results, and completeness on closed duplicate-free graphs.
-/
namespace ErgVerif.Graph

def look (g : List Node) (v : Path) : Option Node := g.find? (fun n => n.id == v)
/-- edge relation read through `look` (first node with that id) -/
def GE (g : List Node) (a b : Path) : Prop := ∃ n, look g a = some n ∧ b ∈ n.deps
inductive GR1 (g : List Node) : Path → Path → Prop
  | edge {a b : Path} : GE g a b → GR1 g a b
  | step {a b c : Path} : GE g a b → GR1 g b c → GR1 g a c
def GAcyclic (g : List Node) : Prop := ∀ x, ¬ GR1 g x x
def GClosed (g : List Node) : Prop := ∀ n ∈ g, ∀ d ∈ n.deps, ∃ m ∈ g, m.id = d

/-! ### basic facts -/

theorem look_some {g : List Node} {v : Path} {n : Node} (h : look g v = some n) : n ∈ g ∧ n.id = v := by
  unfold look at h
  exact ⟨List.mem_of_find?_eq_some h, by simpa using List.find?_some h⟩

theorem look_of_mem_id {g : List Node} {m : Node} {v : Path} (h : m ∈ g) (hv : m.id = v) :
    ∃ n, look g v = some n := by
  have : (g.find? (fun n => n.id == v)).isSome := by
    rw [List.find?_isSome]; exact ⟨m, h, by simp [hv]⟩
  exact Option.isSome_iff_exists.mp this

theorem look_of_nodup {g : List Node} (hnd : (g.map (·.id)).Nodup) {n : Node} (h : n ∈ g) :
    look g n.id = some n := by
  induction g with
  | nil => cases h
  | cons a g ih =>
    simp only [List.map_cons, List.nodup_cons] at hnd
    simp only [look, List.find?_cons]
    rcases List.mem_cons.mp h with rfl | h'
    · simp
    · have hne : a.id ≠ n.id := fun e => hnd.1 (e ▸ List.mem_map_of_mem h')
      have hb : (a.id == n.id) = false := by simp [hne]
      simp only [hb]
      exact ih hnd.2 h'

theorem mem_setInsert {l : List Path} {x y : Path} : y ∈ setInsert l x ↔ y ∈ l ∨ y = x := by
  by_cases h : x ∈ l
  · simp only [setInsert, h, if_true]
    constructor
    · exact Or.inl
    · rintro (h' | rfl)
      · exact h'
      · exact h
  · simp [setInsert, h]

theorem GR1.snoc {g : List Node} {a b c : Path} (h : GR1 g a b) (e : GE g b c) : GR1 g a c := by
  induction h with
  | edge h1 => exact .step h1 (.edge e)
  | step h1 _ ih => exact .step h1 (ih e)

theorem first_split {v : Path} : ∀ {l : List Path}, v ∈ l → ∃ pre post, l = pre ++ v :: post ∧ v ∉ pre
  | a :: l, h => by
    by_cases e : a = v
    · exact ⟨[], l, by simp [e], by simp⟩
    · have h' : v ∈ l := by
        rcases List.mem_cons.mp h with h1 | h1
        · exact absurd h1.symm e
        · exact h1
      obtain ⟨pre, post, rfl, hn⟩ := first_split h'
      refine ⟨a :: pre, post, by simp, ?_⟩
      intro hm
      rcases List.mem_cons.mp hm with h1 | h1
      · exact e h1.symm
      · exact hn h1

/-! ### the post-condition of a successful `dfs` -/

/-- every element of idx has all its deps strictly earlier in idx -/
def SortedL (g : List Node) (idx : List Path) : Prop :=
  ∀ pre v post, idx = pre ++ v :: post → ∀ n, look g v = some n → ∀ d ∈ n.deps, d ∈ pre

/-- every element of idx is the id of a node -/
def Lookable (g : List Node) (idx : List Path) : Prop := ∀ v ∈ idx, ∃ n, look g v = some n

theorem sortedL_nil (g : List Node) : SortedL g [] := by
  intro pre v post h; simp at h

theorem sortedL_snoc (g : List Node) (idx : List Path) (v : Path) (hs : SortedL g idx)
    (hd : ∀ n, look g v = some n → ∀ d ∈ n.deps, d ∈ idx) : SortedL g (idx ++ [v]) := by
  intro pre w post heq n hn d hdn
  cases post with
  | nil =>
    obtain ⟨h1, h2⟩ := List.append_inj' heq (by simp)
    simp at h2; subst h2; subst h1
    exact hd n hn d hdn
  | cons p post =>
    have hlast : idx ++ [v] = (pre ++ w :: (p :: post).dropLast) ++ [(p :: post).getLast (by simp)] := by
      rw [heq]
      have : p :: post = (p :: post).dropLast ++ [(p :: post).getLast (by simp)] :=
        (List.dropLast_concat_getLast (by simp)).symm
      conv => lhs; rw [this]
      simp
    obtain ⟨h1, _⟩ := List.append_inj' hlast (by simp)
    exact hs pre w _ h1 n hn d hdn

/-- in a `SortedL` list, a dependency sits strictly before its dependent -/
theorem sortedL_idxOf_lt {g : List Node} {idx : List Path} (hs : SortedL g idx) {v d : Path} {n : Node}
    (hn : look g v = some n) (hv : v ∈ idx) (hd : d ∈ n.deps) :
    d ∈ idx ∧ idx.idxOf d < idx.idxOf v := by
  obtain ⟨pre, post, rfl, hnp⟩ := first_split hv
  have hdp : d ∈ pre := hs pre v post rfl n hn d hd
  refine ⟨by simp [hdp], ?_⟩
  rw [List.idxOf_append, List.idxOf_append]
  simp only [hdp, hnp, if_true, if_false, List.idxOf_cons_self]
  have := List.idxOf_lt_length_of_mem hdp
  omega

structure Post (g : List Node) (used idx used' idx' : List Path) : Prop where
  ext : ∃ e, idx' = idx ++ e
  usedMono : ∀ x ∈ used, x ∈ used'
  sorted : SortedL g idx → SortedL g idx'
  lookable : Lookable g idx → Lookable g idx'
  /-- the "in progress" set `used \ idx` does not grow -/
  inprog : ∀ x, x ∈ used' → x ∉ idx' → x ∈ used ∧ x ∉ idx

theorem Post.refl (g : List Node) (used idx : List Path) : Post g used idx used idx :=
  ⟨⟨[], by simp⟩, fun _ h => h, id, id, fun _ h1 h2 => ⟨h1, h2⟩⟩

theorem Post.trans {g : List Node} {u0 i0 u1 i1 u2 i2 : List Path}
    (h1 : Post g u0 i0 u1 i1) (h2 : Post g u1 i1 u2 i2) : Post g u0 i0 u2 i2 := by
  refine ⟨?_, ?_, fun h => h2.sorted (h1.sorted h), fun h => h2.lookable (h1.lookable h), ?_⟩
  · obtain ⟨e1, he1⟩ := h1.ext; obtain ⟨e2, he2⟩ := h2.ext
    exact ⟨e1 ++ e2, by simp [he2, he1]⟩
  · intro x hx; exact h2.usedMono x (h1.usedMono x hx)
  · intro x hx hnx
    obtain ⟨a, b⟩ := h2.inprog x hx hnx
    exact h1.inprog x a b

theorem Post.mem_idx {g : List Node} {u0 i0 u1 i1 : List Path} (h : Post g u0 i0 u1 i1) {x : Path}
    (hx : x ∈ i0) : x ∈ i1 := by
  obtain ⟨e, he⟩ := h.ext; simp [he, hx]

/-- specification of the recursive call handed to `dfsLoop` -/
def FPost (g : List Node) (f : Path → List Path × List Path → Except Err (List Path × List Path)) : Prop :=
  ∀ d used idx used' idx', f d (used, idx) = .ok (used', idx') → Post g used idx used' idx' ∧ d ∈ idx'

theorem dfsLoop_post (g : List Node) (f : Path → List Path × List Path → Except Err (List Path × List Path))
    (hf : FPost g f) : ∀ (ds used idx used' idx' : List Path),
    dfsLoop f ds (used, idx) = .ok (used', idx') → Post g used idx used' idx' ∧ ∀ d ∈ ds, d ∈ idx' := by
  intro ds
  induction ds with
  | nil =>
    intro used idx used' idx' h
    simp [dfsLoop] at h; obtain ⟨rfl, rfl⟩ := h
    exact ⟨Post.refl .., by simp⟩
  | cons d ds ih =>
    intro used idx used' idx' h
    simp only [dfsLoop] at h
    split at h
    · simp at h
    · rename_i hnc
      split at h
      · split at h
        · simp at h
        · rename_i st' hd
          obtain ⟨u1, i1⟩ := st'
          obtain ⟨hp1, hdin⟩ := hf d used idx u1 i1 hd
          obtain ⟨hp2, hrest⟩ := ih u1 i1 used' idx' h
          refine ⟨hp1.trans hp2, ?_⟩
          intro x hx
          rcases List.mem_cons.mp hx with rfl | hx
          · exact hp2.mem_idx hdin
          · exact hrest x hx
      · rename_i hu
        have hu' : d ∈ used := by simpa using hu
        have hdi : d ∈ idx := by
          by_cases hdi : d ∈ idx
          · exact hdi
          · exact absurd (by simp [hu', hdi]) hnc
        obtain ⟨hp2, hrest⟩ := ih used idx used' idx' h
        refine ⟨hp2, ?_⟩
        intro x hx
        rcases List.mem_cons.mp hx with rfl | hx
        · exact hp2.mem_idx hdi
        · exact hrest x hx

theorem dfs_post (g : List Node) : ∀ fuel, FPost g (dfs g fuel) := by
  intro fuel
  induction fuel with
  | zero => intro v used idx used' idx' h; simp [dfs] at h
  | succ fuel ihf =>
    intro v used idx used' idx' h
    simp only [dfs] at h
    split at h
    · simp at h
    · rename_i n hn
      have hn : look g v = some n := hn
      split at h
      · simp at h
      · rename_i u1 i1 hdeps
        simp at h; obtain ⟨rfl, rfl⟩ := h
        obtain ⟨hp, hall⟩ := dfsLoop_post g _ ihf n.deps _ idx u1 i1 hdeps
        refine ⟨⟨?_, ?_, ?_, ?_, ?_⟩, by simp⟩
        · obtain ⟨e, he⟩ := hp.ext; exact ⟨e ++ [v], by simp [he]⟩
        · intro x hx; exact hp.usedMono x (mem_setInsert.mpr (Or.inl hx))
        · intro hs
          apply sortedL_snoc g i1 v (hp.sorted hs)
          intro n' hn' d hd
          rw [hn] at hn'; cases hn'
          exact hall d hd
        · intro hl x hx
          rcases List.mem_append.mp hx with hx | hx
          · exact hp.lookable hl x hx
          · simp at hx; subst hx; exact ⟨n, hn⟩
        · intro x hx hnx
          have hxv : x ≠ v := fun e => hnx (by simp [e])
          have hxi : x ∉ i1 := fun e => hnx (by simp [e])
          obtain ⟨a, b⟩ := hp.inprog x hx hxi
          rcases mem_setInsert.mp a with a | a
          · exact ⟨a, b⟩
          · exact absurd a hxv

/-! ### the top-level loop -/

/-- invariant between two top-level `dfs` calls: nothing is in progress -/
def TInv (g : List Node) (used idx : List Path) : Prop :=
  SortedL g idx ∧ Lookable g idx ∧ ∀ x ∈ used, x ∈ idx

theorem TInv.nil (g : List Node) : TInv g [] [] :=
  ⟨sortedL_nil g, ⟨fun v h => (by cases h), fun x h => (by cases h)⟩⟩

theorem TInv.of_post {g : List Node} {used idx used' idx' : List Path} (hi : TInv g used idx)
    (hp : Post g used idx used' idx') : TInv g used' idx' := by
  refine ⟨hp.sorted hi.1, hp.lookable hi.2.1, ?_⟩
  intro x hx
  by_cases hxi : x ∈ idx'
  · exact hxi
  · obtain ⟨a, b⟩ := hp.inprog x hx hxi
    exact absurd (hi.2.2 x a) b

theorem tsortLoop_ok (g : List Node) (fuel : Nat) : ∀ (vs : List Node) (used idx used' idx' : List Path),
    TInv g used idx → tsortLoop g fuel vs (used, idx) = .ok (used', idx') →
    TInv g used' idx' ∧ (∀ x ∈ idx, x ∈ idx') ∧ ∀ n ∈ vs, n.id ∈ idx' := by
  intro vs
  induction vs with
  | nil =>
    intro used idx used' idx' hi h
    simp [tsortLoop] at h; obtain ⟨rfl, rfl⟩ := h
    exact ⟨hi, fun _ h => h, by simp⟩
  | cons v vs ih =>
    intro used idx used' idx' hi h
    simp only [tsortLoop] at h
    split at h
    · rename_i hu
      have hu' : v.id ∈ used := by simpa using hu
      obtain ⟨h1, h2, h3⟩ := ih used idx used' idx' hi h
      refine ⟨h1, h2, ?_⟩
      intro n hn
      rcases List.mem_cons.mp hn with rfl | hn
      · exact h2 _ (hi.2.2 _ hu')
      · exact h3 n hn
    · split at h
      · simp at h
      · rename_i st' hd
        obtain ⟨u1, i1⟩ := st'
        obtain ⟨hp, hv⟩ := dfs_post g fuel v.id used idx u1 i1 hd
        obtain ⟨h1, h2, h3⟩ := ih u1 i1 used' idx' (hi.of_post hp) h
        refine ⟨h1, fun x hx => h2 x (hp.mem_idx hx), ?_⟩
        intro n hn
        rcases List.mem_cons.mp hn with rfl | hn
        · exact h2 _ hv
        · exact h3 n hn

/-- an error of the top-level loop is the error of one top-level `dfs` call, started with nothing in progress -/
theorem tsortLoop_err (g : List Node) (fuel : Nat) : ∀ (vs : List Node) (used idx : List Path) (e : Err),
    TInv g used idx → tsortLoop g fuel vs (used, idx) = .error e →
    ∃ v ∈ vs, ∃ u i, TInv g u i ∧ v.id ∉ u ∧ dfs g fuel v.id (u, i) = .error e := by
  intro vs
  induction vs with
  | nil => intro used idx e hi h; simp [tsortLoop] at h
  | cons v vs ih =>
    intro used idx e hi h
    simp only [tsortLoop] at h
    split at h
    · obtain ⟨w, hw, r⟩ := ih used idx e hi h
      exact ⟨w, List.mem_cons_of_mem _ hw, r⟩
    · rename_i hu
      have hu' : v.id ∉ used := by simpa using hu
      split at h
      · rename_i e' hd
        simp at h; subst h
        exact ⟨v, List.mem_cons_self .., used, idx, hi, hu', hd⟩
      · rename_i st' hd
        obtain ⟨u1, i1⟩ := st'
        obtain ⟨hp, _⟩ := dfs_post g fuel v.id used idx u1 i1 hd
        obtain ⟨w, hw, r⟩ := ih u1 i1 e (hi.of_post hp) h
        exact ⟨w, List.mem_cons_of_mem _ hw, r⟩

/-! ### `dfs` never reports `crash` -/

theorem dfsLoop_no_crash (f : Path → List Path × List Path → Except Err (List Path × List Path))
    (hf : ∀ d st, f d st ≠ .error .crash) : ∀ ds st, dfsLoop f ds st ≠ .error .crash := by
  intro ds
  induction ds with
  | nil => intro st; simp [dfsLoop]
  | cons d ds ih =>
    intro ⟨used, idx⟩ h
    simp only [dfsLoop] at h
    split at h
    · simp at h
    · split at h
      · split at h
        · rename_i e he
          simp at h; subst h
          exact hf _ _ he
        · exact ih _ h
      · exact ih _ h

theorem dfs_no_crash (g : List Node) : ∀ fuel v st, dfs g fuel v st ≠ .error .crash := by
  intro fuel
  induction fuel with
  | zero => intro v st; simp [dfs]
  | succ fuel ih =>
    intro v ⟨used, idx⟩ h
    simp only [dfs] at h
    split at h
    · simp at h
    · split at h
      · rename_i e he
        simp at h; subst h
        exact dfsLoop_no_crash _ ih _ _ he
      · simp at h

/-! ### fuel -/

/-- number of nodes whose id is not yet in `used` -/
def unusedCount (g : List Node) (used : List Path) : Nat :=
  (g.filter (fun n => !used.contains n.id)).length

theorem unusedCount_le (g : List Node) (used : List Path) : unusedCount g used ≤ g.length :=
  List.length_filter_le _ _

theorem unusedCount_mono {g : List Node} {used used' : List Path} (h : ∀ x ∈ used, x ∈ used') :
    unusedCount g used' ≤ unusedCount g used := by
  unfold unusedCount
  rw [← List.countP_eq_length_filter, ← List.countP_eq_length_filter]
  apply List.countP_mono_left
  intro n _ hn
  simp at hn ⊢
  exact fun hx => hn (h _ hx)

theorem unusedCount_insert_lt {g : List Node} {used : List Path} {v : Path} {n : Node}
    (hl : look g v = some n) (hv : v ∉ used) : unusedCount g (setInsert used v) < unusedCount g used := by
  obtain ⟨hng, hnv⟩ := look_some hl
  unfold unusedCount
  have heq : g.filter (fun n => !(setInsert used v).contains n.id)
      = (g.filter (fun n => !used.contains n.id)).filter (fun n => !(setInsert used v).contains n.id) := by
    rw [List.filter_filter]
    apply List.filter_congr
    intro x _
    by_cases hx : x.id ∈ used <;> simp [mem_setInsert, hx]
  rw [heq]
  apply List.length_filter_lt_length_iff_exists.mpr
  refine ⟨n, ?_, ?_⟩
  · simp [List.mem_filter, hng, hnv, hv]
  · simp [mem_setInsert, hnv]

theorem dfsLoop_no_fuel (g : List Node) (fuel : Nat)
    (ihf : ∀ v used idx, v ∉ used → unusedCount g used < fuel → dfs g fuel v (used, idx) ≠ .error .fuel) :
    ∀ (ds used idx : List Path), unusedCount g used < fuel →
      dfsLoop (dfs g fuel) ds (used, idx) ≠ .error .fuel := by
  intro ds
  induction ds with
  | nil => intro used idx _; simp [dfsLoop]
  | cons d ds ih =>
    intro used idx hm h
    simp only [dfsLoop] at h
    split at h
    · simp at h
    · split at h
      · rename_i hu
        have hu' : d ∉ used := by simpa using hu
        split at h
        · rename_i e he
          simp at h; subst h
          exact ihf d used idx hu' hm he
        · rename_i st' hd
          obtain ⟨u1, i1⟩ := st'
          obtain ⟨hp, _⟩ := dfs_post g fuel d used idx u1 i1 hd
          have := unusedCount_mono (g := g) hp.usedMono
          exact ih u1 i1 (by omega) h
      · exact ih used idx hm h

theorem dfs_no_fuel (g : List Node) : ∀ (fuel : Nat) (v : Path) (used idx : List Path),
    v ∉ used → unusedCount g used < fuel → dfs g fuel v (used, idx) ≠ .error .fuel := by
  intro fuel
  induction fuel with
  | zero => intro v used idx _ hm; omega
  | succ fuel ihf =>
    intro v used idx hv hm h
    simp only [dfs] at h
    split at h
    · simp at h
    · rename_i n hn
      have hn : look g v = some n := hn
      have hlt := unusedCount_insert_lt hn hv
      split at h
      · rename_i e he
        simp at h; subst h
        exact dfsLoop_no_fuel g fuel ihf n.deps _ idx (by omega) he
      · simp at h

/-! ### `cycle` -/

theorem dfsLoop_cycle (g : List Node) (fuel : Nat) (v : Path)
    (ihf : ∀ d used idx, (∀ x ∈ used, x ∉ idx → x = d ∨ GR1 g x d) →
      dfs g fuel d (used, idx) = .error .cycle → ∃ x, GR1 g x x) :
    ∀ (ds used idx : List Path), (∀ d ∈ ds, GE g v d) → (∀ x ∈ used, x ∉ idx → x = v ∨ GR1 g x v) →
      dfsLoop (dfs g fuel) ds (used, idx) = .error .cycle → ∃ x, GR1 g x x := by
  intro ds
  induction ds with
  | nil => intro used idx _ _ h; simp [dfsLoop] at h
  | cons d ds ih =>
    intro used idx hds hinv h
    have hvd : GE g v d := hds d (List.mem_cons_self ..)
    have hds' : ∀ d ∈ ds, GE g v d := fun x hx => hds x (List.mem_cons_of_mem _ hx)
    simp only [dfsLoop] at h
    split at h
    · rename_i hc
      have hc' : d ∈ used ∧ d ∉ idx := by simpa using hc
      rcases hinv d hc'.1 hc'.2 with rfl | hr
      · exact ⟨_, .edge hvd⟩
      · exact ⟨v, .step hvd hr⟩
    · split at h
      · split at h
        · rename_i e he
          simp at h; subst h
          apply ihf d used idx _ he
          intro x hx hxi
          rcases hinv x hx hxi with rfl | hr
          · exact Or.inr (.edge hvd)
          · exact Or.inr (hr.snoc hvd)
        · rename_i st' hd
          obtain ⟨u1, i1⟩ := st'
          obtain ⟨hp, _⟩ := dfs_post g fuel d used idx u1 i1 hd
          apply ih u1 i1 hds' _ h
          intro x hx hxi
          obtain ⟨a, b⟩ := hp.inprog x hx hxi
          exact hinv x a b
      · exact ih used idx hds' hinv h

/-- if everything in progress reaches `v`, a `cycle` error exhibits a cycle -/
theorem dfs_cycle (g : List Node) : ∀ (fuel : Nat) (v : Path) (used idx : List Path),
    (∀ x ∈ used, x ∉ idx → x = v ∨ GR1 g x v) →
    dfs g fuel v (used, idx) = .error .cycle → ∃ x, GR1 g x x := by
  intro fuel
  induction fuel with
  | zero => intro v used idx _ h; simp [dfs] at h
  | succ fuel ihf =>
    intro v used idx hinv h
    simp only [dfs] at h
    split at h
    · simp at h
    · rename_i n hn
      have hn : look g v = some n := hn
      split at h
      · rename_i e he
        simp at h; subst h
        apply dfsLoop_cycle g fuel v ihf n.deps _ idx (fun d hd => ⟨n, hn, hd⟩) _ he
        intro x hx hxi
        rcases mem_setInsert.mp hx with hx | hx
        · exact hinv x hx hxi
        · exact Or.inl hx
      · simp at h

/-! ### `keyNotFound` -/

theorem dfsLoop_knf (g : List Node) (f : Path → List Path × List Path → Except Err (List Path × List Path))
    (hf : ∀ d st, (∃ m ∈ g, m.id = d) → f d st ≠ .error .keyNotFound) :
    ∀ ds st, (∀ d ∈ ds, ∃ m ∈ g, m.id = d) → dfsLoop f ds st ≠ .error .keyNotFound := by
  intro ds
  induction ds with
  | nil => intro st _; simp [dfsLoop]
  | cons d ds ih =>
    intro ⟨used, idx⟩ hds h
    have hds' : ∀ d ∈ ds, ∃ m ∈ g, m.id = d := fun x hx => hds x (List.mem_cons_of_mem _ hx)
    simp only [dfsLoop] at h
    split at h
    · simp at h
    · split at h
      · split at h
        · rename_i e he
          simp at h; subst h
          exact hf d _ (hds d (List.mem_cons_self ..)) he
        · exact ih _ hds' h
      · exact ih _ hds' h

theorem dfs_knf (g : List Node) (hc : GClosed g) : ∀ (fuel : Nat) (v : Path) (st : List Path × List Path),
    (∃ m ∈ g, m.id = v) → dfs g fuel v st ≠ .error .keyNotFound := by
  intro fuel
  induction fuel with
  | zero => intro v st _; simp [dfs]
  | succ fuel ihf =>
    intro v ⟨used, idx⟩ hv h
    simp only [dfs] at h
    split at h
    · rename_i hnone
      obtain ⟨m, hm, hmv⟩ := hv
      obtain ⟨n, hn⟩ := look_of_mem_id hm hmv
      have hn : g.find? (fun n => n.id == v) = some n := hn
      rw [hn] at hnone; cases hnone
    · rename_i n hn
      have hn : look g v = some n := hn
      split at h
      · rename_i e he
        simp at h; subst h
        exact dfsLoop_knf g _ ihf n.deps _ (fun d hd => hc n (look_some hn).1 d hd) he
      · simp at h

/-! ### top-level theorems -/

theorem tsortLoop_top_ne (g : List Node) (e : Err) (he : e = .fuel ∨ e = .crash) :
    tsortLoop g (g.length + 1) g ([], []) ≠ .error e := by
  intro h
  obtain ⟨v, _, u, i, _, hvu, hd⟩ := tsortLoop_err g _ g [] [] e (TInv.nil g) h
  rcases he with rfl | rfl
  · exact dfs_no_fuel g _ v.id u i hvu (Nat.lt_succ_of_le (unusedCount_le g u)) hd
  · exact dfs_no_crash g _ _ _ hd

theorem tsort_total (g : List Node) : tsort g ≠ .error .fuel ∧ tsort g ≠ .error .crash := by
  unfold tsort
  cases hl : tsortLoop g (g.length + 1) g ([], []) with
  | error e =>
    simp only
    constructor
    · intro h; cases h; exact tsortLoop_top_ne g .fuel (Or.inl rfl) hl
    · intro h; cases h; exact tsortLoop_top_ne g .crash (Or.inr rfl) hl
  | ok st =>
    obtain ⟨used', idx'⟩ := st
    simp only
    obtain ⟨_, _, hall⟩ := tsortLoop_ok g _ g [] [] used' idx' (TInv.nil g) hl
    have : (g.all fun n => idx'.contains n.id) = true := by
      rw [List.all_eq_true]; intro n hn; simpa using hall n hn
    unfold reorderByKey
    rw [if_pos this]
    exact ⟨fun h => (by cases h), fun h => (by cases h)⟩

/-- what a successful `tsort` went through -/
theorem tsort_ok_inv {g g' : List Node} (h : tsort g = .ok g') :
    ∃ idx, SortedL g idx ∧ Lookable g idx ∧ (∀ n ∈ g, n.id ∈ idx) ∧
      g' = g.mergeSort (fun a b => decide (idx.idxOf a.id ≤ idx.idxOf b.id)) := by
  unfold tsort at h
  cases hl : tsortLoop g (g.length + 1) g ([], []) with
  | error e => rw [hl] at h; simp at h
  | ok st =>
    obtain ⟨used', idx'⟩ := st
    rw [hl] at h
    simp only at h
    obtain ⟨hinv, _, hall⟩ := tsortLoop_ok g _ g [] [] used' idx' (TInv.nil g) hl
    unfold reorderByKey at h
    split at h
    · simp at h; exact ⟨idx', hinv.1, hinv.2.1, hall, h.symm⟩
    · simp at h

theorem tsort_sound (g g' : List Node) (hnd : (g.map (·.id)).Nodup) (h : tsort g = .ok g') :
    g'.Perm g ∧ ∀ pre n post, g' = pre ++ n :: post → ∀ d ∈ n.deps, ∃ m ∈ pre, m.id = d := by
  obtain ⟨idx, hs, hl, hall, rfl⟩ := tsort_ok_inv h
  have hperm := List.mergeSort_perm g (fun a b => decide (idx.idxOf a.id ≤ idx.idxOf b.id))
  refine ⟨hperm, ?_⟩
  intro pre n post heq d hd
  have hpw := List.pairwise_mergeSort (le := fun (a b : Node) => decide (idx.idxOf a.id ≤ idx.idxOf b.id))
    (by intro a b c h1 h2; simp at h1 h2 ⊢; omega) (by intro a b; simp; omega) g
  have hng' : n ∈ g.mergeSort (fun a b => decide (idx.idxOf a.id ≤ idx.idxOf b.id)) := by rw [heq]; simp
  have hng : n ∈ g := hperm.mem_iff.mp hng'
  have hlook : look g n.id = some n := look_of_nodup hnd hng
  obtain ⟨hdi, hlt⟩ := sortedL_idxOf_lt hs hlook (hall n hng) hd
  obtain ⟨m, hm⟩ := hl d hdi
  obtain ⟨hmg, hmd⟩ := look_some hm
  have hmg' : m ∈ pre ++ n :: post := by rw [← heq]; exact hperm.mem_iff.mpr hmg
  rcases List.mem_append.mp hmg' with hmp | hmp
  · exact ⟨m, hmp, hmd⟩
  · exfalso
    rcases List.mem_cons.mp hmp with rfl | hmp
    · rw [hmd] at hlt; omega
    · rw [heq] at hpw
      have := (List.pairwise_append.mp hpw).2.1
      have := (List.pairwise_cons.mp this).1 m hmp
      simp at this
      rw [hmd] at this; omega

theorem tsort_ok_acyclic (g g' : List Node) (h : tsort g = .ok g') : GAcyclic g := by
  obtain ⟨idx, hs, _, hall, _⟩ := tsort_ok_inv h
  have hstep : ∀ a b, GE g a b → idx.idxOf b < idx.idxOf a := by
    rintro a b ⟨n, hn, hb⟩
    obtain ⟨hng, hna⟩ := look_some hn
    exact (sortedL_idxOf_lt hs hn (hna ▸ hall n hng) hb).2
  have hreach : ∀ a b, GR1 g a b → idx.idxOf b < idx.idxOf a := by
    intro a b r
    induction r with
    | edge e => exact hstep _ _ e
    | step e _ ih => have := hstep _ _ e; omega
  intro x r
  have := hreach x x r
  omega

theorem tsort_ok_closed (g g' : List Node) (hnd : (g.map (·.id)).Nodup) (h : tsort g = .ok g') : GClosed g := by
  obtain ⟨idx, hs, hl, hall, _⟩ := tsort_ok_inv h
  intro n hn d hd
  obtain ⟨hdi, _⟩ := sortedL_idxOf_lt hs (look_of_nodup hnd hn) (hall n hn) hd
  obtain ⟨m, hm⟩ := hl d hdi
  exact ⟨m, (look_some hm).1, (look_some hm).2⟩

theorem tsort_ok_closed_acyclic (g g' : List Node) (hnd : (g.map (·.id)).Nodup) (h : tsort g = .ok g') :
    GClosed g ∧ GAcyclic g := ⟨tsort_ok_closed g g' hnd h, tsort_ok_acyclic g g' h⟩

theorem tsort_err_loop {g : List Node} {e : Err} (h : tsort g = .error e) (he : e ≠ .crash) :
    tsortLoop g (g.length + 1) g ([], []) = .error e := by
  unfold tsort at h
  cases hl : tsortLoop g (g.length + 1) g ([], []) with
  | error e' => rw [hl] at h; simp at h; rw [h]
  | ok st =>
    obtain ⟨used', idx'⟩ := st
    rw [hl] at h
    simp only at h
    unfold reorderByKey at h
    split at h
    · simp at h
    · simp at h; exact absurd h.symm he

theorem tsort_cycle_sound (g : List Node) (h : tsort g = .error .cycle) : ¬ GAcyclic g := by
  intro hac
  obtain ⟨v, _, u, i, hinv, _, hd⟩ := tsortLoop_err g _ g [] [] .cycle (TInv.nil g) (tsort_err_loop h (by simp))
  obtain ⟨x, hx⟩ := dfs_cycle g _ v.id u i (fun x hx hxi => absurd (hinv.2.2 x hx) hxi) hd
  exact hac x hx

theorem tsort_knf_sound (g : List Node) (h : tsort g = .error .keyNotFound) : ¬ GClosed g := by
  intro hc
  obtain ⟨v, hv, u, i, _, _, hd⟩ :=
    tsortLoop_err g _ g [] [] .keyNotFound (TInv.nil g) (tsort_err_loop h (by simp))
  exact dfs_knf g hc _ v.id (u, i) ⟨v, hv, rfl⟩ hd

/-- every outcome of `tsort` is one of: ok, CyclicReference, KeyNotFound -/
theorem tsort_cases (g : List Node) :
    (∃ g', tsort g = .ok g') ∨ tsort g = .error .cycle ∨ tsort g = .error .keyNotFound := by
  cases h : tsort g with
  | ok g' => exact Or.inl ⟨g', rfl⟩
  | error e =>
    cases e with
    | cycle => exact Or.inr (Or.inl rfl)
    | keyNotFound => exact Or.inr (Or.inr rfl)
    | fuel => exact absurd h (tsort_total g).1
    | crash => exact absurd h (tsort_total g).2

theorem tsort_complete (g : List Node) (_hnd : (g.map (·.id)).Nodup) (hc : GClosed g) :
    (tsort g = .error .cycle ↔ ¬ GAcyclic g) ∧ ((∃ g', tsort g = .ok g') ↔ GAcyclic g) := by
  have hok : (∃ g', tsort g = .ok g') → GAcyclic g := fun ⟨g', h⟩ => tsort_ok_acyclic g g' h
  have hcyc : tsort g = .error .cycle → ¬ GAcyclic g := tsort_cycle_sound g
  refine ⟨⟨hcyc, ?_⟩, ⟨hok, ?_⟩⟩
  · intro hna
    rcases tsort_cases g with h | h | h
    · exact absurd (hok h) hna
    · exact h
    · exact absurd hc (tsort_knf_sound g h)
  · intro hac
    rcases tsort_cases g with h | h | h
    · exact h
    · exact absurd hac (hcyc h)
    · exact absurd hc (tsort_knf_sound g h)

theorem tsort_not_closed (g : List Node) (hnd : (g.map (·.id)).Nodup) (hnc : ¬ GClosed g) :
    tsort g = .error .keyNotFound ∨ tsort g = .error .cycle := by
  rcases tsort_cases g with ⟨g', h⟩ | h | h
  · exact absurd (tsort_ok_closed g g' hnd h) hnc
  · exact Or.inr h
  · exact Or.inl h

end ErgVerif.Graph
