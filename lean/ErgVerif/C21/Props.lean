import ErgVerif.C21.Spec
/-!
# C21 — property theorems (first stage: witnesses of the pinned-commit defects)
-/
namespace ErgVerif.C21
open ErgVerif.Graph

/-- finding #9 at the pinned commit: after `rename_path(2, 3)` the index still maps 2; `get_node(3)` is `None`
    and `get_node(2)` returns the node that is now called 3 -/
theorem C21_legacy_witness_rename :
    let s := legacyRun MG.new [.add 1, .add 2, .rename 2 3]
    s.getNode 3 = .ok none ∧ s.getNode 2 = .ok (some ⟨3, []⟩) := by decide

/-- after the fix the same history answers as a reference graph does -/
theorem C21_fixed_witness_rename :
    let s := run MG.new [.add 1, .add 2, .rename 2 3]
    s.getNode 3 = .ok (some ⟨3, []⟩) ∧ s.getNode 2 = .ok none := by decide

end ErgVerif.C21
