import ErgVerif.C21.SortProofs
/-!
# C21 — Module dependency graph operations match a reference graph

Property theorems only. Model: `ErgVerif/Shared/Graph.lean` (transcription of `ModuleGraph` in
crates/erg_compiler/module/graph.rs and of `tsort`/`dfs`/`reorder_by_key` in crates/erg_common/tsort.rs, after the
`fix:` commit f50fd18b; the pinned-commit `rename_path`/`sort` are kept as `legacyRenamePath`/`legacySort`) and
`ErgVerif/C21/Model.lean` (operations, `step`, `run`). Spec: `ErgVerif/C21/Spec.lean` — a reference graph `RG` (node
predicate, edge predicate), `Reach1` = its transitive closure, `Spec.step`/`Spec.res` = what each operation means and must
report. `abs s` is the reference graph a state stands for, `Inv s` the representation invariant (the index is exactly
the position map of the vector; dependency lists are duplicate-free).

All theorems hold for every iteration order of the hash sets (dependency lists are arbitrary lists here).
-/
namespace ErgVerif.C21
open ErgVerif.Graph

/-! ## invariant, one-step refinement, histories -/

/-- the empty graph satisfies the representation invariant -/
theorem C21_inv_init : Inv MG.new := Inv.init

/-- every operation (including `rename_path`, after the fix) preserves the representation invariant -/
theorem C21_inv {s : MG} (h : Inv s) (op : Op) : Inv (step s op).1 := (step_spec h op).1

/-- per-operation refinement: the new state stands for the reference graph after the same operation, and the
    reported result (unit / Ok / CycleDetected / sort Ok / CyclicReference / KeyNotFound) is the one a reference graph
    prescribes -/
theorem C21_refine {s : MG} (h : Inv s) (op : Op) :
    abs (step s op).1 = Spec.step (abs s) op ∧ Spec.res (abs s) op (step s op).2 := (step_spec h op).2

/-- no panic site (`graph[i]`, `Vec::remove`, `unreachable!`, `unwrap`) and no fuel exhaustion is reachable -/
theorem C21_no_crash {s : MG} (h : Inv s) (op : Op) (e : Err) : (step s op).2 ≠ .crash e :=
  res_ne_crash _ _ _ (step_spec h op).2.2 e

/-- history theorem: after ANY sequence of operations from the empty graph (no bound on length or on the path
    universe) the state satisfies the invariant and stands for the reference graph after the same sequence -/
theorem C21_history (ops : List Op) :
    Inv (run MG.new ops) ∧ abs (run MG.new ops) = Spec.run RG.empty ops := by
  have := run_spec Inv.init ops
  rw [abs_new] at this
  exact this

/-- … and the next operation after any history reports what the reference graph prescribes, without crashing -/
theorem C21_history_result (ops : List Op) (op : Op) :
    Spec.res (Spec.run RG.empty ops) op (step (run MG.new ops) op).2 ∧
    ∀ e, (step (run MG.new ops) op).2 ≠ .crash e := by
  obtain ⟨hinv, habs⟩ := C21_history ops
  have := (step_spec hinv op).2.2
  rw [habs] at this
  exact ⟨this, res_ne_crash _ _ _ this⟩

/-! ## queries (stated for any state satisfying the invariant; `C21_history_queries` instantiates them) -/

/-- `get_node(p)`: `Some` iff p is a node; the returned node is named p and lists exactly p's out-edges -/
theorem C21_query_get_node {s : MG} (h : Inv s) (p : Path) :
    (∃ n, s.getNode p = .ok (some n) ∧ (abs s).nodes p ∧ n.id = p ∧ n.deps.Nodup ∧
        ∀ d, d ∈ n.deps ↔ (abs s).edges p d) ∨
    (s.getNode p = .ok none ∧ ¬ (abs s).nodes p) := getNode_spec h p

/-- `depends_on(p, t)` is the edge relation -/
theorem C21_query_depends_on {s : MG} (h : Inv s) (p t : Path) :
    ∃ b, s.dependsOn p t = .ok b ∧ (b = true ↔ (abs s).edges p t) := dependsOn_spec h p t

/-- `deep_depends_on(p, t)` (DFS with a visited set) is reachability by at least one edge — on any graph the
    invariant allows, cyclic or with dangling edges — and never fails -/
theorem C21_query_deep_depends_on {s : MG} (h : Inv s) (p t : Path) :
    ∃ b, s.deepDependsOn p t = .ok b ∧ (b = true ↔ (abs s).Reach1 p t) := deepDependsOn_spec h p t

/-- `children(p)`: the nodes with an edge to p, each once -/
theorem C21_query_children {s : MG} (h : Inv s) (p : Path) :
    (s.children p).Nodup ∧ ∀ x, x ∈ s.children p ↔ ((abs s).nodes x ∧ (abs s).edges x p) := children_spec h p

/-- `parents(p)`: `None` iff p is not a node, otherwise p's out-neighbours, each once -/
theorem C21_query_parents {s : MG} (h : Inv s) (p : Path) :
    (∃ l, s.parents p = .ok (some l) ∧ (abs s).nodes p ∧ l.Nodup ∧ ∀ d, d ∈ l ↔ (abs s).edges p d) ∨
    (s.parents p = .ok none ∧ ¬ (abs s).nodes p) := parents_spec h p

/-- `ancestors(p)`: exactly the paths reachable from p by at least one edge (p itself iff it lies on a cycle),
    each once -/
theorem C21_query_ancestors {s : MG} (h : Inv s) (p : Path) :
    ∃ l, s.ancestors p = .ok l ∧ l.Nodup ∧ ∀ y, y ∈ l ↔ (abs s).Reach1 p y := ancestors_spec h p

/-- after any history every query answers as the reference graph of that history does -/
theorem C21_history_queries (ops : List Op) (p t : Path) :
    let s := run MG.new ops
    let g := Spec.run RG.empty ops
    (∃ b, s.dependsOn p t = .ok b ∧ (b = true ↔ g.edges p t)) ∧
    (∃ b, s.deepDependsOn p t = .ok b ∧ (b = true ↔ g.Reach1 p t)) ∧
    (∀ x, x ∈ s.children p ↔ (g.nodes x ∧ g.edges x p)) ∧
    (∃ l, s.ancestors p = .ok l ∧ ∀ y, y ∈ l ↔ g.Reach1 p y) ∧
    ((∃ n, s.getNode p = .ok (some n) ∧ g.nodes p ∧ n.id = p ∧ ∀ d, d ∈ n.deps ↔ g.edges p d) ∨
     (s.getNode p = .ok none ∧ ¬ g.nodes p)) := by
  obtain ⟨hinv, habs⟩ := C21_history ops
  intro s g
  have e : abs s = g := habs
  rw [← e]
  refine ⟨dependsOn_spec hinv p t, deepDependsOn_spec hinv p t, (children_spec hinv p).2, ?_, ?_⟩
  · obtain ⟨l, h1, _, h2⟩ := ancestors_spec hinv p; exact ⟨l, h1, h2⟩
  · rcases getNode_spec hinv p with ⟨n, h1, h2, h3, _, h4⟩ | h'
    · exact Or.inl ⟨n, h1, h2, h3, h4⟩
    · exact Or.inr h'

/-- the iteration order of the dependency hash sets is irrelevant: re-ordering every dependency list keeps the invariant
    and the reference graph (this is what the correspondence driver does when it adopts the real iteration order) -/
theorem C21_order_irrelevant {s : MG} (h : Inv s) (f : Node → Node) (hid : ∀ n, (f n).id = n.id)
    (hperm : ∀ n ∈ s.graph, (f n).deps.Perm n.deps) :
    Inv { s with graph := s.graph.map f } ∧ abs { s with graph := s.graph.map f } = abs s := reorder_spec h f hid hperm

/-! ## inc_ref: cycle refusal -/

/-- `inc_ref(a, b)` never fails; it refuses exactly when a ≠ b and a is reachable from b (the edge would close a
    cycle); when it refuses, the edge relation is unchanged and the only possible change is that the referrer `a` has
    been registered (`add_node_if_none(referrer)` precedes the test) -/
theorem C21_incref_cycle {s : MG} (h : Inv s) (a b : Path) :
    ∃ s' r, s.incRef a b = .ok (s', r) ∧ (r = false ↔ (a ≠ b ∧ (abs s).Reach1 b a)) ∧
      (r = false → (abs s').edges = (abs s).edges ∧ ∀ x, (abs s').nodes x ↔ ((abs s).nodes x ∨ x = a)) := by
  obtain ⟨s', r, hr, _, habs, hres⟩ := incRef_spec h a b
  refine ⟨s', r, hr, hres, ?_⟩
  intro hf
  obtain ⟨hab, hreach⟩ := hres.mp hf
  rw [habs]
  refine ⟨?_, fun x => Iff.rfl⟩
  funext x y
  apply propext
  show ((abs s).edges x y ∨ _) ↔ _
  constructor
  · rintro (e | ⟨_, _, _, hn⟩)
    · exact e
    · exact absurd hreach hn
  · exact Or.inl

/-- if the referrer is already registered, a refused `inc_ref` leaves the reference graph exactly as it was -/
theorem C21_incref_refused_unchanged {s : MG} (h : Inv s) (a b : Path) (ha : (abs s).nodes a)
    (s' : MG) (hr : s.incRef a b = .ok (s', false)) : abs s' = abs s := by
  obtain ⟨s'', r, hr', _, hunch⟩ := C21_incref_cycle h a b
  rw [hr] at hr'; cases hr'
  obtain ⟨he, hn⟩ := hunch rfl
  apply RG.ext'
  · intro x; rw [hn x]; exact ⟨fun hx => hx.elim id (fun e => e ▸ ha), Or.inl⟩
  · intro x y; rw [he]

/-- acyclicity is preserved by `inc_ref` -/
theorem C21_acyclic {s : MG} (h : Inv s) (hac : (abs s).Acyclic) (a b : Path) :
    (abs (step s (.inc a b)).1).Acyclic := by
  rw [(step_spec h (.inc a b)).2.1]
  exact spec_inc_acyclic _ hac a b

/-- the graph after any history without `rename_path` is acyclic (a rename onto a registered path can merge two
    nodes into a cycle — in the reference graph as well, so that is the meaning of the operation, not a defect) -/
theorem C21_history_acyclic (ops : List Op) (hop : ∀ op ∈ ops, ∀ o n, op ≠ .rename o n) :
    (abs (run MG.new ops)).Acyclic := by
  rw [(C21_history ops).2]
  exact spec_run_acyclic _ RG.empty_acyclic ops hop

/-! ## tsort / sort -/

/-- `tsort` never panics (`unwrap` in `reorder_by_key`) and the recursion depth never exceeds the number of nodes -/
theorem C21_tsort_total (g : List Node) : tsort g ≠ .error .fuel ∧ tsort g ≠ .error .crash := tsort_total g

/-- soundness: a successful `tsort` returns a permutation of its input in which every node comes after all nodes
    it depends on -/
theorem C21_tsort_sound (g g' : List Node) (hnd : (g.map (·.id)).Nodup) (h : tsort g = .ok g') :
    g'.Perm g ∧ DepsFirst g' := tsort_sound g g' hnd h

/-- completeness on closed graphs: CyclicReference is reported exactly when a cycle exists, and the sort succeeds
    exactly when there is none -/
theorem C21_tsort_complete (g : List Node) (hnd : (g.map (·.id)).Nodup) (hc : GClosed g) :
    (tsort g = .error .cycle ↔ ¬ GAcyclic g) ∧ ((∃ g', tsort g = .ok g') ↔ GAcyclic g) := tsort_complete g hnd hc

/-- error reports are sound on every graph: CyclicReference only if there is a cycle, KeyNotFound only if some
    dependency is not a node; and a graph with a dangling dependency is never sorted -/
theorem C21_tsort_errors (g : List Node) :
    (tsort g = .error .cycle → ¬ GAcyclic g) ∧ (tsort g = .error .keyNotFound → ¬ GClosed g) ∧
    ((g.map (·.id)).Nodup → ¬ GClosed g → tsort g = .error .keyNotFound ∨ tsort g = .error .cycle) :=
  ⟨tsort_cycle_sound g, tsort_knf_sound g, tsort_not_closed g⟩

/-- `ModuleGraph::sort`: on success the vector is a permutation in dependency order, the index is rebuilt
    consistently and the reference graph is unchanged (and it was closed and acyclic); on failure the state is
    untouched (after the fix) and the report is sound -/
theorem C21_sort {s : MG} (h : Inv s) :
    (∃ s', s.sort = (s', .ok ()) ∧ Inv s' ∧ s'.graph.Perm s.graph ∧ DepsFirst s'.graph ∧ abs s' = abs s ∧
        (abs s).Closed ∧ (abs s).Acyclic) ∨
    (s.sort = (s, .error .cycle) ∧ ¬ (abs s).Acyclic) ∨
    (s.sort = (s, .error .keyNotFound) ∧ ¬ (abs s).Closed) := by
  rcases sorted_spec h with ⟨s', hs, rest⟩ | ⟨hs, hac⟩ | ⟨hs, hcl⟩
  · exact Or.inl ⟨s', by simp [MG.sort, hs], rest⟩
  · exact Or.inr (Or.inl ⟨by simp [MG.sort, hs], hac⟩)
  · exact Or.inr (Or.inr ⟨by simp [MG.sort, hs], hcl⟩)

/-! ## the pinned-commit behaviour (findings fixed by f50fd18b), machine-checked at the witnesses -/

/-- finding #9: after `rename_path(2, 3)` the index still maps 2: `get_node(3)` is `None` and `get_node(2)`
    returns the node that is now called 3; after the fix the answers are those of the reference graph -/
theorem C21_legacy_witness_rename :
    (legacyRun MG.new [.add 1, .add 2, .rename 2 3]).getNode 3 = .ok none ∧
    (legacyRun MG.new [.add 1, .add 2, .rename 2 3]).getNode 2 = .ok (some ⟨3, []⟩) ∧
    (run MG.new [.add 1, .add 2, .rename 2 3]).getNode 3 = .ok (some ⟨3, []⟩) ∧
    (run MG.new [.add 1, .add 2, .rename 2 3]).getNode 2 = .ok none := by decide

/-- the pinned-commit invariant failure behind it -/
theorem C21_legacy_rename_breaks_inv : ¬ Inv (legacyRun MG.new [.add 1, .add 2, .rename 2 3]) := by
  intro h
  have := (h.idx 2 1).mp (by decide)
  revert this; decide

/-- pinned commit: `rename_path(1, 1)` deletes the edge 0 → 1 -/
theorem C21_legacy_witness_rename_self :
    (legacyRun MG.new [.inc 0 1, .rename 1 1]).dependsOn 0 1 = .ok false ∧
    (run MG.new [.inc 0 1, .rename 1 1]).dependsOn 0 1 = .ok true := by decide

/-- pinned commit: renaming onto a registered path leaves two nodes with the same id -/
theorem C21_legacy_witness_rename_onto :
    (legacyRun MG.new [.inc 0 1, .inc 2 3, .rename 2 0]).entries = [0, 0] ∧
    (run MG.new [.inc 0 1, .inc 2 3, .rename 2 0]).entries = [0] ∧
    (run MG.new [.inc 0 1, .inc 2 3, .rename 2 0]).getNode 0 = .ok (some ⟨0, [3]⟩) := by decide

/-- pinned commit: a failing `sort` leaves the default (empty) graph behind -/
theorem C21_legacy_witness_sort :
    legacyStep (run MG.new [.inc 0 1]) .sort = (MG.new, .sortErr .keyNotFound) ∧
    step (run MG.new [.inc 0 1]) .sort = (run MG.new [.inc 0 1], .sortErr .keyNotFound) := by decide

/-! ## non-vacuity -/

/-- a non-trivial state satisfying `Inv` (hypothesis of the one-step and query theorems) -/
example : Inv (run MG.new [.inc 0 1, .inc 1 2, .add 3, .remove 1, .rename 0 4]) := (C21_history _).1

/-- a refusal really happens, and an acceptance too -/
example : ((run MG.new [.inc 0 1, .inc 1 2]).incRef 2 0).map (·.2) = .ok false ∧
          ((run MG.new [.inc 0 1, .inc 1 2]).incRef 0 2).map (·.2) = .ok true := by decide

/-- `deep_depends_on` answers `true` through an intermediate node and `false` against the edge direction -/
example : (run MG.new [.inc 0 1, .inc 1 2]).deepDependsOn 0 2 = .ok true ∧
          (run MG.new [.inc 0 1, .inc 1 2]).deepDependsOn 2 0 = .ok false ∧
          (run MG.new [.inc 0 1, .inc 1 2]).ancestors 0 = .ok [1, 2] := by decide

/-- a rename onto a registered path can create a cycle, which `sort` then reports -/
example : step (run MG.new [.inc 1 0, .inc 0 2, .add 2, .rename 1 2]) .sort =
    (run MG.new [.inc 1 0, .inc 0 2, .add 2, .rename 1 2], .sortErr .cycle) := by decide

/-- the hypotheses of the tsort theorems are satisfiable by a non-trivial graph: `[0 → 1, 1]` is duplicate-free,
    closed and acyclic, so it is sorted, and the result lists 1 before 0 -/
example : ∃ g', tsort [⟨0, [1]⟩, ⟨1, []⟩] = .ok g' ∧ g'.Perm [⟨0, [1]⟩, ⟨1, []⟩] ∧ DepsFirst g' := by
  have hnd : (([⟨0, [1]⟩, ⟨1, []⟩] : List Node).map (·.id)).Nodup := by decide
  have hcl : GClosed [⟨0, [1]⟩, ⟨1, []⟩] := by
    intro n hn d hd
    simp at hn
    rcases hn with rfl | rfl
    · simp at hd; subst hd; exact ⟨⟨1, []⟩, by simp, rfl⟩
    · simp at hd
  have hge : ∀ a b, GE [⟨0, [1]⟩, ⟨1, []⟩] a b → a = 0 ∧ b = 1 := by
    rintro a b ⟨n, hn, hb⟩
    obtain ⟨hm, hid⟩ := look_some hn
    simp at hm
    rcases hm with rfl | rfl
    · simp at hb; exact ⟨hid.symm, hb⟩
    · simp at hb
  have hr : ∀ a b, GR1 [⟨0, [1]⟩, ⟨1, []⟩] a b → a = 0 ∧ b = 1 := by
    intro a b r
    induction r with
    | edge e => exact hge _ _ e
    | step e _ ih => exact ⟨(hge _ _ e).1, ih.2⟩
  have hac : GAcyclic [⟨0, [1]⟩, ⟨1, []⟩] := fun x r => absurd ((hr x x r).1.symm.trans (hr x x r).2) (by decide)
  obtain ⟨g', hg'⟩ := (tsort_complete _ hnd hcl).2.mpr hac
  exact ⟨g', hg', tsort_sound _ g' hnd hg'⟩

end ErgVerif.C21
