import ErgVerif.Shared.Graph
/-!
# C21 — model: operation histories over `ModuleGraph`

The graph itself (`MG`, `tsort`, …) is the shared development `ErgVerif/Shared/Graph.lean`, which transcribes
`crates/erg_compiler/module/graph.rs` (ModuleGraph) and `crates/erg_common/tsort.rs` (tsort, dfs, reorder_by_key).
This file adds the state machine the property quantifies over: the five mutating operations of the public API
and their results, `step`, and `run` (a history).
-/
namespace ErgVerif.C21
open ErgVerif.Graph

/-- the mutating operations of `ModuleGraph` exercised by the property -/
inductive Op where
  | add (p : Path)            -- add_node_if_none(p)
  | inc (a b : Path)          -- inc_ref(a, b)
  | remove (p : Path)         -- remove(p)
  | rename (o n : Path)       -- rename_path(o, n)
  | sort                      -- sort()
  deriving DecidableEq, Repr, Inhabited

/-- what an operation returns -/
inductive OpRes where
  | unit                      -- `()`
  | incOk                     -- inc_ref: Ok(())
  | incCycle                  -- inc_ref: Err(IncRefError::CycleDetected)
  | sortOk                    -- sort: Ok(())
  | sortErr (e : Err)         -- sort: Err(TopoSortError { kind: CyclicReference | KeyNotFound })
  | crash (e : Err)           -- a panic (or the model's fuel) — proved unreachable from `MG.new`
  deriving DecidableEq, Repr, Inhabited

/-- one operation: new state and result (on `crash` the state is returned as it was and the history ends) -/
def step (s : MG) : Op → MG × OpRes
  | .add p => (s.addNodeIfNone p, .unit)
  | .inc a b =>
    match s.incRef a b with
    | .error e => (s, .crash e)
    | .ok (s', true) => (s', .incOk)
    | .ok (s', false) => (s', .incCycle)
  | .remove p =>
    match s.remove p with
    | .error e => (s, .crash e)
    | .ok s' => (s', .unit)
  | .rename o n =>
    match s.renamePath o n with
    | .error e => (s, .crash e)
    | .ok s' => (s', .unit)
  | .sort =>
    match s.sort with
    | (s', .ok ()) => (s', .sortOk)
    | (s', .error .cycle) => (s', .sortErr .cycle)
    | (s', .error .keyNotFound) => (s', .sortErr .keyNotFound)
    | (s', .error e) => (s', .crash e)

/-- the state after a history -/
def run (s : MG) (ops : List Op) : MG := ops.foldl (fun s op => (step s op).1) s

/-- the same state machine with the two pinned-commit operations (`legacyRenamePath`, `legacySort`) -/
def legacyStep (s : MG) : Op → MG × OpRes
  | .rename o n => (s.legacyRenamePath o n, .unit)
  | .sort =>
    match s.legacySort with
    | (s', .ok ()) => (s', .sortOk)
    | (s', .error .cycle) => (s', .sortErr .cycle)
    | (s', .error .keyNotFound) => (s', .sortErr .keyNotFound)
    | (s', .error e) => (s', .crash e)
  | op => step s op

def legacyRun (s : MG) (ops : List Op) : MG := ops.foldl (fun s op => (legacyStep s op).1) s

end ErgVerif.C21
