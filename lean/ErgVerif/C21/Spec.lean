import ErgVerif.C21.Model
/-!
# C21 — specification: a plain reference graph

`RG` is a node set and an edge set (predicates), `Reach1` its transitive closure (paths of length ≥ 1).
Nothing here mentions vectors, indices, visited sets or iteration order.

`Spec.step` is what each operation means on a reference graph:
  * add p          — p becomes a node
  * inc a b        — a becomes a node; the edge a → b is added unless a = b or it would close a cycle (b ⇒ a)
  * remove p       — p and every edge from or to p disappear
  * rename o n     — as a file rename: nothing if o = n; if o is a node, a node already named n is replaced
                     (its out-edges go away) and o is renamed to n in the node set and in every edge; if o is
                     not a node only the edge targets are renamed
  * sort           — does not change the graph
`Spec.res` says which result the operation must report; `sort` has a defined answer on *closed* graphs (every
edge target is a node): ok iff acyclic, CyclicReference iff not. On a graph with a dangling edge (possible through
the API: `inc_ref(a, b)` does not register `b`) the only possible report is an error: KeyNotFound, or
CyclicReference if there is a cycle as well.
-/
namespace ErgVerif.C21
open ErgVerif.Graph

structure RG where
  nodes : Path → Prop
  edges : Path → Path → Prop

namespace RG

def empty : RG := ⟨fun _ => False, fun _ _ => False⟩

/-- transitive closure of the edge relation: a path of length ≥ 1 -/
inductive Reach1 (g : RG) : Path → Path → Prop
  | edge {a b : Path} : g.edges a b → Reach1 g a b
  | step {a b c : Path} : g.edges a b → Reach1 g b c → Reach1 g a c

def Acyclic (g : RG) : Prop := ∀ x, ¬ g.Reach1 x x
def Closed (g : RG) : Prop := ∀ a b, g.edges a b → g.nodes b

end RG

/-- the renaming of one path -/
def ren (o n x : Path) : Path := if x = o then n else x

namespace Spec

def step (g : RG) : Op → RG
  | .add p => ⟨fun x => g.nodes x ∨ x = p, g.edges⟩
  | .inc a b =>
    ⟨fun x => g.nodes x ∨ x = a,
     fun x y => g.edges x y ∨ (x = a ∧ y = b ∧ a ≠ b ∧ ¬ g.Reach1 b a)⟩
  | .remove p => ⟨fun x => g.nodes x ∧ x ≠ p, fun x y => g.edges x y ∧ x ≠ p ∧ y ≠ p⟩
  | .rename o n =>
    if o = n then g
    else
      ⟨fun x => (g.nodes o ∧ ((g.nodes x ∧ x ≠ o) ∨ x = n)) ∨ (¬ g.nodes o ∧ g.nodes x),
       fun x y => ∃ x0 y0, g.edges x0 y0 ∧ ¬ (g.nodes o ∧ x0 = n) ∧ x = ren o n x0 ∧ y = ren o n y0⟩
  | .sort => g

/-- the result a reference graph allows for an operation -/
def res (g : RG) : Op → OpRes → Prop
  | .add _, r => r = .unit
  | .inc a b, r => (a ≠ b ∧ g.Reach1 b a ∧ r = .incCycle) ∨ (¬ (a ≠ b ∧ g.Reach1 b a) ∧ r = .incOk)
  | .remove _, r => r = .unit
  | .rename _ _, r => r = .unit
  | .sort, r =>
    (g.Closed ∧ g.Acyclic ∧ r = .sortOk) ∨ (g.Closed ∧ ¬ g.Acyclic ∧ r = .sortErr .cycle) ∨
    (¬ g.Closed ∧ g.Acyclic ∧ r = .sortErr .keyNotFound) ∨
    (¬ g.Closed ∧ ¬ g.Acyclic ∧ (r = .sortErr .keyNotFound ∨ r = .sortErr .cycle))

def run (g : RG) (ops : List Op) : RG := ops.foldl step g

end Spec

/-- the reference graph a `ModuleGraph` state stands for -/
def abs (s : MG) : RG :=
  ⟨fun p => ∃ n ∈ s.graph, n.id = p, fun a b => ∃ n ∈ s.graph, n.id = a ∧ b ∈ n.deps⟩

end ErgVerif.C21
