import ErgVerif.C11.Model
/-!
C09 — the parser is total and never exhausts the stack (partial by design).

Transcribed code:
* crates/erg_parser/parse.rs: the RAW operator stack of `try_reduce_expr` / `try_reduce_chunk` (`Vec<ExprOrOp>`), with every
  `enum_unwrap!(stack.pop(), …)` of the `BinOp` arm and of `collect_last_binop_on_stack` as an explicit `crash` outcome
  (`rawReduceWhile`, `rawPush`, `rawFinish`, `rawReduce`); the typed stack of the C11 model (`St`) is its refinement.
* the recursive-descent structure is the C11 model (`expr`/`binLhs`/`chain`/`args`), whose fuel is the Rust call depth.
* crates/erg_common/spawn.rs: `STACK_SIZE` (8 MiB) enters as `stackKiB`; the stack cost of one nesting level is NOT modelled from
  the code: `costLo`/`costHi` are MEASURED bounds (KiB per level, debug profile) — see notes/C09.md. `ladderOutcome` therefore
  answers `none` (out of model) inside the band where the measured bounds do not decide.
* crates/erg_parser/lex.rs `lex_indent_dedent`: indentation above 100 columns is a lexical error (`blockLimit`).
-/
namespace ErgVerif.C09
open ErgVerif.C11

/-! ### the raw stack of parse.rs with its unwrap sites -/

inductive EO where
  | e (t : T)
  | o (k : BinK)

inductive RawRes (α : Type) where
  | ok (a : α)
  | crash (site : String)

/-- `collect_last_binop_on_stack`: pop rhs, op, lhs (three `enum_unwrap!`s), push the node. The stack is a list with the TOP FIRST. -/
def rawCollect : List EO → RawRes (List EO)
  | .e r :: .o k :: .e l :: rest => .ok (.e (.bin k l r) :: rest)
  | _ => .crash "enum_unwrap!(stack.pop(), Some:(ExprOrOp::…))"

/-- the `BinOp` arm: `if stack.len() >= 2 { while let Some(Op(prev_op)) = stack.get(len - 2) { if prev.prec >= op_prec { collect }
    else { break }; if stack.len() <= 1 { break } } }` (fuel = stack length: every iteration shortens the stack by two) -/
def rawReduceWhile (tab : Tab) (op : BinK) : Nat → List EO → RawRes (List EO)
  | 0, st => .ok st
  | f + 1, st =>
    match st with
    | _ :: .o prev :: _ =>
      if tab.bin prev ≥ tab.bin op then
        match rawCollect st with
        | .ok st' => if st'.length ≤ 1 then .ok st' else rawReduceWhile tab op f st'
        | .crash s => .crash s
      else .ok st
    | _ => .ok st

/-- reduce, `stack.push(Op(op))`, `stack.push(Expr(bin_lhs))` -/
def rawPush (tab : Tab) (st : List EO) (op : BinK) (x : T) : RawRes (List EO) :=
  match rawReduceWhile tab op st.length st with
  | .ok st' => .ok (.e x :: .o op :: st')
  | .crash s => .crash s

/-- `while stack.len() >= 3 { collect_last_binop_on_stack }`, then the final `match stack.pop()` -/
def rawFinish : Nat → List EO → RawRes T
  | 0, _ => .crash "fuel"
  | f + 1, st =>
    match st with
    | [.e t] => .ok t
    | _ :: _ :: _ :: _ => (match rawCollect st with | .ok st' => rawFinish f st' | .crash s => .crash s)
    | _ => .crash "compiler_bug: stack does not end with a single expression"

def rawReduce (tab : Tab) (a : T) (rest : List (BinK × T)) : RawRes T :=
  let rec go : List EO → List (BinK × T) → RawRes (List EO)
    | st, [] => .ok st
    | st, (k, x) :: r => match rawPush tab st k x with | .ok st' => go st' r | .crash s => .crash s
  match go [.e a] rest with
  | .ok st => rawFinish st.length st
  | .crash s => .crash s

/-! ### nesting ladders and the measured stack budget -/

inductive Kind where
  | paren | sqbr | brace | call | index | unary | lambda | block | mixed
  deriving DecidableEq, Repr

def stackKiB : Nat := 8192
def blockLimit : Nat := 100

/-- measured bounds on the stack cost of one nesting level (KiB, harness build profile = debug, opt-level 0): the observed
    first failing depths (Lexer -> Parser -> Desugarer) were paren 95, sqbr 62, brace 58, call 50, index 74, unary 80, lambda 80,
    block 81, mixed 63; the bounds are
    8192/threshold -12% / +12% -/
def costLo : Kind → Nat
  | .paren => 76 | .sqbr => 116 | .brace => 124 | .call => 144 | .index => 97 | .unary => 90 | .lambda => 90 | .mixed => 114
  | .block => 89
def costHi : Kind → Nat
  | .paren => 97 | .sqbr => 148 | .brace => 158 | .call => 184 | .index => 124 | .unary => 115 | .lambda => 115 | .mixed => 146
  | .block => 114

inductive Outcome where
  | ok | err | overflow
  deriving DecidableEq, Repr

/-- what the implementation does on a ladder: the parser itself accepts every ladder (`ok`; a block ladder deeper than the
    indentation limit is a lexical error), unless the recursion needs more stack than the analysis thread has -/
def ladderOutcome (k : Kind) (d : Nat) : Option Outcome :=
  if k = .block ∧ d > blockLimit then some .err
  else if d * costHi k < stackKiB then some .ok
  else if d * costLo k ≥ stackKiB ∧ costLo k > 0 then some .overflow
  else none

/-- what the property demands of a ladder of depth `d`: handled up to 200 (blocks: up to the indentation limit, beyond it the
    lexer's error is the required report), never an overflow -/
def ladderSpecOk (k : Kind) (d : Nat) (o : Outcome) : Bool :=
  match o with
  | .overflow => false
  | .ok => true
  | .err => if k = .block then d > blockLimit else d > 200

/-- known finding C09-nesting-overflow: ladders the stack model predicts to overflow -/
def inOverflowClass (k : Kind) (d : Nat) : Bool := ladderOutcome k d = some .overflow

end ErgVerif.C09
