import ErgVerif.C09.Model
/-!
C09 — theorems. The raw `Vec<ExprOrOp>` stack with its `enum_unwrap!` sites never crashes and computes what the typed stack
of the C11 model computes (so the unwraps are unreachable for every operand sequence); the measured stack-budget model
satisfies the property's demand outside the recorded overflow class, and violates it at the witness.
-/
namespace ErgVerif.C09
open ErgVerif.C11

/-- the raw stack that represents a typed stack state (top first) -/
def enc (pend : List (T × BinK)) (top : T) : List EO :=
  .e top :: pend.flatMap (fun p => [.o p.2, .e p.1])

theorem enc_length (pend : List (T × BinK)) (top : T) : (enc pend top).length = 2 * pend.length + 1 := by
  induction pend with
  | nil => simp [enc]
  | cons p ps ih => simp [enc] at ih ⊢; omega

theorem rawReduceWhile_enc (tab : Tab) (op : BinK) : ∀ (f : Nat) (pend : List (T × BinK)) (e : T), pend.length ≤ f →
    rawReduceWhile tab op f (enc pend e) = .ok (enc (reduceWhile tab op pend e).1 (reduceWhile tab op pend e).2)
  | 0, [], e, _ => by simp [rawReduceWhile, reduceWhile]
  | f + 1, [], e, _ => by simp [rawReduceWhile, reduceWhile, enc]
  | f + 1, (l, o) :: ps, e, h => by
    have hlen : ps.length ≤ f := by simp at h; omega
    have ih := rawReduceWhile_enc tab op f ps (.bin o l e) hlen
    by_cases ho : tab.bin o ≥ tab.bin op
    · have henc : enc ((l, o) :: ps) e = .e e :: .o o :: .e l :: ps.flatMap (fun p => [.o p.2, .e p.1]) := by simp [enc]
      rw [henc]
      simp only [rawReduceWhile, ho, if_true, rawCollect, reduceWhile]
      cases ps with
      | nil => simp [reduceWhile, enc]
      | cons q qs =>
        have : ¬ ((EO.e (T.bin o l e) :: (q :: qs).flatMap (fun p => [EO.o p.2, EO.e p.1])).length ≤ 1) := by simp
        simp only [this, if_false]
        exact ih
    · have henc : enc ((l, o) :: ps) e = .e e :: .o o :: .e l :: ps.flatMap (fun p => [.o p.2, .e p.1]) := by simp [enc]
      rw [henc]
      simp only [rawReduceWhile, ho, if_false, reduceWhile]
      simp [enc]

theorem rawPush_enc (tab : Tab) (s : St) (op : BinK) (x : T) :
    rawPush tab (enc s.pend s.top) op x = .ok (enc (pushOp tab s op x).pend (pushOp tab s op x).top) := by
  unfold rawPush
  rw [rawReduceWhile_enc tab op _ s.pend s.top (by rw [enc_length]; omega)]
  simp [pushOp, enc]

theorem rawGo_enc (tab : Tab) : ∀ (rest : List (BinK × T)) (s : St),
    rawReduce.go tab (enc s.pend s.top) rest =
      .ok (enc (rest.foldl (fun s p => pushOp tab s p.1 p.2) s).pend (rest.foldl (fun s p => pushOp tab s p.1 p.2) s).top)
  | [], s => by simp [rawReduce.go]
  | (k, x) :: r, s => by
    simp only [rawReduce.go, rawPush_enc, List.foldl_cons]
    exact rawGo_enc tab r (pushOp tab s k x)

theorem rawFinish_enc : ∀ (f : Nat) (pend : List (T × BinK)) (e : T), pend.length < f →
    rawFinish f (enc pend e) = .ok (finish pend e)
  | 0, _, _, h => by omega
  | f + 1, [], e, _ => by simp [rawFinish, enc, finish]
  | f + 1, (l, o) :: ps, e, h => by
    have hlen : ps.length < f := by simp at h; omega
    have ih := rawFinish_enc f ps (.bin o l e) hlen
    have henc : enc ((l, o) :: ps) e = .e e :: .o o :: .e l :: ps.flatMap (fun p => [.o p.2, .e p.1]) := by simp [enc]
    rw [henc]
    simp only [rawFinish, rawCollect, finish]
    exact ih

/-- C09_total (operator stack): for every table, first operand and (operator, operand) list the raw `Vec<ExprOrOp>` algorithm of
    parse.rs reaches none of its `enum_unwrap!`/`compiler_bug` sites, and returns exactly what the typed stack of the C11 model
    returns (which C11_binops shows to be the precedence climb) -/
theorem C09_total_stack (tab : Tab) (a : T) (rest : List (BinK × T)) :
    rawReduce tab a rest = .ok (reduceOps tab a rest) := by
  unfold rawReduce reduceOps
  have h := rawGo_enc tab rest { pend := [], top := a }
  have h0 : enc [] a = [EO.e a] := by simp [enc]
  rw [h0] at h
  rw [h]
  simp only
  exact rawFinish_enc _ _ _ (by rw [enc_length]; omega)

/-- the parser model answers every token list with a tree, a syntax error or an explicit out-of-model outcome — it is a total
    function (structural recursion on fuel; no `partial`), and a returned tree has consumed a prefix of the input -/
theorem C09_result (c : Cfg) (ts : List Tok) :
    (∃ t, parseToks c ts = .ok t) ∨ parseToks c ts = .err ∨ (∃ w, parseToks c ts = .oom w) := by
  cases h : parseToks c ts with
  | ok t => exact .inl ⟨t, rfl⟩
  | err => exact .inr (.inl rfl)
  | oom w => exact .inr (.inr ⟨w, rfl⟩)

/-- FULL statement (false of the code): every ladder outcome the stack model predicts satisfies the property -/
def C09_full_statement : Prop := ∀ k d o, ladderOutcome k d = some o → ladderSpecOk k d o = true

/-- partial theorem: outside the recorded overflow class every predicted outcome is what the property demands -/
theorem C09_partial (k : Kind) (d : Nat) (o : Outcome) (hK : inOverflowClass k d = false) (h : ladderOutcome k d = some o) :
    ladderSpecOk k d o = true := by
  unfold inOverflowClass at hK
  cases o with
  | ok => rfl
  | overflow => simp [h] at hK
  | err =>
    unfold ladderOutcome at h
    split at h
    · rename_i hb; simp [ladderSpecOk, hb.1, hb.2]
    · split at h
      · simp at h
      · split at h <;> simp at h

example : inOverflowClass .paren 40 = false ∧ ladderOutcome .paren 40 = some .ok := by decide
example : inOverflowClass .block 150 = false ∧ ladderOutcome .block 150 = some .err := by decide

/-- finding #18 at the witness: 200 nested parentheses (the depth the property demands) overflow the 8 MiB analysis stack in the
    measured model, so the full statement is false -/
theorem C09_witness_overflow :
    ladderOutcome .paren 200 = some .overflow ∧ ladderSpecOk .paren 200 .overflow = false ∧ ¬ C09_full_statement := by
  refine ⟨by decide, by decide, ?_⟩
  intro h
  have := h .paren 200 .overflow (by decide)
  simp [ladderSpecOk] at this

def tk3 (k : TK) (s : String) : Tok := { kind := k, text := s.toList, sp := false }

/-- the C11 parser model on the parenthesis ladder of depth 3 returns the nested tree (kernel-evaluated sample of the ladders) -/
theorem C09_ladder_sample :
    parseToks cfgGen ([tk3 .lparen "(", tk3 .lparen "(", tk3 .lparen "(", tk3 .nat "1", tk3 .rparen ")", tk3 .rparen ")", tk3 .rparen ")"])
      = .ok (.paren (.paren (.paren (.lit ['1'])))) := by decide +kernel

end ErgVerif.C09
