import ErgVerif.C26.Check
/-! C26 — class-level obligations of operator `sub` (see Check.lean); one kernel evaluation over 12 x 12 operand shapes. -/
namespace ErgVerif.C26
theorem checked_sub : opChecked .sub = true := by decide +kernel
end ErgVerif.C26
