import ErgVerif.C26.Check
/-! C26 — class-level obligations of the unary operators (see Check.lean). -/
namespace ErgVerif.C26
theorem checked_unary : uChecked = true := by decide +kernel
end ErgVerif.C26
