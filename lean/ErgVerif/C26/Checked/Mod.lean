import ErgVerif.C26.Check
/-! C26 — class-level obligations of operator `mod` (see Check.lean); one kernel evaluation over 12 x 12 operand shapes. -/
namespace ErgVerif.C26
theorem checked_mod : opChecked .mod = true := by decide +kernel
end ErgVerif.C26
