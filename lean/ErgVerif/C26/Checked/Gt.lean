import ErgVerif.C26.Check
/-! C26 — class-level obligations of operator `gt` (see Check.lean); one kernel evaluation over 12 x 12 operand shapes. -/
namespace ErgVerif.C26
theorem checked_gt : opChecked .gt = true := by decide +kernel
end ErgVerif.C26
