import ErgVerif.C26.Check
/-! C26 — class-level obligations of operator `mul` (see Check.lean); one kernel evaluation over 12 x 12 operand shapes. -/
namespace ErgVerif.C26
theorem checked_mul : opChecked .mul = true := by decide +kernel
end ErgVerif.C26
