import ErgVerif.C26.Checked.Add
import ErgVerif.C26.Checked.Sub
import ErgVerif.C26.Checked.Mul
import ErgVerif.C26.Checked.Floordiv
import ErgVerif.C26.Checked.Mod
import ErgVerif.C26.Checked.Pow
import ErgVerif.C26.Checked.Eq
import ErgVerif.C26.Checked.Ne
import ErgVerif.C26.Checked.Lt
import ErgVerif.C26.Checked.Le
import ErgVerif.C26.Checked.Gt
import ErgVerif.C26.Checked.Ge
import ErgVerif.C26.Checked.Unary
/-! C26 — all per-operator obligations collected. -/
namespace ErgVerif.C26
theorem all_checked : ∀ op : Op, opChecked op = true
  | .add => checked_add | .sub => checked_sub | .mul => checked_mul | .floordiv => checked_floordiv | .mod => checked_mod
  | .pow => checked_pow | .eq => checked_eq | .ne => checked_ne | .lt => checked_lt | .le => checked_le | .gt => checked_gt
  | .ge => checked_ge
end ErgVerif.C26
