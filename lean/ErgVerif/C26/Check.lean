import ErgVerif.C26.Spec
import ErgVerif.C26.Proofs
import ErgVerif.Gen.C26Runtime
import ErgVerif.Gen.C26Declared
/-!
C26 — the finite, class-level obligations, stated per operator so that each is a single `decide +kernel` evaluated in its
own module (`Checked/<Op>.lean`, built in parallel; re-elaborated only when a regenerated table changes).
For every pair of operand shapes: the REGENERATED method tables produce the same dispatch plan as the specification table
(`gen = spec`, robust against behaviour-preserving edits of the Python sources), the plan's result expression is the
operator applied to the operands (`valueOK`), Nat-like results are guarded (`natOK`), and — against the REGENERATED
declared classes of the real checker — the plan passes the whole static specification unless the triple belongs to the
class of a recorded finding (`declaredOK`).
-/
namespace ErgVerif.C26

def declaredOK (op : Op) (sa sb : Shape) (p : Plan) : Bool :=
  match declaredFor Gen.C26.declared op sa sb with
  | some d => (knownOf op sa sb d).isSome || planJudgeOK op (domOf sa sb) d p
  | none => true

def pairChecked (op : Op) (sa sb : Shape) : Bool :=
  (fun p => (plan Gen.C26.runtime op sa sb == p) && valueOK op p && natOK p && declaredOK op sa sb p) (plan Spec.table op sa sb)

def opChecked (op : Op) : Bool := shapes.all fun sa => shapes.all fun sb => pairChecked op sa sb

theorem opChecked_mem {op : Op} {sa sb : Shape} (h : opChecked op = true) (ha : sa ∈ shapes) (hb : sb ∈ shapes) :
    plan Gen.C26.runtime op sa sb = plan Spec.table op sa sb ∧ valueOK op (plan Spec.table op sa sb) = true
      ∧ natOK (plan Spec.table op sa sb) = true ∧ declaredOK op sa sb (plan Spec.table op sa sb) = true := by
  simp only [opChecked, List.all_eq_true] at h
  have := h sa ha sb hb
  simp only [pairChecked, Bool.and_eq_true, beq_iff_eq] at this
  obtain ⟨⟨⟨h1, h2⟩, h3⟩, h4⟩ := this
  exact ⟨h1, h2, h3, h4⟩

/-- unary operators: same plan from both tables, no guard, result expression `-a` / `a` -/
def uExp : UOp → IExp
  | .neg => .neg .a
  | .pos => .a

def uPairChecked (op : UOp) (s : Shape) : Bool :=
  (fun p => (uplan Gen.C26.runtime op s == p) && p.guards.isEmpty &&
    (match p.res with | .val v => v.e == uExp op | _ => false)) (uplan Spec.table op s)

def uChecked : Bool := shapes.all fun s => [UOp.neg, UOp.pos].all fun op => uPairChecked op s

end ErgVerif.C26
