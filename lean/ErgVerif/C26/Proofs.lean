import ErgVerif.C26.Model
/-!
C26 — helper lemmas: static (class-level, decidable) checkers on plans and their soundness for ALL integer operands.
The theorems of Props.lean are obtained by evaluating the checkers with `decide` on every plan of the specification table
and applying the soundness lemmas below.
-/
namespace ErgVerif.C26

/-! ### expressions -/

/-- mirror `>`/`>=` into `<`/`<=` so that the reflected comparison methods compare syntactically equal -/
def IExp.norm : IExp → IExp
  | .a => .a
  | .b => .b
  | .lit k => .lit k
  | .neg x => .neg x.norm
  | .bin op x y =>
    match op with
    | .gt => .bin .lt y.norm x.norm
    | .ge => .bin .le y.norm x.norm
    | .eq => if x.norm = .b ∧ y.norm = .a then .bin .eq .a .b else .bin .eq x.norm y.norm
    | .ne => if x.norm = .b ∧ y.norm = .a then .bin .ne .a .b else .bin .ne x.norm y.norm
    | op => .bin op x.norm y.norm

theorem norm_eval (a b : Int) : ∀ e : IExp, e.norm.eval a b = e.eval a b
  | .a => rfl
  | .b => rfl
  | .lit _ => rfl
  | .neg x => by simp [IExp.norm, IExp.eval, norm_eval a b x]
  | .bin op x y => by
    have hx := norm_eval a b x
    have hy := norm_eval a b y
    cases op
    case eq =>
      simp only [IExp.norm]
      split
      · rename_i h; rw [h.1] at hx; rw [h.2] at hy
        simp only [IExp.eval, pyBin] at *
        rw [← hx, ← hy]
        by_cases h' : a = b
        · subst h'; simp
        · have : ¬ b = a := fun e => h' e.symm
          simp [h', this]
      · simp [IExp.eval, hx, hy]
    case ne =>
      simp only [IExp.norm]
      split
      · rename_i h; rw [h.1] at hx; rw [h.2] at hy
        simp only [IExp.eval, pyBin] at *
        rw [← hx, ← hy]
        by_cases h' : a = b
        · subst h'; simp
        · have : ¬ b = a := fun e => h' e.symm
          simp [h', this]
      · simp [IExp.eval, hx, hy]
    all_goals simp [IExp.norm, IExp.eval, pyBin, hx, hy]

theorem eval_eq_of_norm_eq {e₁ e₂ : IExp} (h : e₁.norm = e₂.norm) (a b : Int) : e₁.eval a b = e₂.eval a b := by
  rw [← norm_eval a b e₁, ← norm_eval a b e₂, h]

/-- what is known about the operands: non-negative? -/
structure Dom where
  aNonneg : Bool
  bNonneg : Bool
  deriving DecidableEq, Repr

/-- sign analysis: a sufficient condition for `0 ≤ e` -/
def nonnegExp (d : Dom) : IExp → Bool
  | .a => d.aNonneg
  | .b => d.bNonneg
  | .lit k => decide (0 ≤ k)
  | .neg _ => false
  | .bin op x y =>
    match op with
    | .add | .mul | .floordiv | .mod => nonnegExp d x && nonnegExp d y
    | .pow => nonnegExp d x
    | .sub => false
    | .eq | .ne | .lt | .le | .gt | .ge => true

theorem pyBin_cmp_range (op : Op) (h : op.isCmp = true) (x y : Int) : pyBin op x y = 0 ∨ pyBin op x y = 1 := by
  cases op <;> simp [Op.isCmp] at h <;> simp [pyBin] <;> omega

theorem nonnegExp_sound (d : Dom) (a b : Int) (ha : d.aNonneg = true → 0 ≤ a) (hb : d.bNonneg = true → 0 ≤ b) :
    ∀ e : IExp, nonnegExp d e = true → 0 ≤ e.eval a b
  | .a, h => ha h
  | .b, h => hb h
  | .lit k, h => by simpa [nonnegExp, IExp.eval] using h
  | .neg _, h => by simp [nonnegExp] at h
  | .bin op x y, h => by
    have ihx := nonnegExp_sound d a b ha hb x
    have ihy := nonnegExp_sound d a b ha hb y
    cases op
    case add => simp [nonnegExp] at h; have := ihx h.1; have := ihy h.2; simp [IExp.eval, pyBin]; omega
    case mul => simp [nonnegExp] at h; simp [IExp.eval, pyBin]; exact Int.mul_nonneg (ihx h.1) (ihy h.2)
    case floordiv => simp [nonnegExp] at h; simp [IExp.eval, pyBin]; exact Int.fdiv_nonneg (ihx h.1) (ihy h.2)
    case mod => simp [nonnegExp] at h; simp [IExp.eval, pyBin]; exact Int.fmod_nonneg (ihx h.1) (ihy h.2)
    case pow => simp [nonnegExp] at h; simp [IExp.eval, pyBin]; exact Int.pow_nonneg (ihx h)
    case sub => simp [nonnegExp] at h
    all_goals
      simp only [IExp.eval]
      generalize x.eval a b = u
      generalize y.eval a b = w
      simp only [pyBin]
      split <;> omega

/-- a sufficient condition for `e ∈ {0, 1}` -/
def boolExp : IExp → Bool
  | .bin op _ _ => op.isCmp
  | .lit k => decide (k = 0 ∨ k = 1)
  | _ => false

theorem boolExp_sound (a b : Int) : ∀ e : IExp, boolExp e = true → (e.eval a b = 0 ∨ e.eval a b = 1)
  | .bin op x y, h => pyBin_cmp_range op h _ _
  | .lit k, h => by simpa [boolExp, IExp.eval] using h
  | .a, h => by simp [boolExp] at h
  | .b, h => by simp [boolExp] at h
  | .neg _, h => by simp [boolExp] at h

/-! ### running plans -/

/-- static condition for `clsDom c (e.eval a b)` from the sign analysis -/
def domOK (d : Dom) (c : Cls) (e : IExp) : Bool :=
  match c with
  | .Nat | .NatMut => nonnegExp d e
  | .Bool | .BoolMut | .pybool => boolExp e
  | _ => true

theorem domOK_sound (d : Dom) (a b : Int) (ha : d.aNonneg = true → 0 ≤ a) (hb : d.bNonneg = true → 0 ≤ b)
    (c : Cls) (e : IExp) (h : domOK d c e = true) : clsDom c (e.eval a b) = true := by
  cases c <;> simp [domOK] at h <;> simp [clsDom]
  all_goals first
    | exact nonnegExp_sound d a b ha hb e h
    | exact boolExp_sound a b e h

def inDomOK (d : Dom) (decl : ECls) (e : IExp) : Bool :=
  match decl with
  | .Nat | .NatM => nonnegExp d e
  | .Bool | .BoolM => boolExp e
  | .Int | .IntM => true
  | _ => false

theorem inDomOK_sound (d : Dom) (a b : Int) (ha : d.aNonneg = true → 0 ≤ a) (hb : d.bNonneg = true → 0 ≤ b)
    (decl : ECls) (e : IExp) (h : inDomOK d decl e = true) : inDom decl (e.eval a b) = true := by
  cases decl <;> simp [inDomOK] at h <;> simp [inDom]
  all_goals first
    | exact nonnegExp_sound d a b ha hb e h
    | exact boolExp_sound a b e h

/-- a guard that cannot produce a spurious error: sign tests are provable by the sign analysis, a zero test tests the
    right operand of `//`/`%` -/
def guardOK (op : Op) (d : Dom) : Guard → Bool
  | .nonneg e => nonnegExp d e
  | .nonzero e => (op = .floordiv ∨ op = .mod) ∧ e.norm = IExp.b
  | .expNonneg _ => true

def resOK (op : Op) (d : Dom) (decl : ECls) : ARes → Bool
  | .val v => v.e.norm = (IExp.bin op .a .b).norm ∧ domOK d v.cls v.e ∧ domOK d v.inner v.e ∧ inDomOK d decl v.e ∧ conforms v.cls decl
  | _ => false

/-- the whole specification `judge`, decided on the plan -/
def planJudgeOK (op : Op) (d : Dom) (decl : ECls) (p : Plan) : Bool :=
  p.guards.all (guardOK op d) && resOK op d decl p.res

theorem runGuards_judge (op : Op) (d : Dom) (decl : ECls) (a b : Int)
    (ha : d.aNonneg = true → 0 ≤ a) (hb : d.bNonneg = true → 0 ≤ b) (r : ARes) (hr : resOK op d decl r = true) :
    ∀ gs : List Guard, gs.all (guardOK op d) = true → judge op a b (some decl) (runGuards a b gs r) = .ok
  | [], _ => by
    cases r with
    | val v =>
      simp [resOK] at hr
      obtain ⟨hv, hc, hi, hd, hcf⟩ := hr
      have e1 : v.e.eval a b = pyBin op a b := by
        have := eval_eq_of_norm_eq hv a b
        simpa [IExp.eval] using this
      have hc' := domOK_sound d a b ha hb _ _ hc
      have hi' := domOK_sound d a b ha hb _ _ hi
      have hd' := inDomOK_sound d a b ha hb _ _ hd
      simp [runGuards, finish, judge, e1] at *
      simp [hc', hi', hd', hcf]
    | notImpl => simp [resOK] at hr
    | typeErr => simp [resOK] at hr
    | oom _ => simp [resOK] at hr
  | g :: gs, h => by
    simp only [List.all_cons, Bool.and_eq_true] at h
    have ih := runGuards_judge op d decl a b ha hb r hr gs h.2
    cases g with
    | nonneg e =>
      have := nonnegExp_sound d a b ha hb e (by simpa [guardOK] using h.1)
      simp only [runGuards]
      rw [if_neg (by omega)]
      exact ih
    | nonzero e =>
      simp [guardOK] at h
      obtain ⟨⟨hop, he⟩, _⟩ := h
      have hev : e.eval a b = b := by
        have := eval_eq_of_norm_eq (e₁ := e) (e₂ := .b) (by simpa [IExp.norm] using he) a b
        simpa [IExp.eval] using this
      simp only [runGuards]
      by_cases hz : e.eval a b = 0
      · rw [if_pos hz]
        have hb0 : b = 0 := by omega
        simp [judge, hop, hb0]
      · rw [if_neg hz]; exact ih
    | expNonneg e =>
      simp only [runGuards]
      by_cases hz : e.eval a b < 0
      · rw [if_pos hz]; simp [judge]
      · rw [if_neg hz]; exact ih

theorem planJudge_sound (op : Op) (d : Dom) (decl : ECls) (p : Plan) (h : planJudgeOK op d decl p = true) (a b : Int)
    (ha : d.aNonneg = true → 0 ≤ a) (hb : d.bNonneg = true → 0 ≤ b) :
    judge op a b (some decl) (run p a b) = .ok := by
  simp only [planJudgeOK, Bool.and_eq_true] at h
  exact runGuards_judge op d decl a b ha hb p.res h.2 p.guards h.1

/-! ### value and sign facts that need no assumption on the operands -/

/-- the result expression is the operator applied to the operands (up to mirroring of comparisons) -/
def valueOK (op : Op) (p : Plan) : Bool :=
  match p.res with
  | .val v => v.e.norm = (IExp.bin op .a .b).norm
  | _ => true

/-- every result of a Nat-like class passed a sign test on (an expression equal to) its value; Bool-like results are
    comparison results -/
def clsGuarded (gs : List Guard) (c : Cls) (e : IExp) : Bool :=
  match c with
  | .Nat | .NatMut => gs.any (fun g => match g with | .nonneg e' => e'.norm = e.norm | _ => false)
  | .Bool | .BoolMut | .pybool => boolExp e
  | _ => true

def natOK (p : Plan) : Bool :=
  match p.res with
  | .val v => clsGuarded p.guards v.cls v.e && clsGuarded p.guards v.inner v.e
  | _ => true

theorem runGuards_ok_inv (a b : Int) (r : ARes) (c i : Cls) (v : Int) :
    ∀ gs : List Guard, runGuards a b gs r = .ok c i v →
      (∃ e, r = .val ⟨c, i, e⟩ ∧ v = e.eval a b) ∧ (∀ e', Guard.nonneg e' ∈ gs → 0 ≤ e'.eval a b)
  | [], h => by
    cases r with
    | val w =>
      simp [runGuards, finish] at h
      obtain ⟨h1, h2, h3⟩ := h
      refine ⟨⟨w.e, ?_, h3.symm⟩, by simp⟩
      cases w; simp_all
    | notImpl => simp [runGuards, finish] at h
    | typeErr => simp [runGuards, finish] at h
    | oom _ => simp [runGuards, finish] at h
  | g :: gs, h => by
    cases g with
    | nonneg e =>
      simp only [runGuards] at h
      by_cases hz : e.eval a b < 0
      · rw [if_pos hz] at h; cases h
      · rw [if_neg hz] at h
        obtain ⟨h1, h2⟩ := runGuards_ok_inv a b r c i v gs h
        refine ⟨h1, ?_⟩
        intro e' he'
        simp at he'
        rcases he' with rfl | he'
        · omega
        · exact h2 e' he'
    | nonzero e =>
      simp only [runGuards] at h
      by_cases hz : e.eval a b = 0
      · rw [if_pos hz] at h; cases h
      · rw [if_neg hz] at h
        obtain ⟨h1, h2⟩ := runGuards_ok_inv a b r c i v gs h
        exact ⟨h1, fun e' he' => h2 e' (by simpa using he')⟩
    | expNonneg e =>
      simp only [runGuards] at h
      by_cases hz : e.eval a b < 0
      · rw [if_pos hz] at h; cases h
      · rw [if_neg hz] at h
        obtain ⟨h1, h2⟩ := runGuards_ok_inv a b r c i v gs h
        exact ⟨h1, fun e' he' => h2 e' (by simpa using he')⟩

theorem value_sound (op : Op) (p : Plan) (h : valueOK op p = true) (a b : Int) (c i : Cls) (v : Int)
    (hr : run p a b = .ok c i v) : v = pyBin op a b := by
  obtain ⟨⟨e, he, hv⟩, _⟩ := runGuards_ok_inv a b p.res c i v p.guards hr
  simp [valueOK, he] at h
  have := eval_eq_of_norm_eq h a b
  simpa [hv, IExp.eval] using this

theorem clsGuarded_sound (a b : Int) (gs : List Guard) (hg : ∀ e', Guard.nonneg e' ∈ gs → 0 ≤ e'.eval a b)
    (c : Cls) (e : IExp) (h : clsGuarded gs c e = true) : clsDom c (e.eval a b) = true := by
  cases c <;> simp [clsGuarded] at h <;> simp [clsDom]
  all_goals first
    | exact boolExp_sound a b e h
    | (obtain ⟨g, hg1, hg2⟩ := h
       cases g with
       | nonneg e' =>
         simp at hg2
         have := hg e' hg1
         rw [eval_eq_of_norm_eq hg2 a b] at this
         exact this
       | nonzero _ => simp at hg2
       | expNonneg _ => simp at hg2)

theorem nat_sound (p : Plan) (h : natOK p = true) (a b : Int) (c i : Cls) (v : Int)
    (hr : run p a b = .ok c i v) : clsDom c v = true ∧ clsDom i v = true := by
  obtain ⟨⟨e, he, hv⟩, hg⟩ := runGuards_ok_inv a b p.res c i v p.guards hr
  simp [natOK, he] at h
  subst hv
  exact ⟨clsGuarded_sound a b _ hg c e h.1, clsGuarded_sound a b _ hg i e h.2⟩

/-! ### operand domains -/

theorem clsDom_nonneg (c : Cls) (v : Int)
    (hc : c = .Nat ∨ c = .NatMut ∨ c = .Bool ∨ c = .BoolMut ∨ c = .pybool) (h : clsDom c v = true) : 0 ≤ v := by
  rcases hc with rfl | rfl | rfl | rfl | rfl <;> simp [clsDom] at h <;> omega

theorem shapeDom_nonneg (s : Shape) (v : Int) (h : shapeDom s v = true) (hs : shapeNonneg s = true) : 0 ≤ v := by
  simp [shapeDom] at h
  simp [shapeNonneg] at hs
  rcases hs with h1 | h1 | h1 | h1 | h1 | h1 | h1 | h1 | h1 | h1
  · exact clsDom_nonneg _ _ (by simp [h1]) h.1
  · exact clsDom_nonneg _ _ (by simp [h1]) h.1
  · exact clsDom_nonneg _ _ (by simp [h1]) h.1
  · exact clsDom_nonneg _ _ (by simp [h1]) h.1
  · exact clsDom_nonneg _ _ (by simp [h1]) h.1
  · exact clsDom_nonneg _ _ (by simp [h1]) h.2
  · exact clsDom_nonneg _ _ (by simp [h1]) h.2
  · exact clsDom_nonneg _ _ (by simp [h1]) h.2
  · exact clsDom_nonneg _ _ (by simp [h1]) h.2
  · exact clsDom_nonneg _ _ (by simp [h1]) h.2

def domOf (sa sb : Shape) : Dom := ⟨shapeNonneg sa, shapeNonneg sb⟩

end ErgVerif.C26
