import ErgVerif.C26.Checked
/-!
C26 — property theorems.  `binop tbl op x y` is the model of `x op y` on objects of the int/bool family (Model.lean);
`Spec.table` is the hand-written method table; `Gen.C26.runtime` / `Gen.C26.declared` are regenerated on every run from
`_erg_*.py` and from the real checker.  Every theorem quantifies over ALL integer operand values and over all operand
shapes the family has (`shapes`: int, bool, Int, Nat, Bool, IntMut, NatMut (4 stored classes), BoolMut (2)).
-/
namespace ErgVerif.C26

/-! ## regenerated obligations (T-gen)
The finite class-level facts are `all_checked` (Checked.lean: one `decide +kernel` per operator over the REGENERATED tables
`Gen.C26.runtime` and `Gen.C26.declared`) and `checked_unary`. They are restated here in readable form. -/

/-- the method tables regenerated from `_erg_type.py/_erg_int.py/_erg_nat.py/_erg_bool.py` dispatch exactly like the
    specification table: same plan for every operator and operand shapes (robust against behaviour-preserving edits) -/
theorem gen_plans_eq_spec (op : Op) (sa sb : Shape) (ha : sa ∈ shapes) (hb : sb ∈ shapes) :
    plan Gen.C26.runtime op sa sb = plan Spec.table op sa sb :=
  (opChecked_mem (all_checked op) ha hb).1

/-- hence the model instantiated with the regenerated tables (what the driver runs against the real classes) and the
    model the theorems are about are the same function -/
theorem gen_binop_eq_spec (op : Op) (sa sb : Shape) (ha : sa ∈ shapes) (hb : sb ∈ shapes) (a b : Int) :
    binop Gen.C26.runtime op ⟨sa, a⟩ ⟨sb, b⟩ = binop Spec.table op ⟨sa, a⟩ ⟨sb, b⟩ := by
  simp only [binop, gen_plans_eq_spec op sa sb ha hb]

/-- `then__` still has the shape the model's `then_` assumes -/
theorem gen_then_ok : Gen.C26.thenOk = true := by decide

/-! ## the property -/

/-- **Values agree with Python.** Whenever an operation of the family returns, its integer value is Python's integer
    arithmetic on the operand values (`//` floors, `%` has the divisor's sign; comparisons as 0/1) — all classes,
    mixed wrapper/plain/mutable operands, all integers. -/
theorem C26_value (op : Op) (sa sb : Shape) (ha : sa ∈ shapes) (hb : sb ∈ shapes) (a b : Int) (c i : Cls) (v : Int)
    (h : binop Spec.table op ⟨sa, a⟩ ⟨sb, b⟩ = .ok c i v) : v = pyBin op a b := by
  exact value_sound op _ (opChecked_mem (all_checked op) ha hb).2.1 a b c i v h

/-- **No Nat instance is ever negative** (and no Bool-like result is outside {0,1}): for every returned object, the value
    lies in the value set of its class and of the class of its `.value` — without any assumption on the operands. -/
theorem C26_nat_nonneg (op : Op) (sa sb : Shape) (ha : sa ∈ shapes) (hb : sb ∈ shapes) (a b : Int) (c i : Cls) (v : Int)
    (h : binop Spec.table op ⟨sa, a⟩ ⟨sb, b⟩ = .ok c i v) : clsDom c v = true ∧ clsDom i v = true := by
  exact nat_sound _ (opChecked_mem (all_checked op) ha hb).2.2.1 a b c i v h

/-- **Declared classes are honoured (full specification), outside the recorded findings.** If the real checker declares
    `A op B : D` and the triple is in none of the known classes, then for all admissible operand values the outcome passes
    the whole specification `judge`: value = Python's, no negative Nat, no ValueError/TypeError, ZeroDivisionError only
    for a zero divisor, result value in ⟦D⟧, result class ≤ D. -/
theorem C26_declared_partial (op : Op) (sa sb : Shape) (ha : sa ∈ shapes) (hb : sb ∈ shapes) (d : ECls)
    (hd : declaredFor Gen.C26.declared op sa sb = some d) (hk : knownOf op sa sb d = none)
    (a b : Int) (hda : shapeDom sa a = true) (hdb : shapeDom sb b = true) :
    judge op a b (some d) (binop Spec.table op ⟨sa, a⟩ ⟨sb, b⟩) = .ok := by
  have hc := (opChecked_mem (all_checked op) ha hb).2.2.2
  simp only [declaredOK, hd, hk, Option.isSome_none, Bool.false_or] at hc
  exact planJudge_sound op _ d _ hc a b (fun h => shapeDom_nonneg sa a hda h) (fun h => shapeDom_nonneg sb b hdb h)

/-- corollary: result class ≤ declared class -/
theorem C26_class (op : Op) (sa sb : Shape) (ha : sa ∈ shapes) (hb : sb ∈ shapes) (d : ECls)
    (hd : declaredFor Gen.C26.declared op sa sb = some d) (hk : knownOf op sa sb d = none)
    (a b : Int) (hda : shapeDom sa a = true) (hdb : shapeDom sb b = true) (c i : Cls) (v : Int)
    (h : binop Spec.table op ⟨sa, a⟩ ⟨sb, b⟩ = .ok c i v) : conforms c d = true ∧ inDom d v = true := by
  have hj := C26_declared_partial op sa sb ha hb d hd hk a b hda hdb
  rw [h] at hj
  simp only [judge] at hj
  split at hj <;> try contradiction
  split at hj <;> try contradiction
  split at hj <;> try contradiction
  split at hj <;> try contradiction
  rename_i h1 h2
  simp at h1 h2
  exact ⟨h2, h1⟩

/-- corollary: no spurious ValueError / TypeError -/
theorem C26_no_spurious_error (op : Op) (sa sb : Shape) (ha : sa ∈ shapes) (hb : sb ∈ shapes) (d : ECls)
    (hd : declaredFor Gen.C26.declared op sa sb = some d) (hk : knownOf op sa sb d = none)
    (a b : Int) (hda : shapeDom sa a = true) (hdb : shapeDom sb b = true) :
    binop Spec.table op ⟨sa, a⟩ ⟨sb, b⟩ ≠ .valueError ∧ binop Spec.table op ⟨sa, a⟩ ⟨sb, b⟩ ≠ .typeError := by
  have hj := C26_declared_partial op sa sb ha hb d hd hk a b hda hdb
  constructor <;> intro h <;> rw [h] at hj <;> simp [judge] at hj

/-- Python's unary integer operators -/
def pyUn : UOp → Int → Int
  | .neg, a => -a
  | .pos, a => a

/-- **Unary operators**: `-x` / `+x` return the negated / the same integer value, for every class of the family. -/
theorem C26_unary (op : UOp) (s : Shape) (hs : s ∈ shapes) (a : Int) (c i : Cls) (v : Int)
    (h : unop Spec.table op ⟨s, a⟩ = .ok c i v) : v = pyUn op a := by
  have hc := checked_unary
  simp only [uChecked, List.all_eq_true] at hc
  have h1 := hc s hs op (by cases op <;> simp)
  simp only [uPairChecked, Bool.and_eq_true] at h1
  obtain ⟨⟨_, _⟩, h3⟩ := h1
  obtain ⟨⟨e, he, hv⟩, _⟩ := runGuards_ok_inv a a (uplan Spec.table op s).res c i v (uplan Spec.table op s).guards h
  rw [he] at h3
  simp only [beq_iff_eq] at h3
  subst hv
  rw [h3]
  cases op <;> simp [uExp, IExp.eval, pyUn]

/-! ### non-vacuity -/

/-- the hypotheses of `C26_declared_partial` are satisfiable: `Nat + Int` is declared `Int`, is in no known class, and
    computes `Int(-2)` for `5 + (-7)` (finding #14 repaired) -/
example : declaredFor Gen.C26.declared .add ⟨.Nat, .Nat⟩ ⟨.Int, .Int⟩ = some .Int
    ∧ knownOf .add ⟨.Nat, .Nat⟩ ⟨.Int, .Int⟩ .Int = none
    ∧ binop Spec.table .add ⟨⟨.Nat, .Nat⟩, 5⟩ ⟨⟨.Int, .Int⟩, -7⟩ = .ok .Int .Int (-2) := by decide

example : binop Spec.table .add ⟨⟨.Nat, .Nat⟩, 5⟩ ⟨⟨.Nat, .Nat⟩, 7⟩ = .ok .Nat .Nat 12 := by decide
example : binop Spec.table .floordiv ⟨⟨.Int, .Int⟩, -7⟩ ⟨⟨.Nat, .Nat⟩, 2⟩ = .ok .Int .Int (-4) := by decide
example : binop Spec.table .lt ⟨⟨.Int, .Int⟩, 3⟩ ⟨⟨.NatMut, .Nat⟩, 5⟩ = .ok .pybool .pybool 1 := by decide
/-- `IntMut + NatMut` is answered by `NatMut.__radd__` (a subclass overriding the reflected method goes first) -/
example : binop Spec.table .add ⟨⟨.IntMut, .Int⟩, 5⟩ ⟨⟨.NatMut, .Nat⟩, 3⟩ = .ok .Nat .Nat 8 := by decide
/-- the declared (operator, shape, shape) triples the partial theorem covers (in no known class) are the majority -/
example : (Op.all.flatMap fun op => shapes.flatMap fun sa => shapes.filter fun sb =>
    match declaredFor Gen.C26.declared op sa sb with
    | some d => (knownOf op sa sb d).isNone | none => false).length > 800 := by decide +kernel

/-! ### witnesses: where the full statement fails -/

/-- finding #14 before the fix: `Nat(5) + Int(-7)` raised ValueError although `Nat + Int : Int` is declared -/
theorem C26_legacy_witness :
    binop Spec.legacyTable .add ⟨⟨.Nat, .Nat⟩, 5⟩ ⟨⟨.Int, .Int⟩, -7⟩ = .valueError
    ∧ judge .add 5 (-7) (some .Int) (binop Spec.legacyTable .add ⟨⟨.Nat, .Nat⟩, 5⟩ ⟨⟨.Int, .Int⟩, -7⟩) = .spuriousError := by
  decide

/-- C26-natmut-rewrap: the mutable Nat still re-wraps: `NatMut(5) + Int(-7)` raises ValueError (`Nat! + Int : Int`) -/
theorem C26_witness_natmut_rewrap :
    knownOf .add ⟨.NatMut, .Nat⟩ ⟨.Int, .Int⟩ .Int = some .natMutRewrap
    ∧ judge .add 5 (-7) (some .Int) (binop Spec.table .add ⟨⟨.NatMut, .Nat⟩, 5⟩ ⟨⟨.Int, .Int⟩, -7⟩) = .spuriousError := by
  decide

/-- C26-imm-op-mut-typeerror: `Int(7) - NatMut(2)` is a TypeError (`Int - Nat! : Int` is declared) -/
theorem C26_witness_imm_op_mut :
    declaredFor Gen.C26.declared .sub ⟨.Int, .Int⟩ ⟨.NatMut, .Nat⟩ = some .Int
    ∧ binop Spec.table .sub ⟨⟨.Int, .Int⟩, 7⟩ ⟨⟨.NatMut, .Nat⟩, 2⟩ = .typeError := by
  decide

/-- C26-nat-class-not-kept: `Nat(7) // Nat(2)` is an `Int` object, `Nat // Nat : Nat` is declared (value 3 is in ⟦Nat⟧) -/
theorem C26_witness_nat_class :
    declaredFor Gen.C26.declared .floordiv ⟨.Nat, .Nat⟩ ⟨.Nat, .Nat⟩ = some .Nat
    ∧ binop Spec.table .floordiv ⟨⟨.Nat, .Nat⟩, 7⟩ ⟨⟨.Nat, .Nat⟩, 2⟩ = .ok .Int .Int 3
    ∧ judge .floordiv 7 2 (some .Nat) (binop Spec.table .floordiv ⟨⟨.Nat, .Nat⟩, 7⟩ ⟨⟨.Nat, .Nat⟩, 2⟩) = .cls := by
  decide

/-- C26-int-pow-declared-nat: the checker declares `Int ** Int : Nat`; `Int(-2) ** Int(3) = Int(-8)` is outside ⟦Nat⟧ -/
theorem C26_witness_int_pow :
    declaredFor Gen.C26.declared .pow ⟨.Int, .Int⟩ ⟨.Int, .Int⟩ = some .Nat
    ∧ binop Spec.table .pow ⟨⟨.Int, .Int⟩, -2⟩ ⟨⟨.Int, .Int⟩, 3⟩ = .ok .Int .Int (-8)
    ∧ judge .pow (-2) 3 (some .Nat) (binop Spec.table .pow ⟨⟨.Int, .Int⟩, -2⟩ ⟨⟨.Int, .Int⟩, 3⟩) = .declDomain := by
  decide

end ErgVerif.C26
