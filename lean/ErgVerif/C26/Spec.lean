import ErgVerif.C26.Model
/-!
C26 — hand-written specification table of the int/bool family: the method tables the theorems of `Props.lean` are proved
for.  It is what `_erg_type.py/_erg_int.py/_erg_nat.py/_erg_bool.py` say at the time of writing (after the fix of finding
#14: `Nat.__add__/__mul__` wrap in `Nat` only when the other operand is a `Nat`), in the term language of `Model.lean`.
The regenerated table `Gen.C26.runtime` is tied to it by the obligation `gen_plans_eq_spec` (Props.lean): both tables
must produce the same dispatch plan for every (operator, operand shape, operand shape).
`legacyTable` keeps the behaviour before the fix (witness theorem `C26_legacy_witness`).
-/
namespace ErgVerif.C26.Spec
open ErgVerif.C26

def table : Table := [
  { cls := .MutType, bases := [.object], init := none,
    methods := [

    ] },
  { cls := .Int, bases := [.pyint], init := none,
    methods := [
      ((.dunder .add), (.then_ (.baseCall .pyint (.dunder .add) (.arg .self) (.arg .other)) (.const .Int))),
      ((.dunder .floordiv), (.then_ (.baseCall .pyint (.dunder .floordiv) (.arg .self) (.arg .other)) (.const .Int))),
      ((.dunder .mul), (.then_ (.baseCall .pyint (.dunder .mul) (.arg .self) (.arg .other)) (.const .Int))),
      ((.dunder .pow), (.then_ (.baseCall .pyint (.dunder .pow) (.arg .self) (.arg .other)) (.const .Int))),
      ((.dunder .sub), (.then_ (.baseCall .pyint (.dunder .sub) (.arg .self) (.arg .other)) (.const .Int))),
      ((.rdunder .pow), (.then_ (.baseCall .pyint (.dunder .pow) (.arg .other) (.arg .self)) (.const .Int))),
      ((.udunder .neg), (.then_ (.baseCall1 .pyint (.udunder .neg) (.arg .self)) (.const .Int))),
      ((.udunder .pos), (.arg .self))
    ] },
  { cls := .IntMut, bases := [.MutType], init := (some (InitKind.storeWrapped .Int)),
    methods := [
      ((.dunder .add), (.ifMut (.construct .IntMut (.binop .add (.arg .selfVal) (.arg .otherVal))) (.construct .IntMut (.binop .add (.arg .selfVal) (.arg .other))))),
      ((.dunder .eq), (.ifMut (.binop .eq (.arg .selfVal) (.arg .otherVal)) (.binop .eq (.arg .selfVal) (.arg .other)))),
      ((.dunder .floordiv), (.ifMut (.construct .IntMut (.binop .floordiv (.arg .selfVal) (.arg .otherVal))) (.construct .IntMut (.binop .floordiv (.arg .selfVal) (.arg .other))))),
      ((.dunder .ge), (.ifMut (.binop .ge (.arg .selfVal) (.arg .otherVal)) (.binop .ge (.arg .selfVal) (.arg .other)))),
      ((.dunder .gt), (.ifMut (.binop .gt (.arg .selfVal) (.arg .otherVal)) (.binop .gt (.arg .selfVal) (.arg .other)))),
      ((.dunder .le), (.ifMut (.binop .le (.arg .selfVal) (.arg .otherVal)) (.binop .le (.arg .selfVal) (.arg .other)))),
      ((.dunder .lt), (.ifMut (.binop .lt (.arg .selfVal) (.arg .otherVal)) (.binop .lt (.arg .selfVal) (.arg .other)))),
      ((.dunder .mul), (.ifMut (.construct .IntMut (.binop .mul (.arg .selfVal) (.arg .otherVal))) (.construct .IntMut (.binop .mul (.arg .selfVal) (.arg .other))))),
      ((.dunder .ne), (.ifMut (.binop .ne (.arg .selfVal) (.arg .otherVal)) (.binop .ne (.arg .selfVal) (.arg .other)))),
      ((.dunder .pow), (.ifMut (.construct .IntMut (.binop .pow (.arg .selfVal) (.arg .otherVal))) (.construct .IntMut (.binop .pow (.arg .selfVal) (.arg .other))))),
      ((.dunder .sub), (.ifMut (.construct .IntMut (.binop .sub (.arg .selfVal) (.arg .otherVal))) (.construct .IntMut (.binop .sub (.arg .selfVal) (.arg .other))))),
      ((.udunder .neg), (.construct .IntMut (.unop .neg (.arg .selfVal)))),
      ((.udunder .pos), (.arg .self))
    ] },
  { cls := .Nat, bases := [.Int], init := (some InitKind.checkNonneg),
    methods := [
      ((.dunder .add), (.then_ (.superCall (.dunder .add) (.arg .other)) (.ifInst .other .Nat .Nat .Int))),
      ((.dunder .mul), (.then_ (.superCall (.dunder .mul) (.arg .other)) (.ifInst .other .Nat .Nat .Int))),
      ((.udunder .pos), (.arg .self))
    ] },
  { cls := .NatMut, bases := [.IntMut], init := (some InitKind.checkStore),
    methods := [
      ((.dunder .add), (.ifMut (.construct .NatMut (.binop .add (.arg .selfVal) (.arg .otherVal))) (.construct .NatMut (.binop .add (.arg .selfVal) (.arg .other))))),
      ((.dunder .eq), (.ifMut (.binop .eq (.arg .selfVal) (.arg .otherVal)) (.binop .eq (.arg .selfVal) (.arg .other)))),
      ((.dunder .ge), (.ifMut (.binop .ge (.arg .selfVal) (.arg .otherVal)) (.binop .ge (.arg .selfVal) (.arg .other)))),
      ((.dunder .gt), (.ifMut (.binop .gt (.arg .selfVal) (.arg .otherVal)) (.binop .gt (.arg .selfVal) (.arg .other)))),
      ((.dunder .le), (.ifMut (.binop .le (.arg .selfVal) (.arg .otherVal)) (.binop .le (.arg .selfVal) (.arg .other)))),
      ((.dunder .lt), (.ifMut (.binop .lt (.arg .selfVal) (.arg .otherVal)) (.binop .lt (.arg .selfVal) (.arg .other)))),
      ((.dunder .mul), (.ifMut (.construct .NatMut (.binop .mul (.arg .selfVal) (.arg .otherVal))) (.construct .NatMut (.binop .mul (.arg .selfVal) (.arg .other))))),
      ((.dunder .ne), (.ifMut (.binop .ne (.arg .selfVal) (.arg .otherVal)) (.binop .ne (.arg .selfVal) (.arg .other)))),
      ((.dunder .pow), (.ifMut (.construct .NatMut (.binop .pow (.arg .selfVal) (.arg .otherVal))) (.construct .NatMut (.binop .pow (.arg .selfVal) (.arg .other))))),
      ((.rdunder .add), (.ifMut (.construct .Nat (.binop .add (.arg .otherVal) (.arg .selfVal))) (.construct .Nat (.binop .add (.arg .other) (.arg .selfVal))))),
      ((.rdunder .mul), (.ifMut (.construct .Nat (.binop .mul (.arg .otherVal) (.arg .selfVal))) (.construct .Nat (.binop .mul (.arg .other) (.arg .selfVal))))),
      ((.udunder .pos), (.arg .self))
    ] },
  { cls := .Bool, bases := [.Nat], init := none,
    methods := [

    ] },
  { cls := .BoolMut, bases := [.NatMut], init := (some InitKind.store),
    methods := [
      ((.dunder .eq), (.ifMut (.binop .eq (.arg .selfVal) (.arg .otherVal)) (.binop .eq (.arg .selfVal) (.arg .other)))),
      ((.dunder .ne), (.ifMut (.binop .ne (.arg .selfVal) (.arg .otherVal)) (.binop .ne (.arg .selfVal) (.arg .other))))
    ] }
]

/-- `Nat.__add__/__mul__` as they were before the fix: every sum/product re-wrapped in `Nat` -/
def legacyNat : ClassDef :=
  { cls := .Nat, bases := [.Int], init := (some InitKind.checkNonneg),
    methods := [
      ((.dunder .add), (.then_ (.superCall (.dunder .add) (.arg .other)) (.const .Nat))),
      ((.dunder .mul), (.then_ (.superCall (.dunder .mul) (.arg .other)) (.const .Nat))),
      ((.udunder .pos), (.arg .self))
    ] }

def legacyTable : Table := table.map (fun d => if d.cls = .Nat then legacyNat else d)

end ErgVerif.C26.Spec
