/-
C26 — runtime classes of the int/bool family (`int bool Int Nat Bool IntMut NatMut BoolMut`).

What is transcribed / modelled here
* The *method tables* of `crates/erg_compiler/lib/core/_erg_int.py`, `_erg_nat.py`, `_erg_bool.py` (and `MutType` of
  `_erg_type.py`, `then__` of `_erg_control.py`) are NOT written here: they are regenerated on every run by
  `py/c26_extract_runtime.py` into `ErgVerif/Gen/C26Runtime.lean` as values of the term language `Tm` below.
* This file holds the interpreter of that term language, i.e. the model of CPython's data model for binary/unary
  operators and rich comparisons (Objects/abstract.c `binary_op1`, Objects/typeobject.c `SLOT1BINFULL`,
  Objects/object.c `do_richcompare`, in the documented form: left `__op__`, `NotImplemented` falls through to the right
  operand's reflected method, a proper subclass on the right goes first when it provides a different reflected method;
  for comparisons a proper subclass on the right always goes first), of attribute lookup along the MRO, of `super()`,
  of object construction (`int.__new__` + `__init__` found along the MRO), and of `then__`.
* The interpreter is two-staged *by construction*: `plan` performs everything that depends on classes only (dispatch,
  MRO lookup, `NotImplemented` fall-through, `isinstance(other, MutType)`), producing a `Plan`: a list of integer guards
  (`Nat.__init__`'s sign test, division by zero, negative exponent) and a result class with an integer expression over
  the two operand values; `run` evaluates a plan on concrete integers. CPython's dispatch depends on the operand *types*
  only, so nothing is lost; the only value-dependent type in the family (`int.__pow__` with a negative exponent returns a
  float) is an explicit `notModelled` outcome.  `binop tbl op x y = run (plan …) x.v y.v`.
  The model is validated against the real classes under every interpreter by `py/c26_runtime_oracle.py` (the tie).
Core Lean only; imported by the driver.
-/
namespace ErgVerif.C26

/-- classes of the family; `other n` = a class the extractor met that has no constructor here (interned id) -/
inductive Cls where
  | object | pyint | pybool | MutType | Int | Nat | Bool | IntMut | NatMut | BoolMut
  | other (id : Nat)
  deriving Repr, Inhabited

/-- numeric code (equality of classes is decided on codes: cheap for the kernel's `decide`) -/
def Cls.code : Cls → _root_.Nat
  | .object => 0 | .pyint => 1 | .pybool => 2 | .MutType => 3 | .Int => 4 | .Nat => 5 | .Bool => 6 | .IntMut => 7
  | .NatMut => 8 | .BoolMut => 9 | .other n => 10 + n

theorem Cls.code_inj : ∀ {c d : Cls}, c.code = d.code → c = d := by
  intro c d h
  cases c <;> cases d <;> simp only [Cls.code] at h <;> try rfl
  all_goals first | omega | (congr 1; omega)

instance : DecidableEq Cls := fun c d =>
  if h : c.code = d.code then isTrue (Cls.code_inj h) else isFalse (fun e => h (by rw [e]))

def Cls.name : Cls → String
  | .object => "object" | .pyint => "int" | .pybool => "bool" | .MutType => "MutType" | .Int => "Int" | .Nat => "Nat"
  | .Bool => "Bool" | .IntMut => "IntMut" | .NatMut => "NatMut" | .BoolMut => "BoolMut" | .other n => "other" ++ toString n

/-- binary operators (arithmetic with an integer result on integers, and the six comparisons) -/
inductive Op where
  | add | sub | mul | floordiv | mod | pow | eq | ne | lt | le | gt | ge
  deriving Repr, Inhabited

def Op.code : Op → Nat
  | .add => 0 | .sub => 1 | .mul => 2 | .floordiv => 3 | .mod => 4 | .pow => 5 | .eq => 6 | .ne => 7 | .lt => 8 | .le => 9
  | .gt => 10 | .ge => 11

theorem Op.code_inj : ∀ {c d : Op}, c.code = d.code → c = d := by
  intro c d h
  cases c <;> cases d <;> simp [Op.code] at h <;> rfl

instance : DecidableEq Op := fun c d =>
  if h : c.code = d.code then isTrue (Op.code_inj h) else isFalse (fun e => h (by rw [e]))

def Op.name : Op → String
  | .add => "add" | .sub => "sub" | .mul => "mul" | .floordiv => "floordiv" | .mod => "mod" | .pow => "pow"
  | .eq => "eq" | .ne => "ne" | .lt => "lt" | .le => "le" | .gt => "gt" | .ge => "ge"

def Op.all : List Op := [.add, .sub, .mul, .floordiv, .mod, .pow, .eq, .ne, .lt, .le, .gt, .ge]

def Op.isCmp : Op → Bool
  | .eq | .ne | .lt | .le | .gt | .ge => true
  | _ => false

inductive UOp where
  | neg | pos
  deriving Repr, Inhabited

def UOp.code : UOp → Nat
  | .neg => 0 | .pos => 1

theorem UOp.code_inj : ∀ {c d : UOp}, c.code = d.code → c = d := by
  intro c d h
  cases c <;> cases d <;> simp [UOp.code] at h <;> rfl

instance : DecidableEq UOp := fun c d =>
  if h : c.code = d.code then isTrue (UOp.code_inj h) else isFalse (fun e => h (by rw [e]))

def UOp.name : UOp → String
  | .neg => "neg" | .pos => "pos"

/-- method names: `dunder op` = `__op__`, `rdunder op` = `__rop__`, unary dunders, `__init__`; `other n` interned -/
inductive Meth where
  | dunder (op : Op) | rdunder (op : Op) | udunder (op : UOp) | init | other (id : Nat)
  deriving Repr, Inhabited

def Meth.code : Meth → Nat
  | .dunder op => op.code | .rdunder op => 12 + op.code | .udunder op => 24 + op.code | .init => 26 | .other n => 27 + n

theorem Op.code_lt (o : Op) : o.code < 12 := by cases o <;> simp [Op.code]
theorem UOp.code_lt (o : UOp) : o.code < 2 := by cases o <;> simp [UOp.code]

theorem Meth.code_inj : ∀ {c d : Meth}, c.code = d.code → c = d := by
  intro c d h
  cases c with
  | dunder x =>
    cases d with
    | dunder y => simp only [Meth.code] at h; have := Op.code_lt x; have := Op.code_lt y; rw [Op.code_inj (c := x) (d := y) (by omega)]
    | rdunder y => simp only [Meth.code] at h; have := Op.code_lt x; have := Op.code_lt y; omega
    | udunder y => simp only [Meth.code] at h; have := Op.code_lt x; have := UOp.code_lt y; omega
    | init => simp only [Meth.code] at h; have := Op.code_lt x; omega
    | other y => simp only [Meth.code] at h; have := Op.code_lt x; omega
  | rdunder x =>
    cases d with
    | dunder y => simp only [Meth.code] at h; have := Op.code_lt x; have := Op.code_lt y; omega
    | rdunder y => simp only [Meth.code] at h; have := Op.code_lt x; have := Op.code_lt y; rw [Op.code_inj (c := x) (d := y) (by omega)]
    | udunder y => simp only [Meth.code] at h; have := Op.code_lt x; have := UOp.code_lt y; omega
    | init => simp only [Meth.code] at h; have := Op.code_lt x; omega
    | other y => simp only [Meth.code] at h; have := Op.code_lt x; omega
  | udunder x =>
    cases d with
    | dunder y => simp only [Meth.code] at h; have := UOp.code_lt x; have := Op.code_lt y; omega
    | rdunder y => simp only [Meth.code] at h; have := UOp.code_lt x; have := Op.code_lt y; omega
    | udunder y => simp only [Meth.code] at h; have := UOp.code_lt x; have := UOp.code_lt y; rw [UOp.code_inj (c := x) (d := y) (by omega)]
    | init => simp only [Meth.code] at h; have := UOp.code_lt x; omega
    | other y => simp only [Meth.code] at h; have := UOp.code_lt x; omega
  | init =>
    cases d with
    | dunder y => simp only [Meth.code] at h; have := Op.code_lt y; omega
    | rdunder y => simp only [Meth.code] at h; have := Op.code_lt y; omega
    | udunder y => simp only [Meth.code] at h; have := UOp.code_lt y; omega
    | init => rfl
    | other y => simp only [Meth.code] at h; omega
  | other x =>
    cases d with
    | dunder y => simp only [Meth.code] at h; have := Op.code_lt y; omega
    | rdunder y => simp only [Meth.code] at h; have := Op.code_lt y; omega
    | udunder y => simp only [Meth.code] at h; have := UOp.code_lt y; omega
    | init => simp only [Meth.code] at h; omega
    | other y => simp only [Meth.code] at h; have e : x = y := (by omega); rw [e]

instance : DecidableEq Meth := fun c d =>
  if h : c.code = d.code then isTrue (Meth.code_inj h) else isFalse (fun e => h (by rw [e]))

/-- which object a term refers to -/
inductive Arg where
  | self | other | selfVal | otherVal
  deriving DecidableEq, Repr, Inhabited

/-- second argument of `then__`: a class, or `C if isinstance(<arg>, T) else D` -/
inductive ClsSel where
  | const (c : Cls)
  | ifInst (a : Arg) (test : Cls) (t e : Cls)
  deriving DecidableEq, Repr, Inhabited

/-- bodies of dunder methods -/
inductive Tm where
  | arg (a : Arg)
  | prim (m : Meth)                                -- body of a builtin `int` method (applied to self, other)
  | baseCall (cls : Cls) (m : Meth) (x y : Tm)     -- `int.__add__(self, other)`
  | baseCall1 (cls : Cls) (m : Meth) (x : Tm)      -- `int.__neg__(self)`
  | superCall (m : Meth) (y : Tm)                  -- `super().__add__(other)`
  | binop (op : Op) (x y : Tm)                     -- `x + y`
  | unop (op : UOp) (x : Tm)                       -- `-x`
  | then_ (t : Tm) (c : ClsSel)                    -- `then__(t, C)`
  | construct (c : Cls) (t : Tm)                   -- `C(t)`
  | ifMut (t e : Tm)                               -- `if isinstance(other, MutType): return t  else: return e`
  | opaque                                         -- body not recognised by the extractor
  deriving DecidableEq, Repr, Inhabited

/-- recognised shapes of `__init__` -/
inductive InitKind where
  | checkNonneg                 -- `if int(i) < 0: raise ValueError(...)`
  | storeWrapped (c : Cls)      -- `self.value = C(i)`
  | checkStore                  -- sign test, then `self.value = n`
  | store                       -- `self.value = b`
  | opaque
  deriving DecidableEq, Repr, Inhabited

structure ClassDef where
  cls : Cls
  bases : List Cls
  init : Option InitKind
  methods : List (Meth × Tm)
  deriving DecidableEq, Repr, Inhabited

abbrev Table := List ClassDef

/-- Python's builtin classes of the family (not in the erg sources; part of the trusted spec of CPython):
    every arithmetic/comparison dunder of `int` is the primitive; `bool` adds nothing that matters here. -/
def builtins : Table :=
  [ { cls := .object, bases := [], init := none, methods := [] },
    { cls := .pyint, bases := [.object], init := none,
      methods := (Op.all.map fun o => (Meth.dunder o, Tm.prim (.dunder o)))
        ++ ([Op.add, .sub, .mul, .floordiv, .mod, .pow].map fun o => (Meth.rdunder o, Tm.prim (.rdunder o)))
        ++ [(.udunder .neg, .prim (.udunder .neg)), (.udunder .pos, .prim (.udunder .pos))] },
    { cls := .pybool, bases := [.pyint], init := none, methods := [] } ]

def findClass (tbl : Table) (c : Cls) : Option ClassDef :=
  match tbl.find? (fun d => d.cls = c) with
  | some d => some d
  | none => builtins.find? (fun d => d.cls = c)

/-- MRO for single inheritance (the extractor refuses multiple bases); fuelled walk up the first base -/
def mro (tbl : Table) : Nat → Cls → List Cls
  | 0, c => [c]
  | n + 1, c =>
    match findClass tbl c with
    | some d => match d.bases with
      | b :: _ => c :: mro tbl n b
      | [] => [c]
    | none => [c]

def mroOf (tbl : Table) (c : Cls) : List Cls := mro tbl 8 c

def isSub (tbl : Table) (c d : Cls) : Bool := (mroOf tbl c).contains d

def isMut (tbl : Table) (c : Cls) : Bool := isSub tbl c .MutType

def isIntLike (tbl : Table) (c : Cls) : Bool := isSub tbl c .pyint

/-- first definition of `m` along a list of classes: (defining class, body) -/
def lookupIn (tbl : Table) (m : Meth) : List Cls → Option (Cls × Tm)
  | [] => none
  | c :: cs =>
    match findClass tbl c with
    | some d => match d.methods.find? (fun p => p.1 = m) with
      | some p => some (c, p.2)
      | none => lookupIn tbl m cs
    | none => lookupIn tbl m cs

def lookup (tbl : Table) (c : Cls) (m : Meth) : Option (Cls × Tm) := lookupIn tbl m (mroOf tbl c)

def lookupInit (tbl : Table) : List Cls → Option InitKind
  | [] => none
  | c :: cs =>
    match findClass tbl c with
    | some d => match d.init with
      | some k => some k
      | none => lookupInit tbl cs
    | none => lookupInit tbl cs

/-- classes after `c` in the MRO of `start` (for `super()` inside a method defined in `c`) -/
def mroAfter (tbl : Table) (start c : Cls) : List Cls :=
  ((mroOf tbl start).dropWhile (fun x => x ≠ c)).drop 1

/-! ### integer expressions and plans -/

inductive IExp where
  | a | b
  | lit (k : Int)
  | bin (op : Op) (x y : IExp)      -- Python's int operation (comparisons give 0/1)
  | neg (x : IExp)
  deriving DecidableEq, Repr, Inhabited

/-- Python's integer arithmetic (`//` floors, `%` takes the sign of the divisor, `**` for a non-negative exponent) -/
def pyBin : Op → Int → Int → Int
  | .add, x, y => x + y
  | .sub, x, y => x - y
  | .mul, x, y => x * y
  | .floordiv, x, y => Int.fdiv x y
  | .mod, x, y => Int.fmod x y
  | .pow, x, y => x ^ y.toNat
  | .eq, x, y => if x = y then 1 else 0
  | .ne, x, y => if x = y then 0 else 1
  | .lt, x, y => if x < y then 1 else 0
  | .le, x, y => if x ≤ y then 1 else 0
  | .gt, x, y => if y < x then 1 else 0
  | .ge, x, y => if y ≤ x then 1 else 0

def IExp.eval (a b : Int) : IExp → Int
  | .a => a
  | .b => b
  | .lit k => k
  | .bin op x y => pyBin op (x.eval a b) (y.eval a b)
  | .neg x => - (x.eval a b)

inductive Guard where
  | nonneg (e : IExp)        -- `Nat.__init__` / `NatMut.__init__`: ValueError when e < 0
  | nonzero (e : IExp)       -- ZeroDivisionError when e = 0
  | expNonneg (e : IExp)     -- `int.__pow__` leaves the family (float) when the exponent is negative
  deriving DecidableEq, Repr, Inhabited

/-- abstract value: class, class of `.value` (= class for immutable objects), integer expression -/
structure AVal where
  cls : Cls
  inner : Cls
  e : IExp
  deriving DecidableEq, Repr, Inhabited

inductive ARes where
  | val (v : AVal)
  | notImpl
  | typeErr
  | oom (why : String)        -- outside the model (opaque body, non-family class, fuel)
  deriving DecidableEq, Repr, Inhabited

structure Plan where
  guards : List Guard
  res : ARes
  deriving DecidableEq, Repr, Inhabited

structure Env where
  self : AVal
  other : AVal
  start : Cls        -- class of self (where `super()` starts)
  defIn : Cls        -- class the running method is defined in
  deriving Repr, Inhabited

/-- `x.value` -/
def valueOf (tbl : Table) (x : AVal) : Option AVal :=
  if isMut tbl x.cls then some { cls := x.inner, inner := x.inner, e := x.e } else none

def argOf (tbl : Table) (env : Env) : Arg → Option AVal
  | .self => some env.self
  | .other => some env.other
  | .selfVal => valueOf tbl env.self
  | .otherVal => valueOf tbl env.other

def selCls (tbl : Table) (env : Env) : ClsSel → Option Cls
  | .const c => some c
  | .ifInst a test t e =>
    match argOf tbl env a with
    | some v => some (if isSub tbl v.cls test then t else e)
    | none => none

/-- the primitive `int` methods: both operands must be `int` instances, otherwise `NotImplemented` -/
def primCall (tbl : Table) (m : Meth) (x y : AVal) (gs : List Guard) : ARes × List Guard :=
  if ¬ isIntLike tbl x.cls then (.oom "int method on a non-int receiver", gs)
  else
    let bothInt := isIntLike tbl y.cls
    match m with
    | .dunder op =>
      if ¬ bothInt then (.notImpl, gs)
      else
        let cls := if op.isCmp then Cls.pybool else Cls.pyint
        let gs := match op with
          | .floordiv | .mod => Guard.nonzero y.e :: gs
          | .pow => Guard.expNonneg y.e :: gs
          | _ => gs
        (.val { cls := cls, inner := cls, e := .bin op x.e y.e }, gs)
    | .rdunder op =>
      if ¬ bothInt then (.notImpl, gs)
      else
        let gs := match op with
          | .floordiv | .mod => Guard.nonzero x.e :: gs
          | .pow => Guard.expNonneg x.e :: gs
          | _ => gs
        (.val { cls := .pyint, inner := .pyint, e := .bin op y.e x.e }, gs)
    | .udunder .neg => (.val { cls := .pyint, inner := .pyint, e := .neg x.e }, gs)
    | .udunder .pos => (.val { cls := .pyint, inner := .pyint, e := x.e }, gs)
    | _ => (.oom "unknown primitive", gs)

/-- `C(v)`: `int.__new__(C, v)` for the immutable wrappers, plain object + `__init__` for the mutable ones; the
    `__init__` found along the MRO decides the guard / the stored value -/
def constructA (tbl : Table) (c : Cls) (v : AVal) (gs : List Guard) : ARes × List Guard :=
  let vIsMut := isMut tbl v.cls
  let vIsInt := isIntLike tbl v.cls
  if ¬ (vIsMut ∨ vIsInt) then (.oom "constructor argument outside the family", gs)
  else
    let init := lookupInit tbl (mroOf tbl c)
    if isIntLike tbl c then
      -- int(v) goes through v.__int__ for mutable arguments: the value is the same integer
      match init with
      | none => (.val { cls := c, inner := c, e := v.e }, gs)
      | some .checkNonneg => (.val { cls := c, inner := c, e := v.e }, Guard.nonneg v.e :: gs)
      | some _ => (.oom "unexpected __init__ on an int subclass", gs)
    else if isMut tbl c then
      match init with
      | some (.storeWrapped w) =>
        -- self.value = W(v)
        let winit := lookupInit tbl (mroOf tbl w)
        if ¬ isIntLike tbl w then (.oom "stored wrapper outside the family", gs)
        else match winit with
          | none => (.val { cls := c, inner := w, e := v.e }, gs)
          | some .checkNonneg => (.val { cls := c, inner := w, e := v.e }, Guard.nonneg v.e :: gs)
          | some _ => (.oom "unexpected __init__ on the stored wrapper", gs)
      | some .checkStore =>
        if vIsMut then (.oom "mutable object stored in a mutable object", gs)
        else (.val { cls := c, inner := v.cls, e := v.e }, Guard.nonneg v.e :: gs)
      | some .store =>
        if vIsMut then (.oom "mutable object stored in a mutable object", gs)
        else (.val { cls := c, inner := v.cls, e := v.e }, gs)
      | _ => (.oom "unrecognised __init__", gs)
    else (.oom "constructor of a class outside the family", gs)

def fallback (op : Op) (gs : List Guard) : ARes × List Guard :=
  -- both sides answered NotImplemented: `==`/`!=` compare identities (distinct objects), the rest is a TypeError
  match op with
  | .eq => (.val { cls := .pybool, inner := .pybool, e := .lit 0 }, gs)
  | .ne => (.val { cls := .pybool, inner := .pybool, e := .lit 1 }, gs)
  | _ => (.typeErr, gs)

/-- reflected method name: `__radd__` for arithmetic, the mirrored comparison for comparisons -/
def reflected : Op → Meth
  | .eq => .dunder .eq | .ne => .dunder .ne | .lt => .dunder .gt | .le => .dunder .ge | .gt => .dunder .lt | .ge => .dunder .le
  | op => .rdunder op

mutual
  /-- evaluate a method body -/
  def evalTm (tbl : Table) : Nat → Tm → Env → List Guard → ARes × List Guard
    | 0, _, _, gs => (.oom "fuel", gs)
    | n + 1, tm, env, gs =>
      match tm with
      | .arg a => match argOf tbl env a with
        | some v => (.val v, gs)
        | none => (.oom "`.value` of an immutable object", gs)
      | .prim m => primCall tbl m env.self env.other gs
      | .baseCall c m x y =>
        match evalTm tbl n x env gs with
        | (.val xv, gs) => match evalTm tbl n y env gs with
          | (.val yv, gs) =>
            match lookup tbl c m with
            | some (d, body) => evalTm tbl n body { self := xv, other := yv, start := c, defIn := d } gs
            | none => (.oom "base method missing", gs)
          | r => r
        | r => r
      | .baseCall1 c m x =>
        match evalTm tbl n x env gs with
        | (.val xv, gs) =>
          match lookup tbl c m with
          | some (d, body) => evalTm tbl n body { self := xv, other := xv, start := c, defIn := d } gs
          | none => (.oom "base method missing", gs)
        | r => r
      | .superCall m y =>
        match evalTm tbl n y env gs with
        | (.val yv, gs) =>
          match lookupIn tbl m (mroAfter tbl env.start env.defIn) with
          | some (d, body) => evalTm tbl n body { self := env.self, other := yv, start := env.start, defIn := d } gs
          | none => (.oom "super method missing", gs)
        | r => r
      | .binop op x y =>
        match evalTm tbl n x env gs with
        | (.val xv, gs) => match evalTm tbl n y env gs with
          | (.val yv, gs) => binopA tbl n op xv yv gs
          | r => r
        | r => r
      | .unop op x =>
        match evalTm tbl n x env gs with
        | (.val xv, gs) => unopA tbl n op xv gs
        | r => r
      | .then_ t sel =>
        match evalTm tbl n t env gs with
        | (.val v, gs) => match selCls tbl env sel with
          | some c => constructA tbl c v gs
          | none => (.oom "`.value` of an immutable object", gs)
        | r => r          -- NotImplemented (and errors) pass through `then__`
      | .construct c t =>
        match evalTm tbl n t env gs with
        | (.val v, gs) => constructA tbl c v gs
        | (.notImpl, gs) => (.oom "constructor applied to NotImplemented", gs)
        | r => r
      | .ifMut t e => if isMut tbl env.other.cls then evalTm tbl n t env gs else evalTm tbl n e env gs
      | .opaque => (.oom "opaque method body", gs)

  /-- call `m` looked up on the class of `x` with argument `y`; `none` when the class has no such method -/
  def callOn (tbl : Table) : Nat → Meth → AVal → AVal → List Guard → Option (ARes × List Guard)
    | 0, _, _, _, gs => some (.oom "fuel", gs)
    | n + 1, m, x, y, gs =>
      match lookup tbl x.cls m with
      | some (d, body) => some (evalTm tbl n body { self := x, other := y, start := x.cls, defIn := d } gs)
      | none => none

  /-- `x op y` -/
  def binopA (tbl : Table) : Nat → Op → AVal → AVal → List Guard → ARes × List Guard
    | 0, _, _, _, gs => (.oom "fuel", gs)
    | n + 1, op, x, y, gs =>
      let rm := reflected op
      let properSub := x.cls ≠ y.cls ∧ isSub tbl y.cls x.cls
      -- does the right operand's class provide a different reflected method?
      let rDiffers :=
        if op.isCmp then true
        else match lookup tbl y.cls rm, lookup tbl x.cls rm with
          | some (d1, _), some (d2, _) => d1 ≠ d2
          | some _, none => true
          | none, _ => false
      let first : Option (ARes × List Guard) :=
        if properSub ∧ rDiffers then callOn tbl n rm y x gs else none
      match first with
      | some (.notImpl, gs1) =>
        -- reflected method already tried; only the left method remains
        match callOn tbl n (.dunder op) x y gs1 with
        | some (.notImpl, gs2) => fallback op gs2
        | some r => r
        | none => fallback op gs1
      | some r => r
      | none =>
        match callOn tbl n (.dunder op) x y gs with
        | some (.notImpl, gs1) =>
          if x.cls = y.cls then fallback op gs1
          else match callOn tbl n rm y x gs1 with
            | some (.notImpl, gs2) => fallback op gs2
            | some r => r
            | none => fallback op gs1
        | some r => r
        | none =>
          if x.cls = y.cls then fallback op gs
          else match callOn tbl n rm y x gs with
            | some (.notImpl, gs2) => fallback op gs2
            | some r => r
            | none => fallback op gs

  def unopA (tbl : Table) : Nat → UOp → AVal → List Guard → ARes × List Guard
    | 0, _, _, gs => (.oom "fuel", gs)
    | n + 1, op, x, gs =>
      match lookup tbl x.cls (.udunder op) with
      | some (d, body) => evalTm tbl n body { self := x, other := x, start := x.cls, defIn := d } gs
      | none => (.typeErr, gs)
end

def fuel : Nat := 12

/-- an operand shape: class and class of `.value` (= class for immutable objects) -/
structure Shape where
  cls : Cls
  inner : Cls
  deriving DecidableEq, Repr, Inhabited

def plan (tbl : Table) (op : Op) (sa sb : Shape) : Plan :=
  let (r, gs) := binopA tbl fuel op { cls := sa.cls, inner := sa.inner, e := .a } { cls := sb.cls, inner := sb.inner, e := .b } []
  { guards := gs.reverse, res := r }

def uplan (tbl : Table) (op : UOp) (sa : Shape) : Plan :=
  let (r, gs) := unopA tbl fuel op { cls := sa.cls, inner := sa.inner, e := .a } []
  { guards := gs.reverse, res := r }

/-! ### running a plan on integers -/

inductive Outcome where
  | ok (cls inner : Cls) (v : Int)
  | valueError          -- "Nat can't be negative"
  | zeroDiv
  | typeError
  | notModelled (why : String)
  deriving DecidableEq, Repr, Inhabited

def finish (a b : Int) : ARes → Outcome
  | .val v => .ok v.cls v.inner (v.e.eval a b)
  | .notImpl => .typeError
  | .typeErr => .typeError
  | .oom why => .notModelled why

def runGuards (a b : Int) : List Guard → ARes → Outcome
  | [], r => finish a b r
  | .nonneg e :: gs, r => if e.eval a b < 0 then .valueError else runGuards a b gs r
  | .nonzero e :: gs, r => if e.eval a b = 0 then .zeroDiv else runGuards a b gs r
  | .expNonneg e :: gs, r => if e.eval a b < 0 then .notModelled "float result of int.__pow__" else runGuards a b gs r

def run (p : Plan) (a b : Int) : Outcome := runGuards a b p.guards p.res

structure Val where
  shape : Shape
  v : Int
  deriving DecidableEq, Repr, Inhabited

/-- the model of `x op y` on objects of the family -/
def binop (tbl : Table) (op : Op) (x y : Val) : Outcome := run (plan tbl op x.shape y.shape) x.v y.v

def unop (tbl : Table) (op : UOp) (x : Val) : Outcome := run (uplan tbl op x.shape) x.v x.v

/-! ### Erg's declared classes and the conformance order -/

/-- the Erg class an operand shape is typed with (plain `int`/`bool` are Erg's `Int`/`Bool`) -/
inductive ECls where
  | Nat | Int | Bool | NatM | IntM | BoolM | Float | Str | FloatM | StrM | other (id : Nat)
  deriving DecidableEq, Repr, Inhabited

def ergClass : Cls → Option ECls
  | .pyint => some .Int | .pybool => some .Bool | .Int => some .Int | .Nat => some .Nat | .Bool => some .Bool
  | .IntMut => some .IntM | .NatMut => some .NatM | .BoolMut => some .BoolM
  | _ => none

/-- `C ≤ D`: an instance of runtime class `C` is an instance of the declared Erg class `D`
    (Erg identifies `Int`/`Bool` with Python's `int`/`bool`, `Bool <: Nat <: Int`, `T! <: T`) -/
def conforms : Cls → ECls → Bool
  | c, .Int => c = .pyint ∨ c = .pybool ∨ c = .Int ∨ c = .Nat ∨ c = .Bool ∨ c = .IntMut ∨ c = .NatMut ∨ c = .BoolMut
  | c, .Nat => c = .pybool ∨ c = .Nat ∨ c = .Bool ∨ c = .NatMut ∨ c = .BoolMut
  | c, .Bool => c = .pybool ∨ c = .Bool ∨ c = .BoolMut
  | c, .IntM => c = .IntMut ∨ c = .NatMut ∨ c = .BoolMut
  | c, .NatM => c = .NatMut ∨ c = .BoolMut
  | c, .BoolM => c = .BoolMut
  | _, _ => false

/-- value sets of the declared classes on integers -/
def inDom : ECls → Int → Bool
  | .Nat, v | .NatM, v => 0 ≤ v
  | .Bool, v | .BoolM, v => v = 0 ∨ v = 1
  | .Int, _ | .IntM, _ => true
  | _, _ => false

/-- value set of a runtime class (what its constructor admits / what Python's `bool` holds) -/
def clsDom : Cls → Int → Bool
  | .Nat, v | .NatMut, v => 0 ≤ v
  | .Bool, v | .BoolMut, v | .pybool, v => v = 0 ∨ v = 1
  | _, _ => true

/-- the operand shapes the oracle constructs and the theorems quantify over -/
def shapes : List Shape :=
  [ ⟨.pyint, .pyint⟩, ⟨.pybool, .pybool⟩, ⟨.Int, .Int⟩, ⟨.Nat, .Nat⟩, ⟨.Bool, .Bool⟩,
    ⟨.IntMut, .Int⟩, ⟨.NatMut, .Nat⟩, ⟨.NatMut, .Bool⟩, ⟨.NatMut, .pyint⟩, ⟨.NatMut, .Int⟩, ⟨.BoolMut, .Bool⟩, ⟨.BoolMut, .pybool⟩ ]

/-- operand value admissible for a shape (outer and stored class) -/
def shapeDom (s : Shape) (v : Int) : Bool := clsDom s.cls v && clsDom s.inner v

end ErgVerif.C26

namespace ErgVerif.C26

/-! ### declared result classes (rows regenerated from the checker into `Gen/C26Declared.lean`) -/

abbrev DeclRow := Op × ECls × ECls × ECls
abbrev DeclURow := UOp × ECls × ECls

def declaredIn (rows : List DeclRow) (op : Op) (a b : ECls) : Option ECls :=
  match rows.find? (fun r => r.1 = op ∧ r.2.1 = a ∧ r.2.2.1 = b) with
  | some r => some r.2.2.2
  | none => none

def declaredUIn (rows : List DeclURow) (op : UOp) (a : ECls) : Option ECls :=
  match rows.find? (fun r => r.1 = op ∧ r.2.1 = a) with
  | some r => some r.2.2
  | none => none

/-- declared class of `x op y` for operand shapes (none: not declared, or operand outside the family) -/
def isPlain (c : Cls) : Bool := c = .pyint ∨ c = .pybool

def declaredFor (rows : List DeclRow) (op : Op) (sa sb : Shape) : Option ECls :=
  if isPlain sa.cls ∧ isPlain sb.cls then none      -- no erg class involved: nothing is promised about `1 + 2`
  else match ergClass sa.cls, ergClass sb.cls with
    | some a, some b => declaredIn rows op a b
    | _, _ => none

/-! ### the specification evaluated on an outcome (used by the driver on the implementation's answer, and by the theorems
    on the model's) -/

inductive Verdict where
  | ok
  | value            -- result value differs from Python's integer arithmetic
  | natNegative      -- an object of a Nat-like class holds a negative value (or a Bool-like one holds neither 0 nor 1)
  | spuriousError    -- ValueError/TypeError although the operation is declared and the operands are admissible
  | zeroDiv          -- ZeroDivisionError without a zero divisor
  | declDomain       -- result value outside the value set of the declared class
  | cls              -- result class is not the declared class or a subclass
  deriving DecidableEq, Repr, Inhabited

def Verdict.name : Verdict → String
  | .ok => "ok" | .value => "viol:value" | .natNegative => "viol:nat-negative" | .spuriousError => "viol:spurious-error"
  | .zeroDiv => "viol:zero-division" | .declDomain => "viol:declared-domain" | .cls => "viol:class"

/-- the checks in a fixed order; `d` = declared class (if any) -/
def judge (op : Op) (a b : Int) (d : Option ECls) : Outcome → Verdict
  | .ok c i v =>
    if v ≠ pyBin op a b then .value
    else if ¬ (clsDom c v ∧ clsDom i v) then .natNegative
    else match d with
      | none => .ok
      | some d => if ¬ inDom d v then .declDomain else if ¬ conforms c d then .cls else .ok
  | .valueError => if d.isSome then .spuriousError else .ok
  | .typeError => if d.isSome then .spuriousError else .ok
  | .zeroDiv => if (op = .floordiv ∨ op = .mod) ∧ b = 0 then .ok else .zeroDiv
  | .notModelled _ => .ok

def judgeU (op : UOp) (a : Int) (d : Option ECls) : Outcome → Verdict
  | .ok c i v =>
    if v ≠ (match op with | .neg => -a | .pos => a) then .value
    else if ¬ (clsDom c v ∧ clsDom i v) then .natNegative
    else match d with
      | none => .ok
      | some d => if ¬ inDom d v then .declDomain else if ¬ conforms c d then .cls else .ok
  | .valueError => if d.isSome then .spuriousError else .ok
  | .typeError => if d.isSome then .spuriousError else .ok
  | .zeroDiv => .zeroDiv
  | .notModelled _ => .ok

/-! ### classes of known findings (ids of known_findings.json); static in the operand classes -/

inductive Known where
  | immOpMut            -- C26-imm-op-mut-typeerror
  | natMutRewrap        -- C26-natmut-rewrap
  | natClassNotKept     -- C26-nat-class-not-kept
  | intPowDeclaredNat   -- C26-int-pow-declared-nat
  deriving DecidableEq, Repr, Inhabited

def Known.id : Known → String
  | .immOpMut => "C26-imm-op-mut-typeerror" | .natMutRewrap => "C26-natmut-rewrap"
  | .natClassNotKept => "C26-nat-class-not-kept" | .intPowDeclaredNat => "C26-int-pow-declared-nat"

def isMutCls (c : Cls) : Bool := c = .IntMut ∨ c = .NatMut ∨ c = .BoolMut
def isNatMutLike (c : Cls) : Bool := c = .NatMut ∨ c = .BoolMut

/-- operand known to be non-negative from its class (or the class of its `.value`) -/
def shapeNonneg (s : Shape) : Bool :=
  s.cls = .Nat ∨ s.cls = .NatMut ∨ s.cls = .Bool ∨ s.cls = .BoolMut ∨ s.cls = .pybool
    ∨ s.inner = .Nat ∨ s.inner = .NatMut ∨ s.inner = .Bool ∨ s.inner = .BoolMut ∨ s.inner = .pybool

/-- the class of operand triples each recorded finding covers (`d` = declared result class) -/
def knownOf (op : Op) (sa sb : Shape) (d : ECls) : Option Known :=
  if ¬ isMutCls sa.cls ∧ isMutCls sb.cls ∧ (op = .sub ∨ op = .floordiv ∨ ((op = .add ∨ op = .mul) ∧ ¬ isNatMutLike sb.cls)) then
    some .immOpMut        -- the mutable classes define no reflected `__rsub__/__rfloordiv__`, IntMut no `__radd__/__rmul__`
  else if (op = .add ∨ op = .mul) ∧ ((isNatMutLike sa.cls ∧ ¬ shapeNonneg sb) ∨ (isNatMutLike sb.cls ∧ ¬ shapeNonneg sa)) then
    some .natMutRewrap    -- `NatMut.__add__/__mul__/__radd__/__rmul__` re-wrap every result in NatMut/Nat
  else if op = .pow ∧ d = .Nat ∧ ¬ (shapeNonneg sa ∧ shapeNonneg sb) then
    some .intPowDeclaredNat
  else if d = .Nat ∧ (op = .floordiv ∨ op = .mod ∨ op = .pow ∨ isPlain sa.cls ∨ isPlain sb.cls) then
    some .natClassNotKept -- only `+`/`*` keep Nat; `//`, `%`, `**` and reflected builtin methods return Int / int
  else none

/-- the verdict a finding's class is allowed to explain -/
def Known.explains : Known → Verdict → Bool
  | .immOpMut, .spuriousError => true
  | .natMutRewrap, .spuriousError => true
  | .natClassNotKept, .cls => true
  | .intPowDeclaredNat, .cls => true
  | .intPowDeclaredNat, .declDomain => true
  | _, _ => false

end ErgVerif.C26
