/- GENERATED on every run by checks/c26.py (py/c26_extract_runtime.py) from crates/erg_compiler/lib/core/_erg_*.py of the
   working tree. Never edit by hand.
   interned class ids: 0=Float, 1=float, 2=FloatMut, 3=str, 4=Str, 5=StrMut, 6=list, 7=List, 8=UnsizedList
   interned method ids: 0=__getattribute__, 1=__getattr__, 2=__div__, 3=__int__, 4=__float__, 5=__repr__, 6=__hash__, 7=__truediv__, 8=__str__, 9=__bool__, 10=__abs__, 11=__deref__, 12=__instancecheck__, 13=__getitem__ -/
import ErgVerif.C26.Model
namespace ErgVerif.Gen.C26
open ErgVerif.C26

/-- `then__` of _erg_control.py has the shape `if x is None or x is NotImplemented: return x else: return f(x)` -/
def thenOk : Bool := true

/-- the int/bool family (object of the theorems) -/
def runtime : Table := [
  { cls := .MutType, bases := [.object], init := none,
    methods := [

    ] },
  { cls := .Int, bases := [.pyint], init := none,
    methods := [
      ((.dunder .add), (.then_ (.baseCall .pyint (.dunder .add) (.arg .self) (.arg .other)) (.const .Int))),
      ((.dunder .floordiv), (.then_ (.baseCall .pyint (.dunder .floordiv) (.arg .self) (.arg .other)) (.const .Int))),
      ((.dunder .mul), (.then_ (.baseCall .pyint (.dunder .mul) (.arg .self) (.arg .other)) (.const .Int))),
      ((.dunder .pow), (.then_ (.baseCall .pyint (.dunder .pow) (.arg .self) (.arg .other)) (.const .Int))),
      ((.dunder .sub), (.then_ (.baseCall .pyint (.dunder .sub) (.arg .self) (.arg .other)) (.const .Int))),
      ((.rdunder .pow), (.then_ (.baseCall .pyint (.dunder .pow) (.arg .other) (.arg .self)) (.const .Int))),
      ((.udunder .neg), (.then_ (.baseCall1 .pyint (.udunder .neg) (.arg .self)) (.const .Int))),
      ((.udunder .pos), (.arg .self))
    ] },
  { cls := .IntMut, bases := [.MutType], init := (some (InitKind.storeWrapped .Int)),
    methods := [
      ((.dunder .add), (.ifMut (.construct .IntMut (.binop .add (.arg .selfVal) (.arg .otherVal))) (.construct .IntMut (.binop .add (.arg .selfVal) (.arg .other))))),
      ((.dunder .eq), (.ifMut (.binop .eq (.arg .selfVal) (.arg .otherVal)) (.binop .eq (.arg .selfVal) (.arg .other)))),
      ((.dunder .floordiv), (.ifMut (.construct .IntMut (.binop .floordiv (.arg .selfVal) (.arg .otherVal))) (.construct .IntMut (.binop .floordiv (.arg .selfVal) (.arg .other))))),
      ((.dunder .ge), (.ifMut (.binop .ge (.arg .selfVal) (.arg .otherVal)) (.binop .ge (.arg .selfVal) (.arg .other)))),
      ((.dunder .gt), (.ifMut (.binop .gt (.arg .selfVal) (.arg .otherVal)) (.binop .gt (.arg .selfVal) (.arg .other)))),
      ((.dunder .le), (.ifMut (.binop .le (.arg .selfVal) (.arg .otherVal)) (.binop .le (.arg .selfVal) (.arg .other)))),
      ((.dunder .lt), (.ifMut (.binop .lt (.arg .selfVal) (.arg .otherVal)) (.binop .lt (.arg .selfVal) (.arg .other)))),
      ((.dunder .mul), (.ifMut (.construct .IntMut (.binop .mul (.arg .selfVal) (.arg .otherVal))) (.construct .IntMut (.binop .mul (.arg .selfVal) (.arg .other))))),
      ((.dunder .ne), (.ifMut (.binop .ne (.arg .selfVal) (.arg .otherVal)) (.binop .ne (.arg .selfVal) (.arg .other)))),
      ((.dunder .pow), (.ifMut (.construct .IntMut (.binop .pow (.arg .selfVal) (.arg .otherVal))) (.construct .IntMut (.binop .pow (.arg .selfVal) (.arg .other))))),
      ((.dunder .sub), (.ifMut (.construct .IntMut (.binop .sub (.arg .selfVal) (.arg .otherVal))) (.construct .IntMut (.binop .sub (.arg .selfVal) (.arg .other))))),
      ((.udunder .neg), (.construct .IntMut (.unop .neg (.arg .selfVal)))),
      ((.udunder .pos), (.arg .self))
    ] },
  { cls := .Nat, bases := [.Int], init := (some InitKind.checkNonneg),
    methods := [
      ((.dunder .add), (.then_ (.superCall (.dunder .add) (.arg .other)) (.ifInst .other .Nat .Nat .Int))),
      ((.dunder .mul), (.then_ (.superCall (.dunder .mul) (.arg .other)) (.ifInst .other .Nat .Nat .Int))),
      ((.udunder .pos), (.arg .self))
    ] },
  { cls := .NatMut, bases := [.IntMut], init := (some InitKind.checkStore),
    methods := [
      ((.dunder .add), (.ifMut (.construct .NatMut (.binop .add (.arg .selfVal) (.arg .otherVal))) (.construct .NatMut (.binop .add (.arg .selfVal) (.arg .other))))),
      ((.dunder .eq), (.ifMut (.binop .eq (.arg .selfVal) (.arg .otherVal)) (.binop .eq (.arg .selfVal) (.arg .other)))),
      ((.dunder .ge), (.ifMut (.binop .ge (.arg .selfVal) (.arg .otherVal)) (.binop .ge (.arg .selfVal) (.arg .other)))),
      ((.dunder .gt), (.ifMut (.binop .gt (.arg .selfVal) (.arg .otherVal)) (.binop .gt (.arg .selfVal) (.arg .other)))),
      ((.dunder .le), (.ifMut (.binop .le (.arg .selfVal) (.arg .otherVal)) (.binop .le (.arg .selfVal) (.arg .other)))),
      ((.dunder .lt), (.ifMut (.binop .lt (.arg .selfVal) (.arg .otherVal)) (.binop .lt (.arg .selfVal) (.arg .other)))),
      ((.dunder .mul), (.ifMut (.construct .NatMut (.binop .mul (.arg .selfVal) (.arg .otherVal))) (.construct .NatMut (.binop .mul (.arg .selfVal) (.arg .other))))),
      ((.dunder .ne), (.ifMut (.binop .ne (.arg .selfVal) (.arg .otherVal)) (.binop .ne (.arg .selfVal) (.arg .other)))),
      ((.dunder .pow), (.ifMut (.construct .NatMut (.binop .pow (.arg .selfVal) (.arg .otherVal))) (.construct .NatMut (.binop .pow (.arg .selfVal) (.arg .other))))),
      ((.rdunder .add), (.ifMut (.construct .Nat (.binop .add (.arg .otherVal) (.arg .selfVal))) (.construct .Nat (.binop .add (.arg .other) (.arg .selfVal))))),
      ((.rdunder .mul), (.ifMut (.construct .Nat (.binop .mul (.arg .otherVal) (.arg .selfVal))) (.construct .Nat (.binop .mul (.arg .other) (.arg .selfVal))))),
      ((.udunder .pos), (.arg .self))
    ] },
  { cls := .Bool, bases := [.Nat], init := none,
    methods := [

    ] },
  { cls := .BoolMut, bases := [.NatMut], init := (some InitKind.store),
    methods := [
      ((.dunder .eq), (.ifMut (.binop .eq (.arg .selfVal) (.arg .otherVal)) (.binop .eq (.arg .selfVal) (.arg .other)))),
      ((.dunder .ne), (.ifMut (.binop .ne (.arg .selfVal) (.arg .otherVal)) (.binop .ne (.arg .selfVal) (.arg .other))))
    ] }
]

/-- Float/Str/List classes: emitted for the record (pattern-checked by the check, executed by the oracle) -/
def rest : Table := [
  { cls := (.other 0), bases := [(.other 1)], init := none,
    methods := [
      ((.dunder .add), (.then_ (.baseCall (.other 1) (.dunder .add) (.arg .self) (.arg .other)) (.const (.other 0)))),
      ((.dunder .floordiv), (.then_ (.baseCall (.other 1) (.dunder .floordiv) (.arg .self) (.arg .other)) (.const (.other 0)))),
      ((.dunder .mul), (.then_ (.baseCall (.other 1) (.dunder .mul) (.arg .self) (.arg .other)) (.const (.other 0)))),
      ((.dunder .pow), (.then_ (.baseCall (.other 1) (.dunder .pow) (.arg .self) (.arg .other)) (.const (.other 0)))),
      ((.dunder .sub), (.then_ (.baseCall (.other 1) (.dunder .sub) (.arg .self) (.arg .other)) (.const (.other 0)))),
      ((.other 10), (.construct (.other 0) (.baseCall1 (.other 1) (.other 10) (.arg .self)))),
      ((.other 2), (.then_ (.baseCall (.other 1) (.other 2) (.arg .self) (.arg .other)) (.const (.other 0)))),
      ((.other 7), (.then_ (.baseCall (.other 1) (.other 7) (.arg .self) (.arg .other)) (.const (.other 0)))),
      ((.rdunder .pow), .opaque),
      ((.udunder .neg), (.then_ (.baseCall1 (.other 1) (.udunder .neg) (.arg .self)) (.const (.other 0)))),
      ((.udunder .pos), (.arg .self))
    ] },
  { cls := (.other 2), bases := [.MutType], init := (some (InitKind.storeWrapped (.other 0))),
    methods := [
      ((.dunder .add), (.ifMut (.construct (.other 2) (.binop .add (.arg .selfVal) (.arg .otherVal))) (.construct (.other 2) (.binop .add (.arg .selfVal) (.arg .other))))),
      ((.dunder .eq), (.ifMut (.binop .eq (.arg .selfVal) (.arg .otherVal)) (.binop .eq (.arg .selfVal) (.arg .other)))),
      ((.dunder .floordiv), (.ifMut (.construct (.other 2) (.binop .floordiv (.arg .selfVal) (.arg .otherVal))) (.construct (.other 2) (.binop .floordiv (.arg .selfVal) (.arg .other))))),
      ((.dunder .ge), (.ifMut (.binop .ge (.arg .selfVal) (.arg .otherVal)) (.binop .ge (.arg .selfVal) (.arg .other)))),
      ((.dunder .gt), (.ifMut (.binop .gt (.arg .selfVal) (.arg .otherVal)) (.binop .gt (.arg .selfVal) (.arg .other)))),
      ((.dunder .le), (.ifMut (.binop .le (.arg .selfVal) (.arg .otherVal)) (.binop .le (.arg .selfVal) (.arg .other)))),
      ((.dunder .lt), (.ifMut (.binop .lt (.arg .selfVal) (.arg .otherVal)) (.binop .lt (.arg .selfVal) (.arg .other)))),
      ((.dunder .mul), (.ifMut (.construct (.other 2) (.binop .mul (.arg .selfVal) (.arg .otherVal))) (.construct (.other 2) (.binop .mul (.arg .selfVal) (.arg .other))))),
      ((.dunder .ne), (.ifMut (.binop .ne (.arg .selfVal) (.arg .otherVal)) (.binop .ne (.arg .selfVal) (.arg .other)))),
      ((.dunder .pow), (.ifMut (.construct (.other 2) (.binop .pow (.arg .selfVal) (.arg .otherVal))) (.construct (.other 2) (.binop .pow (.arg .selfVal) (.arg .other))))),
      ((.dunder .sub), (.ifMut (.construct (.other 2) (.binop .sub (.arg .selfVal) (.arg .otherVal))) (.construct (.other 2) (.binop .sub (.arg .selfVal) (.arg .other))))),
      ((.other 11), (.arg .selfVal)),
      ((.other 4), .opaque),
      ((.other 5), .opaque),
      ((.other 6), .opaque),
      ((.other 7), .opaque),
      ((.udunder .neg), (.construct (.other 2) (.unop .neg (.arg .selfVal)))),
      ((.udunder .pos), (.arg .self))
    ] },
  { cls := (.other 4), bases := [(.other 3)], init := none,
    methods := [
      ((.dunder .add), (.then_ (.baseCall (.other 3) (.dunder .add) (.arg .self) (.arg .other)) (.const (.other 4)))),
      ((.dunder .mod), (.then_ (.baseCall (.other 3) (.dunder .mod) (.arg .other) (.arg .self)) (.const (.other 4)))),
      ((.dunder .mul), (.then_ (.baseCall (.other 3) (.dunder .mul) (.arg .self) (.arg .other)) (.const (.other 4)))),
      ((.other 12), .opaque),
      ((.other 13), .opaque)
    ] },
  { cls := (.other 5), bases := [.MutType], init := (some InitKind.store),
    methods := [
      ((.dunder .eq), (.ifMut (.binop .eq (.arg .selfVal) (.arg .otherVal)) (.binop .eq (.arg .selfVal) (.arg .other)))),
      ((.dunder .ne), (.ifMut (.binop .ne (.arg .selfVal) (.arg .otherVal)) (.binop .ne (.arg .selfVal) (.arg .other)))),
      ((.other 5), .opaque),
      ((.other 6), .opaque),
      ((.other 8), .opaque)
    ] },
  { cls := (.other 7), bases := [(.other 6)], init := none,
    methods := [
      ((.dunder .mul), (.then_ (.baseCall (.other 6) (.dunder .mul) (.arg .self) (.arg .other)) (.const (.other 7)))),
      ((.other 13), .opaque),
      ((.other 6), .opaque)
    ] },
  { cls := (.other 8), bases := [.object], init := (some InitKind.opaque),
    methods := [

    ] }
]

end ErgVerif.Gen.C26
