/- GENERATED on every run by checks/c27.py from the working tree (harness `c27 dump`: pystd declarations parsed by erg_parser),
   the installed interpreters 3.7-3.13 (py/c27_dump_attrs.py) and the bundled typeshed stubs (py/c27_typeshed.py). Never edit.
   Per module: names are interned to Nat ids over (known ∪ declared) in sorted order (full tables: evidence/aux/C27.intern.json);
   `decls` = ids of the Python names of the top-level public declarations (sorted, distinct), `known` = bitset of the ids that
   are attributes of the module in some interpreter or typeshed branch. -/
namespace ErgVerif.Gen.C27

/- module 0 = __future__: 10=_Feature 21=absolute_import 23=annotations 25=division 26=generator_stop 27=generators 28=nested_scopes 29=print_function 30=unicode_literals 31=with_statement -/
/- module 1 = abc: 0=ABC 1=ABCMeta 21=abstractclassmethod 22=abstractmethod 24=abstractstaticmethod -/
/- module 2 = argparse: 3=ArgumentParser 33=_StoreAction -/
/- module 3 = array: 13=array 14=typecodes -/
/- module 4 = ast: 0=AST 1=Add 2=And 3=AnnAssign 4=Assert 5=Assign 6=AsyncFor 7=AsyncFunctionDef 8=AsyncWith 9=Attribute 10=AugAssign 14=BinOp 15=BitAnd 16=BitOr 17=BitXor 18=BoolOp 19=Break 21=Call 22=ClassDef 23=Compare 24=Constant 25=Continue 26=Del 27=Delete 28=Dict 29=DictComp 30=Div 32=Eq 33=ExceptHandler 37=FloorDiv 38=For 39=FormattedValue 40=FunctionDef 42=GeneratorExp 43=Global 44=Gt 45=GtE 46=If 47=IfExp 48=Import 49=ImportFrom 50=In 54=Invert 55=Is 56=IsNot 57=JoinedStr 58=LShift 59=Lambda 60=List 61=ListComp 62=Load 63=Lt 64=LtE 65=MatMult 66=Match 67=MatchAs 68=MatchClass 69=MatchMapping 70=MatchOr 71=MatchSequence 72=MatchSingleton 73=MatchStar 74=MatchValue 75=Mod 76=Module 77=Mult 78=Name 80=NamedExpr 81=NodeTransformer 82=NodeVisitor 83=Nonlocal 84=Not 85=NotEq 86=NotIn 88=Or 90=ParamSpec 91=Pass 92=Pow 93=PyCF_ALLOW_TOP_LEVEL_AWAIT 94=PyCF_ONLY_AST 95=PyCF_OPTIMIZED_AST 96=PyCF_TYPE_COMMENTS 97=RShift 98=Raise 99=Return 100=Set 101=SetComp 102=Slice 103=Starred 104=Store 106=Sub 107=Subscript 109=Try 110=TryStar 111=Tuple 112=TypeAlias 113=TypeIgnore 114=TypeVar 115=TypeVarTuple 116=UAdd 117=USub 118=UnaryOp 119=While 120=With 163=alias 164=arg 165=arguments 167=boolop 168=cmpop 169=comprehension 172=dump 174=expr 175=expr_context 177=get_docstring 182=keyword 183=literal_eval 185=match_case 188=operator 189=parse 190=pattern 193=stmt 196=type_param 197=unaryop 198=unparse 200=withitem -/
/- module 5 = asyncio: 2=AbstractEventLoop 3=AbstractEventLoopPolicy 4=AbstractServer 6=BaseEventLoop 23=Handle 27=LifoQueue 32=PriorityQueue 35=Queue 36=QueueEmpty 37=QueueFull 40=Runner 45=Server 51=Task 56=TimerHandle 94=current_task 101=gather 107=iscoroutine 108=iscoroutinefunction 119=run 127=sleep 141=to_thread -/
/- module 6 = asyncio.base_events: 0=BaseEventLoop 2=Server -/
/- module 7 = asyncio.coroutines: 26=iscoroutine 27=iscoroutinefunction -/
/- module 8 = asyncio.events: 0=AbstractEventLoop 1=AbstractEventLoopPolicy 2=AbstractServer 4=Handle 6=TimerHandle -/
/- module 9 = asyncio.futures: 1=Future 34=isfuture -/
/- module 10 = asyncio.queues: 1=LifoQueue 2=PriorityQueue 3=Queue 4=QueueEmpty 5=QueueFull -/
/- module 11 = asyncio.runners: 0=Runner 20=run -/
/- module 12 = asyncio.tasks: 4=Task 82=current_task 89=gather 96=sleep -/
/- module 13 = asyncio.threads: 14=to_thread -/
/- module 14 = atexit: 10=register 11=unregister -/
/- module 15 = base64: 39=b16decode 40=b16encode 41=b32decode 42=b32encode 45=b64decode 46=b64encode -/
/- module 16 = bdb: 0=Bdb 2=Breakpoint 26=set_trace -/
/- module 17 = binascii: 13=a2b_uu 21=hexlify 24=unhexlify -/
/- module 18 = bisect: 8=bisect 9=bisect_left 10=bisect_right -/
/- module 19 = builtins: 134=abs 136=all 138=any 139=ascii 153=dict 180=list 189=open 192=print 199=set -/
/- module 20 = bz2: 2=BZ2File 29=open -/
/- module 21 = calendar: 2=Calendar 9=HTMLCalendar 17=LocaleHTMLCalendar 18=LocaleTextCalendar 30=TextCalendar 54=calendar 68=month -/
/- module 22 = cmath:  -/
/- module 23 = cmd: 0=Cmd -/
/- module 24 = code: 14=compile_command -/
/- module 25 = codecs: 0=BOM 5=BOM_BE 6=BOM_LE 7=BOM_UTF16 8=BOM_UTF16_BE 9=BOM_UTF16_LE 10=BOM_UTF32 11=BOM_UTF32_BE 12=BOM_UTF32_LE 13=BOM_UTF8 14=BufferedIncrementalDecoder 15=BufferedIncrementalEncoder 16=Codec 17=CodecInfo 18=EncodedFile 19=IncrementalDecoder 20=IncrementalEncoder 21=StreamReader 22=StreamReaderWriter 24=StreamWriter 55=decode 56=encode 59=getdecoder 60=getencoder 70=lookup 79=open 83=register 92=unregister -/
/- module 26 = codeop:  -/
/- module 27 = collections: 0=ChainMap 1=Counter 2=OrderedDict 3=UserDict 4=UserList 5=UserString 47=abc 48=defaultdict 49=deque 50=namedtuple -/
/- module 28 = collections.abc: 1=AsyncContextManager 2=AsyncGenerator 3=AsyncIterable 4=AsyncIterator 5=Awaitable 6=Buffer 7=ByteString 8=Callable 9=Collection 10=Container 11=ContextManager 12=Coroutine 15=Generator 17=Hashable 18=ItemsView 19=Iterable 20=Iterator 21=KeysView 22=Mapping 23=MappingView 24=MutableMapping 25=MutableSequence 26=MutableSet 27=Reversible 28=Sequence 29=Set 30=Sized 31=ValuesView -/
/- module 29 = colorsys:  -/
/- module 30 = compileall: 13=compile_dir 14=compile_file 15=compile_path -/
/- module 31 = configparser: 1=ConfigParser -/
/- module 32 = contextlib: 5=ExitStack 48=closing 49=contextmanager -/
/- module 33 = copy: 0=Error 24=copy 25=deepcopy -/
/- module 34 = csv: 0=Dialect 1=DictReader 2=DictWriter 5=QUOTE_ALL 6=QUOTE_MINIMAL 7=QUOTE_NONE 8=QUOTE_NONNUMERIC 9=QUOTE_NOTNULL 10=QUOTE_STRINGS 11=Sniffer 25=excel 31=reader 34=unix_dialect 36=writer -/
/- module 35 = ctypes: 0=ARRAY 1=ArgumentError 2=Array 5=CDLL 16=OleDLL 19=PyDLL 24=Structure 27=WinDLL 31=_CData 34=_CFuncPtr 52=_Pointer 54=_SimpleCData 85=addressof 86=alignment 87=byref 88=c_bool 90=c_byte 91=c_char 92=c_char_p 93=c_double 94=c_float 95=c_int 96=c_int16 97=c_int32 98=c_int64 99=c_int8 100=c_long 101=c_longdouble 102=c_longlong 103=c_short 104=c_size_t 105=c_ssize_t 106=c_time_t 107=c_ubyte 108=c_uint 109=c_uint16 110=c_uint32 111=c_uint64 112=c_uint8 113=c_ulong 114=c_ulonglong 115=c_ushort 116=c_void_p 118=c_wchar 119=c_wchar_p 120=cast 122=create_string_buffer 123=create_unicode_buffer 124=get_errno 125=get_last_error 127=memmove 128=memset 134=resize 135=set_errno 136=set_last_error 137=sizeof 138=string_at 142=wstring_at -/
/- module 36 = ctypes.macholib:  -/
/- module 37 = ctypes.util: 13=find_library -/
/- module 38 = ctypes.wintypes:  -/
/- module 39 = dataclasses: 0=Field 5=KW_ONLY 6=MISSING 22=_KW_ONLY_TYPE 23=_MISSING_TYPE 76=dataclass 77=field 81=is_dataclass -/
/- module 40 = datetime: 0=MAXYEAR 1=MINYEAR 2=UTC 16=date 17=datetime 20=time 21=timedelta 22=timezone 23=tzinfo -/
/- module 41 = decimal: 0=BasicContext 2=Context 4=Decimal 7=DefaultContext 11=ExtendedContext 49=getcontext 50=localcontext 51=setcontext -/
/- module 42 = difflib: 0=Differ 2=HtmlDiff 3=IS_CHARACTER_JUNK 4=IS_LINE_JUNK 6=SequenceMatcher 31=context_diff 32=diff_bytes 33=get_close_matches 34=ndiff 35=restore 36=unified_diff -/
/- module 43 = dis: 2=Bytecode 16=Instruction 25=Positions 86=cmp_op 87=code_info 90=dis 92=disco 98=hasarg 99=hascompare 100=hasconst 101=hasexc 102=hasfree 105=hasjump 106=haslocal 107=hasname 113=opmap 114=opname 117=show_code -/
/- module 44 = doctest: 33=TestResults 84=testfile 85=testmod -/
/- module 45 = email: 18=contentmanager 20=errors 22=generator 24=headerregistry 26=message 32=parser 33=policy -/
/- module 46 = email.contentmanager: 0=ContentManager 24=set_text_content -/
/- module 47 = email.errors: 0=BoundaryError 1=CharsetError 2=CloseBoundaryNotFoundDefect 3=FirstHeaderLineIsContinuationDefect 4=HeaderDefect 5=HeaderMissingRequiredValue 6=HeaderParseError 8=InvalidBase64CharactersDefect 9=InvalidBase64LengthDefect 10=InvalidBase64PaddingDefect 11=InvalidDateDefect 12=InvalidHeaderDefect 13=InvalidMultipartContentTransferEncodingDefect 15=MessageDefect 16=MessageError 17=MessageParseError 18=MisplacedEnvelopeHeaderDefect 20=MultipartConversionError 21=MultipartInvariantViolationDefect 22=NoBoundaryInMultipartDefect 23=NonASCIILocalPartDefect 24=NonPrintableDefect 25=ObsoleteHeaderDefect 26=StartBoundaryNotFoundDefect 27=UndecodableBytesDefect -/
/- module 48 = email.generator: 0=BytesGenerator 2=DecodedGenerator 3=Generator -/
/- module 49 = email.headerregistry: 0=Address 1=AddressHeader 2=BaseHeader 3=ContentDispositionHeader 4=ContentTransferEncodingHeader 5=ContentTypeHeader 6=DateHeader 7=Group 8=HeaderRegistry 9=MIMEVersionHeader 11=MessageIDHeader 12=ParameterizedMIMEHeader 14=SingleAddressHeader 15=UniqueAddressHeader 17=UniqueSingleAddressHeader 18=UniqueUnstructuredHeader 19=UnstructuredHeader -/
/- module 50 = email.message: 4=Message -/
/- module 51 = email.parser: 1=BytesHeaderParser 2=BytesParser 4=HeaderParser 5=Parser -/
/- module 52 = email.policy: 2=EmailPolicy 3=HTTP 6=SMTP 7=SMTPUTF8 20=default 24=strict -/
/- module 53 = enum: 4=Enum 8=EnumType 9=Flag 11=IntEnum 12=IntFlag 17=ReprEnum 19=StrEnum 60=auto -/
/- module 54 = errno: 0=E2BIG 1=EACCES 2=EADDRINUSE 3=EADDRNOTAVAIL 4=EADV 5=EAFNOSUPPORT 6=EAGAIN 7=EALREADY 10=EBADE 12=EBADF 13=EBADFD 15=EBADMSG 16=EBADR 18=EBADRQC 19=EBADSLT 20=EBFONT 21=EBUSY 22=ECANCELED 23=ECHILD 24=ECHRNG 25=ECOMM 26=ECONNABORTED 27=ECONNREFUSED 28=ECONNRESET 29=EDEADLK 30=EDEADLOCK 31=EDESTADDRREQ 33=EDOM 34=EDOTDOT 35=EDQUOT 36=EEXIST 37=EFAULT 38=EFBIG 40=EHOSTDOWN 41=EHOSTUNREACH 42=EIDRM 43=EILSEQ 44=EINPROGRESS 45=EINTR 46=EINVAL 47=EIO 48=EISCONN 49=EISDIR 50=EISNAM 54=EL2HLT 55=EL2NSYNC 56=EL3HLT 57=EL3RST 58=ELIBACC 59=ELIBBAD 60=ELIBEXEC 61=ELIBMAX 62=ELIBSCN 63=ELNRNG 65=ELOOP 67=EMFILE 68=EMLINK 69=EMSGSIZE 70=EMULTIHOP 71=ENAMETOOLONG 72=ENAVAIL 74=ENETDOWN 75=ENETRESET 76=ENETUNREACH 77=ENFILE 78=ENOANO 80=ENOBUFS 81=ENOCSI 82=ENODATA 83=ENODEV 84=ENOENT 85=ENOEXEC 87=ENOLCK 88=ENOLINK 90=ENOMEM 91=ENOMSG 92=ENONET 93=ENOPKG 95=ENOPROTOOPT 96=ENOSPC 97=ENOSR 98=ENOSTR 99=ENOSYS 101=ENOTBLK 102=ENOTCAPABLE 103=ENOTCONN 104=ENOTDIR 105=ENOTEMPTY 106=ENOTNAM 107=ENOTRECOVERABLE 108=ENOTSOCK 109=ENOTSUP 110=ENOTTY 111=ENOTUNIQ 112=ENXIO 113=EOPNOTSUPP 114=EOVERFLOW 115=EOWNERDEAD 116=EPERM 117=EPFNOSUPPORT 118=EPIPE 123=EPROTO 124=EPROTONOSUPPORT 125=EPROTOTYPE 127=EQFULL 128=ERANGE 129=EREMCHG 130=EREMOTE 131=EREMOTEIO 132=ERESTART 134=EROFS 137=ESHUTDOWN 138=ESOCKTNOSUPPORT 139=ESPIPE 140=ESRCH 141=ESRMNT 142=ESTALE 143=ESTRPIPE 144=ETIME 145=ETIMEDOUT 146=ETOOMANYREFS 147=ETXTBSY 148=EUCLEAN 149=EUNATCH 150=EUSERS 151=EWOULDBLOCK 152=EXDEV 153=EXFULL 207=errorcode -/
/- module 55 = filecmp: 17=clear_cache 18=cmp 19=cmpfiles 21=dircmp -/
/- module 56 = fileinput: 0=FileInput 15=close 16=filelineno 17=filename 18=fileno 19=hook_compressed 20=hook_encoded 21=input 23=isfirstline 24=isstdin 25=lineno 26=nextfile -/
/- module 57 = fnmatch: 13=filter 14=fnmatch 15=fnmatchcase 20=translate -/
/- module 58 = fractions: 1=Fraction -/
/- module 59 = ftplib: 3=FTP 5=FTP_TLS 21=all_errors 22=error_perm 23=error_proto 24=error_reply 25=error_temp -/
/- module 60 = functools: 51=cache 52=cached_property 53=cmp_to_key 55=lru_cache 57=partial 58=partialmethod 60=reduce 61=singledispatch 62=singledispatchmethod 63=total_ordering 64=update_wrapper 65=wraps -/
/- module 61 = glob: 17=_iglob 29=escape 32=glob 36=iglob -/
/- module 62 = graphlib: 0=CycleError 2=TopologicalSorter -/
/- module 63 = gzip: 0=BadGzipFile 6=GzipFile 37=compress 38=decompress 41=open -/
/- module 64 = hashlib: 0=HASH 1=HASHXOF 18=algorithms_available 19=algorithms_guaranteed 20=blake2b 22=file_digest 23=md5 24=new 27=sha1 28=sha224 29=sha256 30=sha384 31=sha3_224 32=sha3_256 33=sha3_384 34=sha3_512 35=sha512 36=shake_128 37=shake_256 -/
/- module 65 = heapq: 18=heapify 19=heappop 20=heappush 21=heappushpop -/
/- module 66 = hmac: 0=HMAC 15=compare_digest 16=digest 18=new -/
/- module 67 = html: 16=entities 17=escape 18=parser 19=unescape -/
/- module 68 = html.entities: 9=codepoint2name 10=entitydefs 11=html5 12=name2codepoint -/
/- module 69 = html.parser: 0=HTMLParser -/
/- module 70 = http: 0=HTTPMethod 1=HTTPStatus 2=IntEnum 3=StrEnum 15=client 16=cookiejar 17=cookies 18=server -/
/- module 71 = http.client: 4=BadStatusLine 9=CannotSendHeader 10=CannotSendRequest 18=HTTPConnection 19=HTTPException 20=HTTPMessage 21=HTTPResponse 22=HTTPSConnection 23=HTTPS_PORT 24=HTTP_PORT 30=ImproperConnectionState 31=IncompleteRead 32=InvalidURL 36=LineTooLong 51=NotConnected 67=RemoteDisconnected 68=ResponseNotReady 83=UnimplementedFileMode 84=UnknownProtocol 85=UnknownTransferEncoding 119=http 123=responses -/
/- module 72 = http.cookiejar: 1=Cookie 2=CookieJar 3=CookiePolicy 6=DefaultCookiePolicy 9=FileCookieJar 22=LoadError -/
/- module 73 = http.cookies: 0=BaseCookie 1=CookieError 2=Morsel 3=SimpleCookie -/
/- module 74 = http.server: 0=BaseHTTPRequestHandler 1=CGIHTTPRequestHandler 4=HTTPServer 6=SimpleHTTPRequestHandler 7=ThreadingHTTPServer -/
/- module 75 = importlib: 6=__import__ 22=import_module 24=machinery 27=reload 32=util -/
/- module 76 = importlib.machinery: 8=ModuleSpec -/
/- module 77 = importlib.metadata: 6=Distribution 7=DistributionFinder 8=EntryPoint 9=EntryPoints 10=FastPath 15=Lookup 21=PackageMetadata 22=PackageNotFoundError 23=PackagePath 25=PathDistribution 26=Prepared 27=Sectioned 67=distribution 68=distributions 70=entry_points 71=files 78=metadata 82=packages_distributions 87=requires 94=version -/
/- module 78 = importlib.metadata.diagnose: 9=inspect 10=run -/
/- module 79 = importlib.util: 2=MAGIC_NUMBER 24=find_spec -/
/- module 80 = inspect: 28=FrameInfo 35=Parameter 36=Signature 38=Traceback 123=currentframe 144=getcomments 147=getdoc 148=getfile 155=getmembers 157=getmodule 166=isabstract 167=isasyncgen 168=isasyncgenfunction 169=isawaitable 170=isbuiltin 171=isclass 172=iscode 173=iscoroutine 174=iscoroutinefunction 175=isdatadescriptor 176=isframe 177=isfunction 178=isgenerator 179=isgeneratorfunction 180=isgetsetdescriptor 182=ismemberdescriptor 183=ismethod 184=ismethoddescriptor 185=ismethodwrapper 186=ismodule 187=isroutine 188=istraceback 199=signature -/
/- module 81 = io: 0=BlockingIOError 1=BufferedIOBase 2=BufferedRWPair 3=BufferedRandom 4=BufferedReader 5=BufferedWriter 6=BytesIO 7=DEFAULT_BUFFER_SIZE 8=FileIO 9=IOBase 12=RawIOBase 16=StringIO 17=TextIOBase 18=TextIOWrapper 19=UnsupportedOperation 36=open 37=open_code 38=text_encoding -/
/- module 82 = ipaddress: 0=AddressValueError 3=IPv4Address 4=IPv4Interface 5=IPv4Network 6=IPv6Address 7=IPv6Interface 8=IPv6Network 9=NetmaskValueError 11=_BaseAddress 13=_BaseNetwork 14=_BaseV4 15=_BaseV6 16=_IPAddressBase 36=collapse_addresses 39=ip_address 42=summarize_address_range 43=v4_int_to_packed 44=v6_int_to_packed -/
/- module 83 = itertools: 25=accumulate 27=chain 28=combinations 29=combinations_with_replacement 30=compress 31=count 32=cycle 33=dropwhile 34=filterfalse 35=groupby 36=islice 37=pairwise 38=permutations 39=product 40=repeat 42=takewhile 43=tee 44=zip_longest -/
/- module 84 = json: 0=JSONDecodeError 1=JSONDecoder 2=JSONEncoder 20=dump 21=dumps 23=load 24=loads -/
/- module 85 = keyword: 9=iskeyword 10=issoftkeyword 11=kwlist 13=softkwlist -/
/- module 86 = locale: 37=Error 114=localeconv 120=setlocale -/
/- module 87 = logging: 0=BASIC_FORMAT 1=BufferingFormatter 2=CRITICAL 3=DEBUG 4=ERROR 5=FATAL 6=FileHandler 7=Filter 8=Filterer 9=Formatter 11=Handler 12=INFO 13=LogRecord 14=Logger 15=LoggerAdapter 16=Manager 17=NOTSET 18=NullHandler 19=PercentStyle 20=PlaceHolder 21=RootLogger 22=StrFormatStyle 23=StreamHandler 24=StringTemplateStyle 27=WARNING 78=addLevelName 80=basicConfig 84=critical 86=debug 87=disable 88=error 89=exception 93=getLevelName 94=getLevelNamesMapping 95=getLogRecordFactory 96=getLogger 97=getLoggerClass 99=info 102=log 107=makeLogRecord 111=root 114=shutdown 120=warning -/
/- module 88 = logging.config:  -/
/- module 89 = logging.handlers: 0=BaseRotatingHandler 1=BufferingHandler 2=DEFAULT_HTTP_LOGGING_PORT 3=DEFAULT_SOAP_LOGGING_PORT 4=DEFAULT_TCP_LOGGING_PORT 5=DEFAULT_UDP_LOGGING_PORT 6=DatagramHandler 7=HTTPHandler 8=MemoryHandler 9=NTEventLogHandler 10=QueueHandler 11=QueueListener 12=RotatingFileHandler 13=SMTPHandler 17=SYSLOG_TCP_PORT 18=SYSLOG_UDP_PORT 19=SocketHandler 20=SysLogHandler 21=TimedRotatingFileHandler 22=WatchedFileHandler -/
/- module 90 = lzma: 0=CHECK_CRC32 1=CHECK_CRC64 2=CHECK_ID_MAX 3=CHECK_NONE 4=CHECK_SHA256 5=CHECK_UNKNOWN 6=FILTER_ARM 7=FILTER_ARMTHUMB 8=FILTER_DELTA 9=FILTER_IA64 10=FILTER_LZMA1 11=FILTER_LZMA2 12=FILTER_POWERPC 13=FILTER_SPARC 14=FILTER_X86 15=FORMAT_ALONE 16=FORMAT_AUTO 17=FORMAT_RAW 18=FORMAT_XZ 19=LZMACompressor 20=LZMADecompressor 21=LZMAError 22=LZMAFile 23=MF_BT2 24=MF_BT3 25=MF_BT4 26=MF_HC3 27=MF_HC4 28=MODE_FAST 29=MODE_NORMAL 30=PRESET_DEFAULT 31=PRESET_EXTREME 51=compress 52=decompress 54=is_check_supported 55=open -/
/- module 91 = marshal: 6=dump 7=dumps 8=load 9=loads 10=version -/
/- module 92 = math: 19=acos 20=acosh 21=asin 22=asinh 23=atan 25=atanh 27=ceil 28=comb 29=copysign 30=cos 31=cosh 34=e 37=exp 40=fabs 41=factorial 42=floor 44=fmod 45=frexp 46=fsum 52=isclose 53=isfinite 54=isinf 55=isnan 56=isqrt 60=log 61=log10 63=log2 67=perm 68=pi 70=prod 73=sin 74=sinh 75=sqrt 77=tan 78=tanh 79=tau 80=trunc -/
/- module 93 = ntpath: 17=abspath 19=basename 20=commonpath 21=commonprefix 25=dirname 26=exists 27=expanduser 28=expandvars 31=getatime 32=getctime 33=getmtime 34=getsize 35=isabs 37=isdir 38=isfile 40=islink 41=ismount 43=join 44=lexists 45=normcase 46=normpath 50=realpath 51=relpath 52=samefile 53=sameopenfile 56=split 57=splitdrive 58=splitext 61=supports_unicode_filenames -/
/- module 94 = numbers: 1=Complex 2=Integral 3=Number 4=Rational 5=Real -/
/- module 95 = operator: 5=__abs__ 6=__add__ 8=__and__ 11=__call__ 16=__eq__ 19=__ge__ 21=__gt__ 30=__index__ 32=__invert__ 39=__le__ 41=__lshift__ 42=__lt__ 44=__mod__ 45=__mul__ 47=__ne__ 48=__neg__ 49=__not__ 50=__or__ 52=__pos__ 53=__pow__ 54=__rshift__ 57=__sub__ 58=__truediv__ 59=__xor__ 61=abs 63=and_ 64=attrgetter 65=call 70=eq 72=ge 74=gt 83=index 85=inv 86=invert 90=is_ 91=is_not 93=itemgetter 96=le 98=lshift 99=lt 102=mod 103=mul 104=ne 105=neg 106=not_ 107=or_ 108=pos 109=pow 110=rshift 112=sub 113=truediv 114=truth 115=xor -/
/- module 96 = os: 20=DirEntry 21=EFD_CLOEXEC 22=EFD_NONBLOCK 23=EFD_SEMAPHORE 24=EX_CANTCREAT 25=EX_CONFIG 26=EX_DATAERR 27=EX_IOERR 28=EX_NOHOST 29=EX_NOINPUT 30=EX_NOPERM 31=EX_NOTFOUND 32=EX_NOUSER 33=EX_OK 34=EX_OSERR 35=EX_OSFILE 36=EX_PROTOCOL 37=EX_SOFTWARE 38=EX_TEMPFAIL 39=EX_UNAVAILABLE 40=EX_USAGE 41=F_LOCK 43=F_TEST 44=F_TLOCK 45=F_ULOCK 49=MFD_ALLOW_SEALING 50=MFD_CLOEXEC 51=MFD_HUGETLB 52=MFD_HUGE_16GB 53=MFD_HUGE_16MB 54=MFD_HUGE_1GB 55=MFD_HUGE_1MB 56=MFD_HUGE_256MB 57=MFD_HUGE_2GB 58=MFD_HUGE_2MB 59=MFD_HUGE_32MB 60=MFD_HUGE_512KB 61=MFD_HUGE_512MB 62=MFD_HUGE_64KB 63=MFD_HUGE_8MB 64=MFD_HUGE_MASK 65=MFD_HUGE_SHIFT 69=OSError 71=O_APPEND 72=O_ASYNC 73=O_BINARY 74=O_CLOEXEC 75=O_CREAT 76=O_DIRECT 77=O_DIRECTORY 78=O_DSYNC 79=O_EVTONLY 80=O_EXCL 82=O_EXLOCK 83=O_FSYNC 85=O_NDELAY 86=O_NOATIME 87=O_NOCTTY 88=O_NOFOLLOW 89=O_NOFOLLOW_ANY 90=O_NOINHERIT 91=O_NONBLOCK 92=O_PATH 93=O_RANDOM 94=O_RDONLY 95=O_RDWR 96=O_RSYNC 98=O_SEQUENTIAL 99=O_SHLOCK 100=O_SHORT_LIVED 101=O_SYMLINK 102=O_SYNC 103=O_TEMPORARY 104=O_TEXT 105=O_TMPFILE 106=O_TRUNC 107=O_WRONLY 109=POSIX_FADV_DONTNEED 110=POSIX_FADV_NOREUSE 111=POSIX_FADV_NORMAL 112=POSIX_FADV_RANDOM 113=POSIX_FADV_SEQUENTIAL 114=POSIX_FADV_WILLNEED 119=PRIO_DARWIN_BG 120=PRIO_DARWIN_NONUI 121=PRIO_DARWIN_PROCESS 122=PRIO_DARWIN_THREAD 123=PRIO_PGRP 124=PRIO_PROCESS 125=PRIO_USER 135=PathLike 143=RWF_APPEND 144=RWF_DSYNC 145=RWF_HIPRI 146=RWF_NOWAIT 147=RWF_SYNC 156=SEEK_CUR 157=SEEK_DATA 158=SEEK_END 159=SEEK_HOLE 160=SEEK_SET 161=SF_MNOWAIT 162=SF_NOCACHE 163=SF_NODISKIO 164=SF_SYNC 199=XATTR_CREATE 200=XATTR_REPLACE 201=XATTR_SIZE_MAX 226=_exit 240=abort 241=access 242=add_dll_directory 244=chdir 245=chflags 246=chmod 247=chown 248=chroot 249=close 250=closerange 253=copy_file_range 255=ctermid 256=curdir 258=device_encoding 260=dup 261=dup2 262=environ 263=environb 265=eventfd 266=eventfd_read 267=eventfd_write 268=execl 269=execle 270=execlp 271=execlpe 272=execv 273=execve 274=execvp 275=execvpe 277=fchdir 278=fchmod 279=fchown 280=fdatasync 281=fdopen 282=fork 283=forkpty 284=fpathconf 285=fsdecode 286=fsencode 287=fspath 288=fstat 289=fstatvfs 290=fsync 291=ftruncate 292=fwalk 293=get_blocking 294=get_exec_path 295=get_handle_inheritable 296=get_inheritable 297=get_terminal_size 298=getcwd 299=getcwdb 300=getegid 301=getenv 302=getenvb 303=geteuid 304=getgid 305=getgrouplist 306=getgroups 308=getlogin 309=getpgid 310=getpgrp 311=getpid 312=getppid 313=getpriority 314=getrandom 315=getresgid 316=getresuid 317=getsid 318=getuid 319=getxattr 321=initgroups 322=isatty 323=kill 324=killpg 326=lchmod 327=lchown 329=link 330=listdir 331=listdrives 332=listmounts 333=listvolumes 334=listxattr 335=lockf 336=login_tty 337=lseek 338=lstat 339=major 340=makedev 341=makedirs 342=memfd_create 343=minor 344=mkdir 345=mkfifo 346=mknod 347=name 348=nice 349=open 350=openpty 352=path 353=pathconf 356=pidfd_open 357=pipe 358=pipe2 359=plock 360=popen 361=posix_fadvise 362=posix_fallocate 364=posix_spawn 365=posix_spawnp 366=pread 367=preadv 370=putenv 371=pwrite 372=pwritev 373=read 374=readlink 375=readv 376=register_at_fork 377=remove 378=removedirs 379=removexattr 380=rename 381=renames 382=replace 383=rmdir 384=scandir 396=sendfile 398=set_blocking 399=set_handle_inheritable 400=set_inheritable 401=setegid 402=seteuid 403=setgid 404=setgroups 405=setns 406=setpgid 407=setpgrp 408=setpriority 409=setregid 410=setresgid 411=setresuid 412=setreuid 413=setsid 414=setuid 415=setxattr 416=spawnl 417=spawnle 418=spawnlp 419=spawnlpe 420=spawnv 421=spawnve 422=spawnvp 423=spawnvpe 424=splice 426=startfile 428=stat_result 429=statvfs 431=strerror 432=supports_bytes_environ 433=supports_dir_fd 434=supports_effective_ids 435=supports_fd 436=supports_follow_symlinks 437=symlink 438=sync 442=system 443=tcgetpgrp 444=tcsetpgrp 451=times 454=ttyname 455=umask 456=uname 458=unlink 460=unsetenv 461=unshare 462=urandom 463=utime 464=wait 467=waitid 471=walk 472=write 473=writev -/
/- module 97 = os.path: 15=abspath 17=basename 18=commonpath 19=commonprefix 23=dirname 24=exists 25=expanduser 26=expandvars 29=getatime 30=getctime 31=getmtime 32=getsize 33=isabs 34=isdevdrive 35=isdir 36=isfile 37=isjunction 38=islink 39=ismount 41=join 42=lexists 43=normcase 44=normpath 48=realpath 49=relpath 50=samefile 51=sameopenfile 52=samestat 53=sep 54=split 55=splitdrive 56=splitext 57=splitroot 59=supports_unicode_filenames -/
/- module 98 = pathlib: 5=Path 6=PosixPath 7=PurePath 8=PurePosixPath 9=PureWindowsPath 19=WindowsPath -/
/- module 99 = pdb: 2=Pdb 46=pm 50=run 51=runcall 53=runeval 54=set_trace -/
/- module 100 = pickle: 0=ADDITEMS 1=APPEND 2=APPENDS 3=BINBYTES 4=BINBYTES8 5=BINFLOAT 6=BINGET 7=BININT 8=BININT1 9=BININT2 10=BINPERSID 11=BINPUT 12=BINSTRING 13=BINUNICODE 14=BINUNICODE8 15=BUILD 16=BYTEARRAY8 17=DEFAULT_PROTOCOL 18=DICT 19=DUP 20=EMPTY_DICT 21=EMPTY_LIST 22=EMPTY_SET 23=EMPTY_TUPLE 24=EXT1 25=EXT2 26=EXT4 27=FALSE 28=FLOAT 29=FRAME 30=FROZENSET 32=GET 33=GLOBAL 34=HIGHEST_PROTOCOL 35=INST 36=INT 37=LIST 38=LONG 39=LONG1 40=LONG4 41=LONG_BINGET 42=LONG_BINPUT 43=MARK 44=MEMOIZE 45=NEWFALSE 46=NEWOBJ 47=NEWOBJ_EX 48=NEWTRUE 49=NEXT_BUFFER 50=NONE 51=OBJ 52=PERSID 53=POP 54=POP_MARK 55=PROTO 56=PUT 58=PickleError 60=PicklingError 62=READONLY_BUFFER 63=REDUCE 64=SETITEM 65=SETITEMS 66=SHORT_BINBYTES 67=SHORT_BINSTRING 68=SHORT_BINUNICODE 69=STACK_GLOBAL 70=STOP 71=STRING 72=TRUE 73=TUPLE 74=TUPLE1 75=TUPLE2 76=TUPLE3 77=UNICODE 79=UnpicklingError 107=bytes_types 109=compatible_formats 112=dump 113=dumps 115=format_version 118=load 119=loads -/
/- module 101 = platform: 59=architecture 67=libc_ver 69=mac_ver 70=machine 71=node 73=platform 75=processor 76=python_branch 77=python_build 78=python_compiler 79=python_implementation 80=python_revision 81=python_version 82=python_version_tuple 84=release 87=system 88=system_alias 89=uname 91=version 93=win32_edition 94=win32_is_iot 95=win32_ver -/
/- module 102 = posix: 354=uname_result -/
/- module 103 = posixpath: 15=abspath 17=basename 18=commonpath 19=commonprefix 23=dirname 24=exists 25=expanduser 26=expandvars 29=getatime 30=getctime 31=getmtime 32=getsize 33=isabs 35=isdir 36=isfile 38=islink 39=ismount 40=join 41=lexists 42=normcase 43=normpath 47=realpath 48=relpath 49=samefile 50=sameopenfile 53=split 54=splitdrive 55=splitext 58=supports_unicode_filenames -/
/- module 104 = pprint: 0=PrettyPrinter 22=isreadable 23=isrecursive 24=pformat 25=pp 26=pprint 28=saferepr -/
/- module 105 = py_compile: 0=PyCompileError 12=compile -/
/- module 106 = pydoc:  -/
/- module 107 = queue: 0=Empty 1=Full 2=LifoQueue 3=PriorityQueue 4=Queue 5=ShutDown 6=SimpleQueue -/
/- module 108 = random: 4=Random 6=SystemRandom 51=betavariate 53=choice 54=choices 55=expovariate 56=gammavariate 57=gauss 58=getrandbits 59=getstate 60=lognormvariate 62=normalvariate 63=paretovariate 64=randbytes 65=randint 66=random 67=randrange 68=sample 69=seed 70=setstate 71=shuffle 72=triangular 73=uniform 74=vonmisesvariate 75=weibullvariate -/
/- module 109 = re: 0=A 1=ASCII 2=DEBUG 3=DOTALL 4=I 5=IGNORECASE 6=L 7=LOCALE 8=M 9=MULTILINE 10=Match 11=NOFLAG 12=Pattern 14=RegexFlag 15=S 21=VERBOSE 22=X 55=compile 59=escape 60=findall 61=finditer 62=fullmatch 64=match 65=purge 66=search 67=split 70=sub 71=subn -/
/- module 110 = secrets:  -/
/- module 111 = shlex: 14=join 16=quote 18=shlex 19=split -/
/- module 112 = shutil: 21=_WINDOWS 62=chown 64=copy 65=copy2 66=copyfile 67=copyfileobj 68=copymode 69=copystat 70=copytree 71=disk_usage 74=get_archive_formats 75=get_terminal_size 76=get_unpack_formats 79=ignore_patterns 80=make_archive 81=move 85=register_archive_format 86=register_unpack_format 87=rmtree 90=unpack_archive 91=unregister_archive_format 92=unregister_unpack_format 94=which -/
/- module 113 = signal: 0=CTRL_BREAK_EVENT 1=CTRL_C_EVENT 2=Handlers 3=ITIMER_PROF 4=ITIMER_REAL 5=ITIMER_VIRTUAL 7=NSIG 9=SIGALRM 10=SIGBREAK 11=SIGBUS 12=SIGCHLD 13=SIGCLD 14=SIGCONT 16=SIGFPE 17=SIGHUP 18=SIGILL 20=SIGINT 23=SIGKILL 24=SIGPIPE 31=SIGSEGV 32=SIGSTKFLT 35=SIGTERM 41=SIGUSR1 42=SIGUSR2 44=SIGWINCH 47=SIG_BLOCK 48=SIG_DFL 49=SIG_IGN 50=SIG_SETMASK 51=SIG_UNBLOCK 52=Sigmasks 53=Signals 68=alarm 71=getsignal 72=pause 80=signal 85=strsignal -/
/- module 114 = socket: 0=AF_ALG 1=AF_APPLETALK 2=AF_ASH 3=AF_ATMPVC 4=AF_ATMSVC 5=AF_AX25 6=AF_BLUETOOTH 7=AF_BRIDGE 8=AF_CAN 9=AF_DECnet 11=AF_ECONET 13=AF_INET 14=AF_INET6 15=AF_IPX 16=AF_IRDA 17=AF_KEY 19=AF_LLC 20=AF_NETBEUI 21=AF_NETLINK 22=AF_NETROM 23=AF_PACKET 24=AF_PPPOX 25=AF_QIPCRTR 26=AF_RDS 27=AF_ROSE 28=AF_ROUTE 29=AF_SECURITY 30=AF_SNA 32=AF_TIPC 33=AF_UNIX 34=AF_UNSPEC 35=AF_VSOCK 36=AF_WANPIPE 37=AF_X25 58=AddressFamily 357=SOCK_DGRAM 359=SOCK_RAW 360=SOCK_RDM 361=SOCK_SEQPACKET 362=SOCK_STREAM 363=SOL_ALG 366=SOL_CAN_BASE 367=SOL_CAN_RAW 369=SOL_IP 372=SOL_RDS 374=SOL_SOCKET 375=SOL_TCP 376=SOL_TIPC 377=SOL_UDP 379=SO_ACCEPTCONN 380=SO_BINDTODEVICE 382=SO_BROADCAST 383=SO_DEBUG 384=SO_DOMAIN 385=SO_DONTROUTE 386=SO_ERROR 388=SO_INCOMING_CPU 389=SO_J1939_ERRQUEUE 390=SO_J1939_FILTER 391=SO_J1939_PROMISC 392=SO_J1939_SEND_PRIO 393=SO_KEEPALIVE 394=SO_LINGER 395=SO_MARK 396=SO_OOBINLINE 397=SO_PASSCRED 398=SO_PASSSEC 399=SO_PEERCRED 400=SO_PEERSEC 401=SO_PRIORITY 402=SO_PROTOCOL 403=SO_RCVBUF 404=SO_RCVLOWAT 405=SO_RCVTIMEO 406=SO_REUSEADDR 407=SO_REUSEPORT 409=SO_SNDBUF 410=SO_SNDLOWAT 411=SO_SNDTIMEO 412=SO_TYPE 414=SO_VM_SOCKETS_BUFFER_MAX_SIZE 415=SO_VM_SOCKETS_BUFFER_MIN_SIZE 416=SO_VM_SOCKETS_BUFFER_SIZE 419=SocketKind 511=close 512=create_connection 513=create_server 518=fromfd 521=getaddrinfo 524=gethostbyaddr 525=gethostbyname 526=gethostbyname_ex 527=gethostname 528=getnameinfo 532=has_dualstack_ipv6 553=socket 554=socketpair -/
/- module 115 = socketserver: 0=BaseRequestHandler 1=BaseServer 3=DatagramRequestHandler 4=ForkingMixIn 5=ForkingTCPServer 6=ForkingUDPServer 9=StreamRequestHandler 10=TCPServer 11=ThreadingMixIn 12=ThreadingTCPServer 13=ThreadingUDPServer 16=UDPServer 17=UnixDatagramServer 18=UnixStreamServer -/
/- module 116 = sqlite3: 1=Blob 3=Connection 4=Cursor 21=Row 234=complete_statement 235=connect -/
/- module 117 = ssl: 49=OPENSSL_VERSION 50=OPENSSL_VERSION_INFO 83=RAND_add 84=RAND_bytes 85=RAND_pseudo_bytes 86=RAND_status 90=SSLCertVerificationError 91=SSLContext 92=SSLEOFError 93=SSLError 97=SSLSocket 98=SSLSyscallError 99=SSLWantReadError 100=SSLWantWriteError 101=SSLZeroReturnError 167=create_default_context -/
/- module 118 = stat: 0=FILE_ATTRIBUTE_ARCHIVE 1=FILE_ATTRIBUTE_COMPRESSED 2=FILE_ATTRIBUTE_DEVICE 3=FILE_ATTRIBUTE_DIRECTORY 4=FILE_ATTRIBUTE_ENCRYPTED 5=FILE_ATTRIBUTE_HIDDEN 6=FILE_ATTRIBUTE_INTEGRITY_STREAM 7=FILE_ATTRIBUTE_NORMAL 8=FILE_ATTRIBUTE_NOT_CONTENT_INDEXED 9=FILE_ATTRIBUTE_NO_SCRUB_DATA 10=FILE_ATTRIBUTE_OFFLINE 11=FILE_ATTRIBUTE_READONLY 12=FILE_ATTRIBUTE_REPARSE_POINT 13=FILE_ATTRIBUTE_SPARSE_FILE 14=FILE_ATTRIBUTE_SYSTEM 15=FILE_ATTRIBUTE_TEMPORARY 16=FILE_ATTRIBUTE_VIRTUAL 20=SF_APPEND 21=SF_ARCHIVED 24=SF_IMMUTABLE 25=SF_NOUNLINK 28=SF_SNAPSHOT 31=ST_ATIME 32=ST_CTIME 33=ST_DEV 34=ST_GID 35=ST_INO 36=ST_MODE 37=ST_MTIME 38=ST_NLINK 39=ST_SIZE 40=ST_UID 41=S_ENFMT 42=S_IEXEC 43=S_IFBLK 44=S_IFCHR 45=S_IFDIR 46=S_IFDOOR 47=S_IFIFO 48=S_IFLNK 49=S_IFMT 50=S_IFPORT 51=S_IFREG 52=S_IFSOCK 53=S_IFWHT 54=S_IMODE 55=S_IREAD 56=S_IRGRP 57=S_IROTH 58=S_IRUSR 59=S_IRWXG 60=S_IRWXO 61=S_IRWXU 62=S_ISBLK 63=S_ISCHR 64=S_ISDIR 65=S_ISDOOR 66=S_ISFIFO 67=S_ISGID 68=S_ISLNK 69=S_ISPORT 70=S_ISREG 71=S_ISSOCK 72=S_ISUID 73=S_ISVTX 74=S_ISWHT 75=S_IWGRP 76=S_IWOTH 77=S_IWRITE 78=S_IWUSR 79=S_IXGRP 80=S_IXOTH 81=S_IXUSR 82=UF_APPEND 83=UF_COMPRESSED 85=UF_HIDDEN 86=UF_IMMUTABLE 87=UF_NODUMP 88=UF_NOUNLINK 89=UF_OPAQUE 101=filemode -/
/- module 119 = statistics: 55=correlation 59=covariance 64=fmean 66=geometric_mean 68=harmonic_mean 75=linear_regression 78=mean 79=median 80=median_grouped 81=median_high 82=median_low 83=mode 85=multimode 89=pstdev 90=pvariance 91=quantiles 97=stdev 102=variance -/
/- module 120 = string: 0=Formatter 1=Template 16=ascii_letters 17=ascii_lowercase 18=ascii_uppercase 19=capwords 20=digits 21=hexdigits 22=octdigits 23=printable 24=punctuation 26=whitespace -/
/- module 121 = struct: 0=Struct 11=calcsize 12=error 13=iter_unpack 14=pack 15=pack_into 16=unpack 17=unpack_from -/
/- module 122 = subprocess: 7=CalledProcessError 8=CompletedProcess 10=DEVNULL 14=PIPE 15=Popen 22=STDOUT 27=SubprocessError 28=TimeoutExpired 66=call 67=check_call 68=check_output 80=run -/
/- module 123 = symtable: 1=Class 10=Function 17=Symbol 18=SymbolTable 20=SymbolTableType 37=symtable -/
/- module 124 = sys: 21=__stderr__ 22=__stdin__ 23=__stdout__ 29=_clear_type_cache 31=_current_frames 56=abiflags 58=addaudithook 59=api_version 60=argv 61=audit 62=base_exec_prefix 63=base_prefix 64=breakpointhook 65=builtin_module_names 66=byteorder 69=copyright 71=displayhook 72=dllhandle 73=dont_write_bytecode 74=exc_info 76=exception 77=exec_prefix 78=executable 79=exit 80=flags 81=float_info 82=float_repr_style 90=getdefaultencoding 95=getrecursionlimit 96=getrefcount 97=getsizeof 98=getswitchinterval 103=hash_info 104=hexversion 105=implementation 106=int_info 107=intern 108=is_finalizing 114=maxsize 115=maxunicode 116=meta_path 117=modules 120=path 123=platform 124=platlibdir 125=prefix 126=ps1 127=ps2 128=pycache_prefix 136=setrecursionlimit 139=stderr 140=stdin 141=stdlib_module_names 142=stdout 146=version 147=version_info -/
/- module 125 = tarfile: 49=TarFile 90=is_tarfile 95=open -/
/- module 126 = tempfile: 0=NamedTemporaryFile 3=TemporaryDirectory 4=TemporaryFile 10=_TemporaryFileWrapper 46=gettempdir 47=gettempdirb 48=gettempprefix 49=gettempprefixb 50=mkdtemp 51=mkstemp 53=tempdir -/
/- module 127 = textwrap: 0=TextWrapper 13=dedent 14=fill 15=indent 17=shorten 18=wrap -/
/- module 128 = threading: 0=Barrier 1=BoundedSemaphore 2=BrokenBarrierError 3=Condition 4=Event 6=Lock 7=RLock 8=Semaphore 10=Thread 12=Timer 71=active_count 81=local -/
/- module 129 = time: 0=CLOCK_BOOTTIME 2=CLOCK_MONOTONIC 3=CLOCK_MONOTONIC_RAW 5=CLOCK_PROCESS_CPUTIME_ID 6=CLOCK_PROF 7=CLOCK_REALTIME 22=altzone 23=asctime 24=clock 25=clock_getres 26=clock_gettime 27=clock_gettime_ns 28=clock_settime 29=clock_settime_ns 30=ctime 31=daylight 33=gmtime 34=localtime 35=mktime 36=monotonic 37=monotonic_ns 38=perf_counter 39=perf_counter_ns 40=process_time 41=process_time_ns 43=sleep 44=strftime 45=strptime 46=struct_time 47=thread_time 48=thread_time_ns 49=time 50=time_ns 51=timezone 52=tzname 53=tzset -/
/- module 130 = timeit: 25=timeit -/
/- module 131 = tkinter: 11=BitmapImage 13=Button 22=Canvas 23=Checkbutton 32=Entry 38=Frame 49=Label 50=LabelFrame 51=Listbox 55=Menu 56=Menubutton 57=Message 72=OptionMenu 77=PanedWindow 78=PhotoImage 98=Scale 99=Scrollbar 100=Spinbox 107=Text 108=Tk 110=Toplevel 118=Widget -/
/- module 132 = tkinter.colorchooser: 11=askcolor -/
/- module 133 = tkinter.commondialog: 26=Dialog -/
/- module 134 = tkinter.constants: 0=ACTIVE 1=ALL 2=ANCHOR 3=ARC 4=BASELINE 5=BEVEL 6=BOTH 7=BOTTOM 8=BROWSE 9=BUTT 10=CASCADE 11=CENTER 12=CHAR 13=CHECKBUTTON 14=CHORD 15=COMMAND 16=CURRENT 17=DISABLED 18=DOTBOX 19=E 20=END 21=EW 22=EXTENDED 23=FALSE 24=FIRST 25=FLAT 26=GROOVE 27=HIDDEN 28=HORIZONTAL 29=INSERT 30=INSIDE 31=LAST 32=LEFT 33=MITER 34=MOVETO 35=MULTIPLE 36=N 37=NE 38=NO 39=NONE 40=NORMAL 41=NS 42=NSEW 43=NUMERIC 44=NW 45=OFF 46=ON 47=OUTSIDE 48=PAGES 49=PIESLICE 50=PROJECTING 51=RADIOBUTTON 52=RAISED 53=RIDGE 54=RIGHT 55=ROUND 56=S 57=SCROLL 58=SE 59=SEL 60=SEL_FIRST 61=SEL_LAST 62=SEPARATOR 63=SINGLE 64=SOLID 65=SUNKEN 66=SW 67=TOP 68=TRUE 69=UNDERLINE 70=UNITS 71=VERTICAL 72=W 73=WORD 74=X 75=Y 76=YES -/
/- module 135 = tkinter.dialog: 27=Dialog -/
/- module 136 = tkinter.dnd: 0=DndHandler -/
/- module 137 = tkinter.filedialog: 40=FileDialog 143=askdirectory 145=askopenfilename 146=askopenfilenames 149=asksaveasfilename -/
/- module 138 = tkinter.font: 1=Font -/
/- module 139 = tkinter.messagebox: 28=askokcancel 29=askquestion 30=askretrycancel 31=askyesno 33=showerror 34=showinfo 35=showwarning -/
/- module 140 = tkinter.scrolledtext: 8=ScrolledText -/
/- module 141 = tkinter.simpledialog: 101=SimpleDialog 144=askfloat 145=askinteger 146=askstring -/
/- module 142 = tkinter.ttk: 1=Checkbutton 2=Combobox 10=Notebook 14=Progressbar 15=Radiobutton 18=Separator 19=Sizegrip 21=Style 22=Treeview -/
/- module 143 = tomllib: 14=load 15=loads -/
/- module 144 = trace: 0=CoverageResults 2=Trace -/
/- module 145 = traceback: 4=TracebackException 58=print_tb -/
/- module 146 = tty: 254=setcbreak 255=setraw -/
/- module 147 = types: 0=AsyncGeneratorType 1=BuiltinFunctionType 2=BuiltinMethodType 4=CellType 5=ClassMethodDescriptorType 6=CodeType 7=CoroutineType 9=EllipsisType 10=FrameType 11=FunctionType 12=GeneratorType 13=GenericAlias 15=LambdaType 16=MappingProxyType 18=MethodDescriptorType 19=MethodType 20=MethodWrapperType 21=ModuleType 22=NoneType 23=NotImplementedType 25=TracebackType 26=UnionType 27=WrapperDescriptorType -/
/- module 148 = typing: 1=AbstractSet 2=Annotated 3=Any 4=AnyStr 5=AsyncContextManager 6=AsyncGenerator 7=AsyncIterable 8=AsyncIterator 9=Awaitable 11=BinaryIO 12=ByteString 14=Callable 15=ChainMap 16=ClassVar 17=Collection 18=Concatenate 19=Container 20=ContextManager 21=Coroutine 22=Counter 23=DefaultDict 24=Deque 25=Dict 27=Final 28=ForwardRef 29=FrozenSet 30=Generator 31=Generic 33=Hashable 34=IO 35=ItemsView 36=Iterable 37=Iterator 39=KeysView 40=List 41=Literal 42=LiteralString 43=Mapping 44=MappingView 45=Match 48=MutableMapping 49=MutableSequence 50=MutableSet 51=NamedTuple 53=Never 54=NewType 55=NoDefault 56=NoReturn 57=NotRequired 58=Optional 59=OrderedDict 60=ParamSpec 61=ParamSpecArgs 62=ParamSpecKwargs 63=Pattern 64=Protocol 65=ReadOnly 66=Required 67=Reversible 68=Self 69=Sequence 70=Set 71=Sized 72=SupportsAbs 73=SupportsBytes 74=SupportsComplex 75=SupportsFloat 76=SupportsIndex 77=SupportsInt 78=SupportsRound 80=TYPE_CHECKING 83=Text 84=TextIO 85=Tuple 86=Type 87=TypeAlias 88=TypeAliasType 89=TypeGuard 90=TypeIs 91=TypeVar 92=TypeVarTuple 93=TypedDict 94=Union 95=Unpack 99=ValuesView 141=_SpecialForm 238=assert_never 239=assert_type 240=cast 241=clear_overloads 247=final 249=get_args 250=get_origin 251=get_overloads 252=get_protocol_members 253=get_type_hints 255=is_protocol 256=is_typeddict 257=no_type_check 258=no_type_check_decorator 260=overload 261=override 263=reveal_type 264=runtime_checkable 267=type_check_only -/
/- module 149 = unicodedata: 0=UCD 11=bidirectional 12=category 13=combining 14=decimal 15=decomposition 16=digit 17=east_asian_width 18=is_normalized 19=lookup 20=mirrored 21=name 22=normalize 23=numeric 24=ucd_3_2_0 26=unidata_version -/
/- module 150 = unittest: 0=BaseTestSuite 3=SkipTest 4=TestCase 5=TestLoader 6=TestProgram 7=TestResult 8=TestSuite 9=TextTestResult 10=TextTestRunner 28=case 29=defaultTestLoader 33=findTestCases 34=getTestCaseNames 35=installHandler 37=loader 38=main 39=makeSuite 41=registerResult 43=removeResult 44=result 45=runner 46=signals 50=suite -/
/- module 151 = unittest.case: 0=DIFF_OMITTED 2=SkipTest 3=TestCase 47=doModuleCleanups -/
/- module 152 = unittest.loader: 0=TestLoader 1=VALID_MODULE_NAME 21=case 22=defaultTestLoader 23=findTestCases 27=getTestCaseNames 28=makeSuite 31=suite -/
/- module 153 = unittest.main: 2=TestProgram -/
/- module 154 = unittest.mock: 1=AsyncMagicMixin 2=AsyncMock 3=AsyncMockMixin 4=Base 6=CallableMixin 8=DEFAULT 9=FILTER_DIR 11=InvalidSpecError 12=MagicMixin 13=MagicMock 14=MagicProxy 16=Mock 18=NonCallableMagicMock 19=NonCallableMock 137=sentinel -/
/- module 155 = unittest.result: 2=TestResult 14=failfast -/
/- module 156 = unittest.runner: 0=TextTestResult 1=TextTestRunner -/
/- module 157 = unittest.signals: 14=installHandler 15=registerResult 16=removeHandler 17=removeResult -/
/- module 158 = unittest.suite: 0=BaseTestSuite 1=TestSuite -/
/- module 159 = unittest.util: 29=safe_repr 30=sorted_list_difference 31=strclass 32=three_way_cmp 33=unorderable_list_difference -/
/- module 160 = urllib: 9=error 10=parse 11=request 12=response -/
/- module 161 = urllib.error: 0=ContentTooShortError 1=HTTPError 2=URLError -/
/- module 162 = urllib.parse: 78=parse_qs 105=urlparse -/
/- module 163 = urllib.request: 0=AbstractBasicAuthHandler 1=AbstractDigestAuthHandler 3=BaseHandler 4=CacheFTPHandler 6=DataHandler 7=FTPHandler 9=FileHandler 10=HTTPBasicAuthHandler 11=HTTPCookieProcessor 12=HTTPDefaultErrorHandler 13=HTTPDigestAuthHandler 15=HTTPErrorProcessor 16=HTTPHandler 17=HTTPPasswordMgr 18=HTTPPasswordMgrWithDefaultRealm 19=HTTPPasswordMgrWithPriorAuth 20=HTTPRedirectHandler 21=HTTPSHandler 23=OpenerDirector 24=ProxyBasicAuthHandler 25=ProxyDigestAuthHandler 26=ProxyHandler 27=Request 30=UnknownHandler 72=build_opener 82=install_opener 119=urlopen -/
/- module 164 = urllib.response: 9=addbase 10=addclosehook 11=addinfo 12=addinfourl 13=tempfile -/
/- module 165 = urllib.robotparser: 0=Entry 2=RobotFileParser -/
/- module 166 = uuid: 1=NAMESPACE_DNS 2=NAMESPACE_OID 3=NAMESPACE_URL 4=NAMESPACE_X500 5=RESERVED_FUTURE 6=RESERVED_MICROSOFT 7=RESERVED_NCS 8=RFC_4122 9=SafeUUID 10=UUID 56=getnode 62=uuid1 63=uuid3 64=uuid4 65=uuid5 -/
/- module 167 = venv: 1=EnvBuilder 11=create -/
/- module 168 = warnings: 35=catch_warnings 39=filterwarnings 40=formatwarning 42=resetwarnings 43=showwarning 44=simplefilter 46=warn 47=warn_explicit -/
/- module 169 = weakref: 4=ReferenceType -/
/- module 170 = zipfile: 22=ZipFile 134=is_zipfile -/
/- module 171 = zlib: 0=Compress 4=Decompress 6=ZLIB_RUNTIME_VERSION 7=ZLIB_VERSION 34=adler32 35=compress 36=compressobj 37=crc32 38=decompress 39=decompressobj 40=error -/
/- module 172 = zoneinfo: 0=InvalidTZPathWarning 1=TZPATH 2=ZoneInfo 3=ZoneInfoNotFoundError 18=available_timezones 19=reset_tzpath -/
/-- `(module id, ids of declared Python names, bitset of known attribute ids)` -/
def modules : List (Nat × List Nat × Nat) := [
  (0, [10, 21, 23, 25, 26, 27, 28, 29, 30, 31], 0xffffffff),
  (1, [0, 1, 21, 22, 24], 0x7ffffff),
  (2, [3, 33], 0xfffffffffffffff),
  (3, [13, 14], 0x7fff),
  (4, [0, 1, 2, 3, 4, 5, 6, 7, 8, 9, 10, 14, 15, 16, 17, 18, 19, 21, 22, 23, 24, 25, 26, 27, 28, 29, 30, 32, 33, 37, 38, 39, 40, 42, 43, 44, 45, 46, 47, 48, 49, 50, 54, 55, 56, 57, 58, 59, 60, 61, 62, 63, 64, 65, 66, 67, 68, 69, 70, 71, 72, 73, 74, 75, 76, 77, 78, 80, 81, 82, 83, 84, 85, 86, 88, 90, 91, 92, 93, 94, 95, 96, 97, 98, 99, 100, 101, 102, 103, 104, 106, 107, 109, 110, 111, 112, 113, 114, 115, 116, 117, 118, 119, 120, 163, 164, 165, 167, 168, 169, 172, 174, 175, 177, 182, 183, 185, 188, 189, 190, 193, 196, 197, 198, 200], 0x1ffffffffffffffffffffffffffffffffffffffffffffffffff),
  (5, [2, 3, 4, 6, 23, 27, 32, 35, 36, 37, 40, 45, 51, 56, 94, 101, 107, 108, 119, 127, 141], 0x7fffffffffffffffffffffffffffffffffffff),
  (6, [0, 2], 0x7fffffffffffffff),
  (7, [26, 27], 0x3ffffffff),
  (8, [0, 1, 2, 4, 6], 0x1fffffffffffffff),
  (9, [1, 34], 0x3fffffffff),
  (10, [1, 2, 3, 4, 5], 0x7fffff),
  (11, [0, 20], 0x1ffffff),
  (12, [4, 82, 89, 96], 0x7fffffffffffffffffffffffff),
  (13, [14], 0x7fff),
  (14, [10, 11], 0xfff),
  (15, [39, 40, 41, 42, 45, 46], 0x7ffffffffffffffff),
  (16, [0, 2, 26], 0x1fffffff),
  (17, [13, 21, 24], 0x1ffffff),
  (18, [8, 9, 10], 0x3fff),
  (19, [134, 136, 138, 139, 153, 180, 189, 192, 199], 0x7ffffffffffffffffffffffffffffffffffffffffffffffffffff),
  (20, [2, 29], 0xffffffff),
  (21, [2, 9, 17, 18, 30, 54, 68], 0x7fffffffffffffffffffff),
  (22, [], 0x3fffffffff),
  (23, [0], 0x7fff),
  (24, [14], 0x3ffff),
  (25, [0, 5, 6, 7, 8, 9, 10, 11, 12, 13, 14, 15, 16, 17, 18, 19, 20, 21, 22, 24, 55, 56, 59, 60, 70, 79, 83, 92], 0xffffffffffffffffffffffffffff),
  (26, [], 0xfffff),
  (27, [0, 1, 2, 3, 4, 5, 47, 48, 49, 50], 0x7ffffffffffff),
  (28, [1, 2, 3, 4, 5, 6, 7, 8, 9, 10, 11, 12, 15, 17, 18, 19, 20, 21, 22, 23, 24, 25, 26, 27, 28, 29, 30, 31], 0x1ffffffffffffff7fd),
  (29, [], 0x7ffff),
  (30, [13, 14, 15], 0xffffff),
  (31, [1], 0x3ffffffffffffff),
  (32, [5, 48, 49], 0x3ffffffffffffff),
  (33, [0, 24, 25], 0x1fffffff),
  (34, [0, 1, 2, 5, 6, 7, 8, 9, 10, 11, 25, 31, 34, 36], 0x1fffffffff),
  (35, [0, 1, 2, 5, 16, 19, 24, 27, 31, 34, 52, 54, 85, 86, 87, 88, 90, 91, 92, 93, 94, 95, 96, 97, 98, 99, 100, 101, 102, 103, 104, 105, 106, 107, 108, 109, 110, 111, 112, 113, 114, 115, 116, 118, 119, 120, 122, 123, 124, 125, 127, 128, 134, 135, 136, 137, 138, 142], 0x7fffffffffffffffffffffffffffffffffff),
  (36, [], 0x1fff),
  (37, [13], 0x3fffff),
  (38, [], 0xffffffffffffffffffffffffffffffffffffff),
  (39, [0, 5, 6, 22, 23, 76, 77, 81], 0x3ffffffffffffffffffffff),
  (40, [0, 1, 2, 16, 17, 20, 21, 22, 23], 0xffffff),
  (41, [0, 2, 4, 7, 11, 49, 50, 51], 0xfffffffffffff),
  (42, [0, 2, 3, 4, 6, 31, 32, 33, 34, 35, 36], 0x1fffffffff),
  (43, [2, 16, 25, 86, 87, 90, 92, 98, 99, 100, 101, 102, 105, 106, 107, 113, 114, 117], 0x7ffffffffffffffffffffffffffffff),
  (44, [33, 84, 85], 0x1ffffffffffffffffffffff),
  (45, [18, 20, 22, 24, 26, 32, 33], 0xfffffffff),
  (46, [0, 24], 0x7ffffff),
  (47, [0, 1, 2, 3, 4, 5, 6, 8, 9, 10, 11, 12, 13, 15, 16, 17, 18, 20, 21, 22, 23, 24, 25, 26, 27], 0xfffffffff),
  (48, [0, 2, 3], 0x7fffffff),
  (49, [0, 1, 2, 3, 4, 5, 6, 7, 8, 9, 11, 12, 14, 15, 17, 18, 19], 0x3ffffffff),
  (50, [4], 0x7ffffffffff),
  (51, [1, 2, 4, 5], 0x3ffff),
  (52, [2, 3, 6, 7, 20, 24], 0x3ffffff),
  (53, [4, 8, 9, 11, 12, 17, 19, 60], 0x1fffffffffffffffffff),
  (54, [0, 1, 2, 3, 4, 5, 6, 7, 10, 12, 13, 15, 16, 18, 19, 20, 21, 22, 23, 24, 25, 26, 27, 28, 29, 30, 31, 33, 34, 35, 36, 37, 38, 40, 41, 42, 43, 44, 45, 46, 47, 48, 49, 50, 54, 55, 56, 57, 58, 59, 60, 61, 62, 63, 65, 67, 68, 69, 70, 71, 72, 74, 75, 76, 77, 78, 80, 81, 82, 83, 84, 85, 87, 88, 90, 91, 92, 93, 95, 96, 97, 98, 99, 101, 102, 103, 104, 105, 106, 107, 108, 109, 110, 111, 112, 113, 114, 115, 116, 117, 118, 123, 124, 125, 127, 128, 129, 130, 131, 132, 134, 137, 138, 139, 140, 141, 142, 143, 144, 145, 146, 147, 148, 149, 150, 151, 152, 153, 207], 0xffffffffffffffffffffffffffffffffffffffffffffffffffff),
  (55, [17, 18, 19, 21], 0x1ffffff),
  (56, [0, 15, 16, 17, 18, 19, 20, 21, 23, 24, 25, 26], 0x1fffffff),
  (57, [13, 14, 15, 20], 0x1fffff),
  (58, [1], 0x1fffffff),
  (59, [3, 5, 21, 22, 23, 24, 25], 0xfffffffff),
  (60, [51, 52, 53, 55, 57, 58, 60, 61, 62, 63, 64, 65], 0x3ffffffffffffffff),
  (61, [17, 29, 32, 36], 0x3fffffffffff),
  (62, [0, 2], 0xffff),
  (63, [0, 6, 37, 38, 41], 0xffffffffffff),
  (64, [0, 1, 18, 19, 20, 22, 23, 24, 27, 28, 29, 30, 31, 32, 33, 34, 35, 36, 37], 0x3ffffffffc),
  (65, [18, 19, 20, 21], 0x3ffffff),
  (66, [0, 15, 16, 18], 0x1fffff),
  (67, [16, 17, 18, 19], 0xfffff),
  (68, [9, 10, 11, 12], 0x1fff),
  (69, [0], 0x3ffffff),
  (70, [0, 1, 2, 3, 15, 16, 17, 18], 0x7ffff),
  (71, [4, 9, 10, 18, 19, 20, 21, 22, 23, 24, 30, 31, 32, 36, 51, 67, 68, 83, 84, 85, 119, 123], 0xffffffffffffffffffffffffffffffff),
  (72, [1, 2, 3, 6, 9, 22], 0x1fffffffffffffffffffff),
  (73, [0, 1, 2, 3], 0xfffffffff),
  (74, [0, 1, 4, 6, 7], 0x7ffffffffff),
  (75, [6, 22, 24, 27, 32], 0x3ffffffff),
  (76, [8], 0x3ffffff),
  (77, [6, 7, 8, 9, 10, 15, 21, 22, 23, 25, 26, 27, 67, 68, 70, 71, 78, 82, 87, 94], 0x1ffffffffffffffffffffffff),
  (78, [9, 10], 0xfff),
  (79, [2, 24], 0x3fffffffff),
  (80, [28, 35, 36, 38, 123, 144, 147, 148, 155, 157, 166, 167, 168, 169, 170, 171, 172, 173, 174, 175, 176, 177, 178, 179, 180, 182, 183, 184, 185, 186, 187, 188, 199], 0x3ffffffffffffffffffffffffffffffffffffffffffffffffffff),
  (81, [0, 1, 2, 3, 4, 5, 6, 7, 8, 9, 12, 16, 17, 18, 19, 36, 37, 38], 0x7fffffffff),
  (82, [0, 3, 4, 5, 6, 7, 8, 9, 11, 13, 14, 15, 16, 36, 39, 42, 43, 44], 0x1fffffffffff),
  (83, [25, 27, 28, 29, 30, 31, 32, 33, 34, 35, 36, 37, 38, 39, 40, 42, 43, 44], 0x1fffffffffff),
  (84, [0, 1, 2, 20, 21, 23, 24], 0x7ffffff),
  (85, [9, 10, 11, 13], 0x3fff),
  (86, [37, 114, 120], 0xffffffffffffffffffffffffffffffff),
  (87, [0, 1, 2, 3, 4, 5, 6, 7, 8, 9, 11, 12, 13, 14, 15, 16, 17, 18, 19, 20, 21, 22, 23, 24, 27, 78, 80, 84, 86, 87, 88, 89, 93, 94, 95, 96, 97, 99, 102, 107, 111, 114, 120], 0x7ffffffffffffffffffffffffffffff),
  (88, [], 0x1fffffffffffff),
  (89, [0, 1, 2, 3, 4, 5, 6, 7, 8, 9, 10, 11, 12, 13, 17, 18, 19, 20, 21, 22], 0x1fffffffffff),
  (90, [0, 1, 2, 3, 4, 5, 6, 7, 8, 9, 10, 11, 12, 13, 14, 15, 16, 17, 18, 19, 20, 21, 22, 23, 24, 25, 26, 27, 28, 29, 30, 31, 51, 52, 54, 55], 0x1ffffffffffffff),
  (91, [6, 7, 8, 9, 10], 0x7ff),
  (92, [19, 20, 21, 22, 23, 25, 27, 28, 29, 30, 31, 34, 37, 40, 41, 42, 44, 45, 46, 52, 53, 54, 55, 56, 60, 61, 63, 67, 68, 70, 73, 74, 75, 77, 78, 79, 80], 0x3ffffffffffffffffffff),
  (93, [17, 19, 20, 21, 25, 26, 27, 28, 31, 32, 33, 34, 35, 37, 38, 40, 41, 43, 44, 45, 46, 50, 51, 52, 53, 56, 57, 58, 61], 0x7fffffffffffffff),
  (94, [1, 2, 3, 4, 5], 0x7ffff),
  (95, [5, 6, 8, 11, 16, 19, 21, 30, 32, 39, 41, 42, 44, 45, 47, 48, 49, 50, 52, 53, 54, 57, 58, 59, 61, 63, 64, 65, 70, 72, 74, 83, 85, 86, 90, 91, 93, 96, 98, 99, 102, 103, 104, 105, 106, 107, 108, 109, 110, 112, 113, 114, 115], 0xfffffffffffffffffffffffffffff),
  (96, [20, 21, 22, 23, 24, 25, 26, 27, 28, 29, 30, 31, 32, 33, 34, 35, 36, 37, 38, 39, 40, 41, 43, 44, 45, 49, 50, 51, 52, 53, 54, 55, 56, 57, 58, 59, 60, 61, 62, 63, 64, 65, 69, 71, 72, 73, 74, 75, 76, 77, 78, 79, 80, 82, 83, 85, 86, 87, 88, 89, 90, 91, 92, 93, 94, 95, 96, 98, 99, 100, 101, 102, 103, 104, 105, 106, 107, 109, 110, 111, 112, 113, 114, 119, 120, 121, 122, 123, 124, 125, 135, 143, 144, 145, 146, 147, 156, 157, 158, 159, 160, 161, 162, 163, 164, 199, 200, 201, 226, 240, 241, 242, 244, 245, 246, 247, 248, 249, 250, 253, 255, 256, 258, 260, 261, 262, 263, 265, 266, 267, 268, 269, 270, 271, 272, 273, 274, 275, 277, 278, 279, 280, 281, 282, 283, 284, 285, 286, 287, 288, 289, 290, 291, 292, 293, 294, 295, 296, 297, 298, 299, 300, 301, 302, 303, 304, 305, 306, 308, 309, 310, 311, 312, 313, 314, 315, 316, 317, 318, 319, 321, 322, 323, 324, 326, 327, 329, 330, 331, 332, 333, 334, 335, 336, 337, 338, 339, 340, 341, 342, 343, 344, 345, 346, 347, 348, 349, 350, 352, 353, 356, 357, 358, 359, 360, 361, 362, 364, 365, 366, 367, 370, 371, 372, 373, 374, 375, 376, 377, 378, 379, 380, 381, 382, 383, 384, 396, 398, 399, 400, 401, 402, 403, 404, 405, 406, 407, 408, 409, 410, 411, 412, 413, 414, 415, 416, 417, 418, 419, 420, 421, 422, 423, 424, 426, 428, 429, 431, 432, 433, 434, 435, 436, 437, 438, 442, 443, 444, 451, 454, 455, 456, 458, 460, 461, 462, 463, 464, 467, 471, 472, 473], 0x3ffffffffffffffffffffffffffffffffffffffffffffffffffffffffffffffffffffffffffffffffffffffffffffffffffffdfffffffffffffffff),
  (97, [15, 17, 18, 19, 23, 24, 25, 26, 29, 30, 31, 32, 33, 34, 35, 36, 37, 38, 39, 41, 42, 43, 44, 48, 49, 50, 51, 52, 53, 54, 55, 56, 57, 59], 0x1fffffffffffffff),
  (98, [5, 6, 7, 8, 9, 19], 0xffffffffffffffffffff),
  (99, [2, 46, 50, 51, 53, 54], 0x7fffffffffffffff),
  (100, [0, 1, 2, 3, 4, 5, 6, 7, 8, 9, 10, 11, 12, 13, 14, 15, 16, 17, 18, 19, 20, 21, 22, 23, 24, 25, 26, 27, 28, 29, 30, 32, 33, 34, 35, 36, 37, 38, 39, 40, 41, 42, 43, 44, 45, 46, 47, 48, 49, 50, 51, 52, 53, 54, 55, 56, 58, 60, 62, 63, 64, 65, 66, 67, 68, 69, 70, 71, 72, 73, 74, 75, 76, 77, 79, 107, 109, 112, 113, 115, 118, 119], 0x7fffffffffffffffffffffffffffffff),
  (101, [59, 67, 69, 70, 71, 73, 75, 76, 77, 78, 79, 80, 81, 82, 84, 87, 88, 89, 91, 93, 94, 95], 0xffffffffffffffffffffffff),
  (102, [354], 0x3ffffffffffffffffffffffffffffffffffffffffffffffffffffffffffffffffffffffffffffffffffffffffffff),
  (103, [15, 17, 18, 19, 23, 24, 25, 26, 29, 30, 31, 32, 33, 35, 36, 38, 39, 40, 41, 42, 43, 47, 48, 49, 50, 53, 54, 55, 58], 0xfffffffffffffff),
  (104, [0, 22, 23, 24, 25, 26, 28], 0x1fffffff),
  (105, [0, 12], 0x7ffff),
  (106, [], 0xffffffffffffffffffffffffff),
  (107, [0, 1, 2, 3, 4, 5, 6], 0xffffff),
  (108, [4, 6, 51, 53, 54, 55, 56, 57, 58, 59, 60, 62, 63, 64, 65, 66, 67, 68, 69, 70, 71, 72, 73, 74, 75], 0xfffffffffffffffffff),
  (109, [0, 1, 2, 3, 4, 5, 6, 7, 8, 9, 10, 11, 12, 14, 15, 21, 22, 55, 59, 60, 61, 62, 64, 65, 66, 67, 70, 71], 0x1ffffffffffffffffff),
  (110, [], 0x7fffff),
  (111, [14, 16, 18, 19], 0x1fffff),
  (112, [21, 62, 64, 65, 66, 67, 68, 69, 70, 71, 74, 75, 76, 79, 80, 81, 85, 86, 87, 90, 91, 92, 94], 0x7fffffffffffffffffffffff),
  (113, [0, 1, 2, 3, 4, 5, 7, 9, 10, 11, 12, 13, 14, 16, 17, 18, 20, 23, 24, 31, 32, 35, 41, 42, 44, 47, 48, 49, 50, 51, 52, 53, 68, 71, 72, 80, 85], 0xffffffffffffffffffffff),
  (114, [0, 1, 2, 3, 4, 5, 6, 7, 8, 9, 11, 13, 14, 15, 16, 17, 19, 20, 21, 22, 23, 24, 25, 26, 27, 28, 29, 30, 32, 33, 34, 35, 36, 37, 58, 357, 359, 360, 361, 362, 363, 366, 367, 369, 372, 374, 375, 376, 377, 379, 380, 382, 383, 384, 385, 386, 388, 389, 390, 391, 392, 393, 394, 395, 396, 397, 398, 399, 400, 401, 402, 403, 404, 405, 406, 407, 409, 410, 411, 412, 414, 415, 416, 419, 511, 512, 513, 518, 521, 524, 525, 526, 527, 528, 532, 553, 554], 0x1fffffffffffffffffffffffffffffffffffffffffffffffffffffffffffffffffffffffffffffffffffffffffffffffffffffffffffffffffffffffffffffffffffffffffff),
  (115, [0, 1, 3, 4, 5, 6, 9, 10, 11, 12, 13, 16, 17, 18], 0x7ffffffffff),
  (116, [1, 3, 4, 21, 234, 235], 0x7ffffffffffffffffffffffffffffffffffffffffffffffffffffffffffffff),
  (117, [49, 50, 83, 84, 85, 86, 90, 91, 92, 93, 97, 98, 99, 100, 101, 167], 0x3fffffffffffffffffffffffffffffffffffffffffffff),
  (118, [0, 1, 2, 3, 4, 5, 6, 7, 8, 9, 10, 11, 12, 13, 14, 15, 16, 20, 21, 24, 25, 28, 31, 32, 33, 34, 35, 36, 37, 38, 39, 40, 41, 42, 43, 44, 45, 46, 47, 48, 49, 50, 51, 52, 53, 54, 55, 56, 57, 58, 59, 60, 61, 62, 63, 64, 65, 66, 67, 68, 69, 70, 71, 72, 73, 74, 75, 76, 77, 78, 79, 80, 81, 82, 83, 85, 86, 87, 88, 89, 101], 0x3fffffffffffffffffffffffff),
  (119, [55, 59, 64, 66, 68, 75, 78, 79, 80, 81, 82, 83, 85, 89, 90, 91, 97, 102], 0x7fffffffffffffffffffffffff),
  (120, [0, 1, 16, 17, 18, 19, 20, 21, 22, 23, 24, 26], 0x7ffffff),
  (121, [0, 11, 12, 13, 14, 15, 16, 17], 0x3ffff),
  (122, [7, 8, 10, 14, 15, 22, 27, 28, 66, 67, 68, 80], 0x1ffffffffffffffffffffff),
  (123, [1, 10, 17, 18, 20, 37], 0x7fffffffff),
  (124, [21, 22, 23, 29, 31, 56, 58, 59, 60, 61, 62, 63, 64, 65, 66, 69, 71, 72, 73, 74, 76, 77, 78, 79, 80, 81, 82, 90, 95, 96, 97, 98, 103, 104, 105, 106, 107, 108, 114, 115, 116, 117, 120, 123, 124, 125, 126, 127, 128, 136, 139, 140, 141, 142, 146, 147], 0x3fffffffffffffffffffffffffffffffffffff),
  (125, [49, 90, 95], 0x1fffffffffffffffffffffffffff),
  (126, [0, 3, 4, 10, 46, 47, 48, 49, 50, 51, 53], 0x7fffffffffffff),
  (127, [0, 13, 14, 15, 17, 18], 0x7ffff),
  (128, [0, 1, 2, 3, 4, 6, 7, 8, 10, 12, 71, 81], 0x1ffffffffffffffffffffff),
  (129, [0, 2, 3, 5, 6, 7, 22, 23, 24, 25, 26, 27, 28, 29, 30, 31, 33, 34, 35, 36, 37, 38, 39, 40, 41, 43, 44, 45, 46, 47, 48, 49, 50, 51, 52, 53], 0x3fffffffffffff),
  (130, [25], 0x3ffffff),
  (131, [11, 13, 22, 23, 32, 38, 49, 50, 51, 55, 56, 57, 72, 77, 78, 98, 99, 100, 107, 108, 110, 118], 0xffffffffffffffffffffffffffffffffffffffffffffffffff),
  (132, [11], 0xfff),
  (133, [26], 0xfffffffffffffffffffffffffffffffffffff),
  (134, [0, 1, 2, 3, 4, 5, 6, 7, 8, 9, 10, 11, 12, 13, 14, 15, 16, 17, 18, 19, 20, 21, 22, 23, 24, 25, 26, 27, 28, 29, 30, 31, 32, 33, 34, 35, 36, 37, 38, 39, 40, 41, 42, 43, 44, 45, 46, 47, 48, 49, 50, 51, 52, 53, 54, 55, 56, 57, 58, 59, 60, 61, 62, 63, 64, 65, 66, 67, 68, 69, 70, 71, 72, 73, 74, 75, 76], 0x1fffffffffffffffffffff),
  (135, [27], 0x7fffffffffffffffffffffffffffffffffffff),
  (136, [0], 0xffff),
  (137, [40, 143, 145, 146, 149], 0x1ffffffffffffffffffffffffffffffffffffffffff),
  (138, [1], 0x7fffff),
  (139, [28, 29, 30, 31, 33, 34, 35], 0xfffffffff),
  (140, [8], 0x1fffff),
  (141, [101, 144, 145, 146], 0x7fffffffffffffffffffffffffffffffffffffffff),
  (142, [1, 2, 10, 14, 15, 18, 19, 21, 22], 0x7fffffffffffffffffff),
  (143, [14, 15], 0xffff),
  (144, [0, 2], 0x1fffffffff),
  (145, [4, 58], 0x1ffffffffffffffff),
  (146, [254, 255], 0xffffffffffffffffffffffffffffffffffffffffffffffffffffffffffffffffff),
  (147, [0, 1, 2, 4, 5, 6, 7, 9, 10, 11, 12, 13, 15, 16, 18, 19, 20, 21, 22, 23, 25, 26, 27], 0x3ffffffffffffff),
  (148, [1, 2, 3, 4, 5, 6, 7, 8, 9, 11, 12, 14, 15, 16, 17, 18, 19, 20, 21, 22, 23, 24, 25, 27, 28, 29, 30, 31, 33, 34, 35, 36, 37, 39, 40, 41, 42, 43, 44, 45, 48, 49, 50, 51, 53, 54, 55, 56, 57, 58, 59, 60, 61, 62, 63, 64, 65, 66, 67, 68, 69, 70, 71, 72, 73, 74, 75, 76, 77, 78, 80, 83, 84, 85, 86, 87, 88, 89, 90, 91, 92, 93, 94, 95, 99, 141, 238, 239, 240, 241, 247, 249, 250, 251, 252, 253, 255, 256, 257, 258, 260, 261, 263, 264, 267], 0x3fffffffffffffffffffffffffffffffffffffffffffffffffffffffffffffffffff),
  (149, [0, 11, 12, 13, 14, 15, 16, 17, 18, 19, 20, 21, 22, 23, 24, 26], 0x7ffffff),
  (150, [0, 3, 4, 5, 6, 7, 8, 9, 10, 28, 29, 33, 34, 35, 37, 38, 39, 41, 43, 44, 45, 46, 50], 0xfffffffffffff),
  (151, [0, 2, 3, 47], 0x1ffffffffffffffff),
  (152, [0, 1, 21, 22, 23, 27, 28, 31], 0x1fffffffff),
  (153, [2], 0x1ffffff),
  (154, [1, 2, 3, 4, 6, 8, 9, 11, 12, 13, 14, 16, 18, 19, 137], 0x1fffffffffffffffffffffffffffffffffff),
  (155, [2, 14], 0xfffff),
  (156, [0, 1], 0x3fffff),
  (157, [14, 15, 16, 17], 0x1fffff),
  (158, [0, 1], 0x7ffff),
  (159, [29, 30, 31, 32, 33], 0x3ffffffff),
  (160, [9, 10, 11, 12], 0x3fff),
  (161, [0, 1, 2], 0x3fff),
  (162, [78, 105], 0x7ffffffffffffffffffffffffffff),
  (163, [0, 1, 3, 4, 6, 7, 9, 10, 11, 12, 13, 15, 16, 17, 18, 19, 20, 21, 23, 24, 25, 26, 27, 30, 72, 82, 119], 0x1fffffffffffffffffffffffffffffff),
  (164, [9, 10, 11, 12, 13], 0x3fff),
  (165, [0, 2], 0x7fff),
  (166, [1, 2, 3, 4, 5, 6, 7, 8, 9, 10, 56, 62, 63, 64, 65], 0x3ffffffffffffffff),
  (167, [1, 11], 0x1fffff),
  (168, [35, 39, 40, 42, 43, 44, 46, 47], 0xffffffffffff),
  (169, [4], 0x7ffffffff),
  (170, [22, 134], 0x7ffffffffffffffffffffffffffffffffffffffff),
  (171, [0, 4, 6, 7, 34, 35, 36, 37, 38, 39, 40], 0x1ffffffffee),
  (172, [0, 1, 2, 3, 18, 19], 0xfffff)]

/-- recorded finding K (known_findings.json, id C27-undeclared-attrs): `(module id, name id)` of declarations that name no
    attribute, kept unfixed: collections.abc.ContextManager, collections.abc.AsyncContextManager, hashlib.HASH, hashlib.HASHXOF, os.OSError, zlib.Compress, zlib.Decompress -/
def kfind : List (Nat × Nat) := [(28, 1), (28, 11), (64, 0), (64, 1), (96, 69), (171, 0), (171, 4)]

end ErgVerif.Gen.C27
