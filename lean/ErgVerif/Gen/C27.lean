/- GENERATED on every run by checks/c27.py from the working tree (harness `c27 dump`: pystd declarations parsed by erg_parser),
   the installed interpreters 3.7-3.13 (py/c27_dump_attrs.py) and the bundled typeshed stubs (py/c27_typeshed.py). Never edit.
   Per module: names are interned to Nat ids over (known ∪ declared) in sorted order (full tables: evidence/C27.intern.json);
   `decls` = ids of the Python names of the top-level public declarations (sorted, distinct), `known` = bitset of the ids that
   are attributes of the module in some interpreter or typeshed branch. -/
namespace ErgVerif.Gen.C27

/- module 0 = __future__: 10=_Feature 21=absolute_import 23=annotations 25=division 26=generator_stop 27=generators 28=nested_scopes 29=print_function 30=unicode_literals 31=with_statement -/
/- module 1 = abc: 0=ABC 1=ABCMeta 21=abstractclassmethod 22=abstractmethod 24=abstractstaticmethod -/
/- module 2 = argparse: 3=ArgumentParser 33=_StoreAction -/
/- module 3 = array: 13=array 14=typecodes -/
/- module 4 = ast: 0=AST 1=Add 2=And 3=AnnAssign 4=Assert 5=Assign 6=AsyncFor 7=AsyncFunctionDef 8=AsyncWith 9=Attribute 10=AugAssign 14=BinOp 15=BitAnd 16=BitOr 17=BitXor 18=BoolOp 19=Break 21=Call 22=ClassDef 23=Compare 24=Constant 25=Continue 26=Del 27=Delete 28=Dict 29=DictComp 30=Div 32=Eq 33=ExceptHandler 37=FloorDiv 38=For 39=FormattedValue 40=FunctionDef 42=GeneratorExp 43=Global 44=Gt 45=GtE 46=If 47=IfExp 48=Import 49=ImportFrom 50=In 55=Invert 56=Is 57=IsNot 58=JoinedStr 59=LShift 60=Lambda 61=List 62=ListComp 63=Load 64=Lt 65=LtE 66=MatMult 67=Match 68=MatchAs 69=MatchClass 70=MatchMapping 71=MatchOr 72=MatchSequence 73=MatchSingleton 74=MatchStar 75=MatchValue 76=Mod 77=Module 78=Mult 79=Name 81=NamedExpr 82=NodeTransformer 83=NodeVisitor 84=Nonlocal 85=Not 86=NotEq 87=NotIn 89=Or 91=ParamSpec 92=Pass 93=Pow 94=PyCF_ALLOW_TOP_LEVEL_AWAIT 95=PyCF_ONLY_AST 96=PyCF_OPTIMIZED_AST 97=PyCF_TYPE_COMMENTS 98=RShift 99=Raise 100=Return 101=Set 102=SetComp 103=Slice 104=Starred 105=Store 107=Sub 108=Subscript 111=Try 112=TryStar 113=Tuple 114=TypeAlias 115=TypeIgnore 116=TypeVar 117=TypeVarTuple 118=UAdd 119=USub 120=UnaryOp 121=While 122=With 165=alias 166=arg 167=arguments 169=boolop 170=cmpop 172=comprehension 175=dump 177=expr 178=expr_context 180=get_docstring 185=keyword 186=literal_eval 188=match_case 191=operator 192=parse 193=pattern 196=stmt 199=type_param 200=unaryop 201=unparse 203=withitem -/
/- module 5 = asyncio: 2=AbstractEventLoop 3=AbstractEventLoopPolicy 4=AbstractServer 6=BaseEventLoop 25=Handle 29=LifoQueue 34=PriorityQueue 37=Queue 38=QueueEmpty 39=QueueFull 42=Runner 47=Server 53=Task 58=TimerHandle 100=current_task 110=gather 116=iscoroutine 117=iscoroutinefunction 129=run 137=sleep 151=to_thread -/
/- module 6 = asyncio.base_events: 0=BaseEventLoop 2=Server -/
/- module 7 = asyncio.coroutines: 26=iscoroutine 27=iscoroutinefunction -/
/- module 8 = asyncio.events: 0=AbstractEventLoop 1=AbstractEventLoopPolicy 2=AbstractServer 4=Handle 6=TimerHandle -/
/- module 9 = asyncio.futures: 1=Future 36=isfuture -/
/- module 10 = asyncio.queues: 1=LifoQueue 2=PriorityQueue 3=Queue 4=QueueEmpty 5=QueueFull -/
/- module 11 = asyncio.runners: 0=Runner 20=run -/
/- module 12 = asyncio.tasks: 4=Task 82=current_task 89=gather 96=sleep -/
/- module 13 = asyncio.threads: 14=to_thread -/
/- module 14 = atexit: 10=register 11=unregister -/
/- module 15 = base64: 39=b16decode 40=b16encode 41=b32decode 42=b32encode 45=b64decode 46=b64encode -/
/- module 16 = bdb: 0=Bdb 2=Breakpoint 26=set_trace -/
/- module 17 = binascii: 26=a2b_uu 37=hexlify 40=unhexlify -/
/- module 18 = bisect: 8=bisect 9=bisect_left 10=bisect_right -/
/- module 19 = builtins: 136=abs 138=all 140=any 141=ascii 155=dict 183=list 192=open 195=print 203=set -/
/- module 20 = bz2: 2=BZ2File 29=open -/
/- module 21 = calendar: 2=Calendar 9=HTMLCalendar 17=LocaleHTMLCalendar 18=LocaleTextCalendar 30=TextCalendar 54=calendar 68=month -/
/- module 22 = cmath:  -/
/- module 23 = cmd: 0=Cmd -/
/- module 24 = code: 14=compile_command -/
/- module 25 = codecs: 0=BOM 5=BOM_BE 6=BOM_LE 7=BOM_UTF16 8=BOM_UTF16_BE 9=BOM_UTF16_LE 10=BOM_UTF32 11=BOM_UTF32_BE 12=BOM_UTF32_LE 13=BOM_UTF8 14=BufferedIncrementalDecoder 15=BufferedIncrementalEncoder 16=Codec 17=CodecInfo 18=EncodedFile 19=IncrementalDecoder 20=IncrementalEncoder 21=StreamReader 22=StreamReaderWriter 24=StreamWriter 55=decode 56=encode 59=getdecoder 60=getencoder 70=lookup 79=open 83=register 92=unregister -/
/- module 26 = codeop:  -/
/- module 27 = collections: 0=ChainMap 1=Counter 2=OrderedDict 3=UserDict 4=UserList 5=UserString 47=abc 48=defaultdict 49=deque 50=namedtuple -/
/- module 28 = collections.abc: 1=AsyncContextManager 2=AsyncGenerator 3=AsyncIterable 4=AsyncIterator 5=Awaitable 6=Buffer 7=ByteString 8=Callable 9=Collection 10=Container 11=ContextManager 12=Coroutine 15=Generator 17=Hashable 18=ItemsView 19=Iterable 20=Iterator 21=KeysView 22=Mapping 23=MappingView 24=MutableMapping 25=MutableSequence 26=MutableSet 27=Reversible 28=Sequence 29=Set 30=Sized 31=ValuesView -/
/- module 29 = colorsys:  -/
/- module 30 = compileall: 13=compile_dir 14=compile_file 15=compile_path -/
/- module 31 = configparser: 1=ConfigParser -/
/- module 32 = contextlib: 5=ExitStack 48=closing 49=contextmanager -/
/- module 33 = copy: 0=Error 24=copy 25=deepcopy -/
/- module 34 = csv: 0=Dialect 1=DictReader 2=DictWriter 5=QUOTE_ALL 6=QUOTE_MINIMAL 7=QUOTE_NONE 8=QUOTE_NONNUMERIC 9=QUOTE_NOTNULL 10=QUOTE_STRINGS 11=Sniffer 25=excel 31=reader 34=unix_dialect 36=writer -/
/- module 35 = ctypes: 0=ARRAY 1=ArgumentError 2=Array 5=CDLL 19=OleDLL 22=PyDLL 27=Structure 30=WinDLL 34=_CData 37=_CFuncPtr 55=_Pointer 57=_SimpleCData 88=addressof 89=alignment 90=byref 91=c_bool 93=c_byte 94=c_char 95=c_char_p 96=c_double 98=c_float 100=c_int 101=c_int16 102=c_int32 103=c_int64 104=c_int8 105=c_long 106=c_longdouble 108=c_longlong 109=c_short 110=c_size_t 111=c_ssize_t 112=c_time_t 113=c_ubyte 114=c_uint 115=c_uint16 116=c_uint32 117=c_uint64 118=c_uint8 119=c_ulong 120=c_ulonglong 121=c_ushort 122=c_void_p 124=c_wchar 125=c_wchar_p 126=cast 128=create_string_buffer 129=create_unicode_buffer 130=get_errno 131=get_last_error 133=memmove 135=memset 141=resize 142=set_errno 143=set_last_error 144=sizeof 145=string_at 149=wstring_at -/
/- module 36 = ctypes.macholib:  -/
/- module 37 = ctypes.util: 14=find_library -/
/- module 38 = ctypes.wintypes:  -/
/- module 39 = dataclasses: 0=Field 5=KW_ONLY 6=MISSING 22=_KW_ONLY_TYPE 23=_MISSING_TYPE 76=dataclass 77=field 81=is_dataclass -/
/- module 40 = datetime: 0=MAXYEAR 1=MINYEAR 2=UTC 16=date 17=datetime 20=time 21=timedelta 22=timezone 23=tzinfo -/
/- module 41 = decimal: 0=BasicContext 2=Context 4=Decimal 7=DefaultContext 11=ExtendedContext 52=getcontext 53=localcontext 54=setcontext -/
/- module 42 = difflib: 0=Differ 2=HtmlDiff 3=IS_CHARACTER_JUNK 4=IS_LINE_JUNK 6=SequenceMatcher 31=context_diff 32=diff_bytes 33=get_close_matches 34=ndiff 35=restore 36=unified_diff -/
/- module 43 = dis: 2=Bytecode 16=Instruction 25=Positions 86=cmp_op 87=code_info 90=dis 92=disco 98=hasarg 99=hascompare 100=hasconst 101=hasexc 102=hasfree 105=hasjump 106=haslocal 107=hasname 113=opmap 114=opname 117=show_code -/
/- module 44 = doctest: 33=TestResults 84=testfile 85=testmod -/
/- module 45 = email: 18=contentmanager 20=errors 22=generator 24=headerregistry 26=message 32=parser 33=policy -/
/- module 46 = email.contentmanager: 0=ContentManager 24=set_text_content -/
/- module 47 = email.errors: 0=BoundaryError 1=CharsetError 2=CloseBoundaryNotFoundDefect 3=FirstHeaderLineIsContinuationDefect 4=HeaderDefect 5=HeaderMissingRequiredValue 6=HeaderParseError 8=InvalidBase64CharactersDefect 9=InvalidBase64LengthDefect 10=InvalidBase64PaddingDefect 11=InvalidDateDefect 12=InvalidHeaderDefect 13=InvalidMultipartContentTransferEncodingDefect 15=MessageDefect 16=MessageError 17=MessageParseError 18=MisplacedEnvelopeHeaderDefect 20=MultipartConversionError 21=MultipartInvariantViolationDefect 22=NoBoundaryInMultipartDefect 23=NonASCIILocalPartDefect 24=NonPrintableDefect 25=ObsoleteHeaderDefect 26=StartBoundaryNotFoundDefect 27=UndecodableBytesDefect -/
/- module 48 = email.generator: 0=BytesGenerator 2=DecodedGenerator 3=Generator -/
/- module 49 = email.headerregistry: 0=Address 1=AddressHeader 2=BaseHeader 3=ContentDispositionHeader 4=ContentTransferEncodingHeader 5=ContentTypeHeader 6=DateHeader 7=Group 8=HeaderRegistry 9=MIMEVersionHeader 11=MessageIDHeader 12=ParameterizedMIMEHeader 14=SingleAddressHeader 15=UniqueAddressHeader 17=UniqueSingleAddressHeader 18=UniqueUnstructuredHeader 19=UnstructuredHeader -/
/- module 50 = email.message: 4=Message -/
/- module 51 = email.parser: 1=BytesHeaderParser 2=BytesParser 4=HeaderParser 5=Parser -/
/- module 52 = email.policy: 2=EmailPolicy 3=HTTP 6=SMTP 7=SMTPUTF8 20=default 24=strict -/
/- module 53 = enum: 4=Enum 8=EnumType 9=Flag 11=IntEnum 12=IntFlag 17=ReprEnum 19=StrEnum 60=auto -/
/- module 54 = errno: 0=E2BIG 1=EACCES 2=EADDRINUSE 3=EADDRNOTAVAIL 4=EADV 5=EAFNOSUPPORT 6=EAGAIN 7=EALREADY 10=EBADE 12=EBADF 13=EBADFD 15=EBADMSG 16=EBADR 18=EBADRQC 19=EBADSLT 20=EBFONT 21=EBUSY 22=ECANCELED 23=ECHILD 24=ECHRNG 25=ECOMM 26=ECONNABORTED 27=ECONNREFUSED 28=ECONNRESET 29=EDEADLK 30=EDEADLOCK 31=EDESTADDRREQ 33=EDOM 34=EDOTDOT 35=EDQUOT 36=EEXIST 37=EFAULT 38=EFBIG 40=EHOSTDOWN 41=EHOSTUNREACH 43=EIDRM 44=EILSEQ 45=EINPROGRESS 46=EINTR 47=EINVAL 48=EIO 49=EISCONN 50=EISDIR 51=EISNAM 55=EL2HLT 56=EL2NSYNC 57=EL3HLT 58=EL3RST 59=ELIBACC 60=ELIBBAD 61=ELIBEXEC 62=ELIBMAX 63=ELIBSCN 64=ELNRNG 66=ELOOP 68=EMFILE 69=EMLINK 70=EMSGSIZE 71=EMULTIHOP 72=ENAMETOOLONG 73=ENAVAIL 75=ENETDOWN 76=ENETRESET 77=ENETUNREACH 78=ENFILE 79=ENOANO 81=ENOBUFS 82=ENOCSI 83=ENODATA 84=ENODEV 85=ENOENT 86=ENOEXEC 88=ENOLCK 89=ENOLINK 91=ENOMEM 92=ENOMSG 93=ENONET 94=ENOPKG 96=ENOPROTOOPT 97=ENOSPC 98=ENOSR 99=ENOSTR 100=ENOSYS 102=ENOTBLK 103=ENOTCAPABLE 104=ENOTCONN 105=ENOTDIR 106=ENOTEMPTY 107=ENOTNAM 108=ENOTRECOVERABLE 109=ENOTSOCK 110=ENOTSUP 111=ENOTTY 112=ENOTUNIQ 113=ENXIO 114=EOPNOTSUPP 115=EOVERFLOW 116=EOWNERDEAD 117=EPERM 118=EPFNOSUPPORT 119=EPIPE 124=EPROTO 125=EPROTONOSUPPORT 126=EPROTOTYPE 128=EQFULL 129=ERANGE 130=EREMCHG 131=EREMOTE 132=EREMOTEIO 133=ERESTART 135=EROFS 138=ESHUTDOWN 139=ESOCKTNOSUPPORT 140=ESPIPE 141=ESRCH 142=ESRMNT 143=ESTALE 144=ESTRPIPE 145=ETIME 146=ETIMEDOUT 147=ETOOMANYREFS 148=ETXTBSY 149=EUCLEAN 150=EUNATCH 151=EUSERS 152=EWOULDBLOCK 153=EXDEV 154=EXFULL 208=errorcode -/
/- module 55 = filecmp: 17=clear_cache 18=cmp 19=cmpfiles 21=dircmp -/
/- module 56 = fileinput: 0=FileInput 15=close 16=filelineno 17=filename 18=fileno 19=hook_compressed 20=hook_encoded 21=input 23=isfirstline 24=isstdin 25=lineno 26=nextfile -/
/- module 57 = fnmatch: 13=filter 15=fnmatch 16=fnmatchcase 21=translate -/
/- module 58 = fractions: 1=Fraction -/
/- module 59 = ftplib: 3=FTP 5=FTP_TLS 21=all_errors 22=error_perm 23=error_proto 24=error_reply 25=error_temp -/
/- module 60 = functools: 53=cache 54=cached_property 55=cmp_to_key 57=lru_cache 59=partial 60=partialmethod 62=reduce 63=singledispatch 64=singledispatchmethod 65=total_ordering 66=update_wrapper 67=wraps -/
/- module 61 = glob: 17=_iglob 29=escape 32=glob 36=iglob -/
/- module 62 = graphlib: 0=CycleError 2=TopologicalSorter -/
/- module 63 = gzip: 0=BadGzipFile 6=GzipFile 37=compress 38=decompress 41=open -/
/- module 64 = hashlib: 0=HASH 1=HASHXOF 18=algorithms_available 19=algorithms_guaranteed 20=blake2b 22=file_digest 23=md5 24=new 27=sha1 28=sha224 29=sha256 30=sha384 31=sha3_224 32=sha3_256 33=sha3_384 34=sha3_512 35=sha512 36=shake_128 37=shake_256 -/
/- module 65 = heapq: 18=heapify 20=heappop 22=heappush 24=heappushpop -/
/- module 66 = hmac: 0=HMAC 15=compare_digest 16=digest 18=new -/
/- module 67 = html: 16=entities 17=escape 18=parser 19=unescape -/
/- module 68 = html.entities: 9=codepoint2name 10=entitydefs 11=html5 12=name2codepoint -/
/- module 69 = html.parser: 0=HTMLParser -/
/- module 70 = http: 0=HTTPMethod 1=HTTPStatus 2=IntEnum 3=StrEnum 15=client 16=cookiejar 17=cookies 18=server -/
/- module 71 = http.client: 4=BadStatusLine 9=CannotSendHeader 10=CannotSendRequest 18=HTTPConnection 19=HTTPException 20=HTTPMessage 21=HTTPResponse 22=HTTPSConnection 23=HTTPS_PORT 24=HTTP_PORT 30=ImproperConnectionState 31=IncompleteRead 32=InvalidURL 36=LineTooLong 51=NotConnected 67=RemoteDisconnected 68=ResponseNotReady 83=UnimplementedFileMode 84=UnknownProtocol 85=UnknownTransferEncoding 119=http 123=responses -/
/- module 72 = http.cookiejar: 1=Cookie 2=CookieJar 3=CookiePolicy 6=DefaultCookiePolicy 9=FileCookieJar 22=LoadError -/
/- module 73 = http.cookies: 0=BaseCookie 1=CookieError 2=Morsel 3=SimpleCookie -/
/- module 74 = http.server: 0=BaseHTTPRequestHandler 1=CGIHTTPRequestHandler 5=HTTPServer 7=SimpleHTTPRequestHandler 9=ThreadingHTTPServer -/
/- module 75 = importlib: 6=__import__ 22=import_module 24=machinery 27=reload 32=util -/
/- module 76 = importlib.machinery: 8=ModuleSpec -/
/- module 77 = importlib.metadata: 6=Distribution 7=DistributionFinder 8=EntryPoint 9=EntryPoints 10=FastPath 15=Lookup 22=PackageMetadata 23=PackageNotFoundError 24=PackagePath 26=PathDistribution 27=Prepared 28=Sectioned 68=distribution 69=distributions 71=entry_points 72=files 79=metadata 83=packages_distributions 88=requires 95=version -/
/- module 78 = importlib.metadata.diagnose: 9=inspect 10=run -/
/- module 79 = importlib.util: 2=MAGIC_NUMBER 25=find_spec -/
/- module 80 = inspect: 30=FrameInfo 37=Parameter 38=Signature 40=Traceback 125=currentframe 146=getcomments 149=getdoc 150=getfile 157=getmembers 159=getmodule 168=isabstract 169=isasyncgen 170=isasyncgenfunction 171=isawaitable 172=isbuiltin 173=isclass 174=iscode 175=iscoroutine 176=iscoroutinefunction 177=isdatadescriptor 178=isframe 179=isfunction 180=isgenerator 181=isgeneratorfunction 182=isgetsetdescriptor 184=ismemberdescriptor 185=ismethod 186=ismethoddescriptor 187=ismethodwrapper 188=ismodule 190=isroutine 191=istraceback 202=signature -/
/- module 81 = io: 0=BlockingIOError 1=BufferedIOBase 2=BufferedRWPair 3=BufferedRandom 4=BufferedReader 5=BufferedWriter 6=BytesIO 7=DEFAULT_BUFFER_SIZE 8=FileIO 9=IOBase 12=RawIOBase 17=StringIO 18=TextIOBase 19=TextIOWrapper 20=UnsupportedOperation 38=open 39=open_code 40=text_encoding -/
/- module 82 = ipaddress: 0=AddressValueError 3=IPv4Address 4=IPv4Interface 5=IPv4Network 6=IPv6Address 7=IPv6Interface 8=IPv6Network 9=NetmaskValueError 11=_BaseAddress 13=_BaseNetwork 14=_BaseV4 15=_BaseV6 16=_IPAddressBase 36=collapse_addresses 39=ip_address 42=summarize_address_range 43=v4_int_to_packed 44=v6_int_to_packed -/
/- module 83 = itertools: 25=accumulate 27=chain 28=combinations 29=combinations_with_replacement 30=compress 31=count 32=cycle 33=dropwhile 34=filterfalse 35=groupby 36=islice 37=pairwise 38=permutations 39=product 40=repeat 42=takewhile 43=tee 44=zip_longest -/
/- module 84 = json: 0=JSONDecodeError 1=JSONDecoder 2=JSONEncoder 20=dump 21=dumps 23=load 24=loads -/
/- module 85 = keyword: 9=iskeyword 10=issoftkeyword 11=kwlist 13=softkwlist -/
/- module 86 = locale: 37=Error 114=localeconv 120=setlocale -/
/- module 87 = logging: 0=BASIC_FORMAT 1=BufferingFormatter 2=CRITICAL 3=DEBUG 4=ERROR 5=FATAL 6=FileHandler 7=Filter 8=Filterer 9=Formatter 11=Handler 12=INFO 13=LogRecord 14=Logger 15=LoggerAdapter 16=Manager 17=NOTSET 18=NullHandler 19=PercentStyle 20=PlaceHolder 21=RootLogger 22=StrFormatStyle 23=StreamHandler 24=StringTemplateStyle 27=WARNING 78=addLevelName 80=basicConfig 84=critical 86=debug 87=disable 88=error 89=exception 93=getLevelName 94=getLevelNamesMapping 95=getLogRecordFactory 96=getLogger 97=getLoggerClass 99=info 102=log 107=makeLogRecord 111=root 114=shutdown 120=warning -/
/- module 88 = logging.config:  -/
/- module 89 = logging.handlers: 0=BaseRotatingHandler 1=BufferingHandler 2=DEFAULT_HTTP_LOGGING_PORT 3=DEFAULT_SOAP_LOGGING_PORT 4=DEFAULT_TCP_LOGGING_PORT 5=DEFAULT_UDP_LOGGING_PORT 6=DatagramHandler 7=HTTPHandler 8=MemoryHandler 9=NTEventLogHandler 10=QueueHandler 11=QueueListener 12=RotatingFileHandler 13=SMTPHandler 17=SYSLOG_TCP_PORT 18=SYSLOG_UDP_PORT 19=SocketHandler 20=SysLogHandler 21=TimedRotatingFileHandler 22=WatchedFileHandler -/
/- module 90 = lzma: 0=CHECK_CRC32 1=CHECK_CRC64 2=CHECK_ID_MAX 3=CHECK_NONE 4=CHECK_SHA256 5=CHECK_UNKNOWN 6=FILTER_ARM 7=FILTER_ARMTHUMB 8=FILTER_DELTA 9=FILTER_IA64 10=FILTER_LZMA1 11=FILTER_LZMA2 12=FILTER_POWERPC 13=FILTER_SPARC 14=FILTER_X86 15=FORMAT_ALONE 16=FORMAT_AUTO 17=FORMAT_RAW 18=FORMAT_XZ 19=LZMACompressor 20=LZMADecompressor 21=LZMAError 22=LZMAFile 23=MF_BT2 24=MF_BT3 25=MF_BT4 26=MF_HC3 27=MF_HC4 28=MODE_FAST 29=MODE_NORMAL 30=PRESET_DEFAULT 31=PRESET_EXTREME 51=compress 52=decompress 54=is_check_supported 55=open -/
/- module 91 = marshal: 6=dump 7=dumps 8=load 9=loads 10=version -/
/- module 92 = math: 19=acos 20=acosh 21=asin 22=asinh 23=atan 25=atanh 27=ceil 28=comb 29=copysign 30=cos 31=cosh 34=e 37=exp 40=fabs 41=factorial 42=floor 46=fmod 47=frexp 48=fsum 54=isclose 55=isfinite 56=isinf 57=isnan 59=isqrt 64=log 65=log10 67=log2 71=perm 72=pi 74=prod 78=sin 79=sinh 80=sqrt 82=tan 83=tanh 84=tau 85=trunc -/
/- module 93 = ntpath: 18=abspath 20=basename 21=commonpath 22=commonprefix 26=dirname 27=exists 28=expanduser 29=expandvars 32=getatime 33=getctime 34=getmtime 35=getsize 36=isabs 38=isdir 39=isfile 41=islink 42=ismount 44=join 45=lexists 46=normcase 47=normpath 51=realpath 52=relpath 53=samefile 54=sameopenfile 57=split 58=splitdrive 59=splitext 62=supports_unicode_filenames -/
/- module 94 = numbers: 1=Complex 2=Integral 3=Number 4=Rational 5=Real -/
/- module 95 = operator: 5=__abs__ 6=__add__ 8=__and__ 11=__call__ 16=__eq__ 19=__ge__ 21=__gt__ 30=__index__ 32=__invert__ 39=__le__ 41=__lshift__ 42=__lt__ 44=__mod__ 45=__mul__ 47=__ne__ 48=__neg__ 49=__not__ 50=__or__ 52=__pos__ 53=__pow__ 54=__rshift__ 57=__sub__ 58=__truediv__ 59=__xor__ 61=abs 63=and_ 64=attrgetter 65=call 70=eq 72=ge 74=gt 83=index 85=inv 86=invert 90=is_ 92=is_not 95=itemgetter 98=le 100=lshift 101=lt 104=mod 105=mul 106=ne 107=neg 108=not_ 109=or_ 110=pos 111=pow 112=rshift 114=sub 115=truediv 116=truth 117=xor -/
/- module 96 = os: 24=DirEntry 25=EFD_CLOEXEC 26=EFD_NONBLOCK 27=EFD_SEMAPHORE 28=EX_CANTCREAT 29=EX_CONFIG 30=EX_DATAERR 31=EX_IOERR 32=EX_NOHOST 33=EX_NOINPUT 34=EX_NOPERM 35=EX_NOTFOUND 36=EX_NOUSER 37=EX_OK 38=EX_OSERR 39=EX_OSFILE 40=EX_PROTOCOL 41=EX_SOFTWARE 42=EX_TEMPFAIL 43=EX_UNAVAILABLE 44=EX_USAGE 45=F_LOCK 47=F_TEST 48=F_TLOCK 49=F_ULOCK 53=MFD_ALLOW_SEALING 54=MFD_CLOEXEC 55=MFD_HUGETLB 56=MFD_HUGE_16GB 57=MFD_HUGE_16MB 58=MFD_HUGE_1GB 59=MFD_HUGE_1MB 60=MFD_HUGE_256MB 61=MFD_HUGE_2GB 62=MFD_HUGE_2MB 63=MFD_HUGE_32MB 64=MFD_HUGE_512KB 65=MFD_HUGE_512MB 66=MFD_HUGE_64KB 67=MFD_HUGE_8MB 68=MFD_HUGE_MASK 69=MFD_HUGE_SHIFT 74=OSError 76=O_APPEND 77=O_ASYNC 78=O_BINARY 79=O_CLOEXEC 80=O_CREAT 81=O_DIRECT 82=O_DIRECTORY 83=O_DSYNC 84=O_EVTONLY 85=O_EXCL 87=O_EXLOCK 88=O_FSYNC 90=O_NDELAY 91=O_NOATIME 92=O_NOCTTY 93=O_NOFOLLOW 94=O_NOFOLLOW_ANY 95=O_NOINHERIT 96=O_NONBLOCK 97=O_PATH 98=O_RANDOM 99=O_RDONLY 100=O_RDWR 101=O_RSYNC 103=O_SEQUENTIAL 104=O_SHLOCK 105=O_SHORT_LIVED 106=O_SYMLINK 107=O_SYNC 108=O_TEMPORARY 109=O_TEXT 110=O_TMPFILE 111=O_TRUNC 112=O_WRONLY 114=POSIX_FADV_DONTNEED 115=POSIX_FADV_NOREUSE 116=POSIX_FADV_NORMAL 117=POSIX_FADV_RANDOM 118=POSIX_FADV_SEQUENTIAL 119=POSIX_FADV_WILLNEED 124=PRIO_DARWIN_BG 125=PRIO_DARWIN_NONUI 126=PRIO_DARWIN_PROCESS 127=PRIO_DARWIN_THREAD 128=PRIO_PGRP 129=PRIO_PROCESS 130=PRIO_USER 140=PathLike 148=RWF_APPEND 149=RWF_DSYNC 150=RWF_HIPRI 151=RWF_NOWAIT 152=RWF_SYNC 163=SEEK_CUR 164=SEEK_DATA 165=SEEK_END 166=SEEK_HOLE 167=SEEK_SET 168=SF_MNOWAIT 169=SF_NOCACHE 170=SF_NODISKIO 171=SF_SYNC 222=XATTR_CREATE 223=XATTR_REPLACE 224=XATTR_SIZE_MAX 250=_exit 264=abort 265=access 266=add_dll_directory 268=chdir 269=chflags 270=chmod 271=chown 272=chroot 273=close 274=closerange 277=copy_file_range 279=ctermid 280=curdir 282=device_encoding 284=dup 285=dup2 286=environ 287=environb 289=eventfd 290=eventfd_read 291=eventfd_write 292=execl 293=execle 294=execlp 295=execlpe 296=execv 297=execve 298=execvp 299=execvpe 301=fchdir 302=fchmod 303=fchown 304=fdatasync 305=fdopen 306=fork 307=forkpty 308=fpathconf 309=fsdecode 310=fsencode 311=fspath 312=fstat 313=fstatvfs 314=fsync 315=ftruncate 316=fwalk 317=get_blocking 318=get_exec_path 319=get_handle_inheritable 320=get_inheritable 321=get_terminal_size 322=getcwd 323=getcwdb 324=getegid 325=getenv 326=getenvb 327=geteuid 328=getgid 329=getgrouplist 330=getgroups 332=getlogin 333=getpgid 334=getpgrp 335=getpid 336=getppid 337=getpriority 338=getrandom 339=getresgid 340=getresuid 341=getsid 342=getuid 343=getxattr 345=initgroups 346=isatty 347=kill 348=killpg 350=lchmod 351=lchown 353=link 354=listdir 355=listdrives 356=listmounts 357=listvolumes 358=listxattr 359=lockf 360=login_tty 361=lseek 362=lstat 363=major 364=makedev 365=makedirs 366=memfd_create 367=minor 368=mkdir 369=mkfifo 370=mknod 371=name 372=nice 373=open 374=openpty 376=path 377=pathconf 380=pidfd_open 381=pipe 382=pipe2 383=plock 384=popen 385=posix_fadvise 386=posix_fallocate 388=posix_spawn 389=posix_spawnp 390=pread 391=preadv 394=putenv 395=pwrite 396=pwritev 397=read 399=readlink 400=readv 401=register_at_fork 403=remove 404=removedirs 405=removexattr 406=rename 407=renames 408=replace 409=rmdir 410=scandir 422=sendfile 424=set_blocking 425=set_handle_inheritable 426=set_inheritable 427=setegid 428=seteuid 429=setgid 430=setgroups 431=setns 432=setpgid 433=setpgrp 434=setpriority 435=setregid 436=setresgid 437=setresuid 438=setreuid 439=setsid 440=setuid 441=setxattr 442=spawnl 443=spawnle 444=spawnlp 445=spawnlpe 446=spawnv 447=spawnve 448=spawnvp 449=spawnvpe 450=splice 452=startfile 454=stat_result 455=statvfs 459=strerror 460=supports_bytes_environ 461=supports_dir_fd 462=supports_effective_ids 463=supports_fd 464=supports_follow_symlinks 465=symlink 466=sync 470=system 471=tcgetpgrp 472=tcsetpgrp 479=times 482=ttyname 483=umask 484=uname 486=unlink 488=unsetenv 489=unshare 490=urandom 491=utime 492=wait 495=waitid 499=walk 500=write 501=writev -/
/- module 97 = os.path: 16=abspath 18=basename 19=commonpath 20=commonprefix 24=dirname 25=exists 26=expanduser 27=expandvars 30=getatime 31=getctime 32=getmtime 33=getsize 34=isabs 35=isdevdrive 36=isdir 37=isfile 38=isjunction 39=islink 40=ismount 42=join 43=lexists 44=normcase 45=normpath 49=realpath 50=relpath 51=samefile 52=sameopenfile 53=samestat 54=sep 55=split 56=splitdrive 57=splitext 58=splitroot 60=supports_unicode_filenames -/
/- module 98 = pathlib: 5=Path 6=PosixPath 7=PurePath 8=PurePosixPath 9=PureWindowsPath 19=WindowsPath -/
/- module 99 = pdb: 2=Pdb 47=pm 51=run 52=runcall 54=runeval 56=set_trace -/
/- module 100 = pickle: 0=ADDITEMS 1=APPEND 2=APPENDS 3=BINBYTES 4=BINBYTES8 5=BINFLOAT 6=BINGET 7=BININT 8=BININT1 9=BININT2 10=BINPERSID 11=BINPUT 12=BINSTRING 13=BINUNICODE 14=BINUNICODE8 15=BUILD 16=BYTEARRAY8 17=DEFAULT_PROTOCOL 18=DICT 19=DUP 20=EMPTY_DICT 21=EMPTY_LIST 22=EMPTY_SET 23=EMPTY_TUPLE 24=EXT1 25=EXT2 26=EXT4 27=FALSE 28=FLOAT 29=FRAME 30=FROZENSET 32=GET 33=GLOBAL 34=HIGHEST_PROTOCOL 35=INST 36=INT 37=LIST 38=LONG 39=LONG1 40=LONG4 41=LONG_BINGET 42=LONG_BINPUT 43=MARK 44=MEMOIZE 45=NEWFALSE 46=NEWOBJ 47=NEWOBJ_EX 48=NEWTRUE 49=NEXT_BUFFER 50=NONE 51=OBJ 52=PERSID 53=POP 54=POP_MARK 55=PROTO 56=PUT 58=PickleError 60=PicklingError 62=READONLY_BUFFER 63=REDUCE 64=SETITEM 65=SETITEMS 66=SHORT_BINBYTES 67=SHORT_BINSTRING 68=SHORT_BINUNICODE 69=STACK_GLOBAL 70=STOP 71=STRING 72=TRUE 73=TUPLE 74=TUPLE1 75=TUPLE2 76=TUPLE3 77=UNICODE 79=UnpicklingError 107=bytes_types 109=compatible_formats 112=dump 113=dumps 115=format_version 118=load 119=loads -/
/- module 101 = platform: 59=architecture 68=libc_ver 70=mac_ver 71=machine 72=node 74=platform 76=processor 77=python_branch 78=python_build 79=python_compiler 80=python_implementation 81=python_revision 82=python_version 83=python_version_tuple 85=release 88=system 89=system_alias 90=uname 92=version 94=win32_edition 95=win32_is_iot 96=win32_ver -/
/- module 102 = posix: 381=uname_result -/
/- module 103 = posixpath: 16=abspath 18=basename 19=commonpath 20=commonprefix 24=dirname 25=exists 26=expanduser 27=expandvars 30=getatime 31=getctime 32=getmtime 33=getsize 34=isabs 36=isdir 37=isfile 39=islink 40=ismount 41=join 42=lexists 43=normcase 44=normpath 48=realpath 49=relpath 50=samefile 51=sameopenfile 54=split 55=splitdrive 56=splitext 59=supports_unicode_filenames -/
/- module 104 = pprint: 0=PrettyPrinter 22=isreadable 23=isrecursive 24=pformat 25=pp 26=pprint 28=saferepr -/
/- module 105 = py_compile: 0=PyCompileError 12=compile -/
/- module 106 = pydoc:  -/
/- module 107 = queue: 0=Empty 1=Full 2=LifoQueue 3=PriorityQueue 4=Queue 5=ShutDown 6=SimpleQueue -/
/- module 108 = random: 4=Random 6=SystemRandom 51=betavariate 53=choice 54=choices 55=expovariate 56=gammavariate 57=gauss 58=getrandbits 59=getstate 60=lognormvariate 62=normalvariate 63=paretovariate 64=randbytes 65=randint 66=random 67=randrange 68=sample 69=seed 70=setstate 71=shuffle 72=triangular 73=uniform 74=vonmisesvariate 75=weibullvariate -/
/- module 109 = re: 0=A 1=ASCII 2=DEBUG 3=DOTALL 4=I 5=IGNORECASE 6=L 7=LOCALE 8=M 9=MULTILINE 10=Match 11=NOFLAG 12=Pattern 14=RegexFlag 15=S 21=VERBOSE 22=X 55=compile 59=escape 60=findall 61=finditer 62=fullmatch 64=match 66=purge 67=search 68=split 71=sub 72=subn -/
/- module 110 = secrets:  -/
/- module 111 = shlex: 14=join 16=quote 18=shlex 19=split -/
/- module 112 = shutil: 21=_WINDOWS 62=chown 64=copy 65=copy2 66=copyfile 67=copyfileobj 68=copymode 69=copystat 70=copytree 71=disk_usage 74=get_archive_formats 75=get_terminal_size 76=get_unpack_formats 79=ignore_patterns 80=make_archive 81=move 85=register_archive_format 86=register_unpack_format 87=rmtree 90=unpack_archive 91=unregister_archive_format 92=unregister_unpack_format 94=which -/
/- module 113 = signal: 0=CTRL_BREAK_EVENT 1=CTRL_C_EVENT 2=Handlers 3=ITIMER_PROF 4=ITIMER_REAL 5=ITIMER_VIRTUAL 7=NSIG 9=SIGALRM 10=SIGBREAK 11=SIGBUS 12=SIGCHLD 13=SIGCLD 14=SIGCONT 16=SIGFPE 17=SIGHUP 18=SIGILL 20=SIGINT 23=SIGKILL 24=SIGPIPE 31=SIGSEGV 32=SIGSTKFLT 35=SIGTERM 41=SIGUSR1 42=SIGUSR2 44=SIGWINCH 47=SIG_BLOCK 48=SIG_DFL 49=SIG_IGN 50=SIG_SETMASK 51=SIG_UNBLOCK 52=Sigmasks 53=Signals 68=alarm 71=getsignal 72=pause 80=signal 85=strsignal -/
/- module 114 = socket: 0=AF_ALG 1=AF_APPLETALK 2=AF_ASH 3=AF_ATMPVC 4=AF_ATMSVC 5=AF_AX25 6=AF_BLUETOOTH 7=AF_BRIDGE 8=AF_CAN 9=AF_DECnet 11=AF_ECONET 13=AF_INET 14=AF_INET6 15=AF_IPX 16=AF_IRDA 17=AF_KEY 19=AF_LLC 20=AF_NETBEUI 21=AF_NETLINK 22=AF_NETROM 23=AF_PACKET 24=AF_PPPOX 25=AF_QIPCRTR 26=AF_RDS 27=AF_ROSE 28=AF_ROUTE 29=AF_SECURITY 30=AF_SNA 32=AF_TIPC 33=AF_UNIX 34=AF_UNSPEC 35=AF_VSOCK 36=AF_WANPIPE 37=AF_X25 58=AddressFamily 453=SOCK_DGRAM 455=SOCK_RAW 456=SOCK_RDM 457=SOCK_SEQPACKET 458=SOCK_STREAM 459=SOL_ALG 463=SOL_CAN_BASE 465=SOL_CAN_RAW 467=SOL_IP 471=SOL_RDS 475=SOL_SOCKET 476=SOL_TCP 477=SOL_TIPC 478=SOL_UDP 480=SO_ACCEPTCONN 481=SO_BINDTODEVICE 483=SO_BROADCAST 488=SO_DEBUG 489=SO_DOMAIN 490=SO_DONTROUTE 491=SO_ERROR 493=SO_INCOMING_CPU 494=SO_J1939_ERRQUEUE 495=SO_J1939_FILTER 496=SO_J1939_PROMISC 497=SO_J1939_SEND_PRIO 498=SO_KEEPALIVE 499=SO_LINGER 500=SO_MARK 501=SO_OOBINLINE 503=SO_PASSCRED 504=SO_PASSSEC 505=SO_PEERCRED 506=SO_PEERSEC 507=SO_PRIORITY 508=SO_PROTOCOL 509=SO_RCVBUF 510=SO_RCVLOWAT 511=SO_RCVTIMEO 512=SO_REUSEADDR 513=SO_REUSEPORT 515=SO_SNDBUF 516=SO_SNDLOWAT 517=SO_SNDTIMEO 518=SO_TYPE 520=SO_VM_SOCKETS_BUFFER_MAX_SIZE 521=SO_VM_SOCKETS_BUFFER_MIN_SIZE 522=SO_VM_SOCKETS_BUFFER_SIZE 525=SocketKind 618=close 619=create_connection 620=create_server 625=fromfd 628=getaddrinfo 631=gethostbyaddr 632=gethostbyname 633=gethostbyname_ex 634=gethostname 635=getnameinfo 639=has_dualstack_ipv6 660=socket 661=socketpair -/
/- module 115 = socketserver: 0=BaseRequestHandler 1=BaseServer 3=DatagramRequestHandler 4=ForkingMixIn 5=ForkingTCPServer 6=ForkingUDPServer 9=StreamRequestHandler 10=TCPServer 11=ThreadingMixIn 12=ThreadingTCPServer 13=ThreadingUDPServer 16=UDPServer 17=UnixDatagramServer 18=UnixStreamServer -/
/- module 116 = sqlite3: 1=Blob 3=Connection 4=Cursor 21=Row 235=complete_statement 236=connect -/
/- module 117 = ssl: 51=OPENSSL_VERSION 52=OPENSSL_VERSION_INFO 85=RAND_add 86=RAND_bytes 87=RAND_pseudo_bytes 88=RAND_status 92=SSLCertVerificationError 93=SSLContext 94=SSLEOFError 95=SSLError 99=SSLSocket 100=SSLSyscallError 101=SSLWantReadError 102=SSLWantWriteError 103=SSLZeroReturnError 169=create_default_context -/
/- module 118 = stat: 0=FILE_ATTRIBUTE_ARCHIVE 1=FILE_ATTRIBUTE_COMPRESSED 2=FILE_ATTRIBUTE_DEVICE 3=FILE_ATTRIBUTE_DIRECTORY 4=FILE_ATTRIBUTE_ENCRYPTED 5=FILE_ATTRIBUTE_HIDDEN 6=FILE_ATTRIBUTE_INTEGRITY_STREAM 7=FILE_ATTRIBUTE_NORMAL 8=FILE_ATTRIBUTE_NOT_CONTENT_INDEXED 9=FILE_ATTRIBUTE_NO_SCRUB_DATA 10=FILE_ATTRIBUTE_OFFLINE 11=FILE_ATTRIBUTE_READONLY 12=FILE_ATTRIBUTE_REPARSE_POINT 13=FILE_ATTRIBUTE_SPARSE_FILE 14=FILE_ATTRIBUTE_SYSTEM 15=FILE_ATTRIBUTE_TEMPORARY 16=FILE_ATTRIBUTE_VIRTUAL 20=SF_APPEND 21=SF_ARCHIVED 24=SF_IMMUTABLE 25=SF_NOUNLINK 28=SF_SNAPSHOT 41=ST_ATIME 42=ST_CTIME 43=ST_DEV 44=ST_GID 45=ST_INO 46=ST_MODE 47=ST_MTIME 48=ST_NLINK 49=ST_SIZE 50=ST_UID 51=S_ENFMT 52=S_IEXEC 53=S_IFBLK 54=S_IFCHR 55=S_IFDIR 56=S_IFDOOR 57=S_IFIFO 58=S_IFLNK 59=S_IFMT 60=S_IFPORT 61=S_IFREG 62=S_IFSOCK 63=S_IFWHT 64=S_IMODE 65=S_IREAD 66=S_IRGRP 67=S_IROTH 68=S_IRUSR 69=S_IRWXG 70=S_IRWXO 71=S_IRWXU 72=S_ISBLK 73=S_ISCHR 74=S_ISDIR 75=S_ISDOOR 76=S_ISFIFO 77=S_ISGID 78=S_ISLNK 79=S_ISPORT 80=S_ISREG 81=S_ISSOCK 82=S_ISUID 83=S_ISVTX 84=S_ISWHT 85=S_IWGRP 86=S_IWOTH 87=S_IWRITE 88=S_IWUSR 89=S_IXGRP 90=S_IXOTH 91=S_IXUSR 92=UF_APPEND 93=UF_COMPRESSED 95=UF_HIDDEN 96=UF_IMMUTABLE 97=UF_NODUMP 98=UF_NOUNLINK 99=UF_OPAQUE 111=filemode -/
/- module 119 = statistics: 55=correlation 59=covariance 64=fmean 66=geometric_mean 68=harmonic_mean 75=linear_regression 78=mean 79=median 80=median_grouped 81=median_high 82=median_low 83=mode 85=multimode 89=pstdev 90=pvariance 91=quantiles 97=stdev 102=variance -/
/- module 120 = string: 0=Formatter 1=Template 16=ascii_letters 17=ascii_lowercase 18=ascii_uppercase 19=capwords 20=digits 21=hexdigits 22=octdigits 23=printable 24=punctuation 26=whitespace -/
/- module 121 = struct: 0=Struct 11=calcsize 12=error 13=iter_unpack 14=pack 15=pack_into 16=unpack 17=unpack_from -/
/- module 122 = subprocess: 7=CalledProcessError 8=CompletedProcess 10=DEVNULL 14=PIPE 15=Popen 22=STDOUT 27=SubprocessError 28=TimeoutExpired 66=call 67=check_call 68=check_output 80=run -/
/- module 123 = symtable: 1=Class 10=Function 17=Symbol 18=SymbolTable 20=SymbolTableType 37=symtable -/
/- module 124 = sys: 22=__stderr__ 23=__stdin__ 24=__stdout__ 30=_clear_type_cache 32=_current_frames 60=abiflags 62=addaudithook 63=api_version 64=argv 65=audit 66=base_exec_prefix 67=base_prefix 68=breakpointhook 69=builtin_module_names 70=byteorder 73=copyright 75=displayhook 76=dllhandle 77=dont_write_bytecode 78=exc_info 80=exception 81=exec_prefix 82=executable 83=exit 84=flags 85=float_info 86=float_repr_style 96=getdefaultencoding 101=getrecursionlimit 102=getrefcount 103=getsizeof 104=getswitchinterval 109=hash_info 110=hexversion 111=implementation 112=int_info 113=intern 114=is_finalizing 122=maxsize 123=maxunicode 124=meta_path 125=modules 128=path 131=platform 132=platlibdir 133=prefix 134=ps1 135=ps2 136=pycache_prefix 147=setrecursionlimit 150=stderr 151=stdin 152=stdlib_module_names 153=stdout 157=version 158=version_info -/
/- module 125 = tarfile: 49=TarFile 90=is_tarfile 95=open -/
/- module 126 = tempfile: 0=NamedTemporaryFile 3=TemporaryDirectory 4=TemporaryFile 10=_TemporaryFileWrapper 46=gettempdir 47=gettempdirb 48=gettempprefix 49=gettempprefixb 50=mkdtemp 51=mkstemp 53=tempdir -/
/- module 127 = textwrap: 0=TextWrapper 13=dedent 14=fill 15=indent 17=shorten 18=wrap -/
/- module 128 = threading: 0=Barrier 1=BoundedSemaphore 2=BrokenBarrierError 3=Condition 4=Event 6=Lock 7=RLock 8=Semaphore 10=Thread 12=Timer 71=active_count 82=local -/
/- module 129 = time: 0=CLOCK_BOOTTIME 2=CLOCK_MONOTONIC 3=CLOCK_MONOTONIC_RAW 5=CLOCK_PROCESS_CPUTIME_ID 6=CLOCK_PROF 7=CLOCK_REALTIME 22=altzone 23=asctime 24=clock 25=clock_getres 26=clock_gettime 27=clock_gettime_ns 28=clock_settime 29=clock_settime_ns 30=ctime 31=daylight 33=gmtime 34=localtime 35=mktime 36=monotonic 37=monotonic_ns 38=perf_counter 39=perf_counter_ns 40=process_time 41=process_time_ns 43=sleep 44=strftime 45=strptime 46=struct_time 47=thread_time 48=thread_time_ns 49=time 50=time_ns 51=timezone 52=tzname 53=tzset -/
/- module 130 = timeit: 25=timeit -/
/- module 131 = tkinter: 11=BitmapImage 13=Button 22=Canvas 23=Checkbutton 32=Entry 38=Frame 49=Label 50=LabelFrame 51=Listbox 55=Menu 56=Menubutton 57=Message 72=OptionMenu 77=PanedWindow 78=PhotoImage 98=Scale 99=Scrollbar 100=Spinbox 107=Text 108=Tk 110=Toplevel 118=Widget -/
/- module 132 = tkinter.colorchooser: 11=askcolor -/
/- module 133 = tkinter.commondialog: 26=Dialog -/
/- module 134 = tkinter.constants: 0=ACTIVE 1=ALL 2=ANCHOR 3=ARC 4=BASELINE 5=BEVEL 6=BOTH 7=BOTTOM 8=BROWSE 9=BUTT 10=CASCADE 11=CENTER 12=CHAR 13=CHECKBUTTON 14=CHORD 15=COMMAND 16=CURRENT 17=DISABLED 18=DOTBOX 19=E 20=END 21=EW 22=EXTENDED 23=FALSE 24=FIRST 25=FLAT 26=GROOVE 27=HIDDEN 28=HORIZONTAL 29=INSERT 30=INSIDE 31=LAST 32=LEFT 33=MITER 34=MOVETO 35=MULTIPLE 36=N 37=NE 38=NO 39=NONE 40=NORMAL 41=NS 42=NSEW 43=NUMERIC 44=NW 45=OFF 46=ON 47=OUTSIDE 48=PAGES 49=PIESLICE 50=PROJECTING 51=RADIOBUTTON 52=RAISED 53=RIDGE 54=RIGHT 55=ROUND 56=S 57=SCROLL 58=SE 59=SEL 60=SEL_FIRST 61=SEL_LAST 62=SEPARATOR 63=SINGLE 64=SOLID 65=SUNKEN 66=SW 67=TOP 68=TRUE 69=UNDERLINE 70=UNITS 71=VERTICAL 72=W 73=WORD 74=X 75=Y 76=YES -/
/- module 135 = tkinter.dialog: 27=Dialog -/
/- module 136 = tkinter.dnd: 0=DndHandler -/
/- module 137 = tkinter.filedialog: 40=FileDialog 143=askdirectory 145=askopenfilename 146=askopenfilenames 149=asksaveasfilename -/
/- module 138 = tkinter.font: 1=Font -/
/- module 139 = tkinter.messagebox: 28=askokcancel 29=askquestion 30=askretrycancel 31=askyesno 33=showerror 34=showinfo 35=showwarning -/
/- module 140 = tkinter.scrolledtext: 8=ScrolledText -/
/- module 141 = tkinter.simpledialog: 101=SimpleDialog 145=askfloat 146=askinteger 147=askstring -/
/- module 142 = tkinter.ttk: 1=Checkbutton 2=Combobox 10=Notebook 14=Progressbar 15=Radiobutton 18=Separator 19=Sizegrip 21=Style 22=Treeview -/
/- module 143 = tomllib: 14=load 15=loads -/
/- module 144 = trace: 0=CoverageResults 2=Trace -/
/- module 145 = traceback: 4=TracebackException 58=print_tb -/
/- module 146 = tty: 254=setcbreak 255=setraw -/
/- module 147 = types: 0=AsyncGeneratorType 1=BuiltinFunctionType 2=BuiltinMethodType 4=CellType 5=ClassMethodDescriptorType 6=CodeType 7=CoroutineType 9=EllipsisType 11=FrameType 12=FunctionType 13=GeneratorType 14=GenericAlias 16=LambdaType 18=MappingProxyType 20=MethodDescriptorType 21=MethodType 22=MethodWrapperType 23=ModuleType 24=NoneType 25=NotImplementedType 27=TracebackType 28=UnionType 29=WrapperDescriptorType -/
/- module 148 = typing: 1=AbstractSet 2=Annotated 3=Any 4=AnyStr 5=AsyncContextManager 6=AsyncGenerator 7=AsyncIterable 8=AsyncIterator 9=Awaitable 11=BinaryIO 12=ByteString 14=Callable 15=ChainMap 16=ClassVar 17=Collection 18=Concatenate 19=Container 20=ContextManager 21=Coroutine 22=Counter 23=DefaultDict 24=Deque 25=Dict 27=Final 28=ForwardRef 29=FrozenSet 30=Generator 31=Generic 33=Hashable 34=IO 35=ItemsView 36=Iterable 37=Iterator 39=KeysView 40=List 41=Literal 42=LiteralString 43=Mapping 44=MappingView 45=Match 48=MutableMapping 49=MutableSequence 50=MutableSet 51=NamedTuple 53=Never 54=NewType 55=NoDefault 57=NoReturn 58=NotRequired 59=Optional 60=OrderedDict 61=ParamSpec 62=ParamSpecArgs 63=ParamSpecKwargs 64=Pattern 65=Protocol 66=ReadOnly 67=Required 68=Reversible 69=Self 70=Sequence 71=Set 72=Sized 73=SupportsAbs 74=SupportsBytes 75=SupportsComplex 76=SupportsFloat 77=SupportsIndex 78=SupportsInt 79=SupportsRound 81=TYPE_CHECKING 84=Text 85=TextIO 86=Tuple 87=Type 88=TypeAlias 89=TypeAliasType 91=TypeGuard 92=TypeIs 93=TypeVar 94=TypeVarTuple 95=TypedDict 96=Union 97=Unpack 101=ValuesView 144=_SpecialForm 241=assert_never 242=assert_type 243=cast 244=clear_overloads 252=final 254=get_args 255=get_origin 256=get_overloads 257=get_protocol_members 258=get_type_hints 260=is_protocol 261=is_typeddict 262=no_type_check 263=no_type_check_decorator 265=overload 266=override 268=reveal_type 269=runtime_checkable 272=type_check_only -/
/- module 149 = unicodedata: 0=UCD 11=bidirectional 13=category 14=combining 15=decimal 16=decomposition 17=digit 18=east_asian_width 22=is_normalized 26=lookup 27=mirrored 28=name 29=normalize 30=numeric 31=ucd_3_2_0 33=unidata_version -/
/- module 150 = unittest: 0=BaseTestSuite 3=SkipTest 4=TestCase 5=TestLoader 6=TestProgram 7=TestResult 8=TestSuite 9=TextTestResult 10=TextTestRunner 28=case 29=defaultTestLoader 33=findTestCases 34=getTestCaseNames 35=installHandler 37=loader 38=main 39=makeSuite 41=registerResult 43=removeResult 44=result 45=runner 46=signals 50=suite -/
/- module 151 = unittest.case: 0=DIFF_OMITTED 2=SkipTest 3=TestCase 47=doModuleCleanups -/
/- module 152 = unittest.loader: 0=TestLoader 1=VALID_MODULE_NAME 21=case 22=defaultTestLoader 23=findTestCases 27=getTestCaseNames 28=makeSuite 31=suite -/
/- module 153 = unittest.main: 2=TestProgram -/
/- module 154 = unittest.mock: 1=AsyncMagicMixin 2=AsyncMock 3=AsyncMockMixin 4=Base 6=CallableMixin 8=DEFAULT 9=FILTER_DIR 11=InvalidSpecError 12=MagicMixin 13=MagicMock 14=MagicProxy 16=Mock 18=NonCallableMagicMock 19=NonCallableMock 137=sentinel -/
/- module 155 = unittest.result: 2=TestResult 14=failfast -/
/- module 156 = unittest.runner: 0=TextTestResult 1=TextTestRunner -/
/- module 157 = unittest.signals: 14=installHandler 15=registerResult 16=removeHandler 17=removeResult -/
/- module 158 = unittest.suite: 0=BaseTestSuite 1=TestSuite -/
/- module 159 = unittest.util: 29=safe_repr 30=sorted_list_difference 31=strclass 32=three_way_cmp 33=unorderable_list_difference -/
/- module 160 = urllib: 9=error 10=parse 11=request 12=response -/
/- module 161 = urllib.error: 0=ContentTooShortError 1=HTTPError 2=URLError -/
/- module 162 = urllib.parse: 78=parse_qs 105=urlparse -/
/- module 163 = urllib.request: 0=AbstractBasicAuthHandler 1=AbstractDigestAuthHandler 3=BaseHandler 4=CacheFTPHandler 6=DataHandler 7=FTPHandler 9=FileHandler 10=HTTPBasicAuthHandler 11=HTTPCookieProcessor 12=HTTPDefaultErrorHandler 13=HTTPDigestAuthHandler 15=HTTPErrorProcessor 16=HTTPHandler 17=HTTPPasswordMgr 18=HTTPPasswordMgrWithDefaultRealm 19=HTTPPasswordMgrWithPriorAuth 20=HTTPRedirectHandler 21=HTTPSHandler 23=OpenerDirector 24=ProxyBasicAuthHandler 25=ProxyDigestAuthHandler 26=ProxyHandler 27=Request 30=UnknownHandler 72=build_opener 82=install_opener 119=urlopen -/
/- module 164 = urllib.response: 9=addbase 10=addclosehook 11=addinfo 12=addinfourl 13=tempfile -/
/- module 165 = urllib.robotparser: 0=Entry 2=RobotFileParser -/
/- module 166 = uuid: 2=NAMESPACE_DNS 3=NAMESPACE_OID 4=NAMESPACE_URL 5=NAMESPACE_X500 7=RESERVED_FUTURE 8=RESERVED_MICROSOFT 9=RESERVED_NCS 10=RFC_4122 11=SafeUUID 12=UUID 58=getnode 64=uuid1 65=uuid3 66=uuid4 67=uuid5 -/
/- module 167 = venv: 1=EnvBuilder 11=create -/
/- module 168 = warnings: 35=catch_warnings 39=filterwarnings 40=formatwarning 42=resetwarnings 43=showwarning 44=simplefilter 46=warn 47=warn_explicit -/
/- module 169 = weakref: 4=ReferenceType -/
/- module 170 = zipfile: 24=ZipFile 136=is_zipfile -/
/- module 171 = zlib: 0=Compress 4=Decompress 7=ZLIB_RUNTIME_VERSION 8=ZLIB_VERSION 35=adler32 37=compress 38=compressobj 39=crc32 41=decompress 42=decompressobj 43=error -/
/- module 172 = zoneinfo: 0=InvalidTZPathWarning 1=TZPATH 2=ZoneInfo 3=ZoneInfoNotFoundError 18=available_timezones 19=reset_tzpath -/
/-- `(module id, ids of declared Python names, bitset of known attribute ids)` -/
def modules : List (Nat × List Nat × Nat) := [
  (0, [10, 21, 23, 25, 26, 27, 28, 29, 30, 31], 0xffffffff),
  (1, [0, 1, 21, 22, 24], 0x7ffffff),
  (2, [3, 33], 0xfffffffffffffff),
  (3, [13, 14], 0x7fff),
  (4, [0, 1, 2, 3, 4, 5, 6, 7, 8, 9, 10, 14, 15, 16, 17, 18, 19, 21, 22, 23, 24, 25, 26, 27, 28, 29, 30, 32, 33, 37, 38, 39, 40, 42, 43, 44, 45, 46, 47, 48, 49, 50, 55, 56, 57, 58, 59, 60, 61, 62, 63, 64, 65, 66, 67, 68, 69, 70, 71, 72, 73, 74, 75, 76, 77, 78, 79, 81, 82, 83, 84, 85, 86, 87, 89, 91, 92, 93, 94, 95, 96, 97, 98, 99, 100, 101, 102, 103, 104, 105, 107, 108, 111, 112, 113, 114, 115, 116, 117, 118, 119, 120, 121, 122, 165, 166, 167, 169, 170, 172, 175, 177, 178, 180, 185, 186, 188, 191, 192, 193, 196, 199, 200, 201, 203], 0xfffffffffffffffffffffffffffffffffffffffffffffffffff),
  (5, [2, 3, 4, 6, 25, 29, 34, 37, 38, 39, 42, 47, 53, 58, 100, 110, 116, 117, 129, 137, 151], 0x1ffffffffffffffffffffffffffffffffffffffff),
  (6, [0, 2], 0x7fffffffffffffff),
  (7, [26, 27], 0x3ffffffff),
  (8, [0, 1, 2, 4, 6], 0xffffffffffffffff),
  (9, [1, 36], 0xffffffffff),
  (10, [1, 2, 3, 4, 5], 0x7fffff),
  (11, [0, 20], 0x1ffffff),
  (12, [4, 82, 89, 96], 0x7fffffffffffffffffffffffff),
  (13, [14], 0x7fff),
  (14, [10, 11], 0xfff),
  (15, [39, 40, 41, 42, 45, 46], 0x7ffffffffffffffff),
  (16, [0, 2, 26], 0x1fffffff),
  (17, [26, 37, 40], 0x1ffffffffff),
  (18, [8, 9, 10], 0x3fff),
  (19, [136, 138, 140, 141, 155, 183, 192, 195, 203], 0x7fffffffffffffffffffffffffffffffffffffffffffffffffffff),
  (20, [2, 29], 0xffffffff),
  (21, [2, 9, 17, 18, 30, 54, 68], 0x1ffffffffffffffffffffff),
  (22, [], 0x3fffffffff),
  (23, [0], 0x7fff),
  (24, [14], 0x3ffff),
  (25, [0, 5, 6, 7, 8, 9, 10, 11, 12, 13, 14, 15, 16, 17, 18, 19, 20, 21, 22, 24, 55, 56, 59, 60, 70, 79, 83, 92], 0xffffffffffffffffffffffffffff),
  (26, [], 0xfffff),
  (27, [0, 1, 2, 3, 4, 5, 47, 48, 49, 50], 0x7ffffffffffff),
  (28, [1, 2, 3, 4, 5, 6, 7, 8, 9, 10, 11, 12, 15, 17, 18, 19, 20, 21, 22, 23, 24, 25, 26, 27, 28, 29, 30, 31], 0x1ffffffffffffff7fd),
  (29, [], 0x7ffff),
  (30, [13, 14, 15], 0xffffff),
  (31, [1], 0xfffffffffffffff),
  (32, [5, 48, 49], 0x3ffffffffffffff),
  (33, [0, 24, 25], 0x1fffffff),
  (34, [0, 1, 2, 5, 6, 7, 8, 9, 10, 11, 25, 31, 34, 36], 0x1fffffffff),
  (35, [0, 1, 2, 5, 19, 22, 27, 30, 34, 37, 55, 57, 88, 89, 90, 91, 93, 94, 95, 96, 98, 100, 101, 102, 103, 104, 105, 106, 108, 109, 110, 111, 112, 113, 114, 115, 116, 117, 118, 119, 120, 121, 122, 124, 125, 126, 128, 129, 130, 131, 133, 135, 141, 142, 143, 144, 145, 149], 0x3fffffffffffffffffffffffffffffffffffff),
  (36, [], 0x1fff),
  (37, [14], 0x7fffff),
  (38, [], 0xffffffffffffffffffffffffffffffffffffffff),
  (39, [0, 5, 6, 22, 23, 76, 77, 81], 0x3ffffffffffffffffffffff),
  (40, [0, 1, 2, 16, 17, 20, 21, 22, 23], 0xffffff),
  (41, [0, 2, 4, 7, 11, 52, 53, 54], 0x7fffffffffffff),
  (42, [0, 2, 3, 4, 6, 31, 32, 33, 34, 35, 36], 0x1fffffffff),
  (43, [2, 16, 25, 86, 87, 90, 92, 98, 99, 100, 101, 102, 105, 106, 107, 113, 114, 117], 0x7ffffffffffffffffffffffffffffff),
  (44, [33, 84, 85], 0x1ffffffffffffffffffffff),
  (45, [18, 20, 22, 24, 26, 32, 33], 0xfffffffff),
  (46, [0, 24], 0x7ffffff),
  (47, [0, 1, 2, 3, 4, 5, 6, 8, 9, 10, 11, 12, 13, 15, 16, 17, 18, 20, 21, 22, 23, 24, 25, 26, 27], 0xfffffffff),
  (48, [0, 2, 3], 0x7fffffff),
  (49, [0, 1, 2, 3, 4, 5, 6, 7, 8, 9, 11, 12, 14, 15, 17, 18, 19], 0x3ffffffff),
  (50, [4], 0x7ffffffffff),
  (51, [1, 2, 4, 5], 0x3ffff),
  (52, [2, 3, 6, 7, 20, 24], 0x3ffffff),
  (53, [4, 8, 9, 11, 12, 17, 19, 60], 0x1fffffffffffffffffff),
  (54, [0, 1, 2, 3, 4, 5, 6, 7, 10, 12, 13, 15, 16, 18, 19, 20, 21, 22, 23, 24, 25, 26, 27, 28, 29, 30, 31, 33, 34, 35, 36, 37, 38, 40, 41, 43, 44, 45, 46, 47, 48, 49, 50, 51, 55, 56, 57, 58, 59, 60, 61, 62, 63, 64, 66, 68, 69, 70, 71, 72, 73, 75, 76, 77, 78, 79, 81, 82, 83, 84, 85, 86, 88, 89, 91, 92, 93, 94, 96, 97, 98, 99, 100, 102, 103, 104, 105, 106, 107, 108, 109, 110, 111, 112, 113, 114, 115, 116, 117, 118, 119, 124, 125, 126, 128, 129, 130, 131, 132, 133, 135, 138, 139, 140, 141, 142, 143, 144, 145, 146, 147, 148, 149, 150, 151, 152, 153, 154, 208], 0x1ffffffffffffffffffffffffffffffffffffffffffffffffffff),
  (55, [17, 18, 19, 21], 0x1ffffff),
  (56, [0, 15, 16, 17, 18, 19, 20, 21, 23, 24, 25, 26], 0x1fffffff),
  (57, [13, 15, 16, 21], 0x3fffff),
  (58, [1], 0x1fffffff),
  (59, [3, 5, 21, 22, 23, 24, 25], 0xfffffffff),
  (60, [53, 54, 55, 57, 59, 60, 62, 63, 64, 65, 66, 67], 0xfffffffffffffffff),
  (61, [17, 29, 32, 36], 0x3fffffffffff),
  (62, [0, 2], 0xffff),
  (63, [0, 6, 37, 38, 41], 0xffffffffffff),
  (64, [0, 1, 18, 19, 20, 22, 23, 24, 27, 28, 29, 30, 31, 32, 33, 34, 35, 36, 37], 0x3ffffffffc),
  (65, [18, 20, 22, 24], 0x7fffffff),
  (66, [0, 15, 16, 18], 0x1fffff),
  (67, [16, 17, 18, 19], 0xfffff),
  (68, [9, 10, 11, 12], 0x1fff),
  (69, [0], 0x3ffffff),
  (70, [0, 1, 2, 3, 15, 16, 17, 18], 0x7ffff),
  (71, [4, 9, 10, 18, 19, 20, 21, 22, 23, 24, 30, 31, 32, 36, 51, 67, 68, 83, 84, 85, 119, 123], 0xffffffffffffffffffffffffffffffff),
  (72, [1, 2, 3, 6, 9, 22], 0x1fffffffffffffffffffff),
  (73, [0, 1, 2, 3], 0xfffffffff),
  (74, [0, 1, 5, 7, 9], 0x3fffffffffff),
  (75, [6, 22, 24, 27, 32], 0x3ffffffff),
  (76, [8], 0x7ffffff),
  (77, [6, 7, 8, 9, 10, 15, 22, 23, 24, 26, 27, 28, 68, 69, 71, 72, 79, 83, 88, 95], 0x3ffffffffffffffffffffffff),
  (78, [9, 10], 0xfff),
  (79, [2, 25], 0x7fffffffff),
  (80, [30, 37, 38, 40, 125, 146, 149, 150, 157, 159, 168, 169, 170, 171, 172, 173, 174, 175, 176, 177, 178, 179, 180, 181, 182, 184, 185, 186, 187, 188, 190, 191, 202], 0x1fffffffffffffffffffffffffffffffffffffffffffffffffffff),
  (81, [0, 1, 2, 3, 4, 5, 6, 7, 8, 9, 12, 17, 18, 19, 20, 38, 39, 40], 0x1ffffffffff),
  (82, [0, 3, 4, 5, 6, 7, 8, 9, 11, 13, 14, 15, 16, 36, 39, 42, 43, 44], 0x1fffffffffff),
  (83, [25, 27, 28, 29, 30, 31, 32, 33, 34, 35, 36, 37, 38, 39, 40, 42, 43, 44], 0x1fffffffffff),
  (84, [0, 1, 2, 20, 21, 23, 24], 0x7ffffff),
  (85, [9, 10, 11, 13], 0x3fff),
  (86, [37, 114, 120], 0xffffffffffffffffffffffffffffffff),
  (87, [0, 1, 2, 3, 4, 5, 6, 7, 8, 9, 11, 12, 13, 14, 15, 16, 17, 18, 19, 20, 21, 22, 23, 24, 27, 78, 80, 84, 86, 87, 88, 89, 93, 94, 95, 96, 97, 99, 102, 107, 111, 114, 120], 0x7ffffffffffffffffffffffffffffff),
  (88, [], 0x1fffffffffffff),
  (89, [0, 1, 2, 3, 4, 5, 6, 7, 8, 9, 10, 11, 12, 13, 17, 18, 19, 20, 21, 22], 0x1fffffffffff),
  (90, [0, 1, 2, 3, 4, 5, 6, 7, 8, 9, 10, 11, 12, 13, 14, 15, 16, 17, 18, 19, 20, 21, 22, 23, 24, 25, 26, 27, 28, 29, 30, 31, 51, 52, 54, 55], 0x1ffffffffffffff),
  (91, [6, 7, 8, 9, 10], 0x7ff),
  (92, [19, 20, 21, 22, 23, 25, 27, 28, 29, 30, 31, 34, 37, 40, 41, 42, 46, 47, 48, 54, 55, 56, 57, 59, 64, 65, 67, 71, 72, 74, 78, 79, 80, 82, 83, 84, 85], 0x7fffffffffffffffffffff),
  (93, [18, 20, 21, 22, 26, 27, 28, 29, 32, 33, 34, 35, 36, 38, 39, 41, 42, 44, 45, 46, 47, 51, 52, 53, 54, 57, 58, 59, 62], 0xffffffffffffffff),
  (94, [1, 2, 3, 4, 5], 0x7ffff),
  (95, [5, 6, 8, 11, 16, 19, 21, 30, 32, 39, 41, 42, 44, 45, 47, 48, 49, 50, 52, 53, 54, 57, 58, 59, 61, 63, 64, 65, 70, 72, 74, 83, 85, 86, 90, 92, 95, 98, 100, 101, 104, 105, 106, 107, 108, 109, 110, 111, 112, 114, 115, 116, 117], 0x3fffffffffffffffffffffffffffff),
  (96, [24, 25, 26, 27, 28, 29, 30, 31, 32, 33, 34, 35, 36, 37, 38, 39, 40, 41, 42, 43, 44, 45, 47, 48, 49, 53, 54, 55, 56, 57, 58, 59, 60, 61, 62, 63, 64, 65, 66, 67, 68, 69, 74, 76, 77, 78, 79, 80, 81, 82, 83, 84, 85, 87, 88, 90, 91, 92, 93, 94, 95, 96, 97, 98, 99, 100, 101, 103, 104, 105, 106, 107, 108, 109, 110, 111, 112, 114, 115, 116, 117, 118, 119, 124, 125, 126, 127, 128, 129, 130, 140, 148, 149, 150, 151, 152, 163, 164, 165, 166, 167, 168, 169, 170, 171, 222, 223, 224, 250, 264, 265, 266, 268, 269, 270, 271, 272, 273, 274, 277, 279, 280, 282, 284, 285, 286, 287, 289, 290, 291, 292, 293, 294, 295, 296, 297, 298, 299, 301, 302, 303, 304, 305, 306, 307, 308, 309, 310, 311, 312, 313, 314, 315, 316, 317, 318, 319, 320, 321, 322, 323, 324, 325, 326, 327, 328, 329, 330, 332, 333, 334, 335, 336, 337, 338, 339, 340, 341, 342, 343, 345, 346, 347, 348, 350, 351, 353, 354, 355, 356, 357, 358, 359, 360, 361, 362, 363, 364, 365, 366, 367, 368, 369, 370, 371, 372, 373, 374, 376, 377, 380, 381, 382, 383, 384, 385, 386, 388, 389, 390, 391, 394, 395, 396, 397, 399, 400, 401, 403, 404, 405, 406, 407, 408, 409, 410, 422, 424, 425, 426, 427, 428, 429, 430, 431, 432, 433, 434, 435, 436, 437, 438, 439, 440, 441, 442, 443, 444, 445, 446, 447, 448, 449, 450, 452, 454, 455, 459, 460, 461, 462, 463, 464, 465, 466, 470, 471, 472, 479, 482, 483, 484, 486, 488, 489, 490, 491, 492, 495, 499, 500, 501], 0x3ffffffffffffffffffffffffffffffffffffffffffffffffffffffffffffffffffffffffffffffffffffffffffffffffffffffffffbffffffffffffffffff),
  (97, [16, 18, 19, 20, 24, 25, 26, 27, 30, 31, 32, 33, 34, 35, 36, 37, 38, 39, 40, 42, 43, 44, 45, 49, 50, 51, 52, 53, 54, 55, 56, 57, 58, 60], 0x3fffffffffffffff),
  (98, [5, 6, 7, 8, 9, 19], 0xffffffffffffffffffff),
  (99, [2, 47, 51, 52, 54, 56], 0x3ffffffffffffffff),
  (100, [0, 1, 2, 3, 4, 5, 6, 7, 8, 9, 10, 11, 12, 13, 14, 15, 16, 17, 18, 19, 20, 21, 22, 23, 24, 25, 26, 27, 28, 29, 30, 32, 33, 34, 35, 36, 37, 38, 39, 40, 41, 42, 43, 44, 45, 46, 47, 48, 49, 50, 51, 52, 53, 54, 55, 56, 58, 60, 62, 63, 64, 65, 66, 67, 68, 69, 70, 71, 72, 73, 74, 75, 76, 77, 79, 107, 109, 112, 113, 115, 118, 119], 0x7fffffffffffffffffffffffffffffff),
  (101, [59, 68, 70, 71, 72, 74, 76, 77, 78, 79, 80, 81, 82, 83, 85, 88, 89, 90, 92, 94, 95, 96], 0x1ffffffffffffffffffffffff),
  (102, [381], 0x1fffffffffffffffffffffffffffffffffffffffffffffffffffffffffffffffffffffffffffffffffffffffffffffffffff),
  (103, [16, 18, 19, 20, 24, 25, 26, 27, 30, 31, 32, 33, 34, 36, 37, 39, 40, 41, 42, 43, 44, 48, 49, 50, 51, 54, 55, 56, 59], 0x1fffffffffffffff),
  (104, [0, 22, 23, 24, 25, 26, 28], 0x1fffffff),
  (105, [0, 12], 0x7ffff),
  (106, [], 0xffffffffffffffffffffffffff),
  (107, [0, 1, 2, 3, 4, 5, 6], 0xffffff),
  (108, [4, 6, 51, 53, 54, 55, 56, 57, 58, 59, 60, 62, 63, 64, 65, 66, 67, 68, 69, 70, 71, 72, 73, 74, 75], 0xfffffffffffffffffff),
  (109, [0, 1, 2, 3, 4, 5, 6, 7, 8, 9, 10, 11, 12, 14, 15, 21, 22, 55, 59, 60, 61, 62, 64, 66, 67, 68, 71, 72], 0x3ffffffffffffffffff),
  (110, [], 0x7fffff),
  (111, [14, 16, 18, 19], 0x1fffff),
  (112, [21, 62, 64, 65, 66, 67, 68, 69, 70, 71, 74, 75, 76, 79, 80, 81, 85, 86, 87, 90, 91, 92, 94], 0x7fffffffffffffffffffffff),
  (113, [0, 1, 2, 3, 4, 5, 7, 9, 10, 11, 12, 13, 14, 16, 17, 18, 20, 23, 24, 31, 32, 35, 41, 42, 44, 47, 48, 49, 50, 51, 52, 53, 68, 71, 72, 80, 85], 0xffffffffffffffffffffff),
  (114, [0, 1, 2, 3, 4, 5, 6, 7, 8, 9, 11, 13, 14, 15, 16, 17, 19, 20, 21, 22, 23, 24, 25, 26, 27, 28, 29, 30, 32, 33, 34, 35, 36, 37, 58, 453, 455, 456, 457, 458, 459, 463, 465, 467, 471, 475, 476, 477, 478, 480, 481, 483, 488, 489, 490, 491, 493, 494, 495, 496, 497, 498, 499, 500, 501, 503, 504, 505, 506, 507, 508, 509, 510, 511, 512, 513, 515, 516, 517, 518, 520, 521, 522, 525, 618, 619, 620, 625, 628, 631, 632, 633, 634, 635, 639, 660, 661], 0xffffffffffffffffffffffffffffffffffffffffffffffffffffffffffffffffffffffffffffffffffffffffffffffffffffffffffffffffffffffffffffffffffffffffffffffffffffffffffffffffffffff),
  (115, [0, 1, 3, 4, 5, 6, 9, 10, 11, 12, 13, 16, 17, 18], 0x7ffffffffff),
  (116, [1, 3, 4, 21, 235, 236], 0xfffffffffffffffffffffffffffffffffffffffffffffffffffffffffffffff),
  (117, [51, 52, 85, 86, 87, 88, 92, 93, 94, 95, 99, 100, 101, 102, 103, 169], 0x1ffffffffffffffffffffffffffffffffffffffffffffff),
  (118, [0, 1, 2, 3, 4, 5, 6, 7, 8, 9, 10, 11, 12, 13, 14, 15, 16, 20, 21, 24, 25, 28, 41, 42, 43, 44, 45, 46, 47, 48, 49, 50, 51, 52, 53, 54, 55, 56, 57, 58, 59, 60, 61, 62, 63, 64, 65, 66, 67, 68, 69, 70, 71, 72, 73, 74, 75, 76, 77, 78, 79, 80, 81, 82, 83, 84, 85, 86, 87, 88, 89, 90, 91, 92, 93, 95, 96, 97, 98, 99, 111], 0xffffffffffffffffffffffffffff),
  (119, [55, 59, 64, 66, 68, 75, 78, 79, 80, 81, 82, 83, 85, 89, 90, 91, 97, 102], 0x7fffffffffffffffffffffffff),
  (120, [0, 1, 16, 17, 18, 19, 20, 21, 22, 23, 24, 26], 0x7ffffff),
  (121, [0, 11, 12, 13, 14, 15, 16, 17], 0x3ffff),
  (122, [7, 8, 10, 14, 15, 22, 27, 28, 66, 67, 68, 80], 0x1ffffffffffffffffffffff),
  (123, [1, 10, 17, 18, 20, 37], 0x7fffffffff),
  (124, [22, 23, 24, 30, 32, 60, 62, 63, 64, 65, 66, 67, 68, 69, 70, 73, 75, 76, 77, 78, 80, 81, 82, 83, 84, 85, 86, 96, 101, 102, 103, 104, 109, 110, 111, 112, 113, 114, 122, 123, 124, 125, 128, 131, 132, 133, 134, 135, 136, 147, 150, 151, 152, 153, 157, 158], 0x1ffffffffffffffffffffffffffffffffffffffff),
  (125, [49, 90, 95], 0x1fffffffffffffffffffffffffff),
  (126, [0, 3, 4, 10, 46, 47, 48, 49, 50, 51, 53], 0x7fffffffffffff),
  (127, [0, 13, 14, 15, 17, 18], 0x7ffff),
  (128, [0, 1, 2, 3, 4, 6, 7, 8, 10, 12, 71, 82], 0xfffffffffffffffffffffff),
  (129, [0, 2, 3, 5, 6, 7, 22, 23, 24, 25, 26, 27, 28, 29, 30, 31, 33, 34, 35, 36, 37, 38, 39, 40, 41, 43, 44, 45, 46, 47, 48, 49, 50, 51, 52, 53], 0x3fffffffffffff),
  (130, [25], 0x3ffffff),
  (131, [11, 13, 22, 23, 32, 38, 49, 50, 51, 55, 56, 57, 72, 77, 78, 98, 99, 100, 107, 108, 110, 118], 0xffffffffffffffffffffffffffffffffffffffffffffffffff),
  (132, [11], 0xfff),
  (133, [26], 0xfffffffffffffffffffffffffffffffffffff),
  (134, [0, 1, 2, 3, 4, 5, 6, 7, 8, 9, 10, 11, 12, 13, 14, 15, 16, 17, 18, 19, 20, 21, 22, 23, 24, 25, 26, 27, 28, 29, 30, 31, 32, 33, 34, 35, 36, 37, 38, 39, 40, 41, 42, 43, 44, 45, 46, 47, 48, 49, 50, 51, 52, 53, 54, 55, 56, 57, 58, 59, 60, 61, 62, 63, 64, 65, 66, 67, 68, 69, 70, 71, 72, 73, 74, 75, 76], 0x1fffffffffffffffffffff),
  (135, [27], 0x7fffffffffffffffffffffffffffffffffffff),
  (136, [0], 0xffff),
  (137, [40, 143, 145, 146, 149], 0x1ffffffffffffffffffffffffffffffffffffffffff),
  (138, [1], 0x7fffff),
  (139, [28, 29, 30, 31, 33, 34, 35], 0xfffffffff),
  (140, [8], 0x1fffff),
  (141, [101, 145, 146, 147], 0xffffffffffffffffffffffffffffffffffffffffff),
  (142, [1, 2, 10, 14, 15, 18, 19, 21, 22], 0x7fffffffffffffffffff),
  (143, [14, 15], 0xffff),
  (144, [0, 2], 0x1fffffffff),
  (145, [4, 58], 0x1ffffffffffffffff),
  (146, [254, 255], 0xffffffffffffffffffffffffffffffffffffffffffffffffffffffffffffffffff),
  (147, [0, 1, 2, 4, 5, 6, 7, 9, 11, 12, 13, 14, 16, 18, 20, 21, 22, 23, 24, 25, 27, 28, 29], 0xfffffffffffffff),
  (148, [1, 2, 3, 4, 5, 6, 7, 8, 9, 11, 12, 14, 15, 16, 17, 18, 19, 20, 21, 22, 23, 24, 25, 27, 28, 29, 30, 31, 33, 34, 35, 36, 37, 39, 40, 41, 42, 43, 44, 45, 48, 49, 50, 51, 53, 54, 55, 57, 58, 59, 60, 61, 62, 63, 64, 65, 66, 67, 68, 69, 70, 71, 72, 73, 74, 75, 76, 77, 78, 79, 81, 84, 85, 86, 87, 88, 89, 91, 92, 93, 94, 95, 96, 97, 101, 144, 241, 242, 243, 244, 252, 254, 255, 256, 257, 258, 260, 261, 262, 263, 265, 266, 268, 269, 272], 0x7ffffffffffffffffffffffffffffffffffffffffffffffffffffffffffffffffffff),
  (149, [0, 11, 13, 14, 15, 16, 17, 18, 22, 26, 27, 28, 29, 30, 31, 33], 0x3ffffffff),
  (150, [0, 3, 4, 5, 6, 7, 8, 9, 10, 28, 29, 33, 34, 35, 37, 38, 39, 41, 43, 44, 45, 46, 50], 0xfffffffffffff),
  (151, [0, 2, 3, 47], 0x1ffffffffffffffff),
  (152, [0, 1, 21, 22, 23, 27, 28, 31], 0x1fffffffff),
  (153, [2], 0x1ffffff),
  (154, [1, 2, 3, 4, 6, 8, 9, 11, 12, 13, 14, 16, 18, 19, 137], 0x1fffffffffffffffffffffffffffffffffff),
  (155, [2, 14], 0xfffff),
  (156, [0, 1], 0x3fffff),
  (157, [14, 15, 16, 17], 0x1fffff),
  (158, [0, 1], 0x7ffff),
  (159, [29, 30, 31, 32, 33], 0x3ffffffff),
  (160, [9, 10, 11, 12], 0x3fff),
  (161, [0, 1, 2], 0x3fff),
  (162, [78, 105], 0x7ffffffffffffffffffffffffffff),
  (163, [0, 1, 3, 4, 6, 7, 9, 10, 11, 12, 13, 15, 16, 17, 18, 19, 20, 21, 23, 24, 25, 26, 27, 30, 72, 82, 119], 0x1fffffffffffffffffffffffffffffff),
  (164, [9, 10, 11, 12, 13], 0x3fff),
  (165, [0, 2], 0x7fff),
  (166, [2, 3, 4, 5, 7, 8, 9, 10, 11, 12, 58, 64, 65, 66, 67], 0x7fffffffffffffffff),
  (167, [1, 11], 0x1fffff),
  (168, [35, 39, 40, 42, 43, 44, 46, 47], 0xffffffffffff),
  (169, [4], 0x7ffffffff),
  (170, [24, 136], 0x1fffffffffffffffffffffffffffffffffffffffff),
  (171, [0, 4, 7, 8, 35, 37, 38, 39, 41, 42, 43], 0xfffffffffee),
  (172, [0, 1, 2, 3, 18, 19], 0xfffff)]

/-- recorded finding K (known_findings.json, id C27-undeclared-attrs): `(module id, name id)` of declarations that name no
    attribute, kept unfixed: collections.abc.ContextManager, collections.abc.AsyncContextManager, hashlib.HASH, hashlib.HASHXOF, os.OSError, zlib.Compress, zlib.Decompress -/
def kfind : List (Nat × Nat) := [(28, 1), (28, 11), (64, 0), (64, 1), (96, 74), (171, 0), (171, 4)]

end ErgVerif.Gen.C27
