/- GENERATED on every run by checks/c34.py from crates/erg_compiler/context/initialize/classes.rs (List class: concat, the
   Output of the Add impl, push, repeat/__mul__, __getitem__ index bound) and crates/erg_compiler/lib/core.d/List.d.er (reversed).
   Never edit by hand. -/
import ErgVerif.C34.Model
namespace ErgVerif.Gen.C34
open ErgVerif.C34

def declared : SigTable := [
  (.concat, (.add .n .m)),
  (.addOutput, (.add .n .m)),
  (.push, (.add .n (.lit 1))),
  (.repeat_, (.mul .n .m)),
  (.reversed, .n),
  (.getitemMax, (.sub .n (.lit 1)))
]

end ErgVerif.Gen.C34
