import ErgVerif.C32.Model
import ErgVerif.Shared.PredProofs
/-!
C32 — refinement predicate combinators denote set operations. All statements are for every predicate tree and every integer.
-/
namespace ErgVerif.C32
open ErgVerif

/-- `Predicate::and` denotes intersection -/
theorem C32_and (p q : Pred) (i : Int) : (Pred.mkAnd p q).sat i = (p.sat i && q.sat i) := sat_mkAnd p q i

/-- `Predicate::or` denotes union -/
theorem C32_or (p q : Pred) (i : Int) : (Pred.mkOr p q).sat i = (p.sat i || q.sat i) := sat_mkOr p q i

/-- `Predicate::invert` denotes complement -/
theorem C32_not (p : Pred) (i : Int) : (Pred.invert p).sat i = !p.sat i := sat_invert p i

/-- `Predicate::gt` is strict `>` -/
theorem C32_gt (c i : Int) : (Pred.mkGt c).sat i = decide (c < i) := sat_mkGt c i

/-- `Predicate::lt` is strict `<` -/
theorem C32_lt (c i : Int) : (Pred.mkLt c).sat i = decide (i < c) := sat_mkLt c i

/-- whole trees: whatever the constructors build bottom-up from an expression satisfies exactly the integers the Boolean
    reading of the expression does (any depth, any constants) -/
theorem C32_tree (e : PExpr) (i : Int) : e.build.sat i = e.den i := sat_build e i

/-- the oracle the driver applies to the *implementation's* printed structure is exact -/
theorem C32_oracle_exact (p q : Pred) : equivPred p q = true ↔ ∀ i : Int, p.sat i = q.sat i := equivPred_iff p q

/-- fixed finding `C32-int-nat-eq-sign-extension`: under the legacy constant equality `I >= -1` and `I >= 2^64-1` were "equal"
    although 0 satisfies only the first, so `and`/`or` of the two returned the first operand (witness rows in corpus/C32) -/
theorem C32_legacy_witness :
    legacyIntNatEq (-1) 18446744073709551615 = true ∧
    (Pred.ge (-1)).sat 0 ≠ (Pred.ge 18446744073709551615).sat 0 ∧
    (Pred.mkAnd (.ge (-1)) (.ge 18446744073709551615)).sat 0 = false := by
  refine ⟨by decide, by decide, ?_⟩
  rw [sat_mkAnd]; decide

/-- the special arms really fire (the theorems above are not about an identity function): absorption in `and`,
    same-bound merge in `or`, de-sugaring in `invert` -/
example : Pred.mkAnd (.and (.ge 0) (.le 5)) (.ge 0) = .and (.le 5) (.ge 0) := by simp [Pred.mkAnd]
example : Pred.mkOr (.eq 1) (.ge 1) = .ge 1 := by simp [Pred.mkOr]
example : Pred.invert (.ge 3) = .and (.le 3) (.ne 3) := by simp [Pred.invert, Pred.mkLt, Pred.mkAnd]
example : Pred.mkOr (.or (.cons (.eq 1) .nil)) (.eq 1) = .or (.cons (.eq 1) .nil) := by
  simp [Pred.mkOr, PredList.insert]

end ErgVerif.C32
