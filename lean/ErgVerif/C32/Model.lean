import ErgVerif.Shared.Pred
/-!
C32 model = the shared predicate development (lean/ErgVerif/Shared/Pred.lean):
  `Pred.mkAnd`  ← `Predicate::and`     (crates/erg_compiler/ty/predicate.rs)
  `Pred.mkOr`   ← `Predicate::or`      (with `PredList.insert/union` ← `Set::insert/union` on `Or(Set<Predicate>)`)
  `Pred.invert` ← `Predicate::invert`
  `Pred.mkGt/mkLt` ← `Predicate::gt/lt`
  `PExpr.build` : how a harness case drives those constructors bottom-up; `PExpr.den` : the Boolean reading of the tree.
Nothing is defined here; the file exists so that the C32 driver and theorems have one import.
-/
namespace ErgVerif.C32
export ErgVerif (Pred PredList PExpr PExprList)
end ErgVerif.C32
