import ErgVerif.C27.Model
import ErgVerif.Gen.C27
/-!
# C27 — Stdlib declarations name attributes that really exist

Property theorems only. `Gen.C27.modules` / `Gen.C27.kfind` are regenerated on every run (`checks/c27.py`) from the declaration
files of the working tree (parsed by the real `erg_parser`), from `dir(import_module(M))` under the installed interpreters
3.7–3.13 and from the bundled typeshed stubs; a changed table re-elaborates these theorems.
-/
namespace ErgVerif.C27

/-- Full statement with the recorded exceptions: in every bundled declaration file, every top-level public declaration names
    (under its Python name) an attribute that the module has in at least one interpreter / typeshed branch, or is one of the
    finitely many recorded pairs `K`. -/
theorem C27_all :
    ∀ m ∈ Gen.C27.modules, ∀ d ∈ m.2.1, Known m.2.2 d ∨ (m.1, d) ∈ Gen.C27.kfind :=
  allOk_sound (by decide +kernel)

/-- `K` is exactly the recorded finding (known_findings.json `C27-undeclared-attrs`): its size is pinned here, so the
    generated exception list cannot grow without this file being edited. -/
theorem C27_K_size : Gen.C27.kfind.length = 7 := by decide +kernel

/-- The full property is false of the current declarations: every pair of `K` is a declaration whose name is *not* known
    (each exception is a real counterexample, none is padding). -/
theorem C27_K_are_counterexamples :
    ∀ p ∈ Gen.C27.kfind, ∃ m ∈ Gen.C27.modules, m.1 = p.1 ∧ p.2 ∈ m.2.1 ∧ ¬ Known m.2.2 p.2 := by
  decide +kernel

/-- Outside `K` the inclusion holds outright (the partial theorem in the shape `¬ K x → Good x`). -/
theorem C27_partial :
    ∀ m ∈ Gen.C27.modules, ∀ d ∈ m.2.1, (m.1, d) ∉ Gen.C27.kfind → Known m.2.2 d := by
  intro m hm d hd hk
  rcases C27_all m hm d hd with h | h
  · exact h
  · exact absurd h hk

/-! ## non-vacuity: the tables are the real ones (≥ 150 modules, ≥ 2000 declarations, every module has known names) -/
example : Gen.C27.modules.length ≥ 150 ∧ declCount Gen.C27.modules ≥ 2000 := by decide +kernel
example : (Gen.C27.modules.all fun m => m.2.2 != 0) = true := by decide +kernel

end ErgVerif.C27
