/-!
# C27 — specification vocabulary and the Bool checker evaluated over the generated tables (import-free)

Nothing of erg is *transcribed* here: the responsible "code" is data — the declaration files under
`crates/erg_compiler/lib/pystd` — and the rule that maps a declaration to the Python attribute name it accesses
(`crates/erg_compiler/declare.rs` `declare_ident`: erg name without trailing `!`; `declare_var_alias` /
`hir::Accessor::local_name`: the text between the quotes of `.Name = 'py_name': T`). That rule is applied by the dumper
(`harness/src/bin/c27.rs`) on the AST produced by the real `erg_parser`; the resulting table is `ErgVerif.Gen.C27.modules`.

A module row is `(module id, ids of the declared Python names, bitset of known attribute ids)`, ids local to the module.
-/
namespace ErgVerif.C27

abbrev ModRow := Nat × List Nat × Nat

/-- the name with id `d` is an attribute of the module in some interpreter 3.7–3.13 or some typeshed branch -/
def Known (known : Nat) (d : Nat) : Prop := known.testBit d = true

instance (known d : Nat) : Decidable (Known known d) := by unfold Known; infer_instance

/-- membership of a `(module, name)` pair in the recorded finite set `K` -/
def pairMem : List (Nat × Nat) → Nat → Nat → Bool
  | [], _, _ => false
  | (a, b) :: t, m, d => (Nat.beq a m && Nat.beq b d) || pairMem t m d

theorem pairMem_sound : ∀ (k : List (Nat × Nat)) (m d : Nat), pairMem k m d = true → (m, d) ∈ k
  | [], _, _, h => by cases h
  | (a, b) :: t, m, d, h => by
    simp only [pairMem, Bool.or_eq_true, Bool.and_eq_true] at h
    rcases h with ⟨h1, h2⟩ | h
    · rw [Nat.eq_of_beq_eq_true h1, Nat.eq_of_beq_eq_true h2]; exact List.mem_cons_self
    · exact List.mem_cons_of_mem _ (pairMem_sound t m d h)

/-- one module: every declared name is known or is a recorded `K` pair -/
def modOk (k : List (Nat × Nat)) (m : ModRow) : Bool :=
  m.2.1.all fun d => m.2.2.testBit d || pairMem k m.1 d

def allOk (k : List (Nat × Nat)) (ms : List ModRow) : Bool := ms.all (modOk k)

theorem allOk_sound {k : List (Nat × Nat)} {ms : List ModRow} (h : allOk k ms = true) :
    ∀ m ∈ ms, ∀ d ∈ m.2.1, Known m.2.2 d ∨ (m.1, d) ∈ k := by
  intro m hm d hd
  have h1 := List.all_eq_true.mp h m hm
  have h2 := List.all_eq_true.mp h1 d hd
  simp only [Bool.or_eq_true] at h2
  rcases h2 with h2 | h2
  · exact Or.inl h2
  · exact Or.inr (pairMem_sound _ _ _ h2)

/-- number of declarations over all modules -/
def declCount (ms : List ModRow) : Nat := ms.foldl (fun n m => n + m.2.1.length) 0

end ErgVerif.C27
