import ErgVerif.C12.Model
/-!
Helper lemmas for C12: an expression that `is_impure` (current code) calls pure has an empty effect trace, hence
replacing a pure definition by `Dummy` and rewriting inside call arguments / blocks / lambda bodies preserves the trace.
-/
namespace ErgVerif.C12
open ErgVerif.MiniHir

mutual
theorem pure_silentE : ∀ e : Expr, okE e = true → impureE fixed e = false → traceE e = []
  | .lit _, _, _ => rfl
  | .ident _ _ _, _, _ => rfl
  | .import, _, h => by simp [impureE, fixed] at h
  | .attr _ obj _ _, hok, h => by
    simp only [okE] at hok
    simp only [impureE, fixed, Bool.true_and] at h
    simp only [traceE]; exact pure_silentE obj hok h
  | .bin _ _ l r, hok, h => by
    simp only [okE, Bool.and_eq_true] at hok
    simp only [impureE, Bool.or_eq_false_iff] at h
    simp [traceE, pure_silentE l hok.1 h.1, pure_silentE r hok.2 h.2]
  | .un _ _ e, hok, h => by
    simp only [okE] at hok
    simp only [impureE] at h
    simp only [traceE]; exact pure_silentE e hok h
  | .call _ ci obj pos var kw kwvar, hok, h => by
    simp only [okE, Bool.and_eq_true] at hok
    simp only [impureE, fixed, Bool.true_and, Bool.or_eq_false_iff] at h
    obtain ⟨⟨⟨⟨⟨hc, _⟩, ho, hkv⟩, hp⟩, hv⟩, hk⟩ := h
    simp [traceE, hc, pure_silentE obj hok.1.1.1.1 ho, pure_silentL pos hok.1.1.1.2 hp, pure_silentL var hok.1.1.2 hv,
      pure_silentK kw hok.1.2 hk, pure_silentL kwvar hok.2 hkv]
  | .defn _ di ps body, hok, h => by
    simp only [okE, Bool.and_eq_true, List.isEmpty_iff] at hok
    simp only [impureE, Bool.or_eq_false_iff] at h
    simp [traceE, hok.1, pure_silentL body hok.2 h.2]
  | .lambda _ li ps body, hok, h => by
    simp only [okE, Bool.and_eq_true, List.isEmpty_iff] at hok
    simp only [impureE] at h
    simp [traceE, hok.1, pure_silentL body hok.2 h]
  | .coll _ es, hok, h => by
    simp only [okE] at hok
    simp only [impureE] at h
    simp only [traceE]; exact pure_silentL es hok h
  | .record _ attrs, hok, h => by
    simp only [okE] at hok
    simp only [impureE, fixed, Bool.true_and] at h
    simp only [traceE]; exact pure_silentL attrs hok h
  | .tasc e, hok, h => by
    simp only [okE] at hok
    simp only [impureE, fixed, Bool.true_and] at h
    simp only [traceE]; exact pure_silentE e hok h
  | .classDef _ _ _ _ _, _, h => by simp [impureE, fixed] at h
  | .patchDef _ _ _, _, h => by simp [impureE, fixed] at h
  | .redef _ _ _, _, h => by simp [impureE, fixed] at h
  | .blk k es, hok, h => by
    simp only [okE] at hok
    simp only [traceE]
    cases k <;> simp only [impureE, fixed, Bool.true_and] at h <;> exact pure_silentL es hok h
theorem pure_silentL : ∀ es : ExprList, okL es = true → impureL fixed es = false → traceL es = []
  | .nil, _, _ => rfl
  | .cons e es, hok, h => by
    simp only [okL, Bool.and_eq_true] at hok
    simp only [impureL, Bool.or_eq_false_iff] at h
    simp [traceL, pure_silentE e hok.1 h.1, pure_silentL es hok.2 h.2]
theorem pure_silentK : ∀ kw : KwList, okK kw = true → impureK fixed kw = false → traceK kw = []
  | .nil, _, _ => rfl
  | .cons _ e rest, hok, h => by
    simp only [okK, Bool.and_eq_true] at hok
    simp only [impureK, Bool.or_eq_false_iff] at h
    simp [traceK, pure_silentE e hok.1 h.1, pure_silentK rest hok.2 h.2]
end

theorem trace_dummy : traceE dummy = [] := by simp [dummy, traceE, traceL]

mutual
theorem elim_traceE : ∀ e : Expr, okE e = true → traceE (elimE fixed e) = traceE e
  | .defn loc di ps body, hok => by
    simp only [elimE]
    split
    · rename_i h
      simp only [eliminable, Bool.and_eq_true, Bool.not_eq_true'] at h
      rw [trace_dummy, pure_silentE _ hok h.2]
    · rfl
  | .call _ _ obj pos var kw kwvar, hok => by
    simp only [okE, Bool.and_eq_true] at hok
    simp only [elimE, traceE, elim_traceL pos hok.1.1.1.2]
  | .blk k es, hok => by
    simp only [okE] at hok
    cases k <;> simp only [elimE, traceE, elim_traceL es hok]
  | .lambda _ _ ps body, hok => by
    simp only [okE, Bool.and_eq_true] at hok
    simp only [elimE, traceE, elim_traceL body hok.2]
  | .lit _, _ => rfl
  | .ident _ _ _, _ => rfl
  | .attr _ _ _ _, _ => rfl
  | .bin _ _ _ _, _ => rfl
  | .un _ _ _, _ => rfl
  | .coll _ _, _ => rfl
  | .record _ _, _ => rfl
  | .tasc _, _ => rfl
  | .classDef _ _ _ _ _, _ => rfl
  | .patchDef _ _ _, _ => rfl
  | .redef _ _ _, _ => rfl
  | .import, _ => rfl
theorem elim_traceL : ∀ es : ExprList, okL es = true → traceL (elimL fixed es) = traceL es
  | .nil, _ => rfl
  | .cons e es, hok => by
    simp only [okL, Bool.and_eq_true] at hok
    simp only [elimL, traceL, elim_traceE e hok.1, elim_traceL es hok.2]
end

end ErgVerif.C12
