import ErgVerif.Shared.MiniHir
/-!
# C12 model — dead-definition elimination

Transcribed: `crates/erg_compiler/optimize.rs` (`HIROptimizer::optimize`, `eliminate_dead_code`, `eliminate_unused_variables`,
`eliminate_unused_def`, `eliminate_discarded_variables` = identity) and `crates/erg_compiler/effectcheck.rs`
(`SideEffectChecker::is_impure` / `is_pure`). The referrer count of a definition (`shared.index.get_refs(def_loc).referrers`)
is a field of the projection (`DefInfo.refs`; `none` = no index entry = the `unwrap()` panic site).

`fixed` is the code after the `fix:` commit, `legacy` the pinned commit (`is_impure` tested the *result type* of a call and
answered `false` for attribute accesses, ascriptions, records, `Dummy`).

Specification: `traceL` — the sequence of side-effecting call sites of the program text (calls whose callee is a procedure or
a procedural method), bodies of subroutines and lambdas included, in evaluation order within each body.
-/
namespace ErgVerif.C12
open ErgVerif.MiniHir

structure Variant where
  /-- test the callee of a call (`obj.t().is_procedure()` / procedural attribute name) and look into the callee expression
      and `**kwargs` -/
  calleeTest : Bool
  /-- look into attribute receivers, ascriptions, records, `Dummy`; never call class/patch definitions, re-assignments,
      imports pure -/
  deep : Bool

def fixed : Variant := ⟨true, true⟩
def legacy : Variant := ⟨false, false⟩

mutual
/-- `SideEffectChecker::is_impure` -/
def impureE (v : Variant) : Expr → Bool
  | .lit _ => false
  | .ident _ _ _ => false
  | .attr _ obj _ _ => v.deep && impureE v obj
  | .bin _ _ l r => impureE v l || impureE v r
  | .un _ _ e => impureE v e
  | .call _ ci obj pos var kw kwvar =>
    (v.calleeTest && (ci.objProc || ci.attrProc)) || ci.resProc || (v.calleeTest && (impureE v obj || impureL v kwvar)) ||
    impureL v pos || impureL v var || impureK v kw
  | .defn _ di _ body => di.proc || impureL v body
  -- `lambda.op.is_procedural()` asks whether the token `->`/`=>` ends with `!`: constantly false
  | .lambda _ _ _ body => impureL v body
  | .coll _ es => impureL v es
  | .record _ attrs => v.deep && impureL v attrs
  | .tasc e => v.deep && impureE v e
  | .classDef _ _ _ _ _ => v.deep
  | .patchDef _ _ _ => v.deep
  | .redef _ _ _ => v.deep
  | .blk k es => match k with
    | .code | .compound => impureL v es
    | .dummy => v.deep && impureL v es
  | .import => v.deep
def impureL (v : Variant) : ExprList → Bool
  | .nil => false
  | .cons e es => impureE v e || impureL v es
def impureK (v : Variant) : KwList → Bool
  | .nil => false
  | .cons _ e rest => impureE v e || impureK v rest
end

def dummy : Expr := .blk .dummy .nil

/-- the test of the `Def` arm of `eliminate_unused_def` -/
def eliminable (v : Variant) (loc : Loc) (di : DefInfo) (ps : ParamList) (body : ExprList) : Bool :=
  !(di.glob || di.discarded || di.pub) && di.refs == some 0 && !impureE v (.defn loc di ps body)

mutual
/-- `eliminate_unused_def` -/
def elimE (v : Variant) : Expr → Expr
  | .defn loc di ps body => if eliminable v loc di ps body then dummy else .defn loc di ps body
  | .call loc ci obj pos var kw kwvar => .call loc ci obj (elimL v pos) var kw kwvar
  | .blk k es => match k with
    | .code | .compound => .blk k (elimL v es)
    | .dummy => .blk k es
  | .lambda loc li ps body => .lambda loc li ps (elimL v body)
  | e => e
def elimL (v : Variant) : ExprList → ExprList
  | .nil => .nil
  | .cons e es => .cons (elimE v e) (elimL v es)
end

mutual
/-- the traversal of `eliminate_unused_def` reaches a private definition without an index entry (`get_refs(..).unwrap()`) -/
def crashesE : Expr → Bool
  | .defn _ di _ _ => !(di.glob || di.discarded || di.pub) && di.refs.isNone
  | .call _ _ _ pos _ _ _ => crashesL pos
  | .blk k es => match k with
    | .code | .compound => crashesL es
    | .dummy => false
  | .lambda _ _ _ body => crashesL body
  | _ => false
def crashesL : ExprList → Bool
  | .nil => false
  | .cons e es => crashesE e || crashesL es
end

/-- `HIROptimizer::optimize` at `opt_level = n` (not a REPL input) -/
def optimize (v : Variant) (n : Nat) (p : ExprList) : ExprList :=
  if n = 0 then p else elimL v p

/-! ## specification: the effect trace of the program text -/

mutual
def traceE : Expr → List Loc
  | .lit _ => []
  | .ident _ _ _ => []
  | .attr _ obj _ _ => traceE obj
  | .bin _ _ l r => traceE l ++ traceE r
  | .un _ _ e => traceE e
  | .call loc ci obj pos var kw kwvar =>
    traceE obj ++ traceL pos ++ traceL var ++ traceK kw ++ traceL kwvar ++ (if ci.objProc || ci.attrProc then [loc] else [])
  | .defn _ _ ps body => traceP ps ++ traceL body
  | .lambda _ _ ps body => traceP ps ++ traceL body
  | .coll _ es => traceL es
  | .record _ attrs => traceL attrs
  | .tasc e => traceE e
  | .classDef _ _ _ rs ms => traceL rs ++ traceL ms
  | .patchDef _ base ms => traceE base ++ traceL ms
  | .redef _ a b => traceE a ++ traceL b
  | .blk _ es => traceL es
  | .import => []
def traceL : ExprList → List Loc
  | .nil => []
  | .cons e es => traceE e ++ traceL es
def traceK : KwList → List Loc
  | .nil => []
  | .cons _ e rest => traceE e ++ traceK rest
def traceP : ParamList → List Loc
  | .nil => []
  | .cons (.mk _ d) ps => traceL d ++ traceP ps
end

mutual
/-- hypothesis of the theorems: default values of parameters contain no effect site (`is_impure` does not look at them;
    for functions this is what the effect checker enforces — C22 —, procedures are never eliminated) -/
def okE : Expr → Bool
  | .lit _ | .ident .. | .import => true
  | .attr _ obj _ _ => okE obj
  | .bin _ _ l r => okE l && okE r
  | .un _ _ e => okE e
  | .call _ _ obj pos var kw kwvar => okE obj && okL pos && okL var && okK kw && okL kwvar
  | .defn _ _ ps body => (traceP ps).isEmpty && okL body
  | .lambda _ _ ps body => (traceP ps).isEmpty && okL body
  | .coll _ es => okL es
  | .record _ attrs => okL attrs
  | .tasc e => okE e
  | .classDef _ _ _ rs ms => okL rs && okL ms
  | .patchDef _ base ms => okE base && okL ms
  | .redef _ a b => okE a && okL b
  | .blk _ es => okL es
def okL : ExprList → Bool
  | .nil => true
  | .cons e es => okE e && okL es
def okK : KwList → Bool
  | .nil => true
  | .cons _ e rest => okE e && okK rest
end

/-! ## what the correspondence prints: the definitions that disappear -/

mutual
def defsE : Expr → List (Loc × Name)
  | .lit _ | .ident .. | .import => []
  | .attr _ obj _ _ => defsE obj
  | .bin _ _ l r => defsE l ++ defsE r
  | .un _ _ e => defsE e
  | .call _ _ obj pos var kw kwvar => defsE obj ++ defsL pos ++ defsL var ++ defsK kw ++ defsL kwvar
  | .defn loc di ps body => (loc, di.name) :: (defsP ps ++ defsL body)
  | .lambda _ _ ps body => defsP ps ++ defsL body
  | .coll _ es => defsL es
  | .record _ attrs => defsL attrs
  | .tasc e => defsE e
  | .classDef _ _ _ rs ms => defsL rs ++ defsL ms
  | .patchDef _ base ms => defsE base ++ defsL ms
  | .redef _ a b => defsE a ++ defsL b
  | .blk _ es => defsL es
def defsL : ExprList → List (Loc × Name)
  | .nil => []
  | .cons e es => defsE e ++ defsL es
def defsK : KwList → List (Loc × Name)
  | .nil => []
  | .cons _ e rest => defsE e ++ defsK rest
def defsP : ParamList → List (Loc × Name)
  | .nil => []
  | .cons (.mk _ d) ps => defsL d ++ defsP ps
end

/-! ## the implementation's answer replayed on the program: remove exactly the definitions it reports as removed -/

mutual
def dropE (ds : List Loc) : Expr → Expr
  | .defn loc di ps body => if ds.contains loc then dummy else .defn loc di (dropP ds ps) (dropL ds body)
  | .attr loc obj n ai => .attr loc (dropE ds obj) n ai
  | .bin loc op l r => .bin loc op (dropE ds l) (dropE ds r)
  | .un loc op e => .un loc op (dropE ds e)
  | .call loc ci obj pos var kw kwvar => .call loc ci (dropE ds obj) (dropL ds pos) (dropL ds var) (dropK ds kw) (dropL ds kwvar)
  | .lambda loc li ps body => .lambda loc li (dropP ds ps) (dropL ds body)
  | .coll k es => .coll k (dropL ds es)
  | .record loc attrs => .record loc (dropL ds attrs)
  | .tasc e => .tasc (dropE ds e)
  | .classDef loc n pub rs ms => .classDef loc n pub (dropL ds rs) (dropL ds ms)
  | .patchDef loc base ms => .patchDef loc (dropE ds base) (dropL ds ms)
  | .redef loc a b => .redef loc (dropE ds a) (dropL ds b)
  | .blk k es => .blk k (dropL ds es)
  | .lit loc => .lit loc
  | .ident loc n ai => .ident loc n ai
  | .import => .import
def dropL (ds : List Loc) : ExprList → ExprList
  | .nil => .nil
  | .cons e es => .cons (dropE ds e) (dropL ds es)
def dropK (ds : List Loc) : KwList → KwList
  | .nil => .nil
  | .cons k e rest => .cons k (dropE ds e) (dropK ds rest)
def dropP (ds : List Loc) : ParamList → ParamList
  | .nil => .nil
  | .cons (.mk pi d) ps => .cons (.mk pi (dropL ds d)) (dropP ds ps)
end

end ErgVerif.C12
