import ErgVerif.C12.Proofs
/-!
# C12 — Optimisation never changes observable behaviour

Property theorems only. Model: `ErgVerif/C12/Model.lean` (`optimize fixed n` = `HIROptimizer::optimize` at `-o n` with
`is_impure` after the `fix:` commit; `legacy` = pinned commit). Specification: `traceL`, the sequence of side-effecting call
sites of the program text. Hypothesis `okL p`: default values of parameters contain no effect site (evaluated by the driver
on every case). What the theorem does not cover — stated in notes/C12.md: exceptions raised by pure code (an unused
definition whose initialiser raises is dropped: recorded finding C12-raising-def-dropped), and the adequacy of the reference
index (`referrers`), which the behavioural stream `erg -o N run` exercises.
-/
namespace ErgVerif.C12
open ErgVerif.MiniHir

/-- What `is_pure` must guarantee for elimination to be sound: a pure expression has no effect site. -/
theorem C12_pure_silent (e : Expr) (hok : okE e = true) (h : impureE fixed e = false) : traceE e = [] :=
  pure_silentE e hok h

/-- Trace preservation in full for the implemented optimisation, at every level. -/
theorem C12_full (n : Nat) (p : ExprList) (hok : okL p = true) : traceL (optimize fixed n p) = traceL p := by
  unfold optimize
  split
  · rfl
  · exact elim_traceL p hok

/-- Level 0 is the identity and levels 1, 2, 3, … are identical today (a future level-2 pass breaks this visibly). -/
theorem C12_levels (v : Variant) (p : ExprList) (n : Nat) :
    optimize v 0 p = p ∧ optimize v (n + 1) p = optimize v 1 p := by
  simp [optimize]

/-- Only private, named, non-glob definitions without referrers are ever removed. -/
theorem C12_only_unreferenced_private (v : Variant) (loc : Loc) (di : DefInfo) (ps : ParamList) (body : ExprList)
    (h : elimE v (.defn loc di ps body) ≠ .defn loc di ps body) :
    di.pub = false ∧ di.glob = false ∧ di.discarded = false ∧ di.refs = some 0 := by
  simp only [elimE] at h
  split at h
  · rename_i he
    simp only [eliminable, Bool.and_eq_true, Bool.not_eq_true', Bool.or_eq_false_iff, beq_iff_eq] at he
    exact ⟨he.1.1.2, he.1.1.1.1, he.1.1.1.2, he.1.2⟩
  · exact absurd rfl h

/-! ## witnesses of the repaired defect (finding #5) -/

private def L (l c : Nat) : Loc := ⟨l, c⟩
private def unusedVar (l : Nat) (n : String) (body : List Expr) : Expr :=
  .defn (L l 0) ⟨n.toList, false, false, false, false, false, false, false, some 0⟩ .nil (.ofList body)
/-- `print! "hello"`: callee is a procedure, result type `NoneType` -/
private def printCall (l c : Nat) : Expr :=
  .call (L l c) ⟨none, true, false, false, true, false, .notSubr⟩
    (.ident (L l c) "print!".toList ⟨false, false, false, "<builtins>".toList⟩) (.cons (.lit (L l (c + 7))) .nil) .nil .nil .nil

/-- `x = print! "hello"` -/
private def wPrint : ExprList := .ofList [unusedVar 1 "x" [printCall 1 4]]
/-- `y = one!().real` (here with `print!`) -/
private def wAttr : ExprList := .ofList [unusedVar 1 "y" [.attr (L 1 4) (printCall 1 4) "real".toList ⟨false, false, false, "Int".toList⟩]]
/-- `z = {a = print! "hello"}` -/
private def wRecord : ExprList := .ofList [unusedVar 1 "z" [.record (L 1 4) (.ofList [unusedVar 1 "a" [printCall 1 9]])]]

/-- The pinned commit dropped the definition (and its effect); the current code keeps it. -/
theorem C12_witness_print :
    traceL wPrint = [L 1 4] ∧ traceL (optimize legacy 1 wPrint) = [] ∧ traceL (optimize fixed 1 wPrint) = [L 1 4] := by decide

theorem C12_witness_attr_record :
    (traceL wAttr = [L 1 4] ∧ traceL (optimize legacy 1 wAttr) = [] ∧ traceL (optimize fixed 1 wAttr) = [L 1 4]) ∧
    (traceL wRecord = [L 1 9] ∧ traceL (optimize legacy 1 wRecord) = [] ∧ traceL (optimize fixed 1 wRecord) = [L 1 9]) := by decide

/-- non-vacuity: the witnesses satisfy the hypothesis of `C12_full`, and a pure unused definition is really removed -/
example : okL wPrint = true ∧ okL wAttr = true ∧ okL wRecord = true ∧
    defsL (.ofList [unusedVar 1 "u" [.lit (L 1 4)]]) = [(L 1 0, ['u'])] ∧
    defsL (optimize fixed 1 (.ofList [unusedVar 1 "u" [.lit (L 1 4)]])) = [] := by decide

end ErgVerif.C12
