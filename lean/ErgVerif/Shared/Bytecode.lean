import ErgVerif.Shared.Marshal
/-
Shared development `Bytecode` (serves C14, C13, C01): structural validation of CPython code objects 3.7 … 3.11.

Nothing here transcribes erg code: the validator consumes what erg *emits* (a marshalled code object, parsed by
`Marshal.pyRead`). Specified, per target version, from CPython's `dis`/`opcode` modules and Objects/codeobject.c:
  * instruction decoding: 2-byte code units, EXTENDED_ARG prefixes folded into the argument, 3.11 inline CACHE entries attached to
    their instruction (cache sizes, jump classes, argument classes: GENERATED table `OpInfo`, see ErgVerif/Gen/C14Tables.lean);
  * successors: fall-through unless the opcode never falls through; relative / absolute / backward jump targets, in bytes up to 3.9
    and in code units from 3.10; 3.11 exception-table handlers as extra roots;
  * stack effects per edge: GENERATED from `dis.stack_effect(op, arg, jump=…)` of each interpreter;
  * line tables: `co_lnotab` (≤ 3.9), `co_linetable` 3.10, location table 3.11.
`validate` = an UNTRUSTED worklist proposes one depth per reachable instruction, the VERIFIED certificate check `checkAssign`
accepts or rejects it (soundness: ErgVerif/C14/Proofs.lean).
-/
namespace ErgVerif.Bytecode
open ErgVerif.Marshal

/-- stack effect of an opcode as a function of its argument -/
inductive Eff where
  | undef                          -- dis.stack_effect raises
  | lin (base slope : Int)         -- base + slope * arg (checked by the generator on 0..255, 256, 1000, 65535)
  | tab (vals : List Int)          -- explicit values for arg 0..255; undefined above
  deriving Repr, Inhabited

/-- generated tables write value lists as comma-separated text (a 256-element `Int` list literal is slow to elaborate) -/
def parseInts (s : String) : List Int := (s.splitOn ",").filterMap fun x => x.toInt?

def Eff.at : Eff → Nat → Option Int
  | .undef, _ => none
  | .lin b s, a => some (b + s * a)
  | .tab vs, a => vs[a]?

structure OpInfo where
  valid : Bool := false
  hasArg : Bool := false
  jrel : Bool := false
  jabs : Bool := false
  back : Bool := false      -- relative jump goes backwards (3.11 *_BACKWARD_*)
  nofall : Bool := false    -- never falls through
  effNo : Eff := .undef     -- effect on the fall-through edge
  effJump : Eff := .undef   -- effect on the jump edge
  caches : Nat := 0         -- inline cache entries (code units) following the instruction
  idx : Nat := 0            -- 0 none, 1 co_consts, 2 co_names, 3 fast locals, 4 cell/free
  idxShift : Nat := 0       -- 3.11 LOAD_GLOBAL: name index is arg >> 1
  lineExempt : Bool := false -- 3.11 prologue instructions (RESUME, MAKE_CELL, COPY_FREE_VARS): CPython itself gives them line 0 / no line
  deriving Repr, Inhabited

/-- per-version table: `ops[opcode]` -/
structure VerTable where
  minor : Nat
  ops : Array OpInfo
  deriving Inhabited

def VerTable.info (t : VerTable) (op : Nat) : OpInfo := t.ops.getD op {}

def extendedArg : Nat := 144

structure Instr where
  start : Nat    -- code-unit index of the first unit (the first EXTENDED_ARG prefix if any)
  at_ : Nat      -- code-unit index of the opcode itself
  op : Nat
  arg : Nat
  next : Nat     -- code-unit index after the instruction and its cache entries
  deriving Repr, Inhabited, DecidableEq

/-- decode from code unit `i` on; `ext` is the accumulated EXTENDED_ARG value, `st` the start of the pending instruction -/
def decodeGo (t : VerTable) : Nat → List Nat → Nat → Nat → Option Nat → List Instr → Option (List Instr)
  | _, [], _, _, some _, _ => none                       -- EXTENDED_ARG at the end
  | _, [], _, _, none, acc => some acc.reverse
  | _, [_], _, _, _, _ => none                           -- odd length
  | skip + 1, _ :: _ :: rest, i, ext, st, acc => decodeGo t skip rest (i + 1) ext st acc     -- inside cache entries
  | 0, op :: arg :: rest, i, ext, st, acc =>
    let s := st.getD i
    if op = extendedArg then decodeGo t 0 rest (i + 1) ((ext + arg) * 256) (some s) acc
    else
      let info := t.info op
      decodeGo t info.caches rest (i + 1) 0 none ({ start := s, at_ := i, op, arg := ext + arg, next := i + 1 + info.caches } :: acc)

def decode (t : VerTable) (code : Bytes) : Option (List Instr) := decodeGo t 0 code 0 0 none []

/-- jump target in code units (`none`: not a jump, or the byte target is odd / negative) -/
def jumpTarget (t : VerTable) (ins : Instr) : Option (Option Nat) :=
  let info := t.info ins.op
  if info.jabs then
    if t.minor ≥ 10 then some (some ins.arg) else if ins.arg % 2 = 0 then some (some (ins.arg / 2)) else some none
  else if info.jrel then
    if t.minor ≥ 10 then
      if info.back then (if ins.arg ≤ ins.at_ + 1 then some (some (ins.at_ + 1 - ins.arg)) else some none)
      else some (some (ins.at_ + 1 + ins.arg))
    else if ins.arg % 2 = 0 then some (some (ins.at_ + 1 + ins.arg / 2)) else some none
  else none

/-- outgoing edges of an instruction: (target code unit, stack effect); `none` = some edge is malformed or has no defined effect -/
def edgesOf (t : VerTable) (n : Nat) (ins : Instr) : Option (List (Nat × Int)) :=
  let info := t.info ins.op
  if !info.valid then none else
  let fall : Option (List (Nat × Int)) :=
    if info.nofall then some []
    else match info.effNo.at ins.arg with
      | some e => if ins.next < n then some [(ins.next, e)] else none      -- falling off the end of the code
      | none => none
  match fall, jumpTarget t ins with
  | none, _ => none
  | some f, none => some f
  | some _, some none => none
  | some f, some (some tg) =>
    match info.effJump.at ins.arg with
    | some e => if tg < n then some ((tg, e) :: f) else none
    | none => none

/-! ## the certificate check (verified) -/

def edgeOk (d : List (Option Nat)) (maxS : Nat) (k : Nat) (e : Nat × Int) : Bool :=
  match d[e.1]? with
  | some (some kj) => decide ((k : Int) + e.2 = kj) && decide (kj ≤ maxS)
  | _ => false

/-- `edges pc` are the edges of the instruction starting at code unit `pc` (`none` when `pc` is not an instruction start or the
    instruction is malformed); `roots` are the entry points with their depths -/
def checkAt (edges : Nat → Option (List (Nat × Int))) (d : List (Option Nat)) (maxS : Nat) (pc : Nat) : Bool :=
  match d[pc]? with
  | some (some k) =>
    match edges pc with
    | some es => es.all (edgeOk d maxS k)
    | none => false
  | some none => true
  | none => false

def rootOk (d : List (Option Nat)) (maxS : Nat) (r : Nat × Nat) : Bool :=
  decide (d[r.1]? = some (some r.2)) && decide (r.2 ≤ maxS)

def checkAssign (edges : Nat → Option (List (Nat × Int))) (roots : List (Nat × Nat)) (n : Nat) (d : List (Option Nat)) (maxS : Nat) : Bool :=
  decide (d.length = n) && roots.all (rootOk d maxS) && (List.range n).all (checkAt edges d maxS)

/-! ## the worklist (untrusted: only proposes `d`) -/

def setAt (d : List (Option Nat)) (i : Nat) (v : Nat) : List (Option Nat) := d.set i (some v)

def worklist (edges : Nat → Option (List (Nat × Int))) : Nat → List (Nat × Nat) → List (Option Nat) → List (Option Nat)
  | 0, _, d => d
  | _, [], d => d
  | fuel + 1, (pc, k) :: todo, d =>
    match d[pc]? with
    | some none =>
      let d' := setAt d pc k
      let more := match edges pc with
        | some es => es.filterMap fun (t, e) => if (k : Int) + e ≥ 0 then some (t, ((k : Int) + e).toNat) else none
        | none => []
      worklist edges fuel (more ++ todo) d'
    | _ => worklist edges fuel todo d

/-! ## 3.11 exception table -/

/-- the exception table's varint: 6-bit chunks, most significant first, bit 6 = continuation (bit 7 marks the first byte of an entry) -/
def varint : Nat → Bytes → Nat → Option (Nat × Bytes)
  | 0, _, _ => none
  | _, [], _ => none
  | fuel + 1, b :: rest, acc =>
    let v := acc * 64 + b % 64
    if b / 64 % 2 = 1 then varint fuel rest v else some (v, rest)

/-- entries (start, length, target, depth_lasti) in code units -/
def excEntries : Nat → Bytes → Option (List (Nat × Nat × Nat × Nat))
  | 0, _ => none
  | _, [] => some []
  | fuel + 1, bs =>
    match varint 8 bs 0 with
    | some (st, r1) => match varint 8 r1 0 with
      | some (len, r2) => match varint 8 r2 0 with
        | some (tg, r3) => match varint 8 r3 0 with
          | some (dl, r4) => (excEntries fuel r4).map ((st, len, tg, dl) :: ·)
          | none => none
        | none => none
      | none => none
    | none => none

/-- the location table's varint: 6-bit chunks, least significant first, bit 6 = continuation -/
def varintLE : Nat → Bytes → Nat → Nat → Option (Nat × Bytes)
  | 0, _, _, _ => none
  | _, [], _, _ => none
  | fuel + 1, b :: rest, acc, mul =>
    let v := acc + b % 64 * mul
    if b / 64 % 2 = 1 then varintLE fuel rest v (mul * 64) else some (v, rest)

/-! ## line tables -/

def sbyte (b : Nat) : Int := if b < 128 then (b : Int) else (b : Int) - 256

/-- `PyCode_Addr2Line` for `co_lnotab` (≤ 3.9): `addr` in bytes -/
def lineLnotab : Bytes → Nat → Nat → Int → Int
  | a :: l :: rest, addrq, addr, line =>
    let addr' := addr + a
    if addr' > addrq then line else lineLnotab rest addrq addr' (line + sbyte l)
  | _, _, _, line => line

/-- 3.10 `co_linetable`: (unsigned byte delta, signed line delta; -128 = no line) ranges -/
def lineTable310 : Bytes → Nat → Nat → Int → Option Int
  | sd :: ld :: rest, addrq, end_, line =>
    let start := end_
    let end' := end_ + sd
    let noLine := ld = 128
    let line' := if noLine then line else line + sbyte ld
    if start ≤ addrq ∧ addrq < end' then (if noLine then none else some line')
    else lineTable310 rest addrq end' line'
  | _, _, _, _ => none

def svarint (v : Nat) : Int := if v % 2 = 1 then - ((v / 2 : Nat) : Int) else ((v / 2 : Nat) : Int)

/-- 3.11 location table: line of code unit `unitq`; `u` = first unit of the current entry -/
def lineTable311 : Nat → Bytes → Nat → Nat → Int → Option Int
  | 0, _, _, _, _ => none
  | _, [], _, _, _ => none
  | fuel + 1, b :: rest, unitq, u, line =>
    if b < 128 then none else
    let code := b / 8 % 16
    let len := b % 8 + 1
    let inside := u ≤ unitq ∧ unitq < u + len
    if code = 15 then (if inside then none else lineTable311 fuel rest unitq (u + len) line)
    else if code = 14 then
      match varintLE 8 rest 0 1 with
      | some (dl, r1) => match varintLE 8 r1 0 1 with
        | some (_, r2) => match varintLE 8 r2 0 1 with
          | some (_, r3) => match varintLE 8 r3 0 1 with
            | some (_, r4) => let line' := line + svarint dl
                              if inside then some line' else lineTable311 fuel r4 unitq (u + len) line'
            | none => none
          | none => none
        | none => none
      | none => none
    else if code = 13 then
      match varintLE 8 rest 0 1 with
      | some (dl, r1) => let line' := line + svarint dl
                         if inside then some line' else lineTable311 fuel r1 unitq (u + len) line'
      | none => none
    else if code ≥ 10 then
      let line' := line + ((code - 10 : Nat) : Int)
      if inside then some line' else lineTable311 fuel (rest.drop 2) unitq (u + len) line'
    else
      if inside then some line else lineTable311 fuel (rest.drop 1) unitq (u + len) line

/-! ## code objects as the validator sees them -/

structure CodeView where
  stacksize : Nat
  firstlineno : Int
  code : Bytes
  nconsts : Nat
  nnames : Nat
  nlocals : Nat        -- ≤ 3.10: len(co_varnames); 3.11: len(localsplusnames)
  nfree : Nat          -- ≤ 3.10: len(co_cellvars) + len(co_freevars); 3.11: len(localsplusnames)
  linetable : Bytes
  exctable : Bytes
  consts : List PyVal
  deriving Inhabited

def plen : PyList → Nat
  | .nil => 0
  | .cons _ vs => plen vs + 1

def tupleLen : PyVal → Option Nat
  | .tuple vs => some (plen vs)
  | _ => none

def viewOf (minor : Nat) : PyVal → Option CodeView
  | .code ints objs =>
    let o := objs.toList
    let nat (i : Nat) : Option Nat := match ints[i]? with | some v => if v ≥ 0 then some v.toNat else none | none => none
    if minor ≥ 11 then
      match o with
      | [.bytes code, .tuple consts, .tuple names, .tuple lpn, .bytes _, _, _, _, .bytes lt, .bytes et] => do
        let stack ← nat 3
        let first ← ints[5]?
        some { stacksize := stack, firstlineno := first, code, nconsts := plen consts, nnames := plen names, nlocals := plen lpn,
               nfree := plen lpn, linetable := lt, exctable := et, consts := consts.toList }
      | _ => none
    else
      let off := if minor ≥ 8 then 1 else 0
      match o with
      | [.bytes code, .tuple consts, .tuple names, .tuple vn, .tuple fv, .tuple cv, _, _, .bytes lt] => do
        let stack ← nat (3 + off)
        let first ← ints[5 + off]?
        some { stacksize := stack, firstlineno := first, code, nconsts := plen consts, nnames := plen names, nlocals := plen vn,
               nfree := plen fv + plen cv, linetable := lt, exctable := [], consts := consts.toList }
      | _ => none
  | _ => none

/-- line of the instruction whose opcode is at code unit `u` -/
def lineOf (minor : Nat) (c : CodeView) (u : Nat) : Option Int :=
  if minor ≥ 11 then lineTable311 (c.linetable.length + 1) c.linetable u 0 c.firstlineno
  else if minor = 10 then lineTable310 c.linetable (2 * u) 0 c.firstlineno
  else some (lineLnotab c.linetable (2 * u) 0 c.firstlineno)

def idxOk (t : VerTable) (c : CodeView) (ins : Instr) : Bool :=
  let info := t.info ins.op
  let a := ins.arg / 2 ^ info.idxShift
  if info.idx = 1 then decide (a < c.nconsts)
  else if info.idx = 2 then decide (a < c.nnames)
  else if info.idx = 3 then decide (a < c.nlocals)
  else if info.idx = 4 then decide (a < c.nfree)
  else true

def lineOk (t : VerTable) (c : CodeView) (nlines : Nat) (ins : Instr) : Bool :=
  (t.info ins.op).lineExempt ||
  match lineOf t.minor c ins.at_ with
  | some l => decide (1 ≤ l) && decide (l ≤ (nlines : Int))
  | none => false

/-- the edge function of a decoded code object, indexed by instruction start -/
def edgeFn (t : VerTable) (n : Nat) (instrs : List Instr) (pc : Nat) : Option (List (Nat × Int)) :=
  match instrs.find? (fun i => i.start = pc) with
  | some ins => edgesOf t n ins
  | none => none

/-- roots: entry at depth 0 and, for 3.11, every exception handler at its recorded depth (+1 for lasti) + 1 for the exception -/
def rootsOf (t : VerTable) (c : CodeView) : Option (List (Nat × Nat)) :=
  if t.minor ≥ 11 then
    match excEntries (c.exctable.length + 1) c.exctable with
    | some es => some ((0, 0) :: es.map fun (_, _, tg, dl) => (tg, dl / 2 + dl % 2 + 1))
    | none => none
  else some [(0, 0)]

structure Report where
  decoded : Bool
  stack : Bool
  jumps : Bool        -- every edge exists (targets are instruction starts inside the code, effects defined)
  indices : Bool
  lines : Bool
  maxDepth : Nat
  deriving Repr, Inhabited

def Report.ok (r : Report) : Bool := r.decoded && r.stack && r.jumps && r.indices && r.lines

/-- validate one code object (not its nested ones) -/
def validate1 (t : VerTable) (c : CodeView) (nlines : Nat) : Report :=
  match decode t c.code, rootsOf t c with
  | some instrs, some roots =>
    let n := c.code.length / 2
    let edges := edgeFn t n instrs
    let d0 : List (Option Nat) := List.replicate n none
    let d := worklist edges (4 * n + 16) roots d0
    let jumps := instrs.all fun i => (edgesOf t n i).isSome &&
      (match edgesOf t n i with | some es => es.all (fun e => instrs.any (fun j => j.start = e.1)) | none => false)
    { decoded := true, stack := checkAssign edges roots n d c.stacksize, jumps,
      indices := instrs.all (idxOk t c), lines := instrs.all (lineOk t c nlines),
      maxDepth := d.foldl (fun m x => match x with | some k => max m k | none => m) 0 }
  | _, _ => { decoded := false, stack := false, jumps := false, indices := false, lines := false, maxDepth := 0 }

/-- all code objects reachable through constants, outermost first (fuel: nesting depth) -/
def allCodes (minor : Nat) : Nat → PyVal → List (Option CodeView)
  | 0, _ => []
  | fuel + 1, v =>
    match v with
    | .code _ _ =>
      match viewOf minor v with
      | some c => some c :: c.consts.flatMap (allCodes minor fuel)
      | none => [none]
    | .tuple vs => vs.toList.flatMap (allCodes minor fuel)
    | _ => []

end ErgVerif.Bytecode
