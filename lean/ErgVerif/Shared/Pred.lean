/-
ErgVerif.Shared.Pred — integer refinement predicates over one subject variable (import-free: the model drivers link it).

Transcribes (erg, pinned tree + the `fix:` commits named in known_findings.json):
  * crates/erg_compiler/ty/predicate.rs   `Predicate::{and, or, invert, gt, lt, ge, le, eq, ne, ands, ors}`
  * crates/erg_compiler/context/compare.rs `Context::{is_super_pred_of, reduce_preds}` and `try_cmp` restricted to
    integer constants (`TyParam::Value(ValueObj::Int|Nat)`), which ends in crates/erg_compiler/ty/value.rs `ValueObj::try_cmp`.

Scope of the model: predicates whose atoms are `Value(Bool)`, `Equal/GreaterEqual/LessEqual/NotEqual` with ONE subject name and
an integer constant on the right. `General*`, `Call`, `Attr`, `Const`, `Failure` and non-constant right-hand sides are outside
(the drivers answer `out-of-model`).

Representation choices (DESIGN §3):
  * `Or(Set<Predicate>)` is a hash set compared by set equality. The model keeps the members as a `PredList` that is
    strictly sorted by `Pred.lt` (a total order through the injective encoding `Pred.enc`), so structural equality of model
    values *is* set equality; every model constructor (`PredList.insert/union/ofList`) preserves this form.
  * Hash-iteration order (`reduce_preds` iterates `Set<&Predicate>`, `find` walks a hash set) is a parameter `Cfg.ord`;
    theorems quantify over every `ord` that preserves membership, the drivers enumerate a family of orders.
  * The recursion of `is_super_pred_of` is by fuel; `Pred.weight` gives a sufficient amount (`isSuper_fuel_stable` in
    PredProofs.lean).
-/
namespace ErgVerif

mutual
/-- `erg_compiler::ty::Predicate`, integer fragment -/
inductive Pred where
  | val (b : Bool)
  | eq (c : Int) | ge (c : Int) | le (c : Int) | ne (c : Int)
  | or (ps : PredList)
  | and (p q : Pred)
  | not (p : Pred)
  deriving DecidableEq
inductive PredList where
  | nil | cons (p : Pred) (ps : PredList)
  deriving DecidableEq
end

instance : Inhabited Pred := ⟨.val false⟩

mutual
/-- the specification: which integers satisfy a predicate -/
def Pred.sat : Pred → Int → Bool
  | .val b, _ => b
  | .eq c, i => i == c | .ge c, i => decide (c ≤ i) | .le c, i => decide (i ≤ c) | .ne c, i => i != c
  | .or ps, i => ps.any i
  | .and p q, i => p.sat i && q.sat i
  | .not p, i => !p.sat i
def PredList.any : PredList → Int → Bool
  | .nil, _ => false
  | .cons p ps, i => p.sat i || ps.any i
end

def PredList.toList : PredList → List Pred
  | .nil => [] | .cons p ps => p :: ps.toList

/-! ### canonical order of `Or` members -/

mutual
/-- injective prefix code of a predicate (tag, then fields; `or` carries its length) -/
def Pred.enc : Pred → List Int
  | .val b => [0, if b then 1 else 0]
  | .eq c => [1, c] | .ge c => [2, c] | .le c => [3, c] | .ne c => [4, c]
  | .or ps => 5 :: ps.enc
  | .and p q => 6 :: (p.enc ++ q.enc)
  | .not p => 7 :: p.enc
def PredList.enc : PredList → List Int
  | .nil => [8]
  | .cons p ps => 9 :: (p.enc ++ ps.enc)
end

def lexLt : List Int → List Int → Bool
  | [], [] => false
  | [], _ :: _ => true
  | _ :: _, [] => false
  | a :: as, b :: bs => decide (a < b) || (a == b && lexLt as bs)

def Pred.lt (p q : Pred) : Bool := lexLt p.enc q.enc

/-- `Set::insert` on the canonical (strictly sorted) member list -/
def PredList.insert (p : Pred) : PredList → PredList
  | .nil => .cons p .nil
  | .cons q qs =>
    if q = p then .cons q qs
    else if p.lt q then .cons p (.cons q qs)
    else .cons q (PredList.insert p qs)

/-- `Set::union` -/
def PredList.union : PredList → PredList → PredList
  | .nil, b => b
  | .cons p ps, b => PredList.insert p (ps.union b)

/-- a `Set` collected from a sequence of members (`set!{…}`, `iter().collect()`) -/
def PredList.ofList : List Pred → PredList
  | [] => .nil
  | p :: ps => PredList.insert p (PredList.ofList ps)

/-! ### `Predicate::and / or / gt / lt / invert` -/

/-- transcription of `Predicate::and` (note the re-entrant `*r & other`) -/
def Pred.mkAnd : Pred → Pred → Pred
  | .val true, p => p
  | p, .val true => p
  | .val false, _ => .val false
  | _, .val false => .val false
  | .and l r, other =>
      if l = other then Pred.mkAnd r other
      else if r = other then Pred.mkAnd l other
      else .and (.and l r) other
  | other, .and l r =>
      if l = other then Pred.mkAnd r other
      else if r = other then Pred.mkAnd l other
      else .and (.and l r) other
  | p1, p2 => if p1 = p2 then p1 else .and p1 p2
termination_by a b => sizeOf a + sizeOf b
decreasing_by all_goals (simp_wf; try omega)

/-- transcription of `Predicate::or` -/
def Pred.mkOr : Pred → Pred → Pred
  | .val true, _ => .val true
  | _, .val true => .val true
  | .val false, p => p
  | p, .val false => p
  | .or l, .or r => .or (l.union r)
  | .or l, other => .or (PredList.insert other l)
  | other, .or l => .or (PredList.insert other l)
  | .eq c, .ge c2 => if c = c2 then .ge c else .or (PredList.ofList [.eq c, .ge c2])
  | p1, p2 => if p1 = p2 then p1 else .or (PredList.ofList [p1, p2])

/-- `Predicate::gt` : `>=` and `!=` -/
def Pred.mkGt (c : Int) : Pred := Pred.mkAnd (.ge c) (.ne c)
/-- `Predicate::lt` : `<=` and `!=` -/
def Pred.mkLt (c : Int) : Pred := Pred.mkAnd (.le c) (.ne c)

/-- transcription of `Predicate::invert` -/
def Pred.invert : Pred → Pred
  | .val b => .val !b
  | .eq c => .ne c
  | .ge c => Pred.mkLt c
  | .le c => Pred.mkGt c
  | .ne c => .eq c
  | .not p => p
  | other => .not other

/-! ### construction expressions: how a harness case builds a predicate through the real constructors -/

mutual
/-- `and/or/not/gt/lt` go through the smart constructors; `rand/ror/rnot` are the bare enum variants
    (`Predicate::And(Box, Box)`, `Predicate::Or(Set)`, `Predicate::Not(Box)`) -/
inductive PExpr where
  | val (b : Bool) | eq (c : Int) | ge (c : Int) | le (c : Int) | ne (c : Int) | gt (c : Int) | lt (c : Int)
  | and (a b : PExpr) | or (a b : PExpr) | not (a : PExpr)
  | rand (a b : PExpr) | ror (es : PExprList) | rnot (a : PExpr)
inductive PExprList where
  | nil | cons (e : PExpr) (es : PExprList)
end

mutual
/-- the predicate value the constructors produce -/
def PExpr.build : PExpr → Pred
  | .val b => .val b | .eq c => .eq c | .ge c => .ge c | .le c => .le c | .ne c => .ne c
  | .gt c => Pred.mkGt c | .lt c => Pred.mkLt c
  | .and a b => Pred.mkAnd a.build b.build
  | .or a b => Pred.mkOr a.build b.build
  | .not a => Pred.invert a.build
  | .rand a b => .and a.build b.build
  | .ror es => .or es.build
  | .rnot a => .not a.build
def PExprList.build : PExprList → PredList
  | .nil => .nil
  | .cons e es => PredList.insert e.build es.build
end

mutual
/-- what the expression is *meant* to denote: the Boolean combination of its atoms -/
def PExpr.den : PExpr → Int → Bool
  | .val b, _ => b
  | .eq c, i => i == c | .ge c, i => decide (c ≤ i) | .le c, i => decide (i ≤ c) | .ne c, i => i != c
  | .gt c, i => decide (c < i) | .lt c, i => decide (i < c)
  | .and a b, i => a.den i && b.den i
  | .or a b, i => a.den i || b.den i
  | .not a, i => !a.den i
  | .rand a b, i => a.den i && b.den i
  | .ror es, i => es.den i
  | .rnot a, i => !a.den i
def PExprList.den : PExprList → Int → Bool
  | .nil, _ => false
  | .cons e es, i => e.den i || es.den i
end

mutual
/-- the expression read naively as a predicate tree (no smart constructor): `sat (naive e) = den e`; lets the exact oracle
    compare what the real constructors built with what the expression means -/
def PExpr.naive : PExpr → Pred
  | .val b => .val b | .eq c => .eq c | .ge c => .ge c | .le c => .le c | .ne c => .ne c
  | .gt c => .and (.ge c) (.ne c) | .lt c => .and (.le c) (.ne c)
  | .and a b => .and a.naive b.naive
  | .or a b => .or (.cons a.naive (.cons b.naive .nil))
  | .not a => .not a.naive
  | .rand a b => .and a.naive b.naive
  | .ror es => .or es.naive
  | .rnot a => .not a.naive
def PExprList.naive : PExprList → PredList
  | .nil => .nil
  | .cons e es => .cons e.naive es.naive
end

mutual
/-- the expression uses negation somewhere (class of the recorded finding `C03-not-call-predicate`: in surface syntax the
    builtin function `not (p)` is instantiated as a `Call` predicate, not as the negation of `p`) -/
def PExpr.hasNot : PExpr → Bool
  | .not _ => true
  | .and a b | .or a b | .rand a b => a.hasNot || b.hasNot
  | .rnot a => a.hasNot
  | .ror es => es.hasNot
  | _ => false
def PExprList.hasNot : PExprList → Bool
  | .nil => false
  | .cons e es => e.hasNot || es.hasNot
end

mutual
/-- the built predicate contains a `Not` node (what `invert` leaves around `And`/`Or`/…) -/
def Pred.hasNotNode : Pred → Bool
  | .not _ => true
  | .and p q => p.hasNotNode || q.hasNotNode
  | .or ps => ps.hasNotNode
  | _ => false
def PredList.hasNotNode : PredList → Bool
  | .nil => false
  | .cons p ps => p.hasNotNode || ps.hasNotNode
end

mutual
/-- `Predicate::possible_tps`: the constants of `Equal` atoms reachable through `Or` only -/
def Pred.possibleTps : Pred → List Int
  | .eq c => [c]
  | .or ps => ps.possibleTps
  | _ => []
def PredList.possibleTps : PredList → List Int
  | .nil => []
  | .cons p ps => p.possibleTps ++ ps.possibleTps
end

/-- class of the recorded finding `C03-substitute-not-shortcut`: the refinement arm of `structural_supertype_of` first tries
    "`P` evaluated at each possible value of `Q`" using `Predicate::substitute`, which on an atom over the subject replaces the
    atom's *constant* (`I >= 0` becomes `I >= v`) instead of the subject; when `P` contains a `Not` node this evaluation can
    come out `True` for a value outside `P`. -/
def substituteShortcutClass (p q : Pred) : Bool := p.hasNotNode && !q.possibleTps.isEmpty

/-! ### `Predicate::ands / ors` -/

/-- duplicate removal (`Set<&Predicate>` collapses equal members); keeps first occurrences -/
def dedup : List Pred → List Pred
  | [] => []
  | p :: ps => if p ∈ ps then dedup ps else p :: dedup ps

/-- conjuncts with nested `And` flattened, before the set collapses duplicates -/
def Pred.andsRaw : Pred → List Pred
  | .and p q => p.andsRaw ++ q.andsRaw
  | p => [p]

/-- `Predicate::ands` -/
def Pred.ands (p : Pred) : List Pred := dedup p.andsRaw

/-- `Predicate::ors` (members of the set; not flattened) -/
def Pred.ors : Pred → List Pred
  | .or ps => ps.toList
  | p => [p]

/-! ### `try_cmp` on integer constants -/

inductive Ord3 where | lt | eq | gt
  deriving DecidableEq

/-- `u64 as f64` for `n ≥ 2^53` (round to nearest, ties to even), as an exact integer; identity below 2^53 and on negatives
    (`i32 as f64` is exact). Only used by the legacy comparison. -/
def toF64 (n : Int) : Int :=
  if n < 9007199254740992 then n else
  -- number of low bits that do not fit the 53-bit significand (1..11 for n < 2^64)
  let k := ((List.range 12).find? (fun k => decide (n < 9007199254740992 * ((2 ^ k : Nat) : Int)))).getD 11
  let m : Int := ((2 ^ k : Nat) : Int)
  let q := n / m
  let r := n % m
  let h := m / 2
  let q' := if r > h || (r == h && q % 2 == 1) then q + 1 else q
  q' * m

/-- `Context::try_cmp` → `ValueObj::try_cmp` on two integer constants: `l == r` first, then (legacy) `f64::partial_cmp`,
    (fixed) exact integer comparison. Always `Some` on integers. -/
def cmpConst (f64 : Bool) (a b : Int) : Ord3 :=
  if a = b then .eq
  else
    let a' := if f64 then toF64 a else a
    let b' := if f64 then toF64 b else b
    if a' < b' then .lt else if a' = b' then .eq else .gt

/-- LEGACY (before `fix: a negative Int never equals a Nat`): `ValueObj::eq` on `Int(i)` against `Nat(n)` was `i as u64 == n`,
    which sign-extends, so `Int(-1) == Nat(2^64-1)`; `Predicate::and/or` then took two atoms with different meanings for equal
    and dropped one. The current code (and the model: `=` on `Int`) compares values. -/
def legacyIntNatEq (i n : Int) : Bool := (if i < 0 then i + 18446744073709551616 else i) == n

/-! ### `reduce_preds` and `is_super_pred_of` -/

/-- variants of the `(And, And)` arm: `legacy` = the pinned tree (iterates the supplied conjuncts and asks for some required
    conjunct above each — wrong direction), `fixed` = every required conjunct has a supplied conjunct below it, `off` = the arm
    answers `false` (used to delimit the class of verdicts that depend on the arm). -/
inductive AA where | legacy | fixed | off
  deriving DecidableEq

structure Cfg where
  aa : AA
  /-- constants compared through `f64` (legacy `ValueObj::try_cmp`) -/
  f64 : Bool
  /-- iteration order of a hash set holding these members -/
  ord : List Pred → List Pred

/-- one iteration of the loop in `reduce_preds`; `mode = true` is `"and"`, `false` is `"or"`;
    `sup l r` stands for `is_super_pred_of(l, r)` -/
def reduceStep (ord : List Pred → List Pred) (mode : Bool) (sup : Pred → Pred → Bool) (reduced : List Pred) (pred : Pred) :
    List Pred :=
  let victim := (ord reduced).find? (fun ex => if mode then sup ex pred else sup pred ex)
  let reduced := match victim with
    | some old => reduced.erase old
    | none => reduced
  if reduced.all (fun ex => if mode then !(sup pred ex) else !(sup ex pred)) then reduced ++ [pred] else reduced

def reducePreds (ord : List Pred → List Pred) (mode : Bool) (sup : Pred → Pred → Bool) (preds : List Pred) : List Pred :=
  (ord preds).foldl (reduceStep ord mode sup) []

/-- transcription of `Context::is_super_pred_of` (arms in source order) -/
def isSuper (cfg : Cfg) : Nat → Pred → Pred → Bool
  | 0, _, _ => false
  | fuel+1, lhs, rhs =>
    if lhs = rhs then true else
    let rec_ := isSuper cfg fuel
    match lhs, rhs with
    | .eq _, .ge _ | .eq _, .le _ | .eq _, .ne _ | .le _, .ge _ | .ge _, .le _ => false
    | .ne a, .eq b => a != b
    | .ne a, .ge b => cmpConst cfg.f64 a b == .lt
    | .ne a, .le b => cmpConst cfg.f64 a b == .gt
    | .ne a, .ne b => cmpConst cfg.f64 a b == .eq
    | .eq a, .eq b => cmpConst cfg.f64 a b == .eq
    | .ge a, .ge b | .ge a, .eq b => cmpConst cfg.f64 a b != .gt
    | .le a, .le b | .le a, .eq b => cmpConst cfg.f64 a b != .lt
    | .and l1 l2, .and r1 r2 =>
      let L := reducePreds cfg.ord true rec_ (Pred.and l1 l2).ands
      let R := reducePreds cfg.ord true rec_ (Pred.and r1 r2).ands
      match cfg.aa with
      | .legacy => R.all (fun r => L.any (fun l => rec_ l r))
      | .fixed => L.all (fun l => R.any (fun r => rec_ l r))
      | .off => false
    | .or ls, .or rs =>
      let L := reducePreds cfg.ord false rec_ ls.toList
      let R := reducePreds cfg.ord false rec_ rs.toList
      R.all (fun r => L.any (fun l => rec_ l r))
    | .val b, _ => b
    | _, .val b => !b
    | lhs, .and l r => rec_ lhs l || rec_ lhs r
    | lhs, .or ors => ors.toList.all (fun o => rec_ lhs o)
    | .or ors, rhs => ors.toList.any (fun o => rec_ o rhs)
    | .and l r, rhs => rec_ l rhs && rec_ r rhs
    | _, _ => false

mutual
/-- a fuel bound: every recursive call of `isSuper` is on a pair of strictly smaller total weight, including the calls
    `reduce_preds` makes on two conjuncts (members) of the *same* side -/
def Pred.weight : Pred → Nat
  | .or ps => 2 * ps.weight + 1
  | .and p q => 2 * (p.weight + q.weight) + 1
  | .not p => p.weight + 1
  | _ => 1
def PredList.weight : PredList → Nat
  | .nil => 0
  | .cons p ps => p.weight + ps.weight
end

/-- the `k`-th arrangement of a list (Lehmer-style: repeatedly pick element `k % length`, continue with `k / length`);
    `k = 0` is the identity. The drivers enumerate `k` to cover hash-iteration orders; `nthPerm_perm` shows every member of the
    family is a permutation. -/
def nthPerm : Nat → Nat → List Pred → List Pred
  | 0, _, l => l
  | f+1, k, l =>
    match l[k % l.length]? with
    | none => l
    | some x => x :: nthPerm f (k / l.length) (l.erase x)

/-- iteration order number `k` -/
def ordK (k : Nat) (ps : List Pred) : List Pred := nthPerm ps.length k ps

/-- the code after the `fix:` commits: repaired `(And, And)` arm, exact constant comparison -/
def Cfg.current (ord : List Pred → List Pred) : Cfg := { aa := .fixed, f64 := false, ord := ord }
/-- the pinned tree -/
def Cfg.legacy (ord : List Pred → List Pred) : Cfg := { aa := .legacy, f64 := true, ord := ord }

/-- `is_super_pred_of` with enough fuel -/
def isSuperPred (cfg : Cfg) (lhs rhs : Pred) : Bool := isSuper cfg (lhs.weight + rhs.weight + 1) lhs rhs

/-! ### the specification oracle: exact implication on integer predicates

Every predicate is constant on the open intervals between consecutive constants, so it suffices to test the points
`c-1, c, c+1` for every constant `c` of either side (and `0` when there is none). `implies_iff` (PredProofs.lean) proves this
decision procedure exact; no solver is involved. -/

mutual
def Pred.consts : Pred → List Int
  | .val _ => []
  | .eq c => [c] | .ge c => [c] | .le c => [c] | .ne c => [c]
  | .or ps => ps.consts
  | .and p q => p.consts ++ q.consts
  | .not p => p.consts
def PredList.consts : PredList → List Int
  | .nil => []
  | .cons p ps => p.consts ++ ps.consts
end

def critPoints (cs : List Int) : List Int :=
  0 :: cs.flatMap (fun c => [c - 1, c, c + 1])

/-- first integer satisfying `q` and not `p`, if any: the refutation of `q ⇒ p` -/
def refute (p q : Pred) : Option Int :=
  (critPoints (p.consts ++ q.consts)).find? (fun i => q.sat i && !p.sat i)

/-- `implies p q`: every integer satisfying `q` satisfies `p` (`p` the required, `q` the supplied predicate) -/
def implies (p q : Pred) : Bool := (refute p q).isNone

/-- semantic equality of two predicates, decided exactly -/
def equivPred (p q : Pred) : Bool := implies p q && implies q p

end ErgVerif
