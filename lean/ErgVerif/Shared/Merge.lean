/-!
# Shared: linear set difference / inclusion on sorted lists, for `decide +kernel` over generated tables (C16, C27)

Kernel evaluation of `∀ x ∈ a, x ∈ b` through `List.decidableBAll`/`List.elem` costs |a|·|b| reductions, each of
them slow; the generated tables are therefore emitted sorted and compared by one merge pass (`diff`, fuelled so that
the recursion is structural). **Soundness does not depend on the lists being sorted** (an element of `a` is dropped only
when it is `eq` to an element of `b`); sortedness only matters for completeness, i.e. for the check to succeed.
Import-free.
-/
namespace ErgVerif.Merge

variable {α : Type}

/-- elements of `a` for which no `eq` partner was met in `b` during one merge pass -/
def diffF (eq lt : α → α → Bool) : Nat → List α → List α → List α
  | 0, a, _ => a
  | _ + 1, [], _ => []
  | _ + 1, x :: a, [] => x :: a
  | f + 1, x :: a, y :: b =>
    if eq x y then diffF eq lt f a (y :: b)
    else if lt x y then x :: diffF eq lt f a (y :: b)
    else diffF eq lt f (x :: a) b

theorem mem_diffF {eq lt : α → α → Bool} (heq : ∀ x y, eq x y = true → x = y) :
    ∀ (f : Nat) (a b : List α) (z : α), z ∈ a → z ∈ b ∨ z ∈ diffF eq lt f a b
  | 0, a, _, z, h => Or.inr (by simpa [diffF] using h)
  | _ + 1, [], _, z, h => by cases h
  | _ + 1, x :: a, [], z, h => Or.inr (by simpa [diffF] using h)
  | f + 1, x :: a, y :: b, z, h => by
    unfold diffF
    by_cases e : eq x y = true
    · simp only [e, if_true]
      rcases List.mem_cons.mp h with rfl | h'
      · exact Or.inl (by rw [heq _ _ e]; exact List.mem_cons_self)
      · exact mem_diffF heq f a (y :: b) z h'
    · simp only [e, if_false, Bool.false_eq_true]
      by_cases l : lt x y = true
      · simp only [l, if_true]
        rcases List.mem_cons.mp h with rfl | h'
        · exact Or.inr List.mem_cons_self
        · rcases mem_diffF heq f a (y :: b) z h' with r | r
          · exact Or.inl r
          · exact Or.inr (List.mem_cons_of_mem _ r)
      · simp only [l, if_false, Bool.false_eq_true]
        rcases mem_diffF heq f (x :: a) b z h with r | r
        · exact Or.inl (List.mem_cons_of_mem _ r)
        · exact Or.inr r

def diff (eq lt : α → α → Bool) (a b : List α) : List α := diffF eq lt (a.length + b.length + 1) a b

theorem mem_diff {eq lt : α → α → Bool} (heq : ∀ x y, eq x y = true → x = y) (a b : List α) (z : α) (h : z ∈ a) :
    z ∈ b ∨ z ∈ diff eq lt a b := mem_diffF heq _ a b z h

/-- one-pass inclusion test -/
def subset (eq lt : α → α → Bool) (a b : List α) : Bool := (diff eq lt a b).isEmpty

theorem subset_sound {eq lt : α → α → Bool} (heq : ∀ x y, eq x y = true → x = y) {a b : List α}
    (h : subset eq lt a b = true) : ∀ z ∈ a, z ∈ b := by
  intro z hz
  rcases mem_diff (lt := lt) heq a b z hz with r | r
  · exact r
  · unfold subset at h
    cases hd : diff eq lt a b with
    | nil => rw [hd] at r; cases r
    | cons _ _ => rw [hd] at h; cases h

/-- what is left of `a` after removing, one table after the other, what each `bs i` matches -/
def diffAll (eq lt : α → α → Bool) (a : List α) : List (List α) → List α
  | [] => a
  | b :: bs => diffAll eq lt (diff eq lt a b) bs

theorem mem_diffAll {eq lt : α → α → Bool} (heq : ∀ x y, eq x y = true → x = y) :
    ∀ (bs : List (List α)) (a : List α) (z : α), z ∈ a → (∃ b ∈ bs, z ∈ b) ∨ z ∈ diffAll eq lt a bs
  | [], _, _, h => Or.inr h
  | b :: bs, a, z, h => by
    rcases mem_diff (lt := lt) heq a b z h with r | r
    · exact Or.inl ⟨b, List.mem_cons_self, r⟩
    · rcases mem_diffAll heq bs _ z r with ⟨b', hb', hz⟩ | r'
      · exact Or.inl ⟨b', List.mem_cons_of_mem _ hb', hz⟩
      · exact Or.inr r'

theorem diffAll_sound {eq lt : α → α → Bool} (heq : ∀ x y, eq x y = true → x = y) {a : List α} {bs : List (List α)}
    (h : (diffAll eq lt a bs).isEmpty = true) : ∀ z ∈ a, ∃ b ∈ bs, z ∈ b := by
  intro z hz
  rcases mem_diffAll (lt := lt) heq bs a z hz with r | r
  · exact r
  · cases hd : diffAll eq lt a bs with
    | nil => rw [hd] at r; cases r
    | cons _ _ => rw [hd] at h; cases h

/-! ## the two key types used by the generated tables -/

def natEq (a b : Nat) : Bool := Nat.beq a b
def natLt (a b : Nat) : Bool := Nat.blt a b
theorem natEq_sound : ∀ x y, natEq x y = true → x = y := fun _ _ h => Nat.eq_of_beq_eq_true h

def pairEq (p q : Nat × Nat) : Bool := Nat.beq p.1 q.1 && Nat.beq p.2 q.2
def pairLt (p q : Nat × Nat) : Bool := Nat.blt p.1 q.1 || (Nat.beq p.1 q.1 && Nat.blt p.2 q.2)
theorem pairEq_sound : ∀ x y, pairEq x y = true → x = y := by
  intro ⟨a, b⟩ ⟨c, d⟩ h
  simp only [pairEq, Bool.and_eq_true] at h
  rw [Nat.eq_of_beq_eq_true h.1, Nat.eq_of_beq_eq_true h.2]

end ErgVerif.Merge
