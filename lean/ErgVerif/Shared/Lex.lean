import ErgVerif.Gen.XidTable
/-!
# Shared.Lex — executable transcription of `erg_parser::lex::Lexer` (crates/erg_parser/lex.rs) and of the
token kinds/categories of crates/erg_parser/token.rs.  Used by C08 (totality, shape, positions), C24 (token locations),
C10 (layout invariance).

Transcribed Rust functions (file crates/erg_parser/lex.rs unless noted):
`Lexer::from_str` (+ `erg_common::normalize_newline`), `emit_singleline_token`, `emit_multiline_token`, `col_of_cursor`
(added by the C08 fix), `accept`, `deny_feature`, `is_valid_start_symbol_ch`, `is_valid_continue_symbol_ch` (through the
GENERATED range table `Gen/XidTable.lean`, dumped from the real predicates over every code point), `is_bidi`,
`is_definable_operator`, `op_fix`, `prev_can_be_receiver`, `is_zero`, `consume`, `peek_*`, `lex_comment`,
`lex_multi_line_comment`, `lex_space_indent_dedent`, `lex_indent_dedent`, `lex_exponent`, `lex_num`, `lex_num_dot`,
`lex_bin/oct/hex`, `lex_ratio`, `lex_symbol`, `lex_single_str`, `lex_multi_line_str`, `lex_interpolation_mid`,
`lex_raw_ident`, `Iterator::next` (all arms), `Lexer::lex`; token.rs: `TokenKind`, `TokenCategory`, `TokenKind::category`,
`Token::new`, `Token::loc`.

Conventions.
* State = `Core` (chars, cursor, enclosure level, previous token kind, `lineno_token_starts`, `col_token_starts`,
  interpolation stack) + the indentation stack (`State`); only `lex_space_indent_dedent`/`lex_indent_dedent` and the EOF arm
  of `next` touch the indentation stack, which is why the sub-lexers are functions of `Core`.
* `lg : Bool` = *legacy* mode: `true` transcribes the code before the C08 fix (`col_token_starts += content length`,
  `consume().unwrap()` after a backslash at end of input = `crash`), `false` the code after it (column recomputed from the
  cursor, unterminated-string error instead of the panic).
* Every `unwrap()` that is not immediately guarded by a successful `peek_cur_ch()` of the same cursor is an explicit
  `crash` outcome (`interpol_stack.last().unwrap()`, the backslash sites in legacy mode). `s.push(self.consume().unwrap())`
  directly under `while let Some(c) = self.peek_cur_ch()` is transcribed as `adv` with the peeked character.
* Loops are structural recursions on a fuel argument (`.fuel` = fuel exhausted; `C08_terminates` shows it never happens);
  the two self-recursive calls of `next` (newline inside an enclosure, backslash-newline) are the `again` outcome of
  `nextOnce`, iterated by `next`.
* `u32`/`usize` are `Nat` (no input shorter than 2^32 characters can overflow them).
* Ghost state: `Token.off` = offset (in characters, after newline normalisation) of the source position whose line/column
  the token claims; it is not printed in the correspondence and not read by the model.
-/
namespace ErgVerif.Lex

inductive TokenKind where
  | Symbol
  | NatLit
  | IntLit
  | BinLit
  | OctLit
  | HexLit
  | RatioLit
  | BoolLit
  | StrLit
  | StrInterpLeft
  | StrInterpMid
  | StrInterpRight
  | NoneLit
  | EllipsisLit
  | InfLit
  | DocComment
  | PrePlus
  | PreMinus
  | PreBitNot
  | Mutate
  | PreStar
  | PreDblStar
  | Try
  | Plus
  | Minus
  | Star
  | Slash
  | FloorDiv
  | Pow
  | Mod
  | Closed
  | RightOpen
  | LeftOpen
  | Open
  | BitAnd
  | BitOr
  | BitXor
  | Shl
  | Shr
  | Less
  | Gre
  | LessEq
  | GreEq
  | DblEq
  | NotEq
  | InOp
  | NotInOp
  | ContainsOp
  | SubOp
  | IsOp
  | IsNotOp
  | AndOp
  | OrOp
  | RefOp
  | RefMutOp
  | Assign
  | Inclusion
  | Walrus
  | FuncArrow
  | ProcArrow
  | LParen
  | RParen
  | LSqBr
  | RSqBr
  | LBrace
  | RBrace
  | Indent
  | Dedent
  | Dot
  | Pipe
  | Colon
  | DblColon
  | SupertypeOf
  | SubtypeOf
  | As
  | Comma
  | Caret
  | Amper
  | AtSign
  | VBar
  | UBar
  | Newline
  | Semi
  | Illegal
  | BOF
  | EOF
  deriving DecidableEq, Repr, Inhabited

def TokenKind.name : TokenKind → String
  | .Symbol => "Symbol"
  | .NatLit => "NatLit"
  | .IntLit => "IntLit"
  | .BinLit => "BinLit"
  | .OctLit => "OctLit"
  | .HexLit => "HexLit"
  | .RatioLit => "RatioLit"
  | .BoolLit => "BoolLit"
  | .StrLit => "StrLit"
  | .StrInterpLeft => "StrInterpLeft"
  | .StrInterpMid => "StrInterpMid"
  | .StrInterpRight => "StrInterpRight"
  | .NoneLit => "NoneLit"
  | .EllipsisLit => "EllipsisLit"
  | .InfLit => "InfLit"
  | .DocComment => "DocComment"
  | .PrePlus => "PrePlus"
  | .PreMinus => "PreMinus"
  | .PreBitNot => "PreBitNot"
  | .Mutate => "Mutate"
  | .PreStar => "PreStar"
  | .PreDblStar => "PreDblStar"
  | .Try => "Try"
  | .Plus => "Plus"
  | .Minus => "Minus"
  | .Star => "Star"
  | .Slash => "Slash"
  | .FloorDiv => "FloorDiv"
  | .Pow => "Pow"
  | .Mod => "Mod"
  | .Closed => "Closed"
  | .RightOpen => "RightOpen"
  | .LeftOpen => "LeftOpen"
  | .Open => "Open"
  | .BitAnd => "BitAnd"
  | .BitOr => "BitOr"
  | .BitXor => "BitXor"
  | .Shl => "Shl"
  | .Shr => "Shr"
  | .Less => "Less"
  | .Gre => "Gre"
  | .LessEq => "LessEq"
  | .GreEq => "GreEq"
  | .DblEq => "DblEq"
  | .NotEq => "NotEq"
  | .InOp => "InOp"
  | .NotInOp => "NotInOp"
  | .ContainsOp => "ContainsOp"
  | .SubOp => "SubOp"
  | .IsOp => "IsOp"
  | .IsNotOp => "IsNotOp"
  | .AndOp => "AndOp"
  | .OrOp => "OrOp"
  | .RefOp => "RefOp"
  | .RefMutOp => "RefMutOp"
  | .Assign => "Assign"
  | .Inclusion => "Inclusion"
  | .Walrus => "Walrus"
  | .FuncArrow => "FuncArrow"
  | .ProcArrow => "ProcArrow"
  | .LParen => "LParen"
  | .RParen => "RParen"
  | .LSqBr => "LSqBr"
  | .RSqBr => "RSqBr"
  | .LBrace => "LBrace"
  | .RBrace => "RBrace"
  | .Indent => "Indent"
  | .Dedent => "Dedent"
  | .Dot => "Dot"
  | .Pipe => "Pipe"
  | .Colon => "Colon"
  | .DblColon => "DblColon"
  | .SupertypeOf => "SupertypeOf"
  | .SubtypeOf => "SubtypeOf"
  | .As => "As"
  | .Comma => "Comma"
  | .Caret => "Caret"
  | .Amper => "Amper"
  | .AtSign => "AtSign"
  | .VBar => "VBar"
  | .UBar => "UBar"
  | .Newline => "Newline"
  | .Semi => "Semi"
  | .Illegal => "Illegal"
  | .BOF => "BOF"
  | .EOF => "EOF"

inductive Category where
  | Symbol | Literal | StrInterpLeft | StrInterpMid | StrInterpRight | BinOp | UnaryOp | PostfixOp | LEnclosure
  | REnclosure | SpecialBinOp | DefOp | LambdaOp | Separator | Reserved | AtSign | VBar | UBar | BOF | EOF | Illegal
  deriving DecidableEq, Repr, Inhabited

/-- token.rs `TokenKind::category` -/
def TokenKind.category : TokenKind → Category
  | .Symbol => .Symbol
  | .NatLit | .BinLit | .OctLit | .HexLit | .IntLit | .RatioLit | .StrLit | .BoolLit | .NoneLit
  | .EllipsisLit | .InfLit | .DocComment => .Literal
  | .StrInterpLeft => .StrInterpLeft
  | .StrInterpMid => .StrInterpMid
  | .StrInterpRight => .StrInterpRight
  | .PrePlus | .PreMinus | .PreBitNot | .Mutate | .PreStar | .PreDblStar | .RefOp | .RefMutOp => .UnaryOp
  | .Try => .PostfixOp
  | .Comma | .Colon | .DblColon | .SupertypeOf | .SubtypeOf | .As | .Dot | .Pipe | .Walrus | .Inclusion => .SpecialBinOp
  | .Assign => .DefOp
  | .FuncArrow | .ProcArrow => .LambdaOp
  | .Semi | .Newline => .Separator
  | .LParen | .LBrace | .LSqBr | .Indent => .LEnclosure
  | .RParen | .RBrace | .RSqBr | .Dedent => .REnclosure
  | .Caret | .Amper => .Reserved
  | .AtSign => .AtSign
  | .VBar => .VBar
  | .UBar => .UBar
  | .BOF => .BOF
  | .EOF => .EOF
  | .Illegal => .Illegal
  | _ => .BinOp

/-- `Token` (token.rs) with the ghost source offset `off`. `lineno` is 1-origin, `col` 0-origin. -/
structure Token where
  kind : TokenKind
  content : List Char
  line : Nat
  col : Nat
  off : Nat
  deriving Repr, Inhabited, DecidableEq

inductive Quote where
  | single | double
  deriving DecidableEq, Repr, Inhabited

def Quote.char : Quote → Char
  | .single => '\'' | .double => '"'
def Quote.quotes : Quote → List Char
  | .single => ['\'', '\'', '\''] | .double => ['"', '"', '"']
def Quote.tokenKind : Quote → TokenKind
  | .single => .DocComment | .double => .StrLit

inductive Interp where
  | singleLine | multiLine (q : Quote) | not
  deriving DecidableEq, Repr, Inhabited

def Interp.isIn : Interp → Bool
  | .not => false | _ => true

/-- the part of `Lexer` the sub-lexers read and write; `interp` has the top of `interpol_stack` at its head -/
structure Core where
  chars : Array Char
  cursor : Nat
  encl : Nat
  prev : TokenKind
  line : Nat
  col : Nat
  interp : List Interp
  deriving Repr, Inhabited

structure State where
  core : Core
  indents : List Nat      -- `indent_stack` in Vec order (push = append)
  deriving Repr, Inhabited

/-- `erg_common::normalize_newline`: `\r\n` → `\n`, then `\r` → `\n` -/
def normalizeNewline : List Char → List Char
  | [] => []
  | '\r' :: '\n' :: cs => '\n' :: normalizeNewline cs
  | '\r' :: cs => '\n' :: normalizeNewline cs
  | c :: cs => c :: normalizeNewline cs

def initCore (src : List Char) : Core :=
  { chars := (normalizeNewline src).toArray, cursor := 0, encl := 0, prev := .BOF, line := 0, col := 0, interp := [.not] }

def initState (src : List Char) : State := { core := initCore src, indents := [] }

-- ------------------------------------------------------------------------------------------ character predicates

def inRanges (tab : Array (Nat × Nat)) (n : Nat) : Nat → Nat → Bool
  | 0, _ => false
  | f + 1, i =>
    match tab[i]? with
    | none => false
    | some (lo, hi) => if n < lo then false else if n ≤ hi then true else inRanges tab n f (i + 1)

/-- `Lexer::is_valid_start_symbol_ch` (generated table) -/
def isValidStart (c : Char) : Bool := inRanges Gen.Xid.startRanges c.toNat Gen.Xid.startRanges.size 0
/-- `Lexer::is_valid_continue_symbol_ch` (generated table) -/
def isValidCont (c : Char) : Bool := inRanges Gen.Xid.contRanges c.toNat Gen.Xid.contRanges.size 0

def isBidi (c : Char) : Bool := c.toNat = 0x200F || c.toNat = 0x202B || c.toNat = 0x202E || c.toNat = 0x2067
def isDigit (c : Char) : Bool := '0' ≤ c && c ≤ '9'
def isHexDigit (c : Char) : Bool := ('0' ≤ c && c ≤ '9') || ('a' ≤ c && c ≤ 'f') || ('A' ≤ c && c ≤ 'F')
def hexVal (c : Char) : Nat :=
  if '0' ≤ c && c ≤ '9' then c.toNat - 48 else if 'a' ≤ c && c ≤ 'f' then c.toNat - 87 else c.toNat - 55

def isDefinableOperator (s : List Char) : Bool :=
  ["+_", "_+_", "-_", "_-_", "*", "/", "//", "**", "%", "~", "&&", "||", "^", ">>", "<<", "==", "!=", ">", "<", ">=", "<=",
   "dot", "cross"].any (fun o => o.toList = s)

/-- `s.replace("-0", "")` -/
def removeMinusZero : List Char → List Char
  | [] => []
  | '-' :: '0' :: r => removeMinusZero r
  | c :: r => c :: removeMinusZero r

/-- `Lexer::is_zero` -/
def isZero (s : List Char) : Bool := ((removeMinusZero s).filter (· ≠ '0')).isEmpty

/-- `str::lines().count()` : lines are terminated by `\n`; a final empty line is not counted -/
def linesCount (s : List Char) : Nat :=
  s.count '\n' + (match s.getLast? with | none => 0 | some c => if c = '\n' then 0 else 1)

-- ------------------------------------------------------------------------------------------ cursor primitives

def Core.peek (c : Core) : Option Char := c.chars[c.cursor]?
def Core.peekNext (c : Core) : Option Char := c.chars[c.cursor + 1]?
def Core.peekPrev (c : Core) : Option Char := if c.cursor ≥ 1 then c.chars[c.cursor - 1]? else none
def Core.peekPrevPrev (c : Core) : Option Char := if c.cursor ≥ 2 then c.chars[c.cursor - 2]? else none
/-- the state change of `consume()` (the cursor moves even at end of input) -/
def Core.adv (c : Core) : Core := { c with cursor := c.cursor + 1 }
def Core.top (c : Core) : Option Interp := c.interp.head?
def Core.newLine (c : Core) : Core := { c with line := c.line + 1, col := 0 }

/-- number of characters between index `i` and the preceding line break (the true column of offset `i`) -/
def colBack (chars : Array Char) : Nat → Nat
  | 0 => 0
  | i + 1 => match chars[i]? with
    | some ch => if ch = '\n' then 0 else colBack chars i + 1
    | none => colBack chars i

/-- `Lexer::col_of_cursor` (C08 fix): `chars[..min(cursor, len)]` scanned backwards to the last line break -/
def Core.colOfCursor (c : Core) : Nat := colBack c.chars (min c.cursor c.chars.size)

/-- `emit_singleline_token`: the token gets `lineno_token_starts + 1` and `col_token_starts`; afterwards the column
    advances by the content length (legacy) or is recomputed from the cursor (fixed) -/
def emitS (lg : Bool) (c : Core) (k : TokenKind) (cont : List Char) (off : Nat) : Token × Core :=
  ({ kind := k, content := cont, line := c.line + 1, col := c.col, off := off },
   { c with prev := k, col := if lg then c.col + cont.length else c.colOfCursor })

/-- `emit_multiline_token` -/
def emitM (lg : Bool) (c : Core) (k : TokenKind) (colBegin : Nat) (cont : List Char) (off : Nat) : Token × Core :=
  ({ kind := k, content := cont, line := (c.line + 2) - linesCount cont, col := colBegin, off := off },
   { c with prev := k, col := if lg then c.col + cont.length else c.colOfCursor })

inductive LexRes where
  | ok (t : Token) (c : Core)
  | err (t : Token) (msg : String) (c : Core)
  | crash (site : String)
  | fuel
  deriving Repr, Inhabited

def accept (lg : Bool) (c : Core) (k : TokenKind) (cont : String) (off : Nat) : LexRes :=
  let (t, c') := emitS lg c k cont.toList off
  .ok t c'

def reject (lg : Bool) (c : Core) (cont : List Char) (msg : String) (off : Nat) : LexRes :=
  let (t, c') := emitS lg c .Illegal cont off
  .err t msg c'

def msgSimple : String := "invalid syntax"
def msgBidiComment : String := "invalid unicode character (bi-directional override) in comments"
def msgBidiStr : String := "invalid unicode character (bi-directional override) in string literal"
def msgLineBreak : String := "Line breaks are not allowed within a string"
def msgUnclosedInterp : String := "the interpolation in the string is not closed"
def msgUnclosed (by_ : List Char) : String :=
  "the string is not closed " ++ (if by_.isEmpty then "" else "by " ++ String.ofList by_)
def msgEscape (ch : Char) : String := "illegal escape sequence: \\" ++ String.ofList [ch]

inductive OpFix where
  | prefix | infix
  deriving DecidableEq, Repr

/-- `op_fix` (called after the operator characters were consumed) -/
def opFix (c : Core) : Option OpFix :=
  match c.prev.category with
  | .LEnclosure | .BinOp | .UnaryOp | .Separator | .SpecialBinOp | .DefOp | .LambdaOp | .StrInterpLeft | .StrInterpMid
  | .BOF => some .prefix
  | .REnclosure | .Literal | .StrInterpRight | .Symbol =>
    match c.peekPrevPrev, c.peek with
    | some pp, some cur =>
      if pp = ' ' then (if cur = ' ' then some .infix else some .prefix) else some .infix
    | _, _ => none
  | _ => none

def prevCanBeReceiver (c : Core) : Bool :=
  c.prev.category = .Symbol || c.prev.category = .REnclosure || c.prev.category = .StrInterpRight
    || c.prev.category = .PostfixOp

-- ------------------------------------------------------------------------------------------ comments

inductive SkipRes where
  | ok (c : Core)
  | err (t : Token) (msg : String) (c : Core)
  | fuel
  deriving Repr, Inhabited

def rejectSkip (lg : Bool) (c : Core) (cont : List Char) (msg : String) (off : Nat) : SkipRes :=
  let (t, c') := emitS lg c .Illegal cont off
  .err t msg c'

/-- `lex_comment` (`off` = offset of the `#`) -/
def lexComment (lg : Bool) (off : Nat) : Nat → Core → List Char → SkipRes
  | 0, _, _ => .fuel
  | f + 1, c, s =>
    match c.peek with
    | none => .ok c
    | some ch =>
      if ch = '\n' then .ok c
      else if isBidi ch then rejectSkip lg c s msgBidiComment off
      else lexComment lg off f c.adv (s ++ [ch])

/-- `lex_multi_line_comment` -/
def lexMultiLineComment (lg : Bool) (off : Nat) : Nat → Core → List Char → Nat → SkipRes
  | 0, _, _, _ => .fuel
  | f + 1, c, s, nest =>
    match c.peek with
    | none => rejectSkip lg c s "multi-comment is not closed with ]#" off
    | some ch =>
      let bidiOrPush (nest : Nat) : SkipRes :=
        if isBidi ch then rejectSkip lg c s msgBidiComment off
        else lexMultiLineComment lg off f c.adv (s ++ [ch]) nest
      match c.peekNext with
      | some nx =>
        if ch = ']' ∧ nx = '#' ∧ nest = 1 then .ok c.adv.adv
        else
          let nest' := if ch = '#' ∧ nx = '[' then nest + 1 else if ch = ']' ∧ nx = '#' then nest - 1 else nest
          if ch = '\n' then lexMultiLineComment lg off f c.newLine.adv [] nest'
          else bidiOrPush nest'
      | none => bidiOrPush nest

-- ------------------------------------------------------------------------------------------ numbers, symbols

def numKind (num : List Char) : TokenKind :=
  if num.head? = some '-' && !isZero num then .IntLit else .NatLit

def emitOk (lg : Bool) (c : Core) (k : TokenKind) (cont : List Char) (off : Nat) : LexRes :=
  let (t, c') := emitS lg c k cont off
  .ok t c'

/-- the shared shape of `lex_bin`, `lex_oct`, `lex_hex`: push while `p` holds, then emit `k` -/
def lexDigits (lg : Bool) (off : Nat) (p : Char → Bool) (k : TokenKind) : Nat → Core → List Char → LexRes
  | 0, _, _ => .fuel
  | f + 1, c, num =>
    match c.peek with
    | some ch => if p ch then lexDigits lg off p k f c.adv (num ++ [ch]) else emitOk lg c k num off
    | none => emitOk lg c k num off

def lexBin (lg : Bool) (off : Nat) := lexDigits lg off (fun ch => ch = '0' || ch = '1' || ch = '_') .BinLit
def lexOct (lg : Bool) (off : Nat) := lexDigits lg off (fun ch => ('0' ≤ ch && ch ≤ '7') || ch = '_') .OctLit
def lexHex (lg : Bool) (off : Nat) := lexDigits lg off (fun ch => isHexDigit ch || ch = '_') .HexLit

/-- `lex_exponent` (the cursor is on `e`, which every caller has just peeked): `e`, then ANY one character as the sign,
    then digits/underscores -/
def lexExponent (lg : Bool) (off : Nat) (fuel : Nat) (c : Core) (mantissa : List Char) : LexRes :=
  let num := mantissa ++ ['e']
  let c := c.adv
  match c.peek with
  | some sg => lexDigits lg off (fun ch => isDigit ch || ch = '_') .RatioLit fuel c.adv (num ++ [sg])
  | none =>
    let (t, c') := emitS lg c .RatioLit num off
    .err t ("`" ++ String.ofList num ++ "` is invalid decimal literal") c'

/-- `lex_ratio` -/
def lexRatio (lg : Bool) (off : Nat) : Nat → Core → List Char → LexRes
  | 0, _, _ => .fuel
  | f + 1, c, num =>
    match c.peek with
    | some ch =>
      if isDigit ch || ch = '_' then lexRatio lg off f c.adv (num ++ [ch])
      else if ch = 'e' then lexExponent lg off f c num
      else emitOk lg c .RatioLit num off
    | none => emitOk lg c .RatioLit num off

/-- `lex_num_dot` (the cursor is on `.`) -/
def lexNumDot (lg : Bool) (off : Nat) (fuel : Nat) (c : Core) (num : List Char) : LexRes :=
  match c.peekNext with
  | some n =>
    if isDigit n && c.prev ≠ .Dot then lexRatio lg off fuel c.adv (num ++ ['.'])
    else if isValidCont n || n = '.' then emitOk lg c (numKind num) num off
    else if n = '_' then reject lg c.adv (num ++ ['_']) msgSimple off
    else lexRatio lg off fuel c.adv (num ++ ['.'])
  | none => lexRatio lg off fuel c.adv (num ++ ['.'])

/-- `lex_num` -/
def lexNum (lg : Bool) (off : Nat) : Nat → Core → List Char → LexRes
  | 0, _, _ => .fuel
  | f + 1, c, num =>
    let fin := emitOk lg c (numKind num) num off
    match c.peek with
    | none => fin
    | some ch =>
      if ch = '.' then lexNumDot lg off f c num
      else if isDigit ch || ch = '_' then lexNum lg off f c.adv (num ++ [ch])
      else if ch = 'b' || ch = 'B' then
        if num = ['0'] && (c.peekNext.map isDigit).getD false then lexBin lg off f c.adv (num ++ [ch]) else fin
      else if ch = 'o' || ch = 'O' then
        if num = ['0'] && (c.peekNext.map isDigit).getD false then lexOct lg off f c.adv (num ++ [ch]) else fin
      else if ch = 'x' || ch = 'X' then
        if num = ['0'] && (c.peekNext.map isHexDigit).getD false then lexHex lg off f c.adv (num ++ [ch]) else fin
      else if isValidCont ch then
        if ch = 'e' && (c.peekNext = some '+' || c.peekNext = some '-') then lexExponent lg off f c num else fin
      else fin

def symbolKind (cont : List Char) : TokenKind :=
  if cont = "and".toList then .AndOp
  else if cont = "as".toList then .As
  else if cont = "or".toList then .OrOp
  else if cont = "in".toList then .InOp
  else if cont = "notin".toList then .NotInOp
  else if cont = "contains".toList then .ContainsOp
  else if cont = "is!".toList then .IsOp
  else if cont = "isnot!".toList then .IsNotOp
  else if cont = "ref".toList then .RefOp
  else if cont = "ref!".toList then .RefMutOp
  else if cont = "True".toList || cont = "False".toList then .BoolLit
  else if cont = "None".toList then .NoneLit
  else if cont = "Ellipsis".toList then .EllipsisLit
  else if cont = "Inf".toList then .InfLit
  else if cont = "_".toList then .UBar
  else .Symbol

/-- `lex_symbol` (the `cont.is_empty()` compiler-bug branch is unreachable: `cont` starts with `first_ch`) -/
def lexSymbol (lg : Bool) (off : Nat) : Nat → Core → List Char → LexRes
  | 0, _, _ => .fuel
  | f + 1, c, cont =>
    match c.peek with
    | some ch =>
      if isValidCont ch then lexSymbol lg off f c.adv (cont ++ [ch])
      else if ch = '!' then emitOk lg c.adv (symbolKind (cont ++ ['!'])) (cont ++ ['!']) off
      else emitOk lg c (symbolKind cont) cont off
    | none => emitOk lg c (symbolKind cont) cont off

/-- `lex_raw_ident` -/
def lexRawIdent (lg : Bool) (off : Nat) : Nat → Core → List Char → LexRes
  | 0, _, _ => .fuel
  | f + 1, c, s =>
    match c.peek with
    | none => reject lg c s "raw identifier is not closed by '" off
    | some ch =>
      if ch = '\n' then reject lg c s msgSimple off
      else if ch = '\'' then
        let c := c.adv
        let s := s ++ ['\'']
        if c.peek = some '!' then emitOk lg c.adv .Symbol (s ++ ['!']) off else emitOk lg c .Symbol s off
      else
        let s := s ++ [ch]
        if isBidi ch then reject lg c.adv s msgBidiStr off else lexRawIdent lg off f c.adv s

/-- the backquote arm of `next`: `while let Some(c) = self.consume()` -/
def lexBackquote (lg : Bool) (off : Nat) : Nat → Core → List Char → LexRes
  | 0, _, _ => .fuel
  | f + 1, c, op =>
    match c.peek with
    | none => reject lg c.adv op "back quotes (`) not closed" off
    | some ch =>
      if ch = '`' then
        if isDefinableOperator op then emitOk lg c.adv .Symbol ('`' :: op ++ ['`']) off
        else reject lg c.adv op ("`" ++ String.ofList op ++ "` does not exist or cannot be defined by user") off
      else lexBackquote lg off f c.adv (op ++ [ch])

-- ------------------------------------------------------------------------------------------ strings

/-- the escapes shared by the three string lexers that simply push a character: `\0 \r \n \' \" \t \\` -/
def simpleEscape (ch : Char) : Option (List Char) :=
  if ch = '0' then some ['\x00']
  else if ch = 'r' then some ['\r']
  else if ch = 'n' then some ['\n']
  else if ch = '\'' then some ['\'']
  else if ch = '"' then some ['"']
  else if ch = 't' then some [' ', ' ', ' ', ' ']
  else if ch = '\\' then some ['\\']
  else none

/-- what happens when the input ends right after a backslash inside a string: `consume().unwrap()` panics (legacy);
    after the fix the string is reported as unterminated -/
def backslashEof (lg : Bool) (site : String) (fixed : LexRes) : LexRes :=
  if lg then .crash site else fixed

/-- `lex_single_str` (`off` = offset of the opening quote) -/
def lexSingleStr (lg : Bool) (off : Nat) : Nat → Core → List Char → LexRes
  | 0, _, _ => .fuel
  | f + 1, c, s =>
    match c.peek with
    | none => reject lg c s (msgUnclosed ['"']) off
    | some ch =>
      if ch = '\n' then
        match c.top with
        | none => .crash "lex_single_str: interpol_stack.last().unwrap()"
        | some .singleLine => if c.interp.length = 1 then reject lg c s msgLineBreak off else reject lg c s msgUnclosedInterp off
        | some _ => reject lg c s msgUnclosedInterp off
      else if ch = '"' then emitOk lg c.adv .StrLit (s ++ ['"']) off
      else
        let c := c.adv
        if ch = '\\' then
          match c.peek with
          | none => backslashEof lg "lex_single_str: consume().unwrap() after backslash" (reject lg c.adv s (msgUnclosed ['"']) off)
          | some nx =>
            let c := c.adv
            if nx = '{' then
              emitOk lg { c with interp := .singleLine :: c.interp } .StrInterpLeft (s ++ ['\\', '{']) off
            else if nx = 'x' then
              match c.peek with
              | none => backslashEof lg "lex_single_str: consume().unwrap() in \\x" (reject lg c.adv s (msgUnclosed ['"']) off)
              | some h1 =>
                let c := c.adv
                if !isHexDigit h1 then reject lg c s (msgEscape h1) off
                else match c.peek with
                  | none => backslashEof lg "lex_single_str: consume().unwrap() in \\x" (reject lg c.adv s (msgUnclosed ['"']) off)
                  | some h2 =>
                    let c := c.adv
                    if !isHexDigit h2 then reject lg c s (msgEscape h2) off
                    else lexSingleStr lg off f c (s ++ [Char.ofNat (16 * hexVal h1 + hexVal h2)])
            else match simpleEscape nx with
              | some e => lexSingleStr lg off f c (s ++ e)
              | none => reject lg c ['\\', nx] (msgEscape nx) off
        else
          let s := s ++ [ch]
          if isBidi ch then reject lg c s msgBidiStr off else lexSingleStr lg off f c s

def emitMOk (lg : Bool) (c : Core) (k : TokenKind) (colBegin : Nat) (cont : List Char) (off : Nat) : LexRes :=
  let (t, c') := emitM lg c k colBegin cont off
  .ok t c'

def rejectM (lg : Bool) (c : Core) (colBegin : Nat) (cont : List Char) (msg : String) (off : Nat) : LexRes :=
  let (t, c') := emitM lg c .Illegal colBegin cont off
  .err t msg c'

/-- `lex_multi_line_str` (`colBegin` = `col_token_starts` on entry; `\x` is not an escape here) -/
def lexMultiLineStr (lg : Bool) (off : Nat) (q : Quote) (colBegin : Nat) : Nat → Core → List Char → LexRes
  | 0, _, _ => .fuel
  | f + 1, c, s =>
    match c.peek with
    | none =>
      if c.interp.length = 1 then rejectM lg c colBegin s (msgUnclosed q.quotes) off
      else rejectM lg c colBegin s msgUnclosedInterp off
    | some ch =>
      let c := c.adv
      if ch = q.char then
        match c.peek, c.peekNext with
        | none, _ => rejectM lg c colBegin s (msgUnclosed q.quotes) off
        | some n1, none => rejectM lg c.adv colBegin (s ++ [n1]) (msgUnclosed q.quotes) off
        | some n1, some n2 =>
          if n1 = q.char ∧ n2 = q.char then emitMOk lg c.adv.adv q.tokenKind colBegin (s ++ q.quotes) off
          else lexMultiLineStr lg off q colBegin f c (s ++ [ch])
      else if ch = '\\' then
        match c.peek with
        | none => backslashEof lg "lex_multi_line_str: consume().unwrap() after backslash"
                    (rejectM lg c.adv colBegin s (msgUnclosed q.quotes) off)
        | some nx =>
          let c := c.adv
          if nx = '{' then
            emitMOk lg { c with interp := .multiLine q :: c.interp } .StrInterpLeft colBegin (s ++ ['\\', '{']) off
          else if nx = '\n' then lexMultiLineStr lg off q colBegin f c.newLine s
          else match simpleEscape nx with
            | some e => lexMultiLineStr lg off q colBegin f c (s ++ e)
            | none => rejectM lg c colBegin ['\\', nx] (msgEscape nx) off
      else if ch = '\n' then lexMultiLineStr lg off q colBegin f c.newLine (s ++ ['\n'])
      else
        let s := s ++ [ch]
        if isBidi ch then reject lg c s msgBidiStr off else lexMultiLineStr lg off q colBegin f c s

/-- `lex_interpolation_mid` (entered after `}` was consumed with an interpolation open) -/
def lexInterpolationMid (lg : Bool) (off : Nat) : Nat → Core → List Char → LexRes
  | 0, _, _ => .fuel
  | f + 1, c, s =>
    match c.peek with
    | none => reject lg c s (msgUnclosed []) off
    | some ch =>
      if ch = '\n' then
        match c.top with
        | none => .crash "lex_interpolation_mid: interpol_stack.last().unwrap()"
        | some (.multiLine _) => lexInterpolationMid lg off f c.newLine.adv (s ++ ['\n'])
        | some .singleLine =>
          if c.peekNext.isSome then reject lg c s msgLineBreak off else reject lg c s (msgUnclosed []) off
        | some .not => reject lg c s msgUnclosedInterp off
      else if ch = '"' ∨ ch = '\'' then
        let c := c.adv
        match c.top with
        | none => .crash "lex_interpolation_mid: interpol_stack.last().unwrap()"
        | some (.multiLine q) =>
          match c.peek, c.peekNext with
          | none, _ => reject lg { c with interp := c.interp.tail } (s ++ [ch]) (msgUnclosed q.quotes) off
          | some n1, none => reject lg { c.adv with interp := c.interp.tail } (s ++ [ch, n1]) (msgUnclosed q.quotes) off
          | some n1, some n2 =>
            if n1 = q.char ∧ n2 = q.char then
              emitOk lg { c.adv.adv with interp := c.interp.tail } .StrInterpRight (s ++ q.quotes) off
            else lexInterpolationMid lg off f c s
        | some .singleLine => emitOk lg { c with interp := c.interp.tail } .StrInterpRight (s ++ [ch]) off
        | some .not => lexInterpolationMid lg off f c s
      else
        let c := c.adv
        if ch = '\\' then
          match c.peek with
          | none => backslashEof lg "lex_interpolation_mid: consume().unwrap() after backslash" (reject lg c.adv s (msgUnclosed []) off)
          | some nx =>
            let c := c.adv
            if nx = '{' then emitOk lg c .StrInterpMid (s ++ ['\\', '{']) off
            else match simpleEscape nx with
              | some e => lexInterpolationMid lg off f c (s ++ e)
              | none => reject lg c ['\\', nx] (msgEscape nx) off
        else
          let s := s ++ [ch]
          if isBidi ch then reject lg c s msgBidiStr off else lexInterpolationMid lg off f c s

-- ------------------------------------------------------------------------------------------ `next`

/-- the Newline arm: the token is emitted first, then `lineno_token_starts += 1; col_token_starts = 0` -/
def emitNewline (lg : Bool) (c : Core) (off : Nat) : LexRes :=
  let (t, c') := emitS lg c .Newline ['\n'] off
  .ok t c'.newLine

inductive MainRes where
  | res (r : LexRes)
  | again (c : Core)          -- `self.next()` re-entered (newline inside an enclosure, backslash-newline)
  deriving Repr, Inhabited

def openEncl (c : Core) : Core := { c with encl := c.encl + 1 }
def closeEncl (c : Core) : Core := { c with encl := c.encl - 1 }

/-- arms of the `match self.consume()` of `Iterator::next`: line break, tab, backslash, quotes, backquote, digits, symbols, anything else (split into four definitions only to keep
    each proof small; together they are the one `match`) -/
def lexMainD (lg : Bool) (fuel : Nat) (c : Core) (ch : Char) (off : Nat) : MainRes :=
  let acc (c : Core) (k : TokenKind) (s : String) : MainRes := .res (accept lg c k s off)
  let rej (c : Core) (s : String) (msg : String) : MainRes := .res (reject lg c s.toList msg off)
  if ch = '\n' then
    if c.encl > 0 then .again c.newLine
    else .res (emitNewline lg c off)
  else if ch = '\t' then rej c "\t" "cannot use a tab as a space"
  else if ch = '\\' then
    match c.peek with
    | some nx =>
      if nx = '\n' then .again c.adv.newLine
      else .res (reject lg c ['\\', nx] "cannot put anything other than line breaks after \\" off)
    | none => rej c "\\" msgSimple
  else if ch = '"' then
    match c.peek, c.peekNext with
    | none, _ => rej c "\"" "the string is not closed by \""
    | some '"', some '"' => .res (lexMultiLineStr lg off .double c.col fuel c.adv.adv Quote.double.quotes)
    | some '"', none => acc c.adv .StrLit "\"\""
    | _, _ => .res (lexSingleStr lg off fuel c ['"'])
  else if ch = '\'' then
    match c.peek, c.peekNext with
    | none, _ => rej c "'" "raw identifier is not ended with '"
    | some '\'', some '\'' => .res (lexMultiLineStr lg off .single c.col fuel c.adv.adv Quote.single.quotes)
    | some '\'', _ => rej c.adv "''" msgSimple
    | _, _ => .res (lexRawIdent lg off fuel c ['\''])
  else if ch = '`' then .res (lexBackquote lg off fuel c [])
  else if isDigit ch then .res (lexNum lg off fuel c [ch])
  else if isValidStart ch then .res (lexSymbol lg off fuel c [ch])
  else .res (reject lg c [ch] ("invalid character: '" ++ String.ofList [ch] ++ "'") off)

/-- arms of the `match self.consume()` of `Iterator::next`: `+ - * / %` (split into four definitions only to keep
    each proof small; together they are the one `match`) -/
def lexMainC (lg : Bool) (fuel : Nat) (c : Core) (ch : Char) (off : Nat) : MainRes :=
  let acc (c : Core) (k : TokenKind) (s : String) : MainRes := .res (accept lg c k s off)
  let rej (c : Core) (s : String) (msg : String) : MainRes := .res (reject lg c s.toList msg off)
  if ch = '+' then
    match opFix c with
    | some .infix => acc c .Plus "+"
    | some .prefix => acc c .PrePlus "+"
    | none => rej c "+" msgSimple
  else if ch = '-' then
    if c.peek = some '>' then acc c.adv .FuncArrow "->"
    else match opFix c with
      | some .infix => acc c .Minus "-"
      | some .prefix =>
        if (c.peek.map isDigit).getD false then .res (lexNum lg off fuel c ['-']) else acc c .PreMinus "-"
      | none => rej c "-" msgSimple
  else if ch = '*' then
    if c.peek = some '*' then
      let c := c.adv
      match opFix c with
      | some .infix => acc c .Pow "**"
      | some .prefix => acc c .PreDblStar "**"
      | none => rej c "*" msgSimple
    else match opFix c with
      | some .infix => acc c .Star "*"
      | some .prefix => acc c .PreStar "*"
      | none => rej c "*" msgSimple
  else if ch = '/' then
    if c.peek = some '/' then acc c.adv .FloorDiv "//" else acc c .Slash "/"
  else if ch = '%' then acc c .Mod "%"
  else lexMainD lg fuel c ch off

/-- arms of the `match self.consume()` of `Iterator::next`: `, : ; & | ^ ~ $ @ = ! ?` (split into four definitions only to keep
    each proof small; together they are the one `match`) -/
def lexMainB (lg : Bool) (fuel : Nat) (c : Core) (ch : Char) (off : Nat) : MainRes :=
  let acc (c : Core) (k : TokenKind) (s : String) : MainRes := .res (accept lg c k s off)
  let rej (c : Core) (s : String) (msg : String) : MainRes := .res (reject lg c s.toList msg off)
  if ch = ',' then acc c .Comma ","
  else if ch = ':' then
    match c.peek with
    | some ':' => acc c.adv .DblColon "::"
    | some '=' => acc c.adv .Walrus ":="
    | some '>' => acc c.adv .SupertypeOf ":>"
    | _ => acc c .Colon ":"
  else if ch = ';' then acc c .Semi ";"
  else if ch = '&' then
    if c.peek = some '&' then acc c.adv .BitAnd "&&" else acc c .Amper "&"
  else if ch = '|' then
    match c.peek with
    | some '|' => acc c.adv .BitOr "||"
    | some '>' => acc c.adv .Pipe "|>"
    | _ => acc c .VBar "|"
  else if ch = '^' then
    if c.peek = some '^' then acc c.adv .BitXor "^^" else acc c .Caret "^"
  else if ch = '~' then acc c .PreBitNot "~"
  else if ch = '$' then rej c "$" "this feature(shared variables) is not implemented yet"
  else if ch = '@' then acc c .AtSign "@"
  else if ch = '=' then
    match c.peek with
    | some '=' => acc c.adv .DblEq "=="
    | some '>' => acc c.adv .ProcArrow "=>"
    | _ => acc c .Assign "="
  else if ch = '!' then
    if c.peek = some '=' then acc c.adv .NotEq "!=" else acc c .Mutate "!"
  else if ch = '?' then acc c .Try "?"
  else lexMainC lg fuel c ch off

/-- arms of the `match self.consume()` of `Iterator::next`: brackets, `<`, `>`, `.` (split into four definitions only to keep
    each proof small; together they are the one `match`) -/
def lexMainA (lg : Bool) (fuel : Nat) (c : Core) (ch : Char) (off : Nat) : MainRes :=
  let acc (c : Core) (k : TokenKind) (s : String) : MainRes := .res (accept lg c k s off)
  let rej (c : Core) (s : String) (msg : String) : MainRes := .res (reject lg c s.toList msg off)
  if ch = '(' then acc (openEncl c) .LParen "("
  else if ch = ')' then acc (closeEncl c) .RParen ")"
  else if ch = '[' then acc (openEncl c) .LSqBr "["
  else if ch = ']' then acc (closeEncl c) .RSqBr "]"
  else if ch = '{' then acc (openEncl c) .LBrace "{"
  else if ch = '}' then
    let c := closeEncl c
    match c.top with
    | none => .res (.crash "next: interpol_stack.last().unwrap()")
    | some i => if i.isIn then .res (lexInterpolationMid lg off fuel c ['}']) else acc c .RBrace "}"
  else if ch = '<' then
    match c.peek with
    | some '.' =>
      let c := c.adv
      if c.peek = some '.' then
        let c := c.adv
        if c.peek = some '<' then acc c.adv .Open "<..<" else acc c .LeftOpen "<.."
      else rej c "<." "no such operator: <."
    | some '-' => acc c.adv .Inclusion "<-"
    | some '=' => acc c.adv .LessEq "<="
    | some '<' => acc c.adv .Shl "<<"
    | some ':' => acc c.adv .SubtypeOf "<:"
    | _ => acc c .Less "<"
  else if ch = '>' then
    match c.peek with
    | some '=' => acc c.adv .GreEq ">="
    | some '>' => acc c.adv .Shr ">>"
    | _ => acc c .Gre ">"
  else if ch = '.' then
    match c.peek with
    | some nx =>
      if nx = '.' then
        let c := c.adv
        match c.peek with
        | some '<' => acc c.adv .RightOpen "..<"
        | some '.' => acc c.adv .EllipsisLit "..."
        | _ => acc c .Closed ".."
      else if isDigit nx && !prevCanBeReceiver c then .res (lexRatio lg off fuel c ['.'])
      else acc c .Dot "."
    | none => acc c .Dot "."
  else lexMainB lg fuel c ch off

/-- the `Some(ch)` arms of the `match self.consume()` of `Iterator::next`; `c` is the state after `consume()`,
    `off` the offset of `ch`, `fuel` bounds the inner loops -/
def lexMain (lg : Bool) (fuel : Nat) (c : Core) (ch : Char) (off : Nat) : MainRes := lexMainA lg fuel c ch off

/-- an element of the iterator: `Ok(token)` or `Err(LexError)` (the error carries the token whose `loc()` it reports) -/
inductive Item where
  | tok (t : Token)
  | err (t : Token) (msg : String)
  deriving Repr, Inhabited

/-- the fold of `lex_indent_dedent`: total of the stack and whether some prefix sum equals `spacesLen` (or it is 0) -/
def indentSum (spacesLen : Nat) (stack : List Nat) : Nat × Bool :=
  stack.foldl (fun (acc : Nat × Bool) x => (acc.1 + x, acc.2 || acc.1 + x == spacesLen || spacesLen == 0)) (0, false)

/-- `lex_indent_dedent` (`spStart` = offset of the first of the `spacesLen` consumed spaces) -/
def lexIndentDedent (lg : Bool) (st : State) (spacesLen : Nat) (spStart : Nat) : Option Item × State :=
  let c := st.core
  if spacesLen > 100 then
    let (t, c') := emitS lg c .Indent (List.replicate spacesLen ' ') spStart
    (some (.err t "indentation is too deep"), { st with core := c' })
  else
    let (sum, valid) := indentSum spacesLen st.indents
    if sum < spacesLen then
      let indentLen := spacesLen - sum
      let (t, c') := emitS lg { c with col := c.col + sum } .Indent (List.replicate indentLen ' ') (spStart + sum)
      (some (.tok t), { core := c', indents := st.indents ++ [indentLen] })
    else if sum > spacesLen then
      let c1 := { c with cursor := c.cursor - spacesLen }
      let (t, c') := emitS lg c1 .Dedent [] c1.cursor
      if valid then (some (.tok t), { core := c', indents := st.indents.dropLast })
      else (some (.err t "invalid indent"), { core := c', indents := st.indents.dropLast })
    else (none, { st with core := { c with col := c.col + spacesLen } })

/-- the `while let Some(' ') = self.peek_cur_ch()` loop: number of spaces consumed and the state after them -/
def skipSpaces : Nat → Core → Nat → Option (Nat × Core)
  | 0, _, _ => none
  | f + 1, c, n => if c.peek = some ' ' then skipSpaces f c.adv (n + 1) else some (n, c)

inductive SpaceRes where
  | item (i : Item) (st : State)
  | none (st : State)
  | fuel

/-- `lex_space_indent_dedent` -/
def lexSpaceIndentDedent (lg : Bool) (fuel : Nat) (st : State) : SpaceRes :=
  let c := st.core
  let isLineBreakAfter := c.cursor > 0 && !st.indents.isEmpty && c.peekPrev = some '\n'
  let isSpace := c.peek = some ' '
  let isLinebreak := c.peek = some '\n'
  let isToplevel := isLineBreakAfter && !(isSpace || isLinebreak)
  if isToplevel && c.encl = 0 then
    let (t, c') := emitS lg c .Dedent [] c.cursor
    .item (.tok t) { core := { c' with col := 0 }, indents := st.indents.dropLast }
  else if isLinebreak && c.encl = 0 then
    let (t, c') := emitS lg c.adv .Newline ['\n'] c.cursor
    .item (.tok t) { st with core := c'.newLine }
  else
    match skipSpaces fuel c 0 with
    | none => .fuel
    | some (n, c') =>
      if n > 0 && c'.prev = .BOF then
        let (t, c'') := emitS lg c' .Illegal (List.replicate n ' ') c.cursor
        .item (.err t "invalid indent") { st with core := c'' }
      else if c'.prev = .Newline || c'.prev = .Dedent then
        match lexIndentDedent lg { st with core := c' } n c.cursor with
        | (some it, st') => .item it st'
        | (none, st') => .none st'
      else .none { st with core := { c' with col := c'.col + n } }

inductive Step where
  | item (i : Item) (st : State)
  | again (st : State)
  | done
  | crash (site : String)
  | fuel
  deriving Inhabited

def ofLexRes (st : State) : LexRes → Step
  | .ok t c => .item (.tok t) { st with core := c }
  | .err t m c => .item (.err t m) { st with core := c }
  | .crash s => .crash s
  | .fuel => .fuel

/-- C08 fix: `self.col_token_starts = self.col_of_cursor()` after a skipped comment -/
def recol (lg : Bool) : SkipRes → SkipRes
  | .ok c' => .ok (if lg then c' else { c' with col := c'.colOfCursor })
  | r => r

/-- the comment part of `next`: `#[` starts a multi-line comment, any other `#` a line comment; after the fix the column is
    recomputed from the cursor when a comment was skipped -/
def afterComment (lg : Bool) (fuel : Nat) (c : Core) : SkipRes :=
  if c.peek = some '#' then
    recol lg (if c.peekNext = some '[' then lexMultiLineComment lg c.cursor fuel c [] 0 else lexComment lg c.cursor fuel c [])
  else .ok c

/-- the `None` arm of `match self.consume()`: EOF when the indentation stack is empty, otherwise one more Dedent -/
def atEof (lg : Bool) (st : State) (c : Core) (off : Nat) : Step :=
  if st.indents.isEmpty then
    let (t, c') := emitS lg c .EOF ['\x00'] off
    .item (.tok t) { st with core := c' }
  else
    let (t, c') := emitS lg c .Dedent [] off
    .item (.tok t) { core := c', indents := st.indents.dropLast }

/-- one pass through the body of `Iterator::next` -/
def nextOnce (lg : Bool) (fuel : Nat) (st : State) : Step :=
  if st.core.prev = .EOF then .done
  else match lexSpaceIndentDedent lg fuel st with
    | .fuel => .fuel
    | .item i st' => .item i st'
    | .none st =>
      match afterComment lg fuel st.core with
      | .fuel => .fuel
      | .err t m c' => .item (.err t m) { st with core := c' }
      | .ok c =>
        match c.peek with
        | some ch =>
          match lexMain lg fuel c.adv ch c.cursor with
          | .res r => ofLexRes st r
          | .again c' => .again { st with core := c' }
        | none => atEof lg st c.adv c.cursor

inductive NextRes where
  | item (i : Item) (st : State)
  | done
  | crash (site : String)
  | fuel
  deriving Inhabited

/-- `Iterator::next`: `nextOnce` until it yields (each `again` has consumed a line break) -/
def next (lg : Bool) (inner : Nat) : Nat → State → NextRes
  | 0, _ => .fuel
  | f + 1, st =>
    match nextOnce lg inner st with
    | .item i st' => .item i st'
    | .again st' => next lg inner f st'
    | .done => .done
    | .crash s => .crash s
    | .fuel => .fuel

inductive Outcome where
  | finished (items : List Item)        -- the iterator ended (after EOF); items in order
  | crash (items : List Item) (site : String)
  | fuel (items : List Item)
  deriving Inhabited

def Outcome.items : Outcome → List Item
  | .finished is => is | .crash is _ => is | .fuel is => is

def lexLoop (lg : Bool) (inner : Nat) : Nat → State → List Item → Outcome
  | 0, _, acc => .fuel acc.reverse
  | f + 1, st, acc =>
    match next lg inner inner st with
    | .item i st' => lexLoop lg inner f st' (i :: acc)
    | .done => .finished acc.reverse
    | .crash s => .crash acc.reverse s
    | .fuel => .fuel acc.reverse

/-- fuel for the inner loops and for the `again` loop: more than the number of characters -/
def innerFuel (src : List Char) : Nat := src.length + 2
/-- fuel for the token loop: every `next` consumes a character or pops the indentation stack (whose total size is
    bounded by the number of characters), or emits EOF -/
def outerFuel (src : List Char) : Nat := 3 * src.length + 4

/-- iterate `Lexer::from_str(src)` to the end -/
def lexAll (lg : Bool) (src : List Char) : Outcome :=
  lexLoop lg (innerFuel src) (outerFuel src) (initState src) []

def Item.isErr : Item → Bool
  | .err _ _ => true | .tok _ => false

def okTokens (items : List Item) : List Token :=
  items.filterMap (fun i => match i with | .tok t => some t | .err _ _ => none)

/-- `Lexer::lex`: `Ok(tokens)` iff no error item -/
def lexResultIsOk (items : List Item) : Bool := !items.any Item.isErr

end ErgVerif.Lex
