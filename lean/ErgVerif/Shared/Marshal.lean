/-
Shared development `Marshal` (import-free; serves C15, C14, C13, C01).

Transcribed from /repo:
  crates/erg_common/serialize.rs      DataTypePrefix (+ `From<u8>`), str_into_bytes, raw_string_into_bytes, strs_into_bytes,
                                      get_magic_num_bytes, get_magic_num_from_bytes, get_ver_from_magic_num
  crates/erg_compiler/ty/value.rs     ValueObj::into_bytes                                   (`Val.write`)
  crates/erg_compiler/ty/codeobj.rs   consts_into_bytes, tuple_into_bytes, CodeObj::into_bytes, dump_locals, into_bytecode
                                      (`Code.write`, `pycBytes`), CodeObj::from_bytes, from_pyc  (`ergCode`, `ergPyc`)
  crates/erg_compiler/ty/deserialize.rs Deserializer::{consume, deserialize_u32, deserialize_const, deserialize_const_vec,
                                      deserialize_str_vec, deserialize_locals, deserialize_str, deserialize_bytes} (`ergConst` …)
Specification (not erg code): `pyRd` = CPython's `r_object` (Python/marshal.c, 3.7 … 3.11) for the type codes
  N F T i l g s z Z u t ( ) c  with FLAG_REF stripped (no `r` back-references are modelled: `none`), floats as bit patterns.

Conventions: bytes are `Nat`s (a value ≥ 256 never arises from the harness; theorems do not need the bound), strings are lists of
code points, `u32` fields are `Nat`s (the writer wraps them modulo 2^32 exactly as `as u32` / `to_le_bytes` do), every
panic site of the Rust code is an explicit `R.crash <site>`; `minor` is the minor version of the target interpreter.
-/
namespace ErgVerif.Marshal

abbrev Bytes := List Nat

/-! ## little-endian numbers -/

/-- `u32::to_le_bytes` of `u as u32` -/
def le32 (u : Nat) : Bytes := [u % 256, u / 256 % 256, u / 65536 % 256, u / 16777216 % 256]
def le16 (u : Nat) : Bytes := [u % 256, u / 256 % 256]
/-- `u64::to_le_bytes` / `f64::to_le_bytes` of the bit pattern -/
def le64 (u : Nat) : Bytes := le32 (u % 4294967296) ++ le32 (u / 4294967296 % 4294967296)
/-- two's complement of an `i32` -/
def i32ToU (i : Int) : Nat := (i % 4294967296).toNat
def rd32u (a b c d : Nat) : Nat := a + 256 * b + 65536 * c + 16777216 * d
def toI32 (u : Nat) : Int := if u < 2147483648 then (u : Int) else (u : Int) - 4294967296

/-! ## UTF-8 -/

def utf8Enc1 (c : Nat) : Bytes :=
  if c < 128 then [c]
  else if c < 2048 then [192 + c / 64, 128 + c % 64]
  else if c < 65536 then [224 + c / 4096, 128 + c / 64 % 64, 128 + c % 64]
  else [240 + c / 262144, 128 + c / 4096 % 64, 128 + c / 64 % 64, 128 + c % 64]

def utf8Enc : List Nat → Bytes
  | [] => []
  | c :: cs => utf8Enc1 c ++ utf8Enc cs

def isScalar (c : Nat) : Bool := c < 55296 || (57344 ≤ c && c < 1114112)
def isCont (b : Nat) : Bool := 128 ≤ b && b < 192

/-- UTF-8 decoder. `sp = false`: Rust's `String::from_utf8` (strict); `sp = true`: CPython's `surrogatepass` handler
    (three-byte encodings of U+D800 … U+DFFF are accepted). -/
def utf8Dec (sp : Bool) : Bytes → Option (List Nat)
  | [] => some []
  | b0 :: rest =>
    if b0 < 128 then (utf8Dec sp rest).map (b0 :: ·)
    else if b0 < 194 then none
    else if b0 < 224 then
      match rest with
      | b1 :: rest' =>
        if isCont b1 then (utf8Dec sp rest').map (((b0 - 192) * 64 + (b1 - 128)) :: ·) else none
      | [] => none
    else if b0 < 240 then
      match rest with
      | b1 :: b2 :: rest' =>
        let c := (b0 - 224) * 4096 + (b1 - 128) * 64 + (b2 - 128)
        if isCont b1 && isCont b2 && decide (2048 ≤ c) && (sp || isScalar c) then (utf8Dec sp rest').map (c :: ·) else none
      | _ => none
    else if b0 < 245 then
      match rest with
      | b1 :: b2 :: b3 :: rest' =>
        let c := (b0 - 240) * 262144 + (b1 - 128) * 4096 + (b2 - 128) * 64 + (b3 - 128)
        if isCont b1 && isCont b2 && isCont b3 && decide (65536 ≤ c) && decide (c < 1114112) then (utf8Dec sp rest').map (c :: ·)
        else none
      | _ => none
    else none

/-! ## values (`ValueObj` restricted to what `into_bytes` accepts; everything else is `unsupported`) -/

/-- the non-recursive fields of `CodeObj` -/
structure CodeMeta where
  argcount : Nat
  posonly : Nat
  kwonly : Nat
  nlocals : Nat
  stacksize : Nat
  flags : Nat
  code : Bytes
  names : List (List Nat)
  varnames : List (List Nat)
  freevars : List (List Nat)
  cellvars : List (List Nat)
  filename : List Nat
  name : List Nat
  qualname : List Nat
  firstlineno : Nat
  lnotab : Bytes
  exctable : Bytes
  deriving DecidableEq, Repr, Inhabited

mutual
inductive Val where
  | int (i : Int)          -- ValueObj::Int(i32)
  | nat (n : Nat)          -- ValueObj::Nat(u64)
  | float (bits : Nat)     -- ValueObj::Float, IEEE bit pattern
  | str (s : List Nat)     -- code points
  | bool (b : Bool)
  | list (vs : ValList)
  | tuple (vs : ValList)
  | none
  | code (c : Code)
  | unsupported            -- Dict, Set, Record, Type, Inf, … : `into_bytes` panics
inductive ValList where
  | nil
  | cons (v : Val) (vs : ValList)
inductive Code where
  | mk (m : CodeMeta) (consts : ValList)
end

deriving instance DecidableEq for Val
deriving instance Inhabited for Val
deriving instance Inhabited for ValList
deriving instance Inhabited for Code

def ValList.length : ValList → Nat
  | .nil => 0
  | .cons _ vs => vs.length + 1

def ValList.ofList : List Val → ValList
  | [] => .nil
  | v :: vs => .cons v (ValList.ofList vs)

def ValList.toList : ValList → List Val
  | .nil => []
  | .cons v vs => v :: vs.toList

/-! ## the writer -/

/-- `str_into_bytes(cont, is_interned)`: ShortAscii(Interned) (0xFA / 0xDA) for ASCII of at most 255 bytes, else Unicode `u` -/
def strBytes (s : List Nat) (interned : Bool) : Bytes :=
  let b := utf8Enc s
  if s.all (· < 128) && decide (b.length ≤ 255) then (if interned then 218 else 250) :: b.length :: b
  else 117 :: (le32 b.length ++ b)

/-- `raw_string_into_bytes` -/
def rawBytes (b : Bytes) : Bytes := 115 :: (le32 b.length ++ b)

/-- the tuple header shared by `strs_into_bytes`, `consts_into_bytes` (`len > 255`) and `tuple_into_bytes` (`len <= 255`) -/
def tupleHdr (n : Nat) : Bytes := if n > 255 then 40 :: le32 n else [41, n]

def strsBody : List (List Nat) → Bytes
  | [] => []
  | s :: ss => strBytes s true ++ strsBody ss

/-- `strs_into_bytes` -/
def strsBytes (names : List (List Nat)) : Bytes := tupleHdr names.length ++ strsBody names

/-- 15-bit digits, least significant first (`while rest > 0 { push(rest & 0x7FFF); rest >>= 15 }`; a u64 has ≤ 5 digits) -/
def digits15 : Nat → Nat → List Nat
  | 0, _ => []
  | f + 1, n => if n = 0 then [] else n % 32768 :: digits15 f (n / 32768)

def digitsBody : List Nat → Bytes
  | [] => []
  | d :: ds => le16 d ++ digitsBody ds

/-- `ValueObj::Nat(n).into_bytes` after the fix: int32 form when it fits, else marshal's long form `l` -/
def natBytes (n : Nat) : Bytes :=
  if n ≤ 2147483647 then 105 :: le32 n
  else let ds := digits15 5 n; 108 :: (le32 ds.length ++ digitsBody ds)

/-- the code before the fix (finding #13): `(n as i32).to_le_bytes()` under code `i` for every `n` -/
def legacyNatBytes (n : Nat) : Bytes := 105 :: le32 n

def kindBytes (nLocal nFree nCell : Nat) : Bytes :=
  List.replicate nLocal 32 ++ List.replicate nFree 128 ++ List.replicate nCell 96

/-- `CodeObj::dump_locals` -/
def dumpLocals (minor : Nat) (m : CodeMeta) : Bytes :=
  if minor ≥ 11 then
    let vs := m.varnames.filter (fun n => !(m.freevars.contains n) && !(m.cellvars.contains n))
    strsBytes (vs ++ m.freevars ++ m.cellvars) ++ rawBytes (kindBytes vs.length m.freevars.length m.cellvars.length)
  else strsBytes m.varnames ++ strsBytes m.freevars ++ strsBytes m.cellvars

/-- everything of `CodeObj::into_bytes` before `consts` -/
def codeHead (minor : Nat) (m : CodeMeta) : Bytes :=
  227 :: (le32 m.argcount ++ ((if minor ≥ 8 then le32 m.posonly else []) ++ (le32 m.kwonly
    ++ ((if minor < 11 then le32 m.nlocals else []) ++ (le32 m.stacksize ++ (le32 m.flags ++ rawBytes m.code))))))

/-- everything of `CodeObj::into_bytes` after `consts` -/
def codeTail (minor : Nat) (m : CodeMeta) : Bytes :=
  strsBytes m.names ++ (dumpLocals minor m ++ (strBytes m.filename false ++ (strBytes m.name true
    ++ ((if minor ≥ 11 then strBytes m.qualname true else []) ++ (le32 m.firstlineno ++ (rawBytes m.lnotab
    ++ (if minor ≥ 11 then rawBytes m.exctable else [])))))))

mutual
/-- `ValueObj::into_bytes(python_ver)`; `unsupported` is the `panic!("this object cannot be serialized")` arm, see `Val.panics` -/
def Val.write (minor : Nat) : Val → Bytes
  | .int i => 105 :: le32 (i32ToU i)
  | .nat n => natBytes n
  | .float b => 103 :: le64 b
  | .str s => strBytes s false
  | .bool true => [84]
  | .bool false => [70]
  | .list vs => tupleHdr vs.length ++ vs.write minor
  | .tuple vs => tupleHdr vs.length ++ vs.write minor
  | .none => [78]
  | .code c => c.write minor
  | .unsupported => []
def ValList.write (minor : Nat) : ValList → Bytes
  | .nil => []
  | .cons v vs => v.write minor ++ vs.write minor
/-- `CodeObj::into_bytes(python_ver)` -/
def Code.write (minor : Nat) : Code → Bytes
  | .mk m consts => codeHead minor m ++ ((tupleHdr consts.length ++ consts.write minor) ++ codeTail minor m)
end

mutual
/-- does `into_bytes` reach its `panic!` arm? -/
def Val.panics : Val → Bool
  | .unsupported => true
  | .list vs => vs.panics
  | .tuple vs => vs.panics
  | .code c => c.panics
  | _ => false
def ValList.panics : ValList → Bool
  | .nil => false
  | .cons v vs => v.panics || vs.panics
def Code.panics : Code → Bool
  | .mk _ consts => consts.panics
end

/-- `get_ver_from_magic_num`: minor version, `none` = `panic!("unknown magic number …")` -/
def verOfMagic (m : Nat) : Option Nat :=
  if 3360 ≤ m ∧ m ≤ 3379 then some 6
  else if 3390 ≤ m ∧ m ≤ 3394 then some 7
  else if 3400 ≤ m ∧ m ≤ 3413 then some 8
  else if 3420 ≤ m ∧ m ≤ 3425 then some 9
  else if 3430 ≤ m ∧ m ≤ 3439 then some 10
  else if m = 3495 then some 11
  else if m = 3531 then some 12
  else none

/-- `get_magic_num_bytes`: `(0x0A0D0000 | ver).to_le_bytes()` for `ver < 65536` -/
def magicBytes (magic : Nat) : Bytes := [magic % 256, magic / 256 % 256, 13, 10]

/-- `CodeObj::into_bytecode` with the given magic number and timestamp -/
def pycBytes (magic ts : Nat) (minor : Nat) (c : Code) : Bytes :=
  magicBytes magic ++ ([0, 0, 0, 0] ++ (le32 ts ++ ([0, 0, 0, 0] ++ c.write minor)))

/-! ## Specification: CPython's unmarshaller -/

mutual
inductive PyVal where
  | int (i : Int)
  | float (bits : Nat)
  | str (s : List Nat)
  | bytes (b : Bytes)
  | bool (b : Bool)
  | none
  | tuple (vs : PyList)
  /-- the integer fields and the object fields of a code object in file order (the shape `r_object` hands to the constructor) -/
  | code (ints : List Int) (objs : PyList)
inductive PyList where
  | nil
  | cons (v : PyVal) (vs : PyList)
end

deriving instance DecidableEq for PyVal
deriving instance Inhabited for PyVal
deriving instance Inhabited for PyList

def PyList.ofList : List PyVal → PyList
  | [] => .nil
  | v :: vs => .cons v (PyList.ofList vs)

def PyList.toList : PyList → List PyVal
  | .nil => []
  | .cons v vs => v :: vs.toList

def PyList.append : PyList → PyList → PyList
  | .nil, ys => ys
  | .cons x xs, ys => .cons x (xs.append ys)

def rdU32 : Bytes → Option (Nat × Bytes)
  | a :: b :: c :: d :: rest => some (rd32u a b c d, rest)
  | _ => none

/-- `r_long` used as a length: negative values are "bad marshal data" -/
def rdLen (bs : Bytes) : Option (Nat × Bytes) :=
  match rdU32 bs with
  | some (u, rest) => if u < 2147483648 then some (u, rest) else none
  | none => none

def takeN (n : Nat) (bs : Bytes) : Option (Bytes × Bytes) :=
  if bs.length < n then none else some (bs.take n, bs.drop n)

/-- `n` signed 32-bit integers -/
def rdInts : Nat → Bytes → Option (List Int × Bytes)
  | 0, bs => some ([], bs)
  | n + 1, bs =>
    match rdU32 bs with
    | some (u, rest) =>
      match rdInts n rest with
      | some (is, rest') => some (toI32 u :: is, rest')
      | none => none
    | none => none

/-- `n` 15-bit digits (`r_short`), least significant first; a digit ≥ 2^15 is "bad marshal data (digit out of range in long)" -/
def rdDigits : Nat → Bytes → Option (List Nat × Bytes)
  | 0, bs => some ([], bs)
  | n + 1, a :: b :: rest =>
    let d := a + 256 * b
    if d < 32768 then
      match rdDigits n rest with
      | some (ds, rest') => some (d :: ds, rest')
      | none => none
    else none
  | _ + 1, _ => none

def fromDigits : List Nat → Nat
  | [] => 0
  | d :: ds => d + 32768 * fromDigits ds

/-- number of integer fields before the objects / of objects before and after `firstlineno` -/
def codeInts (minor : Nat) : Nat := if minor ≥ 11 then 5 else if minor ≥ 8 then 6 else 5
def codeObjs2 (minor : Nat) : Nat := if minor ≥ 11 then 2 else 1

mutual
/-- `r_object`. `none` = the interpreter raises (EOFError / ValueError "bad marshal data") or the type code is outside the
    specified set. Fuel bounds the recursion; `pyRead` supplies enough. -/
def pyRd (minor : Nat) : Nat → Bytes → Option (PyVal × Bytes)
  | 0, _ => none
  | _, [] => none
  | fuel + 1, t :: rest =>
    let ty := t % 128
    if ty = 78 then some (.none, rest)
    else if ty = 70 then some (.bool false, rest)
    else if ty = 84 then some (.bool true, rest)
    else if ty = 105 then
      match rdU32 rest with
      | some (u, rest') => some (.int (toI32 u), rest')
      | none => none
    else if ty = 108 then
      match rdU32 rest with
      | some (u, rest') =>
        let n := toI32 u
        match rdDigits n.natAbs rest' with
        | some (ds, rest'') =>
          if ds.getLast? = some 0 then none      -- "bad marshal data (unnormalized long data)"
          else some (.int (if n < 0 then - (fromDigits ds : Int) else (fromDigits ds : Int)), rest'')
        | none => none
      | none => none
    else if ty = 103 then
      match takeN 8 rest with
      | some (b, rest') => some (.float (rd32u (b.getD 0 0) (b.getD 1 0) (b.getD 2 0) (b.getD 3 0)
          + 4294967296 * rd32u (b.getD 4 0) (b.getD 5 0) (b.getD 6 0) (b.getD 7 0)), rest')
      | none => none
    else if ty = 115 then
      match rdLen rest with
      | some (n, rest') =>
        match takeN n rest' with
        | some (b, rest'') => some (.bytes b, rest'')
        | none => none
      | none => none
    else if ty = 122 ∨ ty = 90 then      -- short ASCII (interned): one length byte, bytes taken as Latin-1 code points
      match rest with
      | n :: rest' =>
        match takeN n rest' with
        | some (b, rest'') => some (.str b, rest'')
        | none => none
      | [] => none
    else if ty = 117 ∨ ty = 116 then     -- unicode / interned: UTF-8 with `surrogatepass`
      match rdLen rest with
      | some (n, rest') =>
        match takeN n rest' with
        | some (b, rest'') =>
          match utf8Dec true b with
          | some s => some (.str s, rest'')
          | none => none
        | none => none
      | none => none
    else if ty = 41 then
      match rest with
      | n :: rest' =>
        match pyRdList minor fuel n rest' with
        | some (vs, rest'') => some (.tuple vs, rest'')
        | none => none
      | [] => none
    else if ty = 40 then
      match rdLen rest with
      | some (n, rest') =>
        match pyRdList minor fuel n rest' with
        | some (vs, rest'') => some (.tuple vs, rest'')
        | none => none
      | none => none
    else if ty = 99 then
      match rdInts (codeInts minor) rest with
      | some (is1, r1) =>
        match pyRdList minor fuel 8 r1 with
        | some (os1, r2) =>
          match rdInts 1 r2 with
          | some (is2, r3) =>
            match pyRdList minor fuel (codeObjs2 minor) r3 with
            | some (os2, r4) => some (.code (is1 ++ is2) (os1.append os2), r4)
            | none => none
          | none => none
        | none => none
      | none => none
    else none
def pyRdList (minor : Nat) : Nat → Nat → Bytes → Option (PyList × Bytes)
  | 0, _, _ => none
  | _ + 1, 0, rest => some (.nil, rest)
  | fuel + 1, n + 1, bs =>
    match pyRd minor fuel bs with
    | some (v, rest) =>
      match pyRdList minor fuel n rest with
      | some (vs, rest') => some (.cons v vs, rest')
      | none => none
    | none => none
end

/-- `marshal.loads`-style entry point: enough fuel for any input (every object consumes at least one byte) -/
def pyRead (minor : Nat) (bs : Bytes) : Option (PyVal × Bytes) := pyRd minor (2 * bs.length + 16) bs

/-! ### what the interpreter is expected to reconstruct -/

def pyStrs : List (List Nat) → PyList
  | [] => .nil
  | s :: ss => .cons (.str s) (pyStrs ss)

mutual
def Val.toPy (minor : Nat) : Val → PyVal
  | .int i => .int i
  | .nat n => .int n
  | .float b => .float b
  | .str s => .str s
  | .bool b => .bool b
  | .list vs => .tuple (vs.toPy minor)
  | .tuple vs => .tuple (vs.toPy minor)
  | .none => .none
  | .code c => c.toPy minor
  | .unsupported => .none
def ValList.toPy (minor : Nat) : ValList → PyList
  | .nil => .nil
  | .cons v vs => .cons (v.toPy minor) (vs.toPy minor)
/-- fields in file order; for 3.11 `localsplusnames` = locals (minus cell/free names) ++ free ++ cell and the kinds string -/
def Code.toPy (minor : Nat) : Code → PyVal
  | .mk m consts =>
    let i (n : Nat) : Int := n
    if minor ≥ 11 then
      let vs := m.varnames.filter (fun n => !(m.freevars.contains n) && !(m.cellvars.contains n))
      .code [i m.argcount, i m.posonly, i m.kwonly, i m.stacksize, i m.flags, i m.firstlineno]
        (.cons (.bytes m.code) (.cons (.tuple (consts.toPy minor)) (.cons (.tuple (pyStrs m.names))
          (.cons (.tuple (pyStrs (vs ++ m.freevars ++ m.cellvars)))
          (.cons (.bytes (kindBytes vs.length m.freevars.length m.cellvars.length))
          (.cons (.str m.filename) (.cons (.str m.name) (.cons (.str m.qualname)
          (.cons (.bytes m.lnotab) (.cons (.bytes m.exctable) .nil))))))))))
    else
      .code ((i m.argcount :: (if minor ≥ 8 then [i m.posonly] else [])) ++ [i m.kwonly, i m.nlocals, i m.stacksize, i m.flags, i m.firstlineno])
        (.cons (.bytes m.code) (.cons (.tuple (consts.toPy minor)) (.cons (.tuple (pyStrs m.names))
          (.cons (.tuple (pyStrs m.varnames)) (.cons (.tuple (pyStrs m.freevars)) (.cons (.tuple (pyStrs m.cellvars))
          (.cons (.str m.filename) (.cons (.str m.name) (.cons (.bytes m.lnotab) .nil)))))))))
end

/-! ### well-formedness: what the writer needs from a value so that it is representable -/

def u32Max : Nat := 4294967296
def lenOk (n : Nat) : Prop := n < 2147483648
instance : Decidable (lenOk n) := by unfold lenOk; infer_instance

def strOk (s : List Nat) : Prop := (∀ c ∈ s, isScalar c = true) ∧ lenOk (utf8Enc s).length
def strsOk (ss : List (List Nat)) : Prop := (∀ s ∈ ss, strOk s) ∧ lenOk ss.length

instance : Decidable (strOk s) := by unfold strOk lenOk; infer_instance
instance : Decidable (strsOk ss) := by unfold strsOk lenOk; infer_instance

/-- integer fields are read back as signed 32-bit integers, lengths as non-negative ones -/
def metaOk (m : CodeMeta) : Prop :=
  lenOk m.argcount ∧ lenOk m.posonly ∧ lenOk m.kwonly ∧ lenOk m.nlocals ∧ lenOk m.stacksize ∧ lenOk m.flags ∧ lenOk m.firstlineno
  ∧ lenOk m.code.length ∧ lenOk m.lnotab.length ∧ lenOk m.exctable.length
  ∧ strsOk m.names ∧ strsOk m.varnames ∧ strsOk m.freevars ∧ strsOk m.cellvars
  ∧ strOk m.filename ∧ strOk m.name ∧ strOk m.qualname
  ∧ lenOk (m.varnames.length + m.freevars.length + m.cellvars.length)

instance : Decidable (metaOk m) := by unfold metaOk lenOk; infer_instance

mutual
def Val.wf : Val → Prop
  | .int i => -2147483648 ≤ i ∧ i ≤ 2147483647
  | .nat n => n < 18446744073709551616
  | .float b => b < 18446744073709551616
  | .str s => strOk s
  | .list vs => lenOk vs.length ∧ vs.wf
  | .tuple vs => lenOk vs.length ∧ vs.wf
  | .code c => c.wf
  | .unsupported => False
  | _ => True
def ValList.wf : ValList → Prop
  | .nil => True
  | .cons v vs => v.wf ∧ vs.wf
def Code.wf : Code → Prop
  | .mk m consts => metaOk m ∧ lenOk consts.length ∧ consts.wf
end

mutual
def Val.wfb : Val → Bool
  | .int i => decide (-2147483648 ≤ i ∧ i ≤ 2147483647)
  | .nat n => decide (n < 18446744073709551616)
  | .float b => decide (b < 18446744073709551616)
  | .str s => decide (strOk s)
  | .list vs => decide (lenOk vs.length) && vs.wfb
  | .tuple vs => decide (lenOk vs.length) && vs.wfb
  | .code c => c.wfb
  | .unsupported => false
  | _ => true
def ValList.wfb : ValList → Bool
  | .nil => true
  | .cons v vs => v.wfb && vs.wfb
def Code.wfb : Code → Bool
  | .mk m consts => decide (metaOk m) && decide (lenOk consts.length) && consts.wfb
end

mutual
def Val.size : Val → Nat
  | .list vs => vs.size + 1
  | .tuple vs => vs.size + 1
  | .code c => c.size + 1
  | _ => 1
def ValList.size : ValList → Nat
  | .nil => 1
  | .cons v vs => v.size + vs.size + 1
def Code.size : Code → Nat
  | .mk m consts => consts.size + m.names.length + m.varnames.length + m.freevars.length + m.cellvars.length + 16
end

/-! ## erg's reader -/

inductive R (α : Type) where
  | ok (a : α) (rest : Bytes)
  | err (e : String)        -- `Err(DeserializeError)`: what `--mode read` reports as "failed to deserialize"
  | crash (site : String)   -- a panic of the Rust code
  | fuel                    -- never produced with the fuel `ergRead` supplies
  deriving Repr, Inhabited

def R.bind {α β : Type} (x : R α) (f : α → Bytes → R β) : R β :=
  match x with
  | .ok a rest => f a rest
  | .err e => .err e
  | .crash s => .crash s
  | .fuel => .fuel

def R.isCrash {α : Type} : R α → Bool
  | .crash _ => true
  | _ => false

/-- `v.remove(0)` -/
def pop : Bytes → R Nat
  | [] => .crash "remove0"
  | b :: rest => .ok b rest

/-- `v.drain(..n)` -/
def drain (n : Nat) (bs : Bytes) : R Bytes :=
  if bs.length < n then .crash "drain" else .ok (bs.take n) (bs.drop n)

/-- `Deserializer::deserialize_u32` -/
def eU32 (bs : Bytes) : R Nat :=
  (drain 4 bs).bind fun b rest => .ok (rd32u (b.getD 0 0) (b.getD 1 0) (b.getD 2 0) (b.getD 3 0)) rest

/-- `DataTypePrefix` -/
inductive Pfx where
  | int32 | int64 | long | float | binFloat | complex | binComplex | true_ | false_ | none_ | stopIter | str
  | shortAsciiInterned | shortAscii | unicode | interned | tuple | smallTuple | code | builtin | nat | illegal
  deriving DecidableEq, Repr, Inhabited

/-- `DataTypePrefix::from(u8)` -/
def pfxOf (b : Nat) : Pfx :=
  if b = 105 ∨ b = 233 then .int32 else if b = 73 then .int64 else if b = 108 then .long else if b = 102 then .float
  else if b = 103 then .binFloat else if b = 120 then .complex else if b = 121 then .binComplex else if b = 84 then .true_
  else if b = 70 then .false_ else if b = 78 then .none_ else if b = 83 then .stopIter else if b = 115 ∨ b = 243 then .str
  else if b = 90 ∨ b = 218 then .shortAsciiInterned else if b = 122 ∨ b = 250 then .shortAscii else if b = 117 then .unicode
  else if b = 116 then .interned else if b = 40 ∨ b = 168 then .tuple else if b = 41 ∨ b = 169 then .smallTuple
  else if b = 99 ∨ b = 227 then .code else if b = 98 then .builtin else if b = 110 then .nat else .illegal

/-- the Debug name printed in "cannot deserialize this object: …" -/
def Pfx.name : Pfx → String
  | .int32 => "Int32" | .int64 => "Int64" | .long => "Long" | .float => "Float" | .binFloat => "BinFloat" | .complex => "Complex"
  | .binComplex => "BinComplex" | .true_ => "True" | .false_ => "False" | .none_ => "None" | .stopIter => "StopIter" | .str => "Str"
  | .shortAsciiInterned => "ShortAsciiInterned" | .shortAscii => "ShortAscii" | .unicode => "Unicode" | .interned => "Interned"
  | .tuple => "Tuple" | .smallTuple => "SmallTuple" | .code => "Code" | .builtin => "Builtin" | .nat => "Nat" | .illegal => "Illegal"

/-- `String::from_utf8(bytes)?` -/
def eStr (b : Bytes) (rest : Bytes) : R Val :=
  match utf8Dec false b with
  | some s => .ok (.str s) rest
  | none => .err "utf8"

/-- `deserialize_bytes` -/
def eBytes (bs : Bytes) : R Bytes :=
  (pop bs).bind fun t r =>
    if pfxOf t ≠ .str then .err "deserialize_bytes"
    else (eU32 r).bind fun n r' => drain n r'

/-- the digits loop of the `Long` arm (added together with the writer's long form): `i` = index of the next digit -/
def eDigits (neg : Bool) : Nat → Nat → Nat → Bytes → R Val
  | 0, _, acc, bs => .ok (.nat acc) bs
  | k + 1, i, acc, bs =>
    (drain 2 bs).bind fun b rest =>
      let d := b.getD 0 0 + 256 * b.getD 1 0
      if neg || decide (d > 32767) || decide (i ≥ 5) || (decide (i = 4) && decide (d > 15)) then .err "file_broken_error"
      else eDigits neg k (i + 1) (acc + d * 2 ^ (15 * i)) rest

/-- `try_into_str` over the elements (`None` field in the type error) -/
def strsOf : ValList → Option (List (List Nat))
  | .nil => some []
  | .cons (.str s) vs => (strsOf vs).map (s :: ·)
  | .cons _ _ => none

/-- the partition loop of `deserialize_locals` for 3.11: `none` = `unreachable!()` -/
def partitionKinds : List (List Nat) → Bytes → Option (List (List Nat) × List (List Nat) × List (List Nat))
  | n :: ns, k :: ks =>
    match partitionKinds ns ks with
    | some (v, f, c) =>
      if k = 32 then some (n :: v, f, c) else if k = 128 then some (v, n :: f, c) else if k = 64 then some (v, f, n :: c) else none
    | none => none
  | _, _ => some ([], [], [])

/-- `size_of::<ValueObj>()` (printed by `c15 sizeof`, compared by the check) and the address-space limit the correspondence harness
    gives its workers (`ulimit -v`, 8 GiB); within `allocBand` of the limit the outcome of the allocation is not predicted -/
def valueObjSize : Nat := 264
def allocLimit : Nat := 8589934592
def allocBand : Nat := 2147483648

mutual
/-- `Deserializer::deserialize_const` -/
def ergConst (minor : Nat) : Nat → Bytes → R Val
  | 0, _ => .fuel
  | fuel + 1, bs =>
    (pop bs).bind fun t rest =>
      let p := pfxOf t
      if p = .int32 then (drain 4 rest).bind fun b r => .ok (.int (toI32 (rd32u (b.getD 0 0) (b.getD 1 0) (b.getD 2 0) (b.getD 3 0)))) r
      else if p = .long then
        (drain 4 rest).bind fun b r =>
          let n := toI32 (rd32u (b.getD 0 0) (b.getD 1 0) (b.getD 2 0) (b.getD 3 0))
          eDigits (decide (n < 0)) n.natAbs 0 0 r
      else if p = .binFloat then
        (drain 8 rest).bind fun b r => .ok (.float (rd32u (b.getD 0 0) (b.getD 1 0) (b.getD 2 0) (b.getD 3 0)
          + 4294967296 * rd32u (b.getD 4 0) (b.getD 5 0) (b.getD 6 0) (b.getD 7 0))) r
      else if p = .shortAscii ∨ p = .shortAsciiInterned then
        (pop rest).bind fun n r => (drain n r).bind fun b r' => eStr b r'
      else if p = .str ∨ p = .unicode then
        (eU32 rest).bind fun n r => (drain n r).bind fun b r' => eStr b r'
      else if p = .true_ then .ok (.bool true) rest
      else if p = .false_ then .ok (.bool false) rest
      else if p = .smallTuple then
        (pop rest).bind fun n r => (ergSeq minor fuel n r).bind fun vs r' => .ok (.list vs) r'
      else if p = .tuple then
        (eU32 rest).bind fun n r =>
          -- `Vec::with_capacity(len as usize)`: an allocation the process cannot get aborts it (`handle_alloc_error`)
          if n * valueObjSize ≥ allocLimit then .crash "abort"
          else if n * valueObjSize + allocBand ≥ allocLimit then .crash "abort-band"
          else (ergSeq minor fuel n r).bind fun vs r' => .ok (.list vs) r'
      else if p = .code then
        (ergCodeBody minor fuel rest).bind fun c r => .ok (.code c) r
      else if p = .none_ then .ok .none rest
      else .err ("deserialize_const " ++ p.name)
/-- `for _ in 0..len { arr.push(self.deserialize_const(v, python_ver)?) }` -/
def ergSeq (minor : Nat) : Nat → Nat → Bytes → R ValList
  | 0, _, _ => .fuel
  | _ + 1, 0, bs => .ok .nil bs
  | fuel + 1, n + 1, bs =>
    (ergConst minor fuel bs).bind fun v rest => (ergSeq minor fuel n rest).bind fun vs rest' => .ok (.cons v vs) rest'
/-- `CodeObj::from_bytes` after its leading `assert_eq!(v.remove(0), 0xE3)` -/
def ergCodeBody (minor : Nat) : Nat → Bytes → R Code
  | 0, _ => .fuel
  | fuel + 1, bs =>
    (eU32 bs).bind fun argcount r =>
    (if minor ≥ 8 then eU32 r else .ok 0 r).bind fun posonly r =>
    (eU32 r).bind fun kwonly r =>
    (if minor ≥ 11 then .ok 0 r else eU32 r).bind fun nlocals r =>
    (eU32 r).bind fun stacksize r =>
    (eU32 r).bind fun flags r =>
    (eBytes r).bind fun code r =>
    -- deserialize_const_vec(Some("consts"))
    (ergConst minor fuel r).bind fun cv r =>
    match cv with
    | .list consts =>
      -- deserialize_str_vec(Some("names"))
      (ergStrVec minor fuel "names" r).bind fun names r =>
      -- deserialize_locals
      (if minor ≥ 11 then
        (ergStrVec minor fuel "varnames+freevars+cellvars" r).bind fun ns r =>
        (eBytes r).bind fun kinds r =>
          if ns.length ≠ kinds.length then .crash "kinds-len"
          else match partitionKinds ns kinds with
            | some t => .ok t r
            | none => .crash "kind"
       else
        (ergStrVec minor fuel "varnames" r).bind fun vn r =>
        (ergStrVec minor fuel "freevars" r).bind fun fv r =>
        (ergStrVec minor fuel "cellvars" r).bind fun cv r => .ok (vn, fv, cv) r).bind fun locals r =>
      (ergStr minor fuel "filename" r).bind fun filename r =>
      (ergStr minor fuel "name" r).bind fun name r =>
      (if minor ≥ 11 then ergStr minor fuel "qualname" r else .ok name r).bind fun qualname r =>
      (eU32 r).bind fun firstlineno r =>
      (eBytes r).bind fun lnotab r =>
      (if minor ≥ 11 then eBytes r else .ok [] r).bind fun exctable r =>
        .ok (.mk { argcount, posonly, kwonly, nlocals, stacksize, flags, code, names, varnames := locals.1, freevars := locals.2.1,
                   cellvars := locals.2.2, filename, name, qualname, firstlineno, lnotab, exctable } consts) r
    | _ => .crash "ref_t"     -- `DeserializeError::type_error(field, &Type::Str, other.ref_t())`: `ValueObj::ref_t` panics
/-- `deserialize_str_vec(field)` -/
def ergStrVec (minor : Nat) : Nat → String → Bytes → R (List (List Nat))
  | 0, _, _ => .fuel
  | fuel + 1, field, bs =>
    (ergConst minor fuel bs).bind fun v r =>
      match v with
      | .list vs =>
        match strsOf vs with
        | some ss => .ok ss r
        | none => .crash "ref_t"   -- `try_into_str`: the type error is built with `other.ref_t()`, which panics
      | _ => .err ("type_error " ++ field)
/-- `deserialize_str(field)` -/
def ergStr (minor : Nat) : Nat → String → Bytes → R (List Nat)
  | 0, _, _ => .fuel
  | fuel + 1, field, bs =>
    (ergConst minor fuel bs).bind fun v r =>
      match v with
      | .str s => .ok s r
      | _ => .crash "ref_t"
end

/-- `CodeObj::from_bytes(v, python_ver)` -/
def ergCode (minor : Nat) (bs : Bytes) : R Code :=
  (pop bs).bind fun t rest => if t ≠ 227 then .crash "not-code" else ergCodeBody minor (2 * bs.length + 16) rest

/-- `CodeObj::from_pyc` on the file contents: the result and the version found in the header -/
def ergPyc (bs : Bytes) : R (Code × Nat) :=
  (drain 4 bs).bind fun m r =>
    match verOfMagic (m.getD 0 0 + 256 * m.getD 1 0) with
    | none => .crash "magic"
    | some minor =>
      (eU32 r).bind fun _ r => (eU32 r).bind fun _ r => (eU32 r).bind fun _ r =>
      (ergCode minor r).bind fun c r => .ok (c, minor) r

/-! ### what the reader reconstructs from a file the writer wrote (it keeps neither Nat/Int nor List/Tuple apart, and some
fields are not stored for some versions) -/

mutual
def Val.norm (minor : Nat) : Val → Val
  | .nat n => if n ≤ 2147483647 then .int n else .nat n
  | .list vs => .list (vs.norm minor)
  | .tuple vs => .list (vs.norm minor)
  | .code c => .code (c.norm minor)
  | v => v
def ValList.norm (minor : Nat) : ValList → ValList
  | .nil => .nil
  | .cons v vs => .cons (v.norm minor) (vs.norm minor)
def Code.norm (minor : Nat) : Code → Code
  | .mk m consts =>
    .mk { m with posonly := if minor ≥ 8 then m.posonly else 0, nlocals := if minor ≥ 11 then 0 else m.nlocals,
                 qualname := if minor ≥ 11 then m.qualname else m.name, exctable := if minor ≥ 11 then m.exctable else [],
                 varnames := if minor ≥ 11 then m.varnames.filter (fun n => !(m.freevars.contains n) && !(m.cellvars.contains n))
                             else m.varnames }
        (consts.norm minor)
end

end ErgVerif.Marshal
