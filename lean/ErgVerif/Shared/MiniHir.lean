import ErgVerif.Util.Sexp
/-!
# mini-HIR — the projection of `erg_compiler::hir::Expr` shared by C22, C23 and C12 (DESIGN Appendix A.2)

Writer: `harness/src/minihir.rs` (`Proj::expr`), which documents the S-expression grammar. The projection keeps, for every
node, exactly the facts the three transcribed passes read from the HIR (`effectcheck.rs`, `ownercheck.rs`, `optimize.rs`):
types appear only through the predicates the code evaluates on them (`is_procedure`, `is_mut_type`, `is_ref`, `is_subr`,
`args_ownership`). Each model ignores the fields it does not need.

Containers inside the recursive type are `mutual` inductives (`ExprList`, `ParamList`, `KwList`) so that walkers are structurally
recursive and reduce in the kernel (`decide`). The reader is total (fuel = length of the input is always enough: every
recursive call consumes at least one character of the printed form).
-/
namespace ErgVerif.MiniHir

abbrev Name := List Char

structure Loc where
  line : Nat
  col : Nat
  deriving DecidableEq, Repr, Inhabited

inductive Own where
  | owned | ref | refMut
  deriving DecidableEq, Repr

/-- facts about an accessor: `var_info().is_parameter()`, `ref_t().is_mut_type()`, `root_obj().ref_t().is_ref()`,
    `var_info().def_namespace()` -/
structure AccInfo where
  isParam : Bool
  mutTy : Bool
  rootRef : Bool
  defNs : Name
  deriving DecidableEq, Repr

/-- `ArgsOwnership` -/
structure OwnsInfo where
  nd : List (Option Name × Own)
  var : Option (Option Name × Own)
  d : List (Name × Own)
  kwvar : Option (Option Name × Own)
  deriving DecidableEq, Repr

/-- `-` (signature type is not a subroutine), `todo` (`args_ownership` hit its `todo!`), or the ownerships -/
inductive Owns where
  | notSubr | todo | some (o : OwnsInfo)
  deriving DecidableEq, Repr

structure CallInfo where
  attr : Option Name
  /-- `call.obj.t().is_procedure()` -/
  objProc : Bool
  /-- `call.attr_name.is_procedural()` -/
  attrProc : Bool
  /-- `call.ref_t().is_procedure()`: the *result* type is a procedure -/
  resProc : Bool
  sigSubr : Bool
  method : Bool
  owns : Owns
  deriving DecidableEq, Repr

structure DefInfo where
  name : Name
  pub : Bool
  subr : Bool
  proc : Bool
  const : Bool
  glob : Bool
  discarded : Bool
  /-- the last chunk of the body has a procedure type (`echo = print!`) -/
  lastProc : Bool
  /-- number of referrers in the module index (`none`: no entry / index not consulted) -/
  refs : Option Nat
  deriving DecidableEq, Repr

structure LamInfo where
  id : Nat
  proc : Bool
  deriving DecidableEq, Repr

inductive PKind where
  | nd | var | d | kwvar
  deriving DecidableEq, Repr

structure ParamInfo where
  kind : PKind
  loc : Loc
  name : Option Name
  /-- the pattern is `ParamPattern::VarName` -/
  varName : Bool
  /-- `vi.t.is_procedure()` -/
  tyProc : Bool
  /-- the name ends with `!` -/
  bang : Bool
  deriving DecidableEq, Repr

inductive CollKind where
  | list | listLen | listComp | tuple | set | setLen | dict
  deriving DecidableEq, Repr

inductive BlkKind where
  | code | compound | dummy
  deriving DecidableEq, Repr

mutual
inductive Expr where
  | lit (loc : Loc)
  | ident (loc : Loc) (name : Name) (ai : AccInfo)
  | attr (loc : Loc) (obj : Expr) (name : Name) (ai : AccInfo)
  | bin (loc : Loc) (op : Name) (l r : Expr)
  | un (loc : Loc) (op : Name) (e : Expr)
  | call (loc : Loc) (ci : CallInfo) (obj : Expr) (pos var : ExprList) (kw : KwList) (kwvar : ExprList)
  | defn (loc : Loc) (di : DefInfo) (params : ParamList) (body : ExprList)
  | lambda (loc : Loc) (li : LamInfo) (params : ParamList) (body : ExprList)
  | coll (k : CollKind) (es : ExprList)
  | record (loc : Loc) (attrs : ExprList)
  | tasc (e : Expr)
  | classDef (loc : Loc) (name : Name) (pub : Bool) (reqSup methods : ExprList)
  | patchDef (loc : Loc) (base : Expr) (methods : ExprList)
  | redef (loc : Loc) (attr : Expr) (block : ExprList)
  | blk (k : BlkKind) (es : ExprList)
  | import
inductive ExprList where
  | nil
  | cons (e : Expr) (es : ExprList)
inductive Param where
  | mk (pi : ParamInfo) (default : ExprList)
inductive ParamList where
  | nil
  | cons (p : Param) (ps : ParamList)
inductive KwList where
  | nil
  | cons (key : Name) (e : Expr) (rest : KwList)
end

def ExprList.len : ExprList → Nat
  | .nil => 0
  | .cons _ es => es.len + 1

def ExprList.ofList : List Expr → ExprList
  | [] => .nil
  | e :: es => .cons e (ExprList.ofList es)

def ParamList.ofList : List Param → ParamList
  | [] => .nil
  | p :: ps => .cons p (ParamList.ofList ps)

def KwList.ofList : List (Name × Expr) → KwList
  | [] => .nil
  | (k, e) :: r => .cons k e (KwList.ofList r)

/-! ## reader -/

open ErgVerif (Sexp)

def hasFlag (fs : List Sexp) (f : String) : Bool :=
  fs.any (fun s => match s with | .atom a => a == f | _ => false)

def readLoc : Sexp → Sexp → Option Loc
  | .atom l, .atom c => match l.toNat?, c.toNat? with
    | some l, some c => some ⟨l, c⟩
    | _, _ => none
  | _, _ => none

def readOwn : Sexp → Option Own
  | .atom "owned" => some .owned
  | .atom "ref" => some .ref
  | .atom "refmut" => some .refMut
  | _ => none

def readOptName : Sexp → Option (Option Name)
  | .atom "-" => some none
  | .str s => some (some s)
  | _ => none

def readNamedOwn : Sexp → Option (Option Name × Own)
  | .list [n, o] => match readOptName n, readOwn o with
    | some n, some o => some (n, o)
    | _, _ => none
  | _ => none

def readKeyOwn : Sexp → Option (Name × Own)
  | .list [.str n, o] => (readOwn o).map (fun o => (n, o))
  | _ => none

def readOptNamedOwn : List Sexp → Option (Option (Option Name × Own))
  | [] => some none
  | [x] => (readNamedOwn x).map some
  | _ => none

def readOwns : Sexp → Option Owns
  | .atom "-" => some .notSubr
  | .atom "todo" => some .todo
  | .list [.atom "owns", .list (.atom "nd" :: nd), .list (.atom "var" :: var), .list (.atom "d" :: d), .list (.atom "kwvar" :: kwvar)] =>
    match nd.mapM readNamedOwn, readOptNamedOwn var, d.mapM readKeyOwn, readOptNamedOwn kwvar with
    | some nd, some var, some d, some kwvar => some (.some ⟨nd, var, d, kwvar⟩)
    | _, _, _, _ => none
  | _ => none

def readAcc (fs : List Sexp) (ns : Name) : AccInfo :=
  ⟨hasFlag fs "param", hasFlag fs "mut", hasFlag fs "rootref", ns⟩

def readCollKind : String → Option CollKind
  | "list" => some .list | "listlen" => some .listLen | "listcomp" => some .listComp | "tuple" => some .tuple
  | "set" => some .set | "setlen" => some .setLen | "dict" => some .dict
  | _ => none

def readBlkKind : String → Option BlkKind
  | "code" => some .code | "compound" => some .compound | "dummy" => some .dummy
  | _ => none

def readPKind : String → Option PKind
  | "nd" => some .nd | "var" => some .var | "d" => some .d | "kwvar" => some .kwvar
  | _ => none

mutual
def readExpr : Nat → Sexp → Option Expr
  | 0, _ => none
  | fuel + 1, s =>
    match s with
    | .list [.atom "lit", l, c] => (readLoc l c).map .lit
    | .list [.atom "ident", l, c, .str name, .list fs, .str ns] =>
      (readLoc l c).map (fun loc => .ident loc name (readAcc fs ns))
    | .list [.atom "attr", l, c, obj, .str name, .list fs, .str ns] =>
      match readLoc l c, readExpr fuel obj with
      | some loc, some obj => some (.attr loc obj name (readAcc fs ns))
      | _, _ => none
    | .list [.atom "bin", l, c, .atom op, a, b] =>
      match readLoc l c, readExpr fuel a, readExpr fuel b with
      | some loc, some a, some b => some (.bin loc op.toList a b)
      | _, _, _ => none
    | .list [.atom "un", l, c, .atom op, a] =>
      match readLoc l c, readExpr fuel a with
      | some loc, some a => some (.un loc op.toList a)
      | _, _ => none
    | .list [.atom "call", l, c, attr, .list fs, owns, obj, .list (.atom "pos" :: pos), .list (.atom "var" :: var),
             .list (.atom "kw" :: kw), .list (.atom "kwvar" :: kwvar)] =>
      match readLoc l c, readOptName attr, readOwns owns, readExpr fuel obj, readExprs fuel pos, readExprs fuel var,
            readKws fuel kw, readExprs fuel kwvar with
      | some loc, some attr, some owns, some obj, some pos, some var, some kw, some kwvar =>
        some (.call loc ⟨attr, hasFlag fs "objproc", hasFlag fs "attrproc", hasFlag fs "resproc", hasFlag fs "sigsubr",
                         hasFlag fs "method", owns⟩ obj pos var kw kwvar)
      | _, _, _, _, _, _, _, _ => none
    | .list [.atom "def", l, c, .str name, .list fs, refs, .list (.atom "params" :: ps), .list (.atom "block" :: body)] =>
      let refs : Option (Option Nat) := match refs with
        | .atom "none" => some none
        | .atom n => n.toNat?.map some
        | _ => none
      match readLoc l c, refs, readParams fuel ps, readExprs fuel body with
      | some loc, some refs, some ps, some body =>
        some (.defn loc ⟨name, hasFlag fs "pub", hasFlag fs "subr", hasFlag fs "proc", hasFlag fs "const", hasFlag fs "glob",
                        hasFlag fs "discarded", hasFlag fs "lastproc", refs⟩ ps body)
      | _, _, _, _ => none
    | .list [.atom "lambda", l, c, .atom id, .list fs, .list (.atom "params" :: ps), .list (.atom "block" :: body)] =>
      match readLoc l c, id.toNat?, readParams fuel ps, readExprs fuel body with
      | some loc, some id, some ps, some body => some (.lambda loc ⟨id, hasFlag fs "proc"⟩ ps body)
      | _, _, _, _ => none
    | .list (.atom "record" :: l :: c :: attrs) =>
      match readLoc l c, readExprs fuel attrs with
      | some loc, some attrs => some (.record loc attrs)
      | _, _ => none
    | .list [.atom "tasc", e] => (readExpr fuel e).map .tasc
    | .list [.atom "classdef", l, c, .str name, .list fs, .list (.atom "reqsup" :: rs), .list (.atom "methods" :: ms)] =>
      match readLoc l c, readExprs fuel rs, readExprs fuel ms with
      | some loc, some rs, some ms => some (.classDef loc name (hasFlag fs "pub") rs ms)
      | _, _, _ => none
    | .list [.atom "patchdef", l, c, base, .list (.atom "methods" :: ms)] =>
      match readLoc l c, readExpr fuel base, readExprs fuel ms with
      | some loc, some base, some ms => some (.patchDef loc base ms)
      | _, _, _ => none
    | .list [.atom "redef", l, c, attr, .list (.atom "block" :: body)] =>
      match readLoc l c, readExpr fuel attr, readExprs fuel body with
      | some loc, some attr, some body => some (.redef loc attr body)
      | _, _, _ => none
    | .list [.atom "import"] => some .import
    | .list (.atom k :: es) =>
      match readCollKind k, readBlkKind k with
      | some ck, _ => (readExprs fuel es).map (.coll ck)
      | none, some bk => (readExprs fuel es).map (.blk bk)
      | none, none => none
    | _ => none
def readExprs : Nat → List Sexp → Option ExprList
  | 0, _ => none
  | _ + 1, [] => some .nil
  | fuel + 1, x :: xs =>
    match readExpr fuel x, readExprs fuel xs with
    | some e, some es => some (.cons e es)
    | _, _ => none
def readKws : Nat → List Sexp → Option KwList
  | 0, _ => none
  | _ + 1, [] => some .nil
  | fuel + 1, .list [.str k, x] :: xs =>
    match readExpr fuel x, readKws fuel xs with
    | some e, some es => some (.cons k e es)
    | _, _ => none
  | _ + 1, _ :: _ => none
def readParams : Nat → List Sexp → Option ParamList
  | 0, _ => none
  | _ + 1, [] => some .nil
  | fuel + 1, .list [.atom "param", .atom kind, l, c, name, .list fs, .list (.atom "default" :: d)] :: xs =>
    match readPKind kind, readLoc l c, readOptName name, readExprs fuel d, readParams fuel xs with
    | some kind, some loc, some name, some d, some ps =>
      some (.cons (.mk ⟨kind, loc, name, hasFlag fs "varname", hasFlag fs "typroc", hasFlag fs "bang"⟩ d) ps)
    | _, _, _, _, _ => none
  | _ + 1, _ :: _ => none
end

/-- `(module e…)` -/
def readModule (fuel : Nat) : Sexp → Option ExprList
  | .list (.atom "module" :: es) => readExprs fuel es
  | _ => none

/-- find the `(module …)` expression among the top-level S-expressions of an input column `(src "…") (module …)` -/
def findModule : List Sexp → Option Sexp
  | [] => none
  | (.list (.atom "module" :: es)) :: _ => some (.list (.atom "module" :: es))
  | _ :: rest => findModule rest

/-! ## printing of results shared by the drivers -/

def locStr (l : Loc) : String := toString l.line ++ " " ++ toString l.col

/-- insertion sort on keys (results are printed as sorted lists; the implementations' order is not part of the tie) -/
def insertBy {α : Type} (lt : α → α → Bool) (x : α) : List α → List α
  | [] => [x]
  | y :: ys => if lt x y then x :: y :: ys else y :: insertBy lt x ys

def sortBy {α : Type} (lt : α → α → Bool) (xs : List α) : List α := xs.foldr (insertBy lt) []

end ErgVerif.MiniHir
