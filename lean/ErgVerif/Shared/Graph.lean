/-
Shared development `Graph` (import-free; used by C21, later C20/C19).

Transcribes (file + function):
  crates/erg_common/tsort.rs            Node, Node::push_dep, reorder_by_key, dfs, tsort, TopoSortErrorKind
  crates/erg_compiler/module/graph.rs   ModuleGraph { graph: Vec<Node>, index: Dict<path, usize> }:
      new, get_node, get_mut_node, depends_on, deep_depends_on / deep_depends_on_, children, parents,
      ancestors / ancestors_, add_node_if_none, inc_ref, sorted / sort, remove / remove_node, rename_path,
      (iter / entries = the id column of `graph`)
  as of the `fix:` commits of C21 (rename_path keeps `index` consistent, sort keeps the graph on error);
  the pinned-commit versions are kept as `legacyRenamePath` and `legacySort`.

Modelling conventions
  * `Path`: a module path is an opaque key compared by equality (`NormalizedPathBuf: Eq + Hash`); here `Nat`.
    `is_dir()` is false for every path (the correspondence uses non-existent files), so the `is_dir` early
    returns / DEBUG panics of add_node_if_none / inc_ref are outside the model.
  * `Set<Path>` (FxHashSet) is a duplicate-free `List Path`; its *iteration order* is the list order. Nothing is
    proved by appeal to a particular order: every theorem holds for all orders, and the correspondence driver
    re-orders the model's lists to the order the real hash sets iterate in (read from the implementation's state
    dump) before each step, so `tsort`'s exact output order is compared too.
  * `Dict<Path, usize>` is an association list (first match wins); it is only ever read by key (`get`), so its
    order is unobservable (`values_mut` in `remove` applies the same function to every value).
  * every panic site is an explicit `Err.crash` (`self.graph[i]` out of range, `Vec::remove` out of range,
    `unreachable!` in inc_ref, `.unwrap()` in reorder_by_key); recursion gets fuel with `Err.fuel` on exhaustion
    (theorems show neither ever happens from states reachable through the API).
  * Rust's `sort_by_key` is a stable sort; `List.mergeSort` is stable too (a stable sort's result is unique).
-/
namespace ErgVerif.Graph

abbrev Path := Nat

/-- `TopoSortErrorKind` + the two model-only outcomes -/
inductive Err where
  | cycle        -- TopoSortErrorKind::CyclicReference
  | keyNotFound  -- TopoSortErrorKind::KeyNotFound
  | fuel         -- model only: recursion fuel exhausted (proved unreachable)
  | crash        -- a Rust panic site
  deriving DecidableEq, Repr, Inhabited

instance {ε α : Type} [DecidableEq ε] [DecidableEq α] : DecidableEq (Except ε α)
  | .ok a, .ok b => if h : a = b then isTrue (by rw [h]) else isFalse (fun h' => h (by cases h'; rfl))
  | .error a, .error b => if h : a = b then isTrue (by rw [h]) else isFalse (fun h' => h (by cases h'; rfl))
  | .ok _, .error _ => isFalse (fun h => by cases h)
  | .error _, .ok _ => isFalse (fun h => by cases h)

/-- `tsort::Node<T, ()>` -/
structure Node where
  id : Path
  deps : List Path
  deriving DecidableEq, Repr, Inhabited

/-! ### `Set<Path>` -/

/-- `Set::insert` -/
def setInsert (l : List Path) (x : Path) : List Path := if x ∈ l then l else l ++ [x]
/-- `Set::remove` / `retain(|p| p != x)` -/
def setRemove (l : List Path) (x : Path) : List Path := l.filter (fun y => y != x)

/-! ### `Dict<Path, usize>` -/

abbrev Index := List (Path × Nat)
/-- `Dict::get` -/
def dget (ix : Index) (p : Path) : Option Nat := (ix.find? (fun kv => kv.1 == p)).map (·.2)
/-- `Dict::remove` -/
def dremove (ix : Index) (p : Path) : Index := ix.filter (fun kv => kv.1 != p)
/-- `Dict::insert` (overwrites an existing key) -/
def dinsert (ix : Index) (p : Path) (i : Nat) : Index :=
  if (dget ix p).isSome then ix.map (fun kv => if kv.1 == p then (p, i) else kv) else ix ++ [(p, i)]

/-! ### tsort.rs -/

/-- the `for node_id in vertex.depends_on.iter()` loop of `dfs`, `f` = the recursive call -/
def dfsLoop (f : Path → List Path × List Path → Except Err (List Path × List Path)) :
    List Path → List Path × List Path → Except Err (List Path × List Path)
  | [], st => .ok st
  | d :: ds, (used, idx) =>
    if used.contains d && !idx.contains d then .error .cycle
    else if !used.contains d then
      match f d (used, idx) with
      | .error e => .error e
      | .ok st' => dfsLoop f ds st'
    else dfsLoop f ds (used, idx)

/-- `tsort::dfs(g, v, used, idx)`; state = (used, idx) -/
def dfs (g : List Node) : Nat → Path → List Path × List Path → Except Err (List Path × List Path)
  | 0, _, _ => .error .fuel
  | fuel + 1, v, (used, idx) =>
    match g.find? (fun n => n.id == v) with
    | none => .error .keyNotFound
    | some n =>
      match dfsLoop (dfs g fuel) n.deps (setInsert used v, idx) with
      | .error e => .error e
      | .ok (used', idx') => .ok (used', idx' ++ [v])

/-- the `for v in g.iter()` loop of `tsort` -/
def tsortLoop (g : List Node) (fuel : Nat) :
    List Node → List Path × List Path → Except Err (List Path × List Path)
  | [], st => .ok st
  | v :: vs, (used, idx) =>
    if used.contains v.id then tsortLoop g fuel vs (used, idx)
    else
      match dfs g fuel v.id (used, idx) with
      | .error e => .error e
      | .ok st' => tsortLoop g fuel vs st'

/-- `reorder_by_key`: stable sort by position in `idx`; `.position(..).unwrap()` panics on a missing key -/
def reorderByKey (g : List Node) (idx : List Path) : Except Err (List Node) :=
  if g.all (fun n => idx.contains n.id) then
    .ok (g.mergeSort (fun a b => decide (idx.idxOf a.id ≤ idx.idxOf b.id)))
  else .error .crash

/-- `tsort::tsort` (recursion depth of `dfs` ≤ number of nodes, so fuel `|g| + 1` never runs out) -/
def tsort (g : List Node) : Except Err (List Node) :=
  match tsortLoop g (g.length + 1) g ([], []) with
  | .error e => .error e
  | .ok (_, idx) => reorderByKey g idx

/-! ### graph.rs -/

structure MG where
  graph : List Node
  index : Index
  deriving DecidableEq, Repr, Inhabited

namespace MG

/-- `ModuleGraph::new` -/
def new : MG := ⟨[], []⟩

/-- `get_node` / `get_mut_node`: `self.index.get(path).map(|&i| &self.graph[i])` -/
def getNode (s : MG) (p : Path) : Except Err (Option Node) :=
  match dget s.index p with
  | none => .ok none
  | some i =>
    match s.graph[i]? with
    | some n => .ok (some n)
    | none => .error .crash

/-- `depends_on` -/
def dependsOn (s : MG) (p t : Path) : Except Err Bool :=
  match s.getNode p with
  | .error e => .error e
  | .ok none => .ok false
  | .ok (some n) => .ok (n.deps.contains t)

/-- `n.depends_on.iter().any(|p| self.deep_depends_on_(p, target, visited))` (short-circuits) -/
def anyLoop (f : Path → List Path → Except Err (Bool × List Path)) :
    List Path → List Path → Except Err (Bool × List Path)
  | [], vis => .ok (false, vis)
  | d :: ds, vis =>
    match f d vis with
    | .error e => .error e
    | .ok (true, vis') => .ok (true, vis')
    | .ok (false, vis') => anyLoop f ds vis'

/-- `deep_depends_on_(path, target, visited)`; returns the answer and the visited set -/
def deepAux (s : MG) (t : Path) : Nat → Path → List Path → Except Err (Bool × List Path)
  | 0, _, _ => .error .fuel
  | fuel + 1, p, vis =>
    if vis.contains p then .ok (false, vis)
    else
      match s.getNode p with
      | .error e => .error e
      | .ok none => .ok (false, p :: vis)
      | .ok (some n) =>
        if n.deps.contains t then .ok (true, p :: vis)
        else anyLoop (deepAux s t fuel) n.deps (p :: vis)

/-- `deep_depends_on` -/
def deepDependsOn (s : MG) (p t : Path) : Except Err Bool :=
  match deepAux s t (s.graph.length + 1) p [] with
  | .error e => .error e
  | .ok (b, _) => .ok b

/-- `children`: ids of the nodes whose `depends_on` contains `path`, in vector order -/
def children (s : MG) (p : Path) : List Path :=
  (s.graph.filter (fun n => n.deps.contains p)).map (·.id)

/-- `parents` -/
def parents (s : MG) (p : Path) : Except Err (Option (List Path)) :=
  match s.getNode p with
  | .error e => .error e
  | .ok none => .ok none
  | .ok (some n) => .ok (some n.deps)

/-- the `for parent in parents.iter()` loop of `ancestors_`; state = (ancestors, visited) -/
def ancLoop (f : Path → List Path × List Path → Except Err (List Path × List Path)) :
    List Path → List Path × List Path → Except Err (List Path × List Path)
  | [], st => .ok st
  | d :: ds, (anc, vis) =>
    if anc.contains d then ancLoop f ds (anc, vis)
    else
      match f d (anc ++ [d], vis) with
      | .error e => .error e
      | .ok st' => ancLoop f ds st'

/-- `ancestors_(path, ancestors, visited)` -/
def ancAux (s : MG) : Nat → Path → List Path × List Path → Except Err (List Path × List Path)
  | 0, _, _ => .error .fuel
  | fuel + 1, p, (anc, vis) =>
    if vis.contains p then .ok (anc, vis)
    else
      match s.parents p with
      | .error e => .error e
      | .ok none => .ok (anc, p :: vis)
      | .ok (some deps) => ancLoop (ancAux s fuel) deps (anc, p :: vis)

/-- `ancestors` -/
def ancestors (s : MG) (p : Path) : Except Err (List Path) :=
  match ancAux s (s.graph.length + 1) p ([], []) with
  | .error e => .error e
  | .ok (anc, _) => .ok anc

/-- `iter().map(|n| n.id)` / `SharedModuleGraph::entries` -/
def entries (s : MG) : List Path := s.graph.map (·.id)

/-- `add_node_if_none` (the pushed node gets index `self.graph.len() - 1` = the old length) -/
def addNodeIfNone (s : MG) (p : Path) : MG :=
  match dget s.index p with
  | some _ => s
  | none => { graph := s.graph ++ [⟨p, []⟩], index := dinsert s.index p s.graph.length }

/-- `inc_ref(referrer, depends_on)`: `true` = `Ok(())`, `false` = `Err(IncRefError::CycleDetected)` -/
def incRef (s : MG) (a b : Path) : Except Err (MG × Bool) :=
  let s1 := s.addNodeIfNone a
  if a = b then .ok (s1, true)
  else
    match s1.deepDependsOn b a with
    | .error e => .error e
    | .ok true => .ok (s1, false)
    | .ok false =>
      match dget s1.index a with
      | none => .error .crash                       -- unreachable!("node not found")
      | some i =>
        match s1.graph[i]? with
        | none => .error .crash                     -- &mut self.graph[i]
        | some n => .ok ({ s1 with graph := s1.graph.set i { n with deps := setInsert n.deps b } }, true)

/-- `sorted`: `tsort(self.graph)` and a rebuilt index -/
def sorted (s : MG) : Except Err MG :=
  match tsort s.graph with
  | .error e => .error e
  | .ok g => .ok { graph := g, index := (g.map (·.id)).zipIdx.foldl (fun ix kv => dinsert ix kv.1 kv.2) [] }

/-- `sort` after the fix (`*self = self.clone().sorted()?`): an error leaves the graph as it was -/
def sort (s : MG) : MG × Except Err Unit :=
  match s.sorted with
  | .error e => (s, .error e)
  | .ok s' => (s', .ok ())

/-- `sort` at the pinned commit (`*self = std::mem::take(self).sorted()?`): an error leaves the *default* graph -/
def legacySort (s : MG) : MG × Except Err Unit :=
  match s.sorted with
  | .error e => (MG.new, .error e)
  | .ok s' => (s', .ok ())

/-- `remove_node`: `graph.remove(i)`, `index.remove(path)`, shift the larger indices -/
def removeNode (s : MG) (p : Path) : Except Err MG :=
  match dget s.index p with
  | none => .ok s
  | some i =>
    if i < s.graph.length then
      .ok { graph := s.graph.eraseIdx i,
            index := (dremove s.index p).map (fun kv => if kv.2 > i then (kv.1, kv.2 - 1) else kv) }
    else .error .crash                              -- Vec::remove panics

/-- `remove`: `remove_node`, then `retain(|p| p != path)` on every node -/
def remove (s : MG) (p : Path) : Except Err MG :=
  match s.removeNode p with
  | .error e => .error e
  | .ok s1 => .ok { s1 with graph := s1.graph.map (fun n => { n with deps := setRemove n.deps p }) }

/-- `rename_path` after the fix -/
def renamePath (s : MG) (o n : Path) : Except Err MG :=
  if o = n then .ok s
  else
    let r1 : Except Err MG :=
      if (dget s.index o).isSome then                -- self.index.contains_key(old)
        match s.removeNode n with
        | .error e => .error e
        | .ok s1 =>
          match dget s1.index o with                 -- if let Some(i) = self.index.remove(old)
          | none => .ok s1
          | some i =>
            match s1.graph[i]? with
            | none => .error .crash                  -- self.graph[i].id = …
            | some nd => .ok { graph := s1.graph.set i { nd with id := n },
                               index := dinsert (dremove s1.index o) n i }
      else .ok s
    match r1 with
    | .error e => .error e
    | .ok s2 =>
      .ok { s2 with graph := s2.graph.map (fun nd =>
              if nd.deps.contains o then { nd with deps := setInsert (setRemove nd.deps o) n } else nd) }

/-- `rename_path` at the pinned commit: ids and edges are renamed, `index` is left alone (finding #9), a
    rename onto itself deletes the edges, a rename onto a registered path duplicates the id -/
def legacyRenamePath (s : MG) (o n : Path) : MG :=
  { s with graph := s.graph.map (fun nd =>
      { id := if nd.id = o then n else nd.id,
        deps := setRemove (if nd.deps.contains o then setInsert nd.deps n else nd.deps) o }) }

end MG
end ErgVerif.Graph
