import ErgVerif.Shared.Pred
/-!
Lemmas about the shared predicate model (core Lean only).

Part 1 (C32): the smart constructors denote `∧ ∨ ¬`.
Part 2 (C03): `reduce_preds` preserves the meaning of a conjunction / disjunction for every iteration order, and
`is_super_pred_of` (repaired arm, or arm off; exact constant comparison) is sound; the exact implication oracle.
-/
namespace ErgVerif

/-! ## Part 1: constructors -/

theorem any_insert (p : Pred) (i : Int) : ∀ ps : PredList, (PredList.insert p ps).any i = (p.sat i || ps.any i)
  | .nil => by simp [PredList.insert, PredList.any]
  | .cons q qs => by
    unfold PredList.insert
    split
    · rename_i h; subst h
      cases hq : q.sat i <;> simp [PredList.any, hq]
    · split
      · simp [PredList.any]
      · simp only [PredList.any, any_insert p i qs]
        cases p.sat i <;> cases q.sat i <;> simp

theorem any_union (b : PredList) (i : Int) : ∀ a : PredList, (a.union b).any i = (a.any i || b.any i)
  | .nil => by simp [PredList.union, PredList.any]
  | .cons p ps => by simp [PredList.union, any_insert, any_union b i ps, PredList.any, Bool.or_assoc]

theorem any_ofList2 (p q : Pred) (i : Int) : (PredList.ofList [p, q]).any i = (p.sat i || q.sat i) := by
  simp [PredList.ofList, any_insert, PredList.any]

theorem sat_mkAnd (p q : Pred) (i : Int) : (Pred.mkAnd p q).sat i = (p.sat i && q.sat i) := by
  fun_induction Pred.mkAnd p q <;> simp_all [Pred.sat]
  all_goals (try (cases h : Pred.sat _ i <;> simp_all [Bool.and_comm]))

theorem sat_mkOr (p q : Pred) (i : Int) : (Pred.mkOr p q).sat i = (p.sat i || q.sat i) := by
  unfold Pred.mkOr
  split <;> simp_all [Pred.sat, any_union, any_insert, Bool.or_comm]
  all_goals (try split) <;> simp_all [Pred.sat, any_ofList2]
  all_goals (try omega)

theorem sat_mkGt (c i : Int) : (Pred.mkGt c).sat i = decide (c < i) := by
  rw [Pred.mkGt, sat_mkAnd]; simp only [Pred.sat]; rw [Bool.eq_iff_iff]; simp; omega

theorem sat_mkLt (c i : Int) : (Pred.mkLt c).sat i = decide (i < c) := by
  rw [Pred.mkLt, sat_mkAnd]; simp only [Pred.sat]; rw [Bool.eq_iff_iff]; simp; omega

theorem sat_invert (p : Pred) (i : Int) : (Pred.invert p).sat i = !p.sat i := by
  unfold Pred.invert
  split <;> simp [Pred.sat, sat_mkGt, sat_mkLt, bne]
  all_goals (rw [Bool.eq_iff_iff]; simp; try omega)

mutual
theorem sat_build : ∀ (e : PExpr) (i : Int), e.build.sat i = e.den i
  | .val _, _ | .eq _, _ | .ge _, _ | .le _, _ | .ne _, _ => by simp [PExpr.build, PExpr.den, Pred.sat]
  | .gt c, i => by simp [PExpr.build, PExpr.den, sat_mkGt]
  | .lt c, i => by simp [PExpr.build, PExpr.den, sat_mkLt]
  | .and a b, i => by simp [PExpr.build, PExpr.den, sat_mkAnd, sat_build a i, sat_build b i]
  | .or a b, i => by simp [PExpr.build, PExpr.den, sat_mkOr, sat_build a i, sat_build b i]
  | .not a, i => by simp [PExpr.build, PExpr.den, sat_invert, sat_build a i]
  | .rand a b, i => by simp [PExpr.build, PExpr.den, Pred.sat, sat_build a i, sat_build b i]
  | .ror es, i => by simp [PExpr.build, PExpr.den, Pred.sat, any_buildList es i]
  | .rnot a, i => by simp [PExpr.build, PExpr.den, Pred.sat, sat_build a i]
theorem any_buildList : ∀ (es : PExprList) (i : Int), es.build.any i = es.den i
  | .nil, _ => by simp [PExprList.build, PExprList.den, PredList.any]
  | .cons e es, i => by simp [PExprList.build, PExprList.den, any_insert, sat_build e i, any_buildList es i]
end

end ErgVerif

namespace ErgVerif

/-! ## the exact implication oracle -/

/-- `i` and `j` lie on the same side of every constant in `cs` -/
def SameSide (cs : List Int) (i j : Int) : Prop := ∀ c ∈ cs, (i < c ↔ j < c) ∧ (i = c ↔ j = c)

theorem SameSide.mono {cs ds : List Int} {i j : Int} (h : SameSide cs i j) (hsub : ∀ c ∈ ds, c ∈ cs) : SameSide ds i j :=
  fun c hc => h c (hsub c hc)

mutual
theorem sat_sameSide : ∀ (p : Pred) (i j : Int), SameSide p.consts i j → p.sat i = p.sat j
  | .val _, _, _, _ => by simp [Pred.sat]
  | .eq c, i, j, h => by
    have := h c (by simp [Pred.consts]); simp only [Pred.sat]; rw [Bool.eq_iff_iff]; simp; omega
  | .ge c, i, j, h => by
    have := h c (by simp [Pred.consts]); simp only [Pred.sat]; rw [Bool.eq_iff_iff]; simp; omega
  | .le c, i, j, h => by
    have := h c (by simp [Pred.consts]); simp only [Pred.sat]; rw [Bool.eq_iff_iff]; simp; omega
  | .ne c, i, j, h => by
    have := h c (by simp [Pred.consts]); simp only [Pred.sat]; rw [Bool.eq_iff_iff]; simp; omega
  | .or ps, i, j, h => by simp only [Pred.sat]; exact any_sameSide ps i j h
  | .and p q, i, j, h => by
    simp only [Pred.sat]
    rw [sat_sameSide p i j (h.mono (by simp [Pred.consts]; intro c hc; exact Or.inl hc)),
        sat_sameSide q i j (h.mono (by simp [Pred.consts]; intro c hc; exact Or.inr hc))]
  | .not p, i, j, h => by simp only [Pred.sat]; rw [sat_sameSide p i j h]
theorem any_sameSide : ∀ (ps : PredList) (i j : Int), SameSide ps.consts i j → ps.any i = ps.any j
  | .nil, _, _, _ => by simp [PredList.any]
  | .cons p ps, i, j, h => by
    simp only [PredList.any]
    rw [sat_sameSide p i j (h.mono (by simp [PredList.consts]; intro c hc; exact Or.inl hc)),
        any_sameSide ps i j (h.mono (by simp [PredList.consts]; intro c hc; exact Or.inr hc))]
end

theorem exists_max : ∀ (l : List Int), l ≠ [] → ∃ m ∈ l, ∀ x ∈ l, x ≤ m
  | [], h => absurd rfl h
  | [a], _ => ⟨a, by simp, by simp⟩
  | a :: b :: l, _ => by
    obtain ⟨m, hm, hmax⟩ := exists_max (b :: l) (by simp)
    by_cases h : a ≤ m
    · refine ⟨m, List.mem_cons_of_mem _ hm, ?_⟩
      intro x hx
      rcases List.mem_cons.mp hx with rfl | hx
      · exact h
      · exact hmax x hx
    · refine ⟨a, by simp, ?_⟩
      intro x hx
      rcases List.mem_cons.mp hx with rfl | hx
      · omega
      · have := hmax x hx; omega

theorem exists_min : ∀ (l : List Int), l ≠ [] → ∃ m ∈ l, ∀ x ∈ l, m ≤ x
  | [], h => absurd rfl h
  | [a], _ => ⟨a, by simp, by simp⟩
  | a :: b :: l, _ => by
    obtain ⟨m, hm, hmin⟩ := exists_min (b :: l) (by simp)
    by_cases h : m ≤ a
    · refine ⟨m, List.mem_cons_of_mem _ hm, ?_⟩
      intro x hx
      rcases List.mem_cons.mp hx with rfl | hx
      · exact h
      · exact hmin x hx
    · refine ⟨a, by simp, ?_⟩
      intro x hx
      rcases List.mem_cons.mp hx with rfl | hx
      · omega
      · have := hmin x hx; omega

theorem mem_critPoints {cs : List Int} {c : Int} (hc : c ∈ cs) :
    c - 1 ∈ critPoints cs ∧ c ∈ critPoints cs ∧ c + 1 ∈ critPoints cs := by
  simp only [critPoints, List.mem_cons, List.mem_flatMap]
  exact ⟨Or.inr ⟨c, hc, by simp⟩, Or.inr ⟨c, hc, by simp⟩, Or.inr ⟨c, hc, by simp⟩⟩

/-- every integer has a representative among the critical points on the same side of every constant -/
theorem exists_rep (cs : List Int) (i : Int) : ∃ j ∈ critPoints cs, SameSide cs i j := by
  by_cases hi : i ∈ cs
  · exact ⟨i, (mem_critPoints hi).2.1, fun c _ => ⟨Iff.rfl, Iff.rfl⟩⟩
  · by_cases hb : cs.filter (· < i) = []
    · -- every constant is above i
      have habove : ∀ c ∈ cs, i < c := by
        intro c hc
        have hne : c ≠ i := fun h => hi (h ▸ hc)
        have : c ∉ cs.filter (· < i) := by rw [hb]; simp
        simp only [List.mem_filter, decide_eq_true_eq, not_and] at this
        have := this hc; omega
      by_cases hcs : cs = []
      · subst hcs; exact ⟨0, by simp [critPoints], fun c hc => by simp at hc⟩
      · obtain ⟨m, hm, hmin⟩ := exists_min cs hcs
        refine ⟨m - 1, (mem_critPoints hm).1, ?_⟩
        intro c hc
        have h1 := habove c hc; have h2 := hmin c hc
        constructor <;> constructor <;> intro <;> omega
    · obtain ⟨m, hm, hmax⟩ := exists_max _ hb
      have hm' := List.mem_filter.mp hm
      have hmi : m < i := by simpa using hm'.2
      refine ⟨m + 1, (mem_critPoints hm'.1).2.2, ?_⟩
      intro c hc
      have hne : c ≠ i := fun h => hi (h ▸ hc)
      by_cases hlt : c < i
      · have : c ≤ m := hmax c (List.mem_filter.mpr ⟨hc, by simpa using hlt⟩)
        constructor <;> constructor <;> intro <;> omega
      · constructor <;> constructor <;> intro <;> omega

theorem refute_sound (p q : Pred) (i : Int) (h : refute p q = some i) : q.sat i = true ∧ p.sat i = false := by
  have := List.find?_some h
  simpa using this

/-- the oracle is exact: `implies p q` holds iff every integer satisfying `q` satisfies `p` -/
theorem implies_iff (p q : Pred) : implies p q = true ↔ ∀ i : Int, q.sat i = true → p.sat i = true := by
  unfold implies
  constructor
  · intro h i hq
    obtain ⟨j, hj, hside⟩ := exists_rep (p.consts ++ q.consts) i
    have hp := sat_sameSide p i j (hside.mono (by intro c hc; simp [hc]))
    have hq' := sat_sameSide q i j (hside.mono (by intro c hc; simp [hc]))
    rw [Option.isNone_iff_eq_none] at h
    have hall := List.find?_eq_none.mp h j hj
    rw [hp]; rw [hq'] at hq
    simpa [hq] using hall
  · intro h
    cases hr : refute p q with
    | none => rfl
    | some i =>
      have ⟨h1, h2⟩ := refute_sound p q i hr
      have := h i h1
      simp [h2] at this

end ErgVerif

namespace ErgVerif

mutual
theorem sat_naive : ∀ (e : PExpr) (i : Int), e.naive.sat i = e.den i
  | .val _, _ | .eq _, _ | .ge _, _ | .le _, _ | .ne _, _ => by simp [PExpr.naive, PExpr.den, Pred.sat]
  | .gt c, i => by simp only [PExpr.naive, PExpr.den, Pred.sat]; rw [Bool.eq_iff_iff]; simp; omega
  | .lt c, i => by simp only [PExpr.naive, PExpr.den, Pred.sat]; rw [Bool.eq_iff_iff]; simp; omega
  | .and a b, i => by simp [PExpr.naive, PExpr.den, Pred.sat, sat_naive a i, sat_naive b i]
  | .or a b, i => by simp [PExpr.naive, PExpr.den, Pred.sat, PredList.any, sat_naive a i, sat_naive b i]
  | .not a, i => by simp [PExpr.naive, PExpr.den, Pred.sat, sat_naive a i]
  | .rand a b, i => by simp [PExpr.naive, PExpr.den, Pred.sat, sat_naive a i, sat_naive b i]
  | .ror es, i => by simp [PExpr.naive, PExpr.den, Pred.sat, any_naiveList es i]
  | .rnot a, i => by simp [PExpr.naive, PExpr.den, Pred.sat, sat_naive a i]
theorem any_naiveList : ∀ (es : PExprList) (i : Int), es.naive.any i = es.den i
  | .nil, _ => by simp [PExprList.naive, PExprList.den, PredList.any]
  | .cons e es, i => by simp [PExprList.naive, PExprList.den, PredList.any, sat_naive e i, any_naiveList es i]
end

theorem equivPred_iff (p q : Pred) : equivPred p q = true ↔ ∀ i : Int, p.sat i = q.sat i := by
  simp only [equivPred, Bool.and_eq_true, implies_iff]
  constructor
  · intro ⟨h1, h2⟩ i
    cases hp : p.sat i <;> cases hq : q.sat i
    · rfl
    · have := h1 i hq; simp_all
    · have := h2 i hp; simp_all
    · rfl
  · intro h; exact ⟨fun i hq => by rw [h i]; exact hq, fun i hp => by rw [← h i]; exact hp⟩

end ErgVerif

namespace ErgVerif

/-! ## Part 2: `reduce_preds` and soundness of `is_super_pred_of` -/

def allSat (ps : List Pred) (i : Int) : Bool := ps.all (·.sat i)
def anySat (ps : List Pred) (i : Int) : Bool := ps.any (·.sat i)

/-- an iteration order may permute (and even repeat) the members of a set, but neither drops nor invents one -/
def OrdOK (ord : List Pred → List Pred) : Prop := ∀ ps x, x ∈ ord ps ↔ x ∈ ps

theorem allSat_congr {ps qs : List Pred} (h : ∀ x, x ∈ ps ↔ x ∈ qs) (i : Int) : allSat ps i = allSat qs i := by
  rw [Bool.eq_iff_iff]; simp only [allSat, List.all_eq_true]
  exact ⟨fun hp x hx => hp x ((h x).mpr hx), fun hq x hx => hq x ((h x).mp hx)⟩

theorem anySat_congr {ps qs : List Pred} (h : ∀ x, x ∈ ps ↔ x ∈ qs) (i : Int) : anySat ps i = anySat qs i := by
  rw [Bool.eq_iff_iff]; simp only [anySat, List.any_eq_true]
  exact ⟨fun ⟨x, hx, hs⟩ => ⟨x, (h x).mp hx, hs⟩, fun ⟨x, hx, hs⟩ => ⟨x, (h x).mpr hx, hs⟩⟩

theorem mem_dedup (x : Pred) : ∀ ps : List Pred, x ∈ dedup ps ↔ x ∈ ps
  | [] => by simp [dedup]
  | p :: ps => by
    unfold dedup
    split
    · rename_i h
      rw [mem_dedup x ps]
      constructor
      · exact List.mem_cons_of_mem _
      · intro hx; rcases List.mem_cons.mp hx with rfl | hx
        · exact h
        · exact hx
    · simp [mem_dedup x ps]

theorem andsRaw_sat (p : Pred) (i : Int) : allSat p.andsRaw i = p.sat i := by
  induction p using Pred.rec (motive_2 := fun _ => True) <;>
    simp_all [Pred.andsRaw, allSat, Pred.sat, List.all_append]

theorem ands_sat (p : Pred) (i : Int) : allSat p.ands i = p.sat i := by
  rw [Pred.ands, allSat_congr (fun x => mem_dedup x _), andsRaw_sat]

theorem toList_any (ps : PredList) (i : Int) : anySat ps.toList i = ps.any i := by
  induction ps using PredList.rec (motive_1 := fun _ => True) <;> simp_all [PredList.toList, PredList.any, anySat]

/-- `sup` is sound: acceptance implies set inclusion -/
def SoundSup (sup : Pred → Pred → Bool) : Prop := ∀ l r, sup l r = true → ∀ i, r.sat i = true → l.sat i = true

theorem allSat_erase (ps : List Pred) (old : Pred) (i : Int) (h : old ∈ ps) :
    allSat ps i = (allSat (ps.erase old) i && old.sat i) := by
  induction ps with
  | nil => simp at h
  | cons p ps ih =>
    by_cases hp : p = old
    · subst hp; simp [allSat, Bool.and_comm]
    · have : old ∈ ps := by simpa [Ne.symm hp] using h
      have hne : (p == old) = false := by simp [hp]
      simp [allSat, hne] at ih ⊢
      rw [ih this]; simp [Bool.and_assoc]

theorem anySat_erase (ps : List Pred) (old : Pred) (i : Int) (h : old ∈ ps) :
    anySat ps i = (anySat (ps.erase old) i || old.sat i) := by
  induction ps with
  | nil => simp at h
  | cons p ps ih =>
    by_cases hp : p = old
    · subst hp; simp [anySat, Bool.or_comm]
    · have : old ∈ ps := by simpa [Ne.symm hp] using h
      have hne : (p == old) = false := by simp [hp]
      simp [anySat, hne] at ih ⊢
      rw [ih this]; simp [Bool.or_assoc]

theorem reduceStep_and (ord : List Pred → List Pred) (hord : OrdOK ord) (sup : Pred → Pred → Bool) (hs : SoundSup sup)
    (red : List Pred) (pred : Pred) (i : Int) :
    allSat (reduceStep ord true sup red pred) i = (allSat red i && pred.sat i) := by
  unfold reduceStep
  simp only [if_true]
  have key : ∀ red' : List Pred,
      (red' = red ∨ ∃ old, old ∈ red ∧ sup old pred = true ∧ red' = red.erase old) →
      allSat (if red'.all (fun ex => !(sup pred ex)) then red' ++ [pred] else red') i = (allSat red i && pred.sat i) := by
    intro red' hred'
    have hrel : (allSat red' i && pred.sat i) = (allSat red i && pred.sat i) := by
      rcases hred' with rfl | ⟨old, hin, hsup, rfl⟩
      · rfl
      · rw [allSat_erase red old i hin]
        cases hp : pred.sat i
        · simp
        · simp [hs old pred hsup i hp]
    split
    · simp [allSat, List.all_append] at hrel ⊢; simpa [allSat] using hrel
    · rename_i hnot
      have hnot' : ∃ ex, ex ∈ red' ∧ sup pred ex = true := by
        apply Classical.byContradiction
        intro hcon
        apply hnot
        simp only [List.all_eq_true, Bool.not_eq_true']
        intro x hx
        cases hsx : sup pred x
        · rfl
        · exact absurd ⟨x, hx, hsx⟩ hcon
      obtain ⟨ex, hex, hsup'⟩ := hnot'
      rw [← hrel]
      cases ha : allSat red' i
      · simp
      · have : ex.sat i = true := by
          simp only [allSat, List.all_eq_true] at ha; exact ha ex hex
        simp [hs pred ex hsup' i this]
  cases hv : (ord red).find? (fun ex => sup ex pred) with
  | none => exact key red (Or.inl rfl)
  | some old =>
    have hin := (hord red old).mp (List.mem_of_find?_eq_some hv)
    have hsup : sup old pred = true := by simpa using List.find?_some hv
    exact key (red.erase old) (Or.inr ⟨old, hin, hsup, rfl⟩)

theorem reducePreds_and (ord : List Pred → List Pred) (hord : OrdOK ord) (sup : Pred → Pred → Bool) (hs : SoundSup sup)
    (ps : List Pred) (i : Int) : allSat (reducePreds ord true sup ps) i = allSat ps i := by
  unfold reducePreds
  rw [← allSat_congr (hord ps) i]
  generalize ord ps = qs
  suffices ∀ acc, allSat (qs.foldl (reduceStep ord true sup) acc) i = (allSat acc i && allSat qs i) by
    simpa [allSat] using this []
  induction qs with
  | nil => intro acc; simp [allSat]
  | cons p ps ih =>
    intro acc
    simp only [List.foldl]
    rw [ih, reduceStep_and ord hord sup hs]
    simp [allSat, Bool.and_assoc]

theorem reduceStep_or (ord : List Pred → List Pred) (hord : OrdOK ord) (sup : Pred → Pred → Bool) (hs : SoundSup sup)
    (red : List Pred) (pred : Pred) (i : Int) :
    anySat (reduceStep ord false sup red pred) i = (anySat red i || pred.sat i) := by
  unfold reduceStep
  simp only [Bool.false_eq_true, if_false]
  have key : ∀ red' : List Pred,
      (red' = red ∨ ∃ old, old ∈ red ∧ sup pred old = true ∧ red' = red.erase old) →
      anySat (if red'.all (fun ex => !(sup ex pred)) then red' ++ [pred] else red') i = (anySat red i || pred.sat i) := by
    intro red' hred'
    have hrel : (anySat red' i || pred.sat i) = (anySat red i || pred.sat i) := by
      rcases hred' with rfl | ⟨old, hin, hsup, rfl⟩
      · rfl
      · rw [anySat_erase red old i hin]
        cases ho : old.sat i
        · simp
        · simp [hs pred old hsup i ho]
    split
    · simp [anySat, List.any_append] at hrel ⊢; simpa [anySat] using hrel
    · rename_i hnot
      have hnot' : ∃ ex, ex ∈ red' ∧ sup ex pred = true := by
        apply Classical.byContradiction
        intro hcon
        apply hnot
        simp only [List.all_eq_true, Bool.not_eq_true']
        intro x hx
        cases hsx : sup x pred
        · rfl
        · exact absurd ⟨x, hx, hsx⟩ hcon
      obtain ⟨ex, hex, hsup'⟩ := hnot'
      rw [← hrel]
      cases hp : pred.sat i
      · simp
      · have : ex.sat i = true := hs ex pred hsup' i hp
        have : anySat red' i = true := by
          simp only [anySat, List.any_eq_true]; exact ⟨ex, hex, this⟩
        simp [this]
  cases hv : (ord red).find? (fun ex => sup pred ex) with
  | none => exact key red (Or.inl rfl)
  | some old =>
    have hin := (hord red old).mp (List.mem_of_find?_eq_some hv)
    have hsup : sup pred old = true := by simpa using List.find?_some hv
    exact key (red.erase old) (Or.inr ⟨old, hin, hsup, rfl⟩)

theorem reducePreds_or (ord : List Pred → List Pred) (hord : OrdOK ord) (sup : Pred → Pred → Bool) (hs : SoundSup sup)
    (ps : List Pred) (i : Int) : anySat (reducePreds ord false sup ps) i = anySat ps i := by
  unfold reducePreds
  rw [← anySat_congr (hord ps) i]
  generalize ord ps = qs
  suffices ∀ acc, anySat (qs.foldl (reduceStep ord false sup) acc) i = (anySat acc i || anySat qs i) by
    simpa [anySat] using this []
  induction qs with
  | nil => intro acc; simp [anySat]
  | cons p ps ih =>
    intro acc
    simp only [List.foldl]
    rw [ih, reduceStep_or ord hord sup hs]
    simp [anySat, Bool.or_assoc]

theorem all_any_and_sound (rec_ : Pred → Pred → Bool) (hs : SoundSup rec_) (L R : List Pred) (i : Int)
    (h : L.all (fun l => R.any (fun r => rec_ l r)) = true) (hR : allSat R i = true) : allSat L i = true := by
  simp only [allSat, List.all_eq_true, List.any_eq_true] at *
  intro l hl
  obtain ⟨r, hr, hlr⟩ := h l hl
  exact hs l r hlr i (hR r hr)

theorem all_any_or_sound (rec_ : Pred → Pred → Bool) (hs : SoundSup rec_) (L R : List Pred) (i : Int)
    (h : R.all (fun r => L.any (fun l => rec_ l r)) = true) (hR : anySat R i = true) : anySat L i = true := by
  simp only [anySat, List.all_eq_true, List.any_eq_true] at *
  obtain ⟨r, hr, hsat⟩ := hR
  obtain ⟨l, hl, hlr⟩ := h r hr
  exact ⟨l, hl, hs l r hlr i hsat⟩

theorem cmpConst_exact (a b : Int) :
    cmpConst false a b = (if a < b then Ord3.lt else if a = b then Ord3.eq else Ord3.gt) := by
  unfold cmpConst
  by_cases h : a = b
  · subst h; simp
  · simp [h]

/-- soundness of the transcribed `is_super_pred_of` for every fuel, every membership-preserving iteration order, with the
    `(And, And)` arm repaired or off and constants compared exactly -/
theorem isSuper_sound (cfg : Cfg) (haa : cfg.aa ≠ .legacy) (hf : cfg.f64 = false) (hord : OrdOK cfg.ord) :
    ∀ fuel, SoundSup (isSuper cfg fuel) := by
  intro fuel
  induction fuel with
  | zero => intro l r h; simp [isSuper] at h
  | succ fuel ih =>
    intro lhs rhs h i hr
    unfold isSuper at h
    split at h
    · rename_i heq; subst heq; exact hr
    · simp only at h
      split at h
      all_goals first
        | (simp at h; done)
        | (simp only [hf, cmpConst_exact, Pred.sat, bne_iff_ne, beq_iff_eq, decide_eq_true_eq, ne_eq] at h hr ⊢
           (try split at h) <;> (try split at h) <;> simp_all <;> omega)
        | skip
      case h_15 l1 l2 r1 r2 _ =>
        cases haa' : cfg.aa with
        | legacy => exact absurd haa' haa
        | off => simp [haa'] at h
        | fixed =>
          simp only [haa'] at h
          have hR : allSat (reducePreds cfg.ord true (isSuper cfg fuel) (Pred.and r1 r2).ands) i = true := by
            rw [reducePreds_and _ hord _ ih, ands_sat]; exact hr
          have hL := all_any_and_sound _ ih _ _ i h hR
          rw [reducePreds_and _ hord _ ih, ands_sat] at hL; exact hL
      case h_16 ls rs _ =>
        have hR : anySat (reducePreds cfg.ord false (isSuper cfg fuel) rs.toList) i = true := by
          rw [reducePreds_or _ hord _ ih, toList_any]; simpa [Pred.sat] using hr
        have hL := all_any_or_sound _ ih _ _ i h hR
        rw [reducePreds_or _ hord _ ih, toList_any] at hL; simpa [Pred.sat] using hL
      case h_19 l r _ _ =>
        simp only [Pred.sat, Bool.and_eq_true] at hr
        simp only [Bool.or_eq_true] at h
        rcases h with h | h
        · exact ih _ _ h i hr.1
        · exact ih _ _ h i hr.2
      case h_20 ors _ _ =>
        simp only [Pred.sat] at hr
        rw [← toList_any] at hr
        simp only [anySat, List.any_eq_true] at hr
        obtain ⟨o, ho, hsat⟩ := hr
        simp only [List.all_eq_true] at h
        exact ih _ _ (h o ho) i hsat
      case h_21 ors _ _ _ _ =>
        simp only [List.any_eq_true] at h
        obtain ⟨o, ho, hsup⟩ := h
        simp only [Pred.sat]
        rw [← toList_any]
        simp only [anySat, List.any_eq_true]
        exact ⟨o, ho, ih _ _ hsup i hr⟩
      case h_22 l r _ _ _ _ =>
        simp only [Bool.and_eq_true] at h
        simp only [Pred.sat, Bool.and_eq_true]
        exact ⟨ih _ _ h.1 i hr, ih _ _ h.2 i hr⟩

end ErgVerif

namespace ErgVerif

theorem nthPerm_perm : ∀ (f k : Nat) (l : List Pred), (nthPerm f k l).Perm l
  | 0, _, l => by simp [nthPerm]
  | f+1, k, l => by
    unfold nthPerm
    split
    · exact List.Perm.refl _
    · rename_i x hx
      have hmem : x ∈ l := List.mem_of_getElem? hx
      exact ((nthPerm_perm f (k / l.length) (l.erase x)).cons x).trans (List.perm_cons_erase hmem).symm

/-- every order the drivers enumerate is a legitimate iteration order -/
theorem ordK_ok (k : Nat) : OrdOK (ordK k) := fun ps _ => (nthPerm_perm ps.length k ps).mem_iff

end ErgVerif

namespace ErgVerif

/-! ## fuel: `Pred.weight` suffices -/

theorem Pred.weight_pos (p : Pred) : 1 ≤ p.weight := by
  cases p <;> simp [Pred.weight] <;> omega

theorem andsRaw_weight : ∀ (p a : Pred), a ∈ p.andsRaw → a.weight ≤ p.weight
  | .and p q, a, h => by
    simp only [Pred.andsRaw, List.mem_append] at h
    rcases h with h | h
    · have := andsRaw_weight p a h; simp [Pred.weight]; omega
    · have := andsRaw_weight q a h; simp [Pred.weight]; omega
  | .val _, a, h | .eq _, a, h | .ge _, a, h | .le _, a, h | .ne _, a, h | .or _, a, h | .not _, a, h => by
    simp [Pred.andsRaw] at h; subst h; exact Nat.le_refl _

theorem ands_weight (l1 l2 a : Pred) (h : a ∈ (Pred.and l1 l2).ands) : a.weight ≤ l1.weight + l2.weight := by
  rw [Pred.ands, mem_dedup] at h
  simp only [Pred.andsRaw, List.mem_append] at h
  rcases h with h | h
  · have := andsRaw_weight _ a h; omega
  · have := andsRaw_weight _ a h; omega

theorem toList_weight : ∀ (ps : PredList) (a : Pred), a ∈ ps.toList → a.weight ≤ ps.weight
  | .nil, _, h => by simp [PredList.toList] at h
  | .cons p ps, a, h => by
    simp only [PredList.toList, List.mem_cons] at h
    rcases h with rfl | h
    · simp [PredList.weight]
    · have := toList_weight ps a h; simp [PredList.weight]; omega

theorem find?_congr' {l : List Pred} {f g : Pred → Bool} (h : ∀ x ∈ l, f x = g x) : l.find? f = l.find? g := by
  induction l with
  | nil => rfl
  | cons a l ih =>
    simp only [List.find?_cons, h a (by simp)]
    rw [ih (fun x hx => h x (List.mem_cons_of_mem _ hx))]

theorem all_congr' {l : List Pred} {f g : Pred → Bool} (h : ∀ x ∈ l, f x = g x) : l.all f = l.all g := by
  induction l with
  | nil => rfl
  | cons a l ih =>
    simp only [List.all_cons, h a (by simp)]
    rw [ih (fun x hx => h x (List.mem_cons_of_mem _ hx))]

theorem any_congr' {l : List Pred} {f g : Pred → Bool} (h : ∀ x ∈ l, f x = g x) : l.any f = l.any g := by
  induction l with
  | nil => rfl
  | cons a l ih =>
    simp only [List.any_cons, h a (by simp)]
    rw [ih (fun x hx => h x (List.mem_cons_of_mem _ hx))]

theorem reduceStep_subset (ord : List Pred → List Pred) (mode : Bool) (sup : Pred → Pred → Bool) (red : List Pred) (pred x : Pred)
    (h : x ∈ reduceStep ord mode sup red pred) : x ∈ red ∨ x = pred := by
  unfold reduceStep at h
  have herase : ∀ red' : List Pred, (∀ y ∈ red', y ∈ red) →
      x ∈ (if red'.all (fun ex => if mode then !(sup pred ex) else !(sup ex pred)) then red' ++ [pred] else red') → x ∈ red ∨ x = pred := by
    intro red' hsub hx
    by_cases hc : (red'.all (fun ex => if mode then !(sup pred ex) else !(sup ex pred))) = true
    · rw [if_pos hc] at hx
      rcases List.mem_append.mp hx with hx | hx
      · exact Or.inl (hsub x hx)
      · exact Or.inr (by simpa using hx)
    · rw [if_neg hc] at hx
      exact Or.inl (hsub x hx)
  cases hv : (ord red).find? (fun ex => if mode then sup ex pred else sup pred ex) with
  | none => rw [hv] at h; exact herase red (fun _ hy => hy) h
  | some old => rw [hv] at h; exact herase (red.erase old) (fun _ hy => List.mem_of_mem_erase hy) h

theorem reduceStep_congr (ord : List Pred → List Pred) (hord : OrdOK ord) (mode : Bool) (s1 s2 : Pred → Pred → Bool)
    (red : List Pred) (pred : Pred) (h : ∀ x ∈ red, s1 x pred = s2 x pred ∧ s1 pred x = s2 pred x) :
    reduceStep ord mode s1 red pred = reduceStep ord mode s2 red pred := by
  unfold reduceStep
  have hf : (ord red).find? (fun ex => if mode then s1 ex pred else s1 pred ex)
      = (ord red).find? (fun ex => if mode then s2 ex pred else s2 pred ex) := by
    apply find?_congr'
    intro x hx
    have := h x ((hord red x).mp hx)
    cases mode <;> simp [this.1, this.2]
  rw [hf]
  have hall : ∀ red' : List Pred, (∀ y ∈ red', y ∈ red) →
      red'.all (fun ex => if mode then !(s1 pred ex) else !(s1 ex pred)) = red'.all (fun ex => if mode then !(s2 pred ex) else !(s2 ex pred)) := by
    intro red' hsub
    apply all_congr'
    intro x hx
    have := h x (hsub x hx)
    cases mode <;> simp [this.1, this.2]
  cases (ord red).find? (fun ex => if mode then s2 ex pred else s2 pred ex) with
  | none => simp only; rw [hall red (fun _ hy => hy)]
  | some old => simp only; rw [hall (red.erase old) (fun _ hy => List.mem_of_mem_erase hy)]

theorem foldl_reduce_congr (ord : List Pred → List Pred) (hord : OrdOK ord) (mode : Bool) (s1 s2 : Pred → Pred → Bool)
    (S : Pred → Prop) (hS : ∀ a b, S a → S b → s1 a b = s2 a b) :
    ∀ (qs acc : List Pred), (∀ x ∈ qs, S x) → (∀ x ∈ acc, S x) →
      qs.foldl (reduceStep ord mode s1) acc = qs.foldl (reduceStep ord mode s2) acc ∧
      ∀ x ∈ qs.foldl (reduceStep ord mode s2) acc, S x
  | [], acc, _, hacc => ⟨rfl, hacc⟩
  | q :: qs, acc, hqs, hacc => by
    simp only [List.foldl]
    have hq : S q := hqs q (by simp)
    rw [reduceStep_congr ord hord mode s1 s2 acc q (fun x hx => ⟨hS _ _ (hacc x hx) hq, hS _ _ hq (hacc x hx)⟩)]
    apply foldl_reduce_congr ord hord mode s1 s2 S hS qs _ (fun x hx => hqs x (List.mem_cons_of_mem _ hx))
    intro x hx
    rcases reduceStep_subset ord mode s2 acc q x hx with hx | rfl
    · exact hacc x hx
    · exact hq

theorem reducePreds_congr (ord : List Pred → List Pred) (hord : OrdOK ord) (mode : Bool) (s1 s2 : Pred → Pred → Bool)
    (ps : List Pred) (hS : ∀ a b, a ∈ ps → b ∈ ps → s1 a b = s2 a b) :
    reducePreds ord mode s1 ps = reducePreds ord mode s2 ps ∧ ∀ x ∈ reducePreds ord mode s2 ps, x ∈ ps := by
  unfold reducePreds
  exact foldl_reduce_congr ord hord mode s1 s2 (· ∈ ps) hS (ord ps) [] (fun x hx => (hord ps x).mp hx) (by simp)

/-- more fuel than the total weight never changes the answer: `isSuperPred` is the value of the (fuel-free) Rust recursion -/
theorem isSuper_fuel_stable (cfg : Cfg) (hord : OrdOK cfg.ord) :
    ∀ (n m : Nat) (l r : Pred), l.weight + r.weight < n → l.weight + r.weight < m → isSuper cfg n l r = isSuper cfg m l r := by
  intro n
  induction n with
  | zero => intro m l r h; omega
  | succ n ih =>
    intro m l r hn hm
    cases m with
    | zero => omega
    | succ m =>
      have key : ∀ a b : Pred, a.weight + b.weight < l.weight + r.weight → isSuper cfg n a b = isSuper cfg m a b :=
        fun a b hab => ih m a b (by omega) (by omega)
      unfold isSuper
      split
      · rfl
      · simp only
        split
        all_goals first
          | rfl
          | skip
        case h_15 l1 l2 r1 r2 _ =>
          have hL := reducePreds_congr cfg.ord hord true (isSuper cfg n) (isSuper cfg m) (Pred.and l1 l2).ands (by
            intro a b ha hb
            have := ands_weight l1 l2 a ha; have := ands_weight l1 l2 b hb
            have := Pred.weight_pos (.and r1 r2)
            apply key; simp only [Pred.weight] at *; omega)
          have hR := reducePreds_congr cfg.ord hord true (isSuper cfg n) (isSuper cfg m) (Pred.and r1 r2).ands (by
            intro a b ha hb
            have := ands_weight r1 r2 a ha; have := ands_weight r1 r2 b hb
            have := Pred.weight_pos (.and l1 l2)
            apply key; simp only [Pred.weight] at *; omega)
          rw [hL.1, hR.1]
          have hpair : ∀ a ∈ reducePreds cfg.ord true (isSuper cfg m) (Pred.and l1 l2).ands,
              ∀ b ∈ reducePreds cfg.ord true (isSuper cfg m) (Pred.and r1 r2).ands, isSuper cfg n a b = isSuper cfg m a b := by
            intro a ha b hb
            have := ands_weight l1 l2 a (hL.2 a ha); have := ands_weight r1 r2 b (hR.2 b hb)
            apply key; simp only [Pred.weight] at *; omega
          cases cfg.aa with
          | legacy => exact all_congr' (fun b hb => any_congr' (fun a ha => hpair a ha b hb))
          | fixed => exact all_congr' (fun a ha => any_congr' (fun b hb => hpair a ha b hb))
          | off => rfl
        case h_16 ls rs _ =>
          have hL := reducePreds_congr cfg.ord hord false (isSuper cfg n) (isSuper cfg m) ls.toList (by
            intro a b ha hb
            have := toList_weight ls a ha; have := toList_weight ls b hb
            have := Pred.weight_pos (.or rs)
            apply key; simp only [Pred.weight] at *; omega)
          have hR := reducePreds_congr cfg.ord hord false (isSuper cfg n) (isSuper cfg m) rs.toList (by
            intro a b ha hb
            have := toList_weight rs a ha; have := toList_weight rs b hb
            have := Pred.weight_pos (.or ls)
            apply key; simp only [Pred.weight] at *; omega)
          rw [hL.1, hR.1]
          apply all_congr'; intro b hb; apply any_congr'; intro a ha
          have := toList_weight ls a (hL.2 a ha); have := toList_weight rs b (hR.2 b hb)
          apply key; simp only [Pred.weight] at *; omega
        case h_19 l' r' _ _ _ =>
          have := Pred.weight_pos l'; have := Pred.weight_pos r'
          rw [key _ _ (by simp only [Pred.weight]; omega), key _ _ (by simp only [Pred.weight]; omega)]
        case h_20 ors _ _ _ =>
          apply all_congr'; intro o ho
          have := toList_weight ors o ho
          apply key; simp only [Pred.weight]; omega
        case h_21 ors _ _ _ _ =>
          apply any_congr'; intro o ho
          have := toList_weight ors o ho
          apply key; simp only [Pred.weight]; omega
        case h_22 l' r' _ _ _ _ _ =>
          have := Pred.weight_pos l'; have := Pred.weight_pos r'
          rw [key _ _ (by simp only [Pred.weight]; omega), key _ _ (by simp only [Pred.weight]; omega)]

end ErgVerif
