/-!
# C19 — model: the aggregation protocol of the analysis threads

Abstract machine of crates/erg_compiler/build_package.rs `start_analysis_process` (the `run` closure: analyse, `cache.register`,
`shared.warns/errors.extend`), module/promise.rs `SharedPromises::join` (a thread reads a dependency's registered result only
after that thread has finished), module/cache.rs `SharedModuleCache::register` and lower.rs (`join_all`, then the main module
drains `shared.errors/warns`).

* `Cfg.deps m`     the modules whose registered result thread `m` reads (joins) — the protocol of C20 (`Sched`) with data;
* `Cfg.order`      spawn order chosen by `build_deps_and_module`;
* `Cfg.analyse m inputs` the analysis of module `m` as a FUNCTION of what it read: result (context + HIR, opaque) and the
  diagnostics it appends. That each thread is such a function is the modelling assumption (GenericPackageBuilder's documented
  invariant "build_module must be idempotent"); what the threads share besides the cache (hash-consed strings, fresh-variable
  counters, FxHash iteration order inside one analysis) is outside the model and only tied.
* a state is (to spawn, running, cache, diagnostics in append order, finished list). `finish m` is atomic: read the dependencies'
  entries, analyse, register, append (the real code registers before it appends; nobody reads the diagnostics before `join_all`).
* `raceFinish`: the defect recorded as C20-inlined-import-race — a reader that does not wait (`join` returns at once for a module
  marked `Joined` without having been analysed) — kept as a separate machine (`RStep`) so that the witness is a theorem.
-/
namespace ErgVerif.C19

abbrev Path := Nat
abbrev Val := Nat          -- opaque analysis result (context + HIR)
abbrev Diag := Nat         -- opaque diagnostic

structure Cfg where
  deps : Path → List Path
  order : List Path
  analyse : Path → List (Path × Option Val) → Val × List Diag

structure State where
  toSpawn : List Path
  running : List Path
  finished : List Path
  cache : List (Path × Val)
  diags : List Diag
  deriving DecidableEq, Repr, Inhabited

def lookup (c : List (Path × Val)) (p : Path) : Option Val := (c.find? (fun kv => kv.1 == p)).map (·.2)

def Cfg.init (cf : Cfg) : State := ⟨cf.order, [], [], [], []⟩

/-- what thread `m` reads from the module cache -/
def Cfg.inputs (cf : Cfg) (cache : List (Path × Val)) (m : Path) : List (Path × Option Val) :=
  (cf.deps m).map (fun d => (d, lookup cache d))

inductive Step where
  | spawn (m : Path)
  | finish (m : Path)
  deriving DecidableEq, Repr, Inhabited

def Cfg.enabled (cf : Cfg) (s : State) : Step → Bool
  | .spawn m => s.toSpawn.head? == some m
  | .finish m => s.running.contains m && (cf.deps m).all (s.finished.contains ·)

def Cfg.step (cf : Cfg) (s : State) : Step → State
  | .spawn m => { s with toSpawn := s.toSpawn.tail, running := s.running ++ [m] }
  | .finish m =>
    let r := cf.analyse m (cf.inputs s.cache m)
    { s with running := s.running.erase m, finished := s.finished ++ [m], cache := s.cache ++ [(m, r.1)],
             diags := s.diags ++ r.2 }

/-- a schedule: any sequence of enabled steps -/
def Cfg.run (cf : Cfg) : State → List Step → Option State
  | s, [] => some s
  | s, a :: as => if cf.enabled s a then cf.run (cf.step s a) as else none

def State.done (s : State) : Bool := s.toSpawn.isEmpty && s.running.isEmpty

/-- the build without the `parallel` feature: `run()` is called where the thread would be spawned -/
def Cfg.sequential (cf : Cfg) : List Step := cf.order.flatMap (fun m => [.spawn m, .finish m])

/-- the machine with the defect: `finish` does not wait for the dependencies (their entry may be missing) -/
def Cfg.raceEnabled (_cf : Cfg) (s : State) : Step → Bool
  | .spawn m => s.toSpawn.head? == some m
  | .finish m => s.running.contains m

def Cfg.raceRun (cf : Cfg) : State → List Step → Option State
  | s, [] => some s
  | s, a :: as => if cf.raceEnabled s a then cf.raceRun (cf.step s a) as else none

end ErgVerif.C19
