import ErgVerif.C19.Proofs
/-!
# C19 — Compilation output is deterministic and schedule-independent

Property theorems only. Model: `ErgVerif/C19/Model.lean` — the aggregation protocol of the analysis threads (spawn in the order
chosen by `build_deps_and_module`; a thread finishes after the threads it joins; on finishing it registers its result in the module
cache and appends its diagnostics to the shared lists; the main module reads both after `join_all`). A *schedule* is any sequence of
enabled `spawn`/`finish` steps; `result` of a completed schedule = (every module's registered entry = the main module's input
contexts, the multiset of diagnostics). What the model cannot carry — hash-iteration order inside one analysis leaking into the
bytes, preemption inside a step, state shared besides the cache — is decided only by the tie (checks/c19.py).
-/
namespace ErgVerif.C19

/-- every completed schedule registers, for every module, the same entry (the reference value: the module analysed on the
    reference entries of its dependencies), and appends the diagnostics of exactly the modules of the project, each once -/
theorem C19_result (cf : Cfg) (hnd : cf.order.Nodup) (hdb : DepsBefore cf.deps cf.order) (σ : List Step) (s : State)
    (hr : cf.run cf.init σ = some s) (hd : s.done = true) :
    (∀ m, lookup s.cache m = if m ∈ cf.order then refVal cf m else none) ∧
    s.diags.Perm (cf.order.flatMap (refDiags cf)) := by
  have h := SInv.run hnd hdb σ _ s (SInv.init cf) hr
  have hf := h.done_finished hd
  refine ⟨fun m => ?_, ?_⟩
  · rw [h.vals m]
    by_cases hm : m ∈ cf.order
    · simp [hm, (hf m).mpr hm]
    · have : m ∉ s.finished := fun hc => hm ((hf m).mp hc)
      simp [hm, this]
  · rw [h.diags]
    exact List.Perm.flatMap_right _ ((List.perm_ext_iff_of_nodup h.fnodup hnd).mpr hf)

/-- confluence: any two completed schedules of the same project yield the same registered entries (hence the same inputs for the
    main module) and the same multiset of diagnostics — however the threads were interleaved -/
theorem C19_confluent (cf : Cfg) (hnd : cf.order.Nodup) (hdb : DepsBefore cf.deps cf.order) (σ τ : List Step) (s t : State)
    (hs : cf.run cf.init σ = some s) (ht : cf.run cf.init τ = some t) (hsd : s.done = true) (htd : t.done = true) :
    (∀ m, lookup s.cache m = lookup t.cache m) ∧ s.diags.Perm t.diags := by
  obtain ⟨hs1, hs2⟩ := C19_result cf hnd hdb σ s hs hsd
  obtain ⟨ht1, ht2⟩ := C19_result cf hnd hdb τ t ht htd
  exact ⟨fun m => by rw [hs1 m, ht1 m], hs2.trans ht2.symm⟩

/-- the sequential build (no `parallel` feature: each analysis runs to completion where the thread would be spawned) is a
    schedule of the machine and completes -/
theorem C19_sequential_is_schedule (cf : Cfg) (hnd : cf.order.Nodup) (hdb : DepsBefore cf.deps cf.order) :
    ∃ s, cf.run cf.init cf.sequential = some s ∧ s.done = true := by
  -- generalised: from a state whose `toSpawn` is a suffix `l` of the order, with nothing running and the prefix finished
  have key : ∀ (l pre : List Path) (s : State), cf.order = pre ++ l → s.toSpawn = l → s.running = [] →
      (∀ x, x ∈ pre → x ∈ s.finished) →
      ∃ t, cf.run s (l.flatMap (fun m => [.spawn m, .finish m])) = some t ∧ t.done = true := by
    intro l
    induction l with
    | nil => intro pre s _ hts hr _; exact ⟨s, rfl, by simp [State.done, hts, hr]⟩
    | cons m l ih =>
      intro pre s ho hts hr hfin
      have hdeps : ∀ d ∈ cf.deps m, d ∈ s.finished := fun d hd => hfin d (hdb pre m l ho d hd)
      have e1 : cf.enabled s (.spawn m) = true := by simp [Cfg.enabled, hts]
      have e2 : cf.enabled (cf.step s (.spawn m)) (.finish m) = true := by
        simp only [Cfg.enabled, Cfg.step, hr, List.nil_append, Bool.and_eq_true, List.all_eq_true, List.contains_eq_mem,
          decide_eq_true_eq]
        exact ⟨by simp, hdeps⟩
      obtain ⟨t, ht, htd⟩ := ih (pre ++ [m]) (cf.step (cf.step s (.spawn m)) (.finish m)) (by simp [ho])
        (by simp [Cfg.step, hts]) (by simp [Cfg.step, hr])
        (by
          intro x hx
          simp only [Cfg.step, List.mem_append, List.mem_singleton] at hx ⊢
          rcases hx with h | h
          · exact Or.inl (hfin x h)
          · exact Or.inr h)
      refine ⟨t, ?_, htd⟩
      simp only [List.flatMap_cons, List.cons_append, List.nil_append, Cfg.run, e1, e2, if_true]
      exact ht
  exact key cf.order [] cf.init (by simp) rfl rfl (by simp)

/-- a build with parallel analysis agrees with the sequential build: same registered entries, same multiset of diagnostics -/
theorem C19_seq_eq_par (cf : Cfg) (hnd : cf.order.Nodup) (hdb : DepsBefore cf.deps cf.order) (σ : List Step) (s : State)
    (hs : cf.run cf.init σ = some s) (hsd : s.done = true) :
    ∃ t, cf.run cf.init cf.sequential = some t ∧ (∀ m, lookup s.cache m = lookup t.cache m) ∧ s.diags.Perm t.diags := by
  obtain ⟨t, ht, htd⟩ := C19_sequential_is_schedule cf hnd hdb
  exact ⟨t, ht, C19_confluent cf hnd hdb σ cf.sequential s t hs ht hsd htd⟩

/-- the ORDER of the diagnostics does depend on the schedule (observed on the real compiler as well: the tie compares sorted
    diagnostics): two completed schedules of two independent modules append their diagnostics in different orders -/
theorem C19_order_depends_on_schedule :
    let cf : Cfg := ⟨fun _ => [], [1, 2], fun m _ => (m, [m])⟩
    (cf.run cf.init [.spawn 1, .spawn 2, .finish 1, .finish 2]).map (·.diags) = some [1, 2] ∧
    (cf.run cf.init [.spawn 1, .spawn 2, .finish 2, .finish 1]).map (·.diags) = some [2, 1] := by decide

/-- the recorded race (C20-inlined-import-race): if a reader does not wait for the module it reads (`join` returns at once for a
    module marked `Joined` that nobody has analysed yet) the result DOES depend on the schedule — module 3 reads module 2;
    finishing 3 before 2 makes it read a missing entry and report a diagnostic that the other schedule does not have -/
theorem C19_race_witness :
    let cf : Cfg := ⟨fun m => if m = 3 then [2] else [], [2, 3],
                     fun m ins => (m, if ins.any (fun kv => kv.2.isNone) then [100 + m] else [])⟩
    (cf.raceRun cf.init [.spawn 2, .spawn 3, .finish 2, .finish 3]).map (·.diags) = some [] ∧
    (cf.raceRun cf.init [.spawn 2, .spawn 3, .finish 3, .finish 2]).map (·.diags) = some [103] ∧
    cf.run cf.init [.spawn 2, .spawn 3, .finish 3, .finish 2] = none := by decide

/-- non-vacuity: a diamond 1 → {2, 3} → 4 (spawn order 4 3 2 1) satisfies the hypotheses, and two different interleavings
    complete with the same cache and the same diagnostics up to order -/
example : let cf : Cfg := ⟨fun m => if m = 1 then [2, 3] else if m = 2 then [4] else if m = 3 then [4] else [], [4, 3, 2, 1],
                          fun m ins => (m + (ins.filterMap (·.2)).foldl (· + ·) 0, [m])⟩
    (cf.run cf.init [.spawn 4, .spawn 3, .spawn 2, .spawn 1, .finish 4, .finish 3, .finish 2, .finish 1]).map
        (fun s => (s.cache, s.diags)) = some ([(4, 4), (3, 7), (2, 6), (1, 14)], [4, 3, 2, 1]) ∧
    (cf.run cf.init [.spawn 4, .finish 4, .spawn 3, .spawn 2, .finish 2, .spawn 1, .finish 3, .finish 1]).map
        (fun s => (s.cache, s.diags)) = some ([(4, 4), (2, 6), (3, 7), (1, 14)], [4, 2, 3, 1]) := by decide

end ErgVerif.C19
