import ErgVerif.C19.Model
/-!
# C19 — helper lemmas: the reference result and the schedule invariant
-/
namespace ErgVerif.C19

/-- spawn order in which every thread comes after the threads it reads -/
def DepsBefore (deps : Path → List Path) (order : List Path) : Prop :=
  ∀ l1 x l2, order = l1 ++ x :: l2 → ∀ d ∈ deps x, d ∈ l1

/-- the reference cache: the modules of `l` analysed one after the other -/
def seqCache (cf : Cfg) : List Path → List (Path × Val)
  | [] => []
  | l => l.foldl (fun c m => c ++ [(m, (cf.analyse m (cf.inputs c m)).1)]) []

def seqStep (cf : Cfg) (c : List (Path × Val)) (m : Path) : List (Path × Val) :=
  c ++ [(m, (cf.analyse m (cf.inputs c m)).1)]

theorem seqCache_eq (cf : Cfg) (l : List Path) : seqCache cf l = l.foldl (seqStep cf) [] := by
  cases l <;> rfl

theorem lookup_append (c : List (Path × Val)) (m : Path) (v : Val) (p : Path) :
    lookup (c ++ [(m, v)]) p = match lookup c p with | some x => some x | none => if m = p then some v else none := by
  unfold lookup
  rw [List.find?_append]
  cases h : c.find? (fun kv => kv.1 == p) with
  | some kv => simp
  | none =>
    by_cases hm : m = p
    · simp [hm]
    · simp [hm]

theorem lookup_append_of_some {c : List (Path × Val)} {p : Path} {x : Val} (h : lookup c p = some x) (m : Path) (v : Val) :
    lookup (c ++ [(m, v)]) p = some x := by rw [lookup_append, h]

/-- the reference value of module `p`: what the one-after-the-other analysis of `order` registers for it -/
def refVal (cf : Cfg) (p : Path) : Option Val := lookup (seqCache cf cf.order) p

/-- keys of the fold are the processed modules -/
theorem foldl_keys (cf : Cfg) : ∀ (l : List Path) (c : List (Path × Val)) (p : Path),
    (lookup (l.foldl (seqStep cf) c) p).isSome ↔ ((lookup c p).isSome ∨ p ∈ l) := by
  intro l
  induction l with
  | nil => intro c p; simp
  | cons m t ih =>
    intro c p
    rw [List.foldl_cons, ih]
    unfold seqStep
    rw [lookup_append]
    cases h : lookup c p with
    | some x => simp
    | none =>
      by_cases hm : m = p
      · simp [hm]
      · simp [hm, Ne.symm hm]

/-- an entry once registered is never changed by later registrations -/
theorem foldl_stable (cf : Cfg) : ∀ (l : List Path) (c : List (Path × Val)) (p : Path) (x : Val),
    lookup c p = some x → lookup (l.foldl (seqStep cf) c) p = some x := by
  intro l
  induction l with
  | nil => intro c p x h; exact h
  | cons m t ih =>
    intro c p x h
    rw [List.foldl_cons]
    exact ih _ p x (lookup_append_of_some h _ _)

/-- the entry of `m` in the reference cache is the analysis of `m` on the reference entries of its dependencies -/
theorem refVal_eq (cf : Cfg) (hnd : cf.order.Nodup) (hdb : DepsBefore cf.deps cf.order) (l1 : List Path) (m : Path) (l2 : List Path)
    (ho : cf.order = l1 ++ m :: l2) :
    refVal cf m = some (cf.analyse m ((cf.deps m).map (fun d => (d, refVal cf d)))).1 := by
  unfold refVal
  rw [seqCache_eq, ho, List.foldl_append, List.foldl_cons]
  have hm1 : m ∉ l1 := by
    rw [ho] at hnd
    have := List.nodup_append.mp hnd
    exact fun h => this.2.2 m h m (List.mem_cons_self ..) rfl
  have hnone : lookup (l1.foldl (seqStep cf) []) m = none := by
    have := (foldl_keys cf l1 [] m)
    cases hl : lookup (l1.foldl (seqStep cf) []) m with
    | none => rfl
    | some x =>
      rw [hl] at this
      have := this.mp rfl
      rcases this with h | h
      · simp [lookup] at h
      · exact absurd h hm1
  -- the inputs read at that point are the final reference entries
  have hin : cf.inputs (l1.foldl (seqStep cf) []) m =
      (cf.deps m).map (fun d => (d, lookup ((l2.foldl (seqStep cf) (seqStep cf (l1.foldl (seqStep cf) []) m))) d)) := by
    unfold Cfg.inputs
    apply List.map_congr_left
    intro d hd
    have hd1 : d ∈ l1 := hdb l1 m l2 ho d hd
    have hs : (lookup (l1.foldl (seqStep cf) []) d).isSome := (foldl_keys cf l1 [] d).mpr (Or.inr hd1)
    obtain ⟨x, hx⟩ := Option.isSome_iff_exists.mp hs
    have h2 : lookup (seqStep cf (l1.foldl (seqStep cf) []) m) d = some x :=
      lookup_append_of_some hx _ _
    rw [hx, foldl_stable cf l2 _ d x h2]
  have hentry : lookup (seqStep cf (l1.foldl (seqStep cf) []) m) m =
      some (cf.analyse m (cf.inputs (l1.foldl (seqStep cf) []) m)).1 := by
    show lookup (l1.foldl (seqStep cf) [] ++ [(m, (cf.analyse m (cf.inputs (l1.foldl (seqStep cf) []) m)).1)]) m = _
    rw [lookup_append, hnone]; simp
  rw [foldl_stable cf l2 _ m _ hentry, hin]

/-- the diagnostics module `m` contributes in the reference analysis -/
def refDiags (cf : Cfg) (m : Path) : List Diag :=
  (cf.analyse m ((cf.deps m).map (fun d => (d, refVal cf d)))).2

/-- the schedule invariant: whatever has finished so far has registered its reference value, the diagnostics appended so far
    are those of the finished threads (in finishing order), and the spawned prefix of `order` is running ∪ finished -/
structure SInv (cf : Cfg) (s : State) : Prop where
  pre : ∃ pre, cf.order = pre ++ s.toSpawn ∧ ∀ x, x ∈ pre ↔ (x ∈ s.running ∨ x ∈ s.finished)
  vals : ∀ m, lookup s.cache m = if m ∈ s.finished then refVal cf m else none
  diags : s.diags = s.finished.flatMap (refDiags cf)
  fnodup : s.finished.Nodup
  disj : ∀ x ∈ s.running, x ∉ s.finished
  rnodup : s.running.Nodup


theorem SInv.init (cf : Cfg) : SInv cf cf.init :=
  ⟨⟨[], by simp [Cfg.init], by simp [Cfg.init]⟩, by intro m; simp [Cfg.init, lookup], by simp [Cfg.init],
   by simp [Cfg.init], by simp [Cfg.init], by simp [Cfg.init]⟩

theorem SInv.step {cf : Cfg} (hnd : cf.order.Nodup) (hdb : DepsBefore cf.deps cf.order) {s : State} (h : SInv cf s)
    (a : Step) (he : cf.enabled s a = true) : SInv cf (cf.step s a) := by
  obtain ⟨⟨pre, ho, hm⟩, hv, hd, hfn, hdj, hrn⟩ := h
  cases a with
  | spawn m =>
    simp only [Cfg.enabled, beq_iff_eq] at he
    cases hts : s.toSpawn with
    | nil => rw [hts] at he; simp at he
    | cons y t =>
      rw [hts] at he; simp at he; subst he
      have hy : y ∉ pre := by
        rw [ho, hts] at hnd
        have := List.nodup_append.mp hnd
        exact fun hp => this.2.2 y hp y (List.mem_cons_self ..) rfl
      have hyr : y ∉ s.running := fun hr => hy ((hm y).mpr (Or.inl hr))
      have hyf : y ∉ s.finished := fun hf => hy ((hm y).mpr (Or.inr hf))
      refine ⟨⟨pre ++ [y], by simp [Cfg.step, hts, ho], fun x => ?_⟩, hv, hd, hfn, ?_, ?_⟩
      · simp only [Cfg.step, List.mem_append, List.mem_singleton, hm x]
        constructor
        · rintro (h | h)
          · rcases h with h | h
            · exact Or.inl (Or.inl h)
            · exact Or.inr h
          · exact Or.inl (Or.inr h)
        · rintro (h | h)
          · rcases h with h | h
            · exact Or.inl (Or.inl h)
            · exact Or.inr h
          · exact Or.inl (Or.inr h)
      · intro x hx
        simp only [Cfg.step, List.mem_append, List.mem_singleton] at hx
        rcases hx with h | h
        · exact hdj x h
        · subst h; exact hyf
      · simp only [Cfg.step]
        exact List.nodup_append.mpr ⟨hrn, by simp, by intro a ha b hb; simp at hb; subst hb; exact fun e => hyr (e ▸ ha)⟩
  | finish m =>
    simp only [Cfg.enabled, Bool.and_eq_true, List.contains_eq_mem, decide_eq_true_eq, List.all_eq_true] at he
    obtain ⟨hmr, hdeps⟩ := he
    have hmf : m ∉ s.finished := hdj m hmr
    have hmo : m ∈ cf.order := by rw [ho]; exact List.mem_append.mpr (Or.inl ((hm m).mpr (Or.inl hmr)))
    obtain ⟨l1, l2, hsplit⟩ := List.append_of_mem hmo
    have hin : cf.inputs s.cache m = (cf.deps m).map (fun d => (d, refVal cf d)) := by
      unfold Cfg.inputs
      apply List.map_congr_left
      intro d hd'
      rw [hv d, if_pos (hdeps d hd')]
    have hval := refVal_eq cf hnd hdb l1 m l2 hsplit
    refine ⟨⟨pre, ho, fun x => ?_⟩, ?_, ?_, ?_, ?_, ?_⟩
    · simp only [Cfg.step, List.mem_append, List.mem_singleton, hm x]
      by_cases hx : x = m
      · subst hx; exact ⟨fun _ => Or.inr (Or.inr rfl), fun _ => Or.inl hmr⟩
      · constructor
        · rintro (h | h)
          · exact Or.inl ((List.mem_erase_of_ne hx).mpr h)
          · exact Or.inr (Or.inl h)
        · rintro (h | h | h)
          · exact Or.inl (List.mem_of_mem_erase h)
          · exact Or.inr h
          · exact absurd h hx
    · intro p
      simp only [Cfg.step]
      rw [lookup_append, hv p, hin]
      by_cases hp : p ∈ s.finished
      · have hpm : m ≠ p := fun e => hmf (e ▸ hp)
        simp only [hp, if_true, List.mem_append, true_or]
        cases hr : refVal cf p with
        | some x => rfl
        | none => simp [hpm]
      · simp only [hp, if_false]
        by_cases hpm : m = p
        · subst hpm; simp [hval]
        · have : p ∉ s.finished ++ [m] := by simp [hp, Ne.symm hpm]
          simp [hpm, this]
    · simp only [Cfg.step]
      rw [hd, List.flatMap_append, hin]
      simp [refDiags]
    · simp only [Cfg.step]
      exact List.nodup_append.mpr ⟨hfn, by simp, by intro a ha b hb; simp at hb; subst hb; exact fun e => hmf (e ▸ ha)⟩
    · intro x hx
      simp only [Cfg.step] at hx ⊢
      have hx' := (List.Nodup.mem_erase_iff hrn).mp hx
      simp only [List.mem_append, List.mem_singleton, not_or]
      exact ⟨hdj x hx'.2, hx'.1⟩
    · simp only [Cfg.step]
      exact hrn.erase m

theorem SInv.run {cf : Cfg} (hnd : cf.order.Nodup) (hdb : DepsBefore cf.deps cf.order) :
    ∀ (σ : List Step) (s t : State), SInv cf s → cf.run s σ = some t → SInv cf t := by
  intro σ
  induction σ with
  | nil => intro s t h hr; simp [Cfg.run] at hr; subst hr; exact h
  | cons a as ih =>
    intro s t h hr
    unfold Cfg.run at hr
    by_cases he : cf.enabled s a = true
    · simp only [he, if_true] at hr
      exact ih _ t (h.step hnd hdb a he) hr
    · simp [he] at hr

/-- in a final state exactly the modules of `order` have finished -/
theorem SInv.done_finished {cf : Cfg} {s : State} (h : SInv cf s) (hd : s.done = true) : ∀ x, x ∈ s.finished ↔ x ∈ cf.order := by
  obtain ⟨pre, ho, hm⟩ := h.pre
  simp only [State.done, Bool.and_eq_true, List.isEmpty_iff] at hd
  intro x
  rw [ho, hd.1, List.append_nil, hm x, hd.2]
  simp

end ErgVerif.C19
