import ErgVerif.C05.Model
/-! C05 — helper lemmas: typing is strict, so an untypable sub-term makes every enclosing term untypable; every injector
    produces an untypable sub-term at every position where it applies. -/
namespace ErgVerif.C05

theorem sig_clash (op : Op) (a : Ty) : sig op a (clashTy a) = none := by
  cases op <;> cases a <;> decide

theorem clashParam_not_sub (p : Ty) : (clashParam p).sub p = false := by
  cases p <;> decide

theorem attr_missing (t : Ty) : attrTy t missingAttrId = none := by
  cases t <;> rfl

/-- strictness: replacing a child by an untypable term makes the parent untypable -/
theorem setChild_none (Φ : List FunSig) (Γ : List Ty) (e c n : Expr) (i : Nat)
    (hc : e.child i = some c) (hn : typeOf Φ Γ n = none) : typeOf Φ Γ (e.setChild i n) = none := by
  cases e with
  | lit t v => simp [Expr.child] at hc
  | var x => simp [Expr.child] at hc
  | call0 f => simp [Expr.child] at hc
  | bin op l r =>
    match i, hc with
    | 0, _ => simp [Expr.setChild, typeOf, hn]
    | 1, _ => cases h : typeOf Φ Γ l <;> simp [Expr.setChild, typeOf, hn, h]
    | i + 2, hc => simp [Expr.child] at hc
  | ite c0 a b =>
    match i, hc with
    | 0, _ => simp [Expr.setChild, typeOf, hn]
    | 1, _ => cases h : typeOf Φ Γ c0 <;> simp [Expr.setChild, typeOf, hn, h]
    | 2, _ => cases h : typeOf Φ Γ c0 <;> cases h2 : typeOf Φ Γ a <;> simp [Expr.setChild, typeOf, hn, h, h2]
    | i + 3, hc => simp [Expr.child] at hc
  | call1 f a =>
    match i, hc with
    | 0, _ => simp [Expr.setChild, typeOf, hn]
    | i + 1, hc => simp [Expr.child] at hc
  | call2 f a b =>
    match i, hc with
    | 0, _ => simp [Expr.setChild, typeOf, hn]
    | 1, _ => cases h : typeOf Φ Γ a <;> simp [Expr.setChild, typeOf, hn, h]
    | i + 2, hc => simp [Expr.child] at hc
  | attr e0 a =>
    match i, hc with
    | 0, _ => simp [Expr.setChild, typeOf, hn]
    | i + 1, hc => simp [Expr.child] at hc

/-- … at any depth: induction on the context around the position -/
theorem replaceAt_none (Φ : List FunSig) (Γ : List Ty) (n : Expr) (hn : typeOf Φ Γ n = none) :
    ∀ (π : Path) (e s : Expr), subAt e π = some s → typeOf Φ Γ (replaceAt e π n) = none
  | [], _, _, _ => by simpa [replaceAt] using hn
  | i :: π, e, s, h => by
    cases hc : e.child i with
    | none => simp [subAt, hc] at h
    | some c =>
      simp only [subAt, hc] at h
      simp only [replaceAt, hc]
      exact setChild_none Φ Γ e c _ i hc (replaceAt_none Φ Γ n hn π c s h)

/-- sub-terms of a typable term are typable -/
theorem child_typable (Φ : List FunSig) (Γ : List Ty) (e c : Expr) (i : Nat) (T : Ty)
    (ht : typeOf Φ Γ e = some T) (hc : e.child i = some c) : ∃ T', typeOf Φ Γ c = some T' := by
  cases e with
  | lit t v => simp [Expr.child] at hc
  | var x => simp [Expr.child] at hc
  | call0 f => simp [Expr.child] at hc
  | bin op l r =>
    simp only [typeOf] at ht
    cases hl : typeOf Φ Γ l <;> cases hr : typeOf Φ Γ r <;> simp [hl, hr] at ht
    match i, hc with
    | 0, hc => simp [Expr.child] at hc; subst hc; exact ⟨_, hl⟩
    | 1, hc => simp [Expr.child] at hc; subst hc; exact ⟨_, hr⟩
    | i + 2, hc => simp [Expr.child] at hc
  | ite c0 a b =>
    simp only [typeOf] at ht
    cases h0 : typeOf Φ Γ c0 <;> cases ha : typeOf Φ Γ a <;> cases hb : typeOf Φ Γ b <;> simp [h0, ha, hb] at ht
    match i, hc with
    | 0, hc => simp [Expr.child] at hc; subst hc; exact ⟨_, h0⟩
    | 1, hc => simp [Expr.child] at hc; subst hc; exact ⟨_, ha⟩
    | 2, hc => simp [Expr.child] at hc; subst hc; exact ⟨_, hb⟩
    | i + 3, hc => simp [Expr.child] at hc
  | call1 f a =>
    simp only [typeOf] at ht
    cases ha : typeOf Φ Γ a <;> simp [ha] at ht
    match i, hc with
    | 0, hc => simp [Expr.child] at hc; subst hc; exact ⟨_, ha⟩
    | i + 1, hc => simp [Expr.child] at hc
  | call2 f a b =>
    simp only [typeOf] at ht
    cases ha : typeOf Φ Γ a <;> cases hb : typeOf Φ Γ b <;> simp [ha, hb] at ht
    match i, hc with
    | 0, hc => simp [Expr.child] at hc; subst hc; exact ⟨_, ha⟩
    | 1, hc => simp [Expr.child] at hc; subst hc; exact ⟨_, hb⟩
    | i + 2, hc => simp [Expr.child] at hc
  | attr e0 a =>
    simp only [typeOf] at ht
    cases h0 : typeOf Φ Γ e0 <;> simp [h0] at ht
    match i, hc with
    | 0, hc => simp [Expr.child] at hc; subst hc; exact ⟨_, h0⟩
    | i + 1, hc => simp [Expr.child] at hc

theorem subAt_typable (Φ : List FunSig) (Γ : List Ty) :
    ∀ (π : Path) (e s : Expr) (T : Ty), typeOf Φ Γ e = some T → subAt e π = some s → ∃ T', typeOf Φ Γ s = some T'
  | [], e, s, T, ht, h => by
    simp [subAt] at h; subst h; exact ⟨T, ht⟩
  | i :: π, e, s, T, ht, h => by
    cases hc : e.child i with
    | none => simp [subAt, hc] at h
    | some c =>
      simp only [subAt, hc] at h
      obtain ⟨T', hT'⟩ := child_typable Φ Γ e c i T ht hc
      exact subAt_typable Φ Γ π c s T' hT' h

/-- every injector turns a typable sub-term into an untypable one -/
theorem injLocal_untypable (k : Inj) (Φ : List FunSig) (Γ : List Ty) (s s' : Expr) (T : Ty)
    (ht : typeOf Φ Γ s = some T) (hi : injLocal k Φ Γ s = some s') : typeOf Φ Γ s' = none := by
  cases k with
  | operand =>
    cases s with
    | bin op l r =>
      simp only [injLocal] at hi
      cases hl : typeOf Φ Γ l with
      | none => simp [hl] at hi
      | some a =>
        simp [hl] at hi
        subst hi
        simp [typeOf, hl, sig_clash]
    | _ => simp [injLocal] at hi
  | dropArg =>
    cases s with
    | call2 f a b =>
      simp only [injLocal] at hi
      cases hf : Φ[f]? with
      | none => simp [hf] at hi
      | some fs =>
        cases fs <;> simp [hf] at hi
        subst hi
        cases ha : typeOf Φ Γ a <;> simp [typeOf, ha, hf]
    | call1 f a =>
      simp only [injLocal] at hi
      cases hf : Φ[f]? with
      | none => simp [hf] at hi
      | some fs =>
        cases fs <;> simp [hf] at hi
        subst hi
        simp [typeOf, hf]
    | _ => simp [injLocal] at hi
  | addArg =>
    cases s with
    | call1 f a =>
      simp only [injLocal] at hi
      cases hf : Φ[f]? with
      | none => simp [hf] at hi
      | some fs =>
        cases fs <;> simp [hf] at hi <;> subst hi <;> cases ha : typeOf Φ Γ a <;> simp [typeOf, ha, hf]
    | _ => simp [injLocal] at hi
  | badArg =>
    cases s with
    | call1 f a =>
      simp only [injLocal] at hi
      cases hf : Φ[f]? with
      | none => simp [hf] at hi
      | some fs =>
        cases fs <;> simp [hf] at hi <;> subst hi <;> simp [typeOf, hf, clashParam_not_sub]
    | call2 f a b =>
      simp only [injLocal] at hi
      cases hf : Φ[f]? with
      | none => simp [hf] at hi
      | some fs =>
        cases fs <;> simp [hf] at hi
        subst hi
        cases ha : typeOf Φ Γ a <;> simp [typeOf, ha, hf, clashParam_not_sub]
    | _ => simp [injLocal] at hi
  | rename =>
    cases s with
    | var x =>
      simp [injLocal] at hi
      subst hi
      simp [typeOf]
    | _ => simp [injLocal] at hi
  | missingAttr =>
    simp only [injLocal, ht, Option.isSome_some, if_true, Option.some.injEq] at hi
    · subst hi
      simp [typeOf, ht, attr_missing]

theorem mem_positions (k : Inj) (Φ : List FunSig) (Γ : List Ty) (e : Expr) (π : Path) (h : π ∈ positions k Φ Γ e) :
    ∃ s s', subAt e π = some s ∧ injLocal k Φ Γ s = some s' := by
  simp only [positions, List.mem_filter] at h
  obtain ⟨_, h2⟩ := h
  cases hs : subAt e π with
  | none => simp [hs] at h2
  | some s =>
    simp only [hs] at h2
    cases hi : injLocal k Φ Γ s with
    | none => simp [hi] at h2
    | some s' => exact ⟨s, s', rfl, hi⟩

/-- expression level: an injected expression has no type, at any position and depth -/
theorem injectE_untypable (k : Inj) (Φ : List FunSig) (Γ : List Ty) (e : Expr) (T : Ty) (π : Path)
    (ht : typeOf Φ Γ e = some T) (hp : π ∈ positions k Φ Γ e) : typeOf Φ Γ (injectE k Φ Γ π e) = none := by
  obtain ⟨s, s', hs, hi⟩ := mem_positions k Φ Γ e π hp
  obtain ⟨T', hT'⟩ := subAt_typable Φ Γ π e s T ht hs
  simp only [injectE, hs, hi]
  exact replaceAt_none Φ Γ s' (injLocal_untypable k Φ Γ s s' T' hT' hi) π e s hs

/-- statement level -/
theorem injectS_illtyped (k : Inj) (Φ : List FunSig) (Γ : List Ty) (s : Stmt) (slot : Nat) (π : Path)
    (r : List FunSig × List Ty) (hs : step Φ Γ s = some r) (hp : (slot, π) ∈ positionsS k Φ Γ s) :
    step Φ Γ (injectS k Φ Γ slot π s) = none := by
  cases s with
  | defv e =>
    simp only [positionsS, List.mem_map, Prod.mk.injEq] at hp
    obtain ⟨π', hπ, _, rfl⟩ := hp
    simp only [step] at hs
    cases ht : typeOf Φ Γ e with
    | none => simp [ht] at hs
    | some T => simp [injectS, step, injectE_untypable k Φ Γ e T π' ht hπ]
  | print e =>
    simp only [positionsS, List.mem_map, Prod.mk.injEq] at hp
    obtain ⟨π', hπ, _, rfl⟩ := hp
    simp only [step] at hs
    cases ht : typeOf Φ Γ e with
    | none => simp [ht] at hs
    | some T => simp [injectS, step, injectE_untypable k Φ Γ e T π' ht hπ]
  | fun1 p b =>
    simp only [positionsS, List.mem_map, Prod.mk.injEq] at hp
    obtain ⟨π', hπ, _, rfl⟩ := hp
    simp only [step] at hs
    cases ht : typeOf Φ (Γ ++ [p]) b with
    | none => simp [ht] at hs
    | some T => simp [injectS, step, injectE_untypable k Φ _ b T π' ht hπ]
  | fun2 p q b =>
    simp only [positionsS, List.mem_map, Prod.mk.injEq] at hp
    obtain ⟨π', hπ, _, rfl⟩ := hp
    simp only [step] at hs
    cases ht : typeOf Φ (Γ ++ [p, q]) b with
    | none => simp [ht] at hs
    | some T => simp [injectS, step, injectE_untypable k Φ _ b T π' ht hπ]
  | lam p b =>
    simp only [positionsS, List.mem_map, Prod.mk.injEq] at hp
    obtain ⟨π', hπ, _, rfl⟩ := hp
    simp only [step] at hs
    cases ht : typeOf Φ (Γ ++ [p]) b with
    | none => simp [ht] at hs
    | some T => simp [injectS, step, injectE_untypable k Φ _ b T π' ht hπ]
  | forp h b =>
    simp only [positionsS, List.mem_map, Prod.mk.injEq] at hp
    obtain ⟨π', hπ, _, rfl⟩ := hp
    simp only [step] at hs
    cases ht : typeOf Φ (Γ ++ [.nat]) b with
    | none => simp [ht] at hs
    | some T => simp [injectS, step, injectE_untypable k Φ _ b T π' ht hπ]
  | printEnd e d =>
    simp only [step] at hs
    cases he : typeOf Φ Γ e with
    | none => simp [he] at hs
    | some Te =>
      cases hd : typeOf Φ Γ d with
      | none => simp [he, hd] at hs
      | some Td =>
        simp only [positionsS, List.mem_append, List.mem_map, Prod.mk.injEq] at hp
        rcases hp with ⟨π', hπ, h0, rfl⟩ | ⟨π', hπ, h1, rfl⟩
        · subst h0
          simp [injectS, step, injectE_untypable k Φ Γ e Te π' he hπ]
        · subst h1
          simp [injectS, step, he, injectE_untypable k Φ Γ d Td π' hd hπ]
  | defvK f a b =>
    simp only [step] at hs
    cases ha : typeOf Φ Γ a with
    | none => simp [ha] at hs
    | some Ta =>
      cases hb : typeOf Φ Γ b with
      | none => simp [ha, hb] at hs
      | some Tb =>
        simp only [positionsS, List.mem_append, List.mem_map, Prod.mk.injEq] at hp
        rcases hp with ⟨π', hπ, h0, rfl⟩ | ⟨π', hπ, h1, rfl⟩
        · subst h0
          simp [injectS, step, injectE_untypable k Φ Γ a Ta π' ha hπ]
        · subst h1
          simp [injectS, step, ha, injectE_untypable k Φ Γ b Tb π' hb hπ]
  | fun1d p d b =>
    simp only [step] at hs
    cases hd : typeOf Φ Γ d with
    | none => simp [hd] at hs
    | some Td =>
      cases hb : typeOf Φ (Γ ++ [p]) b with
      | none => simp [hd, hb] at hs
      | some Tb =>
        simp only [positionsS, List.mem_append, List.mem_map, Prod.mk.injEq] at hp
        rcases hp with ⟨π', hπ, h0, rfl⟩ | ⟨π', hπ, h1, rfl⟩
        · subst h0
          simp [injectS, step, injectE_untypable k Φ Γ d Td π' hd hπ]
        · subst h1
          simp [injectS, step, hd, injectE_untypable k Φ _ b Tb π' hb hπ]

/-- program level: by induction on the statements before the injected one -/
theorem injectFrom_illtyped (k : Inj) : ∀ (p : List Stmt) (Φ : List FunSig) (Γ : List Ty) (pos : Pos),
    check Φ Γ p = true → pos ∈ positionsFrom k Φ Γ p →
    check Φ Γ (injectFrom k Φ Γ pos.stmt pos.slot pos.path p) = false
  | [], _, _, _, _, hp => by simp [positionsFrom] at hp
  | s :: rest, Φ, Γ, pos, hc, hp => by
    simp only [check] at hc
    cases hs : step Φ Γ s with
    | none => simp [hs] at hc
    | some r =>
      obtain ⟨Φ', Γ'⟩ := r
      simp only [hs] at hc
      simp only [positionsFrom, hs, List.mem_append, List.mem_map] at hp
      rcases hp with ⟨q, hq, rfl⟩ | ⟨q, hq, rfl⟩
      · simp only [injectFrom, check]
        rw [injectS_illtyped k Φ Γ s q.1 q.2 (Φ', Γ') hs hq]
      · simp only [injectFrom, hs, check]
        exact injectFrom_illtyped k rest Φ' Γ' q hc hq

end ErgVerif.C05
