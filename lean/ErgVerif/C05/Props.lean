import ErgVerif.C05.Proofs
/-!
C05 — property theorems: a program of the fragment with one injected definite error has no typing in the specification type
system — for every injector, every position where it applies and any nesting depth (operands, call arguments, if-branches,
attribute receivers; function and lambda bodies, default arguments, loop bodies at statement level).
-/
namespace ErgVerif.C05

/-- untypability of a sub-term propagates through every context (typing is syntax-directed and strict) -/
theorem C05_untypable_propagates (Φ : List FunSig) (Γ : List Ty) (e s n : Expr) (π : Path) :
    subAt e π = some s → (¬ ∃ T, HasType Φ Γ n T) → ¬ ∃ T, HasType Φ Γ (replaceAt e π n) T := by
  intro hs hn
  have h0 : typeOf Φ Γ n = none := by
    cases h : typeOf Φ Γ n with
    | none => rfl
    | some T => exact absurd ⟨T, h⟩ hn
  rintro ⟨T, hT⟩
  simp [HasType, replaceAt_none Φ Γ n h0 π e s hs] at hT

/-- expression level: `HasType e T → π ∈ positions k e → ¬ ∃ T', HasType (injectE k π e) T'` -/
theorem C05_inject_untypable_expr (k : Inj) (Φ : List FunSig) (Γ : List Ty) (e : Expr) (T : Ty) (π : Path) :
    HasType Φ Γ e T → π ∈ positions k Φ Γ e → ¬ ∃ T', HasType Φ Γ (injectE k Φ Γ π e) T' := by
  intro ht hp
  rintro ⟨T', hT'⟩
  simp [HasType, injectE_untypable k Φ Γ e T π ht hp] at hT'

/-- program level: a well-typed program with one injected error at any statement, slot and position is not well-typed -/
theorem C05_inject_untypable (k : Inj) (p : List Stmt) (pos : Pos) :
    WellTyped p → pos ∈ positionsP k p → ¬ WellTyped (inject k pos p) := by
  intro hw hp
  simp only [WellTyped, inject]
  rw [injectFrom_illtyped k p [] [] pos hw hp]
  simp

/-- every path to a sub-term is enumerated … -/
theorem mem_allPaths : ∀ (π : Path) (e s : Expr), subAt e π = some s → π ∈ allPaths e
  | [], e, _, _ => by cases e <;> simp [allPaths]
  | i :: π, e, s, h => by
    cases hc : e.child i with
    | none => simp [subAt, hc] at h
    | some c =>
      simp only [subAt, hc] at h
      have ih := mem_allPaths π c s h
      cases e with
      | lit t v => simp [Expr.child] at hc
      | var x => simp [Expr.child] at hc
      | call0 f => simp [Expr.child] at hc
      | bin op l r =>
        match i, hc with
        | 0, hc => simp [Expr.child] at hc; subst hc; simp [allPaths, ih]
        | 1, hc => simp [Expr.child] at hc; subst hc; simp [allPaths, ih]
        | i + 2, hc => simp [Expr.child] at hc
      | ite c0 a b =>
        match i, hc with
        | 0, hc => simp [Expr.child] at hc; subst hc; simp [allPaths, ih]
        | 1, hc => simp [Expr.child] at hc; subst hc; simp [allPaths, ih]
        | 2, hc => simp [Expr.child] at hc; subst hc; simp [allPaths, ih]
        | i + 3, hc => simp [Expr.child] at hc
      | call1 f a =>
        match i, hc with
        | 0, hc => simp [Expr.child] at hc; subst hc; simp [allPaths, ih]
        | i + 1, hc => simp [Expr.child] at hc
      | call2 f a b =>
        match i, hc with
        | 0, hc => simp [Expr.child] at hc; subst hc; simp [allPaths, ih]
        | 1, hc => simp [Expr.child] at hc; subst hc; simp [allPaths, ih]
        | i + 2, hc => simp [Expr.child] at hc
      | attr e0 a =>
        match i, hc with
        | 0, hc => simp [Expr.child] at hc; subst hc; simp [allPaths, ih]
        | i + 1, hc => simp [Expr.child] at hc

/-- … so `positions` lists EVERY position where the injector applies (the quantifier "every position, any depth") -/
theorem C05_positions_complete (k : Inj) (Φ : List FunSig) (Γ : List Ty) (e s s' : Expr) (π : Path) :
    subAt e π = some s → injLocal k Φ Γ s = some s' → π ∈ positions k Φ Γ e := by
  intro hs hi
  simp only [positions, List.mem_filter]
  exact ⟨mem_allPaths π e s hs, by simp [hs, hi]⟩

/-- the operator table has no row for the clash type, whatever the operator and left operand -/
theorem C05_sig_clash (op : Op) (a : Ty) : sig op a (clashTy a) = none := sig_clash op a

/-! ### non-vacuity: a program with every statement form, errors injected at depth -/

/-- v0 = 3; v1 = -1; v2 = "s0"; v3 = True; f0(p: Int) = p + v0; f1(p: Nat, q: Str) = q + q; f2(p: Int := v0) = p * 2;
    f3 = (p: Nat) -> if(v3, do(p), do(f0(p))); v4 = f0(f2(v1)) - f3(v0.bit_length()); for! 0..<2, i => print! f1(i + v0, v2 + "s1");
    print! if(v3 and (v0 < v4), do(f2()), do(v1.real)) -/
def exP : List Stmt := [
  .defv (.lit .nat 3), .defv (.lit .int 0), .defv (.lit .str 0), .defv (.lit .bool 1),
  .fun1 .int (.bin .add (.var 4) (.var 0)),
  .fun2 .nat .str (.bin .add (.var 5) (.var 5)),
  .fun1d .int (.var 0) (.bin .mul (.var 4) (.lit .nat 2)),
  .lam .nat (.ite (.var 3) (.var 4) (.call1 0 (.var 4))),
  .defv (.bin .sub (.call1 0 (.call1 2 (.var 1))) (.call1 3 (.attr (.var 0) 0))),
  .forp 2 (.call2 1 (.bin .add (.var 5) (.var 0)) (.bin .add (.var 2) (.lit .str 1))),
  .print (.ite (.bin .and_ (.var 3) (.bin .lt (.var 0) (.var 4))) (.call0 2) (.attr (.var 1) 2))]

example : WellTyped exP := by unfold WellTyped; decide
example : (Inj.all.map (fun k => (positionsP k exP).length)) = [8, 4, 4, 5, 18, 42] := by decide
/-- a position three levels deep inside the lambda body's nested call, and one in the default argument -/
example : (⟨7, 0, [2, 0]⟩ : Pos) ∈ positionsP .rename exP ∧ (⟨6, 0, []⟩ : Pos) ∈ positionsP .missingAttr exP := by decide
example : check [] [] (inject .rename ⟨7, 0, [2, 0]⟩ exP) = false := by decide

/-! ### the recorded finding at its witness -/

/-- c = False; x = if(c, do(-2), do(-9)); v = x < 1 -/
def witP : List Stmt := [.defv (.lit .bool 0), .defv (.ite (.var 0) (.lit .int 1) (.lit .int 8)), .defv (.bin .lt (.var 1) (.lit .nat 1))]

/-- finding C05-lt-enum-operand-accepted: the program `… v = x < "s0"` (operand injector at the `<`) is untypable in the
    specification and falls in the recorded class; the real checker accepts it and the run raises TypeError -/
theorem C05_witness_lt_enum :
    check [] [] witP = true ∧ (⟨2, 0, []⟩ : Pos) ∈ positionsP .operand witP ∧
      check [] [] (inject .operand ⟨2, 0, []⟩ witP) = false ∧ inKLtEnum .operand witP ⟨2, 0, []⟩ = true := by decide

/-- v0 = 3; for! 0..<3, i => print!((i + 2) + (i * 1)) -/
def witLoop : List Stmt := [.defv (.lit .nat 3), .forp 3 (.bin .add (.bin .add (.var 1) (.lit .nat 2)) (.bin .mul (.var 1) (.lit .nat 1)))]

/-- finding C05-loopvar-mul-str-accepted at its witness: `(i + 2) + (i * "s0")` is untypable in the specification and in the class -/
theorem C05_witness_loopvar :
    check [] [] witLoop = true ∧ (⟨1, 0, [1]⟩ : Pos) ∈ positionsP .operand witLoop ∧
      check [] [] (inject .operand ⟨1, 0, [1]⟩ witLoop) = false ∧ inKLoopVarMul .operand witLoop ⟨1, 0, [1]⟩ = true := by decide

/-! ### keyword arguments: positions inside `end := …` and `q := …` are covered by the theorem -/

/-- v0 = 3; v1 = "s0"; f0(p: Nat, q: Str) = q + q; print!(v0, end := v1 + "s1"); v2 = f0(v0 + 1, q := v1 + "s1") -/
def kwP : List Stmt := [.defv (.lit .nat 3), .defv (.lit .str 0), .fun2 .nat .str (.bin .add (.var 3) (.var 3)),
  .printEnd (.var 0) (.bin .add (.var 1) (.lit .str 1)), .defvK 0 (.bin .add (.var 0) (.lit .nat 1)) (.bin .add (.var 1) (.lit .str 1))]

example : check [] [] kwP = true ∧ (⟨3, 1, [0]⟩ : Pos) ∈ positionsP .rename kwP ∧ (⟨4, 1, []⟩ : Pos) ∈ positionsP .operand kwP ∧
    check [] [] (inject .rename ⟨3, 1, [0]⟩ kwP) = false ∧ check [] [] (inject .operand ⟨4, 1, []⟩ kwP) = false := by decide

end ErgVerif.C05
