/-!
C05 — definite static errors are always rejected.

A specification-level type system for a small expression/statement fragment and the error INJECTORS as functions on
programs and positions. The real checker (lower.rs, inquire.rs `get_call_t`/`rec_get_var_info`/`get_attr_info`, compare.rs)
is NOT transcribed: it is tied by verdict correspondence (checks/c05.py): programs the spec types must be accepted, programs
produced by the injectors (which the theorem shows untypable) must be rejected with ≥ 1 error and must not run.

* types `Nat Int Bool Str`, `Bool <: Nat <: Int`;
* expressions: typed literals, variables (index into the environment), binary operators `+ - * < and`, `if(c, do a, do b)`,
  calls of user functions with 0/1/2 arguments, attribute selection (`.bit_length()`, `.isascii()`, `.real`);
* statements: `v = e`, `print! e`, `f(p: P) = e`, `f(p: P, q: Q) = e`, `f(p: P := d) = e`, `f = (p: P) -> e`,
  `for! 0..<n, i => print! e`, `print!(e, end := d)`, `v = f(a, q := b)` (keyword arguments) (the nesting contexts of the property: function and lambda bodies, default arguments, loop
  bodies, nested calls and operands);
* `sig`: operator signature table (hand-written; validated by the tie: every spec-typable generated program must be
  accepted by the real checker);
* injectors `Inj`: operand of a type with no signature row, dropped / added call argument, argument outside the parameter
  type, reference renamed to a fresh name, missing attribute.
Core Lean only.
-/
namespace ErgVerif.C05

inductive Ty where
  | nat | int | bool | str
  deriving DecidableEq, Repr, Inhabited

def Ty.sub : Ty → Ty → Bool
  | .bool, .bool => true | .bool, .nat => true | .bool, .int => true
  | .nat, .nat => true | .nat, .int => true
  | .int, .int => true
  | .str, .str => true
  | _, _ => false

def Ty.numeric : Ty → Bool
  | .str => false
  | _ => true

inductive Op where
  | add | sub | mul | lt | and_
  deriving DecidableEq, Repr, Inhabited

/-- result class of `+`/`*` on numeric operands: Nat unless an Int is involved -/
def numJoin (a b : Ty) : Ty := if a = .int ∨ b = .int then .int else .nat

/-- operator signatures of the fragment -/
def sig : Op → Ty → Ty → Option Ty
  | .add, a, b => if a = .str ∧ b = .str then some .str
                  else if a.numeric ∧ b.numeric then some (numJoin a b) else none
  | .mul, a, b => if a.numeric ∧ b.numeric then some (numJoin a b) else none
  | .sub, a, b => if a.numeric ∧ b.numeric then some .int else none
  | .lt, a, b => if (a.numeric ∧ b.numeric) ∨ (a = .str ∧ b = .str) then some .bool else none
  | .and_, a, b => if a = .bool ∧ b = .bool then some .bool else none

inductive FunSig where
  | one (p r : Ty)        -- f(p: P) = …
  | oneD (p r : Ty)       -- f(p: P := d) = …   (callable with 0 or 1 argument)
  | two (p q r : Ty)      -- f(p: P, q: Q) = …
  deriving DecidableEq, Repr, Inhabited

/-- attribute tables: 0 `.bit_length()`, 1 `.isascii()`, 2 `.real`; every other id is missing on every type -/
def attrTy : Ty → Nat → Option Ty
  | .str, 1 => some .bool
  | .str, _ => none
  | _, 0 => some .nat
  | _, 2 => some .int
  | _, _ => none

inductive Expr where
  | lit (t : Ty) (v : Nat)
  | var (x : Nat)
  | bin (op : Op) (l r : Expr)
  | ite (c a b : Expr)
  | call0 (f : Nat)
  | call1 (f : Nat) (a : Expr)
  | call2 (f : Nat) (a b : Expr)
  | attr (e : Expr) (a : Nat)
  deriving DecidableEq, Repr, Inhabited

/-- join of the branch types of an if-expression (the spec keeps to same-kind branches) -/
def joinTy (a b : Ty) : Option Ty :=
  if a = b then some a
  else if a.numeric ∧ b.numeric then some (if a.sub b then b else if b.sub a then a else .int)
  else none

/-- syntax-directed typing (a function: a term has at most one type; `none` = untypable). Strict in every sub-term. -/
def typeOf (Φ : List FunSig) (Γ : List Ty) : Expr → Option Ty
  | .lit t _ => some t
  | .var x => Γ[x]?
  | .bin op l r =>
    match typeOf Φ Γ l, typeOf Φ Γ r with
    | some a, some b => sig op a b
    | _, _ => none
  | .ite c a b =>
    match typeOf Φ Γ c, typeOf Φ Γ a, typeOf Φ Γ b with
    | some tc, some ta, some tb => if tc = .bool then joinTy ta tb else none
    | _, _, _ => none
  | .call0 f =>
    match Φ[f]? with
    | some (.oneD _ r) => some r
    | _ => none
  | .call1 f a =>
    match typeOf Φ Γ a with
    | some ta =>
      match Φ[f]? with
      | some (.one p r) => if ta.sub p then some r else none
      | some (.oneD p r) => if ta.sub p then some r else none
      | _ => none
    | none => none
  | .call2 f a b =>
    match typeOf Φ Γ a, typeOf Φ Γ b with
    | some ta, some tb =>
      match Φ[f]? with
      | some (.two p q r) => if ta.sub p ∧ tb.sub q then some r else none
      | _ => none
    | _, _ => none
  | .attr e a =>
    match typeOf Φ Γ e with
    | some t => attrTy t a
    | none => none

def HasType (Φ : List FunSig) (Γ : List Ty) (e : Expr) (T : Ty) : Prop := typeOf Φ Γ e = some T

/-! ### positions -/

abbrev Path := List Nat

def Expr.child : Expr → Nat → Option Expr
  | .bin _ l _, 0 => some l
  | .bin _ _ r, 1 => some r
  | .ite c _ _, 0 => some c
  | .ite _ a _, 1 => some a
  | .ite _ _ b, 2 => some b
  | .call1 _ a, 0 => some a
  | .call2 _ a _, 0 => some a
  | .call2 _ _ b, 1 => some b
  | .attr e _, 0 => some e
  | _, _ => none

def Expr.setChild : Expr → Nat → Expr → Expr
  | .bin op _ r, 0, n => .bin op n r
  | .bin op l _, 1, n => .bin op l n
  | .ite _ a b, 0, n => .ite n a b
  | .ite c _ b, 1, n => .ite c n b
  | .ite c a _, 2, n => .ite c a n
  | .call1 f _, 0, n => .call1 f n
  | .call2 f _ b, 0, n => .call2 f n b
  | .call2 f a _, 1, n => .call2 f a n
  | .attr _ a, 0, n => .attr n a
  | e, _, _ => e

def subAt : Expr → Path → Option Expr
  | e, [] => some e
  | e, i :: π => match e.child i with
    | some c => subAt c π
    | none => none

def replaceAt : Expr → Path → Expr → Expr
  | _, [], n => n
  | e, i :: π, n => match e.child i with
    | some c => e.setChild i (replaceAt c π n)
    | none => e

/-- every path of the tree (pre-order) -/
def allPaths : Expr → List Path
  | .bin _ l r => [] :: ((allPaths l).map (0 :: ·) ++ (allPaths r).map (1 :: ·))
  | .ite c a b => [] :: ((allPaths c).map (0 :: ·) ++ (allPaths a).map (1 :: ·) ++ (allPaths b).map (2 :: ·))
  | .call1 _ a => [] :: (allPaths a).map (0 :: ·)
  | .call2 _ a b => [] :: ((allPaths a).map (0 :: ·) ++ (allPaths b).map (1 :: ·))
  | .attr e _ => [] :: (allPaths e).map (0 :: ·)
  | _ => [[]]

def Expr.size : Expr → Nat
  | .bin _ l r => 1 + l.size + r.size
  | .ite c a b => 1 + c.size + a.size + b.size
  | .call1 _ a => 1 + a.size
  | .call2 _ a b => 1 + a.size + b.size
  | .attr e _ => 1 + e.size
  | _ => 1

/-! ### injectors -/

inductive Inj where
  | operand       -- right operand replaced by a literal of a type with no signature row
  | dropArg       -- last call argument dropped
  | addArg        -- an extra call argument
  | badArg        -- last argument replaced by a literal outside the parameter type
  | rename        -- reference renamed to a fresh (undefined) name
  | missingAttr   -- selection of an attribute no type has
  deriving DecidableEq, Repr, Inhabited

def Inj.all : List Inj := [.operand, .dropArg, .addArg, .badArg, .rename, .missingAttr]

/-- a right-operand type for which `op` has no row when the left operand has type `a` -/
def clashTy (a : Ty) : Ty := if a = .str then .nat else .str

/-- a literal type that is not a subtype of the parameter type -/
def clashParam (p : Ty) : Ty := if p = .str then .nat else .str

/-- the attribute id no type has (`.zz_missing`) -/
def missingAttrId : Nat := 9

/-- the local rewrite of injector `k` at a sub-term `s` (in the environment of the hole); `none` = not applicable there -/
def injLocal (k : Inj) (Φ : List FunSig) (Γ : List Ty) (s : Expr) : Option Expr :=
  match k, s with
  | .operand, .bin op l _ =>
    match typeOf Φ Γ l with
    | some a => some (.bin op l (.lit (clashTy a) 0))
    | none => none
  | .dropArg, .call2 f a _ =>
    match Φ[f]? with
    | some (.two _ _ _) => some (.call1 f a)
    | _ => none
  | .dropArg, .call1 f _ =>
    match Φ[f]? with
    | some (.one _ _) => some (.call0 f)
    | _ => none
  | .addArg, .call1 f a =>
    match Φ[f]? with
    | some (.one _ _) => some (.call2 f a a)
    | some (.oneD _ _) => some (.call2 f a a)
    | _ => none
  | .badArg, .call1 f _ =>
    match Φ[f]? with
    | some (.one p _) => some (.call1 f (.lit (clashParam p) 0))
    | some (.oneD p _) => some (.call1 f (.lit (clashParam p) 0))
    | _ => none
  | .badArg, .call2 f a _ =>
    match Φ[f]? with
    | some (.two _ q _) => some (.call2 f a (.lit (clashParam q) 0))
    | _ => none
  | .rename, .var _ => some (.var (Γ.length + 7))
  | .missingAttr, s => if (typeOf Φ Γ s).isSome then some (.attr s missingAttrId) else none
  | _, _ => none

/-- positions of `e` where injector `k` applies -/
def positions (k : Inj) (Φ : List FunSig) (Γ : List Ty) (e : Expr) : List Path :=
  (allPaths e).filter (fun π => match subAt e π with
    | some s => (injLocal k Φ Γ s).isSome
    | none => false)

/-- the injected expression -/
def injectE (k : Inj) (Φ : List FunSig) (Γ : List Ty) (π : Path) (e : Expr) : Expr :=
  match subAt e π with
  | some s => match injLocal k Φ Γ s with
    | some s' => replaceAt e π s'
    | none => e
  | none => e

/-! ### statements and programs -/

inductive Stmt where
  | defv (e : Expr)                       -- v<n> = e
  | print (e : Expr)                      -- print! e
  | fun1 (p : Ty) (body : Expr)           -- f<j>(p: P) = body
  | fun2 (p q : Ty) (body : Expr)         -- f<j>(p: P, q: Q) = body
  | fun1d (p : Ty) (dflt body : Expr)     -- f<j>(p: P := dflt) = body
  | lam (p : Ty) (body : Expr)            -- f<j> = (p: P) -> body
  | forp (hi : Nat) (body : Expr)         -- for! 0..<hi, i => print! body
  | printEnd (e d : Expr)                 -- print!(e, end := d)              (keyword argument of a builtin procedure)
  | defvK (f : Nat) (a b : Expr)          -- v<n> = f<f>(a, q := b)           (keyword argument of a user function)
  deriving DecidableEq, Repr, Inhabited

/-- the expression slots of a statement with the variables each one sees in addition to the globals -/
def Stmt.slots : Stmt → List (List Ty × Expr)
  | .defv e => [([], e)]
  | .print e => [([], e)]
  | .fun1 p b => [([p], b)]
  | .fun2 p q b => [([p, q], b)]
  | .fun1d p d b => [([], d), ([p], b)]
  | .lam p b => [([p], b)]
  | .forp _ b => [([.nat], b)]
  | .printEnd e d => [([], e), ([], d)]
  | .defvK _ a b => [([], a), ([], b)]

/-- typing of one statement: the environments after it, `none` when it is ill-typed -/
def step (Φ : List FunSig) (Γ : List Ty) : Stmt → Option (List FunSig × List Ty)
  | .defv e => match typeOf Φ Γ e with
    | some t => some (Φ, Γ ++ [t])
    | none => none
  | .print e => match typeOf Φ Γ e with
    | some _ => some (Φ, Γ)
    | none => none
  | .fun1 p b => match typeOf Φ (Γ ++ [p]) b with
    | some r => some (Φ ++ [.one p r], Γ)
    | none => none
  | .fun2 p q b => match typeOf Φ (Γ ++ [p, q]) b with
    | some r => some (Φ ++ [.two p q r], Γ)
    | none => none
  | .fun1d p d b => match typeOf Φ Γ d, typeOf Φ (Γ ++ [p]) b with
    | some td, some r => if td.sub p then some (Φ ++ [.oneD p r], Γ) else none
    | _, _ => none
  | .lam p b => match typeOf Φ (Γ ++ [p]) b with
    | some r => some (Φ ++ [.one p r], Γ)
    | none => none
  | .forp _ b => match typeOf Φ (Γ ++ [.nat]) b with
    | some _ => some (Φ, Γ)
    | none => none
  | .printEnd e d => match typeOf Φ Γ e, typeOf Φ Γ d with
    | some _, some td => if td = .str then some (Φ, Γ) else none
    | _, _ => none
  | .defvK f a b => match typeOf Φ Γ a, typeOf Φ Γ b with
    | some ta, some tb =>
      match Φ[f]? with
      | some (.two p q r) => if ta.sub p ∧ tb.sub q then some (Φ, Γ ++ [r]) else none
      | _ => none
    | _, _ => none

def check (Φ : List FunSig) (Γ : List Ty) : List Stmt → Bool
  | [] => true
  | s :: rest => match step Φ Γ s with
    | some (Φ', Γ') => check Φ' Γ' rest
    | none => false

def WellTyped (p : List Stmt) : Prop := check [] [] p = true

structure Pos where
  stmt : Nat
  slot : Nat
  path : Path
  deriving DecidableEq, Repr, Inhabited

/-- inject into slot `slot` of one statement (slot 0 except for the body of a function with a default argument) -/
def injectS (k : Inj) (Φ : List FunSig) (Γ : List Ty) (slot : Nat) (π : Path) : Stmt → Stmt
  | .defv e => .defv (injectE k Φ Γ π e)
  | .print e => .print (injectE k Φ Γ π e)
  | .fun1 p b => .fun1 p (injectE k Φ (Γ ++ [p]) π b)
  | .fun2 p q b => .fun2 p q (injectE k Φ (Γ ++ [p, q]) π b)
  | .fun1d p d b => if slot = 0 then .fun1d p (injectE k Φ Γ π d) b else .fun1d p d (injectE k Φ (Γ ++ [p]) π b)
  | .lam p b => .lam p (injectE k Φ (Γ ++ [p]) π b)
  | .forp h b => .forp h (injectE k Φ (Γ ++ [.nat]) π b)
  | .printEnd e d => if slot = 0 then .printEnd (injectE k Φ Γ π e) d else .printEnd e (injectE k Φ Γ π d)
  | .defvK f a b => if slot = 0 then .defvK f (injectE k Φ Γ π a) b else .defvK f a (injectE k Φ Γ π b)

def positionsS (k : Inj) (Φ : List FunSig) (Γ : List Ty) : Stmt → List (Nat × Path)
  | .defv e => (positions k Φ Γ e).map (fun π => (0, π))
  | .print e => (positions k Φ Γ e).map (fun π => (0, π))
  | .fun1 p b => (positions k Φ (Γ ++ [p]) b).map (fun π => (0, π))
  | .fun2 p q b => (positions k Φ (Γ ++ [p, q]) b).map (fun π => (0, π))
  | .fun1d p d b => (positions k Φ Γ d).map (fun π => (0, π)) ++ (positions k Φ (Γ ++ [p]) b).map (fun π => (1, π))
  | .lam p b => (positions k Φ (Γ ++ [p]) b).map (fun π => (0, π))
  | .forp _ b => (positions k Φ (Γ ++ [.nat]) b).map (fun π => (0, π))
  | .printEnd e d => (positions k Φ Γ e).map (fun π => (0, π)) ++ (positions k Φ Γ d).map (fun π => (1, π))
  | .defvK _ a b => (positions k Φ Γ a).map (fun π => (0, π)) ++ (positions k Φ Γ b).map (fun π => (1, π))

/-- inject at statement `i` (the environments are those computed from the unchanged prefix) -/
def injectFrom (k : Inj) (Φ : List FunSig) (Γ : List Ty) : Nat → Nat → Path → List Stmt → List Stmt
  | _, _, _, [] => []
  | 0, slot, π, s :: rest => injectS k Φ Γ slot π s :: rest
  | i + 1, slot, π, s :: rest => match step Φ Γ s with
    | some (Φ', Γ') => s :: injectFrom k Φ' Γ' i slot π rest
    | none => s :: rest

def positionsFrom (k : Inj) (Φ : List FunSig) (Γ : List Ty) : List Stmt → List Pos
  | [] => []
  | s :: rest =>
    (positionsS k Φ Γ s).map (fun p => ⟨0, p.1, p.2⟩) ++
      (match step Φ Γ s with
       | some (Φ', Γ') => (positionsFrom k Φ' Γ' rest).map (fun p => ⟨p.stmt + 1, p.slot, p.path⟩)
       | none => [])

def inject (k : Inj) (pos : Pos) (p : List Stmt) : List Stmt := injectFrom k [] [] pos.stmt pos.slot pos.path p
def positionsP (k : Inj) (p : List Stmt) : List Pos := positionsFrom k [] [] p

def Stmt.size (s : Stmt) : Nat := 1 + (s.slots.map (fun x => x.2.size)).sum
def progSize (p : List Stmt) : Nat := (p.map Stmt.size).sum

/-! ### class of the recorded finding C05-lt-enum-operand-accepted -/

def Stmt.slotExpr : Stmt → Nat → Option Expr
  | .defv e, 0 => some e
  | .print e, 0 => some e
  | .fun1 _ b, 0 => some b
  | .fun2 _ _ b, 0 => some b
  | .fun1d _ d _, 0 => some d
  | .fun1d _ _ b, 1 => some b
  | .lam _ b, 0 => some b
  | .forp _ b, 0 => some b
  | .printEnd e _, 0 => some e
  | .printEnd _ d, 1 => some d
  | .defvK _ a _, 0 => some a
  | .defvK _ _ b, 1 => some b
  | _, _ => none

/-- the global definitions, in order (index = variable index) -/
def defsOf : List Stmt → List Expr
  | [] => []
  | .defv e :: rest => e :: defsOf rest
  | .defvK f a b :: rest => .call2 f a b :: defsOf rest
  | _ :: rest => defsOf rest

/-- an if-expression, or a global variable defined by one: the checker gives these an enum (value-set) type -/
def enumLike (defs : List Expr) : Expr → Bool
  | .ite _ _ _ => true
  | .var x => match defs[x]? with
    | some (.ite _ _ _) => true
    | _ => false
  | _ => false

/-- the operand injector applied to a `<` whose left operand is enum-typed: the real checker accepts `x < "s"` there -/
def inKLtEnum (k : Inj) (p : List Stmt) (pos : Pos) : Bool :=
  decide (k = .operand) &&
    (match p[pos.stmt]? with
     | some s => match (s.slotExpr pos.slot).bind (fun e => subAt e pos.path) with
       | some (.bin .lt l _) => enumLike (defsOf (p.take pos.stmt)) l
       | _ => false
     | none => false)

/-- the operand injector applied to a `*` in a loop body whose left operand is the loop variable (recorded finding
    C05-loopvar-mul-str-accepted) -/
def inKLoopVarMul (k : Inj) (p : List Stmt) (pos : Pos) : Bool :=
  decide (k = .operand) &&
    (match p[pos.stmt]? with
     | some (.forp _ b) => match subAt b pos.path with
       | some (.bin .mul (.var x) _) => decide (x = (defsOf (p.take pos.stmt)).length)
       | _ => false
     | _ => false)

end ErgVerif.C05
