/-!
# C28 — model of the language server's text synchronisation, and the LSP reference semantics

Transcribed Rust (crate `els`, after the `fix:` commit for finding #12):
* `crates/els/util.rs`       `pos_to_byte_index`            → `posLoop` / `posToByteIndex`
* `crates/els/file_cache.rs` `FileCache::incremental_update` → `applyChanges` / `incrementalUpdate`
* `crates/els/file_cache.rs` `FileCache::update`             → `update`  (didOpen path of `server.rs`)
* `alloc::string::String::replace_range` (std)              → `replaceRange` (every panic an explicit `crash`)
* `crates/els/server.rs`     `handle_notification`, arms `textDocument/didOpen` / `didChange` → `update none …` / `incrementalUpdate`
* the pinned-commit `pos_to_byte_index` / `incremental_update` / `didChange` arm are kept as `legacyPosToByteIndex` /
  `legacyApplyChanges` / `legacyDidChange` (witnesses of finding #12 in `Props.lean`).

Documents are `List Char`; Rust byte indices are sums of `utf8Len`, LSP columns are sums of `utf16Len`.
`u32` line/column counters are `Nat` (a document would need 2^32 lines or a 2^32-unit line to overflow),
versions (`i32`) are `Int`.

Specification (`Spec.*`): LSP 3.17 "Text Documents" / `Position`: lines end with `\n`, `\r\n` or `\r`;
`character` counts UTF-16 code units; a character offset past the line end means the line end; a line past
the end of the document means the end of the document; a change without a range replaces the whole text;
the changes of one notification apply in order, each to the result of the previous one.
Core Lean only; no imports (the driver links this file).
-/
namespace ErgVerif.C28

abbrev Doc := List Char

/-- `char::len_utf8` -/
def utf8Len (c : Char) : Nat :=
  if c.toNat < 0x80 then 1 else if c.toNat < 0x800 then 2 else if c.toNat < 0x10000 then 3 else 4

/-- `char::len_utf16` -/
def utf16Len (c : Char) : Nat := if c.toNat < 0x10000 then 1 else 2

/-- `str::len` -/
def byteLen : Doc → Nat
  | [] => 0
  | c :: cs => utf8Len c + byteLen cs

structure Pos where
  line : Nat
  character : Nat
  deriving DecidableEq, Repr

/-- `TextDocumentContentChangeEvent` (`range_length` is deprecated and unused by the server) -/
structure Change where
  range : Option (Pos × Pos)
  text : Doc
  deriving DecidableEq, Repr

inductive Outcome (α : Type) where
  | ok : α → Outcome α
  | crash : String → Outcome α
  deriving DecidableEq, Repr

def isEol (c : Char) : Bool := c == '\n' || c == '\r'

/-! ## `pos_to_byte_index` (fixed code) -/

/-- The `for (index, c) in src.char_indices()` loop; `idx` is the byte index of the current character, so at
    exhaustion `idx = src.len()`, which is what the Rust code returns after the loop. -/
def posLoop (tl tc : Nat) : Doc → Nat → Nat → Bool → Nat → Nat
  | [], _, _, _, idx => idx
  | c :: cs, line, col, afterCr, idx =>
    if afterCr && c == '\n' then posLoop tl tc cs line col false (idx + utf8Len c)
    else if line == tl && (decide (col ≥ tc) || isEol c) then idx
    else if isEol c then posLoop tl tc cs (line + 1) 0 (c == '\r') (idx + utf8Len c)
    else posLoop tl tc cs line (col + utf16Len c) (c == '\r') (idx + utf8Len c)

def posToByteIndex (src : Doc) (p : Pos) : Nat := posLoop p.line p.character src 0 0 false 0

/-! ## `String::replace_range` -/

/-- `str::is_char_boundary` -/
def isCharBoundary : Doc → Nat → Bool
  | _, 0 => true
  | [], _ + 1 => false
  | c :: cs, n + 1 => if n + 1 < utf8Len c then false else isCharBoundary cs (n + 1 - utf8Len c)

/-- the characters that lie wholly inside the first `n` bytes -/
def takeBytes : Doc → Nat → Doc
  | [], _ => []
  | c :: cs, n => if n < utf8Len c then [] else c :: takeBytes cs (n - utf8Len c)

/-- the characters that start at or after byte `n` -/
def dropBytes : Doc → Nat → Doc
  | [], _ => []
  | c :: cs, n => if n = 0 then c :: cs else if n < utf8Len c then cs else dropBytes cs (n - utf8Len c)

/-- `String::replace_range(start..stop, w)`: `slice::range` checks (`start <= stop`, `stop <= len`), then the two
    `is_char_boundary` assertions, then the splice. -/
def replaceRange (s : Doc) (start stop : Nat) (w : Doc) : Outcome Doc :=
  if start > stop then .crash "order"
  else if stop > byteLen s then .crash "oob"
  else if !isCharBoundary s start then .crash "start-boundary"
  else if !isCharBoundary s stop then .crash "end-boundary"
  else .ok (takeBytes s start ++ w ++ dropBytes s stop)

/-! ## `FileCache::incremental_update` / `FileCache::update` -/

/-- the `for change in params.content_changes` loop -/
def applyChanges (code : Doc) : List Change → Outcome Doc
  | [] => .ok code
  | ch :: rest =>
    match ch.range with
    | none => applyChanges ch.text rest
    | some (s, e) =>
      match replaceRange code (posToByteIndex code s) (posToByteIndex code e) ch.text with
      | .ok code' => applyChanges code' rest
      | .crash m => .crash m

structure Entry where
  code : Doc
  ver : Int
  deriving DecidableEq, Repr

/-- `incremental_update` on an existing entry (a missing entry returns early: nothing to model) -/
def incrementalUpdate (e : Entry) (version : Int) (changes : List Change) : Outcome Entry :=
  if e.ver ≥ version then .ok e
  else match applyChanges e.code changes with
    | .ok code => .ok ⟨code, version⟩
    | .crash m => .crash m

/-- `FileCache::update(uri, code, ver)` as called by `textDocument/didOpen` (`ver = Some(v)`: the client's text is
    authoritative, whatever entry exists) and by `load_once` (`ver = None`: text read from disk; keeps the entry's
    version, or 1 for a new entry) -/
def update (e : Option Entry) (code : Doc) (ver : Option Int) : Entry :=
  match ver, e with
  | some v, _ => ⟨code, v⟩
  | none, some old => ⟨code, old.ver⟩
  | none, none => ⟨code, 1⟩

/-- pinned-commit `update`: a didOpen whose version is not above the stored one was dropped ("double update") -/
def legacyUpdate (e : Option Entry) (code : Doc) (ver : Option Int) : Entry :=
  match e, ver with
  | some old, some v => if v ≤ old.ver then old else ⟨code, v⟩
  | some old, none => ⟨code, old.ver⟩
  | none, some v => ⟨code, v⟩
  | none, none => ⟨code, 1⟩

/-- the entry after `didOpen(text, v)`; `disk = some t`: the server had already loaded the file from disk
    (`load_once`, e.g. the package entry file during the start-up workspace check) -/
def openDoc (disk : Option Doc) (text : Doc) (v : Int) : Entry :=
  match disk with
  | some t => update (some (update none t none)) text (some v)
  | none => update none text (some v)

def legacyOpenDoc (disk : Option Doc) (text : Doc) (v : Int) : Entry :=
  match disk with
  | some t => legacyUpdate (some (legacyUpdate none t none)) text (some v)
  | none => legacyUpdate none text (some v)

/-- a `didChange` notification: document version + content changes -/
structure Note where
  version : Int
  changes : List Change
  deriving DecidableEq, Repr

/-- the server's entry after a history of `didChange` notifications (stops at the first crash) -/
def runNotes (e : Entry) : List Note → Outcome Entry
  | [] => .ok e
  | n :: rest =>
    match incrementalUpdate e n.version n.changes with
    | .ok e' => runNotes e' rest
    | .crash m => .crash m

/-! ## pinned-commit code (finding #12), kept for the witnesses -/

/-- old loop: counts characters, matches only on the exact `(line, col)` -/
def legacyLoop (tl tc : Nat) : Doc → Nat → Nat → Nat → Option Nat
  | [], _, _, _ => none
  | c :: cs, line, col, idx =>
    if line == tl && col == tc then some idx
    else if c == '\n' then legacyLoop tl tc cs (line + 1) 0 (idx + utf8Len c)
    else legacyLoop tl tc cs line (col + 1) (idx + utf8Len c)

/-- `src.char_indices().last().unwrap().0` -/
def lastCharIndex : Doc → Nat
  | [] => 0
  | [_] => 0
  | c :: d :: cs => utf8Len c + lastCharIndex (d :: cs)

def legacyPosToByteIndex (src : Doc) (p : Pos) : Nat :=
  if src.isEmpty then 0
  else match legacyLoop p.line p.character src 0 0 0 with
    | some i => i
    | none => lastCharIndex src + 1

def legacyApplyChanges (code : Doc) : List Change → Outcome Doc
  | [] => .ok code
  | ch :: rest =>
    match ch.range with
    | none => legacyApplyChanges code rest
    | some (s, e) =>
      match replaceRange code (legacyPosToByteIndex code s) (legacyPosToByteIndex code e) ch.text with
      | .ok code' => legacyApplyChanges code' rest
      | .crash m => .crash m

/-- pinned-commit `textDocument/didChange` arm of `Server::handle_notification` (server.rs): it indexed
    `params.content_changes[0]` before calling `incremental_update`; the fixed arm uses `.first()` and then calls
    `incremental_update` (= `incrementalUpdate`; the quick check it may run first does not touch the text). -/
def legacyDidChange (e : Entry) (n : Note) : Outcome Entry :=
  match n.changes with
  | [] => .crash "index"
  | _ :: _ =>
    if e.ver ≥ n.version then .ok e
    else match legacyApplyChanges e.code n.changes with
      | .ok code => .ok ⟨code, n.version⟩
      | .crash m => .crash m

/-! ## Specification: LSP text-edit semantics (no reference to byte indices or to the loop above) -/
namespace Spec

/-- the text of the first line, without its terminator -/
def lineContent (d : Doc) : Doc := d.takeWhile (fun c => !isEol c)

/-- what follows the text of the first line: empty, or starts with the line terminator -/
def afterContent (d : Doc) : Doc := d.dropWhile (fun c => !isEol c)

/-- length of the line terminator at the head of `d`: `\r\n` = 2, `\n` or `\r` = 1, no terminator = 0 -/
def termLen : Doc → Nat
  | [] => 0
  | c :: rest =>
    if c = '\r' then (match rest with
      | [] => 1
      | d :: _ => if d = '\n' then 2 else 1)
    else if c = '\n' then 1 else 0

/-- number of characters of a line covered by `c` UTF-16 code units, clamped to the line's length -/
def colChars : Doc → Nat → Nat
  | [], _ => 0
  | ch :: rest, c => if c = 0 then 0 else 1 + colChars rest (c - utf16Len ch)

/-- character offset (in `Char`s from the start of `d`) denoted by line `l`, UTF-16 column `c` -/
def offsetAt : Nat → Nat → Doc → Nat
  | 0, c, d => colChars (lineContent d) c
  | l + 1, c, d =>
    let n := (lineContent d).length
    let t := termLen (afterContent d)
    if t = 0 then d.length                       -- there is no next line: end of the document
    else n + t + offsetAt l c (d.drop (n + t))

def offset (d : Doc) (p : Pos) : Nat := offsetAt p.line p.character d

/-- one content change applied to the client's copy -/
def applyChange (d : Doc) (ch : Change) : Doc :=
  match ch.range with
  | none => ch.text
  | some (s, e) => d.take (offset d s) ++ ch.text ++ d.drop (offset d e)

/-- all content changes of one notification, in order -/
def apply (d : Doc) (chs : List Change) : Doc := chs.foldl applyChange d

/-- a range is usable when its start does not lie after its end -/
def validRange (d : Doc) (ch : Change) : Prop :=
  match ch.range with
  | none => True
  | some (s, e) => offset d s ≤ offset d e

instance (d : Doc) (ch : Change) : Decidable (validRange d ch) := by
  unfold validRange; cases ch.range with
  | none => exact inferInstanceAs (Decidable True)
  | some r => exact inferInstanceAs (Decidable (_ ≤ _))

/-- every change of the notification has a usable range in the document it applies to -/
def validRanges : Doc → List Change → Prop
  | _, [] => True
  | d, ch :: rest => validRange d ch ∧ validRanges (applyChange d ch) rest

def validRangesB : Doc → List Change → Bool
  | _, [] => true
  | d, ch :: rest => decide (validRange d ch) && validRangesB (applyChange d ch) rest

/-- the client's copy after a history of notifications -/
def history (d : Doc) (notes : List Note) : Doc := notes.foldl (fun d n => apply d n.changes) d

/-- an LSP-conformant history: versions strictly increase, every range is usable -/
def validHistory : Doc → Int → List Note → Prop
  | _, _, [] => True
  | d, v, n :: rest => v < n.version ∧ validRanges d n.changes ∧ validHistory (apply d n.changes) n.version rest

def validHistoryB : Doc → Int → List Note → Bool
  | _, _, [] => true
  | d, v, n :: rest => decide (v < n.version) && validRangesB d n.changes && validHistoryB (apply d n.changes) n.version rest

/-- order of positions as the client sees it -/
def posLe (p q : Pos) : Prop := p.line < q.line ∨ (p.line = q.line ∧ p.character ≤ q.character)

/-- LSP position of the character offset `i` of `d`, scanning the first `i` characters:
    line = number of line terminators passed, character = UTF-16 units since the last one. -/
def posOfLoop : Doc → Nat → Nat → Nat → Bool → Pos
  | [], _, line, col, _ => ⟨line, col⟩
  | _ :: _, 0, line, col, _ => ⟨line, col⟩
  | c :: cs, i + 1, line, col, afterCr =>
    if afterCr && c == '\n' then posOfLoop cs i line col false
    else if isEol c then posOfLoop cs i (line + 1) 0 (c == '\r')
    else posOfLoop cs i line (col + utf16Len c) false

def posOf (d : Doc) (i : Nat) : Pos := posOfLoop d i 0 0 false

/-- the character offset `i` does not split a `\r\n` terminator (`afterCr`: the character before `d` was `\r`) -/
def notInsideCrlf : Doc → Nat → Bool → Bool
  | [], _, _ => true
  | c :: _, 0, afterCr => !(afterCr && c == '\n')
  | c :: cs, i + 1, _ => notInsideCrlf cs i (c == '\r')

end Spec

/-- class of inputs on which the pinned-commit code deviated from the specification (finding #12, fixed) -/
def legacyDeviates (d : Doc) (chs : List Change) : Bool :=
  decide (legacyApplyChanges d chs ≠ .ok (Spec.apply d chs))

end ErgVerif.C28
