import ErgVerif.C28.Model
/-!
# C28 — helper lemmas (byte/char bookkeeping, the loop of `pos_to_byte_index` against `Spec.offsetAt`)
-/
namespace ErgVerif.C28

theorem utf8Len_pos (c : Char) : 0 < utf8Len c := by
  unfold utf8Len; repeat' split
  all_goals omega

theorem utf16Len_pos (c : Char) : 0 < utf16Len c := by
  unfold utf16Len; split <;> omega

/-! ## bytes of character prefixes -/

theorem byteLen_append (a b : Doc) : byteLen (a ++ b) = byteLen a + byteLen b := by
  induction a with
  | nil => simp [byteLen]
  | cons c cs ih => simp [byteLen, ih]; omega

theorem byteLen_take_mono : ∀ (d : Doc) (a b : Nat), a ≤ b → byteLen (d.take a) ≤ byteLen (d.take b)
  | [], _, _, _ => by simp [byteLen]
  | _ :: _, 0, _, _ => by simp [byteLen]
  | c :: cs, a + 1, 0, h => by omega
  | c :: cs, a + 1, b + 1, h => by
    simp only [List.take_succ_cons, byteLen]
    have := byteLen_take_mono cs a b (by omega)
    omega

theorem byteLen_take_le (d : Doc) (a : Nat) : byteLen (d.take a) ≤ byteLen d := by
  have := byteLen_take_mono d a d.length
  by_cases h : a ≤ d.length
  · simpa using this h
  · rw [List.take_of_length_le (by omega)]; exact Nat.le_refl _

theorem isCharBoundary_cons (c : Char) (cs : Doc) (n : Nat) :
    isCharBoundary (c :: cs) n = if n = 0 then true else if n < utf8Len c then false else isCharBoundary cs (n - utf8Len c) := by
  cases n with
  | zero => simp [isCharBoundary]
  | succ n => simp [isCharBoundary]

theorem isCharBoundary_take : ∀ (d : Doc) (a : Nat), isCharBoundary d (byteLen (d.take a)) = true
  | [], a => by simp [byteLen, isCharBoundary]
  | c :: cs, 0 => by simp [byteLen, isCharBoundary]
  | c :: cs, a + 1 => by
    have hp := utf8Len_pos c
    rw [isCharBoundary_cons]
    simp only [List.take_succ_cons, byteLen]
    rw [if_neg (by omega), if_neg (by omega)]
    have : utf8Len c + byteLen (List.take a cs) - utf8Len c = byteLen (List.take a cs) := by omega
    rw [this]; exact isCharBoundary_take cs a

theorem takeBytes_take : ∀ (d : Doc) (a : Nat), takeBytes d (byteLen (d.take a)) = d.take a
  | [], a => by simp [takeBytes]
  | c :: cs, 0 => by
    have hp := utf8Len_pos c
    simp [takeBytes, byteLen, hp]
  | c :: cs, a + 1 => by
    have hp := utf8Len_pos c
    simp only [List.take_succ_cons, byteLen, takeBytes]
    rw [if_neg (by omega)]
    have : utf8Len c + byteLen (List.take a cs) - utf8Len c = byteLen (List.take a cs) := by omega
    rw [this, takeBytes_take cs a]

theorem dropBytes_take : ∀ (d : Doc) (a : Nat), dropBytes d (byteLen (d.take a)) = d.drop a
  | [], a => by simp [dropBytes]
  | c :: cs, 0 => by simp [dropBytes, byteLen]
  | c :: cs, a + 1 => by
    have hp := utf8Len_pos c
    simp only [List.take_succ_cons, byteLen, dropBytes, List.drop_succ_cons]
    rw [if_neg (by omega), if_neg (by omega)]
    have : utf8Len c + byteLen (List.take a cs) - utf8Len c = byteLen (List.take a cs) := by omega
    rw [this, dropBytes_take cs a]

/-- `replace_range` between the byte indices of two character prefixes never panics and splices characters -/
theorem replaceRange_take (d : Doc) (a b : Nat) (w : Doc) (hab : a ≤ b) :
    replaceRange d (byteLen (d.take a)) (byteLen (d.take b)) w = .ok (d.take a ++ w ++ d.drop b) := by
  have h1 := byteLen_take_mono d a b hab
  have h2 := byteLen_take_le d b
  unfold replaceRange
  rw [if_neg (by omega), if_neg (by omega)]
  simp [isCharBoundary_take, takeBytes_take, dropBytes_take]

/-! ## the loop of `pos_to_byte_index` counts characters -/

/-- the same loop, counting consumed characters instead of bytes -/
def charLoop (tl tc : Nat) : Doc → Nat → Nat → Bool → Nat
  | [], _, _, _ => 0
  | c :: cs, line, col, afterCr =>
    if afterCr && c == '\n' then charLoop tl tc cs line col false + 1
    else if line == tl && (decide (col ≥ tc) || isEol c) then 0
    else if isEol c then charLoop tl tc cs (line + 1) 0 (c == '\r') + 1
    else charLoop tl tc cs line (col + utf16Len c) (c == '\r') + 1

theorem posLoop_eq (tl tc : Nat) : ∀ (cs : Doc) (line col : Nat) (a : Bool) (idx : Nat),
    posLoop tl tc cs line col a idx = idx + byteLen (cs.take (charLoop tl tc cs line col a)) := by
  intro cs
  induction cs with
  | nil => intro line col a idx; simp [posLoop, charLoop, byteLen]
  | cons c cs ih =>
    intro line col a idx
    unfold posLoop charLoop
    split
    · rw [ih]; simp [byteLen]; omega
    · split
      · simp [byteLen]
      · split
        · rw [ih]; simp [byteLen]; omega
        · rw [ih]; simp [byteLen]; omega

theorem charLoop_le (tl tc : Nat) : ∀ (cs : Doc) (line col : Nat) (a : Bool),
    charLoop tl tc cs line col a ≤ cs.length := by
  intro cs
  induction cs with
  | nil => intro line col a; simp [charLoop]
  | cons c cs ih =>
    intro line col a
    unfold charLoop
    have h1 := ih line col false
    have h2 := ih (line + 1) 0 (c == '\r')
    have h3 := ih line (col + utf16Len c) (c == '\r')
    repeat' split
    all_goals simp; try omega

/-- after a `\r`, a following `\n` is skipped; anything else is processed as usual -/
theorem charLoop_afterCr (tl tc : Nat) (cs : Doc) (line col : Nat) :
    charLoop tl tc cs line col true =
      match cs with
      | [] => 0
      | d :: ds => if d = '\n' then charLoop tl tc ds line col false + 1 else charLoop tl tc cs line col false := by
  cases cs with
  | nil => simp [charLoop]
  | cons d ds =>
    by_cases h : d = '\n'
    · simp [charLoop, h]
    · simp only [h, if_false]
      conv => lhs; unfold charLoop
      conv => rhs; unfold charLoop
      simp [h]

/-! ## unfolding `Spec.offsetAt` one character at a time -/

theorem isEol_iff (c : Char) : isEol c = true ↔ (c = '\n' ∨ c = '\r') := by
  simp [isEol]

theorem lineContent_cons_eol (c : Char) (cs : Doc) (h : isEol c = true) : Spec.lineContent (c :: cs) = [] := by
  simp [Spec.lineContent, List.takeWhile, h]

theorem afterContent_cons_eol (c : Char) (cs : Doc) (h : isEol c = true) : Spec.afterContent (c :: cs) = c :: cs := by
  simp [Spec.afterContent, List.dropWhile, h]

theorem lineContent_cons (c : Char) (cs : Doc) (h : isEol c = false) :
    Spec.lineContent (c :: cs) = c :: Spec.lineContent cs := by
  simp [Spec.lineContent, List.takeWhile, h]

theorem afterContent_cons (c : Char) (cs : Doc) (h : isEol c = false) :
    Spec.afterContent (c :: cs) = Spec.afterContent cs := by
  simp [Spec.afterContent, List.dropWhile, h]

theorem lineContent_append_afterContent (d : Doc) : Spec.lineContent d ++ Spec.afterContent d = d := by
  simp [Spec.lineContent, Spec.afterContent]

theorem offsetAt_zero_eol (c : Char) (cs : Doc) (x : Nat) (h : isEol c = true) :
    Spec.offsetAt 0 x (c :: cs) = 0 := by
  simp [Spec.offsetAt, lineContent_cons_eol c cs h, Spec.colChars]

theorem offsetAt_zero_cons (c : Char) (cs : Doc) (x : Nat) (h : isEol c = false) :
    Spec.offsetAt 0 x (c :: cs) = if x = 0 then 0 else Spec.offsetAt 0 (x - utf16Len c) cs + 1 := by
  simp only [Spec.offsetAt, lineContent_cons c cs h, Spec.colChars]
  split <;> omega

theorem offsetAt_succ_cons (c : Char) (cs : Doc) (k x : Nat) (h : isEol c = false) :
    Spec.offsetAt (k + 1) x (c :: cs) = Spec.offsetAt (k + 1) x cs + 1 := by
  simp only [Spec.offsetAt, lineContent_cons c cs h, afterContent_cons c cs h, List.length_cons]
  split
  · rfl
  · have : (Spec.lineContent cs).length + 1 + Spec.termLen (Spec.afterContent cs)
        = ((Spec.lineContent cs).length + Spec.termLen (Spec.afterContent cs)) + 1 := by omega
    rw [this, List.drop_succ_cons]; omega

theorem offsetAt_succ_lf (cs : Doc) (k x : Nat) :
    Spec.offsetAt (k + 1) x ('\n' :: cs) = Spec.offsetAt k x cs + 1 := by
  have h : isEol '\n' = true := by decide
  simp [Spec.offsetAt, lineContent_cons_eol _ cs h, afterContent_cons_eol _ cs h, Spec.termLen]
  omega

theorem offsetAt_succ_crlf (cs : Doc) (k x : Nat) :
    Spec.offsetAt (k + 1) x ('\r' :: '\n' :: cs) = Spec.offsetAt k x cs + 2 := by
  have h : isEol '\r' = true := by decide
  simp [Spec.offsetAt, lineContent_cons_eol _ _ h, afterContent_cons_eol _ _ h, Spec.termLen]
  omega

theorem offsetAt_succ_cr_nil (k x : Nat) :
    Spec.offsetAt (k + 1) x ['\r'] = Spec.offsetAt k x [] + 1 := by
  have h : isEol '\r' = true := by decide
  simp [Spec.offsetAt, lineContent_cons_eol _ _ h, afterContent_cons_eol _ _ h, Spec.termLen]
  omega

theorem offsetAt_succ_cr (d : Char) (cs : Doc) (k x : Nat) (hd : d ≠ '\n') :
    Spec.offsetAt (k + 1) x ('\r' :: d :: cs) = Spec.offsetAt k x (d :: cs) + 1 := by
  have h : isEol '\r' = true := by decide
  simp [Spec.offsetAt, lineContent_cons_eol _ _ h, afterContent_cons_eol _ _ h, Spec.termLen, hd]
  omega

theorem offsetAt_nil (k x : Nat) : Spec.offsetAt k x [] = 0 := by
  cases k <;> simp [Spec.offsetAt, Spec.lineContent, Spec.afterContent, Spec.termLen, Spec.colChars]

theorem not_cr_of_not_eol (c : Char) (h : isEol c = false) : (c == '\r') = false := by
  simp [isEol] at h; simp [h.2]

theorem ite_sub_zero (p : Prop) [Decidable p] (tc : Nat) : (if p then tc - 0 else tc) = tc := by
  split <;> simp

/-- the loop, started at a line start or inside a line (`afterCr = false`), consumes exactly the characters the
    specification assigns to the position, relative to the remaining text -/
theorem charLoop_spec (tl tc : Nat) : ∀ (n : Nat) (cs : Doc), cs.length ≤ n → ∀ line col, line ≤ tl →
    charLoop tl tc cs line col false
      = Spec.offsetAt (tl - line) (if line = tl then tc - col else tc) cs := by
  intro n
  induction n with
  | zero =>
    intro cs h line col _
    have : cs = [] := List.length_eq_zero_iff.mp (by omega)
    subst this; simp [charLoop, offsetAt_nil]
  | succ n ih =>
    intro cs hlen line col hle
    cases cs with
    | nil => simp [charLoop, offsetAt_nil]
    | cons c cs =>
      simp only [List.length_cons] at hlen
      by_cases hlt : line = tl
      · subst hlt
        simp only [Nat.sub_self, if_true]
        by_cases he : isEol c = true
        · rw [offsetAt_zero_eol c cs _ he]; simp [charLoop, he]
        · have he' : isEol c = false := by simpa using he
          rw [offsetAt_zero_cons c cs _ he']
          by_cases hc : col ≥ tc
          · have h0 : tc - col = 0 := by omega
            simp [charLoop, hc, h0]
          · have h0 : tc - col ≠ 0 := by omega
            rw [if_neg h0]
            have hcr := not_cr_of_not_eol c he'
            have hih := ih cs (by omega) line (col + utf16Len c) (Nat.le_refl _)
            simp only [Nat.sub_self, if_true] at hih
            unfold charLoop
            simp only [Bool.false_and, Bool.false_eq_true, if_false, beq_self_eq_true, Bool.true_and, he',
              Bool.or_false, decide_eq_true_eq, hc, hcr]
            rw [hih, Nat.sub_add_eq]
      · have hlt' : line < tl := by omega
        obtain ⟨k, hk⟩ : ∃ k, tl - line = k + 1 := ⟨tl - line - 1, by omega⟩
        have hbeq : (line == tl) = false := by simp [hlt]
        rw [hk, if_neg hlt]
        by_cases he : isEol c = true
        · have hk' : tl - (line + 1) = k := by omega
          rcases (isEol_iff c).mp he with rfl | rfl
          · rw [offsetAt_succ_lf]
            have hih := ih cs (by omega) (line + 1) 0 (by omega)
            rw [hk', ite_sub_zero] at hih
            unfold charLoop
            simp [hbeq, he, hih]
          · unfold charLoop
            simp only [Bool.false_and, Bool.false_eq_true, if_false, hbeq, he, if_true, beq_self_eq_true]
            rw [charLoop_afterCr]
            cases cs with
            | nil => simp [offsetAt_succ_cr_nil, offsetAt_nil]
            | cons d ds =>
              simp only [List.length_cons] at hlen
              by_cases hd : d = '\n'
              · subst hd
                have hih := ih ds (by omega) (line + 1) 0 (by omega)
                rw [hk', ite_sub_zero] at hih
                simp [offsetAt_succ_crlf, hih]
              · have hih := ih (d :: ds) (by simp; omega) (line + 1) 0 (by omega)
                rw [hk', ite_sub_zero] at hih
                simp [hd, offsetAt_succ_cr d ds k tc hd, hih]
        · have he' : isEol c = false := by simpa using he
          have hcr := not_cr_of_not_eol c he'
          rw [offsetAt_succ_cons c cs k tc he']
          have hih := ih cs (by omega) line (col + utf16Len c) hle
          rw [hk, if_neg hlt] at hih
          unfold charLoop
          simp [hbeq, he', hcr, hih]

/-- `Spec.offsetAt` never points beyond the document -/
theorem offsetAt_le : ∀ (l c : Nat) (d : Doc), Spec.offsetAt l c d ≤ d.length := by
  intro l c d
  have h := charLoop_spec l c d.length d (Nat.le_refl _) 0 0 (Nat.zero_le _)
  have h2 := charLoop_le l c d 0 0 false
  by_cases h0 : 0 = l
  · subst h0; simp at h; omega
  · rw [if_neg h0] at h; simp at h; omega

/-- `pos_to_byte_index` returns the UTF-8 length of the prefix the LSP position denotes -/
theorem posToByteIndex_eq (d : Doc) (p : Pos) :
    posToByteIndex d p = byteLen (d.take (Spec.offset d p)) := by
  unfold posToByteIndex Spec.offset
  rw [posLoop_eq, charLoop_spec p.line p.character d.length d (Nat.le_refl _) 0 0 (Nat.zero_le _)]
  by_cases h0 : 0 = p.line
  · rw [← h0]; simp
  · rw [if_neg h0]; simp

/-! ## the Boolean forms used by the driver decide the `Prop` forms used by the theorems -/

theorem validRanges_iff (d : Doc) (chs : List Change) : Spec.validRanges d chs ↔ Spec.validRangesB d chs = true := by
  induction chs generalizing d with
  | nil => simp [Spec.validRanges, Spec.validRangesB]
  | cons ch rest ih => simp [Spec.validRanges, Spec.validRangesB, ih]

theorem validHistory_iff (d : Doc) (v : Int) (ns : List Note) :
    Spec.validHistory d v ns ↔ Spec.validHistoryB d v ns = true := by
  induction ns generalizing d v with
  | nil => simp [Spec.validHistory, Spec.validHistoryB]
  | cons n rest ih => simp [Spec.validHistory, Spec.validHistoryB, ih, validRanges_iff, and_assoc]

/-! ## monotonicity of `Spec.offsetAt` in the position -/

theorem colChars_le_length : ∀ (l : Doc) (c : Nat), Spec.colChars l c ≤ l.length
  | [], _ => by simp [Spec.colChars]
  | ch :: rest, c => by
    simp only [Spec.colChars, List.length_cons]
    split
    · omega
    · have := colChars_le_length rest (c - utf16Len ch); omega

theorem colChars_mono : ∀ (l : Doc) (c c' : Nat), c ≤ c' → Spec.colChars l c ≤ Spec.colChars l c'
  | [], _, _, _ => by simp [Spec.colChars]
  | ch :: rest, c, c', h => by
    simp only [Spec.colChars]
    by_cases h0 : c = 0
    · simp [h0]
    · have h1 : c' ≠ 0 := by omega
      rw [if_neg h0, if_neg h1]
      have := colChars_mono rest (c - utf16Len ch) (c' - utf16Len ch) (by omega)
      omega

theorem lineContent_length_le (d : Doc) : (Spec.lineContent d).length ≤ d.length := by
  have := congrArg List.length (lineContent_append_afterContent d)
  simp at this; omega

theorem offsetAt_mono_col : ∀ (l : Nat) (d : Doc) (c c' : Nat), c ≤ c' → Spec.offsetAt l c d ≤ Spec.offsetAt l c' d
  | 0, d, c, c', h => by simp only [Spec.offsetAt]; exact colChars_mono _ _ _ h
  | l + 1, d, c, c', h => by
    simp only [Spec.offsetAt]
    split
    · exact Nat.le_refl _
    · have := offsetAt_mono_col l (d.drop ((Spec.lineContent d).length + Spec.termLen (Spec.afterContent d))) c c' h
      omega

theorem offsetAt_mono_line : ∀ (l l' : Nat) (d : Doc) (c c' : Nat), l < l' → Spec.offsetAt l c d ≤ Spec.offsetAt l' c' d
  | _, 0, _, _, _, h => by omega
  | 0, l' + 1, d, c, c', _ => by
    simp only [Spec.offsetAt]
    have h1 := colChars_le_length (Spec.lineContent d) c
    have h2 := lineContent_length_le d
    split <;> omega
  | l + 1, l' + 1, d, c, c', h => by
    simp only [Spec.offsetAt]
    split
    · exact Nat.le_refl _
    · have := offsetAt_mono_line l l' (d.drop ((Spec.lineContent d).length + Spec.termLen (Spec.afterContent d))) c c' (by omega)
      omega

/-! ## `Spec.posOf` (position of an offset, by scanning) is inverted by `Spec.offsetAt` -/

theorem posOfLoop_ge : ∀ (cs : Doc) (i line col : Nat) (a : Bool),
    line < (Spec.posOfLoop cs i line col a).line
      ∨ ((Spec.posOfLoop cs i line col a).line = line ∧ col ≤ (Spec.posOfLoop cs i line col a).character)
  | [], _, _, _, _ => by simp [Spec.posOfLoop]
  | _ :: _, 0, _, _, _ => by simp [Spec.posOfLoop]
  | c :: cs, i + 1, line, col, a => by
    unfold Spec.posOfLoop
    split
    · exact posOfLoop_ge cs i line col false
    · split
      · rcases posOfLoop_ge cs i (line + 1) 0 (c == '\r') with h | h
        · left; omega
        · left; omega
      · rcases posOfLoop_ge cs i line (col + utf16Len c) false with h | h
        · left; exact h
        · right; exact ⟨h.1, by omega⟩

theorem charLoop_posOf : ∀ (cs : Doc) (i line col : Nat) (a : Bool), i ≤ cs.length →
    Spec.notInsideCrlf cs i a = true →
    charLoop (Spec.posOfLoop cs i line col a).line (Spec.posOfLoop cs i line col a).character cs line col a = i
  | [], i, line, col, a, hi, _ => by simp at hi; subst hi; simp [charLoop]
  | c :: cs, 0, line, col, a, _, hok => by
    simp only [Spec.notInsideCrlf] at hok
    simp only [Spec.posOfLoop]
    unfold charLoop
    have : (a && c == '\n') = false := by
      cases hh : (a && c == '\n') with
      | false => rfl
      | true => rw [hh] at hok; simp at hok
    simp [this]
  | c :: cs, i + 1, line, col, a, hi, hok => by
    simp only [List.length_cons] at hi
    simp only [Spec.notInsideCrlf] at hok
    have hu := utf16Len_pos c
    unfold Spec.posOfLoop
    by_cases h1 : (a && c == '\n') = true
    · simp only [h1, if_true]
      have hc : c = '\n' := by simp at h1; exact h1.2
      have hcr : (c == '\r') = false := by subst hc; decide
      rw [hcr] at hok
      have ih := charLoop_posOf cs i line col false (by omega) hok
      conv => lhs; unfold charLoop
      simp only [h1, if_true]
      rw [ih]
    · simp only [h1]
      by_cases he : isEol c = true
      · simp only [he, if_true, Bool.false_eq_true, if_false]
        have ih := charLoop_posOf cs i (line + 1) 0 (c == '\r') (by omega) hok
        have hge := posOfLoop_ge cs i (line + 1) 0 (c == '\r')
        have hne : (line == (Spec.posOfLoop cs i (line + 1) 0 (c == '\r')).line) = false := by
          simp; omega
        conv => lhs; unfold charLoop
        simp only [h1, hne, he, Bool.false_and, Bool.false_eq_true, if_false, if_true]
        rw [ih]
      · have he' : isEol c = false := by simpa using he
        have hcr := not_cr_of_not_eol c he'
        rw [hcr] at hok
        simp only [he', Bool.false_eq_true, if_false]
        have ih := charLoop_posOf cs i line (col + utf16Len c) false (by omega) hok
        have hge := posOfLoop_ge cs i line (col + utf16Len c) false
        have hne : (line == (Spec.posOfLoop cs i line (col + utf16Len c) false).line
            && (decide (col ≥ (Spec.posOfLoop cs i line (col + utf16Len c) false).character) || isEol c)) = false := by
          rw [he']; simp; intro h; rcases hge with h' | h'
          · omega
          · omega
        rw [he'] at hne
        conv => lhs; unfold charLoop
        simp only [h1, hne, he', hcr, Bool.false_eq_true, if_false]
        rw [ih]

end ErgVerif.C28
