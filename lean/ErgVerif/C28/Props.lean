import ErgVerif.C28.Proofs
/-!
# C28 — The language server's document copy matches the client's

Property theorems only. Model: `ErgVerif/C28/Model.lean` (transcription of `els` `pos_to_byte_index`,
`FileCache::incremental_update`/`update` after the `fix:` commit for finding #12, `String::replace_range` with its
panics as `crash`; the pinned-commit code as `legacy…`). Spec: `Spec.offset`/`Spec.apply`/`Spec.history`, the LSP
text-edit semantics on the client's copy (UTF-16 columns, `\n`/`\r\n`/`\r` line ends, clamping, range-less change =
full replacement).
-/
namespace ErgVerif.C28

/-- Position conversion: for every document and every position (any line, any UTF-16 column, including columns past
    the end of the line and lines past the end of the document) the byte index computed by `pos_to_byte_index` is
    the UTF-8 length of the prefix the LSP position denotes — in particular always a character boundary inside the
    document. -/
theorem C28_pos_index (d : Doc) (p : Pos) :
    posToByteIndex d p = byteLen (d.take (Spec.offset d p)) ∧ Spec.offset d p ≤ d.length :=
  ⟨posToByteIndex_eq d p, offsetAt_le p.line p.character d⟩

/-- **Full statement**: for every document and every list of content changes whose ranges do not have their start
    after their end, the server's `incremental_update` loop does not panic and produces exactly the client's copy. -/
theorem C28_full (d : Doc) (chs : List Change) (h : Spec.validRanges d chs) :
    applyChanges d chs = .ok (Spec.apply d chs) := by
  induction chs generalizing d with
  | nil => simp [applyChanges, Spec.apply]
  | cons ch rest ih =>
    obtain ⟨h1, h2⟩ := h
    unfold applyChanges
    unfold Spec.validRange at h1
    have hstep : Spec.apply d (ch :: rest) = Spec.apply (Spec.applyChange d ch) rest := by
      simp [Spec.apply]
    rw [hstep]
    cases hr : ch.range with
    | none =>
      have : Spec.applyChange d ch = ch.text := by simp [Spec.applyChange, hr]
      rw [this] at h2 ⊢
      exact ih _ h2
    | some r =>
      obtain ⟨s, e⟩ := r
      rw [hr] at h1
      simp only at h1
      have hc : Spec.applyChange d ch = d.take (Spec.offset d s) ++ ch.text ++ d.drop (Spec.offset d e) := by
        simp [Spec.applyChange, hr]
      simp only [posToByteIndex_eq, replaceRange_take d _ _ ch.text h1]
      rw [hc] at h2 ⊢
      exact ih _ h2

/-- One `didChange` notification with a newer version: the entry becomes the client's copy at that version. -/
theorem C28_notification (e : Entry) (n : Note) (hv : e.ver < n.version) (h : Spec.validRanges e.code n.changes) :
    incrementalUpdate e n.version n.changes = .ok ⟨Spec.apply e.code n.changes, n.version⟩ := by
  unfold incrementalUpdate
  rw [if_neg (by omega), C28_full _ _ h]

/-- the version the entry carries after a history -/
def lastVersion (v : Int) : List Note → Int
  | [] => v
  | n :: rest => lastVersion n.version rest

/-- **History corollary**: for every LSP-conformant history of `didChange` notifications (versions strictly
    increasing, usable ranges), of any length, the server never crashes and its copy equals the client's. -/
theorem C28_history (notes : List Note) (e : Entry) (h : Spec.validHistory e.code e.ver notes) :
    runNotes e notes = .ok ⟨Spec.history e.code notes, lastVersion e.ver notes⟩ := by
  induction notes generalizing e with
  | nil => simp [runNotes, Spec.history, lastVersion]
  | cons n rest ih =>
    obtain ⟨hv, hr, hrest⟩ := h
    unfold runNotes
    rw [C28_notification e n hv hr]
    simp only
    rw [ih ⟨Spec.apply e.code n.changes, n.version⟩ hrest]
    simp [Spec.history, lastVersion]

/-- `didOpen` is authoritative: whatever entry the server holds for the document (none, one loaded from disk, one
    left from an earlier open with a higher version), afterwards it holds the client's text and version. -/
theorem C28_open (prior : Option Entry) (text : Doc) (v : Int) : update prior text (some v) = ⟨text, v⟩ := by
  cases prior <;> rfl

/-- **Session corollary**: `didOpen` followed by any LSP-conformant history of `didChange` notifications leaves the
    server with the client's copy, whether or not the server had loaded the file from disk before. -/
theorem C28_session (disk : Option Doc) (text : Doc) (v : Int) (notes : List Note)
    (h : Spec.validHistory text v notes) :
    runNotes (openDoc disk text v) notes = .ok ⟨Spec.history text notes, lastVersion v notes⟩ := by
  have : openDoc disk text v = ⟨text, v⟩ := by cases disk <;> rfl
  rw [this]; exact C28_history notes ⟨text, v⟩ h

/-- The only way the transcribed loop can panic is a range whose start lies after its end (not LSP-conformant). -/
theorem C28_crash_only_reversed (d : Doc) (chs : List Change) (m : String)
    (h : applyChanges d chs = .crash m) : ¬ Spec.validRanges d chs := by
  intro hv; rw [C28_full d chs hv] at h; cases h

/-- a stale or repeated version is ignored (documented guard of `incremental_update`) -/
theorem C28_stale_ignored (e : Entry) (v : Int) (chs : List Change) (h : v ≤ e.ver) :
    incrementalUpdate e v chs = .ok e := by
  unfold incrementalUpdate; rw [if_pos (by omega)]

/-! ### The specification itself: order of positions, and agreement with "the position of an offset" -/

/-- Positions ordered as the client orders them (line first, then column) denote ordered offsets, for every
    document — so `start ≤ end` in the notification is enough for `Spec.validRange`. -/
theorem C28_offset_mono (d : Doc) (p q : Pos) (h : Spec.posLe p q) : Spec.offset d p ≤ Spec.offset d q := by
  unfold Spec.offset
  rcases h with h | ⟨h1, h2⟩
  · exact offsetAt_mono_line _ _ d _ _ h
  · rw [h1]; exact offsetAt_mono_col _ d _ _ h2

theorem C28_ordered_range_valid (d : Doc) (s e : Pos) (t : Doc) (h : Spec.posLe s e) :
    Spec.validRange d ⟨some (s, e), t⟩ := by
  simp only [Spec.validRange]; exact C28_offset_mono d s e h

/-- Sanity of the specification against an independent reading of LSP positions: the position of character offset
    `i` obtained by *scanning* the first `i` characters (count the line terminators passed, then the UTF-16 units
    since the last one) is mapped back to `i` by `Spec.offset` — for every document and every offset that does not
    split a `\r\n`. -/
theorem C28_spec_roundtrip (d : Doc) (i : Nat) (hi : i ≤ d.length) (h : Spec.notInsideCrlf d i false = true) :
    Spec.offset d (Spec.posOf d i) = i := by
  have h1 := charLoop_posOf d i 0 0 false hi h
  have h2 := charLoop_spec (Spec.posOfLoop d i 0 0 false).line (Spec.posOfLoop d i 0 0 false).character
    d.length d (Nat.le_refl _) 0 0 (Nat.zero_le _)
  unfold Spec.offset Spec.posOf
  refine Eq.trans ?_ h1
  rw [h2]
  by_cases h0 : 0 = (Spec.posOfLoop d i 0 0 false).line
  · rw [← h0]; simp
  · rw [if_neg h0]; simp

/-- Hence every position a client computes for an offset of its copy is resolved by the server to the byte index
    of that very offset. -/
theorem C28_client_position_resolved (d : Doc) (i : Nat) (hi : i ≤ d.length)
    (h : Spec.notInsideCrlf d i false = true) :
    posToByteIndex d (Spec.posOf d i) = byteLen (d.take i) := by
  rw [posToByteIndex_eq, C28_spec_roundtrip d i hi h]

/-! ### Witnesses kept from the pinned commit (finding #12, fixed): the old code violates the full statement -/

/-- document ending in a multi-byte character, insertion at its end: `last char index + 1` is inside `あ`, the
    server panics (`replace_range`: start is not a char boundary); the repaired code inserts at the end. -/
theorem C28_legacy_witness_panic :
    let d := "x = 1\n# あ".toList
    let ch : Change := ⟨some (⟨1, 3⟩, ⟨1, 3⟩), ['!']⟩
    Spec.validRanges d [ch]
    ∧ legacyApplyChanges d [ch] = .crash "start-boundary"
    ∧ applyChanges d [ch] = .ok "x = 1\n# あ!".toList :=
  ⟨(validRanges_iff _ _).2 (by decide), by decide, by decide⟩

/-- astral character before the edit position: the old code counted it as one column (UTF-16: two) -/
theorem C28_legacy_witness_astral :
    let d := "# 😀 a".toList
    let ch : Change := ⟨some (⟨0, 5⟩, ⟨0, 5⟩), ['!']⟩
    legacyApplyChanges d [ch] = .ok "# 😀 a!".toList
    ∧ Spec.apply d [ch] = "# 😀 !a".toList
    ∧ applyChanges d [ch] = .ok "# 😀 !a".toList := by decide

/-- column past the end of the line: the old code fell through to the end of the document -/
theorem C28_legacy_witness_past_eol :
    let d := "x = 1\ny = 2\n".toList
    let ch : Change := ⟨some (⟨0, 99⟩, ⟨0, 99⟩), ['!']⟩
    legacyApplyChanges d [ch] = .ok "x = 1\ny = 2\n!".toList
    ∧ Spec.apply d [ch] = "x = 1!\ny = 2\n".toList
    ∧ applyChanges d [ch] = .ok "x = 1!\ny = 2\n".toList := by decide

/-- a change without a range is a full replacement; the old loop skipped it -/
theorem C28_legacy_witness_rangeless :
    let d := "x = 1\n".toList
    let ch : Change := ⟨none, "y = 2\n".toList⟩
    legacyApplyChanges d [ch] = .ok d
    ∧ Spec.apply d [ch] = "y = 2\n".toList
    ∧ applyChanges d [ch] = .ok "y = 2\n".toList := by decide

/-- a notification with an empty change list (LSP-conformant; editors send it) panicked in the `didChange` arm of
    `server.rs` (`content_changes[0]`); the repaired code just records the new version -/
theorem C28_legacy_witness_empty_changes :
    let e : Entry := ⟨"x = 1\n".toList, 0⟩
    Spec.validHistory e.code e.ver [⟨1, []⟩]
    ∧ legacyDidChange e ⟨1, []⟩ = .crash "index"
    ∧ runNotes e [⟨1, []⟩] = .ok ⟨e.code, 1⟩ :=
  ⟨(validHistory_iff _ _ _).2 (by decide), by decide, by decide⟩

/-- the package entry file is loaded from disk at start-up with version 1; a client that then opens it with its own
    (unsaved) text and first version 1 was ignored, so every later edit was applied to the wrong text -/
theorem C28_legacy_witness_open_ignored :
    let disk := "x = 1\n".toList
    let text := "y = 2\n".toList
    legacyOpenDoc (some disk) text 1 = ⟨disk, 1⟩
    ∧ openDoc (some disk) text 1 = ⟨text, 1⟩ := by decide

/-! ### Non-vacuity -/

/-- `C28_full`'s hypothesis holds for a non-trivial multi-change notification over a CRLF document with BMP and
    astral characters (replace across lines, then insert past the end of a line, then delete), and the result is
    what an editor shows. -/
example :
    let d := "a😀b\r\nあé\nz".toList
    let chs : List Change := [⟨some (⟨0, 3⟩, ⟨1, 1⟩), ['X']⟩, ⟨some (⟨0, 99⟩, ⟨0, 99⟩), ['!']⟩, ⟨some (⟨1, 0⟩, ⟨7, 0⟩), []⟩]
    Spec.validRanges d chs ∧ Spec.apply d chs = "a😀Xé!\n".toList :=
  ⟨(validRanges_iff _ _).2 (by decide), by decide⟩

/-- `C28_spec_roundtrip`'s hypotheses hold at the offset after `😀b\r\n` (line 1, column 0) and fail inside `\r\n` -/
example : Spec.notInsideCrlf "a😀b\r\nあ".toList 5 false = true ∧ Spec.posOf "a😀b\r\nあ".toList 5 = ⟨1, 0⟩
    ∧ Spec.notInsideCrlf "a😀b\r\nあ".toList 4 false = false ∧ Spec.posOf "a😀b\r\nあ".toList 3 = ⟨0, 4⟩ := by decide

/-- `C28_history`'s hypothesis holds for a three-notification history -/
example :
    Spec.validHistory "x = 1\n# あ".toList 0
      [⟨1, [⟨some (⟨1, 3⟩, ⟨1, 3⟩), ['!']⟩]⟩, ⟨2, [⟨none, "é\r\n".toList⟩, ⟨some (⟨1, 0⟩, ⟨1, 0⟩), ['😀']⟩]⟩, ⟨7, []⟩] :=
  (validHistory_iff _ _ _).2 (by decide)

end ErgVerif.C28
