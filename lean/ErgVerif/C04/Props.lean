/-
C04 — property theorems.

`Good v r`  :=  `v` is a well-formed value and `agrees v r` (the compile-time value is the run-time value `r` that Python's
int/bool semantics assigns; `r = noDemand` for expressions the property does not speak about, see Spec.lean).

Full-strength statements (they hold of the code after the repairs C04-add-uses-sub, C04-floor-semantics,
C04-overflow-panics, C04-mixed-truncation, C04-zero-divisor-folds):
  C04_agree        every binary operator, every pair of well-formed Int/Nat/Bool operands, any float primitives
  C04_total        no binary operator panics on well-formed operands (Float operands included)
  C04_total_unary  no unary operator panics
  C04_expr_total   no constant expression tree panics
Still false of the code (recorded finding C04-invert-bool): `~b` on a Bool folds to `not b`, Python gives `-b-1`:
  C04_agree_unary_partial / C04_expr_agree_partial  carry the hypothesis the proof forces (no `~` on a Bool),
  C04_invert_bool_witness                           proves the negation of the full statement at `~True`.
`legacy…` witnesses: the behaviour before each repair, at the inputs of DESIGN §10 #1/#2.
-/
import ErgVerif.C04.Proofs
namespace ErgVerif.C04

/-- Agreement, full strength, binary operators: whenever compile-time evaluation answers with a value on int-like operands,
    it is a well-formed value and it is the value Python computes (same integer, Bool stays Bool, true division yields a
    non-integer); in particular it never answers where Python raises ZeroDivisionError. -/
theorem C04_agree (F : FloatOps) (op : Op) (a b v : Val) (hia : a.intlike = true) (hib : b.intlike = true)
    (h : evalBin F op a b = .ok v) : Good v (pyBin op (toPy a) (toPy b)) := by
  cases op <;> simp only [evalBin] at h
  case Add => exact tryAdd_good F hia hib h
  case Sub => exact trySub_good F hia hib h
  case Mul => exact tryMul_good F hia hib h
  case Div => exact tryDiv_good F hia hib h
  case FloorDiv => exact tryFloorDiv_good F hia hib h
  case Pow => exact tryPow_good F hia hib h
  case Mod => exact tryMod_good F hia hib h
  case Gt => exact tryGt_good F hia hib h
  case Ge => exact tryGe_good F hia hib h
  case Lt => exact tryLt_good F hia hib h
  case Le => exact tryLe_good F hia hib h
  case Eq => exact tryEq_good F hia hib h
  case Ne => exact tryNe_good F hia hib h
  case Or => exact (evalOr_good h).1
  case BitOr => exact (evalOr_good h).2
  case And => exact (evalAnd_good h).1
  case BitAnd => exact (evalAnd_good h).2
  case BitXor => exact evalXor_good h
  all_goals cases h

/-- Totality, full strength: no binary operator panics on well-formed operands of any kind (Int, Nat, Bool, Float). -/
theorem C04_total (F : FloatOps) (op : Op) (a b : Val) (ha : a.wf = true) (hb : b.wf = true) (w : String) :
    evalBin F op a b ≠ .crash w := by
  cases op <;> simp only [evalBin]
  case Add => exact tryAdd_nocrash F ha hb w
  case Sub => exact trySub_nocrash F ha hb w
  case Mul => exact tryMul_nocrash F ha hb w
  case Div => exact tryDiv_nocrash F w
  case FloorDiv => exact tryFloorDiv_nocrash F ha hb w
  case Pow => exact tryPow_nocrash F w
  case Mod => exact tryMod_nocrash F ha hb w
  case Gt => exact cmpRows_nocrash F _ _ w
  case Ge => exact cmpRows_nocrash F _ _ w
  case Lt => exact cmpRows_nocrash F _ _ w
  case Le => exact cmpRows_nocrash F _ _ w
  case Eq => exact tryEq_nocrash F w
  case Ne => exact tryNe_nocrash F w
  case Or => exact evalOr_nocrash a b w
  case BitOr => exact evalOr_nocrash a b w
  case And => exact evalAnd_nocrash a b w
  case BitAnd => exact evalAnd_nocrash a b w
  case BitXor => exact evalXor_nocrash a b w
  all_goals simp

/-- a value produced by a binary operator is well-formed whatever the operand kinds (needed to chain operators) -/
theorem C04_wf (F : FloatOps) (op : Op) (a b v : Val) (ha : a.wf = true) (hb : b.wf = true)
    (h : evalBin F op a b = .ok v) : v.wf = true := by
  by_cases hi : a.intlike = true ∧ b.intlike = true
  · exact (C04_agree F op a b v hi.1 hi.2 h).1
  · -- a Float operand: every row answers with a Float or a Bool (or not at all)
    cases op <;> simp only [evalBin] at h
    case Div => unfold tryDiv at h; split at h; · cases h
                cases a <;> cases b <;> simp [Val.intlike] at hi <;> simp [tryDivRows, okF] at h <;> subst h <;> rfl
    case FloorDiv => unfold tryFloorDiv at h; split at h; · cases h
                     cases a <;> cases b <;> simp [Val.intlike] at hi <;> simp [tryFloorDivRows, okF] at h <;> subst h <;> rfl
    case Mod => unfold tryMod at h; split at h; · cases h
                cases a <;> cases b <;> simp [Val.intlike] at hi <;> simp [tryModRows, okF] at h <;> subst h <;> rfl
    all_goals first
      | (cases h; done)
      | (cases a <;> cases b <;> simp [Val.intlike] at hi <;>
          simp [tryAdd, trySub, tryMul, tryPow, tryGt,
            tryGe, tryLt, tryLe, tryEq, tryNe, cmpRows, evalOr, evalAnd, evalXor, okF, okB] at h <;>
          (try (obtain ⟨_, h⟩ := h)) <;> (try subst h) <;> simp [Val.wf])

/-- Agreement for the unary operators, under the hypothesis the proof forces: not `~` applied to a Bool. -/
theorem C04_agree_unary_partial (F : FloatOps) (op : Op) (a v : Val) (ha : a.wf = true) (hia : a.intlike = true)
    (hK : invertBool op a = false) (h : evalUnary F op a = .ok v) : Good v (pyUnary op (toPy a)) := by
  cases op <;> cases a <;> simp only [evalUnary, Val.intlike] at h hia
  all_goals first
    | (cases h; done)
    | (cases hia; done)
    | (simp [invertBool] at hK; done)
    | (cases h; exact good_int ⟨ha, rfl, rfl⟩)
    | exact good_i32 h
    | (rw [okB_eq h]; exact good_bool _)

/-- The full statement for unary operators is false of the code: `~True` folds to `False`, at run time it is `-2`. -/
theorem C04_invert_bool_witness (F : FloatOps) :
    evalUnary F .Invert (.bool true) = .ok (.bool false) ∧ pyUnary .Invert (toPy (.bool true)) = pyInt (-2)
      ∧ agrees (.bool false) (pyInt (-2)) = false := by
  refine ⟨rfl, ?_, ?_⟩ <;> first | rfl | decide

/-- Totality for the unary operators. -/
theorem C04_total_unary (F : FloatOps) (op : Op) (a : Val) (w : String) : evalUnary F op a ≠ .crash w := by
  cases op <;> cases a <;> simp only [evalUnary]
  all_goals first
    | exact checkedI32_nocrash _ _ w
    | exact okF_nocrash _ w
    | exact okB_nocrash _ w
    | simp

theorem C04_wf_unary (F : FloatOps) (op : Op) (a v : Val) (ha : a.wf = true) (h : evalUnary F op a = .ok v) :
    v.wf = true := by
  cases op <;> cases a <;> simp only [evalUnary] at h
  all_goals first
    | (cases h; done)
    | (cases h; exact ha)
    | exact (good_i32 h).1
    | (rw [okB_eq h]; rfl)
    | (rw [okF_eq h]; rfl)

/-- leaves are well-formed values -/
def Expr.wf : Expr → Bool
  | .lit v => v.wf
  | .bin _ l r => l.wf && r.wf
  | .un _ e => e.wf

theorem C04_expr_wf (F : FloatOps) : ∀ (e : Expr) (v : Val), e.wf = true → evalExpr F e = .ok v → v.wf = true
  | .lit x, v, hw, h => by
    simp only [evalExpr] at h; cases h; exact hw
  | .bin op l r, v, hw, h => by
    simp only [Expr.wf, Bool.and_eq_true] at hw
    simp only [evalExpr] at h
    split at h
    · rename_i a hl
      split at h
      · rename_i b hr
        exact C04_wf F op a b v (C04_expr_wf F l a hw.1 hl) (C04_expr_wf F r b hw.2 hr) h
      · cases h
      · rename_i o _ _; cases o <;> simp_all
    · cases h
    · rename_i o _ _; cases o <;> simp_all
  | .un op e, v, hw, h => by
    simp only [Expr.wf] at hw
    simp only [evalExpr] at h
    split at h
    · rename_i a he
      exact C04_wf_unary F op a v (C04_expr_wf F e a hw he) h
    · cases h
    · rename_i o _ _; cases o <;> simp_all

/-- Totality for whole constant expressions, full strength: evaluating a tree of operators over well-formed literal
    leaves never panics. -/
theorem C04_expr_total (F : FloatOps) : ∀ (e : Expr) (w : String), e.wf = true → evalExpr F e ≠ .crash w
  | .lit _, w, _ => by simp [evalExpr]
  | .bin op l r, w, hw => by
    simp only [Expr.wf, Bool.and_eq_true] at hw
    have hl := C04_expr_total F l w hw.1
    have hr := C04_expr_total F r w hw.2
    simp only [evalExpr]
    split
    · rename_i a hla
      split
      · rename_i b hrb
        exact C04_total F op a b (C04_expr_wf F l a hw.1 hla) (C04_expr_wf F r b hw.2 hrb) w
      · simp
      · rename_i o _ _; intro hc; exact hr hc
    · simp
    · rename_i o _ _; intro hc; exact hl hc
  | .un op e, w, hw => by
    simp only [Expr.wf] at hw
    have he := C04_expr_total F e w hw
    simp only [evalExpr]
    split
    · exact C04_total_unary F op _ w
    · simp
    · rename_i o _ _; intro hc; exact he hc

/-- Agreement for whole constant expressions under the hypothesis the proof forces (no `~` on a Bool-valued operand):
    if the tree evaluates to a value at compile time, that value is what Python computes for the tree at run time
    (`pyEval`; nothing is demanded once a sub-expression is float-valued or outside the property). -/
theorem C04_expr_agree_partial (F : FloatOps) :
    ∀ (e : Expr) (v : Val), e.wf = true → hasInvertBool F e = false → evalExpr F e = .ok v → agrees v (pyEval e) = true
  | .lit x, v, _, _, h => by
    simp only [evalExpr] at h; cases h
    simp only [pyEval]
    split
    · rename_i hi; simp [agrees, hi]
    · rfl
  | .bin op l r, v, hw, hK, h => by
    simp only [Expr.wf, Bool.and_eq_true] at hw
    simp only [hasInvertBool, Bool.or_eq_false_iff] at hK
    simp only [evalExpr] at h
    split at h
    · rename_i a hl
      split at h
      · rename_i b hr
        have ihl := C04_expr_agree_partial F l a hw.1 hK.1 hl
        have ihr := C04_expr_agree_partial F r b hw.2 hK.2 hr
        simp only [pyEval]
        split
        · rename_i pa pb hpa hpb
          rw [hpa] at ihl; rw [hpb] at ihr
          simp only [agrees, Bool.and_eq_true, decide_eq_true_eq] at ihl ihr
          rw [← ihl.2, ← ihr.2]
          exact (C04_agree F op a b v ihl.1 ihr.1 h).2
        · rfl
      · cases h
      · rename_i o _ _; cases o <;> simp_all
    · cases h
    · rename_i o _ _; cases o <;> simp_all
  | .un op e, v, hw, hK, h => by
    simp only [Expr.wf] at hw
    simp only [hasInvertBool, Bool.or_eq_false_iff] at hK
    simp only [evalExpr] at h
    split at h
    · rename_i a he
      have ih := C04_expr_agree_partial F e a hw hK.1 he
      have hKa : invertBool op a = false := by
        have := hK.2; rw [he] at this; exact this
      simp only [pyEval]
      split
      · rename_i pa hpa
        rw [hpa] at ih
        simp only [agrees, Bool.and_eq_true, decide_eq_true_eq] at ih
        rw [← ih.2]
        exact (C04_agree_unary_partial F op a v (C04_expr_wf F e a hw he) ih.1 hKa h).2
      · rfl
    · cases h
    · rename_i o _ _; cases o <;> simp_all

/-! ### non-vacuity: the hypotheses are satisfiable by non-trivial values, and the conclusions are not trivially true -/

/-- floor semantics at the former witness: `-7 // 2 = -4`, `-7 % 2 = 1`, both accepted by `agrees` -/
example (F : FloatOps) :
    evalBin F .FloorDiv (.int (-7)) (.nat 2) = .ok (.int (-4)) ∧ evalBin F .Mod (.int (-7)) (.nat 2) = .ok (.nat 1)
      ∧ pyBin .FloorDiv (.int (-7)) (.int 2) = pyInt (-4) := by
  refine ⟨?_, ?_, ?_⟩ <;> first | rfl | decide

/-- overflow and zero divisors are left to run time, `3000000000 > -5` is `True`, `4294967296 - 1` is exact -/
example (F : FloatOps) :
    evalBin F .Add (.int 2147483647) (.int 1) = .none ∧ evalBin F .FloorDiv (.nat 1) (.nat 0) = .none
      ∧ evalBin F .Gt (.nat 3000000000) (.int (-5)) = .ok (.bool true)
      ∧ evalBin F .Sub (.nat 4294967296) (.nat 1) = .ok (.nat 4294967295)
      ∧ evalBin F .Pow (.nat 2) (.nat 64) = .none ∧ evalBin F .Pow (.nat 2) (.nat 63) = .ok (.nat 9223372036854775808) := by
  refine ⟨?_, ?_, ?_, ?_, ?_, ?_⟩ <;> first | rfl | decide

/-- `agrees` rejects a wrong value, a value where Python raises, and an int where Python gives a float -/
example : agrees (.int (-3)) (pyInt (-4)) = false ∧ agrees (.nat 1) .raises = false ∧ agrees (.nat 0) .nonInt = false := by
  decide

/-- a two-level tree satisfying the hypotheses of C04_expr_agree_partial with a non-trivial value:
    `(-7 // 2) * (2 ** 31)` is `-8589934592`, which fits neither Int nor Nat, so it is left to run time;
    `(-7 // 2) * 3` folds to `-12` -/
example (F : FloatOps) :
    let e := Expr.bin .Mul (.bin .FloorDiv (.lit (.int (-7))) (.lit (.nat 2))) (.lit (.nat 3))
    e.wf = true ∧ hasInvertBool F e = false ∧ evalExpr F e = .ok (.int (-12)) ∧ pyEval e = pyInt (-12) := by
  refine ⟨?_, ?_, ?_, ?_⟩ <;> first | rfl | decide

/-! ### behaviour before the repairs (witnesses of DESIGN §10 #1 and #2, now fixed) -/

/-- #1: the `Float + Nat` row computed `l - r` -/
theorem C04_legacy_add_uses_sub (F : FloatOps) (l : UInt64) (r : Nat) :
    legacyTryAdd F (.float l) (.nat r) = .ok (.float (F.sub l (F.ofNat r)))
      ∧ tryAdd F (.float l) (.nat r) = .ok (.float (F.add l (F.ofNat r))) := ⟨rfl, rfl⟩

/-- #2: `-7 // 2` folded to `-3` and `-7 % 2` to `-1` (Python: `-4`, `1`) -/
theorem C04_legacy_truncation :
    legacyTryFloorDiv (.int (-7)) (.int 2) = .ok (.int (-3)) ∧ Int.fdiv (-7) 2 = -4
      ∧ legacyTryMod (.int (-7)) (.int 2) = .ok (.int (-1)) ∧ Int.fmod (-7) 2 = 1 := by
  refine ⟨?_, ?_, ?_, ?_⟩ <;> first | rfl | decide

/-- #2: i32 overflow and zero divisors panicked -/
theorem C04_legacy_panics (F : FloatOps) :
    legacyTryAdd F (.int 2147483647) (.int 1) = .crash "attempt to compute an i32 with overflow"
      ∧ legacyTryFloorDiv (.int 1) (.int 0) = .crash "attempt to divide by zero"
      ∧ legacyTrySub (.int (-2147483647)) (.nat 2) = .crash "attempt to compute an i32 with overflow" := by
  refine ⟨?_, ?_, ?_⟩ <;> first | rfl | decide

/-- #2: mixed Nat/Int rows went through `as i32`: `3000000000 > -5` was `False`, `4294967296 - 1` was `-1` -/
theorem C04_legacy_mixed_truncation :
    legacyTryGt (.nat 3000000000) (.int (-5)) = .ok (.bool false)
      ∧ legacyTrySub (.nat 4294967296) (.nat 1) = .ok (.int (-1)) := by
  refine ⟨?_, ?_⟩ <;> first | rfl | decide

end ErgVerif.C04
