/-
C04 — specification: what the same constant expression is worth when the program runs, i.e. Python's `int`/`bool`
semantics (unbounded integers, floor division, sign of the modulus follows the divisor, `bool` a subtype of `int`).
Nothing here refers to erg's code.  Cross-checked against CPython 3.11 on every run (py/c04_oracle.py).
-/
import ErgVerif.C04.Model
namespace ErgVerif.C04

inductive PyVal where
  | int (i : Int)
  | bool (b : Bool)
  deriving DecidableEq, Repr

def PyVal.toInt : PyVal → Int
  | .int i => i
  | .bool b => if b then 1 else 0

inductive PyRes where
  | val (v : PyVal)      -- an `int` or `bool`
  | nonInt               -- a value outside int/bool (true division, negative exponent): a float
  | raises               -- ZeroDivisionError
  | noDemand             -- the expression is outside the property (ill-typed in Erg, bitwise operator on integers,
                         -- range constructor, an operand that already had no int/bool value)
  deriving DecidableEq, Repr

def pyBool (b : Bool) : PyRes := .val (.bool b)
def pyInt (i : Int) : PyRes := .val (.int i)

/-- Python's binary operators on int/bool operands -/
def pyBin (op : Op) (x y : PyVal) : PyRes :=
  let a := x.toInt
  let b := y.toInt
  match op with
  | .Add => pyInt (a + b)
  | .Sub => pyInt (a - b)
  | .Mul => pyInt (a * b)
  | .Div => if b = 0 then .raises else .nonInt
  | .FloorDiv => if b = 0 then .raises else pyInt (Int.fdiv a b)
  | .Mod => if b = 0 then .raises else pyInt (Int.fmod a b)
  | .Pow => if b < 0 then (if a = 0 then .raises else .nonInt) else pyInt (a ^ b.toNat)
  | .Gt => pyBool (decide (a > b))
  | .Ge => pyBool (decide (a ≥ b))
  | .Lt => pyBool (decide (a < b))
  | .Le => pyBool (decide (a ≤ b))
  | .Eq => pyBool (decide (a = b))
  | .Ne => pyBool (decide (a ≠ b))
  | .And | .BitAnd => match x, y with
    | .bool p, .bool q => pyBool (p && q)
    | _, _ => .noDemand
  | .Or | .BitOr => match x, y with
    | .bool p, .bool q => pyBool (p || q)
    | _, _ => .noDemand
  | .BitXor => match x, y with
    | .bool p, .bool q => pyBool (p != q)
    | _, _ => .noDemand
  | _ => .noDemand

/-- Python's unary operators on int/bool operands (`not` is Bool-only in Erg) -/
def pyUnary (op : Op) (x : PyVal) : PyRes :=
  match op with
  | .Pos => pyInt x.toInt
  | .Neg => pyInt (-x.toInt)
  | .Invert => pyInt (-x.toInt - 1)
  | .Not => match x with
    | .bool p => pyBool (!p)
    | _ => .noDemand
  | _ => .noDemand

/-- the Python value denoted by an int-like compile-time value -/
def toPy : Val → PyVal
  | .int i => .int i
  | .nat n => .int n
  | .bool b => .bool b
  | .float _ => .int 0      -- never used: callers require `intlike`

/-- "the compile-time value `v` is the run-time value `r`" -/
def agrees (v : Val) : PyRes → Bool
  | .noDemand => true
  | .val pv => v.intlike && decide (toPy v = pv)
  | .nonInt => !v.intlike
  | .raises => false

/-- run-time value of an expression tree over int-like leaves; once a sub-expression has no int/bool value nothing is
    demanded of the enclosing expression by this specification (floats are compared with CPython by the check instead) -/
def pyEval : Expr → PyRes
  | .lit v => if v.intlike then .val (toPy v) else .noDemand
  | .bin op l r =>
    match pyEval l, pyEval r with
    | .val a, .val b => pyBin op a b
    | _, _ => .noDemand
  | .un op e =>
    match pyEval e with
    | .val a => pyUnary op a
    | _ => .noDemand

/-- class of the recorded finding C04-invert-bool: `~` applied to a Bool -/
def invertBool (op : Op) (a : Val) : Bool :=
  match op, a with
  | .Invert, .bool _ => true
  | _, _ => false

/-- an expression contains `~` applied to a sub-expression whose compile-time value is a Bool -/
def hasInvertBool (F : FloatOps) : Expr → Bool
  | .lit _ => false
  | .bin _ l r => hasInvertBool F l || hasInvertBool F r
  | .un op e => hasInvertBool F e || (match evalExpr F e with | .ok a => invertBool op a | _ => false)

/-- an integer operand that `as f64` rounds (beyond 2^53) -/
def bigNat : Val → Bool
  | .nat n => decide (n > 9007199254740992)
  | _ => false

/-- class of the recorded finding C04-float-semantics, one operator application: float `%`, `//`, `**` (C `fmod`,
    `floor(l / r)`, `powf`/`powi` instead of Python's float semantics and exceptions); integer `/` integer and
    integer-vs-float comparisons when an integer operand is beyond 2^53 (Python divides and compares exactly) -/
def rowResidual (op : Op) (a b : Val) : Bool :=
  let fl := !a.intlike || !b.intlike
  match op with
  | .Mod | .FloorDiv | .Pow => fl
  | .Div => !fl && (bigNat a || bigNat b)
  | .Gt | .Ge | .Lt | .Le | .Eq | .Ne => fl && (bigNat a || bigNat b)
  | _ => false

/-- the expression contains an operator application of that class (its value then feeds everything above it) -/
def floatResidual (F : FloatOps) : Expr → Bool
  | .lit _ => false
  | .un _ e => floatResidual F e
  | .bin op l r =>
    floatResidual F l || floatResidual F r ||
      (match evalExpr F l, evalExpr F r with
       | .ok a, .ok b => rowResidual op a b
       | _, _ => false)

end ErgVerif.C04
