/-
C04 — helper lemmas: Rust's truncating `/`, `%` against Python's floor division, the range-checked constructors, the guarded
`checked_pow`, and one agreement/totality lemma per `try_*` function.
-/
import ErgVerif.C04.Model
import ErgVerif.C04.Spec
namespace ErgVerif.C04

/-! ### integer facts -/

theorem inI32_iff {i : Int} : inI32 i = true ↔ -2147483648 ≤ i ∧ i ≤ 2147483647 := by
  unfold inI32 i32min i32max
  exact decide_eq_true_iff

theorem inI128_iff {i : Int} :
    inI128 i = true ↔ -170141183460469231731687303715884105728 ≤ i ∧ i ≤ 170141183460469231731687303715884105727 := by
  unfold inI128 i128min i128max
  exact decide_eq_true_iff

theorem u64max_int : (u64max : Int) = 18446744073709551615 := rfl
theorem u64max_nat : u64max = 18446744073709551615 := rfl
theorem i32min_eq : i32min = -2147483648 := rfl

theorem fdiv_code (l r : Int) (hr : r ≠ 0) :
    Int.fdiv l r = if Int.tmod l r ≠ 0 ∧ (decide (l < 0) ≠ decide (r < 0)) then Int.tdiv l r - 1 else Int.tdiv l r := by
  rw [Int.fdiv_eq_tdiv]
  have hd : r ∣ l ↔ Int.tmod l r = 0 := Int.dvd_iff_tmod_eq_zero
  by_cases h0 : Int.tmod l r = 0
  · simp [h0, hd.mpr h0]
  · have : ¬ r ∣ l := fun h => h0 (hd.mp h)
    simp only [this, if_false, h0, ne_eq, not_false_eq_true, true_and]
    by_cases hl : 0 ≤ l <;> by_cases hr' : 0 ≤ r
    · have h1 : ¬ l < 0 := by omega
      have h2 : ¬ r < 0 := by omega
      simp [hl, hr', h1, h2]
    · have h1 : ¬ l < 0 := by omega
      have h2 : r < 0 := by omega
      simp [hl, hr', h1, h2]
    · have h1 : l < 0 := by omega
      have h2 : ¬ r < 0 := by omega
      have h3 : 0 < r := by omega
      simp [hl, hr', h1, h2, Int.sign_eq_one_of_pos h3]
    · have h1 : l < 0 := by omega
      have h2 : r < 0 := by omega
      simp [hl, hr', h1, h2, Int.sign_eq_neg_one_of_neg h2]

theorem tmod_nonpos' (l r : Int) (hl : l < 0) : Int.tmod l r ≤ 0 := by
  have h : l = -(-l) := by omega
  rw [h, Int.neg_tmod]
  have := Int.tmod_nonneg (a := -l) r (by omega)
  omega

theorem fmod_code (l r : Int) :
    Int.fmod l r =
      if Int.tmod l r ≠ 0 ∧ (decide (Int.tmod l r < 0) ≠ decide (r < 0)) then Int.tmod l r + r else Int.tmod l r := by
  rw [Int.fmod_eq_tmod]
  have hd : r ∣ l ↔ Int.tmod l r = 0 := Int.dvd_iff_tmod_eq_zero
  by_cases h0 : Int.tmod l r = 0
  · simp [h0, hd.mpr h0]
  · have : ¬ r ∣ l := fun h => h0 (hd.mp h)
    simp only [this, if_false, h0, ne_eq, not_false_eq_true, true_and]
    by_cases hl : 0 ≤ l <;> by_cases hr' : 0 ≤ r
    · have hm := Int.tmod_nonneg (a := l) r hl
      have h1 : ¬ Int.tmod l r < 0 := by omega
      have h2 : ¬ r < 0 := by omega
      simp [hl, hr', h1, h2]
    · have hm := Int.tmod_nonneg (a := l) r hl
      have h1 : ¬ Int.tmod l r < 0 := by omega
      have h2 : r < 0 := by omega
      simp [hl, hr', h1, h2]
    · have hm := tmod_nonpos' l r (by omega)
      have h1 : Int.tmod l r < 0 := by omega
      have h2 : ¬ r < 0 := by omega
      simp [hl, hr', h1, h2]
      omega
    · have hm := tmod_nonpos' l r (by omega)
      have h1 : Int.tmod l r < 0 := by omega
      have h2 : r < 0 := by omega
      simp [hl, hr', h1, h2]
      omega

theorem neg_one_pow (e : Nat) : (-1 : Int) ^ e = if e % 2 = 0 then 1 else -1 := by
  induction e with
  | zero => simp
  | succ n ih =>
    rw [Int.pow_succ, ih]
    by_cases h : n % 2 = 0
    · have : (n + 1) % 2 ≠ 0 := by omega
      simp [h, this]
    · have : (n + 1) % 2 = 0 := by omega
      simp [h, this]

theorem tdiv_abs_le (l r : Int) : -(l.natAbs : Int) ≤ Int.tdiv l r ∧ Int.tdiv l r ≤ l.natAbs := by
  have := Int.natAbs_tdiv_le_natAbs l r
  omega

theorem tmod_abs_le (l r : Int) : -(l.natAbs : Int) ≤ Int.tmod l r ∧ Int.tmod l r ≤ l.natAbs := by
  have h := Int.natAbs_tmod l r
  have : l.natAbs % r.natAbs ≤ l.natAbs := Nat.mod_le _ _
  omega

/-! ### values, results -/

/-- the integer denoted by an int-like value -/
def Val.toInt : Val → Int
  | .int i => i
  | .nat n => n
  | .bool b => if b then 1 else 0
  | .float _ => 0

/-- "v is a well-formed Int or Nat value denoting x" -/
def IsInt (v : Val) (x : Int) : Prop := v.wf = true ∧ v.intlike = true ∧ toPy v = .int x

theorem agrees_int {v : Val} {x : Int} (h : IsInt v x) : agrees v (pyInt x) = true := by
  simp [agrees, pyInt, h.2.1, h.2.2]

theorem isInt_int {i : Int} (h : inI32 i = true) : IsInt (.int i) i := by
  simp [IsInt, Val.wf, Val.intlike, toPy, h]

theorem isInt_nat {i : Int} (h0 : 0 ≤ i) (h1 : i ≤ (u64max : Int)) : IsInt (.nat i.toNat) i := by
  have : (i.toNat : Int) = i := Int.toNat_of_nonneg h0
  refine ⟨?_, rfl, ?_⟩
  · simp only [Val.wf, decide_eq_true_eq]
    rw [u64max_int] at h1; rw [u64max_nat]; omega
  · simp [toPy, this]

theorem isInt_fromI32 {i : Int} (h : inI32 i = true) : IsInt (fromI32 i) i := by
  unfold fromI32
  split
  · rename_i h0
    apply isInt_nat h0
    rw [inI32_iff] at h
    rw [u64max_int]; omega
  · exact isInt_int h

theorem fromExactInt_ok {i : Int} {v : Val} (h : fromExactInt i = .ok v) : IsInt v i := by
  unfold fromExactInt at h
  split at h
  · rename_i h0
    split at h
    · rename_i h1
      cases h
      exact isInt_nat h0 h1
    · cases h
  · rename_i h0
    split at h
    · rename_i h1
      cases h
      apply isInt_int
      rw [inI32_iff]
      rw [i32min_eq] at h1
      omega
    · cases h

theorem fromExactInt_nocrash (i : Int) (w : String) : fromExactInt i ≠ .crash w := by
  unfold fromExactInt
  repeat' split
  all_goals simp

theorem i128op_ok {x : Int} {k : Int → Out} {v : Val} (h : i128op x k = .ok v) : k x = .ok v := by
  unfold i128op at h
  split at h
  · exact h
  · cases h

theorem i128op_nocrash {x : Int} {k : Int → Out} (hx : inI128 x = true) (hk : ∀ w, k x ≠ .crash w) (w : String) :
    i128op x k ≠ .crash w := by
  unfold i128op
  simp [hx, hk]

theorem checkedI32_ok {x : Int} {mk : Int → Val} {v : Val} (h : checkedI32 x mk = .ok v) : v = mk x ∧ inI32 x = true := by
  unfold checkedI32 at h
  split at h
  · rename_i hx
    cases h
    exact ⟨rfl, hx⟩
  · cases h

theorem checkedU64_ok {x : Int} {v : Val} (h : checkedU64 x = .ok v) : IsInt v x := by
  unfold checkedU64 at h
  split at h
  · rename_i hx
    cases h
    exact isInt_nat hx.1 hx.2
  · cases h

theorem checkedPow_some {lo hi b : Int} {e : Nat} {p : Int} (hlo : lo ≤ 0) (hhi : 1 ≤ hi)
    (h : checkedPow lo hi b e = some p) : p = b ^ e ∧ lo ≤ p ∧ p ≤ hi := by
  unfold checkedPow at h
  split at h
  · rename_i hb
    subst hb
    cases h
    by_cases he : e = 0
    · subst he; simp; omega
    · simp [he, Int.zero_pow he]; omega
  · split at h
    · rename_i hb
      subst hb
      cases h
      simp [Int.one_pow]; omega
    · split at h
      · rename_i hb
        subst hb
        rw [neg_one_pow]
        split at h
        · rename_i he
          cases h
          simp [he]; omega
        · rename_i he
          split at h
          · cases h
            simp [he]; omega
          · cases h
      · split at h
        · cases h
        · simp only at h
          split at h
          · rename_i hp
            cases h
            exact ⟨rfl, hp.1, hp.2⟩
          · cases h

/-! ### floor division and modulo -/

theorem intFloorDiv_ok {l r : Int} {v : Val} (h : intFloorDiv l r = .ok v) : r ≠ 0 ∧ IsInt v (Int.fdiv l r) := by
  unfold intFloorDiv at h
  split at h
  · cases h
  · rename_i hr
    have hr0 : r ≠ 0 := fun h0 => hr (Or.inl h0)
    refine ⟨hr0, ?_⟩
    rw [fdiv_code l r hr0]
    simp only at h
    split at h
    · rename_i hc
      rw [if_pos hc]
      exact fromExactInt_ok (i128op_ok h)
    · rename_i hc
      rw [if_neg hc]
      exact fromExactInt_ok h

theorem intMod_ok {l r : Int} {v : Val} (h : intMod l r = .ok v) : r ≠ 0 ∧ IsInt v (Int.fmod l r) := by
  unfold intMod at h
  split at h
  · cases h
  · rename_i hr
    have hr0 : r ≠ 0 := fun h0 => hr (Or.inl h0)
    refine ⟨hr0, ?_⟩
    rw [fmod_code]
    simp only at h
    split at h
    · rename_i hc
      rw [if_pos hc]
      exact fromExactInt_ok (i128op_ok h)
    · rename_i hc
      rw [if_neg hc]
      exact fromExactInt_ok h

/-- operands that come from an i32 or a u64 -/
def small (x : Int) : Prop := -18446744073709551616 ≤ x ∧ x ≤ 18446744073709551616

theorem intFloorDiv_nocrash {l r : Int} (hl : small l) (w : String) : intFloorDiv l r ≠ .crash w := by
  unfold intFloorDiv
  split
  · simp
  · simp only
    have hq := tdiv_abs_le l r
    split
    · apply i128op_nocrash _ (fromExactInt_nocrash _)
      rw [inI128_iff]
      unfold small at hl
      omega
    · exact fromExactInt_nocrash _ w

theorem intMod_nocrash {l r : Int} (hl : small l) (hr : small r) (w : String) : intMod l r ≠ .crash w := by
  unfold intMod
  split
  · simp
  · simp only
    have hq := tmod_abs_le l r
    split
    · apply i128op_nocrash _ (fromExactInt_nocrash _)
      rw [inI128_iff]
      unfold small at hl hr
      omega
    · exact fromExactInt_nocrash _ w

theorem small_of_int {i : Int} (h : (Val.int i).wf = true) : small i := by
  simp only [Val.wf] at h
  rw [inI32_iff] at h
  unfold small; omega

theorem small_of_nat {n : Nat} (h : (Val.nat n).wf = true) : small (n : Int) := by
  simp only [Val.wf, decide_eq_true_eq] at h
  rw [u64max_nat] at h
  unfold small; omega

/-! ### one lemma per `try_*` function: agreement (with well-formedness of the result) -/

/-- the compile-time value is a well-formed value and is the run-time value -/
def Good (v : Val) (r : PyRes) : Prop := v.wf = true ∧ agrees v r = true

theorem good_int {v : Val} {x : Int} (h : IsInt v x) : Good v (pyInt x) := ⟨h.1, agrees_int h⟩

theorem good_bool (b : Bool) : Good (.bool b) (pyBool b) := by
  simp [Good, Val.wf, agrees, pyBool, Val.intlike, toPy]

theorem good_i32 {x : Int} {v : Val} (h : checkedI32 x .int = .ok v) : Good v (pyInt x) := by
  obtain ⟨rfl, hx⟩ := checkedI32_ok h
  exact good_int (isInt_int hx)

theorem good_i32from {x : Int} {v : Val} (h : checkedI32 x fromI32 = .ok v) : Good v (pyInt x) := by
  obtain ⟨rfl, hx⟩ := checkedI32_ok h
  exact good_int (isInt_fromI32 hx)

theorem good_u64 {x : Int} {v : Val} (h : checkedU64 x = .ok v) : Good v (pyInt x) := good_int (checkedU64_ok h)

theorem good_exact {x : Int} {v : Val} (h : i128op x fromExactInt = .ok v) : Good v (pyInt x) :=
  good_int (fromExactInt_ok (i128op_ok h))

theorem okB_eq {b : Bool} {v : Val} (h : okB b = .ok v) : v = .bool b := by
  unfold okB at h; cases h; rfl

theorem okF_eq {b : UInt64} {v : Val} (h : okF b = .ok v) : v = .float b := by
  unfold okF at h; cases h; rfl

section
variable (F : FloatOps) {a b v : Val}

theorem tryAdd_good (hia : a.intlike = true) (hib : b.intlike = true) (h : tryAdd F a b = .ok v) :
    Good v (pyBin .Add (toPy a) (toPy b)) := by
  cases a <;> cases b <;> simp only [Val.intlike] at hia hib <;> simp only [tryAdd] at h
  all_goals first
    | (cases h; done)
    | (cases hia; done)
    | (cases hib; done)
    | exact good_i32 h
    | exact good_u64 h
    | exact good_exact h

theorem trySub_good (hia : a.intlike = true) (hib : b.intlike = true) (h : trySub F a b = .ok v) :
    Good v (pyBin .Sub (toPy a) (toPy b)) := by
  cases a <;> cases b <;> simp only [Val.intlike] at hia hib <;> simp only [trySub] at h
  all_goals first
    | (cases h; done)
    | (cases hia; done)
    | (cases hib; done)
    | exact good_i32 h
    | exact good_exact h

theorem tryMul_good (hia : a.intlike = true) (hib : b.intlike = true) (h : tryMul F a b = .ok v) :
    Good v (pyBin .Mul (toPy a) (toPy b)) := by
  cases a <;> cases b <;> simp only [Val.intlike] at hia hib <;> simp only [tryMul] at h
  all_goals first
    | (cases h; done)
    | (cases hia; done)
    | (cases hib; done)
    | exact good_i32from h
    | exact good_u64 h
    | exact good_exact h

theorem good_floordiv {l r : Int} (h : intFloorDiv l r = .ok v) :
    Good v (if r = 0 then PyRes.raises else pyInt (Int.fdiv l r)) := by
  obtain ⟨hr, hi⟩ := intFloorDiv_ok h
  rw [if_neg hr]
  exact good_int hi

theorem good_mod {l r : Int} (h : intMod l r = .ok v) :
    Good v (if r = 0 then PyRes.raises else pyInt (Int.fmod l r)) := by
  obtain ⟨hr, hi⟩ := intMod_ok h
  rw [if_neg hr]
  exact good_int hi

theorem tryFloorDiv_good (hia : a.intlike = true) (hib : b.intlike = true) (h : tryFloorDiv F a b = .ok v) :
    Good v (pyBin .FloorDiv (toPy a) (toPy b)) := by
  unfold tryFloorDiv at h
  split at h
  · cases h
  · cases a <;> cases b <;> simp only [Val.intlike] at hia hib <;> simp only [tryFloorDivRows] at h
    all_goals first
      | (cases h; done)
      | (cases hia; done)
      | (cases hib; done)
      | exact good_floordiv h

theorem tryMod_good (hia : a.intlike = true) (hib : b.intlike = true) (h : tryMod F a b = .ok v) :
    Good v (pyBin .Mod (toPy a) (toPy b)) := by
  unfold tryMod at h
  split at h
  · cases h
  · cases a <;> cases b <;> simp only [Val.intlike] at hia hib <;> simp only [tryModRows] at h
    all_goals first
      | (cases h; done)
      | (cases hia; done)
      | (cases hib; done)
      | exact good_mod h

theorem good_float (bits : UInt64) {r : PyRes} (hr : r = .nonInt) : Good (.float bits) r := by
  subst hr
  simp [Good, Val.wf, agrees, Val.intlike]

theorem tryDiv_good (hia : a.intlike = true) (hib : b.intlike = true) (h : tryDiv F a b = .ok v) :
    Good v (pyBin .Div (toPy a) (toPy b)) := by
  unfold tryDiv at h
  split at h
  · cases h
  · rename_i hz
    cases a <;> cases b <;> simp only [Val.intlike] at hia hib <;> simp only [tryDivRows] at h
    all_goals first
      | (cases h; done)
      | (cases hia; done)
      | (cases hib; done)
      | (rw [okF_eq h]
         apply good_float
         simp only [isZeroDivisor, decide_eq_true_eq] at hz
         simp [pyBin, toPy, PyVal.toInt, hz])

theorem powI32_good {l e : Int} (h : powI32 l e = .ok v) :
    Good v (if e < 0 then (if l = 0 then PyRes.raises else PyRes.nonInt) else pyInt (l ^ e.toNat)) := by
  unfold powI32 at h
  split at h
  · rename_i he
    rw [if_neg (by omega)]
    split at h
    · rename_i p hp
      cases h
      obtain ⟨rfl, h1, h2⟩ := checkedPow_some (by decide) (by decide) hp
      exact good_int (isInt_int (inI32_iff.mpr ⟨h1, h2⟩))
    · cases h
  · cases h

theorem powU64_good {l : Nat} {e : Int} (h : powU64 l e = .ok v) :
    Good v (if e < 0 then (if (l : Int) = 0 then PyRes.raises else PyRes.nonInt) else pyInt ((l : Int) ^ e.toNat)) := by
  unfold powU64 at h
  split at h
  · rename_i he
    rw [if_neg (by omega)]
    split at h
    · rename_i p hp
      cases h
      obtain ⟨rfl, h1, h2⟩ := checkedPow_some (by decide) (by decide) hp
      exact good_int (isInt_nat h1 h2)
    · cases h
  · cases h

theorem tryPow_good (hia : a.intlike = true) (hib : b.intlike = true) (h : tryPow F a b = .ok v) :
    Good v (pyBin .Pow (toPy a) (toPy b)) := by
  cases a <;> cases b <;> simp only [Val.intlike] at hia hib <;> simp only [tryPow] at h
  all_goals first
    | (cases h; done)
    | (cases hia; done)
    | (cases hib; done)
    | exact powI32_good h
    | exact powU64_good h

theorem cmpRows_good {ci : Int → Int → Bool} {cf : UInt64 → UInt64 → Bool}
    (hia : a.intlike = true) (hib : b.intlike = true) (h : cmpRows F ci cf a b = .ok v) :
    ∃ x y, toPy a = .int x ∧ toPy b = .int y ∧ v = .bool (ci x y) := by
  cases a <;> cases b <;> simp only [Val.intlike] at hia hib <;> simp only [cmpRows] at h
  all_goals first
    | (cases h; done)
    | (cases hia; done)
    | (cases hib; done)
    | exact ⟨_, _, rfl, rfl, okB_eq h⟩

theorem tryGt_good (hia : a.intlike = true) (hib : b.intlike = true) (h : tryGt F a b = .ok v) :
    Good v (pyBin .Gt (toPy a) (toPy b)) := by
  obtain ⟨x, y, hx, hy, rfl⟩ := cmpRows_good F hia hib h
  rw [hx, hy]; exact good_bool _

theorem tryGe_good (hia : a.intlike = true) (hib : b.intlike = true) (h : tryGe F a b = .ok v) :
    Good v (pyBin .Ge (toPy a) (toPy b)) := by
  obtain ⟨x, y, hx, hy, rfl⟩ := cmpRows_good F hia hib h
  rw [hx, hy]; exact good_bool _

theorem tryLt_good (hia : a.intlike = true) (hib : b.intlike = true) (h : tryLt F a b = .ok v) :
    Good v (pyBin .Lt (toPy a) (toPy b)) := by
  obtain ⟨x, y, hx, hy, rfl⟩ := cmpRows_good F hia hib h
  rw [hx, hy]; exact good_bool _

theorem tryLe_good (hia : a.intlike = true) (hib : b.intlike = true) (h : tryLe F a b = .ok v) :
    Good v (pyBin .Le (toPy a) (toPy b)) := by
  obtain ⟨x, y, hx, hy, rfl⟩ := cmpRows_good F hia hib h
  rw [hx, hy]; exact good_bool _

theorem tryEq_good (hia : a.intlike = true) (hib : b.intlike = true) (h : tryEq F a b = .ok v) :
    Good v (pyBin .Eq (toPy a) (toPy b)) := by
  unfold tryEq at h
  split at h
  · rename_i l r
    rw [okB_eq h]
    have : (l == r) = decide ((toPy (.bool l)).toInt = (toPy (.bool r)).toInt) := by
      cases l <;> cases r <;> simp [toPy, PyVal.toInt]
    rw [this]; exact good_bool _
  · obtain ⟨x, y, hx, hy, rfl⟩ := cmpRows_good F hia hib h
    rw [hx, hy]; exact good_bool _

theorem tryNe_good (hia : a.intlike = true) (hib : b.intlike = true) (h : tryNe F a b = .ok v) :
    Good v (pyBin .Ne (toPy a) (toPy b)) := by
  unfold tryNe at h
  split at h
  · rename_i l r
    rw [okB_eq h]
    have : (l != r) = decide ((toPy (.bool l)).toInt ≠ (toPy (.bool r)).toInt) := by
      cases l <;> cases r <;> simp [toPy, PyVal.toInt]
    rw [this]; exact good_bool _
  · obtain ⟨x, y, hx, hy, rfl⟩ := cmpRows_good F hia hib h
    rw [hx, hy]; exact good_bool _

end

theorem asI32_in (n : Nat) : inI32 (asI32 n) = true := by
  rw [inI32_iff]
  unfold asI32
  simp only
  split <;> omega

theorem evalOr_good {a b v : Val} (h : evalOr a b = .ok v) :
    Good v (pyBin .Or (toPy a) (toPy b)) ∧ Good v (pyBin .BitOr (toPy a) (toPy b)) := by
  cases a <;> cases b <;> simp only [evalOr] at h
  all_goals first
    | (cases h; done)
    | (rw [okB_eq h]; exact ⟨good_bool _, good_bool _⟩)
    | (cases h
       simp [Good, Val.wf, asI32_in, pyBin, toPy, agrees])

theorem evalAnd_good {a b v : Val} (h : evalAnd a b = .ok v) :
    Good v (pyBin .And (toPy a) (toPy b)) ∧ Good v (pyBin .BitAnd (toPy a) (toPy b)) := by
  cases a <;> cases b <;> simp only [evalAnd] at h
  all_goals first
    | (cases h; done)
    | (rw [okB_eq h]; exact ⟨good_bool _, good_bool _⟩)
    | (cases h
       simp [Good, Val.wf, asI32_in, pyBin, toPy, agrees])

theorem evalXor_good {a b v : Val} (h : evalXor a b = .ok v) : Good v (pyBin .BitXor (toPy a) (toPy b)) := by
  cases a <;> cases b <;> simp only [evalXor] at h
  all_goals first
    | (cases h; done)
    | (rw [okB_eq h]; exact good_bool _)
    | (cases h
       simp [Good, Val.wf, asI32_in, pyBin, toPy, agrees])

/-! ### totality: no `try_*` function panics on well-formed operands (floats included) -/

theorem checkedI32_nocrash (x : Int) (mk : Int → Val) (w : String) : checkedI32 x mk ≠ .crash w := by
  unfold checkedI32; split <;> simp

theorem checkedU64_nocrash (x : Int) (w : String) : checkedU64 x ≠ .crash w := by
  unfold checkedU64; split <;> simp

theorem okF_nocrash (b : UInt64) (w : String) : okF b ≠ .crash w := by simp [okF]
theorem okB_nocrash (b : Bool) (w : String) : okB b ≠ .crash w := by simp [okB]
theorem none_nocrash (w : String) : Out.none ≠ .crash w := by simp

theorem exact_nocrash {x : Int} (hx : small x ∨ small (x / 2) ∨ small (x / 4)) (w : String) :
    i128op x fromExactInt ≠ .crash w := by
  apply i128op_nocrash _ (fromExactInt_nocrash _)
  rw [inI128_iff]
  unfold small at hx
  omega

theorem mul_in_i128 {l r : Int} (hl : inI32 l = true) (hr : small r) : inI128 (l * r) = true := by
  rw [inI128_iff]
  rw [inI32_iff] at hl
  unfold small at hr
  have h1 : (l * r).natAbs = l.natAbs * r.natAbs := Int.natAbs_mul l r
  have h2 : l.natAbs * r.natAbs ≤ 2147483648 * 18446744073709551616 :=
    Nat.mul_le_mul (by omega) (by omega)
  omega

theorem mul_nocrash {l r : Int} (hl : inI32 l = true) (hr : small r) (w : String) :
    i128op (l * r) fromExactInt ≠ .crash w :=
  i128op_nocrash (mul_in_i128 hl hr) (fromExactInt_nocrash _) w

theorem powI32_nocrash (l e : Int) (w : String) : powI32 l e ≠ .crash w := by
  unfold powI32; split
  · split <;> simp
  · simp

theorem powU64_nocrash (l : Nat) (e : Int) (w : String) : powU64 l e ≠ .crash w := by
  unfold powU64; split
  · split <;> simp
  · simp

section
variable (F : FloatOps) {a b : Val}

theorem tryAdd_nocrash (ha : a.wf = true) (hb : b.wf = true) (w : String) : tryAdd F a b ≠ .crash w := by
  cases a <;> cases b <;> simp only [tryAdd]
  all_goals first
    | exact checkedI32_nocrash _ _ w
    | exact checkedU64_nocrash _ w
    | exact okF_nocrash _ w
    | exact none_nocrash w
    | (have h1 := small_of_int ha; have h2 := small_of_nat hb
       apply exact_nocrash; unfold small at *; omega)
    | (have h1 := small_of_nat ha; have h2 := small_of_int hb
       apply exact_nocrash; unfold small at *; omega)

theorem trySub_nocrash (ha : a.wf = true) (hb : b.wf = true) (w : String) : trySub F a b ≠ .crash w := by
  cases a <;> cases b <;> simp only [trySub]
  all_goals first
    | exact checkedI32_nocrash _ _ w
    | exact okF_nocrash _ w
    | exact none_nocrash w
    | (have h1 := small_of_int ha; have h2 := small_of_nat hb
       apply exact_nocrash; unfold small at *; omega)
    | (have h1 := small_of_nat ha; have h2 := small_of_int hb
       apply exact_nocrash; unfold small at *; omega)
    | (have h1 := small_of_nat ha; have h2 := small_of_nat hb
       apply exact_nocrash; unfold small at *; omega)

theorem tryMul_nocrash (ha : a.wf = true) (hb : b.wf = true) (w : String) : tryMul F a b ≠ .crash w := by
  cases a <;> cases b <;> simp only [tryMul]
  all_goals first
    | exact checkedI32_nocrash _ _ w
    | exact checkedU64_nocrash _ w
    | exact okF_nocrash _ w
    | exact none_nocrash w
    | exact mul_nocrash ha (small_of_nat hb) w
    | (rw [Int.mul_comm]; exact mul_nocrash hb (small_of_nat ha) w)

theorem tryDiv_nocrash (w : String) : tryDiv F a b ≠ .crash w := by
  unfold tryDiv; split
  · exact none_nocrash w
  · cases a <;> cases b <;> simp only [tryDivRows]
    all_goals first
      | exact okF_nocrash _ w
      | exact none_nocrash w

theorem tryFloorDiv_nocrash (ha : a.wf = true) (hb : b.wf = true) (w : String) : tryFloorDiv F a b ≠ .crash w := by
  unfold tryFloorDiv; split
  · exact none_nocrash w
  · cases a <;> cases b <;> simp only [tryFloorDivRows]
    all_goals first
      | exact okF_nocrash _ w
      | exact none_nocrash w
      | exact intFloorDiv_nocrash (small_of_int ha) w
      | exact intFloorDiv_nocrash (small_of_nat ha) w

theorem tryMod_nocrash (ha : a.wf = true) (hb : b.wf = true) (w : String) : tryMod F a b ≠ .crash w := by
  unfold tryMod; split
  · exact none_nocrash w
  · cases a <;> cases b <;> simp only [tryModRows]
    all_goals first
      | exact okF_nocrash _ w
      | exact none_nocrash w
      | exact intMod_nocrash (small_of_int ha) (small_of_int hb) w
      | exact intMod_nocrash (small_of_int ha) (small_of_nat hb) w
      | exact intMod_nocrash (small_of_nat ha) (small_of_int hb) w
      | exact intMod_nocrash (small_of_nat ha) (small_of_nat hb) w

theorem tryPow_nocrash (w : String) : tryPow F a b ≠ .crash w := by
  cases a <;> cases b <;> simp only [tryPow]
  all_goals first
    | exact okF_nocrash _ w
    | exact none_nocrash w
    | exact powI32_nocrash _ _ w
    | exact powU64_nocrash _ _ w

theorem cmpRows_nocrash (ci : Int → Int → Bool) (cf : UInt64 → UInt64 → Bool) (w : String) :
    cmpRows F ci cf a b ≠ .crash w := by
  cases a <;> cases b <;> simp only [cmpRows]
  all_goals first
    | exact okB_nocrash _ w
    | exact none_nocrash w

theorem tryEq_nocrash (w : String) : tryEq F a b ≠ .crash w := by
  unfold tryEq; split
  · exact okB_nocrash _ w
  · exact cmpRows_nocrash F _ _ w

theorem tryNe_nocrash (w : String) : tryNe F a b ≠ .crash w := by
  unfold tryNe; split
  · exact okB_nocrash _ w
  · exact cmpRows_nocrash F _ _ w

end

theorem evalOr_nocrash (a b : Val) (w : String) : evalOr a b ≠ .crash w := by
  cases a <;> cases b <;> simp [evalOr, okB]

theorem evalAnd_nocrash (a b : Val) (w : String) : evalAnd a b ≠ .crash w := by
  cases a <;> cases b <;> simp [evalAnd, okB]

theorem evalXor_nocrash (a b : Val) (w : String) : evalXor a b ≠ .crash w := by
  cases a <;> cases b <;> simp [evalXor, okB]

end ErgVerif.C04
