/-
C04 — compile-time evaluation. Transcription of

  crates/erg_compiler/ty/value.rs      ValueObj::{from_exact_int, int_floordiv, int_mod, try_add, try_sub, try_mul, try_div,
                                       try_floordiv, try_pow, try_mod, try_gt, try_ge, try_lt, try_le, try_eq, try_ne},
                                       `impl From<i32> for ValueObj`
  crates/erg_compiler/context/eval.rs  Context::{eval_bin, eval_or, eval_and, eval_unary_val}, convert_value_into_type
                                       (only its `Err` arm for Int/Nat/Bool/Float), eval_const_bin / eval_const_unary glue
                                       (`evalExpr`)

as they are AFTER the repairs `fix: …` recorded in known_findings.json (C04-add-uses-sub, C04-floor-semantics,
C04-overflow-panics, C04-mixed-truncation, C04-zero-divisor-folds).  The behaviour before the repairs is kept as `legacy…` definitions at the end of
the file (witness theorems in Props.lean).

Machine arithmetic is modelled as such: `i32` / `u64` / `i128` values are `Int`/`Nat` with explicit range checks; an
arithmetic expression that the debug profile (overflow-checks on: the profile of the test-suite and of the harness) would
panic on is `Out.crash`; `checked_*` return `none`; `x as i32` truncates.  Floats are 64-bit patterns; their operations are a
parameter `FloatOps` (the driver instantiates it with `Float.ofBits`-based primitives; theorems quantify over all `FloatOps`,
i.e. there are no float theorems).

Values outside {Int, Nat, Bool, Float} (Str, containers, types, Inf/NegInf) are outside the model.
-/
namespace ErgVerif.C04

inductive Val where
  | int (i : Int)        -- ValueObj::Int(i32)
  | nat (n : Nat)        -- ValueObj::Nat(u64)
  | bool (b : Bool)
  | float (bits : UInt64)
  deriving DecidableEq, Repr

inductive Out where
  | ok (v : Val)
  | okOther               -- a value outside the model (Range object)
  | none                  -- `None` / `Err(..)`: left to run time or reported as a diagnostic
  | crash (why : String)  -- a panic of the compiler
  | oom                   -- out of the model: an operand outside {Int, Nat, Bool, Float}
  deriving DecidableEq, Repr

inductive Op where
  | Add | Sub | Mul | Div | FloorDiv | Pow | Mod | Pos | Neg | Invert | Gt | Lt | Ge | Le | Eq | Ne | As | And | Or | Not
  | BitAnd | BitOr | BitXor | Shl | Shr | ClosedRange | LeftOpenRange | RightOpenRange | OpenRange
  deriving DecidableEq, Repr

def i32min : Int := -2147483648
def i32max : Int := 2147483647
def u32max : Nat := 4294967295
def u64max : Nat := 18446744073709551615
def i128min : Int := -170141183460469231731687303715884105728
def i128max : Int := 170141183460469231731687303715884105727

def inI32 (i : Int) : Bool := decide (i32min ≤ i ∧ i ≤ i32max)
def inI128 (i : Int) : Bool := decide (i128min ≤ i ∧ i ≤ i128max)

/-- representation invariant of `ValueObj` -/
def Val.wf : Val → Bool
  | .int i => inI32 i
  | .nat n => decide (n ≤ u64max)
  | .bool _ => true
  | .float _ => true

def Val.intlike : Val → Bool
  | .float _ => false
  | _ => true

/-- float primitives, supplied by the driver (kernel-opaque; no theorem depends on them) -/
structure FloatOps where
  add : UInt64 → UInt64 → UInt64
  sub : UInt64 → UInt64 → UInt64
  mul : UInt64 → UInt64 → UInt64
  div : UInt64 → UInt64 → UInt64
  rem : UInt64 → UInt64 → UInt64      -- Rust `%` on f64 (C fmod)
  powf : UInt64 → UInt64 → UInt64
  powi : UInt64 → Int → UInt64        -- f64::powi(i32)
  floor : UInt64 → UInt64
  neg : UInt64 → UInt64
  ofInt : Int → UInt64                -- `i32 as f64`
  ofNat : Nat → UInt64                -- `u64 as f64`
  lt : UInt64 → UInt64 → Bool
  le : UInt64 → UInt64 → Bool
  eq : UInt64 → UInt64 → Bool

/-- `impl From<i32> for ValueObj` -/
def fromI32 (i : Int) : Val := if 0 ≤ i then .nat i.toNat else .int i

/-- an `i128` expression in the debug profile: overflow panics -/
def i128op (x : Int) (k : Int → Out) : Out :=
  if inI128 x then k x else .crash "attempt to compute an i128 with overflow"

/-- `ValueObj::from_exact_int` -/
def fromExactInt (i : Int) : Out :=
  if 0 ≤ i then (if i ≤ (u64max : Int) then .ok (.nat i.toNat) else .none)
  else (if i32min ≤ i then .ok (.int i) else .none)

/-- `ValueObj::int_floordiv` on i128 operands -/
def intFloorDiv (l r : Int) : Out :=
  -- l.checked_div(r)?
  if r = 0 ∨ (l = i128min ∧ r = -1) then .none
  else
    let q := Int.tdiv l r
    if Int.tmod l r ≠ 0 ∧ (decide (l < 0) ≠ decide (r < 0)) then i128op (q - 1) fromExactInt
    else fromExactInt q

/-- `ValueObj::int_mod` on i128 operands -/
def intMod (l r : Int) : Out :=
  -- l.checked_rem(r)?
  if r = 0 ∨ (l = i128min ∧ r = -1) then .none
  else
    let m := Int.tmod l r
    if m ≠ 0 ∧ (decide (m < 0) ≠ decide (r < 0)) then i128op (m + r) fromExactInt
    else fromExactInt m

def checkedI32 (x : Int) (mk : Int → Val) : Out := if inI32 x then .ok (mk x) else .none
def checkedU64 (x : Int) : Out := if 0 ≤ x ∧ x ≤ (u64max : Int) then .ok (.nat x.toNat) else .none

/-- `checked_pow` of a bounded integer type with range [lo, hi] (documented semantics of the Rust standard library:
    `Some(b^e)` iff it fits), written so that it never computes an astronomically large power -/
def checkedPow (lo hi : Int) (b : Int) (e : Nat) : Option Int :=
  if b = 0 then some (if e = 0 then 1 else 0)
  else if b = 1 then some 1
  else if b = -1 then (if e % 2 = 0 then some 1 else (if lo ≤ -1 then some (-1) else none))
  else if 128 ≤ e then none
  else
    let p := b ^ e
    if lo ≤ p ∧ p ≤ hi then some p else none

/-- `r.try_into().ok()?` to u32, then `l.checked_pow(..)` on i32 -/
def powI32 (l : Int) (e : Int) : Out :=
  if 0 ≤ e ∧ e ≤ (u32max : Int) then
    match checkedPow i32min i32max l e.toNat with
    | some p => .ok (.int p)
    | none => .none
  else .none

def powU64 (l : Nat) (e : Int) : Out :=
  if 0 ≤ e ∧ e ≤ (u32max : Int) then
    match checkedPow 0 u64max l e.toNat with
    | some p => .ok (.nat p.toNat)
    | none => .none
  else .none

def okF (b : UInt64) : Out := .ok (.float b)
def okB (b : Bool) : Out := .ok (.bool b)

def tryAdd (F : FloatOps) : Val → Val → Out
  | .int l, .int r => checkedI32 (l + r) .int
  | .nat l, .nat r => checkedU64 ((l : Int) + r)
  | .float l, .float r => okF (F.add l r)
  | .int l, .nat r => i128op (l + r) fromExactInt
  | .nat l, .int r => i128op (l + r) fromExactInt
  | .float l, .nat r => okF (F.add l (F.ofNat r))
  | .int l, .float r => okF (F.add (F.ofInt l) r)
  | .nat l, .float r => okF (F.add (F.ofNat l) r)
  | .float l, .int r => okF (F.add l (F.ofInt r))
  | _, _ => .none

def trySub (F : FloatOps) : Val → Val → Out
  | .int l, .int r => checkedI32 (l - r) .int
  | .nat l, .nat r => i128op ((l : Int) - r) fromExactInt
  | .float l, .float r => okF (F.sub l r)
  | .int l, .nat r => i128op (l - r) fromExactInt
  | .nat l, .int r => i128op (l - r) fromExactInt
  | .float l, .nat r => okF (F.sub l (F.ofNat r))
  | .nat l, .float r => okF (F.sub (F.ofNat l) r)
  | .float l, .int r => okF (F.sub l (F.ofInt r))
  | .int l, .float r => okF (F.sub (F.ofInt l) r)
  | _, _ => .none

def tryMul (F : FloatOps) : Val → Val → Out
  | .int l, .int r => checkedI32 (l * r) fromI32
  | .nat l, .nat r => checkedU64 ((l : Int) * r)
  | .float l, .float r => okF (F.mul l r)
  | .int l, .nat r => i128op (l * r) fromExactInt
  | .nat l, .int r => i128op (l * r) fromExactInt
  | .float l, .nat r => okF (F.mul l (F.ofNat r))
  | .nat l, .float r => okF (F.mul (F.ofNat l) r)
  | .float l, .int r => okF (F.mul l (F.ofInt r))
  | .int l, .float r => okF (F.mul (F.ofInt l) r)
  | _, _ => .none

/-- `ValueObj::is_zero_divisor` (`**f == 0.0` holds for both zeros: all bits but the sign are 0) -/
def isZeroDivisor : Val → Bool
  | .int i => decide (i = 0)
  | .nat n => decide (n = 0)
  | .float b => decide (b.toNat % 9223372036854775808 = 0)
  | .bool _ => false

def tryDivRows (F : FloatOps) : Val → Val → Out
  | .int l, .int r => okF (F.div (F.ofInt l) (F.ofInt r))
  | .nat l, .nat r => okF (F.div (F.ofNat l) (F.ofNat r))
  | .float l, .float r => okF (F.div l r)
  | .int l, .nat r => okF (F.div (F.ofInt l) (F.ofNat r))
  | .nat l, .int r => okF (F.div (F.ofNat l) (F.ofInt r))
  | .float l, .nat r => okF (F.div l (F.ofNat r))
  | .nat l, .float r => okF (F.div (F.ofNat l) r)
  | .float l, .int r => okF (F.div l (F.ofInt r))
  | .int l, .float r => okF (F.div (F.ofInt l) r)
  | _, _ => .none

def tryDiv (F : FloatOps) (a b : Val) : Out := if isZeroDivisor b then .none else tryDivRows F a b

def tryFloorDivRows (F : FloatOps) : Val → Val → Out
  | .int l, .int r => intFloorDiv l r
  | .nat l, .nat r => intFloorDiv l r
  | .float l, .float r => okF (F.floor (F.div l r))
  | .int l, .nat r => intFloorDiv l r
  | .nat l, .int r => intFloorDiv l r
  | .float l, .nat r => okF (F.floor (F.div l (F.ofNat r)))
  | .nat l, .float r => okF (F.floor (F.div (F.ofNat l) r))
  | .float l, .int r => okF (F.floor (F.div l (F.ofInt r)))
  | .int l, .float r => okF (F.floor (F.div (F.ofInt l) r))
  | _, _ => .none

def tryFloorDiv (F : FloatOps) (a b : Val) : Out := if isZeroDivisor b then .none else tryFloorDivRows F a b

def tryPow (F : FloatOps) : Val → Val → Out
  | .int l, .int r => powI32 l r
  | .nat l, .nat r => powU64 l r
  | .float l, .float r => okF (F.powf l r)
  | .int l, .nat r => powI32 l r
  | .nat l, .int r => powU64 l r
  | .float l, .nat r => okF (F.powf l (F.ofNat r))
  | .nat l, .float r => okF (F.powf (F.ofNat l) r)
  | .float l, .int r => okF (F.powi l r)
  | .int l, .float r => okF (F.powf (F.ofInt l) r)
  | _, _ => .none

def tryModRows (F : FloatOps) : Val → Val → Out
  | .int l, .int r => intMod l r
  | .nat l, .nat r => intMod l r
  | .float l, .float r => okF (F.rem l r)
  | .int l, .nat r => intMod l r
  | .nat l, .int r => intMod l r
  | .float l, .nat r => okF (F.rem l (F.ofNat r))
  | .nat l, .float r => okF (F.rem (F.ofNat l) r)
  | .float l, .int r => okF (F.rem l (F.ofInt r))
  | .int l, .float r => okF (F.rem (F.ofInt l) r)
  | _, _ => .none

def tryMod (F : FloatOps) (a b : Val) : Out := if isZeroDivisor b then .none else tryModRows F a b

/-- the nine numeric rows shared by the comparison functions: integer comparison `ci` (exact, through i128 for the
    mixed rows), float comparison `cf` -/
def cmpRows (F : FloatOps) (ci : Int → Int → Bool) (cf : UInt64 → UInt64 → Bool) : Val → Val → Out
  | .int l, .int r => okB (ci l r)
  | .nat l, .nat r => okB (ci l r)
  | .float l, .float r => okB (cf l r)
  | .int l, .nat r => okB (ci l r)
  | .nat l, .int r => okB (ci l r)
  | .float l, .nat r => okB (cf l (F.ofNat r))
  | .nat l, .float r => okB (cf (F.ofNat l) r)
  | .float l, .int r => okB (cf l (F.ofInt r))
  | .int l, .float r => okB (cf (F.ofInt l) r)
  | _, _ => .none

def tryGt (F : FloatOps) := cmpRows F (fun l r => decide (l > r)) (fun l r => F.lt r l)
def tryGe (F : FloatOps) := cmpRows F (fun l r => decide (l ≥ r)) (fun l r => F.le r l)
def tryLt (F : FloatOps) := cmpRows F (fun l r => decide (l < r)) (fun l r => F.lt l r)
def tryLe (F : FloatOps) := cmpRows F (fun l r => decide (l ≤ r)) (fun l r => F.le l r)

def tryEq (F : FloatOps) : Val → Val → Out
  | .bool l, .bool r => okB (l == r)
  | a, b => cmpRows F (fun l r => decide (l = r)) (fun l r => F.eq l r) a b

def tryNe (F : FloatOps) : Val → Val → Out
  | .bool l, .bool r => okB (l != r)
  | a, b => cmpRows F (fun l r => decide (l ≠ r)) (fun l r => !F.eq l r) a b

/-- `x as i32` for a u64 / the two's-complement reading of 32 bits -/
def asI32 (n : Nat) : Int :=
  let m := n % 4294967296
  if m < 2147483648 then (m : Int) else (m : Int) - 4294967296

/-- bits of an i32 as a natural number below 2^32 -/
def bits32 (i : Int) : Nat := (i % 4294967296).toNat

/-- `eval_or`: Bool `||`, i32 `|`; anything else goes through `convert_value_into_type`, which is `Err` for these values -/
def evalOr : Val → Val → Out
  | .bool l, .bool r => okB (l || r)
  | .int l, .int r => .ok (.int (asI32 (bits32 l ||| bits32 r)))
  | _, _ => .none

def evalAnd : Val → Val → Out
  | .bool l, .bool r => okB (l && r)
  | .int l, .int r => .ok (.int (asI32 (bits32 l &&& bits32 r)))
  | _, _ => .none

def evalXor : Val → Val → Out
  | .bool l, .bool r => okB (l != r)
  | .int l, .int r => .ok (.int (asI32 (bits32 l ^^^ bits32 r)))
  | _, _ => .none

/-- `Context::eval_bin` -/
def evalBin (F : FloatOps) : Op → Val → Val → Out
  | .Add, a, b => tryAdd F a b
  | .Sub, a, b => trySub F a b
  | .Mul, a, b => tryMul F a b
  | .Div, a, b => tryDiv F a b
  | .FloorDiv, a, b => tryFloorDiv F a b
  | .Pow, a, b => tryPow F a b
  | .Mod, a, b => tryMod F a b
  | .Gt, a, b => tryGt F a b
  | .Ge, a, b => tryGe F a b
  | .Lt, a, b => tryLt F a b
  | .Le, a, b => tryLe F a b
  | .Eq, a, b => tryEq F a b
  | .Ne, a, b => tryNe F a b
  | .Or, a, b => evalOr a b
  | .BitOr, a, b => evalOr a b
  | .And, a, b => evalAnd a b
  | .BitAnd, a, b => evalAnd a b
  | .BitXor, a, b => evalXor a b
  | .ClosedRange, _, _ => .okOther
  | _, _, _ => .none

/-- `Context::eval_unary_val` -/
def evalUnary (F : FloatOps) : Op → Val → Out
  | .Pos, .nat n => .ok (.nat n)
  | .Pos, .int i => .ok (.int i)
  | .Pos, .float f => .ok (.float f)
  | .Neg, .nat n => checkedI32 (-(n : Int)) .int          -- i32::try_from(-i128::from(n))
  | .Neg, .int i => checkedI32 (-i) .int                  -- i.checked_neg()
  | .Neg, .float f => okF (F.neg f)
  | .Invert, .bool b => okB (!b)
  | .Not, .bool b => okB (!b)
  | _, _ => .none

/-- constant expressions over literal leaves -/
inductive Expr where
  | lit (v : Val)
  | bin (op : Op) (l r : Expr)
  | un (op : Op) (e : Expr)
  deriving Repr

/-- `eval_const_bin` / `eval_const_unary`: operands first (left, then right, `?` on each); an operand that is not evaluated
    makes the whole expression unevaluated; an operand outside the model puts the expression outside the model -/
def evalExpr (F : FloatOps) : Expr → Out
  | .lit v => .ok v
  | .bin op l r =>
    match evalExpr F l with
    | .ok a =>
      match evalExpr F r with
      | .ok b => evalBin F op a b
      | .okOther => .oom
      | o => o
    | .okOther => .oom
    | o => o
  | .un op e =>
    match evalExpr F e with
    | .ok a => evalUnary F op a
    | .okOther => .oom
    | o => o

/-! ## Behaviour before the repairs (kept for the witness theorems) -/

/-- an i32 expression in the debug profile: overflow panics -/
def mkI32 (i : Int) (mk : Int → Val) : Out :=
  if inI32 i then .ok (mk i) else .crash "attempt to compute an i32 with overflow"
def mkU64 (n : Int) : Out :=
  if 0 ≤ n ∧ n ≤ (u64max : Int) then .ok (.nat n.toNat) else .crash "attempt to compute a u64 with overflow"

def legacyTryAdd (F : FloatOps) : Val → Val → Out
  | .int l, .int r => mkI32 (l + r) .int
  | .nat l, .nat r => mkU64 ((l : Int) + r)
  | .float l, .float r => okF (F.add l r)
  | .int l, .nat r => mkI32 (l + asI32 r) fromI32
  | .nat l, .int r => mkI32 (asI32 l + r) .int
  | .float l, .nat r => okF (F.sub l (F.ofNat r))        -- `-` in a `+` row
  | .int l, .float r => okF (F.sub (F.ofInt l) r)
  | .nat l, .float r => okF (F.sub (F.ofNat l) r)
  | .float l, .int r => okF (F.sub l (F.ofInt r))
  | _, _ => .none

def legacyTrySub : Val → Val → Out
  | .int l, .int r => mkI32 (l - r) .int
  | .nat l, .nat r => mkI32 (asI32 l - asI32 r) .int
  | .int l, .nat r => mkI32 (l - asI32 r) fromI32
  | .nat l, .int r => mkI32 (asI32 l - r) fromI32
  | _, _ => .none

/-- Rust `/` on i32: truncates toward zero, panics on a zero divisor and on `MIN / -1` -/
def legacyDivI32 (l r : Int) : Out :=
  if r = 0 then .crash "attempt to divide by zero"
  else mkI32 (Int.tdiv l r) .int

def legacyRemI32 (l r : Int) : Out :=
  if r = 0 then .crash "attempt to calculate the remainder with a divisor of zero"
  else if l = i32min ∧ r = -1 then .crash "attempt to calculate the remainder with overflow"
  else .ok (.int (Int.tmod l r))

def legacyTryFloorDiv : Val → Val → Out
  | .int l, .int r => legacyDivI32 l r
  | .nat l, .nat r => if r = 0 then .crash "attempt to divide by zero" else .ok (.nat (l / r))
  | .int l, .nat r => legacyDivI32 l (asI32 r)
  | .nat l, .int r => legacyDivI32 (asI32 l) r
  | _, _ => .none

def legacyTryMod : Val → Val → Out
  | .int l, .int r => legacyRemI32 l r
  | .nat l, .nat r => if r = 0 then .crash "attempt to calculate the remainder with a divisor of zero" else .ok (.nat (l % r))
  | .int l, .nat r => legacyRemI32 l (asI32 r)
  | .nat l, .int r => legacyRemI32 (asI32 l) r
  | _, _ => .none

def legacyTryGt : Val → Val → Out
  | .int l, .int r => okB (decide (l > r))
  | .nat l, .nat r => okB (decide (l > r))
  | .int l, .nat r => okB (decide (l > asI32 r))
  | .nat l, .int r => okB (decide (asI32 l > r))
  | _, _ => .none

end ErgVerif.C04
