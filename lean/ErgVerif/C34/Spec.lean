import ErgVerif.C34.Model
/-!
C34 — specification side: what it MEANS for a value to belong to a type of the grammar (`Denote`, written with quantifiers
and without reference to the checker `mem`), what a refinement predicate means (`Pred.Holds`), and the side conditions under
which a list-building expression is well-typed by the declared signatures (`HasTypeSpec`).
-/
namespace ErgVerif.C34

def CmpHolds (op : CmpOp) (v w : Value) : Prop :=
  match op with
  | .eq => v = w
  | .ne => v ≠ w
  | .le => ∃ i k, v.asInt? = some i ∧ w.asInt? = some k ∧ i ≤ k
  | .ge => ∃ i k, v.asInt? = some i ∧ w.asInt? = some k ∧ k ≤ i
  | .lt => ∃ i k, v.asInt? = some i ∧ w.asInt? = some k ∧ i < k
  | .gt => ∃ i k, v.asInt? = some i ∧ w.asInt? = some k ∧ k < i

def Pred.Holds : Pred → Value → Prop
  | .cmp op a, v => CmpHolds op v a.val
  | .and a b, v => a.Holds v ∧ b.Holds v
  | .or a b, v => a.Holds v ∨ b.Holds v
  | .paren p, v => p.Holds v

/- ⟦T⟧ρ : the set of run-time values of a type. `Bool <: Nat <: Int <: Float` as in Erg (a `Nat` binding may hold `True`,
   a `Float` binding an integer); a guard type `{x in T}` is a Bool that, when true, promises that binding `x` holds a `T`. -/
mutual
  def Denote (ρ : Env) : Ty → Value → Prop
    | .nat, v => (∃ n : Nat, v = .int n) ∨ ∃ b, v = .bool b
    | .int, v => (∃ i : Int, v = .int i) ∨ ∃ b, v = .bool b
    | .float, v => (∃ d, v = .float d) ∨ (∃ i : Int, v = .int i) ∨ ∃ b, v = .bool b
    | .str, v => ∃ s, v = .str s
    | .bool, v => ∃ b, v = .bool b
    | .obj, _ => True
    | .never, _ => False
    | .noneT, v => v = .none
    | .enum vs, v => v ∈ vs.toList
    | .refine _ b p, v => Denote ρ b v ∧ p.Holds v
    | .guard x t, v => ∃ b, v = .bool b ∧ (b = true → ∃ w, ρ.get x = some w ∧ Denote ρ t w)
    | .guardLit w t, v => ∃ b, v = .bool b ∧ (b = true → Denote ρ t w)
    | .interval lo hi ho, v => ∃ i : Int, v = .int i ∧ lo ≤ i ∧ (if ho then i < hi else i ≤ hi)
    | .list t n, v => ∃ vs, v = .list vs ∧ vs.toList.length = n ∧ ∀ x ∈ vs.toList, Denote ρ t x
    | .listAny t, v => ∃ vs, v = .list vs ∧ ∀ x ∈ vs.toList, Denote ρ t x
    | .tuple ts, v => ∃ vs, v = .tuple vs ∧ DenoteZip ρ ts vs.toList
    | .or a b, v => Denote ρ a v ∨ Denote ρ b v
    | .and a b, v => Denote ρ a v ∧ Denote ρ b v
    | .paren t, v => Denote ρ t v
  def DenoteZip (ρ : Env) : TyList → List Value → Prop
    | .nil, vs => vs = []
    | .cons t ts, vs => ∃ w ws, vs = w :: ws ∧ Denote ρ t w ∧ DenoteZip ρ ts ws
end

/-- side conditions of the declared signatures: every element of a literal belongs to the type given to it, a pushed
    element to its type, and a mapped function sends the element type into its declared result type -/
def LExpr.ok (ρ : Env) : LExpr → Prop
  | .lit es => ∀ p ∈ es, Denote ρ p.1 p.2
  | .push l t v => l.ok ρ ∧ Denote ρ t v
  | .concat a b => a.ok ρ ∧ b.ok ρ
  | .add a b => a.ok ρ ∧ b.ok ρ
  | .rep l _ => l.ok ρ
  | .rev l => l.ok ρ
  | .map f u l => l.ok ρ ∧ ∀ v, Denote ρ l.elemTy v → Denote ρ u (f v)

/-- `e : List(T, N)` by the declared signatures (`Spec.declared`) -/
def HasTypeSpec (ρ : Env) (e : LExpr) (T : Ty) (N : Int) : Prop :=
  e.ok ρ ∧ e.elemTy = T ∧ e.shape.len Spec.declared = some N

/-- the index type `__getitem__` declares for a receiver of length `N`: `{I: Nat | I <= N - 1}` -/
def indexTy (tbl : SigTable) (N : Int) : Option Ty :=
  match tbl.get .getitemMax with
  | some e => some (.refine "I" .nat (.cmp .le (.lit (.int (e.eval N 0)))))
  | none => none

end ErgVerif.C34
