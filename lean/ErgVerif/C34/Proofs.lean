import ErgVerif.C34.Spec
/-! C34 — helper lemmas: the validator agrees with the denotation; list-building expressions have their declared lengths. -/
namespace ErgVerif.C34

theorem cmpSat_iff (op : CmpOp) (v w : Value) : cmpSat op v w = true ↔ CmpHolds op v w := by
  cases op <;> simp only [cmpSat, CmpHolds]
  · simp
  · simp
  all_goals
    cases hv : v.asInt? <;> cases hw : w.asInt? <;> simp

theorem Pred.sat_iff : ∀ (p : Pred) (v : Value), p.sat v = true ↔ p.Holds v
  | .cmp op a, v => by simp [Pred.sat, Pred.Holds, cmpSat_iff]
  | .and a b, v => by simp [Pred.sat, Pred.Holds, Pred.sat_iff a v, Pred.sat_iff b v]
  | .or a b, v => by simp [Pred.sat, Pred.Holds, Pred.sat_iff a v, Pred.sat_iff b v]
  | .paren p, v => by simp [Pred.sat, Pred.Holds, Pred.sat_iff p v]

theorem nonneg_iff_nat (i : Int) : 0 ≤ i ↔ ∃ n : Nat, i = n := by
  constructor
  · intro h
    exact ⟨i.toNat, by omega⟩
  · rintro ⟨n, rfl⟩
    omega

mutual
  theorem mem_iff (ρ : Env) : ∀ (t : Ty) (v : Value), mem ρ t v = true ↔ Denote ρ t v
    | .nat, v => by
      cases v <;> simp [mem, Denote]
      exact nonneg_iff_nat _
    | .int, v => by cases v <;> simp [mem, Denote]
    | .float, v => by cases v <;> simp [mem, Denote]
    | .str, v => by cases v <;> simp [mem, Denote]
    | .bool, v => by cases v <;> simp [mem, Denote]
    | .obj, v => by simp [mem, Denote]
    | .never, v => by simp [mem, Denote]
    | .noneT, v => by simp [mem, Denote]
    | .enum vs, v => by simp [mem, Denote]
    | .refine x b p, v => by simp [mem, Denote, mem_iff ρ b v, Pred.sat_iff]
    | .guard x t, v => by
      cases v with
      | bool b =>
        cases b
        · simp [mem, Denote]
        · cases h : ρ.get x with
          | none => simp [mem, Denote, h]
          | some w => simp [mem, Denote, h, mem_iff ρ t w]
      | _ => simp [mem, Denote]
    | .guardLit w t, v => by
      cases v with
      | bool b =>
        cases b
        · simp [mem, Denote]
        · simp [mem, Denote, mem_iff ρ t w]
      | _ => simp [mem, Denote]
    | .interval lo hi ho, v => by
      cases v <;> cases ho <;> simp [mem, Denote]
    | .list t n, v => by
      cases v with
      | list vs =>
        simp only [mem, Denote, Bool.and_eq_true, decide_eq_true_eq, List.all_eq_true]
        constructor
        · rintro ⟨hl, ha⟩
          exact ⟨vs, rfl, hl, fun x hx => (mem_iff ρ t x).1 (ha x hx)⟩
        · rintro ⟨ws, hw, hl, ha⟩
          cases hw
          exact ⟨hl, fun x hx => (mem_iff ρ t x).2 (ha x hx)⟩
      | _ => simp [mem, Denote]
    | .listAny t, v => by
      cases v with
      | list vs =>
        simp only [mem, Denote, List.all_eq_true]
        constructor
        · intro ha
          exact ⟨vs, rfl, fun x hx => (mem_iff ρ t x).1 (ha x hx)⟩
        · rintro ⟨ws, hw, ha⟩
          cases hw
          exact fun x hx => (mem_iff ρ t x).2 (ha x hx)
      | _ => simp [mem, Denote]
    | .tuple ts, v => by
      cases v with
      | tuple vs => simp [mem, Denote, memZip_iff ρ ts vs.toList]
      | _ => simp [mem, Denote]
    | .or a b, v => by simp [mem, Denote, mem_iff ρ a v, mem_iff ρ b v]
    | .and a b, v => by simp [mem, Denote, mem_iff ρ a v, mem_iff ρ b v]
    | .paren t, v => by simp [mem, Denote, mem_iff ρ t v]
  theorem memZip_iff (ρ : Env) : ∀ (ts : TyList) (vs : List Value), memZip ρ ts vs = true ↔ DenoteZip ρ ts vs
    | .nil, vs => by simp [memZip, DenoteZip]
    | .cons t ts, vs => by
      cases vs with
      | nil => simp [memZip, DenoteZip]
      | cons w ws =>
        simp only [memZip, DenoteZip, Bool.and_eq_true, mem_iff ρ t w, memZip_iff ρ ts ws]
        constructor
        · rintro ⟨h1, h2⟩
          exact ⟨w, ws, rfl, h1, h2⟩
        · rintro ⟨w', ws', he, h1, h2⟩
          cases he
          exact ⟨h1, h2⟩
end

/-! ### list-building expressions -/

theorem denote_orAll (ρ : Env) (v : Value) : ∀ ts : List Ty, Denote ρ (orAll ts) v ↔ ∃ t ∈ ts, Denote ρ t v
  | [] => by simp [orAll, Denote]
  | t :: ts => by simp [orAll, Denote, denote_orAll ρ v ts]

theorem repList_length (l : List Value) : ∀ k, (repList l k).length = l.length * k
  | 0 => by simp [repList]
  | k + 1 => by simp [repList, repList_length l k, Nat.mul_succ]; omega

theorem mem_repList (l : List Value) (v : Value) : ∀ k, v ∈ repList l k → v ∈ l
  | 0 => by simp [repList]
  | k + 1 => by
    simp only [repList, List.mem_append]
    rintro (h | h)
    · exact h
    · exact mem_repList l v k h

theorem get_push : Spec.declared.get .push = some (.add .n (.lit 1)) := by decide
theorem get_concat : Spec.declared.get .concat = some (.add .n .m) := by decide
theorem get_addOutput : Spec.declared.get .addOutput = some (.add .n .m) := by decide
theorem get_repeat : Spec.declared.get .repeat_ = some (.mul .n .m) := by decide
theorem get_reversed : Spec.declared.get .reversed = some .n := by decide
theorem get_getitem : Spec.declared.get .getitemMax = some (.sub .n (.lit 1)) := by decide

/-- the declared length and element type are true of the run-time list -/
theorem list_len_aux (ρ : Env) : ∀ (e : LExpr) (N : Int), e.ok ρ → e.shape.len Spec.declared = some N →
    (e.eval.length : Int) = N ∧ ∀ v ∈ e.eval, Denote ρ e.elemTy v := by
  intro e
  induction e with
  | lit es =>
    intro N hok hlen
    simp only [LExpr.shape, LShape.len, Option.some.injEq] at hlen
    refine ⟨by simp [LExpr.eval, hlen], ?_⟩
    intro v hv
    simp only [LExpr.eval, List.mem_map] at hv
    obtain ⟨p, hp, rfl⟩ := hv
    simp only [LExpr.elemTy]
    exact (denote_orAll ρ p.2 _).2 ⟨p.1, List.mem_map.2 ⟨p, hp, rfl⟩, hok p hp⟩
  | push l t v ih =>
    intro N hok hlen
    simp only [LExpr.shape, LShape.len, get_push] at hlen
    cases hl : l.shape.len Spec.declared with
    | none => simp [hl] at hlen
    | some n0 =>
      simp only [hl, LenExpr.eval, Option.some.injEq] at hlen
      obtain ⟨h1, h2⟩ := ih n0 hok.1 hl
      refine ⟨by simp [LExpr.eval]; omega, ?_⟩
      intro w hw
      simp only [LExpr.eval, List.mem_append, List.mem_singleton] at hw
      simp only [LExpr.elemTy, Denote]
      rcases hw with hw | rfl
      · exact Or.inl (h2 w hw)
      · exact Or.inr hok.2
  | concat a b iha ihb =>
    intro N hok hlen
    simp only [LExpr.shape, LShape.len, get_concat] at hlen
    cases ha : a.shape.len Spec.declared with
    | none => simp [ha] at hlen
    | some na =>
      cases hb : b.shape.len Spec.declared with
      | none => simp [ha, hb] at hlen
      | some nb =>
        simp only [ha, hb, LenExpr.eval, Option.some.injEq] at hlen
        obtain ⟨a1, a2⟩ := iha na hok.1 ha
        obtain ⟨b1, b2⟩ := ihb nb hok.2 hb
        refine ⟨by simp [LExpr.eval]; omega, ?_⟩
        intro w hw
        simp only [LExpr.eval, List.mem_append] at hw
        simp only [LExpr.elemTy, Denote]
        rcases hw with hw | hw
        · exact Or.inl (a2 w hw)
        · exact Or.inr (b2 w hw)
  | add a b iha ihb =>
    intro N hok hlen
    simp only [LExpr.shape, LShape.len, get_addOutput] at hlen
    cases ha : a.shape.len Spec.declared with
    | none => simp [ha] at hlen
    | some na =>
      cases hb : b.shape.len Spec.declared with
      | none => simp [ha, hb] at hlen
      | some nb =>
        simp only [ha, hb, LenExpr.eval, Option.some.injEq] at hlen
        obtain ⟨a1, a2⟩ := iha na hok.1 ha
        obtain ⟨b1, b2⟩ := ihb nb hok.2 hb
        refine ⟨by simp [LExpr.eval]; omega, ?_⟩
        intro w hw
        simp only [LExpr.eval, List.mem_append] at hw
        simp only [LExpr.elemTy, Denote]
        rcases hw with hw | hw
        · exact Or.inl (a2 w hw)
        · exact Or.inr (b2 w hw)
  | rep l k ih =>
    intro N hok hlen
    simp only [LExpr.shape, LShape.len, get_repeat] at hlen
    cases hl : l.shape.len Spec.declared with
    | none => simp [hl] at hlen
    | some n0 =>
      simp only [hl, LenExpr.eval, Option.some.injEq] at hlen
      obtain ⟨h1, h2⟩ := ih n0 hok hl
      refine ⟨?_, ?_⟩
      · simp only [LExpr.eval, repList_length]
        rw [← hlen, ← h1]
        simp
      · intro w hw
        exact h2 w (mem_repList _ _ _ hw)
  | rev l ih =>
    intro N hok hlen
    simp only [LExpr.shape, LShape.len, get_reversed] at hlen
    cases hl : l.shape.len Spec.declared with
    | none => simp [hl] at hlen
    | some n0 =>
      simp only [hl, LenExpr.eval, Option.some.injEq] at hlen
      obtain ⟨h1, h2⟩ := ih n0 hok hl
      refine ⟨by simp [LExpr.eval]; omega, ?_⟩
      intro w hw
      simp only [LExpr.eval, List.mem_reverse] at hw
      exact h2 w hw
  | map f u l ih =>
    intro N hok hlen
    simp only [LExpr.shape, LShape.len] at hlen
    obtain ⟨h1, h2⟩ := ih N hok.1 hlen
    refine ⟨by simp [LExpr.eval]; omega, ?_⟩
    intro w hw
    simp only [LExpr.eval, List.mem_map] at hw
    obtain ⟨x, hx, rfl⟩ := hw
    exact hok.2 x (h2 x hx)

end ErgVerif.C34
