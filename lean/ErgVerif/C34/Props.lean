import ErgVerif.C34.Proofs
import ErgVerif.Gen.C34ListSig
/-!
C34 — property theorems.

* `C34_mem_iff`        the validator run on every (reported type, run-time value) pair is exact for the denotation.
* `C34_list_len`       the dependent list signatures as declared compute true lengths and element types.
* `C34_index_safe`     an index admitted by the declared `__getitem__` parameter type is in range at run time.
* `C34_declared_is_spec`  the signatures regenerated from classes.rs / List.d.er are the ones the theorems are about.
* witnesses: the two recorded findings are refuted by the validator, and the declared signatures give the true length
  where the checker reports the doubled one (so the defect is in the substitution machinery, not in the declarations).
-/
namespace ErgVerif.C34

/-- T-val: `mem` decides membership in the denotation, for every type of the grammar, value and environment -/
theorem C34_mem_iff (ρ : Env) (t : Ty) (v : Value) : mem ρ t v = true ↔ Denote ρ t v := mem_iff ρ t v

/-- a rejected pair is really outside the type (the direction that turns a `false` verdict into a violation) -/
theorem C34_mem_false (ρ : Env) (t : Ty) (v : Value) : mem ρ t v = false ↔ ¬ Denote ρ t v := by
  rw [← C34_mem_iff]; simp

/-- the declared signatures compute the true length and a true element type, by induction over list-building expressions -/
theorem C34_list_len (ρ : Env) (e : LExpr) (T : Ty) (N : Int) (vs : List Value) :
    HasTypeSpec ρ e T N → e.eval = vs → (vs.length : Int) = N ∧ ∀ v ∈ vs, Denote ρ T v := by
  rintro ⟨hok, rfl, hlen⟩ rfl
  exact list_len_aux ρ e N hok hlen

/-- the value of a list-building expression belongs to its declared type `List(T, N)` -/
theorem C34_list_value_in_type (ρ : Env) (e : LExpr) (T : Ty) (N : Nat) :
    HasTypeSpec ρ e T N → Denote ρ (.list T N) (.list (ValueList.ofList e.eval)) := by
  intro h
  obtain ⟨h1, h2⟩ := C34_list_len ρ e T N e.eval h rfl
  have toList_ofList : ∀ l : List Value, (ValueList.ofList l).toList = l := by
    intro l; induction l <;> simp_all [ValueList.ofList, ValueList.toList]
  simp only [Denote]
  exact ⟨_, rfl, by rw [toList_ofList]; omega, by rw [toList_ofList]; exact h2⟩

/-- an index the declared `__getitem__` parameter type `{I: Nat | I <= N - 1}` admits is in range at run time -/
theorem C34_index_safe (ρ : Env) (e : LExpr) (T : Ty) (N : Int) (ix : Ty) (i : Int) :
    HasTypeSpec ρ e T N → indexTy Spec.declared N = some ix → mem ρ ix (.int i) = true →
    0 ≤ i ∧ i < e.eval.length := by
  intro h hix hm
  obtain ⟨h1, _⟩ := C34_list_len ρ e T N e.eval h rfl
  simp only [indexTy, get_getitem, LenExpr.eval, Option.some.injEq] at hix
  subst hix
  simp [mem, Pred.sat, cmpSat, PArg.val, Value.asInt?] at hm
  omega

/-- T-gen: the length expressions regenerated from the source on this run are the specified ones -/
theorem C34_declared_is_spec : Gen.C34.declared = Spec.declared := by decide

/-- the same two theorems, stated for the regenerated table -/
theorem C34_list_len_declared (ρ : Env) (e : LExpr) (N : Int) :
    e.ok ρ → e.shape.len Gen.C34.declared = some N → (e.eval.length : Int) = N := by
  rw [C34_declared_is_spec]
  intro hok hlen
  exact (list_len_aux ρ e N hok hlen).1

/-! ### non-vacuity -/

/-- a well-typed list-building expression using every constructor -/
def exE : LExpr :=
  .map (fun v => match v with | .int i => .int (i + 1) | _ => .int 0) .int
    (.rev (.rep (.add (.push (.lit [(.enum (.cons (.int 1) .nil), .int 1), (.nat, .int 2)]) .nat (.int 4)) (.lit [(.int, .int (-5))])) 2))

example : HasTypeSpec [] exE .int 8 := by
  refine ⟨?_, rfl, by decide⟩
  simp only [exE, LExpr.ok]
  refine ⟨⟨⟨?_, ?_⟩, ?_⟩, ?_⟩
  · intro p hp
    simp at hp
    rcases hp with rfl | rfl <;> simp [Denote, ValueList.toList]
    exact ⟨2, rfl⟩
  · simp [Denote]; exact ⟨4, rfl⟩
  · intro p hp
    simp at hp
    subst hp
    simp [Denote]
  · intro v _
    cases v <;> simp [Denote]

example : exE.eval.length = 8 := by decide

example : ∃ ix, indexTy Spec.declared 8 = some ix ∧ mem [] ix (.int 7) = true ∧ mem [] ix (.int 8) = false :=
  ⟨_, rfl, by decide, by decide⟩

/-! ### the recorded findings at their witnesses -/

def ty19 : Ty := .list (.enum (.cons (.int 1) (.cons (.int 4) (.cons (.int 3) (.cons (.int 2) .nil))))) 8
def val19 : Value := .list (.cons (.int 1) (.cons (.int 2) (.cons (.int 3) (.cons (.int 4) (.cons (.int 5) .nil)))))

/-- finding #19: `l = [1, 2, 3]; l2 = l.push(4); x = l2 + [5]` is reported `List({1, 4, 3, 2}, 8)`; the run-time value
    `[1, 2, 3, 4, 5]` is not in that type … -/
theorem C34_witness_concat_after_push : ¬ Denote [] ty19 val19 := by
  rw [← C34_mem_iff]; decide

/- (that the real `--mode typecheck` text `List({1, 4, 3, 2}, 8)` parses to `ty19` is checked by the driver on the corpus
   witness row on every run: the kernel cannot evaluate `String` primitives) -/

/-- … while the DECLARED signatures give length 5 for this expression (and `x[6]` is then out of the declared index type) -/
theorem C34_witness_declared_len : (LShape.add (.push (.lit 3)) (.lit 1)).len Gen.C34.declared = some 5 := by decide

/-- finding C01-enum-minus-inferred-nat seen from C34: `i = if(c, do(2), do(3)); j = i - 4` is reported `Nat`, holds `-2`/`-1` -/
theorem C34_witness_enum_minus : ¬ Denote [] .nat (.int (-2)) ∧ ¬ Denote [] .nat (.int (-1)) := by
  constructor <;> (rw [← C34_mem_iff]; decide)

/-- finding C34-not-keeps-operand-type: `n = not True` is reported `{True}` and holds `False` -/
theorem C34_witness_not : ¬ Denote [] (.enum (.cons (.bool true) .nil)) (.bool false) := by
  rw [← C34_mem_iff]; decide

/-- finding C34-index-binding-retyped-never: no value at all belongs to `Never` -/
theorem C34_witness_never (ρ : Env) (v : Value) : ¬ Denote ρ .never v := by
  simp [Denote]

end ErgVerif.C34
