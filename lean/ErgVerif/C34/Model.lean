/-!
C34 — inferred types describe the values bindings hold at run time.

This file is a *validator* (T-val), not a transcription of the inference engine (lower.rs / inquire.rs / unify.rs /
eval.rs `Substituter` are NOT modelled):

* `Ty`      the grammar G of what `erg --mode typecheck` prints (`Display for Type`, crates/erg_compiler/ty/mod.rs,
            `Display for Predicate`, ty/predicate.rs, `Display for ValueObj`, ty/value.rs) for the generated family:
            `Nat Int Float Str Bool Obj Never NoneType`, value sets `{1, 2}` / `{"a"}` / `{[1, 2, 3]}`, refinements
            `{%v: Nat | (%v >= 0) and (%v <= 10)}` (this is how intervals `0..10` are printed), the annotation spelling
            `0..10` / `0..<10`, guard types `{x in T}` (type of comparison results), `List(T, N)`, `List(T, _: Nat)`,
            `Tuple([T, U])`, `T or U`, `T and U`, parentheses.
* `Value`   run-time values (int / bool / str / decimal float / None / list / tuple), read from the `repr` the compiled
            program prints.
* `lex`/`parseTy`/`Ty.toks`  a total tokenizer, a fuelled recursive-descent parser and the token printer; the driver
            checks `lex s = toks (parse s)` on every reported type (so a misparse cannot validate anything silently) and
            reports anything else as out-of-grammar.
* `mem`     the executable membership checker; `Denote` its specification (`C34_mem_iff` in Props.lean).
* `LExpr`   list-building expressions with the DECLARED dependent signatures of
            crates/erg_compiler/context/initialize/classes.rs (`List` class: `concat`/`__add__` Output = `List(T, N + M)`,
            `push` → `List(T, N + 1)`, `repeat`/`__mul__` → `List(T, N * M)`, `__getitem__` index `{I: Nat | I <= N - 1}`)
            and lib/core.d/List.d.er (`reversed` → `List(T, N)`); the length expressions are REGENERATED from those files
            into `ErgVerif.Gen.C34ListSig` on every run and compared with `Spec.declared`.
Core Lean only.
-/
namespace ErgVerif.C34

/-! ### values -/

/-- decimal number `m · 10^e` (floats are carried as exact decimals of their shortest `repr`) -/
structure Dec where
  m : Int
  e : Int
  deriving DecidableEq, Repr, Inhabited

def Dec.normAux : Nat → Int → Int → Dec
  | 0, m, e => ⟨m, e⟩
  | k + 1, m, e =>
    if m = 0 then ⟨0, 0⟩
    else if m % 10 = 0 then Dec.normAux k (m / 10) (e + 1)
    else ⟨m, e⟩

/-- normal form: `0·10^0`, or a mantissa not divisible by ten -/
def Dec.norm (m e : Int) : Dec := Dec.normAux (m.natAbs + 1) m e

mutual
  inductive Value where
    | int (i : Int)
    | bool (b : Bool)
    | str (s : List Char)
    | float (d : Dec)
    | none
    | list (vs : ValueList)
    | tuple (vs : ValueList)
  inductive ValueList where
    | nil
    | cons (v : Value) (vs : ValueList)
end

deriving instance DecidableEq for Value, ValueList
deriving instance Repr for Value, ValueList
instance : Inhabited Value := ⟨.none⟩

def ValueList.toList : ValueList → List Value
  | .nil => []
  | .cons v vs => v :: vs.toList

def ValueList.ofList : List Value → ValueList
  | [] => .nil
  | v :: vs => .cons v (ValueList.ofList vs)

/-- integers and booleans as Python integers (`True == 1`) for the order comparisons -/
def Value.asInt? : Value → Option Int
  | .int i => some i
  | .bool b => some (if b then 1 else 0)
  | _ => Option.none

/-! ### refinement predicates over the bound variable -/

inductive CmpOp where
  | eq | ne | le | ge | lt | gt
  deriving DecidableEq, Repr

/-- right-hand side of an atom: a literal, `pred(k)` or `succ(k)` (how `0..<10` is printed) -/
inductive PArg where
  | lit (v : Value)
  | pred (k : Int)
  | succ (k : Int)
  deriving DecidableEq, Repr

def PArg.val : PArg → Value
  | .lit v => v
  | .pred k => .int (k - 1)
  | .succ k => .int (k + 1)

inductive Pred where
  | cmp (op : CmpOp) (a : PArg)
  | and (a b : Pred)
  | or (a b : Pred)
  | paren (p : Pred)
  deriving DecidableEq, Repr

def cmpSat (op : CmpOp) (v w : Value) : Bool :=
  match op with
  | .eq => decide (v = w)
  | .ne => !decide (v = w)
  | .le => match v.asInt?, w.asInt? with
    | some i, some k => decide (i ≤ k)
    | _, _ => false
  | .ge => match v.asInt?, w.asInt? with
    | some i, some k => decide (k ≤ i)
    | _, _ => false
  | .lt => match v.asInt?, w.asInt? with
    | some i, some k => decide (i < k)
    | _, _ => false
  | .gt => match v.asInt?, w.asInt? with
    | some i, some k => decide (k < i)
    | _, _ => false

def Pred.sat : Pred → Value → Bool
  | .cmp op a, v => cmpSat op v a.val
  | .and a b, v => a.sat v && b.sat v
  | .or a b, v => a.sat v || b.sat v
  | .paren p, v => p.sat v

/-! ### types -/

mutual
  inductive Ty where
    | nat | int | float | str | bool | obj | never | noneT
    | enum (vs : ValueList)                        -- {1, 2}
    | refine (var : String) (base : Ty) (p : Pred)  -- {v: T | p}
    | guard (name : String) (to : Ty)               -- {x in T}
    | guardLit (w : Value) (to : Ty)                -- {2 in T}  (comparison of a literal)
    | interval (lo hi : Int) (hopen : Bool)         -- lo..hi / lo..<hi (annotation spelling)
    | list (t : Ty) (n : Nat)                       -- List(T, N)
    | listAny (t : Ty)                              -- List(T, _: Nat)
    | tuple (ts : TyList)                           -- Tuple([T, U])
    | or (a b : Ty)
    | and (a b : Ty)
    | paren (t : Ty)
  inductive TyList where
    | nil
    | cons (t : Ty) (ts : TyList)
end

deriving instance DecidableEq for Ty, TyList
deriving instance Repr for Ty, TyList
instance : Inhabited Ty := ⟨.never⟩

abbrev Env := List (String × Value)

def Env.get (ρ : Env) (x : String) : Option Value :=
  match ρ.find? (fun p => p.1 = x) with
  | some p => some p.2
  | Option.none => Option.none

/- The verified validator: does the run-time value belong to the reported type? (`ρ`: values of the other bindings,
   needed by guard types.) Structural recursion on the type. -/
mutual
  def mem (ρ : Env) : Ty → Value → Bool
    | .nat, v => match v with
      | .int i => decide (0 ≤ i)
      | .bool _ => true
      | _ => false
    | .int, v => match v with
      | .int _ => true
      | .bool _ => true
      | _ => false
    | .float, v => match v with
      | .float _ => true
      | .int _ => true
      | .bool _ => true
      | _ => false
    | .str, v => match v with
      | .str _ => true
      | _ => false
    | .bool, v => match v with
      | .bool _ => true
      | _ => false
    | .obj, _ => true
    | .never, _ => false
    | .noneT, v => decide (v = .none)
    | .enum vs, v => vs.toList.contains v
    | .refine _ b p, v => mem ρ b v && p.sat v
    | .guard x t, v => match v with
      | .bool true => match ρ.get x with
        | some w => mem ρ t w
        | Option.none => false
      | .bool false => true
      | _ => false
    | .guardLit w t, v => match v with
      | .bool true => mem ρ t w
      | .bool false => true
      | _ => false
    | .interval lo hi ho, v => match v with
      | .int i => decide (lo ≤ i) && (if ho then decide (i < hi) else decide (i ≤ hi))
      | _ => false
    | .list t n, v => match v with
      | .list vs => decide (vs.toList.length = n) && vs.toList.all (fun x => mem ρ t x)
      | _ => false
    | .listAny t, v => match v with
      | .list vs => vs.toList.all (fun x => mem ρ t x)
      | _ => false
    | .tuple ts, v => match v with
      | .tuple vs => memZip ρ ts vs.toList
      | _ => false
    | .or a b, v => mem ρ a v || mem ρ b v
    | .and a b, v => mem ρ a v && mem ρ b v
    | .paren t, v => mem ρ t v
  def memZip (ρ : Env) : TyList → List Value → Bool
    | .nil, vs => vs.isEmpty
    | .cons t ts, vs => match vs with
      | [] => false
      | w :: ws => mem ρ t w && memZip ρ ts ws
end

/-! ### tokens -/

inductive Tok where
  | id (s : String)
  | int (i : Int)
  | flt (d : Dec)
  | str (s : List Char)
  | sym (s : String)
  deriving DecidableEq, Repr

def Tok.show : Tok → String
  | .id s => s
  | .int i => toString i
  | .flt d => "<" ++ toString d.m ++ "e" ++ toString d.e ++ ">"
  | .str s => "\"" ++ String.ofList s ++ "\""
  | .sym s => s

def isIdStart (c : Char) : Bool := c.isAlpha || c = '_' || c = '%'
def isIdChar (c : Char) : Bool := c.isAlphanum || c = '_' || c = '%' || c = '!'

def takeWhileC (p : Char → Bool) : List Char → List Char → List Char × List Char
  | acc, [] => (acc.reverse, [])
  | acc, c :: cs => if p c then takeWhileC p (c :: acc) cs else (acc.reverse, c :: cs)

def digitsVal (ds : List Char) : Nat := ds.foldl (fun a c => a * 10 + (c.toNat - 48)) 0

/-- number starting at a digit: `123`, `1.5`, `1e-7`, `1.5e+3`; `neg` = a minus sign was consumed -/
def lexNumber (neg : Bool) (cs : List Char) : Tok × List Char :=
  let (ip, r1) := takeWhileC Char.isDigit [] cs
  let sgn : Int := if neg then -1 else 1
  let (fp, r2, isF) : List Char × List Char × Bool :=
    match r1 with
    | '.' :: d :: more => if d.isDigit then
        let (f, r) := takeWhileC Char.isDigit [] (d :: more)
        (f, r, true)
      else ([], r1, false)
    | _ => ([], r1, false)
  let (ex, r3, isE) : Int × List Char × Bool :=
    match r2 with
    | 'e' :: '-' :: d :: more => if d.isDigit then
        let (x, r) := takeWhileC Char.isDigit [] (d :: more)
        (-(Int.ofNat (digitsVal x)), r, true)
      else (0, r2, false)
    | 'e' :: '+' :: d :: more => if d.isDigit then
        let (x, r) := takeWhileC Char.isDigit [] (d :: more)
        (Int.ofNat (digitsVal x), r, true)
      else (0, r2, false)
    | 'e' :: d :: more => if d.isDigit then
        let (x, r) := takeWhileC Char.isDigit [] (d :: more)
        (Int.ofNat (digitsVal x), r, true)
      else (0, r2, false)
    | _ => (0, r2, false)
  if isF || isE then
    (.flt (Dec.norm (sgn * Int.ofNat (digitsVal (ip ++ fp))) (ex - Int.ofNat fp.length)), r3)
  else (.int (sgn * Int.ofNat (digitsVal ip)), r3)

/-- body of a string literal after the opening quote (escapes as `Display for ValueObj::Str` leaves them: verbatim) -/
def lexString : List Char → List Char → Option (List Char × List Char)
  | _, [] => none
  | acc, '"' :: cs => some (acc.reverse, cs)
  | acc, '\\' :: c :: cs => lexString (c :: '\\' :: acc) cs
  | acc, c :: cs => lexString (c :: acc) cs

def symbols3 : List (List Char) := ["<..<".toList]
def symbols : List String := ["<..<", "..<", "<..", "..", "==", "!=", "<=", ">=", "->", "=>", ":=",
  "{", "}", "(", ")", "[", "]", ",", ":", "|", "<", ">", ".", "=", "+", "*", "/", "-", "?", "&", "~", "@", "'", ";", "!"]

def matchSym (cs : List Char) : Option (String × List Char) :=
  match symbols.find? (fun s => s.toList.isPrefixOf cs) with
  | some s => some (s, cs.drop s.length)
  | none => none

/-- total tokenizer (fuel = number of characters left) -/
def lexAux : Nat → List Char → List Tok → Option (List Tok)
  | 0, cs, acc => if cs.isEmpty then some acc.reverse else none
  | fuel + 1, cs, acc =>
    match cs with
    | [] => some acc.reverse
    | c :: rest =>
      if c = ' ' || c = '\n' || c = '\t' then lexAux fuel rest acc
      else if isIdStart c then
        let (w, r) := takeWhileC isIdChar [] cs
        lexAux fuel r (.id (String.ofList w) :: acc)
      else if c.isDigit then
        let (t, r) := lexNumber false cs
        lexAux fuel r (t :: acc)
      else if c = '-' && (match rest with | d :: _ => d.isDigit | [] => false) then
        let (t, r) := lexNumber true rest
        lexAux fuel r (t :: acc)
      else if c = '"' then
        match lexString [] rest with
        | some (s, r) => lexAux fuel r (.str s :: acc)
        | none => none
      else match matchSym cs with
        | some (s, r) => lexAux fuel r (.sym s :: acc)
        | none => none

def lex (cs : List Char) : Option (List Tok) := lexAux (cs.length + 1) cs []

/-! ### printer (token level) -/

def sepToks (sep : Tok) : List (List Tok) → List Tok
  | [] => []
  | [x] => x
  | x :: y :: more => x ++ sep :: sepToks sep (y :: more)

mutual
  def Value.toks : Value → List Tok
    | .int i => [.int i]
    | .bool b => [.id (if b then "True" else "False")]
    | .str s => [.str s]
    | .float d => [.flt d]
    | .none => [.id "None"]
    | .list vs => .sym "[" :: ValueList.toks vs ++ [.sym "]"]
    | .tuple vs => .sym "(" :: ValueList.toks vs ++ [.sym ")"]
  def ValueList.toks : ValueList → List Tok
    | .nil => []
    | .cons v .nil => Value.toks v
    | .cons v (.cons w ws) => Value.toks v ++ .sym "," :: ValueList.toks (.cons w ws)
end

def CmpOp.sym : CmpOp → String
  | .eq => "==" | .ne => "!=" | .le => "<=" | .ge => ">=" | .lt => "<" | .gt => ">"

def PArg.toks : PArg → List Tok
  | .lit v => v.toks
  | .pred k => [.id "pred", .sym "(", .int k, .sym ")"]
  | .succ k => [.id "succ", .sym "(", .int k, .sym ")"]

def Pred.toks (x : String) : Pred → List Tok
  | .cmp op a => .id x :: .sym op.sym :: a.toks
  | .and a b => a.toks x ++ .id "and" :: b.toks x
  | .or a b => a.toks x ++ .id "or" :: b.toks x
  | .paren p => .sym "(" :: p.toks x ++ [.sym ")"]

mutual
  def Ty.toks : Ty → List Tok
    | .nat => [.id "Nat"] | .int => [.id "Int"] | .float => [.id "Float"] | .str => [.id "Str"]
    | .bool => [.id "Bool"] | .obj => [.id "Obj"] | .never => [.id "Never"] | .noneT => [.id "NoneType"]
    | .enum vs => .sym "{" :: vs.toks ++ [.sym "}"]
    | .refine x b p => .sym "{" :: .id x :: .sym ":" :: b.toks ++ .sym "|" :: p.toks x ++ [.sym "}"]
    | .guard x t => .sym "{" :: .id x :: .id "in" :: t.toks ++ [.sym "}"]
    | .guardLit w t => .sym "{" :: w.toks ++ .id "in" :: t.toks ++ [.sym "}"]
    | .interval lo hi ho => [.int lo, .sym (if ho then "..<" else ".."), .int hi]
    | .list t n => .id "List" :: .sym "(" :: t.toks ++ [.sym ",", .int n, .sym ")"]
    | .listAny t => .id "List" :: .sym "(" :: t.toks ++ [.sym ",", .id "_", .sym ":", .id "Nat", .sym ")"]
    | .tuple ts => .id "Tuple" :: .sym "(" :: .sym "[" :: ts.toks ++ [.sym "]", .sym ")"]
    | .or a b => a.toks ++ .id "or" :: b.toks
    | .and a b => a.toks ++ .id "and" :: b.toks
    | .paren t => .sym "(" :: t.toks ++ [.sym ")"]
  def TyList.toks : TyList → List Tok
    | .nil => []
    | .cons t .nil => t.toks
    | .cons t (.cons u us) => t.toks ++ .sym "," :: TyList.toks (.cons u us)
end

/-! ### parser (fuelled recursive descent over tokens) -/

def cmpOfSym (s : String) : Option CmpOp :=
  if s = "==" then some .eq else if s = "!=" then some .ne else if s = "<=" then some .le
  else if s = ">=" then some .ge else if s = "<" then some .lt else if s = ">" then some .gt else none

mutual
  /-- literal value: number, string, True/False/None, `[v, …]`, `(v, …)` -/
  def pLit : Nat → List Tok → Option (Value × List Tok)
    | 0, _ => none
    | k + 1, ts =>
      match ts with
      | .int i :: r => some (.int i, r)
      | .flt d :: r => some (.float d, r)
      | .str s :: r => some (.str s, r)
      | .id "True" :: r => some (.bool true, r)
      | .id "False" :: r => some (.bool false, r)
      | .id "None" :: r => some (.none, r)
      | .sym "[" :: .sym "]" :: r => some (.list .nil, r)
      | .sym "[" :: r =>
        match pLits k r with
        | some (vs, .sym "]" :: r') => some (.list vs, r')
        | _ => none
      | .sym "(" :: r =>
        match pLits k r with
        | some (vs, .sym ")" :: r') => some (.tuple vs, r')
        | _ => none
      | _ => none
  /-- one or more literals separated by commas (a trailing comma is accepted) -/
  def pLits : Nat → List Tok → Option (ValueList × List Tok)
    | 0, _ => none
    | k + 1, ts =>
      match pLit k ts with
      | some (v, .sym "," :: r) =>
        match pLits k r with
        | some (vs, r') => some (.cons v vs, r')
        | none => some (.cons v .nil, r)
      | some (v, r) => some (.cons v .nil, r)
      | none => none
end

def pArg (ts : List Tok) : Option (PArg × List Tok) :=
  match ts with
  | .id "pred" :: .sym "(" :: .int k :: .sym ")" :: r => some (.pred k, r)
  | .id "succ" :: .sym "(" :: .int k :: .sym ")" :: r => some (.succ k, r)
  | _ => match pLit (ts.length + 1) ts with
    | some (v, r) => some (.lit v, r)
    | none => none

/-- order comparisons are in the grammar only against integer arguments -/
def argOkFor (op : CmpOp) (a : PArg) : Bool :=
  match op with
  | .eq | .ne => true
  | _ => match a.val with
    | .int _ => true
    | _ => false

mutual
  def pPredOr : Nat → String → List Tok → Option (Pred × List Tok)
    | 0, _, _ => none
    | k + 1, x, ts =>
      match pPredAnd k x ts with
      | some (a, r) => pPredOrRest k x a r
      | none => none
  def pPredOrRest : Nat → String → Pred → List Tok → Option (Pred × List Tok)
    | 0, _, _, _ => none
    | k + 1, x, a, ts =>
      match ts with
      | .id "or" :: r =>
        match pPredAnd k x r with
        | some (b, r') => pPredOrRest k x (.or a b) r'
        | none => none
      | _ => some (a, ts)
  def pPredAnd : Nat → String → List Tok → Option (Pred × List Tok)
    | 0, _, _ => none
    | k + 1, x, ts =>
      match pPredAtom k x ts with
      | some (a, r) => pPredAndRest k x a r
      | none => none
  def pPredAndRest : Nat → String → Pred → List Tok → Option (Pred × List Tok)
    | 0, _, _, _ => none
    | k + 1, x, a, ts =>
      match ts with
      | .id "and" :: r =>
        match pPredAtom k x r with
        | some (b, r') => pPredAndRest k x (.and a b) r'
        | none => none
      | _ => some (a, ts)
  def pPredAtom : Nat → String → List Tok → Option (Pred × List Tok)
    | 0, _, _ => none
    | k + 1, x, ts =>
      match ts with
      | .sym "(" :: r =>
        match pPredOr k x r with
        | some (p, .sym ")" :: r') => some (.paren p, r')
        | _ => none
      | .id y :: .sym o :: r =>
        if y = x then
          match cmpOfSym o, pArg r with
          | some op, some (a, r') => if argOkFor op a then some (.cmp op a, r') else none
          | _, _ => none
        else none
      | _ => none
end

def scalarOfName (s : String) : Option Ty :=
  if s = "Nat" then some .nat else if s = "Int" then some .int else if s = "Float" then some .float
  else if s = "Str" then some .str else if s = "Bool" then some .bool else if s = "Obj" then some .obj
  else if s = "Never" then some .never else if s = "NoneType" then some .noneT else none

def isLitStart : List Tok → Bool
  | .int _ :: _ => true
  | .flt _ :: _ => true
  | .str _ :: _ => true
  | .id s :: _ => s = "True" || s = "False" || s = "None"
  | .sym s :: _ => s = "[" || s = "("
  | _ => false

mutual
  def pTyOr : Nat → List Tok → Option (Ty × List Tok)
    | 0, _ => none
    | k + 1, ts =>
      match pTyAnd k ts with
      | some (a, r) => pTyOrRest k a r
      | none => none
  def pTyOrRest : Nat → Ty → List Tok → Option (Ty × List Tok)
    | 0, _, _ => none
    | k + 1, a, ts =>
      match ts with
      | .id "or" :: r =>
        match pTyAnd k r with
        | some (b, r') => pTyOrRest k (.or a b) r'
        | none => none
      | _ => some (a, ts)
  def pTyAnd : Nat → List Tok → Option (Ty × List Tok)
    | 0, _ => none
    | k + 1, ts =>
      match pTyAtom k ts with
      | some (a, r) => pTyAndRest k a r
      | none => none
  def pTyAndRest : Nat → Ty → List Tok → Option (Ty × List Tok)
    | 0, _, _ => none
    | k + 1, a, ts =>
      match ts with
      | .id "and" :: r =>
        match pTyAtom k r with
        | some (b, r') => pTyAndRest k (.and a b) r'
        | none => none
      | _ => some (a, ts)
  def pTyAtom : Nat → List Tok → Option (Ty × List Tok)
    | 0, _ => none
    | k + 1, ts =>
      match ts with
      | .int lo :: .sym ".." :: .int hi :: r => some (.interval lo hi false, r)
      | .int lo :: .sym "..<" :: .int hi :: r => some (.interval lo hi true, r)
      | .sym "(" :: r =>
        match pTyOr k r with
        | some (t, .sym ")" :: r') => some (.paren t, r')
        | _ => none
      | .id "List" :: .sym "(" :: r =>
        match pTyOr k r with
        | some (t, .sym "," :: .int n :: .sym ")" :: r') => if 0 ≤ n then some (.list t n.toNat, r') else none
        | some (t, .sym "," :: .id "_" :: .sym ":" :: .id "Nat" :: .sym ")" :: r') => some (.listAny t, r')
        | _ => none
      | .id "Tuple" :: .sym "(" :: .sym "[" :: r =>
        match pTys k r with
        | some (tys, .sym "]" :: .sym ")" :: r') => some (.tuple tys, r')
        | _ => none
      | .sym "{" :: .id x :: .sym ":" :: r =>
        match pTyOr k r with
        | some (b, .sym "|" :: r') =>
          match pPredOr (r'.length + 1) x r' with
          | some (p, .sym "}" :: r'') => some (.refine x b p, r'')
          | _ => none
        | _ => none
      | .sym "{" :: .id x :: .id "in" :: r =>
        match pTyOr k r with
        | some (t, .sym "}" :: r') => some (.guard x t, r')
        | _ => none
      | .sym "{" :: r =>
        if isLitStart r then
          match pLit (r.length + 1) r with
          | some (w, .id "in" :: r1) =>
            match pTyOr k r1 with
            | some (t, .sym "}" :: r') => some (.guardLit w t, r')
            | _ => none
          | _ =>
            match pLits (r.length + 1) r with
            | some (vs, .sym "}" :: r') => some (.enum vs, r')
            | _ => none
        else none
      | .id s :: r =>
        match scalarOfName s with
        | some t => some (t, r)
        | none => none
      | _ => none
  def pTys : Nat → List Tok → Option (TyList × List Tok)
    | 0, _ => none
    | k + 1, ts =>
      match pTyOr k ts with
      | some (t, .sym "," :: r) =>
        match pTys k r with
        | some (tys, r') => some (.cons t tys, r')
        | none => none
      | some (t, r) => some (.cons t .nil, r)
      | none => none
end

inductive ParseResult where
  | ok (t : Ty)
  | untokenizable
  | outOfGrammar (at_ : String)
  | roundTripFailed
  deriving Repr

/-- parse the text of a reported type; the result is accepted only when the whole token stream is consumed AND printing the
    tree gives back exactly the token stream (so every token was understood in place) -/
def Ty.parse (s : List Char) : ParseResult :=
  match lex s with
  | none => .untokenizable
  | some ts =>
    match pTyOr (2 * ts.length + 2) ts with
    | some (t, []) => if t.toks = ts then .ok t else .roundTripFailed
    | some (_, r) => .outOfGrammar (" ".intercalate ((r.take 3).map Tok.show))
    | none => .outOfGrammar (" ".intercalate ((ts.take 4).map Tok.show))

/-! ### declared dependent list signatures -/

/-- length expressions over the receiver's length `N` and the argument's `M` -/
inductive LenExpr where
  | n | m
  | lit (k : Nat)
  | add (a b : LenExpr)
  | mul (a b : LenExpr)
  | sub (a b : LenExpr)
  deriving DecidableEq, Repr

def LenExpr.eval (N M : Int) : LenExpr → Int
  | .n => N
  | .m => M
  | .lit k => k
  | .add a b => a.eval N M + b.eval N M
  | .mul a b => a.eval N M * b.eval N M
  | .sub a b => a.eval N M - b.eval N M

inductive ListOp where
  | concat      -- method `concat`:  (self: List(T, N), rhs: List(T, M)) -> List(T, _)
  | addOutput   -- operator `+`: `List(T, N) <: Add(List(T, M))`, `Output = List(T, _)`
  | push        -- (self: List(T, N), elem: T) -> List(T, _)
  | repeat_     -- `repeat` / `__mul__`: (self: List(T, N), {M}) -> List(T, _)
  | reversed    -- (self: List(T, N)) -> List(T, _)
  | getitemMax  -- `__getitem__`: index type {I: Nat | I <= _}
  deriving DecidableEq, Repr

abbrev SigTable := List (ListOp × LenExpr)

def SigTable.get (tbl : SigTable) (op : ListOp) : Option LenExpr :=
  match tbl.find? (fun r => r.1 = op) with
  | some r => some r.2
  | none => none

/-- the signatures the specification expects (what the theorems are proved for); `Gen.C34.declared` is regenerated from
    classes.rs / List.d.er and must be equal (`C34_declared_is_spec`) -/
def Spec.declared : SigTable :=
  [(.concat, .add .n .m), (.addOutput, .add .n .m), (.push, .add .n (.lit 1)), (.repeat_, .mul .n .m), (.reversed, .n),
   (.getitemMax, .sub .n (.lit 1))]

/-- shape of a list-building expression (all that the declared length depends on) -/
inductive LShape where
  | lit (n : Nat)
  | push (l : LShape)
  | concat (a b : LShape)
  | add (a b : LShape)
  | rep (l : LShape) (k : Nat)
  | rev (l : LShape)
  | map (l : LShape)
  deriving DecidableEq, Repr

/-- the length the declared signatures assign (`map` goes through `list(iterable)`, whose declared result has an erased
    length: the spec keeps `N` there, which is what the property demands of a length-preserving `map`) -/
def LShape.len (tbl : SigTable) : LShape → Option Int
  | .lit n => some n
  | .push l => match l.len tbl, tbl.get .push with
    | some N, some e => some (e.eval N 0)
    | _, _ => none
  | .concat a b => match a.len tbl, b.len tbl, tbl.get .concat with
    | some N, some M, some e => some (e.eval N M)
    | _, _, _ => none
  | .add a b => match a.len tbl, b.len tbl, tbl.get .addOutput with
    | some N, some M, some e => some (e.eval N M)
    | _, _, _ => none
  | .rep l k => match l.len tbl, tbl.get .repeat_ with
    | some N, some e => some (e.eval N k)
    | _, _ => none
  | .rev l => match l.len tbl, tbl.get .reversed with
    | some N, some e => some (e.eval N 0)
    | _, _ => none
  | .map l => l.len tbl

/-- list-building expressions with element values: `[e₁ … eₙ]` (each element with the type the spec gives it), `push`,
    `concat`, `+`, `*`/`repeat`, `reversed`, `map` with a function whose declared result type is `u` -/
inductive LExpr where
  | lit (es : List (Ty × Value))
  | push (l : LExpr) (t : Ty) (v : Value)
  | concat (a b : LExpr)
  | add (a b : LExpr)
  | rep (l : LExpr) (k : Nat)
  | rev (l : LExpr)
  | map (f : Value → Value) (u : Ty) (l : LExpr)

def repList (l : List Value) : Nat → List Value
  | 0 => []
  | k + 1 => l ++ repList l k

/-- run-time value (Python list semantics) -/
def LExpr.eval : LExpr → List Value
  | .lit es => es.map (·.2)
  | .push l _ v => l.eval ++ [v]
  | .concat a b => a.eval ++ b.eval
  | .add a b => a.eval ++ b.eval
  | .rep l k => repList l.eval k
  | .rev l => l.eval.reverse
  | .map f _ l => l.eval.map f

def LExpr.shape : LExpr → LShape
  | .lit es => .lit es.length
  | .push l _ _ => .push l.shape
  | .concat a b => .concat a.shape b.shape
  | .add a b => .add a.shape b.shape
  | .rep l k => .rep l.shape k
  | .rev l => .rev l.shape
  | .map _ _ l => .map l.shape

def orAll : List Ty → Ty
  | [] => .never
  | t :: ts => .or t (orAll ts)

/-- declared element type: the union of the element types -/
def LExpr.elemTy : LExpr → Ty
  | .lit es => orAll (es.map (·.1))
  | .push l t _ => .or l.elemTy t
  | .concat a b => .or a.elemTy b.elemTy
  | .add a b => .or a.elemTy b.elemTy
  | .rep l _ => l.elemTy
  | .rev l => l.elemTy
  | .map _ u _ => u

/-! ### classes of the recorded findings (decidable; used by the driver's inK column) -/

/-- C34-concat-after-push-length (DESIGN finding #19): a `+` whose left operand is the result of a list METHOD call (`push`,
    `concat`, `reversed`, `list(map …)`, directly or through a variable, or the result of such a `+`) and whose right operand is
    not a plain variable is typed with the left operand's element type only and, when sized, with length `N + N`.
    The class: the generator marked the binding's expression with that shape, the reported type is a list type and the value
    is a list. -/
def inK19 (feats : List String) (t : Ty) (v : Value) : Bool :=
  feats.contains "concat-after-push" &&
    (match t, v with
     | .list _ _, .list _ => true
     | .listAny _, .list _ => true
     | _, _ => false)

/-- C34-not-keeps-operand-type: `not x` is given the type of `x` (`not True : {True}`), so the type of a binding whose
    expression contains (or depends on a binding containing) a `not` can be the complement of its value. -/
def inKNot (feats : List String) (_t : Ty) (v : Value) : Bool :=
  feats.contains "not-operand-type" &&
    (match v with
     | .bool _ => true
     | _ => false)

def Value.hasNegInt : Value → Bool
  | .list vs => vs.toList.any (fun x => match x with | .int i => decide (i < 0) | _ => false)
  | .int i => decide (i < 0)
  | _ => false

/-- C34-enum-minus-inferred-nat (= C01-enum-minus-inferred-nat): `x - k` with `x` of an enum type of naturals is inferred
    `Nat`; the class: marked expression shape, reported type `Nat` (or a list of `Nat`), a negative integer (element). -/
def inKEnumMinus (feats : List String) (t : Ty) (v : Value) : Bool :=
  feats.contains "enum-minus" && v.hasNegInt &&
    (match t with
     | .nat => true
     | .list .nat _ => true
     | .listAny .nat => true
     | _ => false)

/-- C34-index-result-type-variable: the element type variable behind `l[i]` is unified destructively by later uses. -/
def inKIndexVar (feats : List String) (t : Ty) (v : Value) : Bool :=
  match t, v with
  | .list e _, .list _ => (feats.contains "index-operand-later" && decide (e = .never)) || feats.contains "index-elem-in-list"
  | .listAny e, .list _ => (feats.contains "index-operand-later" && decide (e = .never)) || feats.contains "index-elem-in-list"
  | _, _ => false

/-- C34-guard-base-from-right-operand: the guard type of `x < e` takes its base type from `e`. -/
def inKGuardBase (feats : List String) (t : Ty) (v : Value) : Bool :=
  feats.contains "guard-int-var" &&
    (match t, v with
     | .guard _ _, .bool true => true
     | .guardLit _ _, .bool true => true
     | _, _ => false)

/-- C34-index-binding-retyped-never: a binding defined by an index expression and later used as both operands of a binary
    operator is reported `Never`. -/
def inKIndexNever (feats : List String) (t : Ty) (_v : Value) : Bool :=
  (feats.contains "index-var-self-op" || feats.contains "if-same-var") &&
    (match t with
     | .never => true
     | .list .never _ => true
     | .listAny .never => true
     | _ => false)

/-- C34-interp-str-singleton-quotes: a constant list with an interpolated Str element is folded with the quotes of the
    interpolated value; the class: marked expression, reported type a value set, value a list. -/
def inKInterp (feats : List String) (t : Ty) (v : Value) : Bool :=
  feats.contains "interp-str-in-list" &&
    (match t, v with
     | .enum _, .list _ => true
     | _, _ => false)

/-- C34-enum-element-union-dropped: a list with an enum-typed element (if-expression) loses the other elements' types. -/
def inKEnumElem (feats : List String) (t : Ty) (v : Value) : Bool :=
  feats.contains "if-elem-in-list" &&
    (match t, v with
     | .list (.enum _) _, .list _ => true
     | .listAny (.enum _), .list _ => true
     | _, _ => false)

end ErgVerif.C34
