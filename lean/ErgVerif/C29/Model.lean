/-
C29 — model of the language server's incremental re-analysis.

Transcribed code (crates/els):
* diff.rs        `ASTDiff::diff` (only the FIRST mismatching chunk is reported; fallback index `len-1`),
                 `ASTDiff::is_nop`, `ASTDiff::update` / `HIRDiff::update` (same guards: `idx > len ⇒ push`,
                 out-of-range deletion/modification ignored).
* server.rs      `handle_notification`: `didOpen → check_file`; `didChange → quick_check_file` (only when the first change's
                 text is a trigger character or its range starts at column 0, and BEFORE the change is applied to the
                 file cache) `; incremental_update`; `didSave → recheck_file`.
* diagnostics.rs `change_kind` (`New` when `dependencies_of` is empty, `Valid` when the text differs from the text of the last `check_file`
                 [added by the `fix:` commit; `legacy := true` is the function as it was at the pinned commit], `Invalid` when the
                 cached AST is missing or the text does not parse, `NoChange` when the diff is `Nop`, else `Valid`),
                 `recheck_file` (nothing happens on `NoChange`),
                 `check_file` (publishes the analysis of the text and registers the AST built from the file cache),
                 `quick_check_file` (diffs the cached AST against the parse of the file-cache text, patches the cached AST when the
                 lowerer accepted the chunk; publishes nothing).
Chunks are compared on their content only (`Token::eq` ignores positions), so a chunk is `(key, line)` with `same` on keys.
The analysis, the parser, the text-edit function, the trigger test and the lowerer's verdict are parameters (`Env`).
Import-free: the driver links as a `lean_exe`. No panic site is reachable in the transcribed functions
(`new.len() - 1` / `old.len() - 1` are evaluated only when that length is positive; `get(idx).unwrap()` is in range).
-/
namespace ErgVerif.C29

/-- a top-level chunk: `key` stands for everything `PartialEq for ast::Expr` looks at, `line` for its position -/
structure Chunk where
  key : String
  line : Nat
  deriving DecidableEq, Repr

/-- `ast::Expr::eq` — positions are ignored -/
def Chunk.same (a b : Chunk) : Bool := a.key == b.key

abbrev Ast := List Chunk

/-- `old ≈ new`: same length and chunk-wise `same` (this is `Module == Module`) -/
def equiv : Ast → Ast → Bool
  | [], [] => true
  | a :: as, b :: bs => a.same b && equiv as bs
  | _, _ => false

inductive Diff where
  | deletion (idx : Nat)
  | addition (idx : Nat) (c : Chunk)
  | modification (idx : Nat) (c : Chunk)
  | nop
  deriving DecidableEq, Repr

def Diff.isNop : Diff → Bool
  | .nop => true
  | _ => false

/-- `xs.iter().zip(ys.iter()).position(|(x, y)| x != y)` -/
def firstMismatch : Ast → Ast → Option Nat
  | a :: as, b :: bs => if a.same b then (firstMismatch as bs).map (· + 1) else some 0
  | _, _ => none

/-- `ASTDiff::diff(old, new)` -/
def diff (old new : Ast) : Diff :=
  if old.length < new.length then
    let idx := (firstMismatch new old).getD (new.length - 1)
    match new[idx]? with
    | some c => .addition idx c
    | none => .nop            -- unreachable (`new.get(idx).unwrap()`): see `Props.diff_addition_in_range`
  else if new.length < old.length then
    .deletion ((firstMismatch old new).getD (old.length - 1))
  else
    match firstMismatch old new with
    | some idx =>
      match new[idx]? with
      | some c => .modification idx c
      | none => .nop          -- unreachable
    | none => .nop

def insertAt : Nat → Chunk → Ast → Ast
  | 0, c, xs => c :: xs
  | _ + 1, c, [] => [c]
  | n + 1, c, x :: xs => x :: insertAt n c xs

def removeAt : Nat → Ast → Ast
  | _, [] => []
  | 0, _ :: xs => xs
  | n + 1, x :: xs => x :: removeAt n xs

def setAt : Nat → Chunk → Ast → Ast
  | _, _, [] => []
  | 0, c, _ :: xs => c :: xs
  | n + 1, c, x :: xs => x :: setAt n c xs

/-- `ASTDiff::update(self, old)` (and `HIRDiff::update`, which has the same shape) -/
def update (d : Diff) (old : Ast) : Ast :=
  match d with
  | .addition idx c => if idx > old.length then old ++ [c] else insertAt idx c old
  | .deletion idx => if idx < old.length then removeAt idx old else old
  | .modification idx c => if idx < old.length then setAt idx c old else old
  | .nop => old

/-- what `quick_check_file` leaves in the cache when the lowerer accepts the chunk -/
def patched (old new : Ast) : Ast := update (diff old new) old

/-! ### the notification state machine -/

/-- result of `Parser::parse`: an AST, or a parse error carrying an optional partial AST -/
inductive ParseRes where
  | ok (a : Ast)
  | err (partialAst : Option Ast)
  deriving DecidableEq, Repr

/-- the AST `check_file` registers: `build_ast` ok ⇒ it, `ParseError(err)` ⇒ `err.ast` -/
def ParseRes.registered : ParseRes → Option Ast
  | .ok a => some a
  | .err o => o

/-- the AST `quick_check_file` works with (same rule) -/
def ParseRes.forQuick : ParseRes → Option Ast := ParseRes.registered

inductive ChangeKind where
  | new | noChange | valid | invalid
  deriving DecidableEq, Repr

/-- the parameters of the state machine -/
structure Env (Text Change Diag : Type) where
  /-- `Parser::parse` of a document text -/
  parse : Text → ParseRes
  /-- what `check_file` publishes for a text (= what a freshly started server publishes after `didOpen`) -/
  analyse : Text → Diag
  /-- `FileCache::incremental_update` (property C28) -/
  apply : Text → Change → Text
  /-- the first content change is a trigger character or its range starts at column 0 -/
  trigger : Change → Bool
  /-- `HIRDiff::new(diff, lowerer)` is `Some` and the module has a cached HIR: the cached AST gets patched. It depends on the
      lowerer's state at that moment, for which the notification stands. -/
  lowerOk : Change → Ast → Diff → Bool
  /-- `dependencies_of(uri)` is non-empty (the module graph sorts and knows the file); the other dependencies are
      unchanged and cached, so they contribute `Nop` to `change_kind` -/
  hasDeps : Bool

inductive Event (Text Change : Type) where
  | didOpen (t : Text)
  | didChange (c : Change)
  | didSave

/-- the server's state as far as one document is concerned -/
structure State (Text Diag : Type) where
  /-- file cache entry -/
  text : Option Text
  /-- `mod_cache` entry's AST (`get_ast`) -/
  cache : Option Ast
  /-- the last `publishDiagnostics` for the document -/
  published : Option Diag
  /-- `file_cache.checked[uri]`: the text given to the last `check_file` (= the text whose analysis is the published one) -/
  publishedOf : Option Text
  /-- result of the last `change_kind` (ghost) -/
  lastKind : Option ChangeKind
  /-- what the last `quick_check_file` did (ghost, for the trace): none = not run -/
  lastQuick : Option (Option Diff × Bool)

def State.init {Text Diag : Type} : State Text Diag :=
  { text := none, cache := none, published := none, publishedOf := none, lastKind := none, lastQuick := none }

variable {Text Change Diag : Type}

/-- `check_file(uri, code)` for the document itself -/
def checkFile (env : Env Text Change Diag) (s : State Text Diag) (t : Text) : State Text Diag :=
  { s with published := some (env.analyse t), publishedOf := some t, cache := (env.parse t).registered }

/-- `quick_check_file(uri)`; the second component of `lastQuick` says whether the cached AST was patched -/
def quickCheck (env : Env Text Change Diag) (c : Change) (s : State Text Diag) : State Text Diag :=
  match s.cache, s.text with
  | some old, some t =>
    match (env.parse t).forQuick with
    | some new =>
      let d := diff old new
      if d.isNop then { s with lastQuick := some (some d, false) }
      else if env.lowerOk c old d then { s with cache := some (update d old), lastQuick := some (some d, true) }
      else { s with lastQuick := some (some d, false) }
    | none => { s with lastQuick := some (none, false) }
  | _, _ => { s with lastQuick := some (none, false) }

/-- `change_kind(uri)`; `legacy = true` is the code before the fix (no comparison with the last checked text) -/
def changeKind [DecidableEq Text] (legacy : Bool) (env : Env Text Change Diag) (s : State Text Diag) : ChangeKind :=
  if !env.hasDeps then .new
  else if !legacy && s.publishedOf ≠ s.text then .valid
  else match s.cache, s.text with
    | some old, some t =>
      match env.parse t with
      | .ok new => if (diff old new).isNop then .noChange else .valid
      | .err _ => .invalid
    | _, _ => .invalid

def step [DecidableEq Text] (legacy : Bool) (env : Env Text Change Diag) (s : State Text Diag) : Event Text Change → State Text Diag
  | .didOpen t => checkFile env { s with text := some t, lastQuick := none, lastKind := none } t
  | .didChange c =>
    let s1 := if env.trigger c then quickCheck env c s else { s with lastQuick := none }
    { s1 with text := s1.text.map (fun t => env.apply t c), lastKind := none }
  | .didSave =>
    let k := changeKind legacy env s
    let s1 := { s with lastKind := some k, lastQuick := none }
    match k, s.text with
    | .noChange, _ => s1
    | _, some t => checkFile env s1 t
    | _, none => s1            -- `get_entire_code` fails: nothing is checked

def run [DecidableEq Text] (legacy : Bool) (env : Env Text Change Diag) (s : State Text Diag) (evs : List (Event Text Change)) :
    State Text Diag :=
  evs.foldl (step legacy env) s

/-- the property's demand on a state: what is published is the analysis of the current text -/
def Converged (env : Env Text Change Diag) (s : State Text Diag) : Prop :=
  ∃ t, s.text = some t ∧ s.published = some (env.analyse t)

/-! ### classes of the recorded findings (decidable on the concrete driver instance, where a text is its version number) -/

/-- the published analysis belongs to another text than the current one -/
def staleVersion (s : State Nat Nat) : Bool :=
  match s.text, s.publishedOf with
  | some t, some p => t != p
  | _, _ => false

end ErgVerif.C29
