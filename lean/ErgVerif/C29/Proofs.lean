import ErgVerif.C29.Model
/-! helper lemmas for C29 (core Lean only) -/
namespace ErgVerif.C29

theorem same_refl (a : Chunk) : a.same a = true := by simp [Chunk.same]

theorem same_symm {a b : Chunk} (h : a.same b = true) : b.same a = true := by
  simp [Chunk.same] at *; exact h.symm

theorem same_trans {a b c : Chunk} (h : a.same b = true) (h2 : b.same c = true) : a.same c = true := by
  simp [Chunk.same] at *; exact h.trans h2

theorem equiv_refl : ∀ a : Ast, equiv a a = true
  | [] => rfl
  | x :: xs => by simp [equiv, same_refl, equiv_refl xs]

theorem equiv_length : ∀ {a b : Ast}, equiv a b = true → a.length = b.length
  | [], [], _ => rfl
  | [], _ :: _, h => by simp [equiv] at h
  | _ :: _, [], h => by simp [equiv] at h
  | _ :: as, _ :: bs, h => by
    simp [equiv] at h
    simp [equiv_length h.2]

theorem firstMismatch_lt : ∀ {a b : Ast} {i : Nat}, firstMismatch a b = some i → i < a.length ∧ i < b.length
  | [], _, _, h => by simp [firstMismatch] at h
  | _ :: _, [], _, h => by simp [firstMismatch] at h
  | x :: as, y :: bs, i, h => by
    simp only [firstMismatch] at h
    split at h
    · cases hm : firstMismatch as bs with
      | none => simp [hm] at h
      | some j =>
        simp [hm] at h
        have := firstMismatch_lt hm
        subst h
        simp; omega
    · simp at h; subst h; simp

theorem firstMismatch_none_iff : ∀ (a b : Ast), a.length = b.length → (firstMismatch a b = none ↔ equiv a b = true)
  | [], [], _ => by simp [firstMismatch, equiv]
  | [], _ :: _, h => by simp at h
  | _ :: _, [], h => by simp at h
  | x :: as, y :: bs, h => by
    have hl : as.length = bs.length := by simpa using h
    have ih := firstMismatch_none_iff as bs hl
    simp only [firstMismatch, equiv]
    by_cases hs : x.same y = true
    · simp [hs, ih]
    · simp [hs]

/-- the `unwrap` in the `Less` branch cannot fail -/
theorem addition_idx_lt {old new : Ast} (h : old.length < new.length) :
    (firstMismatch new old).getD (new.length - 1) < new.length := by
  cases hm : firstMismatch new old with
  | none => simp; omega
  | some i => simp; exact (firstMismatch_lt hm).1

theorem diff_isNop_iff (old new : Ast) : (diff old new).isNop = true ↔ equiv old new = true := by
  unfold diff
  by_cases h1 : old.length < new.length
  · have hidx := addition_idx_lt h1
    simp only [h1, if_true]
    have : ∃ c, new[(firstMismatch new old).getD (new.length - 1)]? = some c :=
      ⟨_, List.getElem?_eq_getElem hidx⟩
    obtain ⟨c, hc⟩ := this
    simp only [hc, Diff.isNop]
    constructor
    · intro h; cases h
    · intro h; have := equiv_length h; omega
  · by_cases h2 : new.length < old.length
    · simp only [h1, h2, if_true, if_false, Diff.isNop]
      constructor
      · intro h; cases h
      · intro h; have := equiv_length h; omega
    · have hl : old.length = new.length := by omega
      simp only [h1, h2, if_false]
      cases hm : firstMismatch old new with
      | none =>
        simp only [Diff.isNop, true_iff]
        exact (firstMismatch_none_iff old new hl).1 hm
      | some i =>
        have hi := (firstMismatch_lt hm).2
        simp only [List.getElem?_eq_getElem hi, Diff.isNop]
        constructor
        · intro h; cases h
        · intro h
          have := (firstMismatch_none_iff old new hl).2 h
          simp [hm] at this

/-! #### `patched` commutes with a common (content-equal) head -/

theorem patched_cons {a b : Chunk} (h : a.same b = true) (old new : Ast) :
    patched (a :: old) (b :: new) = a :: patched old new := by
  have hba : b.same a = true := same_symm h
  unfold patched diff
  by_cases h1 : old.length < new.length
  · have h1' : (a :: old).length < (b :: new).length := by simp; omega
    have hpos : 0 < new.length := by omega
    simp only [h1', h1, if_true]
    have hfm : (firstMismatch (b :: new) (a :: old)).getD ((b :: new).length - 1)
        = (firstMismatch new old).getD (new.length - 1) + 1 := by
      simp only [firstMismatch, hba, if_true]
      cases firstMismatch new old with
      | none => simp; omega
      | some i => simp
    rw [hfm]
    have hidx := addition_idx_lt h1
    simp only [List.getElem?_cons_succ, List.getElem?_eq_getElem hidx]
    simp only [update, List.length_cons]
    by_cases hg : (firstMismatch new old).getD (new.length - 1) > old.length
    · have hg' : (firstMismatch new old).getD (new.length - 1) + 1 > old.length + 1 := by omega
      simp [hg, hg']
    · have hg' : ¬ ((firstMismatch new old).getD (new.length - 1) + 1 > old.length + 1) := by omega
      simp [hg, hg', insertAt]
  · by_cases h2 : new.length < old.length
    · have h1' : ¬ (a :: old).length < (b :: new).length := by simp; omega
      have h2' : (b :: new).length < (a :: old).length := by simp; omega
      simp only [h1', h1, h2, h2', if_true, if_false]
      have hfm : (firstMismatch (a :: old) (b :: new)).getD ((a :: old).length - 1)
          = (firstMismatch old new).getD (old.length - 1) + 1 := by
        simp only [firstMismatch, h, if_true]
        cases firstMismatch old new with
        | none => simp; omega
        | some i => simp
      rw [hfm]
      simp only [update, List.length_cons]
      by_cases hg : (firstMismatch old new).getD (old.length - 1) < old.length
      · have hg' : (firstMismatch old new).getD (old.length - 1) + 1 < old.length + 1 := by omega
        simp [hg, hg', removeAt]
      · have hg' : ¬ ((firstMismatch old new).getD (old.length - 1) + 1 < old.length + 1) := by omega
        simp [hg, hg']
    · have h1' : ¬ (a :: old).length < (b :: new).length := by simp; omega
      have h2' : ¬ (b :: new).length < (a :: old).length := by simp; omega
      simp only [h1', h1, h2, h2', if_false]
      simp only [firstMismatch, h, if_true]
      cases hm : firstMismatch old new with
      | none => simp [update]
      | some i =>
        have hi := firstMismatch_lt hm
        simp only [Option.map_some, List.getElem?_cons_succ, List.getElem?_eq_getElem hi.2]
        simp [update, hi.1, setAt]

theorem patched_head_diff_add {c s : Chunk} (t : Ast) (h : c.same s = false) :
    patched (s :: t) (c :: s :: t) = c :: s :: t := by
  simp [patched, diff, firstMismatch, h, update, insertAt]

theorem equiv_cons {a b : Chunk} {x y : Ast} (h : a.same b = true) (h2 : equiv x y = true) :
    equiv (a :: x) (b :: y) = true := by simp [equiv, h, h2]

/-- inserting a chunk in front of `suf` -/
theorem patched_insert_front : ∀ (suf : Ast) (c : Chunk), equiv (patched suf (c :: suf)) (c :: suf) = true
  | [], c => by simp [patched, diff, firstMismatch, update, insertAt, equiv, same_refl]
  | s :: t, c => by
    by_cases h : c.same s = true
    · rw [patched_cons (same_symm h)]
      exact equiv_cons (same_symm h) (patched_insert_front t s)
    · have h' : c.same s = false := by simpa using h
      rw [patched_head_diff_add t h']
      exact equiv_refl _

/-- deleting the chunk in front of `suf` -/
theorem patched_delete_front : ∀ (suf : Ast) (c : Chunk), equiv (patched (c :: suf) suf) suf = true
  | [], c => by simp [patched, diff, firstMismatch, update, removeAt, equiv]
  | s :: t, c => by
    by_cases h : c.same s = true
    · rw [patched_cons h]
      have ih := patched_delete_front t s
      -- c :: patched (s :: t) t  ≈  s :: t
      exact equiv_cons h ih
    · have h' : c.same s = false := by simpa using h
      have hlt : ¬ (t.length + 1 < t.length) := by omega
      have : patched (c :: s :: t) (s :: t) = s :: t := by
        simp [patched, diff, firstMismatch, h', update, removeAt, hlt]
      rw [this]; exact equiv_refl _

theorem patched_same (a : Ast) : patched a a = a := by
  have h := (diff_isNop_iff a a).2 (equiv_refl a)
  unfold patched
  cases hd : diff a a with
  | nop => rfl
  | deletion i => simp [hd, Diff.isNop] at h
  | addition i c => simp [hd, Diff.isNop] at h
  | modification i c => simp [hd, Diff.isNop] at h

/-- replacing the chunk in front of `suf` -/
theorem patched_modify_front (suf : Ast) (c c' : Chunk) : equiv (patched (c :: suf) (c' :: suf)) (c' :: suf) = true := by
  by_cases h : c.same c' = true
  · rw [patched_cons h, patched_same]
    exact equiv_cons h (equiv_refl _)
  · have h' : c.same c' = false := by simpa using h
    have : patched (c :: suf) (c' :: suf) = c' :: suf := by
      simp [patched, diff, firstMismatch, h', update, setAt]
    rw [this]; exact equiv_refl _

theorem patched_prefix (pre : Ast) {o n : Ast} (h : equiv (patched o n) n = true) :
    equiv (patched (pre ++ o) (pre ++ n)) (pre ++ n) = true := by
  induction pre with
  | nil => simpa using h
  | cons p ps ih =>
    simp only [List.cons_append]
    rw [patched_cons (same_refl p)]
    exact equiv_cons (same_refl p) ih

end ErgVerif.C29
