import ErgVerif.C29.Proofs
/-!
C29 — property theorems. `Model.lean` transcribes `els/diff.rs` and the notification state machine of
`els/server.rs` + `els/diagnostics.rs`; the analysis, parser, text-edit function and lowerer verdict are parameters.
-/
namespace ErgVerif.C29

/-- `diff` answers `Nop` exactly when the two modules are chunk-wise content-equal (positions are not looked at) -/
theorem C29_diff_nop (old new : Ast) : (diff old new).isNop = true ↔ equiv old new = true :=
  diff_isNop_iff old new

/-- the `unwrap`s of `ASTDiff::diff` cannot fail: the reported index is inside `new` -/
theorem C29_diff_addition_in_range (old new : Ast) (h : old.length < new.length) :
    ∃ c, diff old new = .addition ((firstMismatch new old).getD (new.length - 1)) c := by
  have hidx := addition_idx_lt h
  exact ⟨new[(firstMismatch new old).getD (new.length - 1)], by simp [diff, h, List.getElem?_eq_getElem hidx]⟩

/-- one top-level chunk inserted, deleted or replaced -/
inductive SingleEdit : Ast → Ast → Prop
  | ins (pre suf : Ast) (c : Chunk) : SingleEdit (pre ++ suf) (pre ++ c :: suf)
  | del (pre suf : Ast) (c : Chunk) : SingleEdit (pre ++ c :: suf) (pre ++ suf)
  | mod (pre suf : Ast) (c c' : Chunk) : SingleEdit (pre ++ c :: suf) (pre ++ c' :: suf)

/-- after a single-chunk edit, patching the cached module with the reported difference yields the new module (up to positions) -/
theorem C29_single_edit {old new : Ast} (h : SingleEdit old new) : equiv (update (diff old new) old) new = true := by
  show equiv (patched old new) new = true
  cases h with
  | ins pre suf c => exact patched_prefix pre (patched_insert_front suf c)
  | del pre suf c => exact patched_prefix pre (patched_delete_front suf c)
  | mod pre suf c c' => exact patched_prefix pre (patched_modify_front suf c c')

example : SingleEdit [⟨"x", 1⟩, ⟨"z", 2⟩] [⟨"x", 1⟩, ⟨"y", 2⟩, ⟨"z", 2⟩] := SingleEdit.ins [⟨"x", 1⟩] [⟨"z", 2⟩] ⟨"y", 2⟩

/-- only the first mismatch is reported: with two inserted chunks the patched cache is NOT the new module -/
theorem C29_multi_edit_witness :
    let old : Ast := [⟨"x", 1⟩, ⟨"z", 2⟩]
    let new : Ast := [⟨"x", 1⟩, ⟨"a", 2⟩, ⟨"b", 3⟩, ⟨"z", 4⟩]
    diff old new = .addition 1 ⟨"a", 2⟩ ∧ equiv (update (diff old new) old) new = false := by decide

/-- the `Addition` fallback index: appended chunks report the LAST new chunk, which is then pushed after the old module -/
theorem C29_addition_fallback_witness :
    let old : Ast := [⟨"x", 1⟩]
    let new : Ast := [⟨"x", 1⟩, ⟨"a", 2⟩, ⟨"b", 3⟩]
    diff old new = .addition 2 ⟨"b", 3⟩ ∧ update (diff old new) old = [⟨"x", 1⟩, ⟨"b", 3⟩] := by decide

/-! ### the notification state machine

`legacy = false` is the code after the `fix:` commit (`change_kind` answers `Valid` whenever the text differs from the text of the last
`check_file`), `legacy = true` the code at the pinned commit. -/

variable {Text Change Diag : Type} [DecidableEq Text]

/-- the invariant behind the fixed `NoChange` shortcut: what is published is the analysis of the text recorded by the last `check_file` -/
def Inv (env : Env Text Change Diag) (s : State Text Diag) : Prop :=
  ∀ t, s.publishedOf = some t → s.published = some (env.analyse t)

theorem quickCheck_pub (env : Env Text Change Diag) (c : Change) (s : State Text Diag) :
    (quickCheck env c s).published = s.published ∧ (quickCheck env c s).publishedOf = s.publishedOf := by
  unfold quickCheck
  split
  · split
    · dsimp only
      split
      · exact ⟨rfl, rfl⟩
      · split <;> exact ⟨rfl, rfl⟩
    · exact ⟨rfl, rfl⟩
  · exact ⟨rfl, rfl⟩

theorem C29_inv_step (legacy : Bool) (env : Env Text Change Diag) (s : State Text Diag) (ev : Event Text Change) (h : Inv env s) :
    Inv env (step legacy env s ev) := by
  cases ev with
  | didOpen t => intro t' ht; simp [step, checkFile] at ht ⊢; rw [ht]
  | didChange c =>
    intro t' ht
    simp only [step] at ht ⊢
    split at ht
    · rename_i htr; simp only [htr, if_true]
      rw [(quickCheck_pub env c s).2] at ht; rw [(quickCheck_pub env c s).1]; exact h t' ht
    · rename_i htr; simp only [htr]; exact h t' ht
  | didSave =>
    intro t' ht
    simp only [step] at ht ⊢
    split at ht
    · rename_i hk; simp only [hk]; exact h t' ht
    · simp only [checkFile] at ht ⊢
      simp only [Option.some.injEq] at ht
      rw [← ht]
    · exact h t' ht

theorem C29_inv_run (legacy : Bool) (env : Env Text Change Diag) (evs : List (Event Text Change)) :
    ∀ s, Inv env s → Inv env (run legacy env s evs) := by
  induction evs with
  | nil => intro s h; exact h
  | cons e es ih => intro s h; exact ih _ (C29_inv_step legacy env s e h)

/-- THE PROPERTY, for the repaired code: for every analysis, parser, lowerer verdict, workspace shape and every notification history
    (starting from the empty state) in which the document is open, a `didSave` leaves published the analysis of the current text —
    which is what a freshly started server publishes for it. -/
theorem C29_converge_full (env : Env Text Change Diag) (evs : List (Event Text Change))
    (hopen : (run false env State.init evs).text.isSome) :
    Converged env (run false env State.init (evs ++ [.didSave])) := by
  have hinv : Inv env (run false env State.init evs) := C29_inv_run false env evs _ (by intro t h; simp [State.init] at h)
  simp only [run, List.foldl_append, List.foldl_cons, List.foldl_nil] at *
  generalize List.foldl (step false env) State.init evs = s at *
  cases ht : s.text with
  | none => simp [ht] at hopen
  | some t =>
    refine ⟨t, ?_, ?_⟩
    · simp only [step]; split <;> simp_all [checkFile]
    · simp only [step]
      split
      · rename_i hk
        -- `NoChange` is only answered when the recorded text is the current one
        have : s.publishedOf = some t := by
          unfold changeKind at hk
          by_cases hd : env.hasDeps = true
          · by_cases hp : s.publishedOf = s.text
            · rw [hp, ht]
            · simp [hd, hp] at hk
          · simp [hd] at hk
        exact hinv t this
      · simp_all [checkFile]
      · simp_all

/-- For the code at the pinned commit only this much holds: a `didSave` whose `change_kind` is not `NoChange` publishes the analysis of
    the current text (every history, every starting state). -/
theorem C29_legacy_converge (env : Env Text Change Diag) (s0 : State Text Diag) (evs : List (Event Text Change))
    (hopen : (run true env s0 evs).text.isSome)
    (hk : (run true env s0 (evs ++ [.didSave])).lastKind ≠ some .noChange) :
    Converged env (run true env s0 (evs ++ [.didSave])) := by
  simp only [run, List.foldl_append, List.foldl_cons, List.foldl_nil] at *
  generalize List.foldl (step true env) s0 evs = s at *
  cases ht : s.text with
  | none => simp [ht] at hopen
  | some t =>
    refine ⟨t, ?_, ?_⟩
    · simp only [step]
      cases hck : changeKind true env s <;> simp [ht, checkFile]
    · simp only [step] at hk ⊢
      cases hck : changeKind true env s <;> simp_all [checkFile]

/-- in a workspace where `dependencies_of` is empty (single file) every history that ends with `didSave` converged already before the fix -/
theorem C29_legacy_converge_no_deps (env : Env Text Change Diag) (hd : env.hasDeps = false) (s0 : State Text Diag)
    (evs : List (Event Text Change)) (hopen : (run true env s0 evs).text.isSome) :
    Converged env (run true env s0 (evs ++ [.didSave])) := by
  apply C29_legacy_converge env s0 evs hopen
  simp only [run, List.foldl_append, List.foldl_cons, List.foldl_nil]
  generalize List.foldl (step true env) s0 evs = s
  cases ht : s.text <;> simp [step, changeKind, hd, checkFile, ht]

/-- The cache invariant the LEGACY `NoChange` shortcut relied on: what is published is the analysis of some text whose registered AST is
    the cached one. -/
def Sync (env : Env Text Change Diag) (s : State Text Diag) : Prop :=
  ∃ tp, s.published = some (env.analyse tp) ∧ s.cache = (env.parse tp).registered

/-- Under it a legacy `NoChange` answer is right provided (1) the analysis depends on the text only through its AST WITH positions and
    (2) the cached AST equals the new one including positions. Both extra hypotheses are forced: `C29_legacy_witness_stale_positions`
    breaks (2), `C29_legacy_witness_stale_content` breaks `Sync` through a patching `quick_check_file`. -/
theorem C29_legacy_nochange_partial (env : Env Text Change Diag) (s : State Text Diag) (t : Text) (a : Ast)
    (hsync : Sync env s) (ht : s.text = some t) (hparse : env.parse t = .ok a) (hpos : s.cache = some a)
    (hana : ∀ t1 t2, (env.parse t1).registered = (env.parse t2).registered → env.analyse t1 = env.analyse t2) :
    Converged env (step true env s .didSave) := by
  obtain ⟨tp, hp, hc⟩ := hsync
  have heq : env.analyse tp = env.analyse t := by
    apply hana; rw [← hc, hpos, hparse]; rfl
  refine ⟨t, ?_, ?_⟩
  · simp only [step]; split <;> simp_all [checkFile]
  · simp only [step]; split <;> simp_all [checkFile]

/-! #### concrete instance used for the witnesses: a text is its list of chunks, the analysis reports every chunk with its line (so it is
position-sensitive, like real diagnostics) -/

def demoEnv (deps : Bool) : Env Ast Ast Ast :=
  { parse := fun t => .ok t, analyse := fun t => t, apply := fun _ c => c, trigger := fun _ => true,
    lowerOk := fun _ _ _ => true, hasDeps := deps }

/-- Before the fix the property was FALSE when the document has dependencies: a position-only edit (a comment line inserted above) is
    `NoChange`, the diagnostics keep their old line numbers. Replayed on the real server before the fix (corpus/C29
    `w:C29-nochange-stale-positions`); the same history converges with the repaired `change_kind`. -/
theorem C29_legacy_witness_stale_positions :
    let t0 : Ast := [⟨"b = import \"b\"", 1⟩, ⟨"y: Str = 2", 2⟩]
    let t1 : Ast := [⟨"b = import \"b\"", 2⟩, ⟨"y: Str = 2", 3⟩]
    let h : List (Event Ast Ast) := [.didOpen t0, .didChange t1, .didSave]
    let s := run true (demoEnv true) State.init h
    (s.lastKind = some .noChange ∧ s.published = some t0 ∧ s.text = some t1) ∧
    (run false (demoEnv true) State.init h).published = some t1 := by decide

/-- `quick_check_file` patches the cached AST without publishing, so a later legacy `NoChange` left the diagnostics of a text that no
    longer exists: delete the offending chunk (edit at column 0), insert a comment line (column 0 again, which runs `quick_check_file` on
    the text after the first edit), save. Replayed before the fix (corpus/C29 `w:C29-quickcheck-stale-content`). -/
theorem C29_legacy_witness_stale_content :
    let t0 : Ast := [⟨"b = import \"b\"", 1⟩, ⟨"y: Str = 2", 2⟩, ⟨"print! b.x", 3⟩]
    let t1 : Ast := [⟨"b = import \"b\"", 1⟩, ⟨"print! b.x", 2⟩]
    let t2 : Ast := [⟨"b = import \"b\"", 2⟩, ⟨"print! b.x", 3⟩]
    let h : List (Event Ast Ast) := [.didOpen t0, .didChange t1, .didChange t2, .didSave]
    let s := run true (demoEnv true) State.init h
    (s.lastKind = some .noChange ∧ s.published = some t0 ∧ s.text = some t2 ∧ equiv t0 t2 = false) ∧
    (run false (demoEnv true) State.init h).published = some t2 := by decide

/-- non-vacuity: the repaired shortcut still fires (a save without any edit is `NoChange`), and a real edit is `Valid` -/
example : (run false (demoEnv true) State.init [.didOpen [⟨"x", 1⟩], .didSave]).lastKind = some .noChange := by decide
example : (run false (demoEnv true) State.init [.didOpen [⟨"x", 1⟩], .didChange [⟨"x", 1⟩, ⟨"y", 2⟩], .didSave]).lastKind = some .valid := by decide
example : (run false (demoEnv true) State.init [.didOpen [⟨"x", 1⟩], .didChange [⟨"x", 2⟩], .didSave]).published = some [⟨"x", 2⟩] := by decide
example : (run false (demoEnv true) State.init [.didOpen [⟨"x", 1⟩]]).text.isSome := by decide

end ErgVerif.C29
