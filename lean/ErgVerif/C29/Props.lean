import ErgVerif.C29.Proofs
/-!
C29 — property theorems. `Model.lean` transcribes `els/diff.rs` and the notification state machine of
`els/server.rs` + `els/diagnostics.rs`; the analysis, parser, text-edit function and lowerer verdict are parameters.
-/
namespace ErgVerif.C29

/-- `diff` answers `Nop` exactly when the two modules are chunk-wise content-equal (positions are not looked at) -/
theorem C29_diff_nop (old new : Ast) : (diff old new).isNop = true ↔ equiv old new = true :=
  diff_isNop_iff old new

/-- the `unwrap`s of `ASTDiff::diff` cannot fail: the reported index is inside `new` -/
theorem C29_diff_addition_in_range (old new : Ast) (h : old.length < new.length) :
    ∃ c, diff old new = .addition ((firstMismatch new old).getD (new.length - 1)) c := by
  have hidx := addition_idx_lt h
  exact ⟨new[(firstMismatch new old).getD (new.length - 1)], by simp [diff, h, List.getElem?_eq_getElem hidx]⟩

/-- one top-level chunk inserted, deleted or replaced -/
inductive SingleEdit : Ast → Ast → Prop
  | ins (pre suf : Ast) (c : Chunk) : SingleEdit (pre ++ suf) (pre ++ c :: suf)
  | del (pre suf : Ast) (c : Chunk) : SingleEdit (pre ++ c :: suf) (pre ++ suf)
  | mod (pre suf : Ast) (c c' : Chunk) : SingleEdit (pre ++ c :: suf) (pre ++ c' :: suf)

/-- after a single-chunk edit, patching the cached module with the reported difference yields the new module (up to positions) -/
theorem C29_single_edit {old new : Ast} (h : SingleEdit old new) : equiv (update (diff old new) old) new = true := by
  show equiv (patched old new) new = true
  cases h with
  | ins pre suf c => exact patched_prefix pre (patched_insert_front suf c)
  | del pre suf c => exact patched_prefix pre (patched_delete_front suf c)
  | mod pre suf c c' => exact patched_prefix pre (patched_modify_front suf c c')

example : SingleEdit [⟨"x", 1⟩, ⟨"z", 2⟩] [⟨"x", 1⟩, ⟨"y", 2⟩, ⟨"z", 2⟩] := SingleEdit.ins [⟨"x", 1⟩] [⟨"z", 2⟩] ⟨"y", 2⟩

/-- only the first mismatch is reported: with two inserted chunks the patched cache is NOT the new module -/
theorem C29_multi_edit_witness :
    let old : Ast := [⟨"x", 1⟩, ⟨"z", 2⟩]
    let new : Ast := [⟨"x", 1⟩, ⟨"a", 2⟩, ⟨"b", 3⟩, ⟨"z", 4⟩]
    diff old new = .addition 1 ⟨"a", 2⟩ ∧ equiv (update (diff old new) old) new = false := by decide

/-- the `Addition` fallback index: appended chunks report the LAST new chunk, which is then pushed after the old module -/
theorem C29_addition_fallback_witness :
    let old : Ast := [⟨"x", 1⟩]
    let new : Ast := [⟨"x", 1⟩, ⟨"a", 2⟩, ⟨"b", 3⟩]
    diff old new = .addition 2 ⟨"b", 3⟩ ∧ update (diff old new) old = [⟨"x", 1⟩, ⟨"b", 3⟩] := by decide

/-! ### the notification state machine -/

variable {Text Change Diag : Type}

/-- A `didSave` whose `change_kind` is not `NoChange` publishes the analysis of the current text: for every history, every
    starting state with an open document and all parameters. -/
theorem C29_converge (env : Env Text Change Diag) (s0 : State Text Diag) (evs : List (Event Text Change))
    (hopen : (run env s0 evs).text.isSome)
    (hk : (run env s0 (evs ++ [.didSave])).lastKind ≠ some .noChange) :
    Converged env (run env s0 (evs ++ [.didSave])) := by
  simp only [run, List.foldl_append, List.foldl_cons, List.foldl_nil] at *
  generalize List.foldl (step env) s0 evs = s at *
  cases ht : s.text with
  | none => simp [ht] at hopen
  | some t =>
    refine ⟨t, ?_, ?_⟩
    · simp only [step]
      cases hck : changeKind env s <;> simp [ht, checkFile, hck]
    · simp only [step] at hk ⊢
      cases hck : changeKind env s <;> simp_all [checkFile]

/-- in a workspace where `dependencies_of` is empty (single file: the module graph does not sort / does not know the file)
    every history that ends with `didSave` converges -/
theorem C29_converge_no_deps (env : Env Text Change Diag) (hd : env.hasDeps = false) (s0 : State Text Diag)
    (evs : List (Event Text Change)) (hopen : (run env s0 evs).text.isSome) :
    Converged env (run env s0 (evs ++ [.didSave])) := by
  apply C29_converge env s0 evs hopen
  simp only [run, List.foldl_append, List.foldl_cons, List.foldl_nil]
  generalize List.foldl (step env) s0 evs = s
  cases ht : s.text <;> simp [step, changeKind, hd, checkFile, ht]

/-- The cache invariant the `NoChange` shortcut relies on: what is published is the analysis of some text whose registered AST is
    the cached one. -/
def Sync (env : Env Text Change Diag) (s : State Text Diag) : Prop :=
  ∃ tp, s.published = some (env.analyse tp) ∧ s.cache = (env.parse tp).registered

/-- `check_file` establishes the invariant … -/
theorem C29_sync_after_check (env : Env Text Change Diag) (s : State Text Diag) (t : Text) : Sync env (checkFile env s t) :=
  ⟨t, rfl, rfl⟩

/-- … a `didChange` that does not run `quick_check_file`, or whose `quick_check_file` does not patch, keeps it … -/
theorem C29_sync_change_no_patch (env : Env Text Change Diag) (s : State Text Diag) (c : Change) (h : Sync env s)
    (hq : env.trigger c = false ∨ (quickCheck env c s).cache = s.cache) : Sync env (step env s (.didChange c)) := by
  obtain ⟨tp, hp, hc⟩ := h
  have hqp : (quickCheck env c s).published = s.published := by
    unfold quickCheck
    split
    · split
      · dsimp only
        split
        · rfl
        · split <;> rfl
      · rfl
    · rfl
  refine ⟨tp, ?_, ?_⟩
  · simp only [step]; split <;> simp_all
  · simp only [step]
    cases hq with
    | inl h => simp [h, hc]
    | inr h => split <;> simp_all

/-- … and under it a `NoChange` answer is right provided (1) the analysis depends on the text only through its AST WITH positions and
    (2) the cached AST equals the new one including positions. Both extra hypotheses are forced: `C29_witness_stale_positions` breaks
    (2), `C29_witness_stale_content` breaks `Sync` through a patching `quick_check_file`. -/
theorem C29_nochange_partial (env : Env Text Change Diag) (s : State Text Diag) (t : Text) (a : Ast)
    (hsync : Sync env s) (ht : s.text = some t) (hparse : env.parse t = .ok a) (hpos : s.cache = some a)
    (hana : ∀ t1 t2, (env.parse t1).registered = (env.parse t2).registered → env.analyse t1 = env.analyse t2) :
    Converged env (step env s .didSave) := by
  obtain ⟨tp, hp, hc⟩ := hsync
  have heq : env.analyse tp = env.analyse t := by
    apply hana; rw [← hc, hpos, hparse]; rfl
  refine ⟨t, ?_, ?_⟩
  · simp only [step]; split <;> simp_all [checkFile]
  · simp only [step]; split <;> simp_all [checkFile]

/-! #### concrete instance used for the witnesses (and by the driver): a text is its list of chunks, the analysis reports every
chunk with its line (so it is position-sensitive, like real diagnostics) -/

def demoEnv (deps : Bool) : Env Ast Ast Ast :=
  { parse := fun t => .ok t, analyse := fun t => t, apply := fun _ c => c, trigger := fun _ => true,
    lowerOk := fun _ _ _ => true, hasDeps := deps }

/-- The property as stated (every history that ends with a save converges) is FALSE of the code when the document has dependencies:
    a position-only edit (a comment line inserted above) is `NoChange`, the diagnostics keep their old line numbers.
    Replayed on the real server: corpus/C29 `k:C29-nochange-stale-positions`. -/
theorem C29_witness_stale_positions :
    let t0 : Ast := [⟨"b = import \"b\"", 1⟩, ⟨"y: Str = 2", 2⟩]
    let t1 : Ast := [⟨"b = import \"b\"", 2⟩, ⟨"y: Str = 2", 3⟩]
    let s := run (demoEnv true) State.init [.didOpen t0, .didChange t1, .didSave]
    s.lastKind = some .noChange ∧ s.published = some t0 ∧ s.text = some t1 ∧ ¬ Converged (demoEnv true) s := by
  refine ⟨by decide, by decide, by decide, ?_⟩
  intro ⟨t, h1, h2⟩
  revert h1 h2
  simp [run, step, demoEnv, checkFile, changeKind, quickCheck, State.init, ParseRes.registered, ParseRes.forQuick, diff,
    firstMismatch, Chunk.same, Diff.isNop]
  intro h; subst h; decide

/-- `quick_check_file` patches the cached AST without publishing, so a later `NoChange` leaves the diagnostics of a text that no longer
    exists: delete the offending chunk (edit at column 0), then insert a comment line (column 0 again, which runs `quick_check_file` on
    the text after the first edit), then save. Replayed on the real server: corpus/C29 `k:C29-quickcheck-stale-content`. -/
theorem C29_witness_stale_content :
    let t0 : Ast := [⟨"b = import \"b\"", 1⟩, ⟨"y: Str = 2", 2⟩, ⟨"print! b.x", 3⟩]
    let t1 : Ast := [⟨"b = import \"b\"", 1⟩, ⟨"print! b.x", 2⟩]
    let t2 : Ast := [⟨"b = import \"b\"", 2⟩, ⟨"print! b.x", 3⟩]
    let s := run (demoEnv true) State.init [.didOpen t0, .didChange t1, .didChange t2, .didSave]
    s.lastKind = some .noChange ∧ s.published = some t0 ∧ s.text = some t2 ∧ equiv t0 t2 = false := by
  refine ⟨by decide, by decide, by decide, by decide⟩

/-- non-vacuity of `C29_converge` / `C29_nochange_partial`: a history whose save is `Valid`, and one whose `NoChange` is right -/
example : (run (demoEnv true) State.init [.didOpen [⟨"x", 1⟩], .didChange [⟨"x", 1⟩, ⟨"y", 2⟩], .didSave]).lastKind = some .valid := by decide
example : (run (demoEnv true) State.init [.didOpen [⟨"x", 1⟩], .didChange [⟨"x", 1⟩], .didSave]).lastKind = some .noChange := by decide
example : (run (demoEnv false) State.init [.didOpen [⟨"x", 1⟩], .didChange [⟨"x", 2⟩], .didSave]).published = some [⟨"x", 2⟩] := by decide

end ErgVerif.C29
