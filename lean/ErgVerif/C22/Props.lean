import ErgVerif.C22.Proofs
/-!
# C22 — Functions cannot perform side effects

Property theorems only. Model: `ErgVerif/C22/Model.lean` — `checkModule fixed` transcribes `SideEffectChecker::check` of
`effectcheck.rs` after the two `fix:` commits, `checkModule legacy` the pinned commit. Specification: `specModule` — every
sub-expression of the program is visited with ONE bit of context (`inFunc`: set to `true` by a function / function lambda /
constant definition, to `false` by a procedure / procedure lambda, unchanged by instant blocks), and a diagnostic is demanded
at every call of a procedure or procedural method, every `is!`/`isnot!`, and every access of a mutable object that is not a
parameter, not reached through a `ref`, and not defined in the current namespace, whose bit is set.
Hypothesis `plainL p`: the program contains no `ReDef`/`Code`/`Compound`/`Dummy` node with children (the checker does not look
inside them) and none of the checker's three panic sites. It is evaluated by the driver on every case.
-/
namespace ErgVerif.C22
open ErgVerif.MiniHir

/-- Full statement: on every plain program the checker's diagnostics are exactly the specification's, for any nesting
    depth of definitions, lambdas, records, calls, containers, default arguments and class bodies. -/
theorem C22_full (p : ExprList) (h : plainL p = true) : checkModule fixed p = specModule p :=
  checkTopAll_eq_spec p [moduleEnt] h

/-- Completeness: every effect site inside a function context is reported. -/
theorem C22_complete (p : ExprList) (h : plainL p = true) (err : Err) (hs : err ∈ specModule p) :
    err ∈ checkModule fixed p := by rw [C22_full p h]; exact hs

/-- Soundness: every reported diagnostic is an effect site inside a function context (so the same body in a procedure
    or at module top level, where the bit is `false`, is accepted). -/
theorem C22_sound (p : ExprList) (h : plainL p = true) (err : Err) (hs : err ∈ checkModule fixed p) :
    err ∈ specModule p := by rw [← C22_full p h]; exact hs

/-- The context decision alone: whatever instant blocks are stacked on top, the nearest non-instant block decides. -/
theorem C22_instants_transparent (n : Nat) (bs : List BK) :
    allowed (List.replicate n BK.instant ++ bs) = allowed bs := by
  induction n with
  | zero => rfl
  | succ n ih => simpa [List.replicate_succ] using ih

/-- Under a function no stack of instant blocks re-enables effects; under a procedure or the module none disables them. -/
theorem C22_context (n : Nat) (bs : List BK) :
    allowed (List.replicate n BK.instant ++ BK.func :: bs) = false ∧
    allowed (List.replicate n BK.instant ++ BK.proc :: bs) = true ∧
    allowed (List.replicate n BK.instant ++ [BK.module]) = true := by
  simp [C22_instants_transparent]

/-- What was true of the pinned commit: its two-entry test agrees with the nearest-non-instant rule on every stack in
    which no instant block sits directly inside an instant block. -/
theorem C22_legacy_partial (st : List BK) (hwf : StackWF st) (hni : NoInstInst st) : legacyAllowed st = allowed st :=
  legacyAllowed_eq st hwf hni

/-! ## witnesses of the repaired defects (legacy walker vs specification vs current walker) -/

private def L (l c : Nat) : Loc := ⟨l, c⟩
private def varDef (l c : Nat) (n : String) (body : List Expr) : Expr :=
  .defn (L l c) ⟨n.toList, false, false, false, false, false, false, false, none⟩ .nil (.ofList body)
private def funDef (l c : Nat) (n : String) (body : List Expr) : Expr :=
  .defn (L l c) ⟨n.toList, false, true, false, false, false, false, false, none⟩
    (.cons (.mk ⟨.nd, L l (c + 2), some ['x'], true, false, false⟩ .nil) .nil) (.ofList body)
private def localVar (l c : Nat) (n : String) : Expr := .ident (L l c) n.toList ⟨false, false, false, "<module>::f".toList⟩
private def printCall (l c : Nat) : Expr :=
  .call (L l c) ⟨none, true, false, false, true, false, .notSubr⟩
    (.ident (L l c) "print!".toList ⟨false, false, false, "<builtins>".toList⟩)
    (.cons (.ident (L l (c + 7)) ['x'] ⟨true, false, false, "<module>::f".toList⟩) .nil) .nil .nil .nil
private def pureCall (l c : Nat) (pos var kwvar : List Expr) : Expr :=
  .call (L l c) ⟨none, false, false, false, true, false, .notSubr⟩
    (.ident (L l c) ['g'] ⟨false, false, false, "<module>".toList⟩) (.ofList pos) (.ofList var) .nil (.ofList kwvar)

/-- `f x =⏎ y =⏎ z =⏎ print! x⏎ 1⏎ z⏎ y` (finding #6) -/
private def wNested : ExprList := .ofList
  [funDef 1 0 "f" [varDef 2 4 "y" [varDef 3 8 "z" [printCall 4 12, .lit (L 5 12)], localVar 6 8 "z"], localVar 7 4 "y"]]

/-- `k x = {a = print! x; b = 2}`: the record pushes `Instant`, its attribute pushes `Instant` again -/
private def wRecord : ExprList := .ofList
  [funDef 1 0 "k" [.record (L 1 6) (.ofList [varDef 1 7 "a" [printCall 1 11], varDef 1 21 "b" [.lit (L 1 25)]])]]

/-- `f x = g(*[print! x])` -/
private def wVarArg : ExprList := .ofList
  [funDef 1 0 "f" [pureCall 1 6 [] [.coll .list (.ofList [printCall 1 10])] []]]

/-- `f x = k(**{"a": print! x})` -/
private def wKwVar : ExprList := .ofList
  [funDef 1 0 "f" [pureCall 1 6 [] [] [.coll .dict (.ofList [.lit (L 1 11), printCall 1 16])]]]

/-- `f x = one!().real` (here with `print!`): the receiver of an attribute access -/
private def wAttrRecv : ExprList := .ofList
  [funDef 1 0 "f" [.attr (L 1 6) (printCall 1 6) "real".toList ⟨false, false, false, "Int".toList⟩]]

/-- `[w -> print!(w)][0]` as a statement of the module: the receiver of a top-level call -/
private def wTopRecv : ExprList := .ofList
  [.call (L 1 0) ⟨some "__getitem__".toList, false, false, false, true, true, .notSubr⟩
    (.coll .list (.ofList [.lambda (L 1 1) ⟨0, false⟩ (.cons (.mk ⟨.nd, L 1 1, some ['w'], true, false, false⟩ .nil) .nil)
      (.ofList [printCall 1 6])]))
    (.ofList [.lit (L 1 17)]) .nil .nil .nil]

/-- Finding #6 (repaired): two nested instant blocks inside a function hid the effect from the pinned-commit checker. -/
theorem C22_witness_nested_instant :
    checkModule legacy wNested = [] ∧ specModule wNested = [⟨.effect, L 4 12⟩] ∧
    checkModule fixed wNested = [⟨.effect, L 4 12⟩] := by decide

theorem C22_witness_record_in_function :
    checkModule legacy wRecord = [] ∧ specModule wRecord = [⟨.effect, L 1 11⟩] ∧
    checkModule fixed wRecord = [⟨.effect, L 1 11⟩] := by decide

/-- Unvisited sub-expressions (repaired): `*args`, `**kwargs`, attribute receivers, receivers of call statements. -/
theorem C22_witness_unvisited :
    (checkModule legacy wVarArg = [] ∧ checkModule fixed wVarArg = [⟨.effect, L 1 10⟩] ∧ specModule wVarArg = [⟨.effect, L 1 10⟩]) ∧
    (checkModule legacy wKwVar = [] ∧ checkModule fixed wKwVar = [⟨.effect, L 1 16⟩] ∧ specModule wKwVar = [⟨.effect, L 1 16⟩]) ∧
    (checkModule legacy wAttrRecv = [] ∧ checkModule fixed wAttrRecv = [⟨.effect, L 1 6⟩] ∧ specModule wAttrRecv = [⟨.effect, L 1 6⟩]) ∧
    (checkModule legacy wTopRecv = [] ∧ checkModule fixed wTopRecv = [⟨.effect, L 1 6⟩] ∧ specModule wTopRecv = [⟨.effect, L 1 6⟩]) := by
  decide

/-- non-vacuity of `C22_full`: the witnesses are plain programs -/
example : plainL wNested = true ∧ plainL wRecord = true ∧ plainL wVarArg = true ∧ plainL wTopRecv = true := by decide

/-- non-vacuity of `C22_legacy_partial`: function > instant > procedure > instant is a well-formed stack without
    adjacent instant blocks, and the stack of the witness is excluded -/
example : StackWF [.instant, .proc, .instant, .func, .module] ∧ NoInstInst [.instant, .proc, .instant, .func, .module] ∧
    ¬ NoInstInst [.instant, .instant, .func, .module] ∧
    legacyAllowed [.instant, .instant, .func, .module] ≠ allowed [.instant, .instant, .func, .module] := by
  simp [StackWF, NoInstInst, legacyAllowed, allowed]

/-- the body of the first witness under a procedure `p!` -/
private def wProc : ExprList := .ofList
  [.defn (L 1 0) ⟨"p!".toList, false, true, true, false, false, false, false, none⟩ .nil
    (.ofList [varDef 2 4 "y" [varDef 3 8 "z" [printCall 4 12, .lit (L 5 12)], localVar 6 8 "z"], localVar 7 4 "y"])]

/-- the same body under a procedure is accepted by specification and checker alike -/
example : specModule wProc = [] ∧ checkModule fixed wProc = [] := by decide

end ErgVerif.C22
