import ErgVerif.C22.Model
/-!
Helper lemmas for C22: the context bit `!allowed bs` is exactly what the specification propagates, and the walker of
the current code equals the specification walker on every plain program (mutual structural recursion over mini-HIR).
-/
namespace ErgVerif.C22
open ErgVerif.MiniHir

@[simp] theorem allowed_instant (bs : List BK) : allowed (.instant :: bs) = allowed bs := rfl
@[simp] theorem allowed_proc (bs : List BK) : allowed (.proc :: bs) = true := rfl
@[simp] theorem allowed_func (bs : List BK) : allowed (.func :: bs) = false := rfl
@[simp] theorem allowed_constFunc (bs : List BK) : allowed (.constFunc :: bs) = false := rfl
@[simp] theorem allowed_constInstant (bs : List BK) : allowed (.constInstant :: bs) = false := rfl
@[simp] theorem allowed_module (bs : List BK) : allowed (.module :: bs) = true := rfl

/-- pushing the block of a definition updates the context bit as the specification says -/
theorem defKind_bit (di : DefInfo) (k : BK) (bs : List BK) (h : defKind di = some k) :
    (!allowed (k :: bs)) = defBit di (!allowed bs) := by
  unfold defKind at h
  unfold defBit
  cases hp : di.proc <;> cases hs : di.subr <;> cases hc : di.const <;> simp [hp, hs, hc] at h ⊢ <;> subst h <;> simp

theorem defKind_instant (di : DefInfo) (k : BK) (h : defKind di = some k) :
    (decide (k = .instant)) = (!di.subr && !di.const) := by
  unfold defKind at h
  cases hp : di.proc <;> cases hs : di.subr <;> cases hc : di.const <;> simp [hp, hs, hc] at h ⊢ <;> subst h <;> simp

mutual
theorem checkExpr_eq_spec : ∀ (e : Expr) (bs : List BK) (path : List PathEnt), plainE e = true →
    checkExpr fixed e bs path = specExpr e (!allowed bs) path
  | .lit _, _, _, _ => by simp [checkExpr, specExpr]
  | .ident _ _ _, _, _, _ => by simp [checkExpr, specExpr, fixed]
  | .attr _ obj _ _, bs, path, h => by
    simp only [plainE] at h
    simp [checkExpr, specExpr, fixed]
    exact checkExpr_eq_spec obj bs path h
  | .bin _ _ l r, bs, path, h => by
    simp only [plainE, Bool.and_eq_true] at h
    have h1 := checkExpr_eq_spec l bs path h.1
    have h2 := checkExpr_eq_spec r bs path h.2
    simp [checkExpr, specExpr, fixed] at h1 h2 ⊢
    rw [h1, h2]
  | .un _ _ e, bs, path, h => by
    simp only [plainE] at h
    simp only [checkExpr, specExpr]
    exact checkExpr_eq_spec e bs path h
  | .call _ _ obj pos var kw kwvar, bs, path, h => by
    simp only [plainE, Bool.and_eq_true] at h
    have h1 := checkExpr_eq_spec obj bs path h.1.1.1.1
    have h2 := checkAll_eq_spec pos bs path h.1.1.1.2
    have h3 := checkAll_eq_spec var bs path h.1.1.2
    have h4 := checkKw_eq_spec kw bs path h.1.2
    have h5 := checkAll_eq_spec kwvar bs path h.2
    simp [checkExpr, specExpr, fixed] at h1 h2 h3 h4 h5 ⊢
    rw [h1, h2, h3, h4, h5]
  | .defn loc di ps body, bs, path, h => by
    simp only [plainE, Bool.and_eq_true] at h
    obtain ⟨⟨hk, hps⟩, hbody⟩ := h
    obtain ⟨k, hk⟩ := Option.isSome_iff_exists.mp hk
    have hb := defKind_bit di k bs hk
    have hi := defKind_instant di k hk
    have h1 := checkParams_eq_spec ps (k :: bs)
    have h2 := checkAll_eq_spec body (k :: bs)
    simp only [checkExpr, specExpr, hk]
    rw [h1 _ hps, h2 _ hbody, hb]
    congr 1
    cases hs : di.subr <;> cases hc : di.const <;> simp [hs, hc] at hi ⊢ <;> simp [hi]
  | .lambda _ li ps body, bs, path, h => by
    simp only [plainE, Bool.and_eq_true] at h
    have h1 := checkParams_eq_spec ps
    have h2 := checkAll_eq_spec body
    simp only [checkExpr, specExpr]
    rw [h1 _ _ h.1, h2 _ _ h.2]
    cases li.proc <;> simp
  | .coll _ es, bs, path, h => by
    simp only [plainE] at h
    simp only [checkExpr, specExpr]
    exact checkAll_eq_spec es bs path h
  | .record _ attrs, bs, path, h => by
    simp only [plainE] at h
    simp only [checkExpr, specExpr]
    rw [checkAll_eq_spec attrs _ _ h]; simp
  | .tasc e, bs, path, h => by
    simp only [plainE] at h
    simp only [checkExpr, specExpr]
    exact checkExpr_eq_spec e bs path h
  | .classDef _ _ _ rs ms, bs, path, h => by
    simp only [plainE, Bool.and_eq_true] at h
    simp only [checkExpr, specExpr]
    rw [checkAll_eq_spec rs bs path h.1, checkAll_eq_spec ms bs path h.2]
  | .patchDef _ base ms, bs, path, h => by
    simp only [plainE, Bool.and_eq_true] at h
    simp only [checkExpr, specExpr]
    rw [checkExpr_eq_spec base bs path h.1, checkAll_eq_spec ms bs path h.2]
  | .redef _ _ _, _, _, h => by simp [plainE] at h
  | .blk _ es, _, _, h => by
    cases es with
    | nil => simp [checkExpr, specExpr, specAll]
    | cons _ _ => simp [plainE] at h
  | .import, _, _, _ => by simp [checkExpr, specExpr]
theorem checkAll_eq_spec : ∀ (es : ExprList) (bs : List BK) (path : List PathEnt), plainL es = true →
    checkAll fixed es bs path = specAll es (!allowed bs) path
  | .nil, _, _, _ => by simp [checkAll, specAll]
  | .cons e es, bs, path, h => by
    simp only [plainL, Bool.and_eq_true] at h
    simp only [checkAll, specAll]
    rw [checkExpr_eq_spec e bs path h.1, checkAll_eq_spec es bs path h.2]
theorem checkKw_eq_spec : ∀ (kw : KwList) (bs : List BK) (path : List PathEnt), plainK kw = true →
    checkKw fixed kw bs path = specKw kw (!allowed bs) path
  | .nil, _, _, _ => by simp [checkKw, specKw]
  | .cons _ e rest, bs, path, h => by
    simp only [plainK, Bool.and_eq_true] at h
    simp only [checkKw, specKw]
    rw [checkExpr_eq_spec e bs path h.1, checkKw_eq_spec rest bs path h.2]
theorem checkParams_eq_spec : ∀ (ps : ParamList) (bs : List BK) (path : List PathEnt), plainP ps = true →
    checkParams fixed ps bs path = specParams ps (!allowed bs) path
  | .nil, _, _, _ => by simp [checkParams, specParams]
  | .cons (.mk pi d) ps, bs, path, h => by
    simp only [plainP, Bool.and_eq_true] at h
    simp only [checkParams, specParams]
    rw [checkAll_eq_spec d bs path h.1.2, checkParams_eq_spec ps bs path h.2]
end

theorem checkTop_eq_spec (e : Expr) (path : List PathEnt) (h : plainE e = true) :
    checkTop fixed e [.module] path = specTop e path := by
  unfold checkTop specTop
  simp only [fixed, if_true]
  cases e with
  | classDef _ _ _ rs ms =>
    simp only [plainE, Bool.and_eq_true] at h
    have h1 := checkAll_eq_spec rs [.module] path h.1
    have h2 := checkAll_eq_spec ms [.module]
    simp only [fixed] at h1 h2
    simp [h1, h2 _ h.2]
  | _ =>
    first
      | (have h1 := checkExpr_eq_spec _ [.module] path h; simp only [fixed] at h1; simpa using h1)

theorem checkTopAll_eq_spec : ∀ (es : ExprList) (path : List PathEnt), plainL es = true →
    checkTopAll fixed es [.module] path = specTopAll es path
  | .nil, _, _ => by simp [checkTopAll, specTopAll]
  | .cons e es, path, h => by
    simp only [plainL, Bool.and_eq_true] at h
    simp only [checkTopAll, specTopAll]
    rw [checkTop_eq_spec e path h.1, checkTopAll_eq_spec es path h.2]

/-! ## the pinned-commit predicate agrees with the repaired one unless an instant block sits directly in an instant block -/

def NoInstInst : List BK → Prop
  | .instant :: .instant :: _ => False
  | _ :: rest => NoInstInst rest
  | [] => True

/-- stacks the walker can build: the module entry at the bottom and nowhere else -/
def StackWF : List BK → Prop
  | [.module] => True
  | b :: rest => b ≠ .module ∧ rest ≠ [] ∧ StackWF rest
  | [] => False

theorem legacyAllowed_eq (st : List BK) (hwf : StackWF st) (hni : NoInstInst st) : legacyAllowed st = allowed st := by
  match st, hwf, hni with
  | [b], hwf, _ => cases b <;> simp_all [StackWF, legacyAllowed, allowed]
  | top :: second :: rest, hwf, hni =>
    cases top <;> cases second <;> simp_all [StackWF, NoInstInst, legacyAllowed, allowed]
    all_goals (cases rest <;> simp_all [StackWF, allowed])

end ErgVerif.C22
