import ErgVerif.Shared.MiniHir
/-!
# C22 model — transcription of `crates/erg_compiler/effectcheck.rs`

Transcribed (file `effectcheck.rs`): `SideEffectChecker::check` (module loop), `check_def`, `check_params`, `check_expr`,
`in_context_effects_allowed`, `full_path`. Not transcribed: `constructor_destructor_check` (needs the `Context`; the harness
declines programs on which it fires).

`block_stack` / `path_stack` are passed *down* the walk instead of being threaded as state: every push in the Rust code is
matched by a pop on the same path through the function (there is no early return between them), so the stacks seen at a
node are a function of the nodes above it. Panic sites are explicit: `Err.crash`.

The walker is parameterised by a `Variant`, so that the code before the `fix:` commits (`legacy`) is kept next to the
current code (`fixed`) and the witnesses of the repaired defects stay machine-checked:
* `allowed`      — `in_context_effects_allowed`: `legacyAllowed` looked at the top two stack entries only;
* `visitUnpacked`— `*args` / `**kwargs` arguments of a call were not visited;
* `visitAttrObj` — the receiver of an attribute access was not visited;
* `topDelegates` — the module loop had its own copies of the arms, without the callee/receiver of a call statement,
                   the receiver of an attribute, and the parameters of a lambda statement.
-/
namespace ErgVerif.C22
open ErgVerif.MiniHir

inductive BK where
  | func | constFunc | constInstant | proc | instant | module
  deriving DecidableEq, Repr

inductive EK where
  | effect | procAssign | touchMut | crash
  deriving DecidableEq, Repr

structure Err where
  kind : EK
  loc : Loc
  deriving DecidableEq, Repr

structure PathEnt where
  pub : Bool
  ns : Name
  deriving DecidableEq, Repr

def trimStart : List Char → List Char
  | [] => []
  | c :: cs => if c = '.' || c = ':' then trimStart cs else c :: cs

/-- `full_path` (the stack is kept innermost-first) -/
def fullPath (path : List PathEnt) : Name :=
  trimStart ((path.reverse.map (fun p => (if p.pub then ['.'] else [':', ':']) ++ p.ns)).flatten)

/-- `in_context_effects_allowed` at the pinned commit: the top two entries decide (stack innermost-first) -/
def legacyAllowed : List BK → Bool
  | [] => true          -- unreachable: the module entry is always there
  | [_] => true
  | top :: second :: _ =>
    match second, top with
    | _, .func | _, .constInstant => false
    | _, .proc => true
    | .proc, .instant | .module, .instant | .instant, .instant => true
    | _, _ => false

/-- `in_context_effects_allowed` after `fix:` — the nearest enclosing block that is not an instant block decides -/
def allowed : List BK → Bool
  | [] => true
  | .instant :: rest => allowed rest
  | .proc :: _ => true
  | .module :: _ => true
  | .func :: _ => false
  | .constFunc :: _ => false
  | .constInstant :: _ => false

structure Variant where
  allowed : List BK → Bool
  visitUnpacked : Bool
  visitAttrObj : Bool
  topDelegates : Bool

def fixed : Variant := ⟨allowed, true, true, true⟩
def legacy : Variant := ⟨legacyAllowed, false, false, false⟩

/-- the block kind `check_def` pushes; `none` = `panic!("user-defined constant procedures are not allowed")` -/
def defKind (di : DefInfo) : Option BK :=
  match di.proc, di.subr, di.const with
  | true, true, true => none
  | true, true, false => some .proc
  | _, false, false => some .instant
  | false, true, true => some .constFunc
  | false, true, false => some .func
  | _, false, true => some .constInstant

def isOp (op : Name) : Bool := op = "IsOp".toList || op = "IsNotOp".toList

/-- the four conjuncts of the mutable-access clause (besides the context) -/
def touchSite (ai : AccInfo) (path : List PathEnt) : Bool :=
  !ai.isParam && ai.mutTy && !ai.rootRef && ai.defNs != fullPath path

def lambdaEnt (proc : Bool) : PathEnt := ⟨false, (if proc then "<lambda!>" else "<lambda>").toList⟩
def recordEnt : PathEnt := ⟨false, "<record>".toList⟩

/-- `check_params`, one parameter: the `proc_assign_error` test (`inspect().unwrap()` panics on a nameless pattern) -/
def paramErr (pi : ParamInfo) : List Err :=
  if pi.tyProc then
    match pi.name with
    | none => [⟨.crash, pi.loc⟩]
    | some _ => if !pi.bang then [⟨.procAssign, pi.loc⟩] else []
  else []

mutual
/-- `check_expr` -/
def checkExpr (v : Variant) : Expr → List BK → List PathEnt → List Err
  | .lit _, _, _ => []
  | .ident loc _ ai, bs, path =>
    if !v.allowed bs && touchSite ai path then [⟨.touchMut, loc⟩] else []
  | .attr loc obj _ ai, bs, path =>
    (if v.visitAttrObj then checkExpr v obj bs path else []) ++
    (if !v.allowed bs && touchSite ai path then [⟨.touchMut, loc⟩] else [])
  | .bin loc op l r, bs, path =>
    checkExpr v l bs path ++ checkExpr v r bs path ++
    (if isOp op && !v.allowed bs then [⟨.effect, loc⟩] else [])
  | .un _ _ e, bs, path => checkExpr v e bs path
  | .call loc ci obj pos var kw kwvar, bs, path =>
    checkExpr v obj bs path ++
    (if (ci.objProc || ci.attrProc) && !v.allowed bs then [⟨.effect, loc⟩] else []) ++
    checkAll v pos bs path ++
    (if v.visitUnpacked then checkAll v var bs path else []) ++
    checkKw v kw bs path ++
    (if v.visitUnpacked then checkAll v kwvar bs path else [])
  | .defn loc di ps body, bs, path =>
    -- `check_def`
    let path' := if di.subr then ⟨di.pub, di.name⟩ :: path else path
    match defKind di with
    | none => [⟨.crash, loc⟩]
    | some k =>
      (if di.subr then checkParams v ps (k :: bs) path' else []) ++
      checkAll v body (k :: bs) path' ++
      (if k = .instant && !di.proc && di.lastProc then [⟨.procAssign, loc⟩] else [])
  | .lambda _ li ps body, bs, path =>
    let k := if li.proc then BK.proc else BK.func
    checkParams v ps (k :: bs) (lambdaEnt li.proc :: path) ++ checkAll v body (k :: bs) (lambdaEnt li.proc :: path)
  | .coll _ es, bs, path => checkAll v es bs path
  | .record _ attrs, bs, path => checkAll v attrs (.instant :: bs) (recordEnt :: path)
  | .tasc e, bs, path => checkExpr v e bs path
  | .classDef _ _ _ rs ms, bs, path => checkAll v rs bs path ++ checkAll v ms bs path
  | .patchDef _ base ms, bs, path => checkExpr v base bs path ++ checkAll v ms bs path
  | .redef _ _ _, _, _ => []
  | .blk _ _, _, _ => []
  | .import, _, _ => []
def checkAll (v : Variant) : ExprList → List BK → List PathEnt → List Err
  | .nil, _, _ => []
  | .cons e es, bs, path => checkExpr v e bs path ++ checkAll v es bs path
def checkKw (v : Variant) : KwList → List BK → List PathEnt → List Err
  | .nil, _, _ => []
  | .cons _ e rest, bs, path => checkExpr v e bs path ++ checkKw v rest bs path
/-- `check_params`: non-defaults, `*args`, defaults (each followed by its default value); `**kwargs` is not looked at -/
def checkParams (v : Variant) : ParamList → List BK → List PathEnt → List Err
  | .nil, _, _ => []
  | .cons (.mk pi d) ps, bs, path =>
    (match pi.kind with
     | .nd | .var => paramErr pi
     | .d => paramErr pi ++ checkAll v d bs path
     | .kwvar => []) ++ checkParams v ps bs path
end

/-- the module loop of `SideEffectChecker::check` at the pinned commit (its own copy of the arms) -/
def checkTopLegacy (v : Variant) (e : Expr) (bs : List BK) (path : List PathEnt) : List Err :=
  match e with
  | .defn .. => checkExpr v e bs path
  | .classDef _ name pub rs ms => checkAll v rs bs path ++ checkAll v ms bs (⟨pub, name⟩ :: path)
  | .patchDef _ base ms => checkExpr v base bs path ++ checkAll v ms bs path
  | .call _ _ _ pos _ kw _ => checkAll v pos bs path ++ checkKw v kw bs path
  | .bin _ _ l r => checkExpr v l bs path ++ checkExpr v r bs path
  | .un _ _ x => checkExpr v x bs path
  | .ident .. | .attr .. | .lit _ => []
  | .coll _ es => checkAll v es bs path
  | .record _ attrs => checkAll v attrs (.instant :: bs) (recordEnt :: path)
  | .tasc x => checkExpr v x bs path
  | .lambda _ li _ body =>
    checkAll v body ((if li.proc then BK.proc else BK.func) :: bs) (lambdaEnt li.proc :: path)
  | .redef .. | .blk .. | .import => []

/-- the module loop after `fix:` — only `ClassDef` differs from `check_expr` (it pushes the class name on the path) -/
def checkTop (v : Variant) (e : Expr) (bs : List BK) (path : List PathEnt) : List Err :=
  if v.topDelegates then
    match e with
    | .classDef _ name pub rs ms => checkAll v rs bs path ++ checkAll v ms bs (⟨pub, name⟩ :: path)
    | e => checkExpr v e bs path
  else checkTopLegacy v e bs path

def checkTopAll (v : Variant) : ExprList → List BK → List PathEnt → List Err
  | .nil, _, _ => []
  | .cons e es, bs, path => checkTop v e bs path ++ checkTopAll v es bs path

def moduleEnt : PathEnt := ⟨false, "<module>".toList⟩

/-- `SideEffectChecker::check(hir, "<module>")` -/
def checkModule (v : Variant) (p : ExprList) : List Err := checkTopAll v p [.module] [moduleEnt]

/-! ## Specification: one bit of context

`inFunc` is set by the nearest enclosing subroutine (or constant definition) and left unchanged by instant blocks
(variable definitions, record bodies); every sub-expression is visited, including the ones inside opaque nodes. -/

/-- the context bit inside a definition -/
def defBit (di : DefInfo) (inFunc : Bool) : Bool :=
  if di.subr then !di.proc else if di.const then true else inFunc

mutual
def specExpr : Expr → Bool → List PathEnt → List Err
  | .lit _, _, _ => []
  | .ident loc _ ai, inF, path => if inF && touchSite ai path then [⟨.touchMut, loc⟩] else []
  | .attr loc obj _ ai, inF, path =>
    specExpr obj inF path ++ (if inF && touchSite ai path then [⟨.touchMut, loc⟩] else [])
  | .bin loc op l r, inF, path =>
    specExpr l inF path ++ specExpr r inF path ++ (if isOp op && inF then [⟨.effect, loc⟩] else [])
  | .un _ _ e, inF, path => specExpr e inF path
  | .call loc ci obj pos var kw kwvar, inF, path =>
    specExpr obj inF path ++
    (if (ci.objProc || ci.attrProc) && inF then [⟨.effect, loc⟩] else []) ++
    specAll pos inF path ++ specAll var inF path ++ specKw kw inF path ++ specAll kwvar inF path
  | .defn loc di ps body, inF, path =>
    let path' := if di.subr then ⟨di.pub, di.name⟩ :: path else path
    (if di.subr then specParams ps (defBit di inF) path' else []) ++
    specAll body (defBit di inF) path' ++
    (if !di.subr && !di.const && !di.proc && di.lastProc then [⟨.procAssign, loc⟩] else [])
  | .lambda _ li ps body, _, path =>
    specParams ps (!li.proc) (lambdaEnt li.proc :: path) ++ specAll body (!li.proc) (lambdaEnt li.proc :: path)
  | .coll _ es, inF, path => specAll es inF path
  | .record _ attrs, inF, path => specAll attrs inF (recordEnt :: path)
  | .tasc e, inF, path => specExpr e inF path
  | .classDef _ _ _ rs ms, inF, path => specAll rs inF path ++ specAll ms inF path
  | .patchDef _ base ms, inF, path => specExpr base inF path ++ specAll ms inF path
  | .redef _ a b, inF, path => specExpr a inF path ++ specAll b inF path
  | .blk _ es, inF, path => specAll es inF path
  | .import, _, _ => []
def specAll : ExprList → Bool → List PathEnt → List Err
  | .nil, _, _ => []
  | .cons e es, inF, path => specExpr e inF path ++ specAll es inF path
def specKw : KwList → Bool → List PathEnt → List Err
  | .nil, _, _ => []
  | .cons _ e rest, inF, path => specExpr e inF path ++ specKw rest inF path
def specParams : ParamList → Bool → List PathEnt → List Err
  | .nil, _, _ => []
  | .cons (.mk pi d) ps, inF, path =>
    (match pi.kind with
     | .nd | .var => paramErr pi
     | .d => paramErr pi ++ specAll d inF path
     | .kwvar => []) ++ specParams ps inF path
end

def specTop (e : Expr) (path : List PathEnt) : List Err :=
  match e with
  | .classDef _ name pub rs ms => specAll rs false path ++ specAll ms false (⟨pub, name⟩ :: path)
  | e => specExpr e false path

def specTopAll : ExprList → List PathEnt → List Err
  | .nil, _ => []
  | .cons e es, path => specTop e path ++ specTopAll es path

/-- what the property demands of a module: the diagnostics of every effect site whose context bit is set -/
def specModule (p : ExprList) : List Err := specTopAll p [moduleEnt]

/-! ## fragment predicates (hypotheses of the theorems, decidable: evaluated by the driver on every case) -/

mutual
/-- no opaque node (`ReDef | Code | Compound | Dummy`, which the checker skips without looking inside) has children,
    and no definition is a user-defined constant procedure / no procedure-typed nameless parameter (the panic sites) -/
def plainE : Expr → Bool
  | .lit _ | .ident .. | .import => true
  | .attr _ obj _ _ => plainE obj
  | .bin _ _ l r => plainE l && plainE r
  | .un _ _ e => plainE e
  | .call _ _ obj pos var kw kwvar => plainE obj && plainL pos && plainL var && plainK kw && plainL kwvar
  | .defn _ di ps body => (defKind di).isSome && plainP ps && plainL body
  | .lambda _ _ ps body => plainP ps && plainL body
  | .coll _ es => plainL es
  | .record _ attrs => plainL attrs
  | .tasc e => plainE e
  | .classDef _ _ _ rs ms => plainL rs && plainL ms
  | .patchDef _ base ms => plainE base && plainL ms
  | .redef _ _ _ => false
  | .blk _ es => match es with | .nil => true | .cons _ _ => false
def plainL : ExprList → Bool
  | .nil => true
  | .cons e es => plainE e && plainL es
def plainK : KwList → Bool
  | .nil => true
  | .cons _ e rest => plainE e && plainK rest
def plainP : ParamList → Bool
  | .nil => true
  | .cons (.mk pi d) ps => !(pi.tyProc && pi.name.isNone) && plainL d && plainP ps
end

end ErgVerif.C22
