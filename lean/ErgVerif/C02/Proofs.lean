import ErgVerif.C02.Model
import ErgVerif.C26.Proofs
/-!
C02 — row soundness: a static (class-level) check of an operator row `(op, A, B) ↦ C` against the runtime-class model, and
its soundness for ALL operand values.
-/
namespace ErgVerif.C02
open ErgVerif.C26

/-- a guard that cannot produce a type-related error: sign tests provable by the sign analysis; a zero test may fire
    (ZeroDivisionError is legitimate); the exponent of `**` is provably non-negative (no float result) -/
def guardOK2 (d : Dom) : Guard → Bool
  | .nonneg e => nonnegExp d e
  | .nonzero _ => true
  | .expNonneg e => nonnegExp d e

/-- the row check: every guard is harmless and the result expression lies in ⟦C⟧ by the sign analysis -/
def rowOK (op : Op) (A B C : Ty) : Bool :=
  (fun p => p.guards.all (guardOK2 (domOf A.shape B.shape)) &&
    (match p.res with
     | .val v => inDomOK (domOf A.shape B.shape) C.ecls v.e
     | _ => false)) (plan Spec.table op A.shape B.shape)

theorem wrapCheck_of_dom (C : Ty) (v : Int) (h : C.dom v = true) : wrapCheck C v = true := by
  cases C <;> simp [Ty.dom, Ty.ecls, inDom] at h <;> simp [wrapCheck] <;> omega

theorem runGuards_row (d : Dom) (C : Ty) (a b : Int)
    (ha : d.aNonneg = true → 0 ≤ a) (hb : d.bNonneg = true → 0 ≤ b) (r : ARes)
    (hr : (match r with | .val v => inDomOK d C.ecls v.e | _ => false) = true) :
    ∀ gs : List Guard, gs.all (guardOK2 d) = true →
      (∃ v, wrap C (runGuards a b gs r) = .ok C v ∧ C.dom v = true) ∨ (∃ w, wrap C (runGuards a b gs r) = .legit w)
  | [], _ => by
    cases r with
    | val w =>
      simp only at hr
      have hd := inDomOK_sound d a b ha hb _ _ hr
      left
      refine ⟨w.e.eval a b, ?_, hd⟩
      simp [runGuards, finish, wrap, wrapCheck_of_dom C _ hd]
    | notImpl => simp at hr
    | typeErr => simp at hr
    | oom _ => simp at hr
  | g :: gs, h => by
    simp only [List.all_cons, Bool.and_eq_true] at h
    have ih := runGuards_row d C a b ha hb r hr gs h.2
    cases g with
    | nonneg e =>
      have := nonnegExp_sound d a b ha hb e (by simpa [guardOK2] using h.1)
      simp only [runGuards]
      rw [if_neg (by omega)]
      exact ih
    | nonzero e =>
      simp only [runGuards]
      by_cases hz : e.eval a b = 0
      · rw [if_pos hz]; right; exact ⟨_, rfl⟩
      · rw [if_neg hz]; exact ih
    | expNonneg e =>
      have := nonnegExp_sound d a b ha hb e (by simpa [guardOK2] using h.1)
      simp only [runGuards]
      rw [if_neg (by omega)]
      exact ih

theorem ty_nonneg (A : Ty) (a : Int) (h : A.dom a = true) (hs : shapeNonneg A.shape = true) : 0 ≤ a := by
  cases A <;> simp [Ty.dom, Ty.ecls, inDom] at h <;> simp [shapeNonneg, Ty.shape] at hs <;> omega

/-- **row soundness**: if the static check accepts the row, then for all operand values of the operand types the wrapped
    runtime result is a value of the result type, or a legitimate error — never a type-related one -/
theorem row_sound (op : Op) (A B C : Ty) (h : rowOK op A B C = true) (a b : Int) (ha : A.dom a = true) (hb : B.dom b = true) :
    (∃ v, wrap C (binop Spec.table op ⟨A.shape, a⟩ ⟨B.shape, b⟩) = .ok C v ∧ C.dom v = true)
      ∨ (∃ w, wrap C (binop Spec.table op ⟨A.shape, a⟩ ⟨B.shape, b⟩) = .legit w) := by
  simp only [rowOK, Bool.and_eq_true] at h
  exact runGuards_row (domOf A.shape B.shape) C a b (fun hs => ty_nonneg A a ha hs) (fun hs => ty_nonneg B b hb hs) _ h.2 _ h.1

end ErgVerif.C02
