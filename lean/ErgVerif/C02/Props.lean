import ErgVerif.C02.Proofs
import ErgVerif.Gen.C02Sig
/-!
C02 — type soundness of the specification-level type system of the fragment (Nat/Int/Bool literals, variables, binary
operators) against the runtime-class model of C26 plus the use-site wrap of the code generator.
What is proved: for EVERY expression of the fragment, every environment and all integer values, a typable expression never
evaluates to a type-related error (TypeError, wrapper ValueError) and its value lies in the value set of its type.
What is not: the real checker's inference is not transcribed; it is tied by `gen_sig_subset` (its operator signatures on
the fragment, regenerated on every run, are rows of `Spec.sig` or recorded unsound rows) and by verdict correspondence
(checks/c02.py runs accepted programs).
-/
namespace ErgVerif.C02
open ErgVerif.C26

/-- every row of the hand-written signature table passes the static row check (108 operator/type combinations) -/
theorem spec_rows_checked :
    (Op.all.all fun op => Ty.all.all fun a => Ty.all.all fun b =>
      match Spec.sig op a b with
      | some c => rowOK op a b c
      | none => true) = true := by
  decide +kernel

theorem spec_row_ok (op : Op) (a b c : Ty) (h : Spec.sig op a b = some c) : rowOK op a b c = true := by
  have h0 := spec_rows_checked
  simp only [List.all_eq_true] at h0
  have := h0 op (by cases op <;> simp [Op.all]) a (by cases a <;> simp [Ty.all]) b (by cases b <;> simp [Ty.all])
  simpa [h] using this

/-- **one lemma per operator row**: every row of `Spec.sig` is sound for all operand values -/
theorem C02_row_sound (op : Op) (A B C : Ty) (h : Spec.sig op A B = some C) (a b : Int)
    (ha : A.dom a = true) (hb : B.dom b = true) :
    (∃ v, wrap C (binop Spec.table op ⟨A.shape, a⟩ ⟨B.shape, b⟩) = .ok C v ∧ C.dom v = true)
      ∨ (∃ w, wrap C (binop Spec.table op ⟨A.shape, a⟩ ⟨B.shape, b⟩) = .legit w) :=
  row_sound op A B C (spec_row_ok op A B C h) a b ha hb

/-- environments: the values agree with the declared types of the variables -/
def EnvOK (Γ : List Ty) (ρ : List (Ty × Int)) : Prop :=
  ρ.map Prod.fst = Γ ∧ ∀ p ∈ ρ, p.1.dom p.2 = true

/-- **Type soundness of the fragment.** A typable expression evaluates to a value of its type or to a legitimate error
    (ZeroDivisionError); never to TypeError / wrapper ValueError, never stuck. -/
theorem C02_sound (Γ : List Ty) (ρ : List (Ty × Int)) (henv : EnvOK Γ ρ) :
    ∀ (e : Expr) (T : Ty), typeOf Spec.sig Γ e = some T →
      (∃ v, eval Spec.sig ρ e = .ok T v ∧ T.dom v = true) ∨ (∃ w, eval Spec.sig ρ e = .legit w)
  | .lit t v, T, h => by
    simp only [typeOf] at h
    split at h
    · rename_i hd
      cases h
      left; exact ⟨v, by simp [eval, hd], hd⟩
    · cases h
  | .var i, T, h => by
    simp only [typeOf] at h
    obtain ⟨hm, hd⟩ := henv
    have hlen : i < Γ.length := by
      rcases Nat.lt_or_ge i Γ.length with h1 | h1
      · exact h1
      · rw [List.getElem?_eq_none h1] at h; cases h
    have hlen' : i < ρ.length := by rw [← hm] at hlen; simpa using hlen
    have hT : (ρ[i]'hlen').1 = T := by
      have : Γ[i]? = some ((ρ[i]'hlen').1) := by
        rw [← hm]; simp [List.getElem?_map, List.getElem?_eq_getElem hlen']
      rw [this] at h; cases h; rfl
    left
    refine ⟨(ρ[i]'hlen').2, ?_, ?_⟩
    · simp [eval, List.getElem?_eq_getElem hlen', ← hT]
    · rw [← hT]; exact hd _ (List.getElem_mem hlen')
  | .bin op l r, T, h => by
    simp only [typeOf] at h
    split at h
    · rename_i a b hl hr
      rcases C02_sound Γ ρ henv l a hl with ⟨va, hva, hda⟩ | ⟨w, hw⟩
      · rcases C02_sound Γ ρ henv r b hr with ⟨vb, hvb, hdb⟩ | ⟨w, hw⟩
        · simp only [eval, hva, hvb, h]
          exact C02_row_sound op a b T h va vb hda hdb
        · right; exact ⟨w, by simp [eval, hva, hw]⟩
      · right; exact ⟨w, by simp [eval, hw]⟩
    · cases h

/-- corollary in the property's words: no type-related run-time error -/
theorem C02_no_type_error (Γ : List Ty) (ρ : List (Ty × Int)) (henv : EnvOK Γ ρ) (e : Expr) (T : Ty)
    (h : typeOf Spec.sig Γ e = some T) : ∀ w, eval Spec.sig ρ e ≠ .typeErr w := by
  intro w hw
  rcases C02_sound Γ ρ henv e T h with ⟨v, hv, _⟩ | ⟨w', hw'⟩
  · rw [hv] at hw; cases hw
  · rw [hw'] at hw; cases hw

/-! ## regenerated obligation (T-gen) -/

/-- every operator signature the REAL checker assigns on the fragment types is a row of `Spec.sig` (so the theorem covers
    it) or one of the recorded unsound rows (`Int ** Int : Nat`, ...). A signature the checker starts accepting that the
    specification does not know breaks exactly this obligation. -/
theorem gen_sig_subset :
    (Gen.C02.binopSig.all fun r => Spec.sig r.1 r.2.1 r.2.2.1 == some r.2.2.2 || knownBadRow r) = true := by
  decide

/-- the full statement (no exception) is false today: the recorded rows are in the generated table -/
theorem gen_sig_has_bad_row : (Gen.C02.binopSig.any knownBadRow) = true := by decide

/-! ### non-vacuity and witnesses -/

/-- `(a + b) * c` with `a: Nat = 5, b: Int = -7, c: Bool = True` is typable (Int) and evaluates to Int(-2) -/
example : typeOf Spec.sig [.Nat, .Int, .Bool] (.bin .mul (.bin .add (.var 0) (.var 1)) (.var 2)) = some .Int
    ∧ eval Spec.sig [(.Nat, 5), (.Int, -7), (.Bool, 1)] (.bin .mul (.bin .add (.var 0) (.var 1)) (.var 2)) = .ok .Int (-2) := by
  decide

example : EnvOK [.Nat, .Int, .Bool] [(.Nat, 5), (.Int, -7), (.Bool, 1)] := by
  refine ⟨rfl, ?_⟩
  intro p hp
  simp at hp
  rcases hp with rfl | rfl | rfl <;> decide

/-- a legitimate error is reachable: `5 // 0` -/
example : eval Spec.sig [] (.bin .floordiv (.lit .Nat 5) (.lit .Nat 0)) = .legit "ZeroDivisionError" := by decide

/-- **witness of the unsound checker row** (finding C02-int-pow-declared-nat): with the signatures the real checker uses,
    `a ** b` for `a: Int = -2, b: Int = 3` is typable (Nat) and evaluates to the wrapper ValueError (`Nat(-8)`) -/
theorem C02_witness_pow :
    typeOf (sigOfRows Gen.C02.binopSig) [.Int, .Int] (.bin .pow (.var 0) (.var 1)) = some .Nat
    ∧ eval (sigOfRows Gen.C02.binopSig) [(.Int, -2), (.Int, 3)] (.bin .pow (.var 0) (.var 1)) = .typeErr "ValueError" := by
  decide

/-- the proof attempt that finds it: the row fails the static row check -/
theorem C02_pow_row_rejected : rowOK .pow .Int .Int .Nat = false := by decide +kernel

/-- finding #14 before its repair: with `Nat.__add__` re-wrapping in Nat the row `(+, Nat, Int) ↦ Int` was not provable:
    `Nat(5) + Int(-7)` raised the wrapper ValueError -/
theorem C02_legacy_witness_nat_add :
    wrap .Int (binop C26.Spec.legacyTable .add ⟨Ty.Nat.shape, 5⟩ ⟨Ty.Int.shape, -7⟩) = .typeErr "ValueError" := by
  decide

end ErgVerif.C02
