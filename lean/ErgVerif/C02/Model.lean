import ErgVerif.C26.Spec
/-!
C02 — a specification-level type system and evaluator for a small expression fragment (honest and partial: the checker's
inference engine — lower.rs / inquire.rs / compare.rs — is NOT transcribed).

* Types `Nat Int Bool`; expressions: typed literals, variables, binary operators of C26's `Op`.
* `typeOf sig Γ e`: syntax-directed typing with an operator signature table `sig : Op → Ty → Ty → Option Ty`
  (`Spec.sig` hand-written here; `Gen.C02.binopSig` regenerated from the REAL checker: the return type it assigns to
  `f(x: A, y: B) = x <op> y`, harness `c26 dump`).
* `eval sig ρ e`: what the compiled program does at run time, using the runtime-class model of C26
  (`C26.binop Spec.table`: CPython dispatch over the method tables of `_erg_int.py/_erg_nat.py/_erg_bool.py`) followed by
  the use-site wrap `C(result)` that `PyCodeGenerator::emit_expr` emits for every BinOp whose type derefines to a builtin
  class (codegen.rs `should_wrap`): `Nat(...)`/`Bool(...)` run `Nat.__init__` (ValueError for a negative value).
  Outcomes are classified as in the property: `typeErr` (TypeError, wrapper ValueError) versus `legit` (ZeroDivisionError).
Core Lean only; imported by the driver.
-/
namespace ErgVerif.C02
open ErgVerif.C26

inductive Ty where
  | Nat | Int | Bool
  deriving DecidableEq, Repr, Inhabited

def Ty.name : Ty → String
  | .Nat => "Nat" | .Int => "Int" | .Bool => "Bool"

def Ty.all : List Ty := [.Nat, .Int, .Bool]

def Ty.ecls : Ty → ECls
  | .Nat => .Nat | .Int => .Int | .Bool => .Bool

/-- runtime class of a value of static type `T` at a use site (literals, accessors and operator results are wrapped
    with the class of their static type) -/
def Ty.shape : Ty → Shape
  | .Nat => ⟨.Nat, .Nat⟩ | .Int => ⟨.Int, .Int⟩ | .Bool => ⟨.Bool, .Bool⟩

/-- value set ⟦T⟧ on integers -/
def Ty.dom (t : Ty) (v : _root_.Int) : _root_.Bool := inDom t.ecls v

abbrev Sig := Op → Ty → Ty → Option Ty

inductive Expr where
  | lit (t : Ty) (v : Int)
  | var (i : _root_.Nat)
  | bin (op : Op) (l r : Expr)
  deriving Repr, Inhabited

def typeOf (sig : Sig) (Γ : List Ty) : Expr → Option Ty
  | .lit t v => if t.dom v then some t else none
  | .var i => Γ[i]?
  | .bin op l r =>
    match typeOf sig Γ l, typeOf sig Γ r with
    | some a, some b => sig op a b
    | _, _ => none

inductive Res where
  | ok (t : Ty) (v : Int)
  | legit (what : String)       -- ZeroDivisionError
  | typeErr (what : String)     -- TypeError / wrapper ValueError: what the property forbids
  | stuck (why : String)        -- ill-typed input or outside the model (float result of `**`)
  deriving DecidableEq, Repr, Inhabited

/-- `C(result)` at the use site: `Nat.__init__` (inherited by Bool) rejects negative values; `Int(...)` checks nothing -/
def wrapCheck : Ty → Int → Bool
  | .Int, _ => true
  | _, v => 0 ≤ v

def wrap (c : Ty) : Outcome → Res
  | .ok _ _ v => if wrapCheck c v then .ok c v else .typeErr "ValueError"
  | .valueError => .typeErr "ValueError"
  | .typeError => .typeErr "TypeError"
  | .zeroDiv => .legit "ZeroDivisionError"
  | .notModelled why => .stuck why

def eval (sig : Sig) (ρ : List (Ty × Int)) : Expr → Res
  | .lit t v => if t.dom v then .ok t v else .stuck "inadmissible literal"
  | .var i => match ρ[i]? with
    | some (t, v) => .ok t v
    | none => .stuck "unbound variable"
  | .bin op l r =>
    match eval sig ρ l with
    | .ok ta a =>
      match eval sig ρ r with
      | .ok tb b =>
        match sig op ta tb with
        | some c => wrap c (binop Spec.table op ⟨ta.shape, a⟩ ⟨tb.shape, b⟩)
        | none => .stuck "operator not declared for these operand types"
      | other => other
    | other => other

/-! ### signature tables -/

abbrev SigRow := Op × Ty × Ty × Ty

def sigOfRows (rows : List SigRow) : Sig := fun op a b =>
  match rows.find? (fun r => r.1 = op ∧ r.2.1 = a ∧ r.2.2.1 = b) with
  | some r => some r.2.2.2
  | none => none

def isCmpOrd (op : Op) : Bool := op = .lt ∨ op = .le ∨ op = .gt ∨ op = .ge

/-- hand-written operator signatures of the fragment (what the theorem is proved for).
    `+ *`: Nat when both operands are Nat/Bool, else Int; `-`: Int; `//`: like `+`; `%` and `**`: only on Nat/Int operands
    (`%`: Nat for Nat % Nat, else Int; `**`: ONLY Nat ** Nat : Nat — the checker's `Int ** Int : Nat`, `Nat ** Int : Nat`,
    `Int ** Nat : Nat` rows are unsound, see `knownBadRow`); comparisons: Bool. -/
def Spec.sig : Sig := fun op a b =>
  let natLike (t : Ty) : Bool := t = .Nat ∨ t = .Bool
  match op with
  | .add | .mul | .floordiv => some (if natLike a ∧ natLike b then .Nat else .Int)
  | .sub => some .Int
  | .mod => if a = .Bool ∨ b = .Bool then none else some (if a = .Nat ∧ b = .Nat then .Nat else .Int)
  | .pow => if a = .Nat ∧ b = .Nat then some .Nat else none
  | .eq | .ne | .lt | .le | .gt | .ge => some .Bool

/-- rows the real checker declares although they are unsound (finding C02-int-pow-declared-nat) -/
def knownBadRow (r : SigRow) : Bool :=
  r.1 = .pow ∧ r.2.2.2 = .Nat ∧ ¬ (r.2.1 = .Nat ∧ r.2.2.1 = .Nat) ∧ r.2.1 ≠ .Bool ∧ r.2.2.1 ≠ .Bool

/-- does the expression use a known-bad row (for the driver's inK column)? -/
def usesBadRow (sig : Sig) (Γ : List Ty) : Expr → Bool
  | .lit _ _ => false
  | .var _ => false
  | .bin op l r =>
    usesBadRow sig Γ l || usesBadRow sig Γ r ||
      (match typeOf sig Γ l, typeOf sig Γ r with
       | some a, some b => match sig op a b with
         | some c => knownBadRow (op, a, b, c)
         | none => false
       | _, _ => false)

end ErgVerif.C02
