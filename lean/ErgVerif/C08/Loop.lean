import ErgVerif.C08.Steps
/-! C08: the invariant of the token loop `lexLoop` and its consequences (no crash, no fuel exhaustion, shape). -/
namespace ErgVerif.C08
open ErgVerif.Lex

/-- number of Ok tokens of kind `k` among items -/
def cnt (k : TokenKind) (acc : List Item) : Nat := countKind k (okTokens acc)

theorem okTokens_cons_tok (t : Token) (acc : List Item) : okTokens (.tok t :: acc) = t :: okTokens acc := by
  simp [okTokens]
theorem okTokens_cons_err (t : Token) (m : String) (acc : List Item) : okTokens (.err t m :: acc) = okTokens acc := by
  simp [okTokens]

theorem cnt_cons_tok (k : TokenKind) (t : Token) (acc : List Item) :
    cnt k (.tok t :: acc) = (if t.kind = k then 1 else 0) + cnt k acc := by
  simp only [cnt, okTokens_cons_tok, countKind, List.filter_cons]
  split <;> simp_all <;> omega

def noErr (acc : List Item) : Prop := ∀ i ∈ acc, i.isErr = false

/-- invariant of `lexLoop` (`acc` = items so far, newest first) -/
structure LInv (st : State) (acc : List Item) : Prop where
  interp : InterpOk st.core.interp
  bal : noErr acc → cnt .Indent acc = cnt .Dedent acc + st.indents.length
  eof : st.core.prev = .EOF → ∃ t rest, acc = .tok t :: rest ∧ t.kind = .EOF ∧ st.indents = []

theorem LInv.step {st st' : State} {acc : List Item} {it : Item} (h : LInv st acc) (hp : ItemPost st it st') :
    LInv st' (it :: acc) := by
  obtain ⟨p1, p2, p3, p4, p5⟩ := hp
  refine ⟨p1, ?_, ?_⟩
  · intro hne
    have hne' : noErr acc := fun i hi => hne i (List.mem_cons_of_mem _ hi)
    have hb := h.bal hne'
    cases it with
    | err t m => have := hne (.err t m) (List.mem_cons_self ..); simp [Item.isErr] at this
    | tok t =>
      obtain ⟨s1, s2, s3, s4⟩ := p4
      rw [cnt_cons_tok, cnt_cons_tok]
      by_cases hI : t.kind = .Indent
      · have := s1 hI; simp [hI]; omega
      · by_cases hD : t.kind = .Dedent
        · have := s2 hD; simp [hD]; omega
        · have := s3 hI hD; simp [hI, hD]; omega
  · intro he
    cases it with
    | err t m => simp [ShapeRel] at p4; rw [p3] at he; simp [Item.token] at he; exact absurd he p4
    | tok t =>
      obtain ⟨s1, s2, s3, s4⟩ := p4
      rw [p3] at he
      simp only [Item.token] at he
      have hemp := s4 he
      have hI : t.kind ≠ .Indent := by rw [he]; intro h; cases h
      have hD : t.kind ≠ .Dedent := by rw [he]; intro h; cases h
      have hl := s3 hI hD
      refine ⟨t, acc, rfl, he, ?_⟩
      rw [hemp] at hl
      exact List.eq_nil_of_length_eq_zero (by simpa using hl)

/-- what the loop returns: never a crash, never out of fuel; a finished run satisfies the shape property -/
def LoopPost : Outcome → Prop
  | .finished items => lexResultIsOk items = true → shapeOk (okTokens items) = true
  | .crash _ _ => False
  | .fuel _ => False

theorem countKind_reverse (k : TokenKind) (l : List Token) : countKind k l.reverse = countKind k l := by
  simp [countKind, List.filter_reverse]

theorem okTokens_reverse (l : List Item) : okTokens l.reverse = (okTokens l).reverse := by
  simp [okTokens, List.filterMap_reverse]

theorem noErr_of_isOk {acc : List Item} (h : lexResultIsOk acc.reverse = true) : noErr acc := by
  intro i hi
  simp [lexResultIsOk] at h
  have := h i hi
  simpa using this

theorem post_lexLoop (inner : Nat) : ∀ (f : Nat) (st : State) (acc : List Item), LInv st acc → st.core.chars.size < inner →
    phi st < f → LoopPost (lexLoop false inner f st acc) := by
  intro f
  induction f with
  | zero => intro st acc _ _ h; omega
  | succ f ih =>
    intro st acc hinv hin hf
    unfold lexLoop
    have hn := post_next inner inner st hinv.interp hin (by omega)
    generalize next false inner inner st = r at hn
    cases hn with
    | @item it st' hp h =>
      dsimp only
      have hch := h.2.1
      have := h.2.2.2.2 hp
      exact ih st' (it :: acc) (hinv.step h) (by rw [hch]; exact hin) (by omega)
    | done hp =>
      dsimp only [LoopPost]
      intro hok
      obtain ⟨t, rest, e1, e2, e3⟩ := hinv.eof hp
      have hb := hinv.bal (noErr_of_isOk hok)
      rw [e3] at hb
      simp only [shapeOk, okTokens_reverse, countKind_reverse, List.getLast?_reverse]
      simp only [cnt] at hb
      subst e1
      simp [okTokens_cons_tok, e2] at hb ⊢
      simpa [okTokens_cons_tok] using hb

theorem normalizeNewline_length_le (l : List Char) : (normalizeNewline l).length ≤ l.length := by
  fun_induction normalizeNewline l <;> simp <;> omega

theorem loopPost_lexNow (src : List Char) : LoopPost (lexNow src) := by
  unfold lexNow lexAll
  have hsz := normalizeNewline_length_le src
  apply post_lexLoop
  · exact ⟨by simp [initState, initCore, InterpOk], by intro _; simp [cnt, okTokens, countKind, initState],
      by intro h; simp [initState, initCore] at h⟩
  · simp [initState, initCore, innerFuel]; omega
  · simp [phi, initState, initCore, outerFuel]; omega


end ErgVerif.C08
