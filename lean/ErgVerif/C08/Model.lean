import ErgVerif.Shared.Lex
/-!
# C08 model = `ErgVerif.Shared.Lex` (complete transcription of crates/erg_parser/lex.rs `Lexer`, see the header there)
plus the specification of the property: `posOf` (true line/column of a source offset) and the executable checks the
driver evaluates on every correspondence case (`shapeOk`, `posViolations`).
-/
namespace ErgVerif.C08
open ErgVerif.Lex

/-- number of line breaks strictly before offset `i` -/
def lineBack (chars : Array Char) : Nat → Nat
  | 0 => 0
  | i + 1 => (match chars[i]? with | some ch => if ch = '\n' then 1 else 0 | none => 0) + lineBack chars i

/-- Spec.Pos: the true (1-origin line, 0-origin column) of source offset `off` -/
def posOf (chars : Array Char) (off : Nat) : Nat × Nat := (lineBack chars off + 1, colBack chars off)

/-- the current lexer: after the C08 fix -/
def lexNow (src : List Char) : Outcome := lexAll false src
/-- the lexer before the C08 fix (kept for the witness theorems) -/
def lexLegacy (src : List Char) : Outcome := lexAll true src

def countKind (k : TokenKind) (ts : List Token) : Nat := (ts.filter (fun t => t.kind = k)).length

/-- the shape demanded of a successful lex: ends with EOF, as many dedents as indents -/
def shapeOk (ts : List Token) : Bool :=
  (match ts.getLast? with | some t => t.kind = .EOF | none => false) && countKind .Indent ts = countKind .Dedent ts

def posOk (chars : Array Char) (t : Token) : Bool := (t.line, t.col) = posOf chars t.off

def sortedOffs : List Token → Bool
  | a :: b :: r => a.off ≤ b.off && sortedOffs (b :: r)
  | _ => true

def allPos (src : List Char) (o : Outcome) : Bool :=
  (okTokens o.items).all (posOk (normalizeNewline src).toArray) && sortedOffs (okTokens o.items)

def isCrash : Outcome → Bool
  | .crash _ _ => true | _ => false

def hasInfix (pat : List Char) : List Char → Bool
  | [] => pat.isEmpty
  | c :: cs => pat.isPrefixOf (c :: cs) || hasInfix pat cs

/-- class K of the recorded finding `C08-line-drift` (decidable on the input, an over-approximation of the inputs on which a
    line break can be consumed without the line counter being advanced, or a multi-line token computes its line from its
    content): the normalised source contains a multi-line string delimiter, `#[`, a backslash, a backquote, or `e` directly
    before a line break. -/
def lineDriftClass (src : List Char) : Bool :=
  let s := normalizeNewline src
  hasInfix ['"', '"', '"'] s || hasInfix ['\'', '\'', '\''] s || hasInfix ['#', '['] s || s.contains '\\' || s.contains '`'
    || hasInfix ['e', '\n'] s

end ErgVerif.C08
