import ErgVerif.C08.Proofs
/-! C08: post-conditions of the comment skippers and of the indentation machinery, the step lemma of `nextOnce`, and the
loop invariants behind `C08_total`, `C08_terminates`, `C08_shape`. -/
namespace ErgVerif.C08
open ErgVerif.Lex

def SkipPost (c : Core) : SkipRes → Prop
  | .ok c' => InterpOk c'.interp ∧ c'.chars = c.chars ∧ c.cursor ≤ c'.cursor ∧ c'.prev = c.prev
  | .err t _ c' => c'.prev = t.kind ∧ t.kind ≠ .EOF ∧ InterpOk c'.interp ∧ c'.chars = c.chars ∧ c.cursor ≤ c'.cursor
  | .fuel => False

theorem post_rejectSkip (c₀ c : Core) (cont : List Char) (msg : String) (off : Nat)
    (hi : InterpOk c.interp) (hc : c.chars = c₀.chars) (hle : c₀.cursor ≤ c.cursor) :
    SkipPost c₀ (rejectSkip false c cont msg off) := by
  simp [rejectSkip, SkipPost, emitS, *]

theorem post_lexComment (off : Nat) :
    ∀ (f : Nat) (c₀ c : Core) (s : List Char), InterpOk c.interp → c.chars = c₀.chars → c₀.cursor ≤ c.cursor → c.prev = c₀.prev →
      c.chars.size - c.cursor < f → SkipPost c₀ (lexComment false off f c s) := by
  intro f
  induction f with
  | zero => intro c₀ c num _ _ _ _ hf; omega
  | succ f ih =>
    intro c₀ c num hi hc hle hp hf
    have hlt : ∀ ch, c.peek = some ch → c.cursor < c.chars.size := fun _ h => peek_some_lt h
    unfold lexComment
    repeat' split
    all_goals first
      | (apply ih <;> lex_side)
      | exact ⟨hi, hc, hle, hp⟩
      | exact post_rejectSkip _ _ _ _ _ hi hc hle
      | (simp_all [SkipPost, emitS] <;> omega)

set_option maxRecDepth 4000 in
theorem post_lexMultiLineComment (off : Nat) :
    ∀ (f : Nat) (c₀ c : Core) (s : List Char) (n : Nat), InterpOk c.interp → c.chars = c₀.chars → c₀.cursor ≤ c.cursor → c.prev = c₀.prev →
      c.chars.size - c.cursor < f → SkipPost c₀ (lexMultiLineComment false off f c s n) := by
  intro f
  induction f with
  | zero => intro c₀ c num _ _ _ _ _ hf; omega
  | succ f ih =>
    intro c₀ c num n hi hc hle hp hf
    have hlt : ∀ ch, c.peek = some ch → c.cursor < c.chars.size := fun _ h => peek_some_lt h
    unfold lexMultiLineComment
    dsimp only
    repeat' split
    all_goals first
      | (apply ih <;> lex_side)
      | exact post_rejectSkip _ _ _ _ _ hi hc hle
      | (simp only [SkipPost, Core.adv]; exact ⟨hi, hc, by omega, hp⟩)
      | (simp_all [SkipPost, emitS, Core.adv] <;> omega)

theorem skipSpaces_spec : ∀ (f : Nat) (c : Core) (n : Nat), c.chars.size - c.cursor < f →
    ∃ k, skipSpaces f c n = some (n + k, { c with cursor := c.cursor + k }) ∧ (k > 0 → c.cursor + k ≤ c.chars.size) := by
  intro f
  induction f with
  | zero => intro c n h; omega
  | succ f ih =>
    intro c n h
    unfold skipSpaces
    split
    · rename_i hp
      have := peek_some_lt hp
      obtain ⟨k, hk, hk2⟩ := ih c.adv (n + 1) (by simp [Core.adv]; omega)
      refine ⟨k + 1, ?_, ?_⟩
      · rw [hk]; simp [Core.adv]; omega
      · intro _
        by_cases hk0 : k > 0
        · have := hk2 hk0; simp [Core.adv] at this; omega
        · omega
    · exact ⟨0, by simp, by omega⟩

theorem indentSum_fst (n : Nat) (l : List Nat) : (indentSum n l).1 = l.sum := by
  unfold indentSum
  suffices h : ∀ (a : Nat × Bool), (l.foldl (fun (acc : Nat × Bool) x => (acc.1 + x, acc.2 || acc.1 + x == n || n == 0)) a).1 = a.1 + l.sum by
    simpa using h (0, false)
  induction l with
  | nil => intro a; simp
  | cons x r ih => intro a; simp [ih]; omega

/-- the potential that bounds the number of `next` calls -/
def phi (st : State) : Nat :=
  2 * (st.core.chars.size + 1 - st.core.cursor) + st.indents.length + (if st.core.prev = .EOF then 0 else 1)

def _root_.ErgVerif.Lex.Item.token : Item → Token
  | .tok t => t | .err t _ => t

/-- relation between an emitted item and the change of the indentation stack -/
def ShapeRel (st : State) (i : Item) (st' : State) : Prop :=
  match i with
  | .tok t =>
    (t.kind = .Indent → st'.indents.length = st.indents.length + 1) ∧
    (t.kind = .Dedent → st'.indents.length + 1 = st.indents.length) ∧
    (t.kind ≠ .Indent → t.kind ≠ .Dedent → st'.indents.length = st.indents.length) ∧
    (t.kind = .EOF → st.indents = [])
  | .err t _ => t.kind ≠ .EOF

def ItemPost (st : State) (i : Item) (st' : State) : Prop :=
  InterpOk st'.core.interp ∧ st'.core.chars = st.core.chars ∧ st'.core.prev = i.token.kind ∧ ShapeRel st i st' ∧
    (st.core.prev ≠ .EOF → phi st' < phi st)

theorem dropLast_length_of_sum_pos {l : List Nat} (h : l.sum > 0) : l.dropLast.length + 1 = l.length := by
  cases l with
  | nil => simp at h
  | cons x r => simp

def NonePost (st₀ st' : State) : Prop :=
  st'.indents = st₀.indents ∧ InterpOk st'.core.interp ∧ st'.core.chars = st₀.core.chars ∧ st'.core.prev = st₀.core.prev ∧
    st₀.core.cursor ≤ st'.core.cursor

def IDPost (st₀ : State) (r : Option Item × State) : Prop :=
  match r.1 with
  | some it => ItemPost st₀ it r.2
  | none => NonePost st₀ r.2

theorem post_lexIndentDedent (st₀ : State) (n sp : Nat) (hn : n > 0 → st₀.core.cursor + n ≤ st₀.core.chars.size)
    (hi : InterpOk st₀.core.interp) (hprev : st₀.core.prev ≠ .EOF) :
    IDPost st₀ (lexIndentDedent false { st₀ with core := { st₀.core with cursor := st₀.core.cursor + n } } n sp) := by
  unfold lexIndentDedent
  dsimp only
  have hsum := indentSum_fst n st₀.indents
  split
  · -- too deep
    rename_i h100
    have := hn (by omega)
    simp [IDPost, emitS, ItemPost, ShapeRel, Item.token, phi, hi, hprev]; omega
  · generalize hs : indentSum n st₀.indents = sv at hsum
    obtain ⟨sum, valid⟩ := sv
    simp only at hsum
    dsimp only
    split
    · -- indent
      have := hn (by omega)
      simp [IDPost, emitS, ItemPost, ShapeRel, Item.token, phi, hi, hprev]; omega
    · split
      · -- dedent
        rename_i hgt
        have hl := dropLast_length_of_sum_pos (l := st₀.indents) (by omega)
        have hl' : st₀.indents.length - 1 + 1 = st₀.indents.length := by omega
        split
        · simp [IDPost, emitS, ItemPost, ShapeRel, Item.token, phi, hi, hprev]; omega
        · simp [IDPost, emitS, ItemPost, ShapeRel, Item.token, phi, hi, hprev]; omega
      · simp only [IDPost]; exact ⟨rfl, hi, rfl, rfl, by simp⟩

inductive SpacePost (st₀ : State) : SpaceRes → Prop
  | item {it : Item} {st' : State} : ItemPost st₀ it st' → SpacePost st₀ (.item it st')
  | none {st' : State} : NonePost st₀ st' → SpacePost st₀ (.none st')

theorem post_lexSpaceIndentDedent (fuel : Nat) (st : State) (hi : InterpOk st.core.interp) (hprev : st.core.prev ≠ .EOF)
    (hf : st.core.chars.size - st.core.cursor < fuel) : SpacePost st (lexSpaceIndentDedent false fuel st) := by
  unfold lexSpaceIndentDedent
  dsimp only
  split
  · -- top-level dedent
    rename_i h
    apply SpacePost.item
    have hne : st.indents ≠ [] := by
      intro e; simp [e] at h
    have hl : st.indents.length - 1 + 1 = st.indents.length := by
      cases hx : st.indents with
      | nil => exact absurd hx hne
      | cons a r => simp
    simp [emitS, ItemPost, ShapeRel, Item.token, phi, hi, hprev]; omega
  · split
    · -- newline
      rename_i _ h
      apply SpacePost.item
      have hlt : st.core.cursor < st.core.chars.size := by
        have : st.core.peek = some '\n' := by
          simp at h; exact h.1
        exact peek_some_lt this
      simp [emitS, ItemPost, ShapeRel, Item.token, phi, hi, hprev, Core.adv, Core.newLine]; omega
    · obtain ⟨k, hk, hk2⟩ := skipSpaces_spec fuel st.core 0 hf
      rw [hk]
      simp only [Nat.zero_add]
      split
      · -- spaces on the first line
        rename_i h
        apply SpacePost.item
        have hk0 : k > 0 := by
          simp at h; exact h.1
        have := hk2 hk0
        simp [emitS, ItemPost, ShapeRel, Item.token, phi, hi, hprev]; omega
      · split
        · have hp := post_lexIndentDedent st k st.core.cursor hk2 hi hprev
          generalize lexIndentDedent false { st with core := { st.core with cursor := st.core.cursor + k } } k st.core.cursor = r at hp
          obtain ⟨o, st'⟩ := r
          cases o with
          | some it => exact SpacePost.item (by simpa [IDPost] using hp)
          | none => exact SpacePost.none (by simpa [IDPost] using hp)
        · exact SpacePost.none ⟨rfl, hi, rfl, rfl, by simp⟩

/-- the comment part: besides `SkipPost`, an error has consumed at least the `#` -/
theorem post_afterComment (fuel : Nat) (c : Core) (hi : InterpOk c.interp) (hf : c.chars.size - c.cursor < fuel) :
    SkipPost c (afterComment false fuel c) ∧
      (∀ t m c', afterComment false fuel c = .err t m c' → c.cursor < c'.cursor ∧ c.cursor < c.chars.size) := by
  unfold afterComment
  split
  · rename_i hp
    have hlt := peek_some_lt hp
    obtain ⟨f, rfl⟩ : ∃ f, fuel = f + 1 := ⟨fuel - 1, by omega⟩
    have key : ∀ r : SkipRes, SkipPost c.adv r →
        (SkipPost c (recol false r) ∧ (∀ t m c', recol false r = .err t m c' → c.cursor < c'.cursor ∧ c.cursor < c.chars.size)) := by
      intro r hr
      cases r with
      | ok c' => simp [SkipPost, Core.adv, recol] at hr ⊢; obtain ⟨h1, h2, h3, h4⟩ := hr; exact ⟨h1, h2, by omega, h4⟩
      | err t m c' =>
        simp [SkipPost, Core.adv, recol] at hr ⊢; obtain ⟨h1, h2, h3, h4, h5⟩ := hr
        exact ⟨⟨h1, h2, h3, h4, by omega⟩, by omega, hlt⟩
      | fuel => simp [SkipPost] at hr
    split
    · rename_i hn
      apply key
      have hu : lexMultiLineComment false c.cursor (f + 1) c [] 0 = lexMultiLineComment false c.cursor f c.adv ['#'] 1 := by
        rw [lexMultiLineComment]
        simp [hp, hn, isBidi]
      rw [hu]
      apply post_lexMultiLineComment <;> simp [Core.adv, hi] <;> omega
    · rename_i hn
      apply key
      have hu : lexComment false c.cursor (f + 1) c [] = lexComment false c.cursor f c.adv ['#'] := by
        rw [lexComment]
        simp [hp, isBidi]
      rw [hu]
      apply post_lexComment <;> simp [Core.adv, hi] <;> omega
  · exact ⟨⟨hi, rfl, Nat.le_refl _, rfl⟩, by intro t m c' h; cases h⟩

inductive StepPost (st : State) : Step → Prop
  | item {it : Item} {st' : State} : st.core.prev ≠ .EOF → ItemPost st it st' → StepPost st (.item it st')
  | again {st' : State} : InterpOk st'.core.interp → st'.core.chars = st.core.chars → st'.core.prev = st.core.prev →
      st'.indents = st.indents → st.core.cursor < st'.core.cursor → st.core.cursor < st.core.chars.size → StepPost st (.again st')
  | done : st.core.prev = .EOF → StepPost st .done

theorem post_atEof (st₀ st : State) (c : Core) (off : Nat) (hn : NonePost st₀ st) (hprev : st₀.core.prev ≠ .EOF)
    (hi : InterpOk c.interp) (hc : c.chars = st₀.core.chars) (hcur : st₀.core.cursor + 1 ≤ c.cursor) :
    StepPost st₀ (atEof false st c off) := by
  obtain ⟨h1, h2, h3, h4, h5⟩ := hn
  unfold atEof
  split
  · rename_i he
    have he' : st₀.indents = [] := by rw [← h1]; simpa using he
    apply StepPost.item hprev
    simp [emitS, ItemPost, ShapeRel, Item.token, phi, hi, hprev, hc, he', h1 ▸ he']
    omega
  · rename_i he
    have hne : st₀.indents ≠ [] := by rw [← h1]; simpa using he
    have hl : st₀.indents.length - 1 + 1 = st₀.indents.length := by
      cases hx : st₀.indents with
      | nil => exact absurd hx hne
      | cons a r => simp
    apply StepPost.item hprev
    simp [emitS, ItemPost, ShapeRel, Item.token, phi, hi, hprev, hc, h1]
    omega

theorem post_nextOnce (fuel : Nat) (st : State) (hi : InterpOk st.core.interp)
    (hf : st.core.chars.size < fuel) : StepPost st (nextOnce false fuel st) := by
  unfold nextOnce
  split
  · exact StepPost.done ‹_›
  · rename_i hprev
    have hsp := post_lexSpaceIndentDedent fuel st hi hprev (by omega)
    generalize lexSpaceIndentDedent false fuel st = r at hsp
    cases hsp with
    | item h => exact StepPost.item hprev h
    | @none st1 hn =>
      obtain ⟨h1, h2, h3, h4, h5⟩ := hn
      have hs1 : st1.core.chars.size = st.core.chars.size := by rw [h3]
      dsimp only
      obtain ⟨hc1, hc2⟩ := post_afterComment fuel st1.core h2 (by omega)
      generalize afterComment false fuel st1.core = rc at hc1 hc2
      cases rc with
      | fuel => simp [SkipPost] at hc1
      | err t m c' =>
        obtain ⟨e1, e2, e3, e4, e5⟩ := hc1
        obtain ⟨s1, s2⟩ := hc2 t m c' rfl
        have hs2 : c'.chars.size = st.core.chars.size := by rw [e4, h3]
        apply StepPost.item hprev
        simp [ItemPost, ShapeRel, Item.token, phi, e1, e2, e3, e4, h1, h3, hprev]
        omega
      | ok c =>
        obtain ⟨o1, o2, o3, o4⟩ := hc1
        have hs2 : c.chars.size = st.core.chars.size := by rw [o2, h3]
        dsimp only
        split
        · rename_i ch hp
          have hlt := peek_some_lt hp
          have hm := post_lexMain fuel c.adv ch c.cursor (by simpa [Core.adv] using o1) (by simp [Core.adv]; omega)
          generalize lexMain false fuel c.adv ch c.cursor = mr at hm
          cases hm with
          | @res r hr =>
            cases r with
            | ok t c' =>
              obtain ⟨p1, p2, p3, p4, p5⟩ := hr
              simp only [Core.adv] at p4 p5
              have hs3 : c'.chars.size = st.core.chars.size := by rw [p4, o2, h3]
              apply StepPost.item hprev
              have k1 : t.kind ≠ .Indent := fun h => p2 (Or.inl h)
              have k2 : t.kind ≠ .Dedent := fun h => p2 (Or.inr (Or.inl h))
              have k3 : t.kind ≠ .EOF := fun h => p2 (Or.inr (Or.inr h))
              simp [ofLexRes, ItemPost, ShapeRel, Item.token, phi, p1, p3, p4, o2, h3, h1, k1, k2, k3, hprev]
              omega
            | err t m c' =>
              obtain ⟨p1, p2, p3, p4, p5⟩ := hr
              simp only [Core.adv] at p4 p5
              have hs3 : c'.chars.size = st.core.chars.size := by rw [p4, o2, h3]
              apply StepPost.item hprev
              simp [ofLexRes, ItemPost, ShapeRel, Item.token, phi, p1, p2, p3, p4, o2, h3, h1, hprev]
              omega
            | crash s => exact absurd hr (by simp [Post])
            | fuel => exact absurd hr (by simp [Post])
          | @again c' a1 a2 a3 a4 =>
            simp only [Core.adv] at a2 a3 a4
            exact StepPost.again a1 (by rw [a2, o2, h3]) (by rw [a4, o4, h4]) h1 (by simp only; omega) (by omega)
        · rename_i hp
          apply post_atEof st st1 c.adv c.cursor ⟨h1, h2, h3, h4, h5⟩ hprev (by simpa [Core.adv] using o1)
            (by simp [Core.adv, o2, h3]) (by simp [Core.adv]; omega)

inductive NextPost (st : State) : NextRes → Prop
  | item {it : Item} {st' : State} : st.core.prev ≠ .EOF → ItemPost st it st' → NextPost st (.item it st')
  | done : st.core.prev = .EOF → NextPost st .done

theorem ItemPost.weaken {st sa st' : State} {it : Item} (h : ItemPost sa it st') (hc : sa.core.chars = st.core.chars)
    (hp : sa.core.prev = st.core.prev) (hin : sa.indents = st.indents) (hcur : st.core.cursor ≤ sa.core.cursor) :
    ItemPost st it st' := by
  obtain ⟨a1, a2, a3, a4, a5⟩ := h
  refine ⟨a1, by rw [a2, hc], a3, ?_, ?_⟩
  · cases it with
    | tok t => simpa [ShapeRel, hin] using a4
    | err t m => simpa [ShapeRel] using a4
  · intro hne
    have := a5 (by rw [hp]; exact hne)
    have hs : sa.core.chars.size = st.core.chars.size := by rw [hc]
    simp only [phi, hin, hp, hs] at this ⊢
    omega

theorem post_next (inner : Nat) : ∀ (f : Nat) (st : State), InterpOk st.core.interp → st.core.chars.size < inner →
    st.core.chars.size - st.core.cursor < f → NextPost st (next false inner f st) := by
  intro f
  induction f with
  | zero => intro st _ _ h; omega
  | succ f ih =>
    intro st hi hin hf
    unfold next
    have hs := post_nextOnce inner st hi hin
    generalize nextOnce false inner st = r at hs
    cases hs with
    | item hq h => exact NextPost.item hq h
    | done h => exact NextPost.done h
    | @again sa a1 a2 a3 a4 a5 a6 =>
      dsimp only
      have hsz : sa.core.chars.size = st.core.chars.size := by rw [a2]
      have := ih sa a1 (by omega) (by omega)
      generalize next false inner f sa = r2 at this
      cases this with
      | item hq h => exact NextPost.item (by rw [← a3]; exact hq) (h.weaken a2 a3 a4 (by omega))
      | done h => exact NextPost.done (by rw [← a3]; exact h)

end ErgVerif.C08
