import ErgVerif.C08.Model
/-! Helper lemmas for C08: post-conditions of every sub-lexer of `Shared.Lex` in fixed mode (`lg = false`). -/
namespace ErgVerif.C08
open ErgVerif.Lex

def layout (k : TokenKind) : Prop := k = .Indent ∨ k = .Dedent ∨ k = .EOF

instance : DecidablePred layout := fun k => by unfold layout; exact inferInstance

/-- the interpolation stack always has `Not` at the bottom and open interpolations above it -/
def InterpOk : List Interp → Prop
  | [] => False
  | [x] => x = .not
  | x :: y :: r => x.isIn = true ∧ InterpOk (y :: r)

theorem InterpOk.push {l : List Interp} {x : Interp} (h : InterpOk l) (hx : x.isIn = true) : InterpOk (x :: l) := by
  cases l with
  | nil => exact absurd h (by simp [InterpOk])
  | cons y r => exact ⟨hx, h⟩

theorem InterpOk.pop {l : List Interp} {x : Interp} (h : InterpOk (x :: l)) (hx : x.isIn = true) : InterpOk l := by
  cases l with
  | nil => simp [InterpOk] at h; subst h; simp [Interp.isIn] at hx
  | cons y r => exact h.2

theorem InterpOk.ne_nil {l : List Interp} (h : InterpOk l) : l ≠ [] := by
  intro e; subst e; exact h

/-- post-condition of a sub-lexer started in core state `c` -/
def Post (c : Core) : LexRes → Prop
  | .ok t c' => c'.prev = t.kind ∧ ¬ layout t.kind ∧ InterpOk c'.interp ∧ c'.chars = c.chars ∧ c.cursor ≤ c'.cursor
  | .err t _ c' => c'.prev = t.kind ∧ t.kind ≠ .EOF ∧ InterpOk c'.interp ∧ c'.chars = c.chars ∧ c.cursor ≤ c'.cursor
  | .crash _ => False
  | .fuel => False

theorem Post.mono {c₀ c : Core} {r : LexRes} (h : Post c r) (hc : c.chars = c₀.chars) (hle : c₀.cursor ≤ c.cursor) : Post c₀ r := by
  cases r <;> simp_all [Post] <;> omega

theorem post_emitOk (c₀ c : Core) (k : TokenKind) (cont : List Char) (off : Nat)
    (hk : ¬ layout k) (hi : InterpOk c.interp) (hc : c.chars = c₀.chars) (hle : c₀.cursor ≤ c.cursor) :
    Post c₀ (emitOk false c k cont off) := by
  simp [emitOk, emitS, Post, *]

theorem post_reject (c₀ c : Core) (cont : List Char) (msg : String) (off : Nat)
    (hi : InterpOk c.interp) (hc : c.chars = c₀.chars) (hle : c₀.cursor ≤ c.cursor) :
    Post c₀ (reject false c cont msg off) := by
  simp [reject, emitS, Post, *]

theorem peek_some_lt {c : Core} {ch : Char} (h : c.peek = some ch) : c.cursor < c.chars.size := by
  unfold Core.peek at h
  by_cases hlt : c.cursor < c.chars.size
  · exact hlt
  · simp [Array.getElem?_eq_none (Nat.le_of_not_lt hlt)] at h

theorem ite_pred {P : TokenKind → Prop} {c : Prop} [Decidable c] {a b : TokenKind} (ha : P a) (hb : P b) :
    P (if c then a else b) := by
  split <;> assumption

theorem not_layout_of_ne (k : TokenKind) (h1 : k ≠ .Indent) (h2 : k ≠ .Dedent) (h3 : k ≠ .EOF) : ¬ layout k := by
  unfold layout; intro h; rcases h with h | h | h <;> contradiction

theorem not_layout_symbolKind (s : List Char) : ¬ layout (symbolKind s) := by
  unfold symbolKind
  repeat (first | apply ite_pred (P := fun k => ¬ layout k) | (apply not_layout_of_ne <;> (intro h; cases h)))

theorem not_layout_numKind (s : List Char) : ¬ layout (numKind s) := by
  unfold numKind
  repeat (first | apply ite_pred (P := fun k => ¬ layout k) | (apply not_layout_of_ne <;> (intro h; cases h)))

theorem not_layout_tokenKind (q : Quote) : ¬ layout q.tokenKind := by
  cases q <;> (apply not_layout_of_ne <;> (intro h; cases h))

/-- side goals of the post-condition lemmas: frame facts and the fuel arithmetic -/
syntax "lex_side" : tactic
macro_rules
  | `(tactic| lex_side) => `(tactic|
      first
      | omega
      | exact not_layout_symbolKind _
      | exact not_layout_numKind _
      | exact not_layout_tokenKind _
      | (apply InterpOk.push <;> simp_all [Core.adv, Core.newLine, Interp.isIn] <;> done)
      | (simp_all [Core.adv, Core.newLine, layout, Core.top, InterpOk.push, Interp.isIn] <;> omega))

syntax "lex_close" "[" term,* "]" : tactic
macro_rules
  | `(tactic| lex_close []) => `(tactic| fail "lex_close: no lemma applies")
  | `(tactic| lex_close [$t]) => `(tactic| (apply $t <;> lex_side))
  | `(tactic| lex_close [$t, $ts,*]) => `(tactic| first | (apply $t <;> lex_side) | lex_close [$ts,*])

theorem post_lexDigits (off : Nat) (p : Char → Bool) (k : TokenKind) (hk : ¬ layout k) :
    ∀ (f : Nat) (c₀ c : Core) (num : List Char), InterpOk c.interp → c.chars = c₀.chars → c₀.cursor ≤ c.cursor →
      c.chars.size - c.cursor < f → Post c₀ (lexDigits false off p k f c num) := by
  intro f
  induction f with
  | zero => intro c₀ c num _ _ _ hf; omega
  | succ f ih =>
    intro c₀ c num hi hc hle hf
    have hlt : ∀ ch, c.peek = some ch → c.cursor < c.chars.size := fun _ h => peek_some_lt h
    unfold lexDigits
    repeat' split
    all_goals lex_close [ih, post_emitOk]

theorem post_lexExponent (off : Nat) (f : Nat) (c₀ c : Core) (num : List Char) (hi : InterpOk c.interp)
    (hc : c.chars = c₀.chars) (hle : c₀.cursor ≤ c.cursor) (hf : c.chars.size - c.cursor < f + 1) :
    Post c₀ (lexExponent false off f c num) := by
  unfold lexExponent
  dsimp only
  split
  · rename_i sg hp
    have h1 := peek_some_lt hp
    simp only [Core.adv] at h1
    apply post_lexDigits
    · apply not_layout_of_ne <;> (intro h; cases h)
    · exact hi
    · exact hc
    · simp only [Core.adv]; omega
    · simp only [Core.adv]; omega
  · simp only [emitS, Post, Core.adv]
    refine ⟨trivial, ?_, hi, hc, ?_⟩
    · intro h; cases h
    · omega

set_option maxRecDepth 4000 in
theorem post_lexRatio (off : Nat) :
    ∀ (f : Nat) (c₀ c : Core) (num : List Char), InterpOk c.interp → c.chars = c₀.chars → c₀.cursor ≤ c.cursor →
      c.chars.size - c.cursor < f → Post c₀ (lexRatio false off f c num) := by
  intro f
  induction f with
  | zero => intro c₀ c num _ _ _ hf; omega
  | succ f ih =>
    intro c₀ c num hi hc hle hf
    have hlt : ∀ ch, c.peek = some ch → c.cursor < c.chars.size := fun _ h => peek_some_lt h
    unfold lexRatio
    repeat' split
    all_goals lex_close [ih, post_lexExponent, post_emitOk]

set_option maxRecDepth 4000 in
theorem post_lexNumDot (off : Nat) (f : Nat) (c₀ c : Core) (num : List Char) (hi : InterpOk c.interp)
    (hc : c.chars = c₀.chars) (hle : c₀.cursor ≤ c.cursor) (hlt : c.cursor < c.chars.size) (hf : c.chars.size - c.cursor < f + 1) :
    Post c₀ (lexNumDot false off f c num) := by
  unfold lexNumDot
  repeat' split
  all_goals lex_close [post_lexRatio, post_emitOk, post_reject]

set_option maxRecDepth 4000 in
theorem post_lexNum (off : Nat) :
    ∀ (f : Nat) (c₀ c : Core) (num : List Char), InterpOk c.interp → c.chars = c₀.chars → c₀.cursor ≤ c.cursor →
      c.chars.size - c.cursor < f → Post c₀ (lexNum false off f c num) := by
  intro f
  induction f with
  | zero => intro c₀ c num _ _ _ hf; omega
  | succ f ih =>
    intro c₀ c num hi hc hle hf
    have hlt : ∀ ch, c.peek = some ch → c.cursor < c.chars.size := fun _ h => peek_some_lt h
    unfold lexNum lexBin lexOct lexHex
    dsimp only
    repeat' split
    all_goals first
      | lex_close [ih, post_lexNumDot, post_lexExponent, post_emitOk]
      | (apply post_lexDigits <;> first | (apply not_layout_of_ne <;> (intro h; cases h)) | lex_side)

set_option maxRecDepth 4000 in
theorem post_lexSymbol (off : Nat) :
    ∀ (f : Nat) (c₀ c : Core) (s : List Char), InterpOk c.interp → c.chars = c₀.chars → c₀.cursor ≤ c.cursor →
      c.chars.size - c.cursor < f → Post c₀ (lexSymbol false off f c s) := by
  intro f
  induction f with
  | zero => intro c₀ c num _ _ _ hf; omega
  | succ f ih =>
    intro c₀ c num hi hc hle hf
    have hlt : ∀ ch, c.peek = some ch → c.cursor < c.chars.size := fun _ h => peek_some_lt h
    unfold lexSymbol
    repeat' split
    all_goals lex_close [ih, post_emitOk]

set_option maxRecDepth 4000 in
theorem post_lexRawIdent (off : Nat) :
    ∀ (f : Nat) (c₀ c : Core) (s : List Char), InterpOk c.interp → c.chars = c₀.chars → c₀.cursor ≤ c.cursor →
      c.chars.size - c.cursor < f → Post c₀ (lexRawIdent false off f c s) := by
  intro f
  induction f with
  | zero => intro c₀ c num _ _ _ hf; omega
  | succ f ih =>
    intro c₀ c num hi hc hle hf
    have hlt : ∀ ch, c.peek = some ch → c.cursor < c.chars.size := fun _ h => peek_some_lt h
    unfold lexRawIdent
    dsimp only
    repeat' split
    all_goals lex_close [ih, post_emitOk, post_reject]

set_option maxRecDepth 4000 in
theorem post_lexBackquote (off : Nat) :
    ∀ (f : Nat) (c₀ c : Core) (s : List Char), InterpOk c.interp → c.chars = c₀.chars → c₀.cursor ≤ c.cursor →
      c.chars.size - c.cursor < f → Post c₀ (lexBackquote false off f c s) := by
  intro f
  induction f with
  | zero => intro c₀ c num _ _ _ hf; omega
  | succ f ih =>
    intro c₀ c num hi hc hle hf
    have hlt : ∀ ch, c.peek = some ch → c.cursor < c.chars.size := fun _ h => peek_some_lt h
    unfold lexBackquote
    repeat' split
    all_goals lex_close [ih, post_emitOk, post_reject]

theorem post_emitMOk (c₀ c : Core) (k : TokenKind) (cb : Nat) (cont : List Char) (off : Nat)
    (hk : ¬ layout k) (hi : InterpOk c.interp) (hc : c.chars = c₀.chars) (hle : c₀.cursor ≤ c.cursor) :
    Post c₀ (emitMOk false c k cb cont off) := by
  simp [emitMOk, emitM, Post, *]

theorem post_rejectM (c₀ c : Core) (cb : Nat) (cont : List Char) (msg : String) (off : Nat)
    (hi : InterpOk c.interp) (hc : c.chars = c₀.chars) (hle : c₀.cursor ≤ c.cursor) :
    Post c₀ (rejectM false c cb cont msg off) := by
  simp [rejectM, emitM, Post, *]

theorem interpOk_top {l : List Interp} (h : InterpOk l) : l.head? ≠ none := by
  cases l with
  | nil => exact absurd h (by simp [InterpOk])
  | cons x r => simp

set_option maxRecDepth 4000 in
theorem post_lexSingleStr (off : Nat) :
    ∀ (f : Nat) (c₀ c : Core) (s : List Char), InterpOk c.interp → c.chars = c₀.chars → c₀.cursor ≤ c.cursor →
      c.chars.size - c.cursor < f → Post c₀ (lexSingleStr false off f c s) := by
  intro f
  induction f with
  | zero => intro c₀ c num _ _ _ hf; omega
  | succ f ih =>
    intro c₀ c num hi hc hle hf
    have hlt : ∀ ch, c.peek = some ch → c.cursor < c.chars.size := fun _ h => peek_some_lt h
    have htop := interpOk_top hi
    unfold lexSingleStr backslashEof
    dsimp only
    repeat' split
    all_goals first
      | lex_close [ih, post_emitOk, post_reject]
      | (simp_all [Core.top]; done)

set_option maxRecDepth 4000 in
theorem post_lexMultiLineStr (off : Nat) (q : Quote) (cb : Nat) :
    ∀ (f : Nat) (c₀ c : Core) (s : List Char), InterpOk c.interp → c.chars = c₀.chars → c₀.cursor ≤ c.cursor →
      c.chars.size - c.cursor < f → Post c₀ (lexMultiLineStr false off q cb f c s) := by
  intro f
  induction f with
  | zero => intro c₀ c num _ _ _ hf; omega
  | succ f ih =>
    intro c₀ c num hi hc hle hf
    have hlt : ∀ ch, c.peek = some ch → c.cursor < c.chars.size := fun _ h => peek_some_lt h
    unfold lexMultiLineStr backslashEof
    dsimp only
    repeat' split
    all_goals first
      | lex_close [ih, post_emitMOk, post_rejectM, post_reject]
      | (simp_all [Core.top]; done)

theorem interpOk_tail_of_isIn {c : Core} {i : Interp} (hi : InterpOk c.interp) (ht : c.top = some i) (hin : i.isIn = true) :
    InterpOk c.interp.tail := by
  unfold Core.top at ht
  cases h : c.interp with
  | nil => simp [h] at ht
  | cons x r =>
    rw [h] at hi ht
    simp at ht; subst ht
    exact hi.pop hin

set_option maxRecDepth 4000 in
theorem post_lexInterpolationMid (off : Nat) :
    ∀ (f : Nat) (c₀ c : Core) (s : List Char), InterpOk c.interp → c.chars = c₀.chars → c₀.cursor ≤ c.cursor →
      c.chars.size - c.cursor < f → Post c₀ (lexInterpolationMid false off f c s) := by
  intro f
  induction f with
  | zero => intro c₀ c num _ _ _ hf; omega
  | succ f ih =>
    intro c₀ c num hi hc hle hf
    have hlt : ∀ ch, c.peek = some ch → c.cursor < c.chars.size := fun _ h => peek_some_lt h
    have htop := interpOk_top hi
    have hpop : ∀ i, c.adv.top = some i → i.isIn = true → InterpOk c.interp.tail := by
      intro i h1 h2; exact interpOk_tail_of_isIn (c := c) hi (by simpa [Core.top, Core.adv] using h1) h2
    unfold lexInterpolationMid backslashEof
    dsimp only
    repeat' split
    all_goals first
      | lex_close [ih, post_emitOk, post_reject]
      | (simp_all [Core.top, Core.adv]; done)
      | (first | apply post_emitOk | apply post_reject) <;> first
          | omega
          | (intro h; rcases h with h | h | h <;> cases h)
          | (simp only [Core.adv]; omega)
          | (simp only [Core.adv]; exact hc)
          | (simp only [Core.adv]; apply hpop _ (by assumption) (by simp [Interp.isIn]))

theorem post_accept (c₀ c : Core) (k : TokenKind) (cont : String) (off : Nat)
    (hk : ¬ layout k) (hi : InterpOk c.interp) (hc : c.chars = c₀.chars) (hle : c₀.cursor ≤ c.cursor) :
    Post c₀ (accept false c k cont off) := by
  simp [accept, emitS, Post, *]

inductive MainPost (c : Core) : MainRes → Prop
  | res {r : LexRes} : Post c r → MainPost c (.res r)
  | again {c' : Core} : InterpOk c'.interp → c'.chars = c.chars → c.cursor ≤ c'.cursor → c'.prev = c.prev →
      MainPost c (.again c')

theorem mainpost_ite {c : Core} {p : Prop} [Decidable p] {a b : MainRes} (ha : p → MainPost c a) (hb : ¬ p → MainPost c b) :
    MainPost c (if p then a else b) := by
  split
  · exact ha ‹_›
  · exact hb ‹_›

theorem post_emitNewline (c₀ c : Core) (off : Nat) (hi : InterpOk c.interp) (hc : c.chars = c₀.chars) (hle : c₀.cursor ≤ c.cursor) :
    Post c₀ (emitNewline false c off) := by
  simp only [emitNewline, emitS, Post, Core.newLine]
  refine ⟨trivial, ?_, hi, hc, hle⟩
  apply not_layout_of_ne <;> (intro h; cases h)

syntax "main_side" : tactic
macro_rules
  | `(tactic| main_side) => `(tactic|
      first
      | omega
      | (apply not_layout_of_ne <;> (intro h; cases h))
      | (simp_all [Core.adv, Core.newLine, openEncl, closeEncl, Core.top] <;> omega))

set_option maxRecDepth 8000 in
set_option maxHeartbeats 1600000 in
theorem post_lexMainD (fuel : Nat) (c : Core) (ch : Char) (off : Nat) (hi : InterpOk c.interp)
    (hf : c.chars.size - c.cursor < fuel) : MainPost c (lexMainD false fuel c ch off) := by
  have htop := interpOk_top hi
  unfold lexMainD
  dsimp only
  repeat' (first | (apply mainpost_ite <;> intro _) | split)
  all_goals first
    | (apply MainPost.again <;> main_side)
    | apply MainPost.res
  all_goals first
    | (apply post_accept <;> main_side)
    | (apply post_reject <;> main_side)
    | (apply post_emitNewline <;> main_side)
    | (apply post_lexInterpolationMid <;> main_side)
    | (apply post_lexRatio <;> main_side)
    | (apply post_lexNum <;> main_side)
    | (apply post_lexMultiLineStr <;> main_side)
    | (apply post_lexSingleStr <;> main_side)
    | (apply post_lexRawIdent <;> main_side)
    | (apply post_lexBackquote <;> main_side)
    | (apply post_lexSymbol <;> main_side)
    | (simp_all [Core.adv, Core.newLine, Core.top, closeEncl, Post, emitS] <;> omega)

set_option maxRecDepth 8000 in
set_option maxHeartbeats 1600000 in
theorem post_lexMainC (fuel : Nat) (c : Core) (ch : Char) (off : Nat) (hi : InterpOk c.interp)
    (hf : c.chars.size - c.cursor < fuel) : MainPost c (lexMainC false fuel c ch off) := by
  have htop := interpOk_top hi
  unfold lexMainC
  dsimp only
  repeat' (first | exact post_lexMainD _ _ _ _ hi hf | (apply mainpost_ite <;> intro _) | split)
  all_goals first
    | (apply MainPost.again <;> main_side)
    | apply MainPost.res
    | (apply post_lexMainD <;> assumption)
  all_goals first
    | (apply post_accept <;> main_side)
    | (apply post_reject <;> main_side)
    | (apply post_emitNewline <;> main_side)
    | (apply post_lexInterpolationMid <;> main_side)
    | (apply post_lexRatio <;> main_side)
    | (apply post_lexNum <;> main_side)
    | (apply post_lexMultiLineStr <;> main_side)
    | (apply post_lexSingleStr <;> main_side)
    | (apply post_lexRawIdent <;> main_side)
    | (apply post_lexBackquote <;> main_side)
    | (apply post_lexSymbol <;> main_side)
    | (simp_all [Core.adv, Core.newLine, Core.top, closeEncl, Post, emitS] <;> omega)

set_option maxRecDepth 8000 in
set_option maxHeartbeats 1600000 in
theorem post_lexMainB (fuel : Nat) (c : Core) (ch : Char) (off : Nat) (hi : InterpOk c.interp)
    (hf : c.chars.size - c.cursor < fuel) : MainPost c (lexMainB false fuel c ch off) := by
  have htop := interpOk_top hi
  unfold lexMainB
  dsimp only
  repeat' (first | exact post_lexMainC _ _ _ _ hi hf | (apply mainpost_ite <;> intro _) | split)
  all_goals first
    | (apply MainPost.again <;> main_side)
    | apply MainPost.res
    | (apply post_lexMainC <;> assumption)
  all_goals first
    | (apply post_accept <;> main_side)
    | (apply post_reject <;> main_side)
    | (apply post_emitNewline <;> main_side)
    | (apply post_lexInterpolationMid <;> main_side)
    | (apply post_lexRatio <;> main_side)
    | (apply post_lexNum <;> main_side)
    | (apply post_lexMultiLineStr <;> main_side)
    | (apply post_lexSingleStr <;> main_side)
    | (apply post_lexRawIdent <;> main_side)
    | (apply post_lexBackquote <;> main_side)
    | (apply post_lexSymbol <;> main_side)
    | (simp_all [Core.adv, Core.newLine, Core.top, closeEncl, Post, emitS] <;> omega)

set_option maxRecDepth 8000 in
set_option maxHeartbeats 1600000 in
theorem post_lexMainA (fuel : Nat) (c : Core) (ch : Char) (off : Nat) (hi : InterpOk c.interp)
    (hf : c.chars.size - c.cursor < fuel) : MainPost c (lexMainA false fuel c ch off) := by
  have htop := interpOk_top hi
  unfold lexMainA
  dsimp only
  repeat' (first | exact post_lexMainB _ _ _ _ hi hf | (apply mainpost_ite <;> intro _) | split)
  all_goals first
    | (apply MainPost.again <;> main_side)
    | apply MainPost.res
    | (apply post_lexMainB <;> assumption)
  all_goals first
    | (apply post_accept <;> main_side)
    | (apply post_reject <;> main_side)
    | (apply post_emitNewline <;> main_side)
    | (apply post_lexInterpolationMid <;> main_side)
    | (apply post_lexRatio <;> main_side)
    | (apply post_lexNum <;> main_side)
    | (apply post_lexMultiLineStr <;> main_side)
    | (apply post_lexSingleStr <;> main_side)
    | (apply post_lexRawIdent <;> main_side)
    | (apply post_lexBackquote <;> main_side)
    | (apply post_lexSymbol <;> main_side)
    | (simp_all [Core.adv, Core.newLine, Core.top, closeEncl, Post, emitS] <;> omega)

theorem post_lexMain (fuel : Nat) (c : Core) (ch : Char) (off : Nat) (hi : InterpOk c.interp)
    (hf : c.chars.size - c.cursor < fuel) : MainPost c (lexMain false fuel c ch off) :=
  post_lexMainA fuel c ch off hi hf

end ErgVerif.C08
