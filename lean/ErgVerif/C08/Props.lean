import ErgVerif.C08.Loop
/-!
# C08 — the lexer is total and reports faithful token positions: property theorems

Model: `ErgVerif.Shared.Lex` (`lexNow` = the lexer after the C08 fix 92d1c2c3, `lexLegacy` = before it).
-/
namespace ErgVerif.C08
open ErgVerif.Lex

/-- C08_total: on every input the lexer (after the fix) never reaches a panic site: no `consume().unwrap()` /
    `interpol_stack.last().unwrap()` of the transcription fires. -/
theorem C08_total (src : List Char) : ∀ items site, lexNow src ≠ .crash items site := by
  intro items site h
  have := loopPost_lexNow src
  rw [h] at this
  exact this

/-- C08_terminates: the fuel given to the loops (`|src| + 2` for the inner loops and for re-entering `next`,
    `3·|src| + 4` calls of `next`) is never exhausted: the lexer terminates on every input. -/
theorem C08_terminates (src : List Char) : ∀ items, lexNow src ≠ .fuel items := by
  intro items h
  have := loopPost_lexNow src
  rw [h] at this
  exact this

/-- the iterator always runs to its end -/
theorem C08_finishes (src : List Char) : ∃ items, lexNow src = .finished items := by
  cases h : lexNow src with
  | finished items => exact ⟨items, rfl⟩
  | crash items site => exact absurd h (C08_total src items site)
  | fuel items => exact absurd h (C08_terminates src items)

/-- C08_shape: a lex without errors ends with EOF and has as many Dedent as Indent tokens. -/
theorem C08_shape (src : List Char) (items : List Item) (h : lexNow src = .finished items)
    (hok : lexResultIsOk items = true) : shapeOk (okTokens items) = true := by
  have := loopPost_lexNow src
  rw [h] at this
  exact this hok

/-- C08_or_error: otherwise at least one syntax error is reported (`Lexer::lex` returns `Err` iff an item is an error). -/
theorem C08_or_error (src : List Char) : ∃ items, lexNow src = .finished items ∧
    ((lexResultIsOk items = true ∧ shapeOk (okTokens items) = true) ∨ ∃ i ∈ items, i.isErr = true) := by
  obtain ⟨items, h⟩ := C08_finishes src
  refine ⟨items, h, ?_⟩
  by_cases hok : lexResultIsOk items = true
  · exact Or.inl ⟨hok, C08_shape src items h hok⟩
  · right
    simp [lexResultIsOk] at hok
    exact hok

/-! ## Positions.  `posOk chars t` : the token's (line, col) is the true position of the source offset it stands for.
The full statement `∀ src, allPos src (lexNow src)` is FALSE of the code (finding `C08-line-drift`, witnesses below) and was
false in more ways before the fix (columns after escapes).  Proved here: the exact witnesses, and the column bookkeeping of the
fixed emit helpers; the general statement outside the class `lineDriftClass` is exercised on every correspondence case
(driver verdict `viol:pos`), not proved. -/

/-- finding #8 (fixed): before the fix a backslash at end of input inside a string panicked ... -/
theorem C08_legacy_crash_witness : isCrash (lexLegacy "x = \"abc\\".toList) = true := by decide +kernel
/-- ... after it the lexer reports an unterminated string -/
theorem C08_fixed_crash_witness : isCrash (lexNow "x = \"abc\\".toList) = false := by decide +kernel
theorem C08_legacy_crash_witness_x : isCrash (lexLegacy "\"\\x4".toList) = true := by decide +kernel

/-- finding #8 (fixed): before the fix the token after `"a\tb"` was reported 3 columns too far right ... -/
theorem C08_legacy_pos_witness : allPos "\"a\\tb\" z".toList (lexLegacy "\"a\\tb\" z".toList) = false := by decide +kernel
/-- ... after it every token of that input has its true position -/
theorem C08_fixed_pos_witness : allPos "\"a\\tb\" z".toList (lexNow "\"a\\tb\" z".toList) = true := by decide +kernel
/-- columns after a `#[ ]#` comment and after a multi-line string are exact after the fix -/
theorem C08_fixed_pos_witness_comment : allPos "x = #[ c ]#1\ny".toList (lexNow "x = #[ c ]#1\ny".toList) = true := by decide +kernel

/-- C08_pos is false of the current code: a multi-line string with a backslash-newline continuation is reported one line late
    (recorded finding `C08-line-drift`; the input is in the class `lineDriftClass`) -/
theorem C08_pos_witness_line_drift :
    allPos "a = \"\"\"\\\n\"\"\"".toList (lexNow "a = \"\"\"\\\n\"\"\"".toList) = false ∧
      lineDriftClass "a = \"\"\"\\\n\"\"\"".toList = true := by decide +kernel

/-- C08_pos_partial (the emit helpers, fixed code): whatever the content of the emitted token, the column after it is the true
    column of the cursor, so a token's content length (escapes!) no longer influences later columns -/
theorem C08_pos_partial_emit (c : Core) (k : TokenKind) (cont : List Char) (off : Nat) :
    (emitS false c k cont off).2.col = colBack c.chars (min c.cursor c.chars.size) ∧
    (emitS false c k cont off).1.col = c.col ∧ (emitS false c k cont off).1.line = c.line + 1 := by
  simp [emitS, Core.colOfCursor]

example : ∃ c : Core, (emitS true c .StrLit ['"', ' ', ' ', ' ', ' ', '"'] 0).2.col ≠ colBack c.chars (min c.cursor c.chars.size) :=
  ⟨{ (initCore "\"\\t\"".toList) with cursor := 4 }, by decide +kernel⟩

end ErgVerif.C08
