import ErgVerif.C10.Model
import ErgVerif.C08.Steps
/-!
# C10 — parsing is deterministic and insensitive to comments and layout: property theorems (lexer level)

Determinism of the model is definitional (`lexAll` is a function); for the implementation it is what the tie checks (same text parsed
twice, `==` and printed tree). The simulation lemmas below are the cores of the comment / trailing-space invariance: skipping a
comment or a run of spaces changes nothing of the lexer state but the cursor (and the column, which `(kind, content)` ignores).
Whole-program invariance under each rewrite is evaluated on every correspondence case (driver `compareToks`), not proved.
-/
namespace ErgVerif.C10
open ErgVerif.Lex

/-- C10_comment_skip: a line comment of `n` characters without bidi controls, ending at a line break or at the end of input, is
    skipped by `lex_comment` leaving every component of the lexer state unchanged except the cursor (so the tokens that follow
    are those of the text without the comment, up to positions). -/
theorem C10_comment_skip (off : Nat) : ∀ (n f : Nat) (c : Core) (s : List Char),
    (∀ j, j < n → ∃ ch, c.chars[c.cursor + j]? = some ch ∧ ch ≠ '\n' ∧ isBidi ch = false) →
    (c.chars[c.cursor + n]? = some '\n' ∨ c.chars[c.cursor + n]? = none) → n < f →
    lexComment false off f c s = .ok { c with cursor := c.cursor + n } := by
  intro n
  induction n with
  | zero =>
    intro f c s _ hend hf
    obtain ⟨f, rfl⟩ : ∃ g, f = g + 1 := ⟨f - 1, by omega⟩
    unfold lexComment
    rcases hend with h | h
    · simp [Core.peek] at h ⊢; simp [h]
    · simp [Core.peek] at h ⊢; simp [h]
  | succ n ih =>
    intro f c s hbody hend hf
    obtain ⟨f, rfl⟩ : ∃ g, f = g + 1 := ⟨f - 1, by omega⟩
    obtain ⟨ch, h0, hnl, hbd⟩ := hbody 0 (by omega)
    unfold lexComment
    simp only [Nat.add_zero] at h0
    simp only [Core.peek, h0, hnl, hbd, if_false, Bool.false_eq_true]
    have := ih f c.adv (s ++ [ch])
      (by intro j hj; have := hbody (j + 1) (by omega); simpa [Core.adv, Nat.add_assoc, Nat.add_comm 1 j] using this)
      (by simpa [Core.adv, Nat.add_assoc, Nat.add_comm 1 n] using hend) (by omega)
    rw [this]
    simp [Core.adv, Nat.add_assoc, Nat.add_comm 1 n]

/-- C10_spaces_skip: a run of spaces is consumed by the space loop without touching anything but the cursor (trailing spaces before
    a line break and the spaces after an inserted comment are invisible to the token stream). -/
theorem C10_spaces_skip (f : Nat) (c : Core) (h : c.chars.size - c.cursor < f) :
    ∃ k, skipSpaces f c 0 = some (k, { c with cursor := c.cursor + k }) := by
  obtain ⟨k, hk, _⟩ := ErgVerif.C08.skipSpaces_spec f c 0 h
  exact ⟨k, by simpa using hk⟩

def sample : List Char := "f x =\n    y = x + 1 # old\n    y * \"a\\tb\"\nz = f 2\n".toList

/-- each admissible rewrite of the sample program leaves the `(kind, content)` stream unchanged (comment, trailing spaces,
    continuation, `#[ ]#`), or unchanged up to repeated Newline tokens (blank line, comment line) -/
theorem C10_witness_invariant :
    rewriteCmp .comment 5 sample = some .same ∧ rewriteCmp .spaces 5 sample = some .same ∧
    rewriteCmp .cont 15 sample = some .same ∧ rewriteCmp .mlcomment 16 sample = some .same ∧
    rewriteCmp (.blank 3) 6 sample = some .sameModNewlines ∧ rewriteCmp (.commentline 2) 26 sample = some .sameModNewlines ∧
    rewriteCmp (.commentlinep 3) 6 sample = some .sameModNewlines := by
  decide +kernel

/-- recorded finding C10-space-after-ml-comment: `#[ c ]#` followed by a space makes the lexer report `invalid character: ' '` -/
theorem C10_witness_ml_comment_space : rewriteCmp .mlcommentSp 16 sample = some .errOne := by decide +kernel

/-- recorded finding C10-comment-line-dedent: a comment line in column 0 inside an indented block closes the block -/
theorem C10_witness_comment_line_dedent : rewriteCmp .commentline0 26 sample = some .diff := by decide +kernel

/-- recorded finding C10-continuation-after-operator: `+` directly followed by backslash-newline becomes a prefix operator -/
theorem C10_witness_continuation_operator : rewriteCmp .cont0 17 sample = some .diff := by decide +kernel

/-- recorded finding C10-whitespace-only-line: three spaces on an empty line are lexed as an Indent -/
theorem C10_witness_whitespace_only_line :
    rewriteCmp .spaces 6 "x = 1\n\ny = 2\n".toList = some .diff ∧ findingClass .spaces 6 "x = 1\n\ny = 2\n".toList = "C10-whitespace-only-line" := by
  decide +kernel

/-- recorded finding C10-blank-after-class-opener: at the lexer level a blank line after `C.` is harmless (only Newline tokens are
    added); the parser's `try_reduce_class_attr_defs` then rejects the extra Newline — the class predicate selects exactly this place -/
theorem C10_witness_blank_after_class_opener :
    rewriteCmp (.blank 1) 24 "C = Class {.a = Int}\nC.\n    m self = 1\n".toList = some .sameModNewlines ∧
      findingClass (.blank 1) 24 "C = Class {.a = Int}\nC.\n    m self = 1\n".toList = "C10-blank-after-class-opener" := by
  decide +kernel

end ErgVerif.C10
