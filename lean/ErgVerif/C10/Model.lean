import ErgVerif.Shared.Lex
/-!
# C10 model: the layout rewrites (the SAME definitions as `rewrite` in harness/src/bin/c10.rs: a snippet inserted at a character
offset of the newline-normalised source) and the comparison of `(kind, content)` token streams (what `impl PartialEq for Token`
compares) computed with the lexer model `Shared.Lex` (crates/erg_parser/lex.rs).
-/
namespace ErgVerif.C10
open ErgVerif.Lex

inductive Kind where
  | comment | comment0 | spaces | blank | commentline | commentline0 | cont | cont0 | mlcomment | mlcommentSp | parens
  deriving DecidableEq, Repr

def Kind.ofString : String → Option Kind
  | "comment" => some .comment | "comment0" => some .comment0 | "spaces" => some .spaces | "blank" => some .blank
  | "commentline" => some .commentline | "commentline0" => some .commentline0 | "cont" => some .cont | "cont0" => some .cont0
  | "mlcomment" => some .mlcomment | "mlcomment-sp" => some .mlcommentSp | "parens" => some .parens
  | _ => none

def isAlnum (c : Char) : Bool := c.isAlphanum || c = '_'

/-- insert the rewrite's snippet at offset `k` of the normalised source -/
def rewrite (kind : Kind) (k : Nat) (src : List Char) : Option (List Char) :=
  let cs := normalizeNewline src
  if k > cs.length then none
  else
    let pre := cs.take k
    let post := cs.drop k
    match kind with
    | .comment => some (pre ++ " # c é".toList ++ post)
    | .comment0 => some (pre ++ "#c".toList ++ post)
    | .spaces => some (pre ++ "   ".toList ++ post)
    | .blank => some (pre ++ ['\n'] ++ post)
    | .commentline => some (pre ++ List.replicate (post.takeWhile (· = ' ')).length ' ' ++ "# c\n".toList ++ post)
    | .commentline0 => some (pre ++ "# c\n".toList ++ post)
    | .cont => some (pre ++ " \\\n".toList ++ post)
    | .cont0 => some (pre ++ "\\\n".toList ++ post)
    | .mlcomment => some (pre ++ "#[ c ]#".toList ++ post)
    | .mlcommentSp => some (pre ++ "#[ c ]# ".toList ++ post)
    | .parens =>
      let lit := post.takeWhile isAlnum
      if lit.isEmpty then none else some (pre ++ ['('] ++ lit ++ [')'] ++ post.drop lit.length)

/-- `Lexer::lex`: the `(kind, content)` stream when there is no error -/
def toks (src : List Char) : Option (List (TokenKind × List Char)) :=
  match lexAll false src with
  | .finished items => if lexResultIsOk items then some ((okTokens items).map fun t => (t.kind, t.content)) else none
  | _ => none

def squeeze : List (TokenKind × List Char) → Bool → List (TokenKind × List Char)
  | [], _ => []
  | t :: r, prevNl => if t.1 = .Newline && prevNl then squeeze r true else t :: squeeze r (t.1 = .Newline)

inductive Cmp where
  | same | sameModNewlines | diff | errBoth | errOne
  deriving DecidableEq, Repr

def Cmp.name : Cmp → String
  | .same => "same" | .sameModNewlines => "same-mod-newlines" | .diff => "diff" | .errBoth => "err-both" | .errOne => "err-one"

def compareToks (a b : List Char) : Cmp :=
  match toks a, toks b with
  | some x, some y => if x = y then .same else if squeeze x true = squeeze y true then .sameModNewlines else .diff
  | none, none => .errBoth
  | _, _ => .errOne

def rewriteCmp (kind : Kind) (k : Nat) (src : List Char) : Option Cmp :=
  (rewrite kind k src).map (compareToks src)

/-- classes of the recorded findings (decidable on the input: the rewrite kind) -/
def findingClass : Kind → String
  | .mlcommentSp => "C10-space-after-ml-comment"
  | .commentline0 => "C10-comment-line-dedent"
  | .cont0 => "C10-continuation-after-operator"
  | _ => "-"

end ErgVerif.C10
