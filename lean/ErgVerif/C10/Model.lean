import ErgVerif.Shared.Lex
/-!
# C10 model: the layout rewrites (the SAME definitions as `rewrite` in harness/src/bin/c10.rs: a snippet inserted at a character
offset of the newline-normalised source) and the comparison of `(kind, content)` token streams (what `impl PartialEq for Token`
compares) computed with the lexer model `Shared.Lex` (crates/erg_parser/lex.rs).
-/
namespace ErgVerif.C10
open ErgVerif.Lex

inductive Kind where
  | comment | comment0 | spaces | blank (n : Nat) | commentline (n : Nat) | commentlinep (n : Nat) | commentline0 | cont | cont0
  | mlcomment | mlcommentSp | parens
  deriving DecidableEq, Repr

def Kind.ofString : String → Option Kind
  | "comment" => some .comment | "comment0" => some .comment0 | "spaces" => some .spaces
  | "blank" => some (.blank 1) | "blank2" => some (.blank 2) | "blank3" => some (.blank 3) | "blank4" => some (.blank 4)
  | "commentline" => some (.commentline 1) | "commentline2" => some (.commentline 2) | "commentline3" => some (.commentline 3)
  | "commentline4" => some (.commentline 4)
  | "commentlinep" => some (.commentlinep 1) | "commentlinep2" => some (.commentlinep 2) | "commentlinep3" => some (.commentlinep 3)
  | "commentlinep4" => some (.commentlinep 4)
  | "commentline0" => some .commentline0 | "cont" => some .cont | "cont0" => some .cont0
  | "mlcomment" => some .mlcomment | "mlcomment-sp" => some .mlcommentSp | "parens" => some .parens
  | _ => none

def repeatList (n : Nat) (l : List Char) : List Char := (List.replicate n l).flatten

/-- the text of the line that ends just before offset `k - 1` (i.e. the line preceding the line that starts at `k`) -/
def prevLine (cs : List Char) (k : Nat) : List Char :=
  ((cs.take (k - 1)).reverse.takeWhile (· ≠ '\n')).reverse

def isAlnum (c : Char) : Bool := c.isAlphanum || c = '_'

/-- insert the rewrite's snippet at offset `k` of the normalised source -/
def rewrite (kind : Kind) (k : Nat) (src : List Char) : Option (List Char) :=
  let cs := normalizeNewline src
  if k > cs.length then none
  else
    let pre := cs.take k
    let post := cs.drop k
    match kind with
    | .comment => some (pre ++ " # c é".toList ++ post)
    | .comment0 => some (pre ++ "#c".toList ++ post)
    | .spaces => some (pre ++ "   ".toList ++ post)
    | .blank n => some (pre ++ List.replicate n '\n' ++ post)
    | .commentline n =>
      some (pre ++ repeatList n (List.replicate (post.takeWhile (· = ' ')).length ' ' ++ "# c\n".toList) ++ post)
    | .commentlinep n =>
      if k = 0 || cs[k - 1]? ≠ some '\n' then none
      else some (pre ++ repeatList n (List.replicate ((prevLine cs k).takeWhile (· = ' ')).length ' ' ++ "# c\n".toList) ++ post)
    | .commentline0 => some (pre ++ "# c\n".toList ++ post)
    | .cont => some (pre ++ " \\\n".toList ++ post)
    | .cont0 => some (pre ++ "\\\n".toList ++ post)
    | .mlcomment => some (pre ++ "#[ c ]#".toList ++ post)
    | .mlcommentSp => some (pre ++ "#[ c ]# ".toList ++ post)
    | .parens =>
      let lit := post.takeWhile isAlnum
      if lit.isEmpty then none else some (pre ++ ['('] ++ lit ++ [')'] ++ post.drop lit.length)

/-- `Lexer::lex`: the `(kind, content)` stream when there is no error -/
def toks (src : List Char) : Option (List (TokenKind × List Char)) :=
  match lexAll false src with
  | .finished items => if lexResultIsOk items then some ((okTokens items).map fun t => (t.kind, t.content)) else none
  | _ => none

def squeeze : List (TokenKind × List Char) → Bool → List (TokenKind × List Char)
  | [], _ => []
  | t :: r, prevNl => if t.1 = .Newline && prevNl then squeeze r true else t :: squeeze r (t.1 = .Newline)

inductive Cmp where
  | same | sameModNewlines | diff | errBoth | errOne
  deriving DecidableEq, Repr

def Cmp.name : Cmp → String
  | .same => "same" | .sameModNewlines => "same-mod-newlines" | .diff => "diff" | .errBoth => "err-both" | .errOne => "err-one"

def compareToks (a b : List Char) : Cmp :=
  match toks a, toks b with
  | some x, some y => if x = y then .same else if squeeze x true = squeeze y true then .sameModNewlines else .diff
  | none, none => .errBoth
  | _, _ => .errOne

def rewriteCmp (kind : Kind) (k : Nat) (src : List Char) : Option Cmp :=
  (rewrite kind k src).map (compareToks src)

def dropTrailingSpaces (l : List Char) : List Char := (l.reverse.dropWhile (· = ' ')).reverse

def hasInfix (pat : List Char) : List Char → Bool
  | [] => pat.isEmpty
  | c :: cs => pat.isPrefixOf (c :: cs) || hasInfix pat cs

/-- the line before offset `k` opens a class-attribute block: it ends with `.` or `::`, or is `C::[<restriction>]` -/
def afterClassOpener (src : List Char) (k : Nat) : Bool :=
  let l := dropTrailingSpaces (prevLine (normalizeNewline src) k)
  l.getLast? = some '.' || (l.reverse.take 2 = [':', ':']) || (l.getLast? = some ']' && hasInfix [':', ':', '['] l)

/-- the line before offset `k` is a decorator line (`@...`) -/
def afterDecorator (src : List Char) (k : Nat) : Bool :=
  ((prevLine (normalizeNewline src) k).dropWhile (· = ' ')).head? = some '@'

/-- offset `k` lies on an empty line (it is the offset of a line break that directly follows a line break or starts the text) -/
def onEmptyLine (src : List Char) (k : Nat) : Bool :=
  let cs := normalizeNewline src
  k = 0 || cs[k - 1]? = some '\n'

/-- classes of the recorded findings (decidable on the input: rewrite kind, offset, source) -/
def findingClass (kind : Kind) (k : Nat) (src : List Char) : String :=
  match kind with
  | .mlcommentSp => "C10-space-after-ml-comment"
  | .commentline0 => "C10-comment-line-dedent"
  | .cont0 => "C10-continuation-after-operator"
  | .spaces | .comment =>
    if onEmptyLine src k then "C10-whitespace-only-line"
    else if ((normalizeNewline src).take k).reverse.take 2 = ['#', ']'] then "C10-space-after-ml-comment" else "-"
  | .blank _ => if afterClassOpener src k then "C10-blank-after-class-opener" else if afterDecorator src k then "C10-blank-after-decorator" else "-"
  | .commentline _ =>
    if afterClassOpener src k then "C10-blank-after-class-opener" else if afterDecorator src k then "C10-blank-after-decorator"
    else if (((normalizeNewline src).drop k).takeWhile (· = ' ')).isEmpty then "C10-comment-line-dedent" else "-"   -- the comment lands in column 0
  | .commentlinep _ =>
    if afterClassOpener src k then "C10-blank-after-class-opener" else if afterDecorator src k then "C10-blank-after-decorator"
    else if ((prevLine (normalizeNewline src) k).takeWhile (· = ' ')).isEmpty then "C10-comment-line-dedent" else "-"
  | _ => "-"

end ErgVerif.C10
