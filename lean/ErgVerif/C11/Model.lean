import ErgVerif.Gen.C11Prec
/-!
C11 — model of operator-expression parsing.

Transcribed code (crates/erg_parser):
* `lex.rs`  `Lexer::next` arms for the operator alphabet, `op_fix` (prefix/infix classification from the previous
  token's category and the characters around the operator), `lex_num('-')` (a minus sign in prefix position directly
  before a digit is part of the literal), `lex_symbol` (keyword operators `and or in notin contains is! isnot!`).
* `parse.rs` `try_reduce_chunk` / `try_reduce_expr` (+ `try_reduce_expr_above`, the form after the `fix:` commit):
  the operator loop (`BinOp` arm `while prev_op.prec >= op_prec: reduce`, the closing `collect_last_binop_on_stack`
  loop, the `.attr` / `[index]` arms acting on the stack top, the chunk-level juxtaposition-call arm, `v = e`),
  `try_reduce_bin_lhs` (literal, symbol, prefix operator, parenthesis), `try_reduce_unary` (operand parsed above the
  prefix operator's precedence; `legacy := true` is the code at the pinned commit: operand = a whole expression),
  `try_reduce_call_or_acc`, `try_reduce_acc_chain` (adjacency-sensitive `[ ]`, `.name`, `( )`), `opt_reduce_args`,
  `try_reduce_args` / `try_reduce_arg` (positional arguments, with and without parentheses).
* `token.rs` `TokenKind::precedence` enters through the generated table `ErgVerif.Gen.C11.rows` (T-gen).

Shape of the transcription: the Rust loop interleaves operand parsing with stack reduction; operand parsing never
reads the stack, so the model collects the `(operator, operand)` list of one expression level (`loop`) and then runs
the literal stack algorithm on it (`reduceOps` = `pushOp`/`reduceWhile`/`finish`).
Everything the fragment does not cover is an explicit `oom` (out-of-model) outcome; `err` = the parser reports a
syntax error. Parentheses are kept in the model tree (`T.paren`) and erased by the printer (the Rust AST drops them).
-/
namespace ErgVerif.C11

inductive BinK where
  | Pow | Star | Slash | FloorDiv | Mod | Plus | Minus | Shl | Shr | BitAnd | BitXor | BitOr
  | Closed | LeftOpen | RightOpen | Open | Less | Gre | LessEq | GreEq | DblEq | NotEq
  | InOp | NotInOp | ContainsOp | IsOp | IsNotOp | AndOp | OrOp
  deriving DecidableEq, Repr

inductive PreK where
  | PrePlus | PreMinus | PreBitNot
  deriving DecidableEq, Repr

def BinK.all : List BinK :=
  [.Pow, .Star, .Slash, .FloorDiv, .Mod, .Plus, .Minus, .Shl, .Shr, .BitAnd, .BitXor, .BitOr,
   .Closed, .LeftOpen, .RightOpen, .Open, .Less, .Gre, .LessEq, .GreEq, .DblEq, .NotEq,
   .InOp, .NotInOp, .ContainsOp, .IsOp, .IsNotOp, .AndOp, .OrOp]

def PreK.all : List PreK := [.PrePlus, .PreMinus, .PreBitNot]

def BinK.name : BinK → String
  | .Pow => "Pow" | .Star => "Star" | .Slash => "Slash" | .FloorDiv => "FloorDiv" | .Mod => "Mod"
  | .Plus => "Plus" | .Minus => "Minus" | .Shl => "Shl" | .Shr => "Shr" | .BitAnd => "BitAnd"
  | .BitXor => "BitXor" | .BitOr => "BitOr" | .Closed => "Closed" | .LeftOpen => "LeftOpen"
  | .RightOpen => "RightOpen" | .Open => "Open" | .Less => "Less" | .Gre => "Gre" | .LessEq => "LessEq"
  | .GreEq => "GreEq" | .DblEq => "DblEq" | .NotEq => "NotEq" | .InOp => "InOp" | .NotInOp => "NotInOp"
  | .ContainsOp => "ContainsOp" | .IsOp => "IsOp" | .IsNotOp => "IsNotOp" | .AndOp => "AndOp" | .OrOp => "OrOp"

def PreK.name : PreK → String
  | .PrePlus => "PrePlus" | .PreMinus => "PreMinus" | .PreBitNot => "PreBitNot"

/-- index of the kind in the generated table (the translator numbers the rows in the order of `BinK.all ++ PreK.all ++ [Dot]`
    and `C11_gen_names` checks the names row by row) -/
def BinK.idx : BinK → Nat
  | .Pow => 0 | .Star => 1 | .Slash => 2 | .FloorDiv => 3 | .Mod => 4 | .Plus => 5 | .Minus => 6 | .Shl => 7 | .Shr => 8
  | .BitAnd => 9 | .BitXor => 10 | .BitOr => 11 | .Closed => 12 | .LeftOpen => 13 | .RightOpen => 14 | .Open => 15
  | .Less => 16 | .Gre => 17 | .LessEq => 18 | .GreEq => 19 | .DblEq => 20 | .NotEq => 21 | .InOp => 22 | .NotInOp => 23
  | .ContainsOp => 24 | .IsOp => 25 | .IsNotOp => 26 | .AndOp => 27 | .OrOp => 28

def PreK.idx : PreK → Nat
  | .PrePlus => 29 | .PreMinus => 30 | .PreBitNot => 31

/-- a precedence table: what `TokenKind::precedence` answers for the kinds of the fragment -/
structure Tab where
  bin : BinK → Nat
  pre : PreK → Nat
  dot : Nat

/-- the table regenerated from the source on every run -/
def genTab : Tab where
  bin k := (Gen.C11.precs.getD k.idx 0)
  pre k := (Gen.C11.precs.getD k.idx 0)
  dot := Gen.C11.precs.getD 32 0

/-- the documented table, as ranks (property statement, highest first): member access > ** > prefix + - ~ > * / // % >
    + - > shifts > && > ^^ > || > ranges > comparisons > and > or -/
def docTab : Tab where
  bin
    | .Pow => 12
    | .Star | .Slash | .FloorDiv | .Mod => 10
    | .Plus | .Minus => 9
    | .Shl | .Shr => 8
    | .BitAnd => 7
    | .BitXor => 6
    | .BitOr => 5
    | .Closed | .LeftOpen | .RightOpen | .Open => 4
    | .Less | .Gre | .LessEq | .GreEq | .DblEq | .NotEq | .InOp | .NotInOp | .ContainsOp | .IsOp | .IsNotOp => 3
    | .AndOp => 2
    | .OrOp => 1
  pre _ := 11
  dot := 13

/-! ### tokens -/

inductive TK where
  | sym | nat | int
  | bin (k : BinK) | pre (k : PreK)
  | lparen | rparen | lsqbr | rsqbr | dot | comma | assign
  deriving DecidableEq, Repr

/-- `sp`: the token does not start where the previous one ended (what `obj.col_end() == t.col_begin()` tests) -/
structure Tok where
  kind : TK
  text : List Char
  sp : Bool
  deriving DecidableEq, Repr

inductive Res (α : Type) where
  | ok (a : α)
  | err
  | oom (why : String)
  deriving Repr, DecidableEq

instance : Monad Res where
  pure := .ok
  bind x f := match x with
    | .ok a => f a
    | .err => .err
    | .oom w => .oom w

/-! ### the lexer on the operator alphabet -/

/-- the token categories `op_fix` distinguishes -/
inductive Cat where
  | bof | sym | lit | binop | unop | lenc | renc | special | defop
  deriving DecidableEq, Repr

def TK.cat : TK → Cat
  | .sym => .sym | .nat | .int => .lit | .bin _ => .binop | .pre _ => .unop
  | .lparen | .lsqbr => .lenc | .rparen | .rsqbr => .renc | .dot | .comma => .special | .assign => .defop

/-- `Lexer::op_fix`: `some true` = prefix, `some false` = infix, `none` = the lexer reports an illegal token.
    `before` is `peek_prev_prev_ch` (the character before the last consumed operator character), `after` is `peek_cur_ch`. -/
def opFix (prev : Cat) (before after : Option Char) : Option Bool :=
  match prev with
  | .bof | .binop | .unop | .lenc | .special | .defop => some true
  | .renc | .lit | .sym =>
    match before, after with
    | some b, some a =>
      if b = ' ' ∧ a = ' ' then some false
      else if b = ' ' then some true
      else some false
    | _, _ => none

def isDigit (c : Char) : Bool := '0' ≤ c && c ≤ '9'
def isAlpha (c : Char) : Bool := ('a' ≤ c && c ≤ 'z') || ('A' ≤ c && c ≤ 'Z') || c = '_'

def takeWhileC (p : Char → Bool) : List Char → List Char × List Char
  | [] => ([], [])
  | c :: cs => if p c then let (a, b) := takeWhileC p cs; (c :: a, b) else ([], c :: cs)

theorem takeWhileC_length (p : Char → Bool) (cs : List Char) : (takeWhileC p cs).2.length ≤ cs.length := by
  induction cs with
  | nil => simp [takeWhileC]
  | cons c cs ih => simp only [takeWhileC]; split <;> simp <;> omega

def keywordKind (s : String) : Option (Option BinK) :=
  if s = "and" then some (some .AndOp) else if s = "or" then some (some .OrOp)
  else if s = "in" then some (some .InOp) else if s = "notin" then some (some .NotInOp)
  else if s = "contains" then some (some .ContainsOp) else if s = "is!" then some (some .IsOp)
  else if s = "isnot!" then some (some .IsNotOp)
  else if s = "as" ∨ s = "ref" ∨ s = "ref!" ∨ s = "True" ∨ s = "False" ∨ s = "None" ∨ s = "Ellipsis" ∨ s = "Inf"
      ∨ s = "_" ∨ s = "do" ∨ s = "do!" then none
  else some none

/-- number after an optional sign: `NatLit` / `IntLit` as `lex_num` decides (`-0` is a `NatLit`) -/
def numKind (neg : Bool) (digits : List Char) : TK :=
  if neg && !(digits.all (· = '0')) then .int else .nat

/-- what may follow a digit run inside the fragment: not a letter (`3x`, `0x1f`, `1e+3`), not `_`, and a `.` only as the
    start of a range operator -/
def numEndOk : List Char → Bool
  | [] => true
  | c :: rest =>
    if isAlpha c then false
    else if c = '.' then (match rest with | '.' :: _ => true | _ => false)
    else true

/-- one lexer step result -/
inductive LexStep where
  | tok (k : TK) (text : List Char) (rest : List Char)
  | lexerr
  | oom (why : String)

/-- the arms of `Lexer::next` for the alphabet; `before` = the character preceding `c` in the input -/
def lexOne (prev : Cat) (before : Option Char) (c : Char) (cs : List Char) : LexStep :=
  if isDigit c then
    let (ds, rest) := takeWhileC isDigit cs
    if numEndOk rest then .tok (numKind false (c :: ds)) (c :: ds) rest else .oom "num-suffix"
  else if isAlpha c then
    let (as, rest) := takeWhileC (fun x => isAlpha x || isDigit x) cs
    let (name, rest) := match rest with
      | '!' :: r => (c :: as ++ ['!'], r)
      | _ => (c :: as, rest)
    match keywordKind (String.ofList name) with
    | some (some k) => .tok (.bin k) name rest
    | some none => .tok .sym name rest
    | none => .oom "keyword"
  else if c = '(' then .tok .lparen ['('] cs
  else if c = ')' then .tok .rparen [')'] cs
  else if c = '[' then .tok .lsqbr ['['] cs
  else if c = ']' then .tok .rsqbr [']'] cs
  else if c = ',' then .tok .comma [','] cs
  else if c = '<' then
    match cs with
    | '.' :: '.' :: '<' :: r => .tok (.bin .Open) "<..<".toList r
    | '.' :: '.' :: r => .tok (.bin .LeftOpen) "<..".toList r
    | '.' :: _ => .lexerr
    | '-' :: _ => .oom "inclusion"
    | '=' :: r => .tok (.bin .LessEq) "<=".toList r
    | '<' :: r => .tok (.bin .Shl) "<<".toList r
    | ':' :: _ => .oom "subtype"
    | _ => .tok (.bin .Less) ['<'] cs
  else if c = '>' then
    match cs with
    | '=' :: r => .tok (.bin .GreEq) ">=".toList r
    | '>' :: r => .tok (.bin .Shr) ">>".toList r
    | _ => .tok (.bin .Gre) ['>'] cs
  else if c = '.' then
    match cs with
    | '.' :: '<' :: r => .tok (.bin .RightOpen) "..<".toList r
    | '.' :: '.' :: _ => .oom "ellipsis"
    | '.' :: r => .tok (.bin .Closed) "..".toList r
    | d :: _ => if isDigit d then .oom "dot-digit" else .tok .dot ['.'] cs
    | [] => .tok .dot ['.'] cs
  else if c = '&' then (match cs with | '&' :: r => .tok (.bin .BitAnd) "&&".toList r | _ => .oom "amper")
  else if c = '|' then (match cs with | '|' :: r => .tok (.bin .BitOr) "||".toList r | _ => .oom "vbar")
  else if c = '^' then (match cs with | '^' :: r => .tok (.bin .BitXor) "^^".toList r | _ => .oom "caret")
  else if c = '~' then .tok (.pre .PreBitNot) ['~'] cs
  else if c = '=' then
    match cs with
    | '=' :: r => .tok (.bin .DblEq) "==".toList r
    | '>' :: _ => .oom "proc-arrow"
    | _ => .tok .assign ['='] cs
  else if c = '!' then (match cs with | '=' :: r => .tok (.bin .NotEq) "!=".toList r | _ => .oom "mutate")
  else if c = '+' then
    match opFix prev before cs.head? with
    | some false => .tok (.bin .Plus) ['+'] cs
    | some true => .tok (.pre .PrePlus) ['+'] cs
    | none => .lexerr
  else if c = '-' then
    match cs with
    | '>' :: _ => .oom "func-arrow"
    | _ =>
      match opFix prev before cs.head? with
      | some false => .tok (.bin .Minus) ['-'] cs
      | some true =>
        match cs with
        | d :: r =>
          if isDigit d then
            -- IntLit (negative number): `lex_num('-')`
            let (ds, rest) := takeWhileC isDigit r
            if numEndOk rest then .tok (numKind true (d :: ds)) ('-' :: d :: ds) rest else .oom "num-suffix"
          else .tok (.pre .PreMinus) ['-'] cs
        | [] => .tok (.pre .PreMinus) ['-'] cs
      | none => .lexerr
  else if c = '*' then
    match cs with
    | '*' :: r =>
      -- the second `*` has been consumed: `peek_prev_prev_ch` is the first `*`
      (match opFix prev (some '*') r.head? with
       | some false => .tok (.bin .Pow) "**".toList r
       | some true => .oom "pre-dbl-star"
       | none => .lexerr)
    | _ =>
      (match opFix prev before cs.head? with
       | some false => .tok (.bin .Star) ['*'] cs
       | some true => .oom "pre-star"
       | none => .lexerr)
  else if c = '/' then (match cs with | '/' :: r => .tok (.bin .FloorDiv) "//".toList r | _ => .tok (.bin .Slash) ['/'] cs)
  else if c = '%' then .tok (.bin .Mod) ['%'] cs
  else .oom "char"

/-- the token loop (fuel = number of characters + 1; every step consumes at least one character) -/
def lexGo : Nat → Cat → Option Char → Bool → List Char → List Tok → Res (List Tok)
  | 0, _, _, _, _, _ => .oom "lex-fuel"
  | _ + 1, _, _, _, [], acc => .ok acc.reverse
  | f + 1, prev, before, sp, c :: cs, acc =>
    if c = ' ' then
      if prev = .bof then .err   -- "invalid indent"
      else lexGo f prev (some ' ') true cs acc
    else
      match lexOne prev before c cs with
      | .tok k text rest =>
        -- the character before the next token is the last character of this one
        lexGo f k.cat text.getLast? false rest ({ kind := k, text := text, sp := sp } :: acc)
      | .lexerr => .err
      | .oom w => .oom w

def lex (src : List Char) : Res (List Tok) := lexGo (src.length + 1) .bof none false src []

/-! ### trees -/

mutual
inductive T where
  | lit (s : List Char)
  | id (s : List Char)
  | attr (o : T) (n : List Char)
  | idx (o i : T)
  | bin (k : BinK) (l r : T)
  | un (k : PreK) (e : T)
  | call (o : T) (m : Option (List Char)) (args : TL)
  | paren (e : T)
  | defn (n : List Char) (e : T)
inductive TL where
  | nil
  | cons (t : T) (ts : TL)
end

deriving instance DecidableEq for T
deriving instance DecidableEq for TL

def TL.ofList : List T → TL
  | [] => .nil
  | t :: ts => .cons t (TL.ofList ts)

/-! ### the operator-stack reducer (parse.rs, `BinOp` arm and `collect_last_binop_on_stack`) -/

/-- the Rust stack `[e0, op1, e1, …, opn, en]` is `top = en`, `pend = [(e(n-1), opn), …, (e0, op1)]` (head = most recent) -/
structure St where
  pend : List (T × BinK)
  top : T

/-- `while prev_op.prec >= op_prec: reduce` -/
def reduceWhile (tab : Tab) (op : BinK) : List (T × BinK) → T → List (T × BinK) × T
  | (l, o) :: ps, e => if tab.bin o ≥ tab.bin op then reduceWhile tab op ps (.bin o l e) else ((l, o) :: ps, e)
  | [], e => ([], e)

/-- reduce, then push the operator and the next operand -/
def pushOp (tab : Tab) (s : St) (op : BinK) (x : T) : St :=
  let (ps, e) := reduceWhile tab op s.pend s.top
  { pend := (e, op) :: ps, top := x }

/-- `while stack.len() >= 3: collect_last_binop_on_stack` -/
def finish : List (T × BinK) → T → T
  | (l, o) :: ps, e => finish ps (.bin o l e)
  | [], e => e

def reduceOps (tab : Tab) (a : T) (rest : List (BinK × T)) : T :=
  let s := rest.foldl (fun s p => pushOp tab s p.1 p.2) { pend := [], top := a }
  finish s.pend s.top

/-! ### the parser on tokens -/

def stripParen : T → T
  | .paren e => stripParen e
  | t => t

/-- `Expr::call` / the `LParen` arm of `try_reduce_acc_chain`: an attribute receiver becomes a method call -/
def mkCall (obj : T) (args : List T) : T :=
  match stripParen obj with
  | .attr o n => .call o (some n) (TL.ofList args)
  | _ => .call obj none (TL.ofList args)

/-- `opt_reduce_args`: does this token start an argument list? -/
def startsArgs : TK → Bool
  | .nat | .int | .sym | .pre _ | .lparen | .lsqbr => true
  | _ => false

/-- parser configuration: the precedence table and whether `try_reduce_unary` is the pinned-commit version -/
structure Cfg where
  tab : Tab
  legacy : Bool

/-- replace the stack top: the last collected operand, or the first operand when no operator has been read -/
def mapTop (g : T → T) (a : T) (rr : List (BinK × T)) : T × List (BinK × T) :=
  match rr with
  | [] => (g a, [])
  | (k, x) :: rr' => (a, (k, g x) :: rr')

def topOf (a : T) (rr : List (BinK × T)) : T :=
  match rr with
  | [] => a
  | (_, x) :: _ => x

mutual
/-- `try_reduce_expr_above(min_prec, winding, …)` and, with `chunk`, the operator loop of `try_reduce_chunk` -/
def expr : Nat → Cfg → Bool → Bool → Nat → List Tok → Res (T × List Tok)
  | 0, _, _, _, _, _ => .oom "fuel"
  | f + 1, c, chunk, winding, m, ts =>
    match binLhs f c ts with
    | .ok (a, ts1) => loop f c chunk winding m a [] ts1
    | .err => .err
    | .oom w => .oom w

/-- the `loop { match self.peek() … }` of one expression level; `a` and `rr` (reversed) are the operands read so far -/
def loop : Nat → Cfg → Bool → Bool → Nat → T → List (BinK × T) → List Tok → Res (T × List Tok)
  | 0, _, _, _, _, _, _, _ => .oom "fuel"
  | _ + 1, c, _, _, _, a, rr, [] => .ok (reduceOps c.tab a rr.reverse, [])
  | f + 1, c, chunk, winding, m, a, rr, t :: ts =>
    match t.kind with
    | .bin k =>
      if c.tab.bin k > m then
        match binLhs f c ts with
        | .ok (x, ts') => loop f c chunk winding m a ((k, x) :: rr) ts'
        | .err => .err
        | .oom w => .oom w
      else .ok (reduceOps c.tab a rr.reverse, t :: ts)
    | .dot =>
      match ts with
      | s :: ts2 =>
        if s.kind = .sym then
          match ts2 with
          | u :: _ =>
            if startsArgs u.kind then
              match args f c (u.kind = .lparen) ts2 with
              | .ok (as, ts3) =>
                let (a', rr') := mapTop (fun o => .call o (some s.text) (TL.ofList as)) a rr
                loop f c chunk winding m a' rr' ts3
              | .err => .err
              | .oom w => .oom w
            else if u.kind = .dot then .oom "dot-args"
            else
              let (a', rr') := mapTop (fun o => .attr o s.text) a rr
              loop f c chunk winding m a' rr' ts2
          | [] =>
            let (a', rr') := mapTop (fun o => .attr o s.text) a rr
            loop f c chunk winding m a' rr' ts2
        else if s.kind = .nat then .oom "tuple-attr"
        else .err
      | [] => .err
    | .lsqbr =>
      match expr f c false false 0 ts with
      | .ok (i, ts') =>
        match ts' with
        | r :: ts'' =>
          if r.kind = .rsqbr then
            let (a', rr') := mapTop (fun o => .idx o i) a rr
            loop f c chunk winding m a' rr' ts''
          else .err
        | [] => .err
      | .err => .err
      | .oom w => .oom w
    | .sym | .nat | .int =>
      if chunk then
        -- chunk level: `obj arg…` applies the stack top to a parenthesis-less argument list
        match args f c false (t :: ts) with
        | .ok (as, ts') =>
          let (a', rr') := mapTop (fun o => mkCall o as) a rr
          loop f c chunk winding m a' rr' ts'
        | .err => .err
        | .oom w => .oom w
      else .ok (reduceOps c.tab a rr.reverse, t :: ts)
    | .assign =>
      if chunk then
        match a, rr with
        | .id v, [] =>
          match expr f c false true 0 ts with
          | .ok (e, ts') => .ok (.defn v e, ts')
          | .err => .err
          | .oom w => .oom w
        | _, _ => .oom "def-lhs"
      else .ok (reduceOps c.tab a rr.reverse, t :: ts)
    | .comma => if winding then .oom "tuple" else .ok (reduceOps c.tab a rr.reverse, t :: ts)
    | _ => .ok (reduceOps c.tab a rr.reverse, t :: ts)

/-- `try_reduce_bin_lhs` -/
def binLhs : Nat → Cfg → List Tok → Res (T × List Tok)
  | 0, _, _ => .oom "fuel"
  | _ + 1, _, [] => .err
  | f + 1, c, t :: ts =>
    match t.kind with
    | .nat | .int =>
      match ts with
      | u :: _ => if u.kind = .sym ∨ u.kind = .lparen then .oom "starless-mul" else .ok (.lit t.text, ts)
      | [] => .ok (.lit t.text, ts)
    | .sym => chain f c (.id t.text) ts
    | .pre u =>
      -- `try_reduce_unary`: the operand is parsed above the operator's own precedence (pinned commit: a whole expression)
      match expr f c false false (if c.legacy then 0 else c.tab.pre u) ts with
      | .ok (e, ts') => .ok (.un u e, ts')
      | .err => .err
      | .oom w => .oom w
    | .lparen =>
      match ts with
      | r :: _ =>
        if r.kind = .rparen then .oom "unit"
        else
          match expr f c false true 0 ts with
          | .ok (e, ts') =>
            match ts' with
            | r' :: ts'' => if r'.kind = .rparen then .ok (.paren e, ts'') else .err
            | [] => .err
          | .err => .err
          | .oom w => .oom w
      | [] => .err
    | .lsqbr => .oom "list"
    | .dot => .oom "leading-dot"
    | _ => .err

/-- `try_reduce_acc_chain` followed by the `while let Some(args) = opt_reduce_args` loop of `try_reduce_call_or_acc` -/
def chain : Nat → Cfg → T → List Tok → Res (T × List Tok)
  | 0, _, _, _ => .oom "fuel"
  | _ + 1, _, obj, [] => .ok (obj, [])
  | f + 1, c, obj, t :: ts =>
    if t.sp then callLoop f c obj (t :: ts)
    else
      match t.kind with
      | .lsqbr =>
        match expr f c false true 0 ts with
        | .ok (i, ts') =>
          match ts' with
          | r :: ts'' => if r.kind = .rsqbr then chain f c (.idx obj i) ts'' else .err
          | [] => .err
        | .err => .err
        | .oom w => .oom w
      | .dot =>
        match ts with
        | s :: ts2 =>
          if s.kind = .sym then chain f c (.attr obj s.text) ts2
          else if s.kind = .nat then .oom "tuple-attr"
          else .err
        | [] => .err
      | .lparen =>
        match args f c true (t :: ts) with
        | .ok (as, ts') => chain f c (mkCall obj as) ts'
        | .err => .err
        | .oom w => .oom w
      | _ => callLoop f c obj (t :: ts)

def callLoop : Nat → Cfg → T → List Tok → Res (T × List Tok)
  | 0, _, _, _ => .oom "fuel"
  | _ + 1, _, obj, [] => .ok (obj, [])
  | f + 1, c, obj, t :: ts =>
    if startsArgs t.kind then
      match args f c (t.kind = .lparen) (t :: ts) with
      | .ok (as, ts') => callLoop f c (mkCall obj as) ts'
      | .err => .err
      | .oom w => .oom w
    else if t.kind = .dot then .oom "dot-args"
    else .ok (obj, t :: ts)

/-- `try_reduce_args`: `paren` = the list starts with `(` (which is the head of the token list) -/
def args : Nat → Cfg → Bool → List Tok → Res (List T × List Tok)
  | 0, _, _, _ => .oom "fuel"
  | f + 1, c, paren, ts =>
    let ts0 := if paren then ts.tail else ts
    match ts0 with
    | [] => if paren then .err else .oom "args-eof"
    | r :: ts1 =>
      if r.kind = .rparen then
        if paren then .ok ([], ts1) else .oom "args-rparen"
      else if r.kind = .rsqbr then .ok ([], ts0)
      else
        match expr f c false false 0 ts0 with
        | .ok (e, ts') => argsLoop f c paren [e] ts'
        | .err => .err
        | .oom w => .oom w

def argsLoop : Nat → Cfg → Bool → List T → List Tok → Res (List T × List Tok)
  | 0, _, _, _, _ => .oom "fuel"
  | _ + 1, _, paren, acc, [] => if paren then .oom "args-unclosed" else .ok (acc.reverse, [])
  | f + 1, c, paren, acc, t :: ts =>
    match t.kind with
    | .comma =>
      match ts with
      | u :: ts' =>
        if u.kind = .comma then .err
        else if paren ∧ u.kind = .rparen then .ok (acc.reverse, ts')
        else
          match expr f c false false 0 ts with
          | .ok (e, ts'') => argsLoop f c paren (e :: acc) ts''
          | .err => .err
          | .oom w => .oom w
      | [] => .err
    | .rparen => if paren then .ok (acc.reverse, ts) else .ok (acc.reverse, t :: ts)
    | _ => if paren then .oom "args-unclosed" else .ok (acc.reverse, t :: ts)
end

/-- one chunk, as `try_reduce_module` calls it (`try_reduce_chunk(true, false)`), then end of input is required -/
def parseToks (c : Cfg) (ts : List Tok) : Res T :=
  match ts with
  | [] => .oom "empty"
  | _ =>
    match expr (4 * ts.length + 16) c true true 0 ts with
    | .ok (t, []) => .ok t
    | .ok (_, _ :: _) => .err
    | .err => .err
    | .oom w => .oom w

def cfgGen : Cfg := { tab := genTab, legacy := false }
def cfgDoc : Cfg := { tab := docTab, legacy := false }
def cfgLegacy : Cfg := { tab := genTab, legacy := true }

end ErgVerif.C11
