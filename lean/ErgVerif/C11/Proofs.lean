import ErgVerif.C11.Model
/-!
C11 — specification (right-spine insertion, well-shapedness, yield) and the refinement proof
"operator stack = precedence climbing" for arbitrary operand trees and an arbitrary precedence table.
-/
namespace ErgVerif.C11

/-! ### specification: precedence climbing as right-spine insertion -/

/-- insert `(op, x)` into the right spine: descend while the node binds looser than `op`; equal precedence groups to the
    left. Everything that is not a binary node (operands: literals, names, calls, parenthesised expressions, prefix
    applications) is atomic. -/
def ins (tab : Tab) : T → BinK → T → T
  | .bin o l r, op, x => if tab.bin o < tab.bin op then .bin o l (ins tab r op x) else .bin op (.bin o l r) x
  | .lit s, op, x => .bin op (.lit s) x
  | .id s, op, x => .bin op (.id s) x
  | .attr o n, op, x => .bin op (.attr o n) x
  | .idx o i, op, x => .bin op (.idx o i) x
  | .un k e, op, x => .bin op (.un k e) x
  | .call o m a, op, x => .bin op (.call o m a) x
  | .paren e, op, x => .bin op (.paren e) x
  | .defn n e, op, x => .bin op (.defn n e) x

/-- the reference parser of one expression level: a left fold of insertions -/
def Climb (tab : Tab) (a : T) (rest : List (BinK × T)) : T :=
  rest.foldl (fun t p => ins tab t p.1 p.2) a

def NotBin : T → Prop
  | .bin _ _ _ => False
  | _ => True

instance : DecidablePred NotBin := fun t => by cases t <;> simp [NotBin] <;> infer_instance

theorem ins_notBin (tab : Tab) (t : T) (op : BinK) (x : T) (h : NotBin t) : ins tab t op x = .bin op t x := by
  cases t <;> simp [NotBin] at h <;> rfl

/-- items of one expression level, in source order -/
inductive Item where
  | opnd (t : T)
  | op (k : BinK)
  deriving DecidableEq

/-- in-order yield of the binary-operator skeleton (operands are the maximal non-binary subtrees) -/
def flatten : T → List Item
  | .bin k l r => flatten l ++ [.op k] ++ flatten r
  | .lit s => [.opnd (.lit s)]
  | .id s => [.opnd (.id s)]
  | .attr o n => [.opnd (.attr o n)]
  | .idx o i => [.opnd (.idx o i)]
  | .un k e => [.opnd (.un k e)]
  | .call o m a => [.opnd (.call o m a)]
  | .paren e => [.opnd (.paren e)]
  | .defn n e => [.opnd (.defn n e)]

def seqItems (a : T) (rest : List (BinK × T)) : List Item :=
  flatten a ++ rest.flatMap (fun p => .op p.1 :: flatten p.2)

theorem flatten_ins (tab : Tab) : ∀ (t : T) (op : BinK) (x : T),
    flatten (ins tab t op x) = flatten t ++ [.op op] ++ flatten x
  | .bin o l r, op, x => by
    have ihr := flatten_ins tab r op x
    simp only [ins]
    split
    · simp [flatten, ihr]
    · simp [flatten]
  | .lit _, _, _ => by simp [ins, flatten]
  | .id _, _, _ => by simp [ins, flatten]
  | .attr _ _, _, _ => by simp [ins, flatten]
  | .idx _ _, _, _ => by simp [ins, flatten]
  | .un _ _, _, _ => by simp [ins, flatten]
  | .call _ _ _, _, _ => by simp [ins, flatten]
  | .paren _, _, _ => by simp [ins, flatten]
  | .defn _ _, _, _ => by simp [ins, flatten]

theorem flatten_climb (tab : Tab) (a : T) (rest : List (BinK × T)) :
    flatten (Climb tab a rest) = seqItems a rest := by
  unfold Climb seqItems
  induction rest generalizing a with
  | nil => simp
  | cons p rest ih =>
    simp only [List.foldl_cons, List.flatMap_cons]
    rw [ih, flatten_ins]
    simp

/-- root operator binds at least as tight as `p` (or the tree is an operand) -/
def rootGe (tab : Tab) (p : Nat) : T → Prop
  | .bin o _ _ => p ≤ tab.bin o
  | _ => True

/-- root operator binds strictly tighter than `p` (or the tree is an operand) -/
def rootGt (tab : Tab) (p : Nat) : T → Prop
  | .bin o _ _ => p < tab.bin o
  | _ => True

/-- well-shaped binary skeleton: the left child's root binds at least as tight as the node (left grouping at equal
    precedence), the right child's root strictly tighter -/
def Shaped (tab : Tab) : T → Prop
  | .bin k l r => Shaped tab l ∧ Shaped tab r ∧ rootGe tab (tab.bin k) l ∧ rootGt tab (tab.bin k) r
  | _ => True

theorem rootGe_of_le (tab : Tab) {p q : Nat} (t : T) (h : rootGe tab q t) (hpq : p ≤ q) : rootGe tab p t := by
  cases t <;> simp [rootGe] at * ; omega

/-- inserting keeps the skeleton well-shaped, and the root of the result still binds at least as tight as
    `min (root of t) op` -/
theorem shaped_opnd (tab : Tab) (x : T) (hx : NotBin x) : Shaped tab x ∧ ∀ p, rootGt tab p x := by
  cases x <;> simp [NotBin] at hx <;> simp [Shaped, rootGt]

theorem shaped_ins (tab : Tab) : ∀ (t : T) (op : BinK) (x : T), Shaped tab t → NotBin x →
    Shaped tab (ins tab t op x) ∧ (∀ p, rootGt tab p t → p < tab.bin op → rootGt tab p (ins tab t op x))
  | .bin o l r, op, x, ht, hx => by
    obtain ⟨hl, hr, hge, hgt⟩ := ht
    simp only [ins]
    split
    · rename_i hlt
      obtain ⟨h1, h2⟩ := shaped_ins tab r op x hr hx
      refine ⟨⟨hl, h1, hge, h2 _ hgt hlt⟩, ?_⟩
      intro p hp _
      simpa [rootGt] using hp
    · rename_i hnlt
      refine ⟨⟨⟨hl, hr, hge, hgt⟩, (shaped_opnd tab x hx).1, ?_, (shaped_opnd tab x hx).2 _⟩, ?_⟩
      · simp [rootGe]; omega
      · intro p _ hp; simpa [rootGt] using hp
  | .lit _, _, x, _, hx => ⟨⟨trivial, (shaped_opnd tab x hx).1, trivial, (shaped_opnd tab x hx).2 _⟩, fun p _ hp => by simpa [ins, rootGt] using hp⟩
  | .id _, _, x, _, hx => ⟨⟨trivial, (shaped_opnd tab x hx).1, trivial, (shaped_opnd tab x hx).2 _⟩, fun p _ hp => by simpa [ins, rootGt] using hp⟩
  | .attr _ _, _, x, _, hx => ⟨⟨trivial, (shaped_opnd tab x hx).1, trivial, (shaped_opnd tab x hx).2 _⟩, fun p _ hp => by simpa [ins, rootGt] using hp⟩
  | .idx _ _, _, x, _, hx => ⟨⟨trivial, (shaped_opnd tab x hx).1, trivial, (shaped_opnd tab x hx).2 _⟩, fun p _ hp => by simpa [ins, rootGt] using hp⟩
  | .un _ _, _, x, _, hx => ⟨⟨trivial, (shaped_opnd tab x hx).1, trivial, (shaped_opnd tab x hx).2 _⟩, fun p _ hp => by simpa [ins, rootGt] using hp⟩
  | .call _ _ _, _, x, _, hx => ⟨⟨trivial, (shaped_opnd tab x hx).1, trivial, (shaped_opnd tab x hx).2 _⟩, fun p _ hp => by simpa [ins, rootGt] using hp⟩
  | .paren _, _, x, _, hx => ⟨⟨trivial, (shaped_opnd tab x hx).1, trivial, (shaped_opnd tab x hx).2 _⟩, fun p _ hp => by simpa [ins, rootGt] using hp⟩
  | .defn _ _, _, x, _, hx => ⟨⟨trivial, (shaped_opnd tab x hx).1, trivial, (shaped_opnd tab x hx).2 _⟩, fun p _ hp => by simpa [ins, rootGt] using hp⟩

theorem shaped_climb (tab : Tab) (a : T) (rest : List (BinK × T)) (ha : Shaped tab a)
    (hrest : ∀ p ∈ rest, NotBin p.2) : Shaped tab (Climb tab a rest) := by
  unfold Climb
  induction rest generalizing a with
  | nil => simpa using ha
  | cons p rest ih =>
    simp only [List.foldl_cons]
    exact ih _ (shaped_ins tab a p.1 p.2 ha (hrest p (by simp))).1 (fun q hq => hrest q (by simp [hq]))

/-- the root of a climb binds strictly tighter than `m` when every operator does -/
theorem rootGt_climb (tab : Tab) (m : Nat) (a : T) (rest : List (BinK × T)) (ha : rootGt tab m a) (ha' : Shaped tab a)
    (hrest : ∀ p ∈ rest, NotBin p.2 ∧ m < tab.bin p.1) : rootGt tab m (Climb tab a rest) := by
  unfold Climb
  induction rest generalizing a with
  | nil => simpa using ha
  | cons p rest ih =>
    simp only [List.foldl_cons]
    have h := shaped_ins tab a p.1 p.2 ha' (hrest p (by simp)).1
    exact ih _ (h.2 m ha (hrest p (by simp)).2) h.1 (fun q hq => hrest q (by simp [hq]))

/-! ### the operator stack refines right-spine insertion -/

/-- head is the most recent operator; precedences strictly decrease going down the stack -/
def Incr (tab : Tab) : List (T × BinK) → Prop
  | [] => True
  | (_, o1) :: ps => (∀ p ∈ ps, tab.bin p.2 < tab.bin o1) ∧ Incr tab ps

theorem finish_append (qs ps : List (T × BinK)) (t : T) :
    finish (qs ++ ps) t = finish ps (finish qs t) := by
  induction qs generalizing t with
  | nil => rfl
  | cons q qs ih => obtain ⟨l, o⟩ := q; simp [finish, ih]

theorem ins_finish_lt (tab : Tab) (ps : List (T × BinK)) (t : T) (op : BinK) (x : T)
    (hall : ∀ p ∈ ps, tab.bin p.2 < tab.bin op) :
    ins tab (finish ps t) op x = finish ps (ins tab t op x) := by
  induction ps generalizing t with
  | nil => rfl
  | cons p ps ih =>
    obtain ⟨l, o⟩ := p
    have ho : tab.bin o < tab.bin op := hall (l, o) (by simp)
    simp only [finish]
    rw [ih _ (fun p hp => hall p (by simp [hp]))]
    simp [ins, ho]

theorem ins_rootGe (tab : Tab) (e : T) (op : BinK) (x : T) (h : rootGe tab (tab.bin op) e) :
    ins tab e op x = .bin op e x := by
  cases e with
  | bin o l r => simp [rootGe] at h; simp [ins]; omega
  | _ => rfl

theorem rootGe_finish (tab : Tab) (qs : List (T × BinK)) (t : T) (op : BinK) (ht : rootGe tab (tab.bin op) t)
    (hall : ∀ p ∈ qs, tab.bin op ≤ tab.bin p.2) : rootGe tab (tab.bin op) (finish qs t) := by
  induction qs generalizing t with
  | nil => exact ht
  | cons q qs ih =>
    obtain ⟨l, o⟩ := q
    simp only [finish]
    exact ih _ (by simp [rootGe]; exact hall (l, o) (by simp)) (fun p hp => hall p (by simp [hp]))

theorem reduceWhile_spec (tab : Tab) (op : BinK) (pend : List (T × BinK)) (e : T) (hinc : Incr tab pend) :
    ∃ qs ps, pend = qs ++ ps ∧ (∀ p ∈ qs, tab.bin op ≤ tab.bin p.2) ∧ (∀ p ∈ ps, tab.bin p.2 < tab.bin op) ∧ Incr tab ps ∧
      reduceWhile tab op pend e = (ps, finish qs e) := by
  induction pend generalizing e with
  | nil => exact ⟨[], [], rfl, by simp, by simp, trivial, rfl⟩
  | cons p pend ih =>
    obtain ⟨l, o⟩ := p
    obtain ⟨hlt, hinc'⟩ := hinc
    by_cases ho : tab.bin o ≥ tab.bin op
    · obtain ⟨qs, ps, h1, h2, h3, h4, h5⟩ := ih (.bin o l e) hinc'
      refine ⟨(l, o) :: qs, ps, by simp [h1], ?_, h3, h4, ?_⟩
      · intro p hp; simp at hp; rcases hp with rfl | hp
        · exact ho
        · exact h2 p hp
      · simp [reduceWhile, ho, h5, finish]
    · refine ⟨[], (l, o) :: pend, rfl, by simp, ?_, ⟨hlt, hinc'⟩, by simp [reduceWhile, ho, finish]⟩
      intro p hp; simp at hp; rcases hp with rfl | hp
      · simp; omega
      · have := hlt p hp; omega

def absT (s : St) : T := finish s.pend s.top
def StInv (tab : Tab) (s : St) : Prop := Incr tab s.pend ∧ NotBin s.top

theorem pushOp_refines (tab : Tab) (s : St) (op : BinK) (x : T) (h : StInv tab s) (hx : NotBin x) :
    absT (pushOp tab s op x) = ins tab (absT s) op x ∧ StInv tab (pushOp tab s op x) := by
  obtain ⟨hinc, hy⟩ := h
  obtain ⟨qs, ps, h1, h2, h3, h4, h5⟩ := reduceWhile_spec tab op s.pend s.top hinc
  have htop : rootGe tab (tab.bin op) s.top := by
    cases hs : s.top <;> simp [hs, NotBin] at hy <;> simp [rootGe]
  have hroot : rootGe tab (tab.bin op) (finish qs s.top) := rootGe_finish tab qs s.top op htop h2
  constructor
  · simp only [absT, pushOp, h5, finish]
    rw [h1, finish_append, ins_finish_lt _ _ _ _ _ h3, ins_rootGe _ _ _ _ hroot]
  · simp only [pushOp, h5]
    exact ⟨⟨h3, h4⟩, hx⟩

/-- the stack algorithm of `try_reduce_expr` computes the precedence climb, for every operand sequence and every table -/
theorem reduceOps_eq_climb (tab : Tab) (a : T) (rest : List (BinK × T)) (ha : NotBin a)
    (hrest : ∀ p ∈ rest, NotBin p.2) : reduceOps tab a rest = Climb tab a rest := by
  unfold reduceOps Climb
  suffices ∀ (s : St) (t : T), StInv tab s → absT s = t →
      absT (rest.foldl (fun s p => pushOp tab s p.1 p.2) s) = rest.foldl (fun t p => ins tab t p.1 p.2) t from
    this _ _ ⟨trivial, ha⟩ rfl
  induction rest with
  | nil => intro s t _ h; simpa using h
  | cons p rest ih =>
    intro s t hinv h
    obtain ⟨hr, hinv'⟩ := pushOp_refines tab s p.1 p.2 hinv (hrest p (by simp))
    exact ih (fun q hq => hrest q (by simp [hq])) _ _ hinv' (by rw [hr, h])

/-! ### the token-level parser: every expression level is the climb of non-binary operands -/

theorem nb_call (o : T) (m : Option (List Char)) (a : TL) : NotBin (.call o m a) := trivial
theorem nb_attr (o : T) (n : List Char) : NotBin (.attr o n) := trivial
theorem nb_idx (o i : T) : NotBin (.idx o i) := trivial

theorem mkCall_notBin (obj : T) (as : List T) : NotBin (mkCall obj as) := by
  unfold mkCall; split <;> trivial

theorem chain_callLoop_notBin : ∀ (f : Nat),
    (∀ c obj ts x ts', NotBin obj → chain f c obj ts = .ok (x, ts') → NotBin x) ∧
    (∀ c obj ts x ts', NotBin obj → callLoop f c obj ts = .ok (x, ts') → NotBin x)
  | 0 => by constructor <;> intro c obj ts x ts' _ h <;> simp [chain, callLoop] at h
  | f + 1 => by
    obtain ⟨ih1, ih2⟩ := chain_callLoop_notBin f
    constructor
    · intro c obj ts x ts' hobj h
      cases ts with
      | nil => simp [chain] at h; obtain ⟨rfl, _⟩ := h; exact hobj
      | cons t ts =>
        simp only [chain] at h
        repeat' split at h
        all_goals first
          | (simp at h; done)
          | exact ih2 _ _ _ _ _ hobj h
          | exact ih1 _ _ _ _ _ (by trivial) h
          | exact ih1 _ _ _ _ _ (mkCall_notBin _ _) h
    · intro c obj ts x ts' hobj h
      cases ts with
      | nil => simp [callLoop] at h; obtain ⟨rfl, _⟩ := h; exact hobj
      | cons t ts =>
        simp only [callLoop] at h
        repeat' split at h
        all_goals first
          | (simp at h; done)
          | exact ih2 _ _ _ _ _ (mkCall_notBin _ _) h
          | (simp only [Res.ok.injEq, Prod.mk.injEq] at h; obtain ⟨rfl, _⟩ := h; exact hobj)

theorem binLhs_notBin (f : Nat) (c : Cfg) (ts : List Tok) (x : T) (ts' : List Tok)
    (h : binLhs f c ts = .ok (x, ts')) : NotBin x := by
  cases f with
  | zero => simp [binLhs] at h
  | succ f =>
    cases ts with
    | nil => simp [binLhs] at h
    | cons t ts =>
      simp only [binLhs] at h
      repeat' split at h
      all_goals first
        | (simp at h; done)
        | exact (chain_callLoop_notBin f).1 _ _ _ _ _ (by trivial) h
        | (simp only [Res.ok.injEq, Prod.mk.injEq] at h; obtain ⟨rfl, _⟩ := h; trivial)

/-- invariant of the operand collection of one level: operands are non-binary, every operator read binds tighter than `m` -/
def LInv (c : Cfg) (m : Nat) (a : T) (rr : List (BinK × T)) : Prop :=
  NotBin a ∧ ∀ p ∈ rr, NotBin p.2 ∧ m < c.tab.bin p.1

theorem LInv_push (c : Cfg) (m : Nat) (a : T) (rr : List (BinK × T)) (k : BinK) (x : T)
    (h : LInv c m a rr) (hx : NotBin x) (hk : m < c.tab.bin k) : LInv c m a ((k, x) :: rr) := by
  refine ⟨h.1, ?_⟩
  intro p hp
  simp at hp
  rcases hp with rfl | hp
  · exact ⟨hx, hk⟩
  · exact h.2 p hp

theorem LInv_mapTop (c : Cfg) (m : Nat) (a : T) (rr : List (BinK × T)) (g : T → T)
    (h : LInv c m a rr) (hg : ∀ o, NotBin (g o)) : LInv c m (mapTop g a rr).1 (mapTop g a rr).2 := by
  cases rr with
  | nil => exact ⟨hg a, by simp [mapTop]⟩
  | cons q rr =>
    obtain ⟨k, x⟩ := q
    refine ⟨h.1, ?_⟩
    intro p hp
    simp [mapTop] at hp
    rcases hp with rfl | hp
    · exact ⟨hg x, (h.2 (k, x) (by simp)).2⟩
    · exact h.2 p (by simp [hp])

theorem LInv_mapTop' (c : Cfg) (m : Nat) (a : T) (rr : List (BinK × T)) (g : T → T) (a' : T) (rr' : List (BinK × T))
    (heq : mapTop g a rr = (a', rr')) (h : LInv c m a rr) (hg : ∀ o, NotBin (g o)) : LInv c m a' rr' := by
  have := LInv_mapTop c m a rr g h hg
  rw [heq] at this
  exact this

/-- what one expression level returns: the stack reduction of non-binary operands whose operators all bind tighter than `m`
    (or a definition `v = e`, chunk level only) -/
def Level (c : Cfg) (m : Nat) (t : T) : Prop :=
  (∃ a rest, NotBin a ∧ (∀ p ∈ rest, NotBin p.2 ∧ m < c.tab.bin p.1) ∧ t = reduceOps c.tab a rest) ∨ (∃ v e, t = .defn v e)

theorem level_of_inv (c : Cfg) (m : Nat) (a : T) (rr : List (BinK × T)) (h : LInv c m a rr) :
    Level c m (reduceOps c.tab a rr.reverse) :=
  .inl ⟨a, rr.reverse, h.1, fun p hp => h.2 p (by simpa using hp), rfl⟩

theorem loop_level : ∀ (f : Nat) (c : Cfg) (ch w : Bool) (m : Nat) (a : T) (rr : List (BinK × T)) (ts : List Tok) (t : T)
    (ts' : List Tok), LInv c m a rr → loop f c ch w m a rr ts = .ok (t, ts') → Level c m t
  | 0, _, _, _, _, _, _, _, _, _, _, h => by simp [loop] at h
  | f + 1, c, ch, w, m, a, rr, [], t, ts', hinv, h => by
    simp only [loop, Res.ok.injEq, Prod.mk.injEq] at h
    obtain ⟨rfl, _⟩ := h
    exact level_of_inv c m a rr hinv
  | f + 1, c, ch, w, m, a, rr, t0 :: ts, t, ts', hinv, h => by
    have ih := loop_level f c ch w m
    simp only [loop] at h
    repeat' split at h
    all_goals first
      | (simp at h; done)
      | (simp only [Res.ok.injEq, Prod.mk.injEq] at h; obtain ⟨rfl, _⟩ := h; exact level_of_inv c m a rr hinv)
      | (simp only [Res.ok.injEq, Prod.mk.injEq] at h; obtain ⟨rfl, _⟩ := h; exact .inr ⟨_, _, rfl⟩)
      | exact ih _ _ _ _ _ (LInv_mapTop c m a rr _ hinv (fun _ => nb_call _ _ _)) h
      | exact ih _ _ _ _ _ (LInv_mapTop c m a rr _ hinv (fun _ => nb_attr _ _)) h
      | exact ih _ _ _ _ _ (LInv_mapTop c m a rr _ hinv (fun _ => nb_idx _ _)) h
      | exact ih _ _ _ _ _ (LInv_mapTop c m a rr _ hinv (fun _ => mkCall_notBin _ _)) h
      | (rename_i hk _ _ _ hb; exact ih _ _ _ _ _ (LInv_push c m a rr _ _ hinv (binLhs_notBin _ _ _ _ _ hb) hk) h)

end ErgVerif.C11
