import ErgVerif.C11.Model
namespace ErgVerif.C11

/-- the rows of the generated table are the kinds the model indexes them by -/
theorem C11_gen_names : Gen.C11.names = BinK.all.map BinK.name ++ PreK.all.map PreK.name ++ ["Dot"] := by decide

end ErgVerif.C11
