import ErgVerif.C11.Proofs
/-!
C11 — property theorems. `genTab` is the precedence table regenerated from `TokenKind::precedence` on every run,
`docTab` the documented one (ranks from the property statement). `expr`/`binLhs`/`lex…` are the transcribed parser and
lexer (Model.lean); `Climb`/`Shaped`/`flatten` the specification (Proofs.lean).
-/
namespace ErgVerif.C11

/-- every operator of the property's table -/
inductive Op where
  | b (k : BinK) | p (k : PreK) | dot
  deriving DecidableEq

def Op.all : List Op := BinK.all.map .b ++ PreK.all.map .p ++ [.dot]

def Tab.prec (t : Tab) : Op → Nat
  | .b k => t.bin k
  | .p k => t.pre k
  | .dot => t.dot

/-- the rows of the generated table are the kinds the model indexes them by (so a row can neither shift nor go missing) -/
theorem C11_gen_names : Gen.C11.names = BinK.all.map BinK.name ++ PreK.all.map PreK.name ++ ["Dot"] := by decide

/-- T-gen: the table in the source orders the operators exactly as the documented table does
    (member access > ** > prefix + - ~ > * / // % > + - > shifts > && > ^^ > || > ranges > comparisons > and > or) -/
theorem C11_table : ∀ a ∈ Op.all, ∀ b ∈ Op.all, (genTab.prec a < genTab.prec b ↔ docTab.prec a < docTab.prec b) := by
  decide +kernel

theorem Op.all_complete : ∀ o : Op, o ∈ Op.all := by
  intro o
  cases o with
  | b k => cases k <;> decide
  | p k => cases k <;> decide
  | dot => decide

theorem C11_table_bin (a b : BinK) : genTab.bin a < genTab.bin b ↔ docTab.bin a < docTab.bin b :=
  C11_table (.b a) (Op.all_complete _) (.b b) (Op.all_complete _)

/-- the binary operators are exactly the category the parser's `BinOp` arm fires on, the prefix ones are `UnaryOp` -/
theorem C11_gen_categories :
    Gen.C11.cats = List.replicate 29 "BinOp" ++ List.replicate 3 "UnaryOp" ++ ["SpecialBinOp"] := by decide

/-- the operator-stack algorithm (`while prev_op.prec >= op_prec: reduce`, then `collect_last_binop_on_stack`) computes the
    precedence climb, for every table, every first operand and every list of (operator, operand) pairs -/
theorem C11_binops (tab : Tab) (a : T) (rest : List (BinK × T)) (ha : NotBin a) (hrest : ∀ p ∈ rest, NotBin p.2) :
    reduceOps tab a rest = Climb tab a rest :=
  reduceOps_eq_climb tab a rest ha hrest

example : ∃ (a : T) (rest : List (BinK × T)), NotBin a ∧ (∀ p ∈ rest, NotBin p.2) ∧ rest.length = 3 :=
  ⟨T.id ['x'], [(BinK.Plus, T.id ['y']), (BinK.Star, T.lit ['2']), (BinK.Pow, T.un .PreMinus (T.id ['z']))], trivial,
    by simp [NotBin], rfl⟩

/-- spec sanity: the climb keeps the operands and operators in source order -/
theorem C11_yield (tab : Tab) (a : T) (rest : List (BinK × T)) : flatten (Climb tab a rest) = seqItems a rest :=
  flatten_climb tab a rest

/-- spec sanity: the climb is well-shaped — in every binary node the left child's operator binds at least as tight
    (equal precedence groups to the left) and the right child's strictly tighter -/
theorem C11_shape (tab : Tab) (a : T) (rest : List (BinK × T)) (ha : NotBin a) (hrest : ∀ p ∈ rest, NotBin p.2) :
    Shaped tab (Climb tab a rest) :=
  shaped_climb tab a rest (shaped_opnd tab a ha).1 hrest

/-- the climb depends on the table only through the order of the precedences … -/
theorem ins_transfer (t1 t2 : Tab) (h : ∀ a b, t1.bin a < t1.bin b ↔ t2.bin a < t2.bin b) :
    ∀ (t : T) (op : BinK) (x : T), ins t1 t op x = ins t2 t op x
  | .bin o l r, op, x => by
    have ih := ins_transfer t1 t2 h r op x
    simp only [ins, ih, h o op]
  | .lit _, _, _ => rfl
  | .id _, _, _ => rfl
  | .attr _ _, _, _ => rfl
  | .idx _ _, _, _ => rfl
  | .un _ _, _, _ => rfl
  | .call _ _ _, _, _ => rfl
  | .paren _, _, _ => rfl
  | .defn _ _, _, _ => rfl

/-- … so with the table in the source it is the climb by the documented table -/
theorem C11_climb_documented (a : T) (rest : List (BinK × T)) : Climb genTab a rest = Climb docTab a rest := by
  unfold Climb
  induction rest generalizing a with
  | nil => rfl
  | cons p rest ih => simp only [List.foldl_cons]; rw [ins_transfer genTab docTab C11_table_bin]; exact ih _

/-- FULL, token level: for every configuration, fuel, context flags, lower bound `m` and token list, whatever one expression
    level of the transcribed parser returns is the documented precedence climb of non-binary operands (literals, names,
    attribute/index/call chains, parenthesised expressions, prefix applications) whose operators all bind tighter than `m`
    — or, at chunk level only, a definition `v = e` -/
theorem C11_full (f : Nat) (c : Cfg) (ch w : Bool) (m : Nat) (ts : List Tok) (t : T) (ts' : List Tok)
    (h : expr f c ch w m ts = .ok (t, ts')) :
    (∃ a rest, NotBin a ∧ (∀ p ∈ rest, NotBin p.2 ∧ m < c.tab.bin p.1) ∧ t = Climb c.tab a rest) ∨ (∃ v e, t = .defn v e) := by
  cases f with
  | zero => simp [expr] at h
  | succ f =>
    simp only [expr] at h
    split at h
    · rename_i a ts1 hb
      have hl := loop_level f c ch w m a [] ts1 t ts' ⟨binLhs_notBin _ _ _ _ _ hb, by simp⟩ h
      rcases hl with ⟨a', rest, ha', hr, rfl⟩ | hd
      · exact .inl ⟨a', rest, ha', hr, reduceOps_eq_climb c.tab a' rest ha' (fun p hp => (hr p hp).1)⟩
      · exact .inr hd
    · simp at h
    · simp at h

/-- … hence well-shaped, with a root that binds tighter than the bound it was parsed above -/
theorem C11_full_shape (f : Nat) (c : Cfg) (ch w : Bool) (m : Nat) (ts : List Tok) (t : T) (ts' : List Tok)
    (h : expr f c ch w m ts = .ok (t, ts')) : Shaped c.tab t ∧ rootGt c.tab m t := by
  rcases C11_full f c ch w m ts t ts' h with ⟨a, rest, ha, hr, rfl⟩ | ⟨v, e, rfl⟩
  · exact ⟨shaped_climb c.tab a rest (shaped_opnd c.tab a ha).1 (fun p hp => (hr p hp).1),
      rootGt_climb c.tab m a rest ((shaped_opnd c.tab a ha).2 m) (shaped_opnd c.tab a ha).1 hr⟩
  · exact ⟨trivial, trivial⟩

/-- prefix operators (fixed code): the operand of a prefix operator is an expression level all of whose top operators bind
    tighter than the prefix operator itself — with the real table only `**` — so `-x + 1` is `(-x) + 1` and `-x ** 2` is `-(x ** 2)` -/
theorem C11_prefix_operand (f : Nat) (c : Cfg) (hc : c.legacy = false) (u : PreK) (tx : List Char) (sp : Bool) (ts : List Tok)
    (x : T) (ts' : List Tok) (h : binLhs (f + 1) c ({ kind := .pre u, text := tx, sp := sp } :: ts) = .ok (x, ts')) :
    ∃ e, x = .un u e ∧ Shaped c.tab e ∧ rootGt c.tab (c.tab.pre u) e := by
  simp only [binLhs, hc] at h
  split at h
  · rename_i e ts2 he
    simp only [Res.ok.injEq, Prod.mk.injEq] at h
    obtain ⟨rfl, _⟩ := h
    have := C11_full_shape f c false false (c.tab.pre u) ts e ts2 (by simpa using he)
    exact ⟨e, rfl, this.1, this.2⟩
  · simp at h
  · simp at h

/-- with the table in the source, the only binary operators above the prefix operators are `**` -/
theorem C11_prefix_only_pow (u : PreK) (k : BinK) : genTab.pre u < genTab.bin k ↔ k = .Pow := by
  cases u <;> cases k <;> decide

/-! ### the lexer rules of the property -/

/-- a minus sign in prefix position directly before a digit is part of the literal (`lex_num('-')`) -/
theorem C11_literal_minus (prev : Cat) (before : Option Char) (d : Char) (r : List Char)
    (hfix : opFix prev before (some d) = some true) (hd : isDigit d = true)
    (hend : numEndOk (takeWhileC isDigit r).2 = true) :
    lexOne prev before '-' (d :: r) =
      .tok (numKind true (d :: (takeWhileC isDigit r).1)) ('-' :: d :: (takeWhileC isDigit r).1) (takeWhileC isDigit r).2 := by
  have hne : d ≠ '>' := by intro h; subst h; simp [isDigit] at hd
  have h1 : isDigit '-' = false := by decide
  have h2 : isAlpha '-' = false := by decide
  unfold lexOne
  simp only [h1, h2, Bool.false_eq_true, if_false]
  simp [hfix, hd, hend, hne]

/-- … and in infix position it is the binary operator -/
theorem C11_infix_minus (prev : Cat) (before : Option Char) (d : Char) (r : List Char)
    (hfix : opFix prev before (some d) = some false) (hne : d ≠ '>') :
    lexOne prev before '-' (d :: r) = .tok (.bin .Minus) ['-'] (d :: r) := by
  have h1 : isDigit '-' = false := by decide
  have h2 : isAlpha '-' = false := by decide
  unfold lexOne
  simp only [h1, h2, Bool.false_eq_true, if_false]
  simp [hfix, hne]

/-- `x -1`: after a name, a minus with a space before and none after is a prefix minus (so `-1` is one literal and the
    parser sees a juxtaposition call); `x - 1` and `x-1` are subtractions -/
theorem C11_opfix_spacing :
    opFix .sym (some ' ') (some '1') = some true ∧ opFix .sym (some ' ') (some ' ') = some false ∧
    opFix .sym (some 'x') (some '1') = some false ∧ opFix .binop (some ' ') (some ' ') = some true := by decide

/-! ### concrete parses (kernel-evaluated), the legacy behaviour, non-vacuity -/

def tk (k : TK) (s : String) (sp : Bool := true) : Tok := { kind := k, text := s.toList, sp := sp }

/-- `-x + 1` -/
def wPrefix : List Tok := [tk (.pre .PreMinus) "-" false, tk .sym "x" false, tk (.bin .Plus) "+", tk .nat "1"]

/-- finding #4, fixed: `-x + 1` parses as `(-x) + 1` … -/
theorem C11_prefix_fixed :
    parseToks cfgGen wPrefix = .ok (.bin .Plus (.un .PreMinus (.id ['x'])) (.lit ['1'])) := by decide +kernel

/-- … and the code at the pinned commit (`legacy := true`: the operand of a prefix operator is a whole expression) parsed it
    as `-(x + 1)`, which is not what the documented table gives -/
theorem C11_legacy_witness :
    parseToks cfgLegacy wPrefix = .ok (.un .PreMinus (.bin .Plus (.id ['x']) (.lit ['1']))) ∧
    parseToks cfgLegacy wPrefix ≠ parseToks cfgDoc wPrefix := by decide +kernel

/-- `-x ** 2` is `-(x ** 2)`, `2 ** -x ** 3` is `2 ** (-(x ** 3))`, `a - b - c` groups to the left, `a + b * c ** d < e` -/
theorem C11_examples :
    parseToks cfgGen [tk (.pre .PreMinus) "-" false, tk .sym "x" false, tk (.bin .Pow) "**", tk .nat "2"]
      = .ok (.un .PreMinus (.bin .Pow (.id ['x']) (.lit ['2']))) ∧
    parseToks cfgGen [tk .nat "2" false, tk (.bin .Pow) "**", tk (.pre .PreMinus) "-", tk .sym "x" false, tk (.bin .Pow) "**", tk .nat "3"]
      = .ok (.bin .Pow (.lit ['2']) (.un .PreMinus (.bin .Pow (.id ['x']) (.lit ['3'])))) ∧
    parseToks cfgGen [tk .sym "a" false, tk (.bin .Minus) "-", tk .sym "b", tk (.bin .Minus) "-", tk .sym "c"]
      = .ok (.bin .Minus (.bin .Minus (.id ['a']) (.id ['b'])) (.id ['c'])) ∧
    parseToks cfgGen [tk .sym "a" false, tk (.bin .Plus) "+", tk .sym "b", tk (.bin .Star) "*", tk .sym "c", tk (.bin .Pow) "**",
        tk .sym "d", tk (.bin .Less) "<", tk .sym "e"]
      = .ok (.bin .Less (.bin .Plus (.id ['a']) (.bin .Star (.id ['b']) (.bin .Pow (.id ['c']) (.id ['d'])))) (.id ['e'])) := by
  decide +kernel

/-- the lexer on `x -1`, `x - 1`, `x-1`: literal minus vs subtraction -/
theorem C11_lex_examples :
    lex "x -1".toList = .ok [tk .sym "x" false, tk .int "-1"] ∧
    lex "x - 1".toList = .ok [tk .sym "x" false, tk (.bin .Minus) "-", tk .nat "1"] ∧
    lex "x-1".toList = .ok [tk .sym "x" false, tk (.bin .Minus) "-" false, tk .nat "1" false] ∧
    lex "x * -1".toList = .ok [tk .sym "x" false, tk (.bin .Star) "*", tk .int "-1"] := by decide +kernel

-- non-vacuity of `C11_full` / `C11_prefix_operand`: the hypotheses hold at concrete inputs
example : ∃ t ts', expr 40 cfgGen true true 0 wPrefix = .ok (t, ts') := by
  refine ⟨.bin .Plus (.un .PreMinus (.id ['x'])) (.lit ['1']), [], ?_⟩; decide +kernel
example : ∃ x ts', binLhs 40 cfgGen wPrefix = .ok (x, ts') := by
  refine ⟨.un .PreMinus (.id ['x']), [tk (.bin .Plus) "+", tk .nat "1"], ?_⟩; decide +kernel
example : opFix .lenc none (some '1') = some true ∧ isDigit '1' = true ∧ numEndOk (takeWhileC isDigit ['2', ' ']).2 = true := by decide

end ErgVerif.C11
