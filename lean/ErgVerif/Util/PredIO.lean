import ErgVerif.Util.Sexp
import ErgVerif.Shared.Pred
/-!
S-expression reading/printing of predicates and construction expressions for the C32/C03 (and later C06/C33) drivers.
Driver-level utility: `partial` is allowed here (Util/), nothing in this file is used by a theorem.
-/
namespace ErgVerif.PredIO
open ErgVerif

/-- insertion sort of printed members (ASCII): same order as Rust's `Vec<String>::sort` on these strings -/
def insertStr (s : String) : List String → List String
  | [] => [s]
  | t :: ts => if s ≤ t then s :: t :: ts else t :: insertStr s ts

def sortStrs (l : List String) : List String := l.foldr insertStr []

mutual
/-- canonical print; `Or` members sorted by their printed form (the harness does the same) -/
partial def showPred : Pred → String
  | .val b => "(val " ++ toString b ++ ")"
  | .eq c => "(eq " ++ toString c ++ ")"
  | .ge c => "(ge " ++ toString c ++ ")"
  | .le c => "(le " ++ toString c ++ ")"
  | .ne c => "(ne " ++ toString c ++ ")"
  | .and p q => "(and " ++ showPred p ++ " " ++ showPred q ++ ")"
  | .not p => "(not " ++ showPred p ++ ")"
  | .or ps => "(or" ++ String.join ((sortStrs (ps.toList.map showPred)).map (" " ++ ·)) ++ ")"
end

mutual
partial def exprOfSexp : Sexp → Option PExpr
  | .list [.atom "val", .atom "true"] => some (.val true)
  | .list [.atom "val", .atom "false"] => some (.val false)
  | .list [.atom k, .atom c] =>
    match c.toInt? with
    | none => none
    | some n =>
      if k = "eq" then some (.eq n) else if k = "ge" then some (.ge n) else if k = "le" then some (.le n)
      else if k = "ne" then some (.ne n) else if k = "gt" then some (.gt n) else if k = "lt" then some (.lt n) else none
  | .list [.atom k, a, b] =>
    match exprOfSexp a, exprOfSexp b with
    | some x, some y =>
      if k = "and" then some (.and x y) else if k = "or" then some (.or x y) else if k = "rand" then some (.rand x y)
      else if k = "ror" then some (.ror (.cons x (.cons y .nil))) else none
    | _, _ => none
  | .list (.atom "ror" :: es) => (exprListOfSexp es).map PExpr.ror
  | .list [.atom k, a] =>
    match exprOfSexp a with
    | some x => if k = "not" then some (.not x) else if k = "rnot" then some (.rnot x) else none
    | none => none
  | _ => none
partial def exprListOfSexp : List Sexp → Option PExprList
  | [] => some .nil
  | e :: es =>
    match exprOfSexp e, exprListOfSexp es with
    | some x, some xs => some (.cons x xs)
    | _, _ => none
end

mutual
/-- read a printed predicate structure (the implementation's output) back as a value; `Or` members are re-canonicalised -/
partial def predOfSexp : Sexp → Option Pred
  | .list [.atom "val", .atom "true"] => some (.val true)
  | .list [.atom "val", .atom "false"] => some (.val false)
  | .list [.atom "and", a, b] =>
    match predOfSexp a, predOfSexp b with
    | some x, some y => some (.and x y)
    | _, _ => none
  | .list [.atom "not", a] => (predOfSexp a).map Pred.not
  | .list (.atom "or" :: es) => (predListOfSexp es).map (fun l => Pred.or (PredList.ofList l))
  | .list [.atom k, .atom c] =>
    match c.toInt? with
    | none => none
    | some n =>
      if k = "eq" then some (.eq n) else if k = "ge" then some (.ge n) else if k = "le" then some (.le n)
      else if k = "ne" then some (.ne n) else none
  | _ => none
partial def predListOfSexp : List Sexp → Option (List Pred)
  | [] => some []
  | e :: es =>
    match predOfSexp e, predListOfSexp es with
    | some x, some xs => some (x :: xs)
    | _, _ => none
end

mutual
def exprConsts : PExpr → List Int
  | .val _ => []
  | .eq c | .ge c | .le c | .ne c | .gt c | .lt c => [c]
  | .and a b | .or a b | .rand a b => exprConsts a ++ exprConsts b
  | .not a | .rnot a => exprConsts a
  | .ror es => exprListConsts es
def exprListConsts : PExprList → List Int
  | .nil => []
  | .cons e es => exprConsts e ++ exprListConsts es
end

/-- constants the real code can represent: `Int(i32)` for negatives, `Nat(u64)` otherwise -/
def constInModel (c : Int) : Bool := decide (-2147483648 ≤ c) && decide (c < 18446744073709551616)

end ErgVerif.PredIO
