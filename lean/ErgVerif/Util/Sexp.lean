/-
S-expressions for the line protocol between the Rust/Python harnesses and the Lean model drivers.
Import-free (core only) so that every driver links as a `lean_exe`.

Grammar:  sexp ::= atom | "json-escaped string" | ( sexp* )
Atoms are maximal runs of characters other than whitespace, parentheses and the double quote.
-/
namespace ErgVerif

inductive Sexp where
  | atom (s : String)
  | str (s : List Char)
  | list (xs : List Sexp)
  deriving Repr, Inhabited

namespace Sexp

def hexDigit (n : Nat) : Char :=
  if n < 10 then Char.ofNat (48 + n) else Char.ofNat (87 + n)

def hexVal (c : Char) : Option Nat :=
  if '0' ≤ c ∧ c ≤ '9' then some (c.toNat - 48)
  else if 'a' ≤ c ∧ c ≤ 'f' then some (c.toNat - 87)
  else if 'A' ≤ c ∧ c ≤ 'F' then some (c.toNat - 55)
  else none

/-- escape a character list as the inside of a JSON string (ASCII output; astral characters are written
    as `\U` + 6 hex digits, which the harness side understands too). -/
def escChars : List Char → List Char
  | [] => []
  | c :: cs =>
    let rest := escChars cs
    if c = '"' then '\\' :: '"' :: rest
    else if c = '\\' then '\\' :: '\\' :: rest
    else if c = '\n' then '\\' :: 'n' :: rest
    else if c = '\t' then '\\' :: 't' :: rest
    else if c = '\r' then '\\' :: 'r' :: rest
    else if c.toNat < 32 ∨ c.toNat ≥ 127 then
      let n := c.toNat
      if n < 65536 then
        '\\' :: 'u' :: hexDigit (n / 4096 % 16) :: hexDigit (n / 256 % 16) :: hexDigit (n / 16 % 16) :: hexDigit (n % 16) :: rest
      else
        '\\' :: 'U' :: hexDigit (n / 1048576 % 16) :: hexDigit (n / 65536 % 16) :: hexDigit (n / 4096 % 16)
          :: hexDigit (n / 256 % 16) :: hexDigit (n / 16 % 16) :: hexDigit (n % 16) :: rest
    else c :: rest

def quote (cs : List Char) : String := String.ofList ('"' :: escChars cs ++ ['"'])

partial def toString : Sexp → String
  | .atom s => s
  | .str cs => quote cs
  | .list xs => "(" ++ " ".intercalate (xs.map toString) ++ ")"

instance : ToString Sexp := ⟨Sexp.toString⟩

def isDelim (c : Char) : Bool := c = ' ' || c = '\t' || c = '\n' || c = '\r' || c = '(' || c = ')' || c = '"'

def takeAtom : List Char → List Char → List Char × List Char
  | acc, [] => (acc.reverse, [])
  | acc, c :: cs => if isDelim c then (acc.reverse, c :: cs) else takeAtom (c :: acc) cs

def hexN : Nat → Nat → List Char → Option (Nat × List Char)
  | 0, acc, cs => some (acc, cs)
  | _ + 1, _, [] => none
  | k + 1, acc, c :: cs => match hexVal c with
    | some v => hexN k (acc * 16 + v) cs
    | none => none

/-- parse the inside of a string literal after the opening quote (driver-level utility: `partial`) -/
partial def takeStr : List Char → List Char → Option (List Char × List Char)
  | _, [] => none
  | acc, '"' :: cs => some (acc.reverse, cs)
  | _, ['\\'] => none
  | acc, '\\' :: e :: cs =>
    if e = 'n' then takeStr ('\n' :: acc) cs
    else if e = 't' then takeStr ('\t' :: acc) cs
    else if e = 'r' then takeStr ('\r' :: acc) cs
    else if e = 'u' then
      match hexN 4 0 cs with
      | some (v, rest) => takeStr (Char.ofNat v :: acc) rest
      | none => none
    else if e = 'U' then
      match hexN 6 0 cs with
      | some (v, rest) => takeStr (Char.ofNat v :: acc) rest
      | none => none
    else takeStr (e :: acc) cs
  | acc, c :: cs => takeStr (c :: acc) cs

mutual
  /-- parse one S-expression; returns it with the remaining input -/
  partial def parseOne : List Char → Option (Sexp × List Char)
    | [] => none
    | c :: cs =>
      if c = ' ' || c = '\t' || c = '\n' || c = '\r' then parseOne cs
      else if c = '(' then
        match parseMany cs [] with
        | some (xs, rest) => some (.list xs, rest)
        | none => none
      else if c = ')' then none
      else if c = '"' then
        match takeStr [] cs with
        | some (s, rest) => some (.str s, rest)
        | none => none
      else
        let (a, rest) := takeAtom [] (c :: cs)
        some (.atom (String.ofList a), rest)
  /-- parse a sequence up to the closing parenthesis -/
  partial def parseMany : List Char → List Sexp → Option (List Sexp × List Char)
    | [], _ => none
    | c :: cs, acc =>
      if c = ' ' || c = '\t' || c = '\n' || c = '\r' then parseMany cs acc
      else if c = ')' then some (acc.reverse, cs)
      else match parseOne (c :: cs) with
        | some (x, rest) => parseMany rest (x :: acc)
        | none => none
end

def parse (s : String) : Option Sexp :=
  match parseOne s.toList with
  | some (x, rest) => if rest.all (fun c => c = ' ' || c = '\t' || c = '\n' || c = '\r') then some x else none
  | none => none

/-- all top-level S-expressions on a line -/
partial def parseAll (cs : List Char) (acc : List Sexp := []) : Option (List Sexp) :=
  if cs.all (fun c => c = ' ' || c = '\t' || c = '\n' || c = '\r') then some acc.reverse
  else match parseOne cs with
    | some (x, rest) => parseAll rest (x :: acc)
    | none => none

def atomInt? : Sexp → Option Int
  | .atom s => s.toInt?
  | _ => none

def atomNat? : Sexp → Option Nat
  | .atom s => s.toNat?
  | _ => none

def int (i : Int) : Sexp := .atom (ToString.toString i)
def nat (n : Nat) : Sexp := .atom (ToString.toString n)
def bool (b : Bool) : Sexp := .atom (if b then "true" else "false")

end Sexp

/-- read stdin line by line, answer each line (driver I/O loop; the only `partial` code besides the parser) -/
partial def lineLoop (h : IO.FS.Stream) (out : IO.FS.Stream) (f : String → String) : IO Unit := do
  let line ← h.getLine
  if line.isEmpty then
    out.flush
    return ()
  let l := if line.back = '\n' then (line.dropEnd 1).toString else line
  out.putStrLn (f l)
  lineLoop h out f

def splitTabs (s : String) : List String := s.splitOn "\t"

end ErgVerif
