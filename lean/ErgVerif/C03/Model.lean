import ErgVerif.Shared.Pred
/-!
C03 model = the shared predicate development (lean/ErgVerif/Shared/Pred.lean):
  `isSuper / isSuperPred` ← `Context::is_super_pred_of` (crates/erg_compiler/context/compare.rs), arms in source order
  `reduceStep / reducePreds` ← `Context::reduce_preds`
  `cmpConst` ← `Context::try_cmp` → `ValueObj::try_cmp` on integer constants (crates/erg_compiler/ty/value.rs)
  `Pred.ands / Pred.ors` ← `Predicate::ands / ors`; predicates are built by `PExpr.build` ← `Predicate::and/or/invert/gt/lt`
  `Cfg.current` = the tree after the `fix:` commits 2ac572f9 (And/And direction) and d0c08dbf (exact constant comparison);
  `Cfg.legacy`  = the pinned tree (kept for the witness theorems and for replaying the check against an old tree).
  `implies / refute` = the specification oracle (exact; `implies_iff`).
-/
namespace ErgVerif.C03
export ErgVerif (Pred PredList PExpr PExprList Cfg)
end ErgVerif.C03
