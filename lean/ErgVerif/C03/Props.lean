import ErgVerif.C03.Model
import ErgVerif.Shared.PredProofs
/-!
C03 — refinement subtyping is sound for integer predicates.
`P` is the required predicate (supertype side, `lhs` of `is_super_pred_of`), `Q` the supplied one.
-/
namespace ErgVerif.C03
open ErgVerif

/-- FULL STATEMENT, for the code as it is now: whenever `is_super_pred_of(P, Q)` accepts — for any hash-iteration order —
    every integer satisfying the supplied predicate `Q` satisfies the required predicate `P`. -/
theorem C03_sound (ord : List Pred → List Pred) (hord : OrdOK ord) (P Q : Pred)
    (h : isSuperPred (Cfg.current ord) P Q = true) : ∀ i : Int, Q.sat i = true → P.sat i = true :=
  isSuper_sound (Cfg.current ord) (by simp [Cfg.current]) rfl hord _ P Q h

/-- the same for any amount of fuel (the model's recursion bound plays no role in soundness) -/
theorem C03_sound_fuel (ord : List Pred → List Pred) (hord : OrdOK ord) (fuel : Nat) (P Q : Pred)
    (h : isSuper (Cfg.current ord) fuel P Q = true) : ∀ i : Int, Q.sat i = true → P.sat i = true :=
  isSuper_sound (Cfg.current ord) (by simp [Cfg.current]) rfl hord fuel P Q h

/-- the corollary the property states, at the level of surface expressions: if a function's declared return predicate `eP`
    is accepted against its body's predicate `eQ` (both built by the real constructors), no integer the body can produce
    (Boolean reading of `eQ`) lies outside the Boolean reading of `eP`. Combines `C03_sound` with C32 (`sat_build`). -/
theorem C03_return_in_range (ord : List Pred → List Pred) (hord : OrdOK ord) (eP eQ : PExpr)
    (h : isSuperPred (Cfg.current ord) eP.build eQ.build = true) : ∀ v : Int, eQ.den v = true → eP.den v = true := by
  intro v hv
  rw [← sat_build] at hv ⊢
  exact C03_sound ord hord _ _ h v hv

/-- the model's fuel is not an approximation: any fuel above the weight bound gives the same answer, so `isSuperPred` is the
    value of the (fuel-free) Rust recursion whenever the transcription is faithful -/
theorem C03_fuel_stable (cfg : Cfg) (hord : OrdOK cfg.ord) (n : Nat) (P Q : Pred) (hn : P.weight + Q.weight < n) :
    isSuper cfg n P Q = isSuperPred cfg P Q :=
  isSuper_fuel_stable cfg hord n _ P Q hn (by omega)

/-- every iteration order enumerated by the correspondence driver satisfies the hypothesis of `C03_sound` -/
theorem C03_driver_orders_ok (k : Nat) : OrdOK (ordK k) := ordK_ok k

/-- `reduce_preds("and", S)` keeps the meaning of the conjunction, for any order, when the comparison it uses is sound -/
theorem C03_reduce_and_equiv (ord : List Pred → List Pred) (hord : OrdOK ord) (sup : Pred → Pred → Bool) (hs : SoundSup sup)
    (S : List Pred) (i : Int) : allSat (reducePreds ord true sup S) i = allSat S i := reducePreds_and ord hord sup hs S i

/-- `reduce_preds("or", S)` keeps the meaning of the disjunction -/
theorem C03_reduce_or_equiv (ord : List Pred → List Pred) (hord : OrdOK ord) (sup : Pred → Pred → Bool) (hs : SoundSup sup)
    (S : List Pred) (i : Int) : anySat (reducePreds ord false sup S) i = anySat S i := reducePreds_or ord hord sup hs S i

/-- the specification oracle used by the driver is exact (no SMT solver in the trusted base) -/
theorem C03_oracle_exact (P Q : Pred) : implies P Q = true ↔ ∀ i : Int, Q.sat i = true → P.sat i = true := implies_iff P Q

/-- a refutation printed by the driver really is a counterexample -/
theorem C03_refute_sound (P Q : Pred) (i : Int) (h : refute P Q = some i) : Q.sat i = true ∧ P.sat i = false :=
  refute_sound P Q i h

/-! ### the pinned tree (fixed findings): the full statement was false, and exactly why -/

/-- LEGACY partial theorem: with the `(And, And)` arm answering `false` (i.e. for every verdict that does not depend on that
    arm) and exact constants, the legacy code was sound as well -/
theorem C03_legacy_partial (ord : List Pred → List Pred) (hord : OrdOK ord) (fuel : Nat) (P Q : Pred)
    (h : isSuper { aa := .off, f64 := false, ord := ord } fuel P Q = true) : ∀ i : Int, Q.sat i = true → P.sat i = true :=
  isSuper_sound _ (by simp) rfl hord fuel P Q h

/-- fixed finding `C03-and-and-direction`: the legacy arm accepted `{I ≥ 0 ∧ I ≤ 10} :> {I ≥ 5 ∧ I ≥ 6}` although 11
    satisfies the right side only; the repaired arm rejects it -/
theorem C03_legacy_witness_and_and :
    isSuper (Cfg.legacy id) 10 (.and (.ge 0) (.le 10)) (.and (.ge 5) (.ge 6)) = true ∧
    (Pred.and (.ge 5) (.ge 6)).sat 11 = true ∧ (Pred.and (.ge 0) (.le 10)).sat 11 = false ∧
    isSuperPred (Cfg.current id) (.and (.ge 0) (.le 10)) (.and (.ge 5) (.ge 6)) = false := by decide

/-- fixed finding `C03-f64-constant-compare`: through `f64` the constants 2^53+1 and 2^53 compared `Equal`, so
    `{I ≥ 2^53+1} :> {I ≥ 2^53}` was accepted although 2^53 satisfies the right side only -/
theorem C03_legacy_witness_f64 :
    isSuper (Cfg.legacy id) 2 (.ge 9007199254740993) (.ge 9007199254740992) = true ∧
    (Pred.ge 9007199254740992).sat 9007199254740992 = true ∧ (Pred.ge 9007199254740993).sat 9007199254740992 = false ∧
    isSuperPred (Cfg.current id) (.ge 9007199254740993) (.ge 9007199254740992) = false := by decide

/-! ### non-vacuity: the hypothesis of `C03_sound` is satisfiable by non-trivial pairs, through the structural arms too -/

example : isSuperPred (Cfg.current id) (.and (.ge 0) (.le 59)) (.and (.ge 1) (.le 20)) = true := by decide
example : isSuperPred (Cfg.current (ordK 1)) (.and (.ge 0) (.and (.le 60) (.ne 60))) (.and (.and (.ge 1) (.le 20)) (.ne 20)) = true := by
  decide
example : isSuperPred (Cfg.current id) (.or (PredList.ofList [.eq 0, .eq 1, .eq 2])) (.or (PredList.ofList [.eq 1, .eq 0])) = true := by
  decide
example : isSuperPred (Cfg.current id) (.ne 1) (.and (.ge 2) (.le 9)) = true := by decide
example : OrdOK id := fun _ _ => Iff.rfl

end ErgVerif.C03
