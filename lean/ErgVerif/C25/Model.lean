/-
C25 — model of the REPL wire format, both ends, with reads and writes split adversarially.

Transcribed code
* /repo/src/dummy.rs: `impl From<u8> for Inst` (`instFrom`), `Message::new` (`rustSize`: the 16-bit size field saturates
  at 65535 while the body is kept whole), `MessageStream::send_msg` (`rustFrame`, `rustSend` = `write_all` of
  `inst, size_be16, data`), `MessageStream::recv_msg` (`rustRecvMsg`: `read_exact` 1, 2, `size` bytes), the
  request/response round of `DummyVM::eval` (`evalStep`); `std::io::Read::read_exact` and `Write::write_all`
  default loops (`Sock.readExact`, `WSock.writeAll`).
* /repo/src/scripts/repl_server.py: `MessageStream.recv_msg` / `_recv_exact` (`pyRecvMsg`, as repaired by the `fix:` commit:
  loop until the 3 header bytes, then until `3 + data_len` bytes are buffered), `MessageStream.send_msg` (`pyFrame`, `pySend`:
  `len.to_bytes(2, 'big')` raises OverflowError above 65535; `sendall`), the dispatch of the server's main loop
  (`serverHandle`) and the loop itself (`serverLoop`). `legacyPyRecvMsg` / `legacyPySend` are the functions as they were at the pinned commit (one
  `socket.recv` per field, one `socket.send`); they are kept so that the old defect stays machine-checked (Props:
  `C25_witness_split_header`, `C25_witness_short_send`).

Streams. A `Sock` is the bytes in flight plus an adversarial schedule: the k-th `read`/`recv(n)` returns a *non-empty*
prefix of what is in flight, at most `n` bytes and at most the k-th schedule entry (0 is read as 1; an exhausted schedule
means "as much as asked"). An empty result therefore happens only when nothing is in flight (end of stream).
A `WSock` records what was written; the k-th `write`/`send` accepts a non-empty prefix bounded by its schedule entry.
Bytes are `Nat`s (the driver only ever builds values < 256; no theorem needs the bound on payload bytes).
Import-free: the driver links as a `lean_exe`.
-/
namespace ErgVerif.C25

abbrev Bytes := List Nat

/-! ### streams -/

structure Sock where
  data : Bytes
  sched : List Nat
  deriving DecidableEq, Repr

/-- one `read(buf[..n])` / `socket.recv(n)` -/
def Sock.recv (s : Sock) (n : Nat) : Bytes × Sock :=
  let cap := match s.sched with | [] => n | c :: _ => max 1 (min c n)
  let k := min cap n
  (s.data.take k, { data := s.data.drop k, sched := s.sched.tail })

/-- `Read::read_exact` for `n` bytes (also the Python `_recv_exact` loop, with the missing count as loop variable):
    `while n > 0 { k = read(n); if k == 0 { Err(UnexpectedEof) } n -= k }`. Every successful read makes progress, so
    fuel `n` suffices (`readExact_ok`). `none` = end of stream before `n` bytes. -/
def Sock.readExact (s : Sock) : (fuel n : Nat) → Option (Bytes × Sock)
  | _, 0 => some ([], s)
  | 0, _+1 => none
  | fuel+1, n+1 =>
    let (got, s') := s.recv (n+1)
    if got.isEmpty then none
    else match s'.readExact fuel (n+1 - got.length) with
      | some (rest, s'') => some (got ++ rest, s'')
      | none => none

structure WSock where
  written : Bytes
  sched : List Nat
  deriving DecidableEq, Repr

/-- one `write(buf)` / `socket.send(buf)`: number of bytes accepted, new state -/
def WSock.send (w : WSock) (b : Bytes) : Nat × WSock :=
  let cap := match w.sched with | [] => b.length | c :: _ => max 1 (min c b.length)
  let k := min cap b.length
  (k, { written := w.written ++ b.take k, sched := w.sched.tail })

/-- `Write::write_all` / `socket.sendall`: `while !buf.is_empty() { k = write(buf); if k == 0 { Err(WriteZero) } buf = buf[k..] }` -/
def WSock.writeAll (w : WSock) : (fuel : Nat) → Bytes → Option WSock
  | _, [] => some w
  | 0, _ :: _ => none
  | fuel+1, b :: bs =>
    let (k, w') := w.send (b :: bs)
    if k = 0 then none else w'.writeAll fuel ((b :: bs).drop k)

/-! ### instruction codes -/

/-- the seven instruction codes, as in `enum Inst` / `class INST` (the generated tables are compared with this in Props) -/
structure Codes where
  cUnknown : Nat
  cPrint : Nat
  cLoad : Nat
  cException : Nat
  cInitialize : Nat
  cExit : Nat
  cExecute : Nat
  deriving DecidableEq, Repr

def codes : Codes := ⟨0, 1, 2, 3, 4, 5, 6⟩

/-- `impl From<u8> for Inst` followed by `as u8` -/
def instFrom (v : Nat) : Nat :=
  if v = 1 then 1 else if v = 2 then 2 else if v = 3 then 3 else if v = 4 then 4 else if v = 5 then 5
  else if v = 6 then 6 else 0

/-! ### Rust end -/

/-- `Message::new`: the size field -/
def rustSize : Option Bytes → Nat
  | none => 0
  | some d => if d.length > 65535 then 65535 else d.length

/-- the bytes `send_msg` hands to `write_all` for `Message::new(Inst::from(inst), data)` -/
def rustFrame (inst : Nat) (data : Option Bytes) : Bytes :=
  instFrom inst :: (rustSize data / 256) :: (rustSize data % 256) :: data.getD []

/-- `send_msg` on a stream: `none` = `Err(WriteZero)` -/
def rustSend (w : WSock) (inst : Nat) (data : Option Bytes) : Option WSock :=
  w.writeAll (rustFrame inst data).length (rustFrame inst data)

/-- a received `Message` -/
structure RMsg where
  inst : Nat
  size : Nat
  data : Option Bytes
  deriving DecidableEq, Repr

/-- `recv_msg`; `none` = `Err(UnexpectedEof)` ("failed to fill whole buffer") -/
def rustRecvMsg (s : Sock) : Option (RMsg × Sock) :=
  match s.readExact 1 1 with
  | some ([inst], s1) =>
    match s1.readExact 2 2 with
    | some ([hi, lo], s2) =>
      let size := hi * 256 + lo
      if size = 0 then some (⟨instFrom inst, 0, none⟩, s2)
      else match s2.readExact size size with
        | some (d, s3) => some (⟨instFrom inst, rustSize (some d), some d⟩, s3)
        | none => none
    | _ => none
  | _ => none

/-- `verif_hooks::recv_all`: up to `n` messages, stop at the first error -/
def rustRecvAll : Nat → Sock → List (Option RMsg)
  | 0, _ => []
  | n+1, s => match rustRecvMsg s with
    | some (m, s') => some m :: rustRecvAll n s'
    | none => [none]

/-! ### Python end -/

/-- `int.from_bytes(b, 'big')` -/
def beInt (b : Bytes) : Nat := b.foldl (fun acc x => acc * 256 + x) 0

def isCont (b : Nat) : Bool := 0x80 ≤ b && b ≤ 0xBF

/-- `bytes.decode('utf-8')` succeeds (strict: no overlong forms, no surrogates, nothing above U+10FFFF).
    Specification of an external system (CPython's codec), validated differentially on every run. -/
def utf8Valid : Bytes → Bool
  | [] => true
  | b0 :: rest =>
    if b0 < 0x80 then utf8Valid rest
    else if 0xC2 ≤ b0 ∧ b0 ≤ 0xDF then
      match rest with
      | b1 :: r => if isCont b1 then utf8Valid r else false
      | _ => false
    else if 0xE0 ≤ b0 ∧ b0 ≤ 0xEF then
      match rest with
      | b1 :: b2 :: r =>
        if (if b0 = 0xE0 then 0xA0 ≤ b1 && b1 ≤ 0xBF else if b0 = 0xED then 0x80 ≤ b1 && b1 ≤ 0x9F else isCont b1)
          && isCont b2 then utf8Valid r else false
      | _ => false
    else if 0xF0 ≤ b0 ∧ b0 ≤ 0xF4 then
      match rest with
      | b1 :: b2 :: b3 :: r =>
        if (if b0 = 0xF0 then 0x90 ≤ b1 && b1 ≤ 0xBF else if b0 = 0xF4 then 0x80 ≤ b1 && b1 ≤ 0x8F else isCont b1)
          && isCont b2 && isCont b3 then utf8Valid r else false
      | _ => false
    else false

inductive PyErr where
  | connReset     -- ConnectionResetError raised by `_recv_exact` at end of stream
  | decode        -- UnicodeDecodeError
  | overflow      -- OverflowError of `to_bytes`
  deriving DecidableEq, Repr

/-- result of `recv_msg`: `(inst, text)` with the text carried as its UTF-8 bytes -/
inductive PyRx where
  | ok (inst : Nat) (text : Bytes)
  | err (e : PyErr)
  deriving DecidableEq, Repr

/-- `recv_msg` (repaired): `_recv_exact(3)`, header fields, `_recv_exact(3 + data_len)`, decode -/
def pyRecvMsg (s : Sock) : PyRx × Sock :=
  match s.readExact 3 3 with
  | none => (.err .connReset, ⟨[], []⟩)
  | some (hdr, s1) =>
    let inst := beInt (hdr.take 1)
    let len := beInt ((hdr.drop 1).take 2)
    match s1.readExact len len with
    | none => (.err .connReset, ⟨[], []⟩)
    | some (body, s2) =>
      if utf8Valid body then (.ok inst body, s2) else (.err .decode, s2)

/-- `recv_msg` at the pinned commit: `buf = recv(3)`; `inst = buf[:1]`, `data_len = buf[1:3]`; `buf += recv(data_len)`;
    text = `buf[3:]` — a short `recv` is taken as the whole field -/
def legacyPyRecvMsg (s : Sock) : PyRx × Sock :=
  let (b1, s1) := s.recv 3
  let inst := beInt (b1.take 1)
  let len := beInt ((b1.drop 1).take 2)
  let (b2, s2) := s1.recv len
  let body := (b1 ++ b2).drop 3
  if utf8Valid body then (.ok inst body, s2) else (.err .decode, s2)

/-- up to `n` `recv_msg` calls on one stream, stopping at the first exception -/
def pyRecvAll (rx : Sock → PyRx × Sock) : Nat → Sock → List PyRx
  | 0, _ => []
  | n+1, s => match rx s with
    | (.ok i t, s') => .ok i t :: pyRecvAll rx n s'
    | (.err e, _) => [.err e]

/-- the bytes `send_msg(inst, text)` builds: `inst.to_bytes(1,'big') + len.to_bytes(2,'big') + data_bytes`;
    `none` = OverflowError (inst > 255 or more than 65535 bytes of text) -/
def pyFrame (inst : Nat) (text : Bytes) : Option Bytes :=
  if inst > 255 then none
  else if text.length > 65535 then none
  else some (inst :: (text.length / 256) :: (text.length % 256) :: text)

/-- `send_msg` (repaired: `sendall`) -/
def pySend (w : WSock) (inst : Nat) (text : Bytes) : Except PyErr WSock :=
  match pyFrame inst text with
  | none => .error .overflow
  | some f => match w.writeAll f.length f with
    | some w' => .ok w'
    | none => .ok w      -- unreachable (`writeAll_ok`)

/-- `send_msg` at the pinned commit: one `socket.send`, result ignored -/
def legacyPySend (w : WSock) (inst : Nat) (text : Bytes) : Except PyErr WSock :=
  match pyFrame inst text with
  | none => .error .overflow
  | some f => .ok (w.send f).2

/-! ### the request/response loop -/

/-- what executing a payload answers, given the `(inst, payload)` pairs the server handled before: Python's `exec` /
    `import` in the server's context, abstract. Returns `(response inst, response text)`. -/
abbrev Eval := List (Nat × Bytes) → Nat → Bytes → Nat × Bytes

/-- the server's dispatch on one received message: response and new handled-history -/
def serverHandle (ev : Eval) (hist : List (Nat × Bytes)) (inst : Nat) (text : Bytes) : (Nat × Bytes) × List (Nat × Bytes) :=
  if inst = 5 then ((5, []), hist)                                     -- EXIT: answer EXIT (and leave the loop)
  else if inst = 2 ∨ inst = 6 then (ev hist inst text, hist ++ [(inst, text)])   -- LOAD / EXECUTE
  else ((0, []), hist)                                                -- UNKNOWN

structure LState where
  c2s : Sock                       -- in flight client → server, and how the server's reads will be split
  s2c : Sock                       -- in flight server → client, and how the client's reads will be split
  hist : List (Nat × Bytes)
  deriving Repr

inductive StepRes where
  | result (inst : Nat) (text : Bytes)     -- what `recv_msg` hands to `eval`'s match
  | serverDied (e : PyErr)
  | clientReadError
  deriving DecidableEq, Repr

/-- one `DummyVM::eval` after compilation: client `send_msg(Execute, script)`, server `recv_msg` → dispatch → `send_msg`,
    client `recv_msg`. Sends append whole frames (`write_all`/`sendall` are total: Props `C25_rust_tx`, `C25_py_tx`);
    a blocking read that would wait for bytes never sent shows up as end of stream. -/
def evalStep (ev : Eval) (st : LState) (script : Bytes) : StepRes × LState :=
  let c2s : Sock := { st.c2s with data := st.c2s.data ++ rustFrame 6 (some script) }
  match pyRecvMsg c2s with
  | (.err e, c2s') => (.serverDied e, { st with c2s := c2s' })
  | (.ok inst text, c2s') =>
    let (resp, hist') := serverHandle ev st.hist inst text
    match pyFrame resp.1 resp.2 with
    | none => (.serverDied .overflow, { st with c2s := c2s', hist := hist' })
    | some f =>
      let s2c : Sock := { st.s2c with data := st.s2c.data ++ f }
      match rustRecvMsg s2c with
      | none => (.clientReadError, { c2s := c2s', s2c := ⟨[], []⟩, hist := hist' })
      | some (m, s2c') => (.result m.inst (m.data.getD []), { c2s := c2s', s2c := s2c', hist := hist' })

/-- a history of evals; stops at the first failure (the client exits the process) -/
def runHistory (ev : Eval) : LState → List Bytes → List StepRes
  | _, [] => []
  | st, s :: rest =>
    match evalStep ev st s with
    | (.result i t, st') => .result i t :: runHistory ev st' rest
    | (r, _) => [r]

/-- the answers the inputs *should* get: the n-th answer is the evaluation of the n-th input after the earlier ones -/
def specHistory (ev : Eval) : List (Nat × Bytes) → List Bytes → List (Nat × Bytes)
  | _, [] => []
  | hist, s :: rest => ev hist 6 s :: specHistory ev (hist ++ [(6, s)]) rest

/-! ### the server's main loop -/

inductive ServerEnd where
  | normal                 -- `break`: EXIT handled, or the connection was closed (ConnectionResetError is caught)
  | died (e : PyErr)       -- an exception left the loop (UnicodeDecodeError in `recv_msg`, OverflowError in `send_msg`)
  | outOfFuel
  deriving DecidableEq, Repr

/-- `while True: inst, data = recv_msg() …` of repl_server.py on one connection: everything the server writes, and how it ends.
    Every iteration consumes at least the 3 header bytes, so fuel `in-flight bytes + 1` suffices. -/
def serverLoop (ev : Eval) : Nat → Sock → WSock → List (Nat × Bytes) → WSock × ServerEnd
  | 0, _, w, _ => (w, .outOfFuel)
  | fuel+1, c2s, w, hist =>
    match pyRecvMsg c2s with
    | (.err .connReset, _) => (w, .normal)
    | (.err e, _) => (w, .died e)
    | (.ok inst text, c2s') =>
      let (resp, hist') := serverHandle ev hist inst text
      match pySend w resp.1 resp.2 with
      | .error e => (w, .died e)
      | .ok w' => if inst = 5 then (w', .normal) else serverLoop ev fuel c2s' w' hist'

/-! ### class of the recorded finding -/

/-- K = some payload is longer than 65535 bytes (the 16-bit size field cannot carry it) -/
def bigPayload (payloads : List Bytes) : Bool := payloads.any (fun d => d.length > 65535)

end ErgVerif.C25
