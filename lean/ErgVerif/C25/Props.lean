import ErgVerif.C25.Proofs
import ErgVerif.Gen.C25Inst
/-!
# C25 — REPL results stay in step with inputs for any history; framing decodes every message exactly as sent
however the byte stream is split into reads

Property theorems only. Model: `ErgVerif/C25/Model.lean` (Rust `Message`/`MessageStream` of src/dummy.rs, Python
`MessageStream` of src/scripts/repl_server.py after the `fix:` commit, and the pinned-commit Python functions as
`legacy…`). A message is `(inst, payload bytes)`; a stream is the bytes in flight plus an adversarial schedule that splits
every read (and every write) into arbitrary non-empty pieces. All theorems quantify over every schedule.
-/
namespace ErgVerif.C25

/-- what the Rust client puts on the wire for a list of messages (`send_msg` each) -/
def rustWire (msgs : List (Nat × Bytes)) : Bytes := (msgs.map (fun m => rustFrame m.1 (some m.2))).flatten

/-- what the Python server puts on the wire (`none` if some `send_msg` raises OverflowError) -/
def pyWire : List (Nat × Bytes) → Option Bytes
  | [] => some []
  | m :: ms => match pyFrame m.1 m.2, pyWire ms with
    | some f, some w => some (f ++ w)
    | _, _ => none

/-! ## senders: every write schedule -/

/-- Rust `send_msg` never fails on a stream that accepts bytes, and puts exactly the frame on the wire, in order,
    however `write` splits it. -/
theorem C25_rust_tx (w : WSock) (inst : Nat) (data : Option Bytes) :
    ∃ w', rustSend w inst data = some w' ∧ w'.written = w.written ++ rustFrame inst data :=
  writeAll_ok _ _ w (Nat.le_refl _)

/-- Python `send_msg` (repaired: `sendall`) puts exactly the frame on the wire however `send` splits it, for every
    payload the 16-bit size field can carry. -/
theorem C25_py_tx (w : WSock) (inst : Nat) (text : Bytes) (hi : inst ≤ 255) (hsz : text.length ≤ 65535) :
    ∃ w', pySend w inst text = .ok w' ∧
      w'.written = w.written ++ inst :: (text.length / 256) :: (text.length % 256) :: text := by
  obtain ⟨w', h1, h2⟩ := writeAll_ok (inst :: (text.length / 256) :: (text.length % 256) :: text).length _ w (Nat.le_refl _)
  exact ⟨w', by simp only [pySend, pyFrame_fits inst text hi hsz, h1], h2⟩

/-! ## receivers: every read schedule -/

/-- **Rust receiver, full.** Whatever messages the Python server sends (payloads up to 65535 bytes) and however the
    byte stream is split into reads, `recv_msg` returns them one by one: same payload, same size, instruction byte passed
    through `Inst::from`. Trailing bytes of later traffic (`rest`) do not disturb it. -/
theorem C25_rust_rx (msgs : List (Nat × Bytes)) (h : ∀ m ∈ msgs, m.1 ≤ 255 ∧ m.2.length ≤ 65535) :
    ∃ wire, pyWire msgs = some wire ∧ ∀ (rest : Bytes) (sched : List Nat),
      rustRecvAll msgs.length ⟨wire ++ rest, sched⟩
        = msgs.map (fun m => some ⟨instFrom m.1, m.2.length, if m.2 = [] then none else some m.2⟩) := by
  induction msgs with
  | nil => exact ⟨[], rfl, fun _ _ => rfl⟩
  | cons m ms ih =>
    obtain ⟨w, hw, hrec⟩ := ih (fun x hx => h x (by simp [hx]))
    obtain ⟨hi, hsz⟩ := h m (by simp)
    refine ⟨m.1 :: (m.2.length / 256) :: (m.2.length % 256) :: m.2 ++ w, by simp only [pyWire, pyFrame_fits m.1 m.2 hi hsz, hw], ?_⟩
    intro rest sched
    obtain ⟨s1, h1, d1⟩ := rustRecvMsg_frame m.1 m.2 (w ++ rest) sched hsz
    have hs1 : s1 = ⟨w ++ rest, s1.sched⟩ := by cases s1; simp_all
    simp only [List.cons_append, List.append_assoc] at h1 ⊢
    simp only [List.length, rustRecvAll, h1, List.map]
    congr 1
    rw [hs1]; exact hrec rest s1.sched

/-- … in particular a message whose instruction byte is one of the protocol's codes arrives exactly as sent. -/
theorem C25_rust_rx_exact (msgs : List (Nat × Bytes)) (h : ∀ m ∈ msgs, instFrom m.1 = m.1 ∧ m.2.length ≤ 65535) :
    ∃ wire, pyWire msgs = some wire ∧ ∀ (rest : Bytes) (sched : List Nat),
      (rustRecvAll msgs.length ⟨wire ++ rest, sched⟩).map (fun r => r.map (fun m => (m.inst, m.data.getD [])))
        = msgs.map some := by
  obtain ⟨wire, hw, hrec⟩ := C25_rust_rx msgs (fun m hm => ⟨by rw [← (h m hm).1]; exact instFrom_le _, (h m hm).2⟩)
  refine ⟨wire, hw, fun rest sched => ?_⟩
  rw [hrec rest sched, List.map_map]
  apply List.map_congr_left
  intro m hm
  obtain ⟨i, d⟩ := m
  have := (h (i, d) hm).1
  by_cases hd : d = [] <;> simp_all

/-- **Python receiver, full (after the repair).** Whatever messages the Rust client sends (payloads up to 65535 bytes of
    valid UTF-8 — `eval` sends a `String`) and however the byte stream is split into `recv` results, `recv_msg` returns
    them one by one, exactly. -/
theorem C25_py_rx (msgs : List (Nat × Bytes)) (h : ∀ m ∈ msgs, m.2.length ≤ 65535 ∧ utf8Valid m.2 = true)
    (rest : Bytes) (sched : List Nat) :
    pyRecvAll pyRecvMsg msgs.length ⟨rustWire msgs ++ rest, sched⟩ = msgs.map (fun m => .ok (instFrom m.1) m.2) := by
  induction msgs generalizing sched with
  | nil => rfl
  | cons m ms ih =>
    obtain ⟨hsz, hu⟩ := h m (by simp)
    have hflat : rustWire (m :: ms) ++ rest
        = instFrom m.1 :: (m.2.length / 256) :: (m.2.length % 256) :: m.2 ++ (rustWire ms ++ rest) := by
      simp [rustWire, rustFrame_fits m.1 m.2 hsz, List.append_assoc]
    obtain ⟨s1, h1, d1⟩ := pyRecvMsg_frame (instFrom m.1) m.2 (rustWire ms ++ rest) sched hsz hu
    have hs1 : s1 = ⟨rustWire ms ++ rest, s1.sched⟩ := by cases s1; simp_all
    rw [hflat]
    simp only [List.length, pyRecvAll, h1, List.map]
    congr 1
    rw [hs1]; exact ih (fun x hx => h x (by simp [hx])) s1.sched

/-- **No phantom message.** A stream that ends anywhere inside a frame yields an error, never a message, under every
    schedule: the Rust receiver reports `UnexpectedEof` … -/
theorem C25_rust_rx_truncated (i : Nat) (d : Bytes) (sched : List Nat) (k : Nat) (hk : k < 3 + d.length) :
    rustRecvMsg ⟨(i :: (d.length / 256) :: (d.length % 256) :: d).take k, sched⟩ = none := by
  unfold rustRecvMsg
  match k, hk with
  | 0, _ => simp [readExact_short]
  | 1, _ =>
    obtain ⟨s1, h1, d1⟩ := readExact_ok 1 1 ⟨[i], sched⟩ (by omega) (by simp)
    simp only [List.take_succ_cons, List.take_zero, List.drop_succ_cons, List.drop_zero] at h1 d1
    have h2 : s1.readExact 2 2 = none := readExact_short 2 2 s1 (by simp [d1])
    simp [h1, h2]
  | 2, _ =>
    obtain ⟨s1, h1, d1⟩ := readExact_ok 1 1 ⟨[i, d.length / 256], sched⟩ (by omega) (by simp)
    simp only [List.take_succ_cons, List.take_zero, List.drop_succ_cons, List.drop_zero] at h1 d1
    have h2 : s1.readExact 2 2 = none := readExact_short 2 2 s1 (by simp [d1])
    simp [h1, h2]
  | k + 3, hk =>
    obtain ⟨s1, h1, d1⟩ := readExact_ok 1 1 ⟨i :: (d.length / 256) :: (d.length % 256) :: d.take k, sched⟩ (by omega) (by simp)
    simp only [List.take_succ_cons, List.take_zero, List.drop_succ_cons, List.drop_zero] at h1 d1
    obtain ⟨s2, h2, d2⟩ := readExact_ok 2 2 s1 (by omega) (by simp [d1])
    simp only [d1, List.take_succ_cons, List.take_zero, List.drop_succ_cons, List.drop_zero] at h2 d2
    have hlen : (d.take k).length < d.length := by simp; omega
    have h3 : s2.readExact d.length d.length = none := readExact_short _ _ s2 (by rw [d2]; exact hlen)
    have hz : ¬ d.length = 0 := by omega
    simp [List.take_succ_cons, h1, h2, size_bytes, hz, h3]

/-- … and the repaired Python receiver raises ConnectionResetError (which the server's loop treats as "client gone"). -/
theorem C25_py_rx_truncated (i : Nat) (d : Bytes) (sched : List Nat) (k : Nat) (hk : k < 3 + d.length) :
    (pyRecvMsg ⟨(i :: (d.length / 256) :: (d.length % 256) :: d).take k, sched⟩).1 = .err .connReset := by
  unfold pyRecvMsg
  by_cases h3 : k < 3
  · have : (⟨(i :: (d.length / 256) :: (d.length % 256) :: d).take k, sched⟩ : Sock).readExact 3 3 = none :=
      readExact_short 3 3 _ (by simp; omega)
    simp [this]
  · obtain ⟨k, rfl⟩ : ∃ j, k = j + 3 := ⟨k - 3, by omega⟩
    obtain ⟨s1, h1, d1⟩ := readExact_ok 3 3 ⟨i :: (d.length / 256) :: (d.length % 256) :: d.take k, sched⟩ (by omega) (by simp)
    simp only [List.take_succ_cons, List.take_zero, List.drop_succ_cons, List.drop_zero] at h1 d1
    have hlen : (d.take k).length < d.length := by simp; omega
    have h2 : s1.readExact d.length d.length = none := readExact_short _ _ s1 (by rw [d1]; exact hlen)
    simp [List.take_succ_cons, h1, beInt_two, size_bytes, h2]

/-- A message sent without a body (`Message::new(inst, None)`, e.g. `Exit`) is framed like an empty body. -/
theorem C25_rust_none_frame (i : Nat) : rustFrame i none = rustFrame i (some []) := by
  simp [rustFrame, rustSize]

/-! ## payloads above 65535 bytes: the full statement is false (recorded finding, class `bigPayload`) -/

/-- **Witness class.** For *every* payload longer than 65535 bytes the Rust client writes size 65535 and the whole body;
    the Python receiver returns something other than the message sent and leaves the tail of the body in flight, where it
    will be read as the next header (later results are desynchronised). -/
theorem C25_witness_big_payload (i : Nat) (d : Bytes) (sched : List Nat) (hbig : d.length > 65535) :
    ∃ r s', pyRecvMsg ⟨rustFrame i (some d), sched⟩ = (r, s') ∧ r ≠ .ok (instFrom i) d
      ∧ s'.data = d.drop 65535 ∧ s'.data ≠ [] := by
  have hf : rustFrame i (some d) = instFrom i :: 255 :: 255 :: d := by simp [rustFrame, rustSize, hbig]
  rw [hf]
  obtain ⟨s2, h2, d2⟩ := pyRecvMsg_big i d sched hbig
  have hne : d.drop 65535 ≠ [] := by
    intro h0; have := congrArg List.length h0; simp at this; omega
  refine ⟨_, s2, h2, ?_, d2, by rw [d2]; exact hne⟩
  split
  · intro heq
    injection heq with _ hd
    have := congrArg List.length hd; simp at this; omega
  · simp

/-- a concrete member of the class: 70 000 × `a` -/
theorem C25_witness_big_payload_70000 (sched : List Nat) :
    ∃ r s', pyRecvMsg ⟨rustFrame 6 (some (List.replicate 70000 97)), sched⟩ = (r, s')
      ∧ r ≠ .ok 6 (List.replicate 70000 97) ∧ s'.data.length = 4465 := by
  obtain ⟨r, s', h1, h2, h3, _⟩ := C25_witness_big_payload 6 (List.replicate 70000 97) sched
    (by rw [List.length_replicate]; omega)
  exact ⟨r, s', h1, h2, by rw [h3, List.length_drop, List.length_replicate]⟩

/-- the other direction: the Python server cannot send more than 65535 bytes at all (`to_bytes(2, 'big')` raises) -/
theorem C25_witness_py_overflow (w : WSock) (i : Nat) (text : Bytes) (hbig : text.length > 65535) :
    pySend w i text = .error .overflow := by
  simp [pySend, pyFrame, hbig]

/-! ## the pinned-commit Python end (kept as witnesses of the repaired defect) -/

/-- the bytes a `send_msg` call left on the wire (`none` if it raised) -/
def writtenOf : Except PyErr WSock → Option Bytes
  | .ok w => some w.written
  | .error _ => none

def witnessMsgs : List (Nat × Bytes) :=
  [(6, [112, 114, 105, 110, 116, 40, 49, 41]), (6, [112, 114, 105, 110, 116, 40, 50, 41])]   -- "print(1)", "print(2)"

/-- Pinned commit: with the byte stream of two `Execute` messages delivered in pieces of 2, 8, 3 and 8 bytes the old
    `recv_msg` returned `(6, '')` and then `(8, 'int(1)\x06\x00')`; the repaired one returns both messages. -/
theorem C25_witness_split_header :
    pyRecvAll legacyPyRecvMsg 2 ⟨rustWire witnessMsgs, [2, 8, 3, 8]⟩
        = [.ok 6 [], .ok 8 [105, 110, 116, 40, 49, 41, 6, 0]]
    ∧ pyRecvAll pyRecvMsg 2 ⟨rustWire witnessMsgs, [2, 8, 3, 8]⟩ = witnessMsgs.map (fun m => .ok m.1 m.2) := by
  decide

/-- Pinned commit: `socket.send` accepting only 4 bytes lost the rest of the frame; `sendall` does not. -/
theorem C25_witness_short_send :
    writtenOf (legacyPySend ⟨[], [4]⟩ 1 [104, 101, 108, 108, 111]) = some [1, 0, 5, 104]
    ∧ writtenOf (pySend ⟨[], [4]⟩ 1 [104, 101, 108, 108, 111]) = some [1, 0, 5, 104, 101, 108, 108, 111] := by
  decide

/-! ## lock step -/

/-- **Lock step.** For every evaluator, every history of inputs and every splitting of both byte streams: if every script
    sent and every answer produced fits the size field (scripts being valid UTF-8, answers carrying one of the protocol's
    instruction codes), then the n-th result the client gets is the evaluation of the n-th input after the earlier ones,
    and nothing is left in flight. -/
theorem C25_lockstep (ev : Eval) (srcs : List Bytes) (st : LState)
    (hc : st.c2s.data = []) (hs : st.s2c.data = [])
    (hsrc : ∀ s ∈ srcs, s.length ≤ 65535 ∧ utf8Valid s = true)
    (hresp : ∀ r ∈ specHistory ev st.hist srcs, instFrom r.1 = r.1 ∧ r.2.length ≤ 65535) :
    runHistory ev st srcs = (specHistory ev st.hist srcs).map (fun r => .result r.1 r.2) := by
  induction srcs generalizing st with
  | nil => rfl
  | cons s rest ih =>
    obtain ⟨hsz, hu⟩ := hsrc s (by simp)
    obtain ⟨hri, hrsz⟩ := hresp (ev st.hist 6 s) (by simp [specHistory])
    have hi255 : (ev st.hist 6 s).1 ≤ 255 := by rw [← hri]; exact instFrom_le _
    -- server receives exactly the script
    obtain ⟨c1, hc1, dc1⟩ := pyRecvMsg_frame 6 s [] st.c2s.sched hsz hu
    have hframe : rustFrame 6 (some s) = 6 :: (s.length / 256) :: (s.length % 256) :: s := by
      rw [rustFrame_fits 6 s hsz]; rfl
    -- client receives exactly the answer
    obtain ⟨c2, hc2, dc2⟩ := rustRecvMsg_frame (ev st.hist 6 s).1 (ev st.hist 6 s).2 [] st.s2c.sched hrsz
    have hstep : evalStep ev st s
        = (.result (ev st.hist 6 s).1 (ev st.hist 6 s).2, { c2s := c1, s2c := c2, hist := st.hist ++ [(6, s)] }) := by
      have hsh : serverHandle ev st.hist 6 s = (ev st.hist 6 s, st.hist ++ [(6, s)]) := by simp [serverHandle]
      simp only [List.append_nil] at hc1 hc2
      simp only [evalStep, hc, hs, List.nil_append, hframe, hc1, hsh, pyFrame_fits _ _ hi255 hrsz, hc2, hri]
      by_cases hd : (ev st.hist 6 s).2 = [] <;> simp [hd]
    simp only [runHistory, hstep, specHistory, List.map]
    congr 1
    exact ih { c2s := c1, s2c := c2, hist := st.hist ++ [(6, s)] } dc1 dc2 (fun x hx => hsrc x (by simp [hx]))
      (fun r hr => hresp r (by simp only [specHistory, List.mem_cons]; exact Or.inr hr))

/-- the frame of a response (`send_msg(inst, text)`) when it fits -/
def respFrame (r : Nat × Bytes) : Bytes := r.1 :: (r.2.length / 256) :: (r.2.length % 256) :: r.2

/-- **The server loop, pipelined.** Even with *all* requests already in flight (not only one at a time), however the
    server's reads and writes are split: the server answers the n-th `Execute` with the evaluation of the n-th script after
    the earlier ones, then answers `Exit` with `Exit` and leaves the loop; it writes exactly these frames, in order. -/
theorem C25_server_loop (ev : Eval) (srcs : List Bytes) (hist : List (Nat × Bytes)) (rsched wsched : List Nat) (w0 : Bytes)
    (fuel : Nat) (hf : srcs.length + 1 ≤ fuel)
    (hsrc : ∀ s ∈ srcs, s.length ≤ 65535 ∧ utf8Valid s = true)
    (hresp : ∀ r ∈ specHistory ev hist srcs, r.1 ≤ 255 ∧ r.2.length ≤ 65535) :
    ∃ w', serverLoop ev fuel ⟨rustWire (srcs.map (fun s => (6, s))) ++ rustFrame 5 none, rsched⟩ ⟨w0, wsched⟩ hist = (w', .normal)
      ∧ w'.written = w0 ++ ((specHistory ev hist srcs).map respFrame).flatten ++ [5, 0, 0] := by
  induction srcs generalizing hist rsched wsched w0 fuel with
  | nil =>
    obtain ⟨fuel, rfl⟩ : ∃ f, fuel = f + 1 := ⟨fuel - 1, by simp at hf; omega⟩
    obtain ⟨c1, hc1, _⟩ := pyRecvMsg_frame 5 [] [] rsched (by simp) rfl
    obtain ⟨w1, hw1, hw1'⟩ := C25_py_tx ⟨w0, wsched⟩ 5 [] (by omega) (by simp)
    have hwire : rustWire (List.map (fun s => (6, s)) []) ++ rustFrame 5 none = [5, 0, 0] := by
      simp [rustWire, rustFrame, rustSize, instFrom]
    simp only [List.length_nil, Nat.zero_div, Nat.zero_mod, List.append_nil] at hc1 hw1'
    refine ⟨w1, ?_, by simp [specHistory, hw1']⟩
    simp only [serverLoop, hwire, hc1, serverHandle, if_true, hw1]
  | cons s rest ih =>
    obtain ⟨fuel, rfl⟩ : ∃ f, fuel = f + 1 := ⟨fuel - 1, by simp at hf; omega⟩
    obtain ⟨hsz, hu⟩ := hsrc s (by simp)
    obtain ⟨hri, hrsz⟩ := hresp (ev hist 6 s) (by simp [specHistory])
    have hwire : rustWire (List.map (fun s => (6, s)) (s :: rest)) ++ rustFrame 5 none
        = 6 :: (s.length / 256) :: (s.length % 256) :: s ++ (rustWire (List.map (fun s => (6, s)) rest) ++ rustFrame 5 none) := by
      have h6 : instFrom 6 = 6 := rfl
      simp [rustWire, rustFrame_fits 6 s hsz, h6, List.append_assoc]
    obtain ⟨c1, hc1, dc1⟩ := pyRecvMsg_frame 6 s (rustWire (List.map (fun s => (6, s)) rest) ++ rustFrame 5 none) rsched hsz hu
    have hcs : c1 = ⟨rustWire (List.map (fun s => (6, s)) rest) ++ rustFrame 5 none, c1.sched⟩ := by cases c1; simp_all
    obtain ⟨w1, hw1, hw1'⟩ := C25_py_tx ⟨w0, wsched⟩ (ev hist 6 s).1 (ev hist 6 s).2 hri hrsz
    have hws : w1 = ⟨w1.written, w1.sched⟩ := by cases w1; rfl
    have hsh : serverHandle ev hist 6 s = (ev hist 6 s, hist ++ [(6, s)]) := by simp [serverHandle]
    obtain ⟨w2, hw2, hw2'⟩ := ih (hist ++ [(6, s)]) c1.sched w1.sched w1.written fuel (by simp at hf ⊢; omega)
      (fun x hx => hsrc x (by simp [hx]))
      (fun r hr => hresp r (by simp only [specHistory, List.mem_cons]; exact Or.inr hr))
    refine ⟨w2, ?_, ?_⟩
    · rw [hwire]
      simp only [serverLoop, hc1, hsh, hw1, show ¬ (6 = 5) by decide, if_false]
      rw [hcs, hws]; exact hw2
    · rw [hw2', hw1']
      simp [specHistory, respFrame, List.append_assoc]

/-- The lock-step statement without the size hypothesis is false, for *every* script longer than 65535 bytes (whose first
    65535 bytes decode — e.g. ASCII) and every evaluator: the server evaluates the 65535-byte prefix instead of the
    script, and the tail stays in flight, to be read as the next request header. -/
theorem C25_witness_lockstep_big (ev : Eval) (d : Bytes) (sched : List Nat) (hbig : d.length > 65535)
    (hu : utf8Valid (d.take 65535) = true) :
    ∃ r st', evalStep ev ⟨⟨[], sched⟩, ⟨[], []⟩, []⟩ d = (r, st')
      ∧ st'.hist = [(6, d.take 65535)] ∧ d.take 65535 ≠ d ∧ st'.c2s.data = d.drop 65535 ∧ st'.c2s.data ≠ [] := by
  obtain ⟨s2, h2, d2⟩ := pyRecvMsg_big 6 d sched hbig
  have hf : rustFrame 6 (some d) = 6 :: 255 :: 255 :: d := by simp [rustFrame, rustSize, hbig, instFrom]
  have hi : instFrom 6 = 6 := rfl
  rw [hi, hu] at h2
  have hne : d.drop 65535 ≠ [] := by
    intro h0; have := congrArg List.length h0; simp at this; omega
  have hne2 : d.take 65535 ≠ d := by
    intro h0; have := congrArg List.length h0; simp at this; omega
  simp only [evalStep, List.nil_append, hf, h2, serverHandle]
  simp only [show ¬ (6 = 5) by decide, if_true, if_false]
  split
  · exact ⟨_, _, rfl, rfl, hne2, d2, by rw [d2]; exact hne⟩
  · split
    · exact ⟨_, _, rfl, rfl, hne2, d2, by rw [d2]; exact hne⟩
    · exact ⟨_, _, rfl, rfl, hne2, d2, by rw [d2]; exact hne⟩

/-! ## instruction tables (regenerated from both source files on every run) -/

/-- the byte → instruction map of `impl From<u8> for Inst`, read off the generated arm table -/
def fromTable (v : Nat) : Nat :=
  match Gen.C25Inst.rustFromArms.find? (fun a => a.1 = v) with
  | some a => a.2
  | none => Gen.C25Inst.rustFromDefault

/-- The `Inst` codes of src/dummy.rs and the `INST` constants of repl_server.py are the same seven codes, they are the
    codes the model uses, no side has a code the other lacks, `Inst::from` is the model's `instFrom` on every byte,
    and it inverts `as u8` on every code. -/
theorem C25_inst_tables_agree :
    Gen.C25Inst.rustEnum = Gen.C25Inst.pyInst
    ∧ Gen.C25Inst.rustEnum = [codes.cUnknown, codes.cPrint, codes.cLoad, codes.cException, codes.cInitialize, codes.cExit, codes.cExecute]
    ∧ Gen.C25Inst.extraRust = 0 ∧ Gen.C25Inst.extraPy = 0
    ∧ (∀ v, v < 256 → instFrom v = fromTable v)
    ∧ (∀ c ∈ Gen.C25Inst.rustEnum, instFrom c = c) := by
  decide +kernel

/-! ## non-vacuity -/

/-- a history satisfying the hypotheses of `C25_lockstep` with non-trivial sizes: three inputs, the second answer empty -/
example : runHistory (fun h _ t => (1, if h.length = 1 then [] else t ++ t)) ⟨⟨[], [1, 2]⟩, ⟨[], [3, 1, 1]⟩, []⟩ [[97], [98, 99], [100]]
    = [.result 1 [97, 97], .result 1 [], .result 1 [100, 100]] := by decide

/-- messages satisfying the hypotheses of `C25_py_rx`, including an empty payload and a 3-byte UTF-8 character, split
    into single-byte reads -/
example : pyRecvAll pyRecvMsg 3 ⟨rustWire [(6, [0xE3, 0x81, 0x82]), (5, []), (2, [120])] ++ [9], [1, 1, 1, 1, 1, 1, 1]⟩
    = [.ok 6 [0xE3, 0x81, 0x82], .ok 5 [], .ok 2 [120]] := by decide

/-- `C25_rust_rx`'s hypotheses: a Python-sent sequence with an unknown instruction byte (decoded as `Unknown`) -/
example : pyWire [(1, [104, 105]), (9, []), (4, [33])] = some [1, 0, 2, 104, 105, 9, 0, 0, 4, 0, 1, 33]
    ∧ rustRecvAll 3 ⟨[1, 0, 2, 104, 105, 9, 0, 0, 4, 0, 1, 33], [2, 0, 5, 1]⟩
      = [some ⟨1, 2, some [104, 105]⟩, some ⟨0, 0, none⟩, some ⟨4, 1, some [33]⟩] := by decide

end ErgVerif.C25
