import ErgVerif.C25.Model
/-!
Helper lemmas for C25: `read_exact` and `write_all` under every schedule, one-message decode lemmas for both ends.
-/
namespace ErgVerif.C25

/-! ### reads -/

theorem recv_len (s : Sock) (n : Nat) : (s.recv n).1.length ≤ n := by
  simp [Sock.recv]; omega

theorem recv_data (s : Sock) (n : Nat) : (s.recv n).1 ++ (s.recv n).2.data = s.data := by
  simp [Sock.recv]

theorem recv_progress (s : Sock) (n : Nat) (hn : 0 < n) (hd : s.data ≠ []) : (s.recv n).1 ≠ [] := by
  simp only [Sock.recv]
  cases hs : s.sched with
  | nil => simp; constructor; omega; exact hd
  | cons c cs => simp; constructor; omega; exact hd

/-- `read_exact n` returns exactly the next `n` bytes and leaves the rest, for every schedule -/
theorem readExact_ok (fuel n : Nat) (s : Sock) (hf : n ≤ fuel) (hlen : n ≤ s.data.length) :
    ∃ s', s.readExact fuel n = some (s.data.take n, s') ∧ s'.data = s.data.drop n := by
  induction fuel generalizing n s with
  | zero =>
    have : n = 0 := by omega
    subst this; exact ⟨s, by simp [Sock.readExact], by simp⟩
  | succ fuel ih =>
    cases n with
    | zero => exact ⟨s, by simp [Sock.readExact], by simp⟩
    | succ n =>
      have hd : s.data ≠ [] := by intro h; simp [h] at hlen
      have hp := recv_progress s (n+1) (by omega) hd
      have hl := recv_len s (n+1)
      have hdat := recv_data s (n+1)
      generalize hr : s.recv (n+1) = r at hp hl hdat
      obtain ⟨got, s1⟩ := r
      simp only at hp hl hdat
      have hgl : 0 < got.length := List.length_pos_iff.mpr hp
      have hlen1 : n + 1 - got.length ≤ s1.data.length := by
        have := congrArg List.length hdat; simp at this; omega
      obtain ⟨s2, h2, h3⟩ := ih (n + 1 - got.length) s1 (by omega) hlen1
      refine ⟨s2, ?_, ?_⟩
      · simp only [Sock.readExact, hr]
        have : got.isEmpty = false := by cases got <;> simp_all
        simp only [this, h2]
        rw [← hdat]
        simp [List.take_append]
        have : List.take (n+1) got = got := List.take_of_length_le hl
        simp [this]
      · rw [h3, ← hdat]
        simp [List.drop_append]
        exact hl

/-- `read_exact n` fails (end of stream) when fewer than `n` bytes are in flight, for every schedule -/
theorem readExact_short (fuel n : Nat) (s : Sock) (hlen : s.data.length < n) : s.readExact fuel n = none := by
  induction fuel generalizing n s with
  | zero => cases n with
    | zero => omega
    | succ n => simp [Sock.readExact]
  | succ fuel ih =>
    cases n with
    | zero => omega
    | succ n =>
      have hl := recv_len s (n+1)
      have hdat := recv_data s (n+1)
      generalize hr : s.recv (n+1) = r at hl hdat
      obtain ⟨got, s1⟩ := r
      simp only at hl hdat
      simp only [Sock.readExact, hr]
      by_cases hg : got.isEmpty
      · simp [hg]
      · have hlen1 : s1.data.length < n + 1 - got.length := by
          have := congrArg List.length hdat; simp at this; omega
        simp [hg, ih _ s1 hlen1]

/-! ### writes -/

theorem send_count (w : WSock) (b : Bytes) (hb : b ≠ []) : 0 < (w.send b).1 ∧ (w.send b).1 ≤ b.length := by
  have : 0 < b.length := List.length_pos_iff.mpr hb
  simp only [WSock.send]
  cases w.sched with
  | nil => simp; omega
  | cons c cs => simp; omega

theorem send_written (w : WSock) (b : Bytes) : (w.send b).2.written = w.written ++ b.take (w.send b).1 := by
  simp [WSock.send]

/-- `write_all` / `sendall` puts the whole buffer on the wire, in order, for every write schedule -/
theorem writeAll_ok (fuel : Nat) (b : Bytes) (w : WSock) (hf : b.length ≤ fuel) :
    ∃ w', w.writeAll fuel b = some w' ∧ w'.written = w.written ++ b := by
  induction fuel generalizing b w with
  | zero =>
    have : b = [] := List.eq_nil_of_length_eq_zero (by omega)
    subst this; exact ⟨w, by simp [WSock.writeAll], by simp⟩
  | succ fuel ih =>
    cases b with
    | nil => exact ⟨w, by simp [WSock.writeAll], by simp⟩
    | cons x xs =>
      obtain ⟨hpos, hle⟩ := send_count w (x :: xs) (by simp)
      have hw := send_written w (x :: xs)
      generalize hr : w.send (x :: xs) = r at hpos hle hw
      obtain ⟨k, w1⟩ := r
      simp only at hpos hle hw
      obtain ⟨w2, h2, h3⟩ := ih ((x :: xs).drop k) w1 (by simp only [List.length_drop]; simp only [List.length_cons] at hf hle ⊢; omega)
      refine ⟨w2, ?_, ?_⟩
      · simp only [WSock.writeAll, hr]
        have : ¬ k = 0 := by omega
        simp [this, h2]
      · rw [h3, hw, List.append_assoc, List.take_append_drop]

/-! ### one message, Rust receiver -/

theorem size_bytes (n : Nat) : n / 256 * 256 + n % 256 = n := by omega

/-- the Rust receiver decodes one well-formed frame exactly, whatever follows it and however reads are split -/
theorem rustRecvMsg_frame (i : Nat) (d rest : Bytes) (sched : List Nat) (hsz : d.length ≤ 65535) :
    ∃ s', rustRecvMsg ⟨i :: (d.length / 256) :: (d.length % 256) :: d ++ rest, sched⟩
        = some (⟨instFrom i, d.length, if d = [] then none else some d⟩, s') ∧ s'.data = rest := by
  unfold rustRecvMsg
  simp only [List.cons_append]
  obtain ⟨s1, h1, d1⟩ := readExact_ok 1 1 ⟨i :: (d.length / 256) :: (d.length % 256) :: (d ++ rest), sched⟩ (by omega) (by simp)
  simp only [List.take_succ_cons, List.take_zero, List.drop_succ_cons, List.drop_zero] at h1 d1
  rw [h1]
  obtain ⟨s2, h2, d2⟩ := readExact_ok 2 2 s1 (by omega) (by simp [d1])
  simp only [d1, List.take_succ_cons, List.take_zero, List.drop_succ_cons, List.drop_zero] at h2 d2
  simp only [h2, size_bytes]
  by_cases hz : d.length = 0
  · have : d = [] := List.eq_nil_of_length_eq_zero hz
    exact ⟨s2, by simp [this], by simp [d2, this]⟩
  · obtain ⟨s3, h3, d3⟩ := readExact_ok d.length d.length s2 (Nat.le_refl _) (by simp [d2])
    simp [d2] at h3 d3
    have hne : d ≠ [] := by intro h; simp [h] at hz
    refine ⟨s3, ?_, d3⟩
    simp [hz, h3, hne, rustSize]
    omega

/-! ### one message, Python receiver -/

theorem beInt_one (a : Nat) : beInt [a] = a := by simp [beInt]
theorem beInt_two (a b : Nat) : beInt [a, b] = a * 256 + b := by simp [beInt]

/-- the repaired Python receiver decodes one well-formed frame exactly, whatever follows and however reads are split -/
theorem pyRecvMsg_frame (i : Nat) (d rest : Bytes) (sched : List Nat) (_hsz : d.length ≤ 65535) (hu : utf8Valid d = true) :
    ∃ s', pyRecvMsg ⟨i :: (d.length / 256) :: (d.length % 256) :: d ++ rest, sched⟩ = (.ok i d, s') ∧ s'.data = rest := by
  unfold pyRecvMsg
  simp only [List.cons_append]
  obtain ⟨s1, h1, d1⟩ := readExact_ok 3 3 ⟨i :: (d.length / 256) :: (d.length % 256) :: (d ++ rest), sched⟩ (by omega) (by simp)
  simp only [List.take_succ_cons, List.take_zero, List.drop_succ_cons, List.drop_zero] at h1 d1
  rw [h1]
  simp only [List.take_succ_cons, List.take_zero, List.drop_succ_cons, List.drop_zero, beInt_one, beInt_two, size_bytes]
  obtain ⟨s2, h2, d2⟩ := readExact_ok d.length d.length s1 (Nat.le_refl _) (by simp [d1])
  simp [d1] at h2 d2
  exact ⟨s2, by simp [h2, hu], d2⟩

/-- the Python receiver on a frame whose size field saturated (body longer than 65535 bytes): it takes the first 65535
    bytes as the text and leaves the rest in flight -/
theorem pyRecvMsg_big (i : Nat) (d : Bytes) (sched : List Nat) (hbig : d.length > 65535) :
    ∃ s2, pyRecvMsg ⟨instFrom i :: 255 :: 255 :: d, sched⟩
        = (if utf8Valid (d.take 65535) = true then .ok (instFrom i) (d.take 65535) else .err .decode, s2)
      ∧ s2.data = d.drop 65535 := by
  unfold pyRecvMsg
  obtain ⟨s1, h1, d1⟩ := readExact_ok 3 3 ⟨instFrom i :: 255 :: 255 :: d, sched⟩ (by omega) (by simp)
  simp only [List.take_succ_cons, List.take_zero, List.drop_succ_cons, List.drop_zero] at h1 d1
  rw [h1]
  simp only [List.take_succ_cons, List.take_zero, List.drop_succ_cons, List.drop_zero, beInt_one, beInt_two]
  obtain ⟨s2, h2, d2⟩ := readExact_ok 65535 65535 s1 (Nat.le_refl _) (by rw [d1]; omega)
  rw [d1] at h2 d2
  refine ⟨s2, ?_, d2⟩
  simp only [h2]
  split <;> simp_all

/-- Rust sender, payload that fits: the frame is `inst, len_be16, data` -/
theorem rustFrame_fits (i : Nat) (d : Bytes) (h : d.length ≤ 65535) :
    rustFrame i (some d) = instFrom i :: (d.length / 256) :: (d.length % 256) :: d := by
  have : ¬ d.length > 65535 := by omega
  simp [rustFrame, rustSize, this]

theorem pyFrame_fits (i : Nat) (d : Bytes) (hi : i ≤ 255) (h : d.length ≤ 65535) :
    pyFrame i d = some (i :: (d.length / 256) :: (d.length % 256) :: d) := by
  have h1 : ¬ i > 255 := by omega
  have h2 : ¬ d.length > 65535 := by omega
  simp [pyFrame, h1, h2]

theorem instFrom_eq (v : Nat) : instFrom v = if 1 ≤ v ∧ v ≤ 6 then v else 0 := by
  unfold instFrom; grind

theorem instFrom_idem (v : Nat) : instFrom (instFrom v) = instFrom v := by
  simp only [instFrom_eq]; grind

theorem instFrom_le (v : Nat) : instFrom v ≤ 255 := by
  simp only [instFrom_eq]; grind

end ErgVerif.C25
