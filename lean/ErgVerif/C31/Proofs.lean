import ErgVerif.C31.Model
/-! Helper lemmas for C31 (no property statements here; those are in `Props.lean`). -/
namespace ErgVerif.C31

/-- the buffer that represents a denotation: `ups` kept `..` entries followed by the names -/
def bufOf (d : Den) : Buf := ⟨d.rooted, List.replicate d.ups Ent.up ++ d.names.map Ent.name⟩

/-- denotations the loop can produce: a rooted path never climbs -/
def Den.ok (d : Den) : Prop := d.rooted = true → d.ups = 0

theorem getLast?_bufOf_nil (r : Bool) (k : Nat) :
    (List.replicate k Ent.up ++ ([] : List (List Char)).map Ent.name).getLast? = if k = 0 then none else some Ent.up := by
  cases k with
  | zero => simp
  | succ k => simp [List.getLast?_replicate]

theorem step_bufOf (d : Den) (c : Comp) (h : d.ok) : step (bufOf d) c = bufOf (dstep d c) ∧ (dstep d c).ok := by
  obtain ⟨r, k, ns⟩ := d
  cases c with
  | root => simp [step, dstep, bufOf, Den.ok]
  | cur => exact ⟨rfl, h⟩
  | normal n => simp [step, dstep, bufOf, Den.ok] at h ⊢; exact h
  | parent =>
    rcases List.eq_nil_or_concat ns with hns | ⟨ns', n, hns⟩
    · subst hns
      cases k with
      | zero =>
        cases r <;> simp [step, dstep, bufOf, Den.ok]
      | succ k =>
        have hr : r = false := by
          cases r
          · rfl
          · simp [Den.ok] at h
        subst hr
        simp [step, dstep, bufOf, Den.ok, List.getLast?_replicate, List.replicate_succ']
    · subst hns
      have hl : (List.replicate k Ent.up ++ List.map Ent.name (ns' ++ [n])).getLast? = some (Ent.name n) := by
        simp
      have hd : (List.replicate k Ent.up ++ List.map Ent.name (ns' ++ [n])).dropLast
          = List.replicate k Ent.up ++ List.map Ent.name ns' := by
        rw [List.map_append, ← List.append_assoc]; simp
      have hds : dstep ⟨r, k, ns' ++ [n]⟩ Comp.parent = ⟨r, k, ns'⟩ := by
        simp only [dstep]
        split
        · rename_i heq; simp at heq
        · simp
      rw [List.concat_eq_append] at h ⊢
      rw [hds]
      refine ⟨?_, by simpa [Den.ok] using h⟩
      simp only [step, bufOf, hl, hd]

theorem foldl_step_bufOf (cs : List Comp) (d : Den) (h : d.ok) :
    cs.foldl step (bufOf d) = bufOf (denoteFrom d cs) ∧ (denoteFrom d cs).ok := by
  induction cs generalizing d with
  | nil => exact ⟨rfl, h⟩
  | cons c cs ih =>
    obtain ⟨h1, h2⟩ := step_bufOf d c h
    simp only [List.foldl_cons, denoteFrom, h1]
    exact ih _ h2

theorem canon_eq_bufOf (cs : List Comp) : canon cs = bufOf (denote cs) ∧ (denote cs).ok :=
  foldl_step_bufOf cs ⟨false, 0, []⟩ (by simp [Den.ok])

theorem denoteFrom_append (d : Den) (xs ys : List Comp) :
    denoteFrom d (xs ++ ys) = denoteFrom (denoteFrom d xs) ys := by
  simp [denoteFrom, List.foldl_append]

theorem denoteFrom_parents (r : Bool) (j k : Nat) (hr : r = false) :
    denoteFrom ⟨r, j, []⟩ (List.replicate k Comp.parent) = ⟨r, j + k, []⟩ := by
  subst hr
  induction k generalizing j with
  | zero => rfl
  | succ k ih =>
    simp only [List.replicate_succ, denoteFrom, List.foldl_cons, dstep]
    have := ih (j + 1)
    simp only [denoteFrom] at this
    simp [this]; omega

theorem denoteFrom_normals (d : Den) (ns : List (List Char)) :
    denoteFrom d (ns.map Comp.normal) = { d with names := d.names ++ ns } := by
  induction ns generalizing d with
  | nil => simp [denoteFrom]
  | cons n ns ih =>
    simp only [List.map_cons, denoteFrom, List.foldl_cons, dstep]
    have := ih { d with names := d.names ++ [n] }
    simp only [denoteFrom] at this
    simp [this]

/-- reading the components of the canonical buffer back gives the denotation it was built from -/
theorem denote_toComps_bufOf (d : Den) (h : d.ok) : denote (toComps (bufOf d)) = d := by
  obtain ⟨r, k, ns⟩ := d
  cases r with
  | false =>
    simp only [toComps, bufOf, List.map_append, List.map_replicate, Ent.toComp, List.map_map]
    have hf : (Ent.toComp ∘ Ent.name) = Comp.normal := by funext n; rfl
    simp only [hf, denote, denoteFrom_append, Bool.false_eq_true, if_false, List.nil_append]
    rw [denoteFrom_parents false 0 k rfl, denoteFrom_normals]
    simp
  | true =>
    have hk : k = 0 := by simpa [Den.ok] using h
    subst hk
    simp only [toComps, bufOf, List.replicate_zero, List.nil_append, List.map_map, if_true]
    have hf : (Ent.toComp ∘ Ent.name) = Comp.normal := by funext n; rfl
    simp only [hf, denote, List.singleton_append, denoteFrom, List.foldl_cons, dstep]
    have := denoteFrom_normals ⟨true, 0, []⟩ ns
    simp only [denoteFrom] at this
    simp [this]

end ErgVerif.C31
