import ErgVerif.C31.Proofs
/-!
# C31 — Module path normalisation identifies only identical files

Property theorems only. Model: `ErgVerif/C31/Model.lean` (transcription of `cheap_canonicalize_path` after the
`fix:` commit, and the pinned-commit version as `legacyCanon`). Spec: `denote`, the file a component list
names in a symlink-free tree (`ups` levels above the start directory for relative paths, then `names`).
-/
namespace ErgVerif.C31

/-- Normalisation preserves the denotation of every component list: in particular the number of leading
    parent-directory steps of a relative path (`ups`) is never discarded. -/
theorem C31_denote (cs : List Comp) : denote (toComps (canon cs)) = denote cs := by
  obtain ⟨h1, h2⟩ := canon_eq_bufOf cs
  rw [h1]; exact denote_toComps_bufOf _ h2

/-- Two paths with the same normal form name the same file. -/
theorem C31_same_only (p q : List Comp) (h : canon p = canon q) : denote p = denote q := by
  rw [← C31_denote p, ← C31_denote q, h]

/-- Normalisation is idempotent (on the components of its own output). -/
theorem C31_idem (cs : List Comp) : canon (toComps (canon cs)) = canon cs := by
  obtain ⟨h1, _⟩ := canon_eq_bufOf cs
  obtain ⟨h3, _⟩ := canon_eq_bufOf (toComps (canon cs))
  rw [h3, C31_denote, h1]

/-- The normal form is canonical: paths naming the same file get the same normal form (converse of
    `C31_same_only`; not demanded by the property, but it shows the fix did not over-separate). -/
theorem C31_complete (p q : List Comp) (h : denote p = denote q) : canon p = canon q := by
  rw [(canon_eq_bufOf p).1, (canon_eq_bufOf q).1, h]

/-- Leading parent-directory components of a relative path survive: `k` × `..` followed by names. -/
theorem C31_keeps_leading_parents (k : Nat) (ns : List (List Char)) :
    canon (List.replicate k Comp.parent ++ ns.map Comp.normal)
      = ⟨false, List.replicate k Ent.up ++ ns.map Ent.name⟩ := by
  rw [(canon_eq_bufOf _).1, denote, denoteFrom_append, denoteFrom_parents false 0 k rfl, denoteFrom_normals]
  simp [bufOf]

/-- Witness kept from the pinned commit: the old loop (`ParentDir ⇒ pop()`) identified `../a` with `a`,
    two different files. The repaired loop separates them. -/
theorem C31_legacy_witness :
    legacyCanon [.parent, .normal ['a']] = legacyCanon [.normal ['a']]
    ∧ denote [.parent, .normal ['a']] ≠ denote [.normal ['a']]
    ∧ canon [.parent, .normal ['a']] ≠ canon [.normal ['a']] := by decide

/-- non-vacuity: a path that climbs, cancels, and re-descends -/
example : denote (toComps (canon [.parent, .normal ['x'], .parent, .parent, .cur, .normal ['a']]))
    = ⟨false, 2, [['a']]⟩ := by decide

end ErgVerif.C31
