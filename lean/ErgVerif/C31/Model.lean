/-
C31 — model of module-path normalisation (`erg_common::cheap_canonicalize_path`, `normalize_path`,
`NormalizedPathBuf::new`) and of `std::path::Path::components` on Unix.

Transcribed code: /repo/crates/erg_common/lib.rs `cheap_canonicalize_path` (as repaired by the
`fix:` commit: a `..` cancels a preceding named component, is dropped directly under the root, and is
*kept* when there is nothing to cancel).
`legacyStep` is the function as it was at the pinned commit (`ParentDir ⇒ ret.pop()` unconditionally);
it is kept so that the old defect stays machine-checked as a witness (Props: `C31_legacy_witness`).
Import-free: the driver links as a `lean_exe`.
-/
namespace ErgVerif.C31

/-- `std::path::Component` on Unix (no prefixes). -/
inductive Comp where
  | root | cur | parent | normal (n : List Char)
  deriving DecidableEq, Repr

/-! ### `Path::components` on a Unix path string -/

/-- split on `/` keeping empty pieces -/
def splitSlash : List Char → List Char → List (List Char)
  | acc, [] => [acc.reverse]
  | acc, c :: cs => if c = '/' then acc.reverse :: splitSlash [] cs else splitSlash (c :: acc) cs

def pieceToComp (p : List Char) : Option Comp :=
  if p = [] then none
  else if p = ['.'] then none
  else if p = ['.', '.'] then some .parent
  else some (.normal p)

/-- `Path::components()`: repeated separators collapse, `.` is dropped except as the first component of
    a relative path, a leading `/` is `RootDir`. -/
def components (s : List Char) : List Comp :=
  match s with
  | [] => []
  | '/' :: rest => .root :: (splitSlash [] rest).filterMap pieceToComp
  | _ =>
    let ps := splitSlash [] s
    match ps with
    | [] => []
    | p :: rest =>
      (if p = ['.'] then [Comp.cur] else (pieceToComp p).toList) ++ rest.filterMap pieceToComp

/-! ### `PathBuf` as a component buffer -/

/-- a `PathBuf` built only by `push`/`pop` of single components: rootedness plus the list of entries after the
    root; an entry is a name or a kept `..` -/
inductive Ent where
  | name (n : List Char)
  | up
  deriving DecidableEq, Repr

structure Buf where
  rooted : Bool
  ents : List Ent
  deriving DecidableEq, Repr

def Buf.empty : Buf := ⟨false, []⟩

/-- `ret.components().next_back()` classified -/
def Buf.lastIsName (b : Buf) : Bool :=
  match b.ents.getLast? with
  | some (.name _) => true
  | _ => false

/-- one iteration of the `for component in components` loop (repaired code) -/
def step (b : Buf) : Comp → Buf
  | .root => { rooted := true, ents := [] }          -- `PathBuf::push("/")` replaces the buffer
  | .cur => b
  | .parent =>
    match b.ents.getLast? with
    | some (.name _) => { b with ents := b.ents.dropLast }    -- `ret.pop()`
    | some .up => { b with ents := b.ents ++ [.up] }
    | none => if b.rooted then b else { b with ents := b.ents ++ [.up] }
  | .normal n => { b with ents := b.ents ++ [.name n] }

/-- the loop as it was at the pinned commit: `ParentDir ⇒ ret.pop()` (a no-op on an empty or root-only buffer) -/
def legacyStep (b : Buf) : Comp → Buf
  | .root => { rooted := true, ents := [] }
  | .cur => b
  | .parent => { b with ents := b.ents.dropLast }
  | .normal n => { b with ents := b.ents ++ [.name n] }

def canon (cs : List Comp) : Buf := cs.foldl step Buf.empty
def legacyCanon (cs : List Comp) : Buf := cs.foldl legacyStep Buf.empty

def Ent.toComp : Ent → Comp
  | .name n => .normal n
  | .up => .parent

/-- the components of the resulting `PathBuf` (what `Path::components` yields on it) -/
def toComps (b : Buf) : List Comp := (if b.rooted then [Comp.root] else []) ++ b.ents.map Ent.toComp

def Ent.chars : Ent → List Char
  | .name n => n
  | .up => ['.', '.']

def joinSlash : List (List Char) → List Char
  | [] => []
  | [x] => x
  | x :: xs => x ++ '/' :: joinSlash xs

/-- the string of the `PathBuf` -/
def render (b : Buf) : List Char :=
  (if b.rooted then ['/'] else []) ++ joinSlash (b.ents.map Ent.chars)

/-- `NormalizedPathBuf::new` on Unix for strings without a backslash (`normalize_path` is then the identity;
    `CASE_SENSITIVE` is true) -/
def normalize (s : List Char) : List Char := render (canon (components s))

/-! ### Specification: what file a path denotes in a symlink-free tree -/

/-- denotation: for a rooted path the names from the root; for a relative path how many levels above the
    start directory, then the names below that ancestor -/
structure Den where
  rooted : Bool
  ups : Nat
  names : List (List Char)
  deriving DecidableEq, Repr

def dstep (d : Den) : Comp → Den
  | .root => ⟨true, 0, []⟩
  | .cur => d
  | .parent =>
    match d.names with
    | [] => if d.rooted then d else { d with ups := d.ups + 1 }
    | _ => { d with names := d.names.dropLast }
  | .normal n => { d with names := d.names ++ [n] }

def denoteFrom (d : Den) (cs : List Comp) : Den := cs.foldl dstep d
def denote (cs : List Comp) : Den := denoteFrom ⟨false, 0, []⟩ cs

end ErgVerif.C31
