import ErgVerif.C13.ProgSim
/-!
# C13 — every supported Python target runs the program identically (stage-1 fragment, targets 3.7 – 3.11)

Property theorems only. `compileV v base p` is the version-parameterised transcription of the code generator (Model.lean
header lists the Rust functions; for 3.11 it is C01's stage-1 generator), `runV v base code fuel` the model of target `v`'s
evaluation loop on code whose first chunk sits at byte offset `base` (after the import prelude), `runW` the version-independent
source semantics with the runtime wrapper classes.
NOT proved here: anything outside the stage-1 fragment (control flow other than and/or, functions, containers, floats),
the import prelude, marshalling and `.pyc` loading, the real interpreters (the machine models are specifications written by
hand, validated against the five interpreters on every run), interpreter selection beyond the command-line construction.
-/
namespace ErgVerif.C13
open ErgVerif.C07.Stage1

/-- The 3.11 theorem of C01, restated over the frozen stage-1 copy. -/
theorem C13_v311_simulates (p : Prog) (code : List Instr) (hc : compile p = some code) (hns : NoShadow p) :
    ∃ n, ∀ m, n ≤ m → runN code m VM.init = (runW p).1 := by
  have hcode : CodeAt code 0 code := ⟨[], [], by simp, rfl⟩
  exact (exec_stmts p code hc code 0 [] [] true hcode EnvOk.nil hns).runN

/-- Targets before 3.11 (`u` = bytes per jump-argument unit: 1 for 3.7–3.9, 2 for 3.10): the code generated for offset
    `base`, run on that target's machine from `base`, halts with the outcome of the source semantics. -/
theorem C13_old_simulates (u base : Nat) (hu : u = 1 ∨ u = 2) (hbase : base % 2 = 0) (p : Prog) (code : List Instr)
    (hc : compileStmtsO u base p = some code) (hns : NoShadow p) :
    ∃ n, ∀ m, n ≤ m → runG (stepO u base code) m (initAt base) = (runW p).1 := by
  have hcode : CodeAtO base code base code := ⟨[], [], by simp, by simp⟩
  exact (exec_stmtsO u base hu p base code hc hbase code [] [] true hcode EnvOk.nil hns).runG

theorem Ver.unit_cases (v : Ver) : v.unit = 1 ∨ v.unit = 2 := by cases v <;> simp [Ver.unit]

/-- **Every target computes the source semantics**: for each of 3.7, 3.8, 3.9, 3.10, 3.11, whenever the generator
    produces code for the program (it fails only through `fill_jump`'s u16 limit), that target's machine halts with the
    printed lines and exit status of `runW p` — which does not depend on the target. -/
theorem C13_same_outcome (v : Ver) (base : Nat) (hbase : base % 2 = 0) (p : Prog) (code : List Instr)
    (hc : compileV v base p = some code) (hns : NoShadow p) :
    ∃ n, ∀ m, n ≤ m → runV v base code m = (runW p).1 := by
  cases v with
  | v311 => exact C13_v311_simulates p code hc hns
  | v37 => exact C13_old_simulates _ base (Ver.unit_cases .v37) hbase p code hc hns
  | v38 => exact C13_old_simulates _ base (Ver.unit_cases .v38) hbase p code hc hns
  | v39 => exact C13_old_simulates _ base (Ver.unit_cases .v39) hbase p code hc hns
  | v310 => exact C13_old_simulates _ base (Ver.unit_cases .v310) hbase p code hc hns

/-- … hence any two targets agree with each other (in particular each one with the default target 3.11), whatever the
    sizes of their import preludes. -/
theorem C13_targets_agree (v₁ v₂ : Ver) (b₁ b₂ : Nat) (h₁ : b₁ % 2 = 0) (h₂ : b₂ % 2 = 0) (p : Prog) (c₁ c₂ : List Instr)
    (hc₁ : compileV v₁ b₁ p = some c₁) (hc₂ : compileV v₂ b₂ p = some c₂) (hns : NoShadow p) :
    ∃ n, ∀ m, n ≤ m → runV v₁ b₁ c₁ m = runV v₂ b₂ c₂ m := by
  obtain ⟨n₁, hn₁⟩ := C13_same_outcome v₁ b₁ h₁ p c₁ hc₁ hns
  obtain ⟨n₂, hn₂⟩ := C13_same_outcome v₂ b₂ h₂ p c₂ hc₂ hns
  exact ⟨max n₁ n₂, fun m hm => by rw [hn₁ m (by omega), hn₂ m (by omega)]⟩

/-- `fill_jump` on the targets before 3.11 converts the ABSOLUTE offset: it succeeds iff `target / unit < 65536`. -/
theorem C13_jumpArgsO_isSome (u target : Nat) : (jumpArgsO u target).isSome = decide (target / u < 65536) := by
  simp only [jumpArgsO]
  by_cases h : target / u < 65536 <;> simp [h]

/-- Witness that "every target compiles what 3.11 compiles" is FALSE of the code generator (finding C13-fill-jump-absolute):
    the same one-chunk program `print!(False or True)` compiles for 3.11 wherever it is placed, but for 3.9 not when the
    chunk starts at byte 65526 of the module's code (i.e. after ≈ 64 KiB of earlier chunks), and for 3.10 not at 131062. -/
theorem C13_witness_fill_jump_absolute :
    let p : Prog := [.print [.or (.lit (.bool false) none) (.lit (.bool true) none) none]]
    (compileV .v311 65526 p).isSome = true ∧ compileV .v39 65526 p = none ∧ (compileV .v39 65524 p).isSome = true ∧
    compileV .v310 131062 p = none ∧ (compileV .v310 131060 p).isSome = true := by
  decide

/-- `exec_pyc` runs the bytecode with the configured interpreter when one is given -/
theorem C13_select (cmd which file : String) (args : List String) :
    (execCmd (some cmd) which file args).head? = some cmd ∧ (execCmd none which file args).head? = some which := by
  simp [execCmd]

/-- non-vacuity: one program, five targets, two different prelude sizes: every generator succeeds, the code differs between
    3.9, 3.10 and 3.11, and every machine prints what `runW` prints -/
example :
    let x := "::x_L1"
    let p : Prog := [
      .defv x (.lit (.int 3) (some .nat)),
      .print [.bin .add (.var x (some .nat)) (.lit (.int 4) (some .nat)) (some .nat),
              .or (.and (.cmp .gt (.var x (some .nat)) (.lit (.int 2) (some .nat)) (some .bool))
                        (.not (.cmp .eq (.var x (some .nat)) (.lit (.int 5) (some .nat)) (some .bool)) (some .bool)) none)
                  (.lit (.bool false) (some .bool)) (some .bool)]]
    (targets.map fun v => (compileV v 24 p).map fun c => vmRunV v 24 c) = targets.map (fun _ => some (runW p).1) ∧
    compileV .v39 24 p ≠ compileV .v310 24 p ∧ compileV .v310 24 p ≠ compileV .v311 24 p ∧
    (runW p).1 = ⟨["7 True".toList], .ok⟩ := by
  decide

end ErgVerif.C13
