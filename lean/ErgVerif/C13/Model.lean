import ErgVerif.C07.Stage1.Model
/-
C13 — every supported Python target runs the program identically: version-parameterised model of the code generator and
of the evaluation loops for the stage-1 fragment (straight-line programs over Nat/Int/Str/Bool; the source language `Expr`/
`Stmt`, its wrapper-aware semantics `runW` and the 3.11 generator/machine are those of lean/ErgVerif/C07/Stage1/Model.lean,
the frozen copy of C01's stage-1 model).

Transcribed from /repo/crates/erg_compiler/codegen.rs for the targets 3.7 – 3.10 (`py_version.minor < Some(11)`):
  `emit_push_null` (nothing before 3.11), `emit_expr` wrapper (`LOAD_NAME cls; …; CALL_FUNCTION 1`), `emit_call_instr`
  (`CALL_FUNCTION argc` instead of `PRECALL`/`CALL`), `emit_binop_instr` → `emit_binop_instr_309` / `emit_binop_instr_307`
  (`BINARY_ADD`, `BINARY_SUBTRACT`, `BINARY_MULTIPLY`, `BINARY_FLOOR_DIVIDE`, `BINARY_MODULO`, `COMPARE_OP k`; no inline cache
  entries: every instruction is 2 bytes), `emit_binop` and/or arms: `EXTENDED_ARG hi; JUMP_IF_{FALSE,TRUE}_OR_POP lo` whose
  argument is patched by `fill_jump(idx + 1, lasti)` — the ABSOLUTE byte offset of the instruction after the right operand,
  divided by 2 on 3.10 (`py_version.minor >= Some(10)`: jump arguments count code units), `u16::try_from(arg).unwrap()`;
  `emit` (no `RESUME`; chunks, `POP_TOP`, `cancel_if_pop_top`, `LOAD_CONST None`, `RETURN_VALUE`) as on 3.11.
The abstract instruction type is shared with the 3.11 model (`Instr`): `binaryOp op` stands for `BINARY_OP k` on 3.11 and for the
dedicated `BINARY_…` opcode before; `call n` for `PRECALL n; CALL n` resp. `CALL_FUNCTION n`; `pushNull` does not exist before 3.11.
Because jump arguments are absolute, the generator model takes the byte offset `pos` at which the code is placed; the
module's code starts at `base` = size of the import prelude (the harness reports it; the prelude itself is not modelled).

Machines: `stepO` models CPython 3.7–3.10 `ceval` for these instructions (callable below its arguments, no NULL;
`JUMP_IF_…_OR_POP` sets the instruction pointer to `unit × oparg`). The 3.11 machine is `Stage1.step`.
Import-free apart from the Stage1 model: the driver links as a `lean_exe`.
-/
namespace ErgVerif.C13
open ErgVerif.C07.Stage1

inductive Ver where
  | v37 | v38 | v39 | v310 | v311
  deriving DecidableEq, Repr

def Ver.minor : Ver → Nat
  | .v37 => 7 | .v38 => 8 | .v39 => 9 | .v310 => 10 | .v311 => 11

def Ver.ofMinor (n : Nat) : Option Ver :=
  if n = 7 then some .v37 else if n = 8 then some .v38 else if n = 9 then some .v39
  else if n = 10 then some .v310 else if n = 11 then some .v311 else none

def targets : List Ver := [.v37, .v38, .v39, .v310, .v311]

/-- bytes per unit of an absolute jump argument (`fill_jump`: `jump_to / 2` from 3.10 on) -/
def Ver.unit : Ver → Nat
  | .v310 => 2
  | _ => 1

/-! ### code generator for the targets before 3.11 (every instruction is 2 bytes) -/

def osz (c : List Instr) : Nat := 2 * c.length

def wrapPreO : Option Cls → List Instr
  | none => []
  | some c => [.loadName c.name]

def wrapPostO : Option Cls → List Instr
  | none => []
  | some _ => [.call 1]

/-- `fill_jump(idx + 1, lasti)`: the absolute byte offset `target`, in units of `u` bytes, split big-endian over the
    `EXTENDED_ARG` argument and the jump argument; `u16::try_from(arg).unwrap()` panics from 65536 on -/
def jumpArgsO (u target : Nat) : Option (Nat × Nat) :=
  let arg := target / u
  if arg < 65536 then some (arg / 256, arg % 256) else none

/-- `emit_expr` at absolute byte offset `pos`; `none` = the compiler panics (`fill_jump` overflow) -/
def compileEO (u : Nat) : Nat → Expr → Option (List Instr)
  | _, .lit c w => some (wrapPreO w ++ [.loadConst c] ++ wrapPostO w)
  | _, .var x w => some (wrapPreO w ++ [.loadName x] ++ wrapPostO w)
  | pos, .bin op l r w =>
    match compileEO u (pos + osz (wrapPreO w)) l with
    | some cl =>
      match compileEO u (pos + osz (wrapPreO w) + osz cl) r with
      | some cr => some (wrapPreO w ++ cl ++ cr ++ [.binaryOp op] ++ wrapPostO w)
      | none => none
    | none => none
  | pos, .cmp op l r w =>
    match compileEO u (pos + osz (wrapPreO w)) l with
    | some cl =>
      match compileEO u (pos + osz (wrapPreO w) + osz cl) r with
      | some cr => some (wrapPreO w ++ cl ++ cr ++ [.compareOp op] ++ wrapPostO w)
      | none => none
    | none => none
  | pos, .and l r w =>
    match compileEO u (pos + osz (wrapPreO w)) l with
    | some cl =>
      match compileEO u (pos + osz (wrapPreO w) + osz cl + 4) r with
      | some cr =>
        match jumpArgsO u (pos + osz (wrapPreO w) + osz cl + 4 + osz cr) with
        | some (hi, lo) => some (wrapPreO w ++ cl ++ [.extArg hi, .jumpIfFalseOrPop lo] ++ cr ++ wrapPostO w)
        | none => none
      | none => none
    | none => none
  | pos, .or l r w =>
    match compileEO u (pos + osz (wrapPreO w)) l with
    | some cl =>
      match compileEO u (pos + osz (wrapPreO w) + osz cl + 4) r with
      | some cr =>
        match jumpArgsO u (pos + osz (wrapPreO w) + osz cl + 4 + osz cr) with
        | some (hi, lo) => some (wrapPreO w ++ cl ++ [.extArg hi, .jumpIfTrueOrPop lo] ++ cr ++ wrapPostO w)
        | none => none
      | none => none
    | none => none
  | pos, .neg e w =>
    match compileEO u (pos + osz (wrapPreO w)) e with
    | some c => some (wrapPreO w ++ c ++ [.unaryNeg] ++ wrapPostO w)
    | none => none
  | pos, .not e w =>
    match compileEO u (pos + osz (wrapPreO w)) e with
    | some c => some (wrapPreO w ++ c ++ [.unaryNot] ++ wrapPostO w)
    | none => none

def compileArgsO (u : Nat) : Nat → List Expr → Option (List Instr)
  | _, [] => some []
  | pos, e :: es =>
    match compileEO u pos e with
    | some c =>
      match compileArgsO u (pos + osz c) es with
      | some cs => some (c ++ cs)
      | none => none
    | none => none

/-- code of one chunk placed at `pos` and whether it leaves a value on the stack -/
def compileSO (u pos : Nat) : Stmt → Option (List Instr × Bool)
  | .defv x e =>
    match compileEO u pos e with
    | some c => some (c ++ [.storeName x], false)
    | none => none
  | .print args =>
    match compileArgsO u (pos + 2) args with
    | some cs => some ([.loadName "print"] ++ cs ++ [.call args.length], true)
    | none => none
  | .expr e =>
    match compileEO u pos (stripWrap e) with
    | some c => some (c, true)
    | none => none

def compileStmtsO (u : Nat) : Nat → List Stmt → Option (List Instr)
  | _, [] => some [.loadConst .none, .returnValue]
  | pos, [s] =>
    match compileSO u pos s with
    | some (c, leaves) => some (c ++ (if leaves then [] else [.loadConst .none]) ++ [.returnValue])
    | none => none
  | pos, s :: s2 :: ss =>
    match compileSO u pos s with
    | some (c, leaves) =>
      match compileStmtsO u (pos + osz c + (if leaves then 2 else 0)) (s2 :: ss) with
      | some cs => some (c ++ (if leaves then [.popTop] else []) ++ cs)
      | none => none
    | none => none

/-- the module's code for target `v`, the first chunk starting at byte offset `base` (3.11: C01's stage-1 generator, whose
    jumps are relative, so `base` does not matter) -/
def compileV (v : Ver) (base : Nat) (p : Prog) : Option (List Instr) :=
  match v with
  | .v311 => compile p
  | _ => compileStmtsO v.unit base p

/-! ### the 3.7 – 3.10 machine for these instructions -/

/-- the instruction at absolute byte offset `pc` of code placed at `base` -/
def fetchO (base : Nat) (code : List Instr) (pc : Nat) : Option Instr :=
  if pc < base then none
  else if (pc - base) % 2 = 0 then code[(pc - base) / 2]? else none

def stepO (u base : Nat) (code : List Instr) (s : VM) : StepResult :=
  match fetchO base code s.pc with
  | Option.none => stuckAt s
  | some i =>
    let pc' := s.pc + 2
    match i with
    | .pushNull => stuckAt s                    -- not an instruction of these targets
    | .loadConst c => .next { s with pc := pc', ext := 0, stack := c.toVal :: s.stack }
    | .loadName x =>
      match lookup s.env x with
      | some v => .next { s with pc := pc', ext := 0, stack := v :: s.stack }
      | Option.none => raise s .nameError
    | .storeName x =>
      match s.stack with
      | v :: st => .next { s with pc := pc', ext := 0, stack := st, env := (x, v) :: s.env }
      | [] => stuckAt s
    | .popTop =>
      match s.stack with
      | _ :: st => .next { s with pc := pc', ext := 0, stack := st }
      | [] => stuckAt s
    | .returnValue => .halt ⟨s.out.reverse, .ok⟩
    | .binaryOp op =>
      match s.stack with
      | r :: l :: st =>
        match pyBin op l r with
        | .ok v => .next { s with pc := pc', ext := 0, stack := v :: st }
        | .error e => raise s e
      | _ => stuckAt s
    | .compareOp op =>
      match s.stack with
      | r :: l :: st =>
        match pyCmp op l r with
        | .ok v => .next { s with pc := pc', ext := 0, stack := v :: st }
        | .error e => raise s e
      | _ => stuckAt s
    | .unaryNeg =>
      match s.stack with
      | v :: st =>
        match pyNeg v with
        | .ok v' => .next { s with pc := pc', ext := 0, stack := v' :: st }
        | .error e => raise s e
      | [] => stuckAt s
    | .unaryNot =>
      match s.stack with
      | v :: st => .next { s with pc := pc', ext := 0, stack := .bool (!truthy v) :: st }
      | [] => stuckAt s
    | .extArg hi => .next { s with pc := pc', ext := s.ext * 256 + hi }
    | .jumpIfFalseOrPop lo =>
      match s.stack with
      | v :: st =>
        if truthy v then .next { s with pc := pc', ext := 0, stack := st }
        else .next { s with pc := u * (s.ext * 256 + lo), ext := 0 }
      | [] => stuckAt s
    | .jumpIfTrueOrPop lo =>
      match s.stack with
      | v :: st =>
        if truthy v then .next { s with pc := u * (s.ext * 256 + lo), ext := 0 }
        else .next { s with pc := pc', ext := 0, stack := st }
      | [] => stuckAt s
    | .call argc =>
      -- CALL_FUNCTION: the callable sits below its arguments; no NULL
      match popArgs argc s.stack with
      | some (args, f :: st) =>
        match f with
        | .cls c =>
          match args with
          | [v] =>
            match wrapCall c v with
            | .ok v' => .next { s with pc := pc', ext := 0, stack := v' :: st }
            | .error e => raise s e
          | _ => raise s .typeError
        | .printFn =>
          .next { s with pc := pc', ext := 0, stack := .none :: st, out := joinSp (args.map showVal) :: s.out }
        | _ => raise s .typeError
      | _ => stuckAt s

/-- run a step function with fuel -/
def runG (stp : VM → StepResult) : Nat → VM → Outcome
  | 0, s => ⟨s.out.reverse, .outOfFuel⟩
  | n + 1, s =>
    match stp s with
    | .halt o => o
    | .next s' => runG stp n s'

def initAt (base : Nat) : VM := ⟨base, 0, [], [], []⟩

/-- the machine of target `v` on code placed at `base` -/
def runV (v : Ver) (base : Nat) (code : List Instr) (fuel : Nat) : Outcome :=
  match v with
  | .v311 => runN code fuel VM.init
  | _ => runG (stepO v.unit base code) fuel (initAt base)

/-- executable run used by the driver: fuel = number of bytes + 1 -/
def vmRunV (v : Ver) (base : Nat) (code : List Instr) : Outcome :=
  match v with
  | .v311 => vmRun code
  | _ => runV v base code (osz code + 1)

/-! ### `exec_pyc_code`'s command line (crates/erg_common/python_util.rs): which interpreter runs the bytecode -/

/-- `exec_pyc`: `py_command.unwrap_or(which_python())` followed by the file name (and arguments) -/
def execCmd (pyCommand : Option String) (whichPython : String) (file : String) (args : List String) : List String :=
  (match pyCommand with | some c => c | none => whichPython) :: file :: args

end ErgVerif.C13
