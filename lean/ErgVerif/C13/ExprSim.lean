import ErgVerif.C13.Proofs
/-! C13: simulation lemma for expressions on the targets 3.7 – 3.10 — the code of `e`, placed at the even absolute
offset it was compiled for, computes `evalW env e` on the `stepO` machine. -/
namespace ErgVerif.C13
open ErgVerif.C07.Stage1

/-- the statement proved for every expression -/
def ExprOkO (u base : Nat) (e : Expr) : Prop :=
  ∀ pos cs, compileEO u pos e = some cs → pos % 2 = 0 → ∀ code st env out, CodeAtO base code pos cs → EnvOk env →
    ExecSpecO u base code pos (pos + osz cs) st env out (evalW env e)

theorem wrapPreO_even (w : Option Cls) : osz (wrapPreO w) % 2 = 0 := osz_even _

theorem exprOkO_lit (u base : Nat) (c : Const) (w : Option Cls) : ExprOkO u base (.lit c w) := by
  intro pos cs hcs _ code st env out hcode henv
  simp only [compileEO, Option.some.injEq] at hcs
  subst hcs
  have := exec_wrapO (u := u) (st := st) (out := out) w [.loadConst c] (.ok (c.toVal, true)) hcode henv (fun st' => by
    simp only [ExecSpecO, osz_cons, osz_nil, Nat.add_zero]
    exact exec_loadConstO hcode.body)
  simpa [evalW, bindWrap] using this

theorem exprOkO_var (u base : Nat) (x : String) (w : Option Cls) : ExprOkO u base (.var x w) := by
  intro pos cs hcs _ code st env out hcode henv
  simp only [compileEO, Option.some.injEq] at hcs
  subst hcs
  cases hl : lookup env x with
  | none =>
    have := exec_wrapO (u := u) (st := st) (out := out) w [.loadName x] (.error .nameError) hcode henv (fun st' => by
      simp only [ExecSpecO]
      exact exec_loadNameO_err hcode.body hl)
    simpa [evalW, bindWrap, hl] using this
  | some v =>
    have := exec_wrapO (u := u) (st := st) (out := out) w [.loadName x] (.ok (v, true)) hcode henv (fun st' => by
      simp only [ExecSpecO, osz_cons, osz_nil, Nat.add_zero]
      exact exec_loadNameO hcode.body hl)
    simpa [evalW, bindWrap, hl] using this

theorem exprOkO_bin (u base : Nat) (op : BinOp) (l r : Expr) (w : Option Cls) (ihl : ExprOkO u base l) (ihr : ExprOkO u base r) :
    ExprOkO u base (.bin op l r w) := by
  intro pos cs hcs hpos code st env out hcode henv
  simp only [compileEO] at hcs
  cases hcl : compileEO u (pos + osz (wrapPreO w)) l with
  | none => simp [hcl] at hcs
  | some cl =>
    cases hcr : compileEO u (pos + osz (wrapPreO w) + osz cl) r with
    | none => simp [hcl, hcr] at hcs
    | some cr =>
      simp only [hcl, hcr, Option.some.injEq] at hcs
      subst hcs
      have hp1 : (pos + osz (wrapPreO w)) % 2 = 0 := by have := wrapPreO_even w; omega
      have hp2 : (pos + osz (wrapPreO w) + osz cl) % 2 = 0 := by have := osz_even cl; omega
      have hcode' : CodeAtO base code pos (wrapPreO w ++ (cl ++ cr ++ [.binaryOp op]) ++ wrapPostO w) := by
        simpa [List.append_assoc] using hcode
      have hsz : osz (wrapPreO w ++ cl ++ cr ++ [.binaryOp op] ++ wrapPostO w)
          = osz (wrapPreO w ++ (cl ++ cr ++ [.binaryOp op]) ++ wrapPostO w) := by simp [List.append_assoc]
      rw [hsz]
      have hb := hcode'.body
      have hbl : CodeAtO base code (pos + osz (wrapPreO w)) cl := hb.left.left
      have hbr : CodeAtO base code (pos + osz (wrapPreO w) + osz cl) cr := hb.left.right
      have hbo : CodeAtO base code (pos + osz (wrapPreO w) + osz cl + osz cr) [.binaryOp op] := by
        have := hb.right
        simpa [Nat.add_assoc] using this
      cases hEl : evalW env l with
      | error e =>
        have := exec_wrapO (u := u) (st := st) (out := out) w (cl ++ cr ++ [.binaryOp op]) (.error e) hcode' henv (fun st' => by
          have := ihl _ cl hcl hp1 code st' env out hbl henv
          simpa [hEl, ExecSpecO] using this)
        simpa [evalW, hEl, bindWrap] using this
      | ok pa =>
        obtain ⟨a, c1⟩ := pa
        cases hEr : evalW env r with
        | error e =>
          have := exec_wrapO (u := u) (st := st) (out := out) w (cl ++ cr ++ [.binaryOp op]) (.error e) hcode' henv (fun st' => by
            have h1 := ihl _ cl hcl hp1 code st' env out hbl henv
            have h2 := ihr _ cr hcr hp2 code (a :: st') env out hbr henv
            simp only [hEl, hEr, ExecSpecO] at h1 h2 ⊢
            exact h1.halts h2)
          simpa [evalW, hEl, hEr, bindWrap] using this
        | ok pb =>
          obtain ⟨b, c2⟩ := pb
          cases hp : pyBin op a b with
          | error e =>
            have := exec_wrapO (u := u) (st := st) (out := out) w (cl ++ cr ++ [.binaryOp op]) (.error e) hcode' henv (fun st' => by
              have h1 := ihl _ cl hcl hp1 code st' env out hbl henv
              have h2 := ihr _ cr hcr hp2 code (a :: st') env out hbr henv
              have h3 := exec_binaryOpO (u := u) (st := st') (env := env) (out := out) (a := a) (b := b) hbo
              simp only [hEl, hEr, hp, ExecSpecO] at h1 h2 h3 ⊢
              exact (h1.trans h2).halts h3)
            simpa [evalW, hEl, hEr, hp, bindWrap] using this
          | ok v =>
            have := exec_wrapO (u := u) (st := st) (out := out) w (cl ++ cr ++ [.binaryOp op]) (.ok (v, c1 && c2)) hcode' henv (fun st' => by
              have h1 := ihl _ cl hcl hp1 code st' env out hbl henv
              have h2 := ihr _ cr hcr hp2 code (a :: st') env out hbr henv
              have h3 := exec_binaryOpO (u := u) (st := st') (env := env) (out := out) (a := a) (b := b) hbo
              simp only [hEl, hEr, hp, ExecSpecO] at h1 h2 h3 ⊢
              have := (h1.trans h2).trans h3
              simpa [Nat.add_assoc] using this)
            simpa [evalW, hEl, hEr, hp, bindWrap] using this

theorem exprOkO_cmp (u base : Nat) (op : CmpOp) (l r : Expr) (w : Option Cls) (ihl : ExprOkO u base l) (ihr : ExprOkO u base r) :
    ExprOkO u base (.cmp op l r w) := by
  intro pos cs hcs hpos code st env out hcode henv
  simp only [compileEO] at hcs
  cases hcl : compileEO u (pos + osz (wrapPreO w)) l with
  | none => simp [hcl] at hcs
  | some cl =>
    cases hcr : compileEO u (pos + osz (wrapPreO w) + osz cl) r with
    | none => simp [hcl, hcr] at hcs
    | some cr =>
      simp only [hcl, hcr, Option.some.injEq] at hcs
      subst hcs
      have hp1 : (pos + osz (wrapPreO w)) % 2 = 0 := by have := wrapPreO_even w; omega
      have hp2 : (pos + osz (wrapPreO w) + osz cl) % 2 = 0 := by have := osz_even cl; omega
      have hcode' : CodeAtO base code pos (wrapPreO w ++ (cl ++ cr ++ [.compareOp op]) ++ wrapPostO w) := by
        simpa [List.append_assoc] using hcode
      have hsz : osz (wrapPreO w ++ cl ++ cr ++ [.compareOp op] ++ wrapPostO w)
          = osz (wrapPreO w ++ (cl ++ cr ++ [.compareOp op]) ++ wrapPostO w) := by simp [List.append_assoc]
      rw [hsz]
      have hb := hcode'.body
      have hbl : CodeAtO base code (pos + osz (wrapPreO w)) cl := hb.left.left
      have hbr : CodeAtO base code (pos + osz (wrapPreO w) + osz cl) cr := hb.left.right
      have hbo : CodeAtO base code (pos + osz (wrapPreO w) + osz cl + osz cr) [.compareOp op] := by
        have := hb.right
        simpa [Nat.add_assoc] using this
      cases hEl : evalW env l with
      | error e =>
        have := exec_wrapO (u := u) (st := st) (out := out) w (cl ++ cr ++ [.compareOp op]) (.error e) hcode' henv (fun st' => by
          have := ihl _ cl hcl hp1 code st' env out hbl henv
          simpa [hEl, ExecSpecO] using this)
        simpa [evalW, hEl, bindWrap] using this
      | ok pa =>
        obtain ⟨a, c1⟩ := pa
        cases hEr : evalW env r with
        | error e =>
          have := exec_wrapO (u := u) (st := st) (out := out) w (cl ++ cr ++ [.compareOp op]) (.error e) hcode' henv (fun st' => by
            have h1 := ihl _ cl hcl hp1 code st' env out hbl henv
            have h2 := ihr _ cr hcr hp2 code (a :: st') env out hbr henv
            simp only [hEl, hEr, ExecSpecO] at h1 h2 ⊢
            exact h1.halts h2)
          simpa [evalW, hEl, hEr, bindWrap] using this
        | ok pb =>
          obtain ⟨b, c2⟩ := pb
          cases hp : pyCmp op a b with
          | error e =>
            have := exec_wrapO (u := u) (st := st) (out := out) w (cl ++ cr ++ [.compareOp op]) (.error e) hcode' henv (fun st' => by
              have h1 := ihl _ cl hcl hp1 code st' env out hbl henv
              have h2 := ihr _ cr hcr hp2 code (a :: st') env out hbr henv
              have h3 := exec_compareOpO (u := u) (st := st') (env := env) (out := out) (a := a) (b := b) hbo
              simp only [hEl, hEr, hp, ExecSpecO] at h1 h2 h3 ⊢
              exact (h1.trans h2).halts h3)
            simpa [evalW, hEl, hEr, hp, bindWrap] using this
          | ok v =>
            have := exec_wrapO (u := u) (st := st) (out := out) w (cl ++ cr ++ [.compareOp op]) (.ok (v, c1 && c2)) hcode' henv (fun st' => by
              have h1 := ihl _ cl hcl hp1 code st' env out hbl henv
              have h2 := ihr _ cr hcr hp2 code (a :: st') env out hbr henv
              have h3 := exec_compareOpO (u := u) (st := st') (env := env) (out := out) (a := a) (b := b) hbo
              simp only [hEl, hEr, hp, ExecSpecO] at h1 h2 h3 ⊢
              have := (h1.trans h2).trans h3
              simpa [Nat.add_assoc] using this)
            simpa [evalW, hEl, hEr, hp, bindWrap] using this

theorem exprOkO_neg (u base : Nat) (e : Expr) (w : Option Cls) (ih : ExprOkO u base e) : ExprOkO u base (.neg e w) := by
  intro pos cs hcs hpos code st env out hcode henv
  simp only [compileEO] at hcs
  cases hc : compileEO u (pos + osz (wrapPreO w)) e with
  | none => simp [hc] at hcs
  | some c =>
    simp only [hc, Option.some.injEq] at hcs
    subst hcs
    have hp1 : (pos + osz (wrapPreO w)) % 2 = 0 := by have := wrapPreO_even w; omega
    have hcode' : CodeAtO base code pos (wrapPreO w ++ (c ++ [.unaryNeg]) ++ wrapPostO w) := by
      simpa [List.append_assoc] using hcode
    have hsz : osz (wrapPreO w ++ c ++ [.unaryNeg] ++ wrapPostO w)
        = osz (wrapPreO w ++ (c ++ [.unaryNeg]) ++ wrapPostO w) := by simp [List.append_assoc]
    rw [hsz]
    have hb := hcode'.body
    have hbe : CodeAtO base code (pos + osz (wrapPreO w)) c := hb.left
    have hbo : CodeAtO base code (pos + osz (wrapPreO w) + osz c) [.unaryNeg] := hb.right
    cases hE : evalW env e with
    | error x =>
      have := exec_wrapO (u := u) (st := st) (out := out) w (c ++ [.unaryNeg]) (.error x) hcode' henv (fun st' => by
        have := ih _ c hc hp1 code st' env out hbe henv
        simpa [hE, ExecSpecO] using this)
      simpa [evalW, hE, bindWrap] using this
    | ok pa =>
      obtain ⟨a, c1⟩ := pa
      cases hp : pyNeg a with
      | error x =>
        have := exec_wrapO (u := u) (st := st) (out := out) w (c ++ [.unaryNeg]) (.error x) hcode' henv (fun st' => by
          have h1 := ih _ c hc hp1 code st' env out hbe henv
          have h3 := exec_unaryNegO (u := u) (st := st') (env := env) (out := out) (a := a) hbo
          simp only [hE, hp, ExecSpecO] at h1 h3 ⊢
          exact h1.halts h3)
        simpa [evalW, hE, hp, bindWrap] using this
      | ok v =>
        have := exec_wrapO (u := u) (st := st) (out := out) w (c ++ [.unaryNeg]) (.ok (v, c1)) hcode' henv (fun st' => by
          have h1 := ih _ c hc hp1 code st' env out hbe henv
          have h3 := exec_unaryNegO (u := u) (st := st') (env := env) (out := out) (a := a) hbo
          simp only [hE, hp, ExecSpecO] at h1 h3 ⊢
          have := h1.trans h3
          simpa [Nat.add_assoc] using this)
        simpa [evalW, hE, hp, bindWrap] using this

theorem exprOkO_not (u base : Nat) (e : Expr) (w : Option Cls) (ih : ExprOkO u base e) : ExprOkO u base (.not e w) := by
  intro pos cs hcs hpos code st env out hcode henv
  simp only [compileEO] at hcs
  cases hc : compileEO u (pos + osz (wrapPreO w)) e with
  | none => simp [hc] at hcs
  | some c =>
    simp only [hc, Option.some.injEq] at hcs
    subst hcs
    have hp1 : (pos + osz (wrapPreO w)) % 2 = 0 := by have := wrapPreO_even w; omega
    have hcode' : CodeAtO base code pos (wrapPreO w ++ (c ++ [.unaryNot]) ++ wrapPostO w) := by
      simpa [List.append_assoc] using hcode
    have hsz : osz (wrapPreO w ++ c ++ [.unaryNot] ++ wrapPostO w)
        = osz (wrapPreO w ++ (c ++ [.unaryNot]) ++ wrapPostO w) := by simp [List.append_assoc]
    rw [hsz]
    have hb := hcode'.body
    have hbe : CodeAtO base code (pos + osz (wrapPreO w)) c := hb.left
    have hbo : CodeAtO base code (pos + osz (wrapPreO w) + osz c) [.unaryNot] := hb.right
    cases hE : evalW env e with
    | error x =>
      have := exec_wrapO (u := u) (st := st) (out := out) w (c ++ [.unaryNot]) (.error x) hcode' henv (fun st' => by
        have := ih _ c hc hp1 code st' env out hbe henv
        simpa [hE, ExecSpecO] using this)
      simpa [evalW, hE, bindWrap] using this
    | ok pa =>
      obtain ⟨a, c1⟩ := pa
      have := exec_wrapO (u := u) (st := st) (out := out) w (c ++ [.unaryNot]) (.ok (.bool (!truthy a), c1)) hcode' henv (fun st' => by
        have h1 := ih _ c hc hp1 code st' env out hbe henv
        have h3 := exec_unaryNotO (u := u) (st := st') (env := env) (out := out) (a := a) hbo
        simp only [hE, ExecSpecO] at h1 h3 ⊢
        have := h1.trans h3
        simpa [Nat.add_assoc] using this)
      simpa [evalW, hE, bindWrap] using this

theorem exprOkO_and (u base : Nat) (hu : u = 1 ∨ u = 2) (l r : Expr) (w : Option Cls) (ihl : ExprOkO u base l) (ihr : ExprOkO u base r) :
    ExprOkO u base (.and l r w) := by
  intro pos cs hcs hpos code st env out hcode henv
  simp only [compileEO] at hcs
  cases hcl : compileEO u (pos + osz (wrapPreO w)) l with
  | none => simp [hcl] at hcs
  | some cl =>
    cases hcr : compileEO u (pos + osz (wrapPreO w) + osz cl + 4) r with
    | none => simp [hcl, hcr] at hcs
    | some cr =>
      cases hj : jumpArgsO u (pos + osz (wrapPreO w) + osz cl + 4 + osz cr) with
      | none => simp [hcl, hcr, hj] at hcs
      | some hl =>
        obtain ⟨hi, lo⟩ := hl
        simp only [hcl, hcr, hj, Option.some.injEq] at hcs
        subst hcs
        have hp1 : (pos + osz (wrapPreO w)) % 2 = 0 := by have := wrapPreO_even w; omega
        have hp2 : (pos + osz (wrapPreO w) + osz cl + 4) % 2 = 0 := by have := osz_even cl; omega
        have hT : (pos + osz (wrapPreO w) + osz cl + 4 + osz cr) % 2 = 0 := by have := osz_even cr; omega
        have hcode' : CodeAtO base code pos (wrapPreO w ++ (cl ++ [.extArg hi, .jumpIfFalseOrPop lo] ++ cr) ++ wrapPostO w) := by
          simpa [List.append_assoc] using hcode
        have hsz : osz (wrapPreO w ++ cl ++ [.extArg hi, .jumpIfFalseOrPop lo] ++ cr ++ wrapPostO w)
            = osz (wrapPreO w ++ (cl ++ [.extArg hi, .jumpIfFalseOrPop lo] ++ cr) ++ wrapPostO w) := by
          simp [List.append_assoc]
        rw [hsz]
        have hb := hcode'.body
        have hbl : CodeAtO base code (pos + osz (wrapPreO w)) cl := hb.left.left
        have hbj : CodeAtO base code (pos + osz (wrapPreO w) + osz cl) (.extArg hi :: .jumpIfFalseOrPop lo :: cr) := by
          have : CodeAtO base code (pos + osz (wrapPreO w)) (cl ++ (.extArg hi :: .jumpIfFalseOrPop lo :: cr)) := by
            simpa [List.append_assoc] using hb
          exact this.right
        have hbr : CodeAtO base code (pos + osz (wrapPreO w) + osz cl + 4) cr := by
          have := hbj.tail.tail
          simpa [Nat.add_assoc] using this
        have hsize : osz (cl ++ [.extArg hi, .jumpIfFalseOrPop lo] ++ cr) = osz cl + 4 + osz cr := by
          simp; omega
        cases hEl : evalW env l with
        | error e =>
          have := exec_wrapO (u := u) (st := st) (out := out) w (cl ++ [.extArg hi, .jumpIfFalseOrPop lo] ++ cr) (.error e) hcode' henv (fun st' => by
            have := ihl _ cl hcl hp1 code st' env out hbl henv
            simpa [hEl, ExecSpecO] using this)
          simpa [evalW, hEl, bindWrap] using this
        | ok pa =>
          obtain ⟨a, c1⟩ := pa
          by_cases ht : truthy a
          · cases hEr : evalW env r with
            | error e =>
              have := exec_wrapO (u := u) (st := st) (out := out) w (cl ++ [.extArg hi, .jumpIfFalseOrPop lo] ++ cr) (.error e) hcode' henv (fun st' => by
                have h1 := ihl _ cl hcl hp1 code st' env out hbl henv
                have hjmp := exec_jumpFO (st := st') (env := env) (out := out) (v := a) hu hbj hj hT
                have h2 := ihr _ cr hcr hp2 code st' env out hbr henv
                simp only [hEl, hEr, ExecSpecO, ht, if_true] at h1 h2 hjmp ⊢
                exact (h1.trans hjmp).halts h2)
              simpa [evalW, hEl, hEr, ht, bindWrap] using this
            | ok pb =>
              obtain ⟨b, c2⟩ := pb
              have := exec_wrapO (u := u) (st := st) (out := out) w (cl ++ [.extArg hi, .jumpIfFalseOrPop lo] ++ cr) (.ok (b, c1 && c2)) hcode' henv (fun st' => by
                have h1 := ihl _ cl hcl hp1 code st' env out hbl henv
                have hjmp := exec_jumpFO (st := st') (env := env) (out := out) (v := a) hu hbj hj hT
                have h2 := ihr _ cr hcr hp2 code st' env out hbr henv
                simp only [hEl, hEr, ExecSpecO, ht, if_true] at h1 h2 hjmp ⊢
                have := (h1.trans hjmp).trans h2
                rw [hsize]
                simpa [Nat.add_assoc] using this)
              simpa [evalW, hEl, hEr, ht, bindWrap] using this
          · have := exec_wrapO (u := u) (st := st) (out := out) w (cl ++ [.extArg hi, .jumpIfFalseOrPop lo] ++ cr) (.ok (a, c1)) hcode' henv (fun st' => by
              have h1 := ihl _ cl hcl hp1 code st' env out hbl henv
              have hjmp := exec_jumpFO (st := st') (env := env) (out := out) (v := a) hu hbj hj hT
              simp only [hEl, ExecSpecO, ht, Bool.false_eq_true, if_false] at h1 hjmp ⊢
              have := h1.trans hjmp
              rw [hsize]
              simpa [Nat.add_assoc] using this)
            simpa [evalW, hEl, ht, bindWrap] using this

theorem exprOkO_or (u base : Nat) (hu : u = 1 ∨ u = 2) (l r : Expr) (w : Option Cls) (ihl : ExprOkO u base l) (ihr : ExprOkO u base r) :
    ExprOkO u base (.or l r w) := by
  intro pos cs hcs hpos code st env out hcode henv
  simp only [compileEO] at hcs
  cases hcl : compileEO u (pos + osz (wrapPreO w)) l with
  | none => simp [hcl] at hcs
  | some cl =>
    cases hcr : compileEO u (pos + osz (wrapPreO w) + osz cl + 4) r with
    | none => simp [hcl, hcr] at hcs
    | some cr =>
      cases hj : jumpArgsO u (pos + osz (wrapPreO w) + osz cl + 4 + osz cr) with
      | none => simp [hcl, hcr, hj] at hcs
      | some hl =>
        obtain ⟨hi, lo⟩ := hl
        simp only [hcl, hcr, hj, Option.some.injEq] at hcs
        subst hcs
        have hp1 : (pos + osz (wrapPreO w)) % 2 = 0 := by have := wrapPreO_even w; omega
        have hp2 : (pos + osz (wrapPreO w) + osz cl + 4) % 2 = 0 := by have := osz_even cl; omega
        have hT : (pos + osz (wrapPreO w) + osz cl + 4 + osz cr) % 2 = 0 := by have := osz_even cr; omega
        have hcode' : CodeAtO base code pos (wrapPreO w ++ (cl ++ [.extArg hi, .jumpIfTrueOrPop lo] ++ cr) ++ wrapPostO w) := by
          simpa [List.append_assoc] using hcode
        have hsz : osz (wrapPreO w ++ cl ++ [.extArg hi, .jumpIfTrueOrPop lo] ++ cr ++ wrapPostO w)
            = osz (wrapPreO w ++ (cl ++ [.extArg hi, .jumpIfTrueOrPop lo] ++ cr) ++ wrapPostO w) := by
          simp [List.append_assoc]
        rw [hsz]
        have hb := hcode'.body
        have hbl : CodeAtO base code (pos + osz (wrapPreO w)) cl := hb.left.left
        have hbj : CodeAtO base code (pos + osz (wrapPreO w) + osz cl) (.extArg hi :: .jumpIfTrueOrPop lo :: cr) := by
          have : CodeAtO base code (pos + osz (wrapPreO w)) (cl ++ (.extArg hi :: .jumpIfTrueOrPop lo :: cr)) := by
            simpa [List.append_assoc] using hb
          exact this.right
        have hbr : CodeAtO base code (pos + osz (wrapPreO w) + osz cl + 4) cr := by
          have := hbj.tail.tail
          simpa [Nat.add_assoc] using this
        have hsize : osz (cl ++ [.extArg hi, .jumpIfTrueOrPop lo] ++ cr) = osz cl + 4 + osz cr := by
          simp; omega
        cases hEl : evalW env l with
        | error e =>
          have := exec_wrapO (u := u) (st := st) (out := out) w (cl ++ [.extArg hi, .jumpIfTrueOrPop lo] ++ cr) (.error e) hcode' henv (fun st' => by
            have := ihl _ cl hcl hp1 code st' env out hbl henv
            simpa [hEl, ExecSpecO] using this)
          simpa [evalW, hEl, bindWrap] using this
        | ok pa =>
          obtain ⟨a, c1⟩ := pa
          by_cases ht : truthy a
          · have := exec_wrapO (u := u) (st := st) (out := out) w (cl ++ [.extArg hi, .jumpIfTrueOrPop lo] ++ cr) (.ok (a, c1)) hcode' henv (fun st' => by
              have h1 := ihl _ cl hcl hp1 code st' env out hbl henv
              have hjmp := exec_jumpTO (st := st') (env := env) (out := out) (v := a) hu hbj hj hT
              simp only [hEl, ExecSpecO, ht, if_true] at h1 hjmp ⊢
              have := h1.trans hjmp
              rw [hsize]
              simpa [Nat.add_assoc] using this)
            simpa [evalW, hEl, ht, bindWrap] using this
          · cases hEr : evalW env r with
            | error e =>
              have := exec_wrapO (u := u) (st := st) (out := out) w (cl ++ [.extArg hi, .jumpIfTrueOrPop lo] ++ cr) (.error e) hcode' henv (fun st' => by
                have h1 := ihl _ cl hcl hp1 code st' env out hbl henv
                have hjmp := exec_jumpTO (st := st') (env := env) (out := out) (v := a) hu hbj hj hT
                have h2 := ihr _ cr hcr hp2 code st' env out hbr henv
                simp only [hEl, hEr, ExecSpecO, ht, Bool.false_eq_true, if_false] at h1 h2 hjmp ⊢
                exact (h1.trans hjmp).halts h2)
              simpa [evalW, hEl, hEr, ht, bindWrap] using this
            | ok pb =>
              obtain ⟨b, c2⟩ := pb
              have := exec_wrapO (u := u) (st := st) (out := out) w (cl ++ [.extArg hi, .jumpIfTrueOrPop lo] ++ cr) (.ok (b, c1 && c2)) hcode' henv (fun st' => by
                have h1 := ihl _ cl hcl hp1 code st' env out hbl henv
                have hjmp := exec_jumpTO (st := st') (env := env) (out := out) (v := a) hu hbj hj hT
                have h2 := ihr _ cr hcr hp2 code st' env out hbr henv
                simp only [hEl, hEr, ExecSpecO, ht, Bool.false_eq_true, if_false] at h1 h2 hjmp ⊢
                have := (h1.trans hjmp).trans h2
                rw [hsize]
                simpa [Nat.add_assoc] using this)
              simpa [evalW, hEl, hEr, ht, bindWrap] using this

/-- the code of every expression computes its wrapper-aware source value (or raises the same exception) -/
theorem exec_exprO (u base : Nat) (hu : u = 1 ∨ u = 2) : ∀ e : Expr, ExprOkO u base e
  | .lit c w => exprOkO_lit u base c w
  | .var x w => exprOkO_var u base x w
  | .bin op l r w => exprOkO_bin u base op l r w (exec_exprO u base hu l) (exec_exprO u base hu r)
  | .cmp op l r w => exprOkO_cmp u base op l r w (exec_exprO u base hu l) (exec_exprO u base hu r)
  | .and l r w => exprOkO_and u base hu l r w (exec_exprO u base hu l) (exec_exprO u base hu r)
  | .or l r w => exprOkO_or u base hu l r w (exec_exprO u base hu l) (exec_exprO u base hu r)
  | .neg e w => exprOkO_neg u base e w (exec_exprO u base hu e)
  | .not e w => exprOkO_not u base e w (exec_exprO u base hu e)

end ErgVerif.C13
