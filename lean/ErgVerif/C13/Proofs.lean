import ErgVerif.C13.Model
import ErgVerif.C07.Stage1.ProgSim
/-! Helper lemmas for C13 (targets 3.7 – 3.10): code placement at absolute offsets, multi-step execution of `stepO`,
single instructions, the wrapper and the absolute short-circuit jumps. Structure as in C01's Proofs.lean. -/
namespace ErgVerif.C13
open ErgVerif.C07.Stage1

/-! ### sizes -/

@[simp] theorem osz_nil : osz [] = 0 := rfl
@[simp] theorem osz_cons (i : Instr) (is : List Instr) : osz (i :: is) = 2 + osz is := by simp [osz]; omega
@[simp] theorem osz_append (a b : List Instr) : osz (a ++ b) = osz a + osz b := by simp [osz]; omega
theorem osz_even (c : List Instr) : osz c % 2 = 0 := by simp [osz]

/-! ### code placement (absolute byte offsets, code starting at `base`) -/

def CodeAtO (base : Nat) (code : List Instr) (pc : Nat) (cs : List Instr) : Prop :=
  ∃ pre post, code = pre ++ cs ++ post ∧ base + osz pre = pc

theorem CodeAtO.left {base code pc a b} (h : CodeAtO base code pc (a ++ b)) : CodeAtO base code pc a := by
  obtain ⟨pre, post, h1, h2⟩ := h
  exact ⟨pre, b ++ post, by simp [h1], h2⟩

theorem CodeAtO.right {base code pc a b} (h : CodeAtO base code pc (a ++ b)) : CodeAtO base code (pc + osz a) b := by
  obtain ⟨pre, post, h1, h2⟩ := h
  exact ⟨pre ++ a, post, by simp [h1], by simp; omega⟩

theorem CodeAtO.tail {base code pc i cs} (h : CodeAtO base code pc (i :: cs)) : CodeAtO base code (pc + 2) cs := by
  have : CodeAtO base code pc ([i] ++ cs) := h
  simpa using this.right

theorem CodeAtO.fetch {base code pc i cs} (h : CodeAtO base code pc (i :: cs)) : fetchO base code pc = some i := by
  obtain ⟨pre, post, h1, h2⟩ := h
  subst h2
  have e1 : ¬ (base + osz pre < base) := by omega
  have e2 : base + osz pre - base = 2 * pre.length := by simp [osz]
  simp only [fetchO, e1, if_false, e2]
  simp [h1]

/-! ### multi-step execution of an arbitrary step function -/

def iterG (stp : VM → StepResult) : Nat → VM → Option VM
  | 0, s => some s
  | n + 1, s =>
    match stp s with
    | .next s' => iterG stp n s'
    | .halt _ => none

def ReachesG (stp : VM → StepResult) (s s' : VM) : Prop := ∃ n, iterG stp n s = some s'

def HaltsG (stp : VM → StepResult) (s : VM) (o : Outcome) : Prop :=
  ∃ n s', iterG stp n s = some s' ∧ stp s' = .halt o

theorem ReachesG.refl (stp : VM → StepResult) (s : VM) : ReachesG stp s s := ⟨0, rfl⟩

theorem iterG_add (stp : VM → StepResult) (n m : Nat) (s s' : VM) (h : iterG stp n s = some s') :
    iterG stp (n + m) s = iterG stp m s' := by
  induction n generalizing s with
  | zero =>
    simp only [iterG, Option.some.injEq] at h
    subst h
    rw [Nat.zero_add]
  | succ n ih =>
    simp only [iterG] at h
    have : n + 1 + m = (n + m) + 1 := by omega
    rw [this]
    simp only [iterG]
    split at h
    · rename_i s1 hs; (try simp only [hs]); exact ih _ h
    · simp at h

theorem ReachesG.trans {stp s1 s2 s3} (h1 : ReachesG stp s1 s2) (h2 : ReachesG stp s2 s3) : ReachesG stp s1 s3 := by
  obtain ⟨n, hn⟩ := h1
  obtain ⟨m, hm⟩ := h2
  exact ⟨n + m, by rw [iterG_add stp n m s1 s2 hn, hm]⟩

theorem ReachesG.halts {stp s1 s2 o} (h1 : ReachesG stp s1 s2) (h2 : HaltsG stp s2 o) : HaltsG stp s1 o := by
  obtain ⟨n, hn⟩ := h1
  obtain ⟨m, s', hm, hs⟩ := h2
  exact ⟨n + m, s', by rw [iterG_add stp n m s1 s2 hn, hm], hs⟩

theorem ReachesG.step1 {stp s s'} (h : stp s = .next s') : ReachesG stp s s' :=
  ⟨1, by simp [iterG, h]⟩

theorem HaltsG.now {stp s o} (h : stp s = .halt o) : HaltsG stp s o := ⟨0, s, rfl, h⟩

theorem runG_of_iter (stp : VM → StepResult) (n m : Nat) (s s' : VM) (h : iterG stp n s = some s') :
    runG stp (n + m) s = runG stp m s' := by
  induction n generalizing s with
  | zero =>
    simp only [iterG, Option.some.injEq] at h
    subst h
    rw [Nat.zero_add]
  | succ n ih =>
    simp only [iterG] at h
    have : n + 1 + m = (n + m) + 1 := by omega
    rw [this]
    simp only [runG]
    split at h
    · rename_i s1 hs; (try simp only [hs]); exact ih _ h
    · simp at h

/-- once the machine halts, any larger fuel gives the same outcome -/
theorem HaltsG.runG {stp s o} (h : HaltsG stp s o) : ∃ n, ∀ m, n ≤ m → runG stp m s = o := by
  obtain ⟨n, s', hn, hs⟩ := h
  refine ⟨n + 1, fun m hm => ?_⟩
  obtain ⟨k, rfl⟩ : ∃ k, m = n + (k + 1) := ⟨m - n - 1, by omega⟩
  rw [runG_of_iter stp n (k + 1) s s' hn]
  simp [ErgVerif.C13.runG, hs]

/-! ### single instructions -/

section single
variable {u base : Nat} {code : List Instr} {pc : Nat} {st : List Val} {env : Env} {out : List (List Char)}

theorem exec_loadConstO {c cs} (h : CodeAtO base code pc (.loadConst c :: cs)) :
    ReachesG (stepO u base code) ⟨pc, 0, st, env, out⟩ ⟨pc + 2, 0, c.toVal :: st, env, out⟩ :=
  ReachesG.step1 (by simp [stepO, h.fetch])

theorem exec_loadNameO {x v cs} (h : CodeAtO base code pc (.loadName x :: cs)) (hv : lookup env x = some v) :
    ReachesG (stepO u base code) ⟨pc, 0, st, env, out⟩ ⟨pc + 2, 0, v :: st, env, out⟩ :=
  ReachesG.step1 (by simp [stepO, h.fetch, hv])

theorem exec_loadNameO_err {x cs} (h : CodeAtO base code pc (.loadName x :: cs)) (hv : lookup env x = none) :
    HaltsG (stepO u base code) ⟨pc, 0, st, env, out⟩ ⟨out.reverse, .exc .nameError⟩ :=
  HaltsG.now (by simp [stepO, h.fetch, hv, raise])

theorem exec_binaryOpO {op a b cs} (h : CodeAtO base code pc (.binaryOp op :: cs)) :
    match pyBin op a b with
    | .ok v => ReachesG (stepO u base code) ⟨pc, 0, b :: a :: st, env, out⟩ ⟨pc + 2, 0, v :: st, env, out⟩
    | .error e => HaltsG (stepO u base code) ⟨pc, 0, b :: a :: st, env, out⟩ ⟨out.reverse, .exc e⟩ := by
  cases hp : pyBin op a b with
  | ok v => exact ReachesG.step1 (by simp [stepO, h.fetch, hp])
  | error e => exact HaltsG.now (by simp [stepO, h.fetch, hp, raise])

theorem exec_compareOpO {op a b cs} (h : CodeAtO base code pc (.compareOp op :: cs)) :
    match pyCmp op a b with
    | .ok v => ReachesG (stepO u base code) ⟨pc, 0, b :: a :: st, env, out⟩ ⟨pc + 2, 0, v :: st, env, out⟩
    | .error e => HaltsG (stepO u base code) ⟨pc, 0, b :: a :: st, env, out⟩ ⟨out.reverse, .exc e⟩ := by
  cases hp : pyCmp op a b with
  | ok v => exact ReachesG.step1 (by simp [stepO, h.fetch, hp])
  | error e => exact HaltsG.now (by simp [stepO, h.fetch, hp, raise])

theorem exec_unaryNegO {a cs} (h : CodeAtO base code pc (.unaryNeg :: cs)) :
    match pyNeg a with
    | .ok v => ReachesG (stepO u base code) ⟨pc, 0, a :: st, env, out⟩ ⟨pc + 2, 0, v :: st, env, out⟩
    | .error e => HaltsG (stepO u base code) ⟨pc, 0, a :: st, env, out⟩ ⟨out.reverse, .exc e⟩ := by
  cases hp : pyNeg a with
  | ok v => exact ReachesG.step1 (by simp [stepO, h.fetch, hp])
  | error e => exact HaltsG.now (by simp [stepO, h.fetch, hp, raise])

theorem exec_unaryNotO {a cs} (h : CodeAtO base code pc (.unaryNot :: cs)) :
    ReachesG (stepO u base code) ⟨pc, 0, a :: st, env, out⟩ ⟨pc + 2, 0, .bool (!truthy a) :: st, env, out⟩ :=
  ReachesG.step1 (by simp [stepO, h.fetch])

end single

/-- what executing a piece of code must do, given the source-level result -/
def ExecSpecO (u base : Nat) (code : List Instr) (pc pcEnd : Nat) (st : List Val) (env : Env) (out : List (List Char)) (r : R) : Prop :=
  match r with
  | .ok (v, _) => ReachesG (stepO u base code) ⟨pc, 0, st, env, out⟩ ⟨pcEnd, 0, v :: st, env, out⟩
  | .error ex => HaltsG (stepO u base code) ⟨pc, 0, st, env, out⟩ ⟨out.reverse, .exc ex⟩

theorem exec_wrapO {u base : Nat} {code : List Instr} {pc : Nat} {st : List Val} {env : Env} {out : List (List Char)}
    (w : Option Cls) (body : List Instr) (rin : R)
    (hcode : CodeAtO base code pc (wrapPreO w ++ body ++ wrapPostO w)) (henv : EnvOk env)
    (hbody : ∀ st', ExecSpecO u base code (pc + osz (wrapPreO w)) (pc + osz (wrapPreO w) + osz body) st' env out rin) :
    ExecSpecO u base code pc (pc + osz (wrapPreO w ++ body ++ wrapPostO w)) st env out (bindWrap w rin) := by
  cases w with
  | none =>
    have hb := hbody st
    simp only [wrapPreO, wrapPostO, osz_nil, Nat.add_zero, List.nil_append, List.append_nil] at hb ⊢
    cases rin with
    | error e => exact hb
    | ok p => obtain ⟨v, c⟩ := p; exact hb
  | some c =>
    simp only [wrapPreO, wrapPostO] at hcode hbody ⊢
    have h1 : CodeAtO base code pc (.loadName c.name :: (body ++ [.call 1])) := by simpa using hcode
    have h3 : CodeAtO base code (pc + 2 + osz body) [.call 1] := by
      have := h1.tail
      simpa using this.right
    have r1 : ReachesG (stepO u base code) ⟨pc, 0, st, env, out⟩ ⟨pc + 2, 0, .cls c :: st, env, out⟩ :=
      exec_loadNameO h1 (lookup_cls henv c)
    have hb := hbody (.cls c :: st)
    simp only [osz_cons, osz_nil, Nat.add_zero] at hb
    cases rin with
    | error e => exact r1.halts hb
    | ok p =>
      obtain ⟨v, cl⟩ := p
      simp only [ExecSpecO] at hb
      have r2 := r1.trans hb
      have hf := h3.fetch
      simp only [bindWrap, applyWrap]
      cases hw : wrapCall c v with
      | error e =>
        simp only [ExecSpecO]
        exact r2.halts (HaltsG.now (by simp [stepO, hf, popArgs, hw, raise]))
      | ok v' =>
        simp only [ExecSpecO]
        refine r2.trans (ReachesG.step1 ?_)
        simp [stepO, hf, popArgs, hw]
        omega

/-- body placement inside a wrapped expression -/
theorem CodeAtO.body {base code pc w body} (h : CodeAtO base code pc (wrapPreO w ++ body ++ wrapPostO w)) :
    CodeAtO base code (pc + osz (wrapPreO w)) body := h.left.right

theorem jumpArgsO_spec {u T hi lo : Nat} (hu : u = 1 ∨ u = 2) (h : jumpArgsO u T = some (hi, lo)) (hT : T % 2 = 0) :
    u * ((0 * 256 + hi) * 256 + lo) = T := by
  unfold jumpArgsO at h
  simp only at h
  split at h
  · simp only [Option.some.injEq, Prod.mk.injEq] at h
    obtain ⟨h1, h2⟩ := h
    subst h1 h2
    rcases hu with rfl | rfl
    · have := Nat.div_add_mod (T / 1) 256
      simp at this ⊢
      omega
    · have := Nat.div_add_mod (T / 2) 256
      omega
  · simp at h

/-- the short-circuit pair `EXTENDED_ARG hi; JUMP_IF_FALSE_OR_POP lo` with an absolute target -/
theorem exec_jumpFO {u base : Nat} {code : List Instr} {pc : Nat} {st : List Val} {env : Env} {out : List (List Char)}
    {hi lo T : Nat} {v : Val} {cs}
    (hu : u = 1 ∨ u = 2) (h : CodeAtO base code pc (.extArg hi :: .jumpIfFalseOrPop lo :: cs))
    (hj : jumpArgsO u T = some (hi, lo)) (hT : T % 2 = 0) :
    ReachesG (stepO u base code) ⟨pc, 0, v :: st, env, out⟩
      (if truthy v then ⟨pc + 4, 0, st, env, out⟩ else ⟨T, 0, v :: st, env, out⟩) := by
  have f1 := h.fetch
  have f2 := h.tail.fetch
  have hs := jumpArgsO_spec hu hj hT
  have r1 : ReachesG (stepO u base code) ⟨pc, 0, v :: st, env, out⟩ ⟨pc + 2, 0 * 256 + hi, v :: st, env, out⟩ :=
    ReachesG.step1 (by simp [stepO, f1])
  refine r1.trans (ReachesG.step1 ?_)
  by_cases ht : truthy v
  · simp [stepO, f2, ht]
  · simp only [stepO, f2, ht]
    simp only [Bool.false_eq_true, if_false]
    rw [hs]

theorem exec_jumpTO {u base : Nat} {code : List Instr} {pc : Nat} {st : List Val} {env : Env} {out : List (List Char)}
    {hi lo T : Nat} {v : Val} {cs}
    (hu : u = 1 ∨ u = 2) (h : CodeAtO base code pc (.extArg hi :: .jumpIfTrueOrPop lo :: cs))
    (hj : jumpArgsO u T = some (hi, lo)) (hT : T % 2 = 0) :
    ReachesG (stepO u base code) ⟨pc, 0, v :: st, env, out⟩
      (if truthy v then ⟨T, 0, v :: st, env, out⟩ else ⟨pc + 4, 0, st, env, out⟩) := by
  have f1 := h.fetch
  have f2 := h.tail.fetch
  have hs := jumpArgsO_spec hu hj hT
  have r1 : ReachesG (stepO u base code) ⟨pc, 0, v :: st, env, out⟩ ⟨pc + 2, 0 * 256 + hi, v :: st, env, out⟩ :=
    ReachesG.step1 (by simp [stepO, f1])
  refine r1.trans (ReachesG.step1 ?_)
  by_cases ht : truthy v
  · simp only [stepO, f2, ht]
    simp only [if_true]
    rw [hs]
  · simp [stepO, f2, ht]

end ErgVerif.C13
